/-
  Property C20 — named collections, keyed lookups and configurations keep their identity rules.
  Theorems are about `Model/Coll.lean`.
-/
import SkyllhModel.Model.Coll
import SkyllhModel.Model.CollR7
import SkyllhModel.Generated.C20
import Mathlib.Tactic

open Coll

namespace C20

/-! ### bits -/

theorem and_eq_iff (s m : ℕ) : s &&& m = m ↔ ∀ i, m.testBit i = true → s.testBit i = true := by
  constructor
  · intro h i hi
    have := congrArg (fun x => x.testBit i) h
    simp only [Nat.testBit_and, hi, Bool.and_true] at this
    exact this
  · intro h
    apply Nat.eq_of_testBit_eq
    intro i
    rw [Nat.testBit_and]
    cases hm : m.testBit i
    · simp
    · simp [h i hm]

theorem and_ne_zero_iff (s m : ℕ) : s &&& m ≠ 0 ↔ ∃ i, m.testBit i = true ∧ s.testBit i = true := by
  constructor
  · intro h
    obtain ⟨i, hi⟩ := Nat.exists_testBit_of_ne_zero h
    rw [Nat.testBit_and, Bool.and_eq_true] at hi
    exact ⟨i, hi.2, hi.1⟩
  · rintro ⟨i, hm, hs⟩ h0
    have : (s &&& m).testBit i = true := by rw [Nat.testBit_and, hm, hs]; rfl
    rw [h0, Nat.zero_testBit] at this
    exact Bool.false_ne_true this

end C20

/-- **and_check** is exactly "all bits of the mask are set in the stage". -/
theorem c20_and_iff_bits (s m : ℕ) :
    andCheck s m = true ↔ ∀ i, m.testBit i = true → s.testBit i = true := by
  unfold andCheck
  rw [beq_iff_eq]
  exact C20.and_eq_iff s m

/-- **or_check** is exactly "some bit of the mask is set in the stage". -/
theorem c20_or_iff_bits (s m : ℕ) :
    orCheck s m = true ↔ ∃ i, m.testBit i = true ∧ s.testBit i = true := by
  unfold orCheck
  rw [bne_iff_ne]
  exact C20.and_ne_zero_iff s m

/-- sequence form of and_check: every mask of the sequence passes and_check -/
theorem c20_and_seq_iff (s : ℕ) (ms : List ℕ) :
    andCheckSeq s ms = true ↔ ∀ m ∈ ms, andCheck s m = true := by
  induction ms with
  | nil => simp [andCheckSeq]
  | cons m t ih =>
    unfold andCheckSeq
    by_cases h : s &&& m = m
    · simp [h, ih, andCheck]
    · simp [h, andCheck]

/-- sequence form of or_check: some mask of the sequence passes or_check -/
theorem c20_or_seq_iff (s : ℕ) (ms : List ℕ) :
    orCheckSeq s ms = true ↔ ∃ m ∈ ms, orCheck s m = true := by
  induction ms with
  | nil => simp [orCheckSeq]
  | cons m t ih =>
    unfold orCheckSeq
    by_cases h : s &&& m = 0
    · simp [h, ih, orCheck]
    · simp [h, orCheck]

/-- sequence forms in bit language: all bits of all masks / some bit of some mask -/
theorem c20_seq_iff_bits (s : ℕ) (ms : List ℕ) :
    (andCheckSeq s ms = true ↔ ∀ m ∈ ms, ∀ i, m.testBit i = true → s.testBit i = true) ∧
    (orCheckSeq s ms = true ↔ ∃ m ∈ ms, ∃ i, m.testBit i = true ∧ s.testBit i = true) := by
  constructor
  · rw [c20_and_seq_iff]; simp only [c20_and_iff_bits]
  · rw [c20_or_seq_iff]; simp only [c20_or_iff_bits]

/-- the sequence forms agree with the integer form on the bitwise union of the masks -/
theorem c20_seq_eq_union (s : ℕ) (ms : List ℕ) :
    andCheckSeq s ms = andCheck s (ms.foldr (· ||| ·) 0) ∧
    orCheckSeq s ms = orCheck s (ms.foldr (· ||| ·) 0) := by
  induction ms with
  | nil => simp [andCheckSeq, orCheckSeq, andCheck, orCheck]
  | cons m t ih =>
    have hA : andCheck s (m ||| t.foldr (· ||| ·) 0) = (andCheck s m && andCheck s (t.foldr (· ||| ·) 0)) := by
      rw [Bool.eq_iff_iff, Bool.and_eq_true]
      simp only [c20_and_iff_bits, Nat.testBit_or, Bool.or_eq_true]
      constructor
      · intro h; exact ⟨fun i hi => h i (Or.inl hi), fun i hi => h i (Or.inr hi)⟩
      · rintro ⟨h1, h2⟩ i (hi | hi)
        · exact h1 i hi
        · exact h2 i hi
    have hO : orCheck s (m ||| t.foldr (· ||| ·) 0) = (orCheck s m || orCheck s (t.foldr (· ||| ·) 0)) := by
      rw [Bool.eq_iff_iff, Bool.or_eq_true]
      simp only [c20_or_iff_bits, Nat.testBit_or, Bool.or_eq_true]
      constructor
      · rintro ⟨i, hi | hi, hs⟩
        · exact Or.inl ⟨i, hi, hs⟩
        · exact Or.inr ⟨i, hi, hs⟩
      · rintro (⟨i, hi, hs⟩ | ⟨i, hi, hs⟩)
        · exact ⟨i, Or.inl hi, hs⟩
        · exact ⟨i, Or.inr hi, hs⟩
    constructor
    · show andCheckSeq s (m :: t) = andCheck s (m ||| t.foldr (· ||| ·) 0)
      rw [hA, ← ih.1]
      by_cases h : s &&& m = m <;> simp [andCheckSeq, h, andCheck]
    · show orCheckSeq s (m :: t) = orCheck s (m ||| t.foldr (· ||| ·) 0)
      rw [hO, ← ih.2]
      by_cases h : s &&& m = 0 <;> simp [orCheckSeq, h, orCheck]

/-- the complete 16 × 16 stage / mask table (four stage bits), checked bit by bit -/
theorem c20_stage_table :
    ∀ s ∈ List.range 16, ∀ m ∈ List.range 16,
      andCheck s m = (List.range 4).all (fun i => !m.testBit i || s.testBit i) ∧
      orCheck s m = (List.range 4).any (fun i => m.testBit i && s.testBit i) := by
  decide

/-- **get_joint_names**: exactly the fields whose stage matches, in the order of the dictionary -/
theorem c20_joint_names {N : Type} (fields : List (N × ℕ)) (st : Stages) :
    (jointNames fields st).Sublist (fields.map Prod.fst) ∧
    ∀ n, n ∈ jointNames fields st ↔ ∃ stage, (n, stage) ∈ fields ∧ orCheckS stage st = true := by
  refine ⟨?_, ?_⟩
  · unfold jointNames
    exact List.Sublist.map _ List.filter_sublist
  · intro n
    unfold jointNames
    simp only [List.mem_map, List.mem_filter]
    constructor
    · rintro ⟨⟨a, b⟩, ⟨hm, ho⟩, rfl⟩; exact ⟨b, hm, ho⟩
    · rintro ⟨b, hm, ho⟩; exact ⟨(n, b), ⟨hm, ho⟩, rfl⟩

/-- the stage constants of the current source are four different single bits: a stage value can
carry any subset of them and a check for one never answers for another -/
theorem c20_stage_bits_for_current_source :
    Gen.C20.stageBits.Pairwise (fun a b => a &&& b = 0) ∧ (∀ b ∈ Gen.C20.stageBits, b ≠ 0) ∧
    (∀ a ∈ Gen.C20.stageBits, ∀ b ∈ Gen.C20.stageBits, orCheck a b = true ↔ a = b) := by
  decide

example : andCheck 5 4 = true ∧ andCheck 5 6 = false ∧ orCheck 5 6 = true ∧ orCheck 5 10 = false := by decide

/-! ### ordered dictionary lemmas -/

namespace C20

section od
variable {K V : Type} [DecidableEq K]

theorem odGet_odSet_self (d : List (K × V)) (k : K) (v : V) : odGet (odSet d k v) k = some v := by
  induction d with
  | nil => simp [odSet, odGet]
  | cons p t ih =>
    obtain ⟨k', v'⟩ := p
    by_cases h : k' = k <;> simp [odSet, odGet, h, ih]

theorem odGet_odSet_ne (d : List (K × V)) (k k' : K) (v : V) (hne : k ≠ k') :
    odGet (odSet d k v) k' = odGet d k' := by
  induction d with
  | nil => simp [odSet, odGet, hne]
  | cons p t ih =>
    obtain ⟨k₁, v₁⟩ := p
    by_cases h : k₁ = k
    · subst h; simp [odSet, odGet, hne]
    · by_cases h' : k₁ = k'
      · subst h'; simp [odSet, odGet, h]
      · simp [odSet, odGet, h, h', ih]

theorem odKeys_odSet (d : List (K × V)) (k : K) (v : V) :
    odKeys (odSet d k v) = if k ∈ odKeys d then odKeys d else odKeys d ++ [k] := by
  induction d with
  | nil => simp [odSet, odKeys]
  | cons p t ih =>
    obtain ⟨k₁, v₁⟩ := p
    by_cases h : k₁ = k
    · subst h; simp [odSet, odKeys]
    · have h' : ¬ k = k₁ := fun e => h e.symm
      unfold odKeys at ih ⊢
      simp only [odSet, h, if_false, List.map_cons, List.mem_cons, h', false_or, ih]
      split <;> simp

theorem odSet_mem_keys (d : List (K × V)) (k k' : K) (v : V) (h : k' ∈ odKeys d) :
    k' ∈ odKeys (odSet d k v) := by
  rw [odKeys_odSet]; split
  · exact h
  · exact List.mem_append_left _ h

theorem odKeys_nodup_odSet (d : List (K × V)) (k : K) (v : V) (h : (odKeys d).Nodup) :
    (odKeys (odSet d k v)).Nodup := by
  rw [odKeys_odSet]; split
  · exact h
  · rename_i hk
    exact List.Nodup.append h (by simp) (by simpa using hk)

theorem odSet_odSet_same (d : List (K × V)) (k : K) (v v' : V) :
    odSet (odSet d k v') k v = odSet d k v := by
  induction d with
  | nil => simp [odSet]
  | cons p t ih =>
    obtain ⟨k₁, v₁⟩ := p
    by_cases h : k₁ = k <;> simp [odSet, h, ih]

theorem odSet_comm (d : List (K × V)) (k k₁ : K) (v v₁ : V) (hk : k ∈ odKeys d) (hne : k ≠ k₁) :
    odSet (odSet d k₁ v₁) k v = odSet (odSet d k v) k₁ v₁ := by
  induction d with
  | nil => simp [odKeys] at hk
  | cons p t ih =>
    obtain ⟨k₂, v₂⟩ := p
    by_cases h1 : k₂ = k
    · subst h1; simp [odSet, hne]
    · have hk' : k ∈ odKeys t := by
        have : k = k₂ ∨ k ∈ odKeys t := by simpa [odKeys] using hk
        rcases this with e | e
        · exact absurd e.symm h1
        · exact e
      by_cases h2 : k₂ = k₁
      · subst h2; simp [odSet, h1]
      · simp [odSet, h1, h2, ih hk']

theorem odUpdate_nil (d : List (K × V)) : odUpdate d [] = d := rfl

theorem odUpdate_cons (d : List (K × V)) (p : K × V) (t : List (K × V)) :
    odUpdate d (p :: t) = odUpdate (odSet d p.1 p.2) t := rfl

theorem odUpdate_append (d e₁ e₂ : List (K × V)) :
    odUpdate d (e₁ ++ e₂) = odUpdate (odUpdate d e₁) e₂ := by
  unfold odUpdate; rw [List.foldl_append]

/-- a key that is already present can be (re)set before or after setting other keys -/
theorem odSet_odUpdate_comm (t : List (K × V)) :
    ∀ (d : List (K × V)) (k : K) (v : V), k ∈ odKeys d → k ∉ odKeys t →
      odSet (odUpdate d t) k v = odUpdate (odSet d k v) t := by
  induction t with
  | nil => intro d k v _ _; rfl
  | cons p t ih =>
    intro d k v hk hnk
    obtain ⟨k₁, v₁⟩ := p
    have hne : k ≠ k₁ := by intro e; apply hnk; simp [odKeys, e]
    have hnt : k ∉ odKeys t := by intro e; apply hnk; simp only [odKeys, List.map_cons, List.mem_cons]; exact Or.inr e
    rw [odUpdate_cons, odUpdate_cons]
    rw [ih (odSet d k₁ v₁) k v (odSet_mem_keys d k₁ k v₁ hk) hnt, odSet_comm d k k₁ v v₁ hk hne]

/-- updating by a dictionary in which one key was set = update, then set -/
theorem odUpdate_odSet (e : List (K × V)) :
    ∀ (d : List (K × V)) (k : K) (v : V), (odKeys e).Nodup →
      odUpdate d (odSet e k v) = odSet (odUpdate d e) k v := by
  induction e with
  | nil => intro d k v _; rfl
  | cons p t ih =>
    intro d k v hn
    obtain ⟨k₁, v₁⟩ := p
    have hn' : k₁ ∉ odKeys t ∧ (odKeys t).Nodup := by simpa [odKeys] using hn
    by_cases h : k₁ = k
    · subst h
      simp only [odSet, if_true, odUpdate_cons]
      rw [odSet_odUpdate_comm t (odSet d k₁ v₁) k₁ v (by rw [odKeys_odSet]; split <;> simp_all) hn'.1,
        odSet_odSet_same]
    · simp only [odSet, h, if_false, odUpdate_cons]
      exact ih _ _ _ hn'.2

theorem odKeys_nodup_odOfPairs (l : List (K × V)) : (odKeys (odOfPairs l)).Nodup := by
  induction l using List.reverseRecOn with
  | nil => simp [odOfPairs, odUpdate, odKeys]
  | append_singleton l p ih =>
    unfold odOfPairs at ih ⊢
    rw [odUpdate_append, odUpdate_cons, odUpdate_nil]
    exact odKeys_nodup_odSet _ _ _ ih

/-- `d.update(OrderedDict(pairs))` = setting the pairs one after the other -/
theorem odUpdate_odOfPairs (d l : List (K × V)) : odUpdate d (odOfPairs l) = odUpdate d l := by
  induction l using List.reverseRecOn with
  | nil => rfl
  | append_singleton l p ih =>
    have : odOfPairs (l ++ [p]) = odSet (odOfPairs l) p.1 p.2 := by
      unfold odOfPairs; rw [odUpdate_append, odUpdate_cons, odUpdate_nil]
    rw [this, odUpdate_odSet _ _ _ _ (odKeys_nodup_odOfPairs l), ih, odUpdate_append, odUpdate_cons,
      odUpdate_nil]

end od

/-! ### dictionary hash -/

section hash
variable {K V : Type} [LinearOrder K]

theorem insertItem_perm (x : K × V) (l : List (K × V)) : (insertItem x l).Perm (x :: l) := by
  induction l with
  | nil => simp [insertItem]
  | cons y t ih =>
    unfold insertItem
    split
    · exact List.Perm.refl _
    · exact ((List.Perm.cons y ih).trans (List.Perm.swap x y t))

theorem canon_perm (d : List (K × V)) : (canon d).Perm d := by
  induction d with
  | nil => simp [canon]
  | cons x t ih =>
    show (insertItem x (canon t)).Perm (x :: t)
    exact (insertItem_perm x _).trans (List.Perm.cons x ih)

theorem insertItem_sorted (x : K × V) (l : List (K × V)) (h : l.Pairwise (fun a b => a.1 ≤ b.1)) :
    (insertItem x l).Pairwise (fun a b => a.1 ≤ b.1) := by
  induction l with
  | nil => simp [insertItem]
  | cons y t ih =>
    unfold insertItem
    rw [List.pairwise_cons] at h
    split
    · rename_i hxy
      refine List.Pairwise.cons ?_ (List.Pairwise.cons h.1 h.2)
      intro b hb
      rcases List.mem_cons.mp hb with rfl | hb
      · exact hxy
      · exact le_trans hxy (h.1 b hb)
    · rename_i hxy
      refine List.Pairwise.cons ?_ (ih h.2)
      intro b hb
      have := (insertItem_perm x t).mem_iff.mp hb
      rcases List.mem_cons.mp this with rfl | hb
      · exact le_of_lt (not_le.mp hxy)
      · exact h.1 b hb

theorem canon_sorted (d : List (K × V)) : (canon d).Pairwise (fun a b => a.1 ≤ b.1) := by
  induction d with
  | nil => simp [canon]
  | cons x t ih => exact insertItem_sorted x _ ih

theorem canon_eq_of_perm (d₁ d₂ : List (K × V)) (hp : d₁.Perm d₂) (hn : (d₁.map Prod.fst).Nodup) :
    canon d₁ = canon d₂ := by
  apply List.Perm.eq_of_pairwise (le := fun a b => a.1 ≤ b.1)
  · intro a b ha hb hab hba
    have ha' : a ∈ d₁ := (canon_perm d₁).mem_iff.mp ha
    have hb' : b ∈ d₁ := hp.mem_iff.mpr ((canon_perm d₂).mem_iff.mp hb)
    exact List.inj_on_of_nodup_map hn ha' hb' (le_antisymm hab hba)
  · exact canon_sorted d₁
  · exact canon_sorted d₂
  · exact (canon_perm d₁).trans (hp.trans (canon_perm d₂).symm)

end hash
end C20

section hashthms
variable {K V H P : Type} [LinearOrder K]

/-- **make_dict_hash** (fixed code) does not depend on the order in which the dictionary was
filled: permuted item sequences with distinct keys get the same key, whatever `hash` is. -/
theorem c20_hash_order_indep (h : List (K × V) → H) (d₁ d₂ : List (K × V)) (hp : d₁.Perm d₂)
    (hn : (d₁.map Prod.fst).Nodup) : hashKey h d₁ = hashKey h d₂ := by
  unfold hashKey; rw [C20.canon_eq_of_perm d₁ d₂ hp hn]

example : ([("gamma", 2), ("E0", 1)] : List (String × ℕ)).Perm [("E0", 1), ("gamma", 2)] ∧
    (([("gamma", 2), ("E0", 1)] : List (String × ℕ)).map Prod.fst).Nodup := by decide

/-- the statement for the pinned code `hash(tuple(d.items()))` … -/
def c20_hash_old_order_indep_statement : Prop :=
  ∀ (h : List (ℕ × ℕ) → List (ℕ × ℕ)), Function.Injective h → ∀ d₁ d₂ : List (ℕ × ℕ),
    d₁.Perm d₂ → (d₁.map Prod.fst).Nodup → hashKeyOld h d₁ = hashKeyOld h d₂

/-- … fails for every collision-free hash: witness `{a:1, b:2}` vs `{b:2, a:1}` (replayed on the
real code by the `hash_order` oracle; repaired by a `fix:` commit). -/
theorem c20_hash_old_counterexample : ¬ c20_hash_old_order_indep_statement := by
  intro hs
  have := hs id Function.injective_id [(0, 1), (1, 2)] [(1, 2), (0, 1)] (by decide) (by decide)
  simp [hashKeyOld] at this

variable [DecidableEq H]

/-- **PDFSet**: a PDF added under one filling order is found under every other one. -/
theorem c20_pdfset_get_after_add (h : List (K × V) → H) (s s' : List (H × P)) (d₁ d₂ : List (K × V))
    (p : P) (hadd : addPdf h s d₁ p = some s') (hp : d₁.Perm d₂) (hn : (d₁.map Prod.fst).Nodup) :
    getPdf h s' d₂ = some p := by
  unfold addPdf at hadd
  unfold getPdf
  rw [← c20_hash_order_indep h d₁ d₂ hp hn]
  split at hadd
  · exact absurd hadd (by simp)
  · simp only [Option.some.injEq] at hadd
    rw [← hadd, C20.odGet_odSet_self]

/-- **PDFSet**: a second PDF for the same grid point is rejected whatever the filling order. -/
theorem c20_pdfset_add_twice_raises (h : List (K × V) → H) (s s' : List (H × P)) (d₁ d₂ : List (K × V))
    (p q : P) (hadd : addPdf h s d₁ p = some s') (hp : d₁.Perm d₂) (hn : (d₁.map Prod.fst).Nodup) :
    addPdf h s' d₂ q = none := by
  have hg := c20_pdfset_get_after_add h s s' d₁ d₂ p hadd hp hn
  unfold getPdf at hg
  unfold addPdf
  rw [hg]

/-- **PDFSet**: adding a PDF leaves the lookup of every other key as it was. -/
theorem c20_pdfset_add_keeps_others (h : List (K × V) → H) (s s' : List (H × P)) (d₁ d₃ : List (K × V))
    (p : P) (hadd : addPdf h s d₁ p = some s') (hne : hashKey h d₁ ≠ hashKey h d₃) :
    getPdf h s' d₃ = getPdf h s d₃ := by
  unfold addPdf at hadd
  unfold getPdf
  split at hadd
  · exact absurd hadd (by simp)
  · simp only [Option.some.injEq] at hadd
    rw [← hadd, C20.odGet_odSet_ne _ _ _ _ hne]

example : addPdf (K := ℕ) (V := ℕ) (P := ℕ) id [] [(1, 5), (0, 7)] 3 = some [([(0, 7), (1, 5)], 3)] := by decide


omit [DecidableEq H] in
/-- **separation**: with a collision-free `hash`, equal keys mean the same items — the key forgets
neither a key nor a value (a model / code hashing the keys only fails this). -/
theorem c20_hash_separates (h : List (K × V) → H) (hinj : Function.Injective h) (d₁ d₂ : List (K × V))
    (he : hashKey h d₁ = hashKey h d₂) : d₁.Perm d₂ := by
  unfold hashKey at he
  have := hinj he
  exact (C20.canon_perm d₁).symm.trans (this ▸ C20.canon_perm d₂)

example : Function.Injective (id : List (ℕ × ℕ) → List (ℕ × ℕ)) := Function.injective_id

/-- **PDFSet**: adding a PDF for one grid point leaves the lookup of every *different* grid point
as it was (no hypothesis on the keys: it follows from the separation). -/
theorem c20_pdfset_add_keeps_other_points (h : List (K × V) → H) (hinj : Function.Injective h)
    (s s' : List (H × P)) (d₁ d₃ : List (K × V)) (p : P) (hadd : addPdf h s d₁ p = some s')
    (hnp : ¬ d₁.Perm d₃) : getPdf h s' d₃ = getPdf h s d₃ :=
  c20_pdfset_add_keeps_others h s s' d₁ d₃ p hadd (fun he => hnp (c20_hash_separates h hinj d₁ d₃ he))

/-- **PDFSet**: in a set holding one PDF, any different grid point is not found -/
theorem c20_pdfset_get_other_none (h : List (K × V) → H) (hinj : Function.Injective h)
    (s' : List (H × P)) (d₁ d₃ : List (K × V)) (p : P) (hadd : addPdf h [] d₁ p = some s')
    (hnp : ¬ d₁.Perm d₃) : getPdf h s' d₃ = none := by
  rw [c20_pdfset_add_keeps_other_points h hinj [] s' d₁ d₃ p hadd hnp]
  rfl

example : ¬ ([(0, 1)] : List (ℕ × ℕ)).Perm [(0, 2)] := by decide

/-! #### the current `make_dict_hash`: values enter through `_value_repr` (`normVal`) -/

omit [LinearOrder K] [DecidableEq H] in
theorem C20.normItems_keys (d : List (K × PyVal)) : (normItems d).map Prod.fst = d.map Prod.fst := by
  simp [normItems, Function.comp_def]

omit [DecidableEq H] in
/-- the dictionary key of the current code does not depend on the filling order -/
theorem c20_grid_key_order_indep (h : List (K × PyVal) → H) (d₁ d₂ : List (K × PyVal))
    (hp : d₁.Perm d₂) (hn : (d₁.map Prod.fst).Nodup) : gridKey h d₁ = gridKey h d₂ := by
  unfold gridKey
  exact c20_hash_order_indep h _ _ (hp.map _) (by rw [C20.normItems_keys]; exact hn)

omit [DecidableEq H] in
/-- … depends on the values only through `_value_repr` (so `2`, `2.0`, `numpy.float32(2)` agree) … -/
theorem c20_grid_key_value_classes (h : List (K × PyVal) → H) (d₁ d₂ : List (K × PyVal))
    (hv : normItems d₁ = normItems d₂) : gridKey h d₁ = gridKey h d₂ := by
  unfold gridKey; rw [hv]

omit [DecidableEq H] in
/-- … and separates everything else: equal keys ⇒ the same keys with the same normalised values -/
theorem c20_grid_key_separates (h : List (K × PyVal) → H) (hinj : Function.Injective h)
    (d₁ d₂ : List (K × PyVal)) (he : gridKey h d₁ = gridKey h d₂) : (normItems d₁).Perm (normItems d₂) :=
  c20_hash_separates h hinj _ _ he

omit [LinearOrder K] [DecidableEq H] in
/-- `_value_repr`: an integer (bool, numpy integer) whose float value is the same number is
represented like that float -/
theorem c20_normVal_number (i : Int) (b : Nat) : normVal (.int i (some b)) = normVal (.flt b) := rfl

omit [LinearOrder K] [DecidableEq H] in
/-- `_value_repr` keeps different floats apart (only the NaNs and the two zeros are identified) -/
theorem c20_normVal_flt_inj (a b : Nat) (ha : isNaNBits a = false) (hb : isNaNBits b = false)
    (ha0 : a ≠ 2 ^ 63) (hb0 : b ≠ 2 ^ 63) (he : normVal (.flt a) = normVal (.flt b)) : a = b := by
  simp only [normVal, normBits, ha, hb, Bool.false_eq_true, if_false, PyVal.flt.injEq] at he
  rw [if_neg ha0, if_neg hb0] at he
  exact he

omit [LinearOrder K] [DecidableEq H] in
/-- numbers, non-representable integers and other values never get the same representation -/
theorem c20_normVal_kinds (a : Nat) (i : Int) (c : Nat) :
    normVal (.flt a) ≠ normVal (.int i none) ∧ normVal (.flt a) ≠ normVal (.other c) ∧
    normVal (.int i none) ≠ normVal (.other c) := by
  simp [normVal]

-- 2 (int, exactly 2.0), 2.0, -0.0 / 0.0, two NaNs, two neighbouring floats
example : normVal (.int 2 (some 0x4000000000000000)) = normVal (.flt 0x4000000000000000) ∧
    normVal (.flt (2 ^ 63)) = normVal (.flt 0) ∧
    normVal (.flt 0x7ff8000000000001) = normVal (.flt 0xfff8000000000000) ∧
    normVal (.flt 0x4000000000000000) ≠ normVal (.flt 0x4000000000000001) := by decide

end hashthms

/-! ### named collections: the index is a function of the object list -/

namespace C20
section coll
variable {N : Type} [DecidableEq N] [TyRel]

omit [DecidableEq N] in
theorem namePairs_append (l₁ : List (Obj N)) : ∀ (p : Nat) (l₂ : List (Obj N)),
    namePairs p (l₁ ++ l₂) = namePairs p l₁ ++ namePairs (p + l₁.length) l₂ := by
  induction l₁ with
  | nil => intro p l₂; simp [namePairs]
  | cons o t ih =>
    intro p l₂
    simp only [List.cons_append, namePairs, ih, List.length_cons]
    rw [Nat.add_assoc, Nat.add_comm 1]

omit [DecidableEq N] in
theorem odKeys_namePairs (l : List (Obj N)) : ∀ p, odKeys (namePairs p l) = l.map (·.name) := by
  induction l with
  | nil => intro p; rfl
  | cons o t ih => intro p; simp only [namePairs, odKeys, List.map_cons] at ih ⊢; rw [ih]

/-- `add`: updating the old index with the index of the appended objects = rebuilding it -/
theorem createIdx_extend (objs xs : List (Obj N)) :
    odUpdate (createIdx objs 0) (createIdx (objs ++ xs) objs.length) = createIdx (objs ++ xs) 0 := by
  unfold createIdx
  rw [List.drop_zero, List.drop_zero, List.drop_left, odUpdate_odOfPairs, namePairs_append]
  unfold odOfPairs
  rw [odUpdate_append, Nat.zero_add]

theorem odGet_update_namePairs (objs : List (Obj N)) : ∀ (d : List (N × Nat)) (p : Nat) (n : N),
    odGet (odUpdate d (namePairs p objs)) n =
      (match lastIdxFrom p objs n with | some q => some q | none => odGet d n) := by
  induction objs with
  | nil => intro d p n; simp [namePairs, odUpdate_nil, lastIdxFrom]
  | cons o t ih =>
    intro d p n
    simp only [namePairs, odUpdate_cons, ih, lastIdxFrom]
    cases h : lastIdxFrom (p + 1) t n with
    | some q => rfl
    | none =>
      by_cases hn : o.name = n
      · subst hn; simp [odGet_odSet_self]
      · simp [hn, odGet_odSet_ne _ _ _ _ hn]

/-- lookup in the rebuilt index = position of the last object of that name -/
theorem odGet_createIdx (objs : List (Obj N)) (n : N) :
    odGet (createIdx objs 0) n = lastIdxFrom 0 objs n := by
  unfold createIdx odOfPairs
  rw [List.drop_zero, odGet_update_namePairs]
  cases lastIdxFrom 0 objs n <;> simp [odGet]

theorem lastIdxFrom_sound (objs : List (Obj N)) : ∀ (p q : Nat) (n : N), lastIdxFrom p objs n = some q →
    ∃ i o, q = p + i ∧ objs[i]? = some o ∧ o.name = n := by
  induction objs with
  | nil => intro p q n h; simp [lastIdxFrom] at h
  | cons o t ih =>
    intro p q n h
    simp only [lastIdxFrom] at h
    cases h' : lastIdxFrom (p + 1) t n with
    | some q' =>
      rw [h'] at h
      obtain ⟨i, o', hq, hi, hn⟩ := ih (p + 1) q' n h'
      refine ⟨i + 1, o', ?_, by simpa using hi, hn⟩
      simp only [Option.some.injEq] at h; omega
    | none =>
      rw [h'] at h
      by_cases hn : o.name = n
      · simp only [hn, if_true, Option.some.injEq] at h
        exact ⟨0, o, by omega, by simp, hn⟩
      · simp [hn] at h

theorem lastIdxFrom_none (objs : List (Obj N)) : ∀ (p : Nat) (n : N), n ∉ objs.map (·.name) →
    lastIdxFrom p objs n = none := by
  induction objs with
  | nil => intro p n _; rfl
  | cons o t ih =>
    intro p n h
    have h1 : ¬ o.name = n := by intro e; apply h; simp [e]
    have h2 : n ∉ t.map (·.name) := by intro e; apply h; simp only [List.map_cons, List.mem_cons]; exact Or.inr e
    simp [lastIdxFrom, ih (p + 1) n h2, h1]

theorem lastIdxFrom_isSome (objs : List (Obj N)) : ∀ (p : Nat) (n : N), n ∈ objs.map (·.name) →
    (lastIdxFrom p objs n).isSome = true := by
  induction objs with
  | nil => intro p n h; simp at h
  | cons o t ih =>
    intro p n h
    simp only [lastIdxFrom]
    cases h' : lastIdxFrom (p + 1) t n with
    | some q => rfl
    | none =>
      by_cases hn : o.name = n
      · simp [hn]
      · have : n ∈ t.map (·.name) := by
          simp only [List.map_cons, List.mem_cons] at h
          rcases h with e | e
          · exact absurd e.symm hn
          · exact e
        have := ih (p + 1) n this
        rw [h'] at this; simp at this

theorem lastIdxFrom_nodup (objs : List (Obj N)) : ∀ (p i : Nat) (o : Obj N), (objs.map (·.name)).Nodup →
    objs[i]? = some o → lastIdxFrom p objs o.name = some (p + i) := by
  induction objs with
  | nil => intro p i o _ h; simp at h
  | cons a t ih =>
    intro p i o hn h
    have hn' : a.name ∉ t.map (·.name) ∧ (t.map (·.name)).Nodup := by simpa using hn
    cases i with
    | zero =>
      simp only [List.getElem?_cons_zero, Option.some.injEq] at h
      subst h
      simp [lastIdxFrom, lastIdxFrom_none t (p + 1) a.name hn'.1]
    | succ i =>
      simp only [List.getElem?_cons_succ] at h
      simp only [lastIdxFrom, ih (p + 1) i o hn'.2 h]
      congr 1; omega

theorem odKeys_update_fresh (l : List (N × Nat)) : ∀ d : List (N × Nat), (odKeys l).Nodup →
    (∀ k ∈ odKeys l, k ∉ odKeys d) → odKeys (odUpdate d l) = odKeys d ++ odKeys l := by
  induction l with
  | nil => intro d _ _; simp [odUpdate_nil, odKeys]
  | cons p t ih =>
    intro d hn hf
    obtain ⟨k, v⟩ := p
    have hn' : k ∉ odKeys t ∧ (odKeys t).Nodup := by simpa [odKeys] using hn
    have hk : k ∉ odKeys d := hf k (by simp [odKeys])
    rw [odUpdate_cons, ih _ hn'.2]
    · simp only [odKeys_odSet, hk, if_false]
      simp [odKeys]
    · intro k' hk'
      simp only [odKeys_odSet, hk, if_false, List.mem_append, List.mem_singleton, not_or]
      refine ⟨hf k' ?_, ?_⟩
      · simp only [odKeys, List.map_cons, List.mem_cons]; exact Or.inr hk'
      · intro e; subst e; exact hn'.1 hk'

/-- with distinct names the keys of the rebuilt index are the names in positional order -/
theorem odKeys_createIdx (objs : List (Obj N)) (hn : (objs.map (·.name)).Nodup) :
    odKeys (createIdx objs 0) = objs.map (·.name) := by
  unfold createIdx odOfPairs
  rw [List.drop_zero, odKeys_update_fresh _ _ (by rw [odKeys_namePairs]; exact hn) (by simp [odKeys]),
    odKeys_namePairs]
  simp [odKeys]

end coll
end C20

/-! ### the world of collections: nothing is shared, every collection behaves like its own list -/

namespace C20
section world
variable {N : Type} [DecidableEq N] [TyRel]

/-- an in-place mutation through an identity that only one element carries changes that element -/
theorem map_ite_eq_set {α : Type} (key : α → Nat) (f : α → α) (l : List α) (j : Nat) (c : α) (kv : Nat)
    (hkv : key c = kv) (hinj : ∀ i a, l[i]? = some a → key a = kv → i = j) (hj : l[j]? = some c) :
    l.map (fun x => if key x = kv then f x else x) = l.set j (f c) := by
  apply List.ext_getElem?
  intro i
  rw [List.getElem?_map, List.getElem?_set]
  by_cases hij : j = i
  · subst hij
    obtain ⟨hlt, hc⟩ := List.getElem?_eq_some_iff.mp hj
    simp [hlt, hc, hkv]
  · simp only [hij, if_false]
    cases h : l[i]? with
    | none => rfl
    | some a =>
      have : key a ≠ kv := fun e => hij (hinj i a h e).symm
      simp [this]

/-- invariant of the world: list and dictionary identities are not shared, all identities are below
the allocation counter, and every name index is the one rebuilt from the object list -/
structure WInv (w : World N) : Prop where
  oInj : ∀ (i j : Nat) (a b : C N), w.colls[i]? = some a → w.colls[j]? = some b → a.oloc = b.oloc → i = j
  iInj : ∀ (i j : Nat) (a b : C N), w.colls[i]? = some a → w.colls[j]? = some b → a.iloc = b.iloc → i = j
  lt : ∀ (i : Nat) (a : C N), w.colls[i]? = some a → a.oloc < w.next ∧ a.iloc < w.next
  coh : ∀ (i : Nat) (a : C N), w.colls[i]? = some a → a.idx = createIdx a.objects 0

/-- collection `c` after `add` of the objects `xs` -/
def extended (c : C N) (xs : List (Obj N)) : C N :=
  { c with objects := c.objects ++ xs, idx := odUpdate c.idx (createIdx (c.objects ++ xs) c.objects.length) }

omit [DecidableEq N] in
theorem setIdxAt_eq (cs : List (C N)) (j : Nat) (c : C N) (d : List (N × Nat))
    (hi : ∀ i a, cs[i]? = some a → a.iloc = c.iloc → i = j) (hj : cs[j]? = some c) :
    setIdxAt cs c.iloc d = cs.set j { c with idx := d } := by
  unfold setIdxAt
  exact map_ite_eq_set C.iloc (fun x => { x with idx := d }) cs j c c.iloc rfl hi hj

omit [DecidableEq N] in
theorem setObjects_eq (cs : List (C N)) (j : Nat) (c : C N) (objs : List (Obj N))
    (ho : ∀ i a, cs[i]? = some a → a.oloc = c.oloc → i = j) (hj : cs[j]? = some c) :
    setObjects cs c.oloc objs = cs.set j { c with objects := objs } := by
  unfold setObjects
  exact map_ite_eq_set C.oloc (fun x => { x with objects := objs }) cs j c c.oloc rfl ho hj

theorem extendAt_eq (cs : List (C N)) (j : Nat) (c : C N) (xs : List (Obj N))
    (ho : ∀ i a, cs[i]? = some a → a.oloc = c.oloc → i = j)
    (hi : ∀ i a, cs[i]? = some a → a.iloc = c.iloc → i = j) (hj : cs[j]? = some c) :
    extendAt cs c xs = cs.set j (extended c xs) := by
  have hlt : j < cs.length := (List.getElem?_eq_some_iff.mp hj).1
  show setIdxAt (setObjects cs c.oloc (c.objects ++ xs)) c.iloc _ = _
  rw [setObjects_eq cs j c _ ho hj]
  have h2 := setIdxAt_eq (cs.set j { c with objects := c.objects ++ xs }) j
    { c with objects := c.objects ++ xs }
    (odUpdate c.idx (createIdx (c.objects ++ xs) c.objects.length)) ?_ (by simp [hlt])
  · rw [h2, List.set_set]; rfl
  · intro i a ha hia
    by_cases hij : j = i
    · exact hij.symm
    · rw [List.getElem?_set_ne hij] at ha
      exact hi i a ha hia

/-- replacing collection `j` by one with the same list identity, an index identity that is the
old one or a new one, and a coherent index keeps the invariant -/
theorem winv_set (w : World N) (hw : WInv w) (j : Nat) (c c2 : C N) (n' : Nat)
    (hj : w.colls[j]? = some c) (ho : c2.oloc = c.oloc)
    (hi : c2.iloc = c.iloc ∨ w.next ≤ c2.iloc) (hn : w.next ≤ n') (hlt : c2.iloc < n')
    (hc : c2.idx = createIdx c2.objects 0) : WInv { next := n', colls := w.colls.set j c2 } := by
  have hjl : j < w.colls.length := (List.getElem?_eq_some_iff.mp hj).1
  have get : ∀ i a, (w.colls.set j c2)[i]? = some a →
      (i = j ∧ a = c2) ∨ (i ≠ j ∧ w.colls[i]? = some a) := by
    intro i a h
    by_cases hij : j = i
    · subst hij; rw [List.getElem?_set_self hjl] at h
      exact Or.inl ⟨rfl, (Option.some.inj h).symm⟩
    · rw [List.getElem?_set_ne hij] at h; exact Or.inr ⟨fun e => hij e.symm, h⟩
  constructor
  · intro i k a b ha hb hab
    rcases get i a ha with ⟨rfl, rfl⟩ | ⟨hi1, ha'⟩ <;> rcases get k b hb with ⟨rfl, rfl⟩ | ⟨hk1, hb'⟩
    · rfl
    · exact hw.oInj _ _ _ _ hj hb' (by rw [← ho]; exact hab)
    · exact hw.oInj _ _ _ _ ha' hj (by rw [← ho]; exact hab)
    · exact hw.oInj _ _ _ _ ha' hb' hab
  · intro i k a b ha hb hab
    rcases get i a ha with ⟨rfl, rfl⟩ | ⟨hi1, ha'⟩ <;> rcases get k b hb with ⟨rfl, rfl⟩ | ⟨hk1, hb'⟩
    · rfl
    · rcases hi with hi | hi
      · exact hw.iInj _ _ _ _ hj hb' (by rw [← hi]; exact hab)
      · have := (hw.lt _ _ hb').2; omega
    · rcases hi with hi | hi
      · exact hw.iInj _ _ _ _ ha' hj (by rw [← hi]; exact hab)
      · have := (hw.lt _ _ ha').2; omega
    · exact hw.iInj _ _ _ _ ha' hb' hab
  · intro i a ha
    rcases get i a ha with ⟨rfl, rfl⟩ | ⟨_, ha'⟩
    · have := hw.lt _ _ hj
      exact ⟨by show a.oloc < n'; omega, hlt⟩
    · have := hw.lt _ _ ha'
      exact ⟨by show a.oloc < n'; omega, by show a.iloc < n'; omega⟩
  · intro i a ha
    rcases get i a ha with ⟨rfl, rfl⟩ | ⟨_, ha'⟩
    · exact hc
    · exact hw.coh _ _ ha'

/-- appending a collection with new identities and a coherent index keeps the invariant -/
theorem winv_append (w : World N) (hw : WInv w) (c2 : C N) (n' : Nat)
    (ho : w.next ≤ c2.oloc) (hi : w.next ≤ c2.iloc) (hlt : c2.oloc < n' ∧ c2.iloc < n')
    (hc : c2.idx = createIdx c2.objects 0) : WInv { next := n', colls := w.colls ++ [c2] } := by
  have get : ∀ i a, (w.colls ++ [c2])[i]? = some a →
      (i = w.colls.length ∧ a = c2) ∨ (i < w.colls.length ∧ w.colls[i]? = some a) := by
    intro i a h
    rw [List.getElem?_append] at h
    split at h
    · rename_i hlt; exact Or.inr ⟨hlt, h⟩
    · rename_i hge
      have : i - w.colls.length = 0 := by
        by_contra hne
        have : ([c2] : List (C N))[i - w.colls.length]? = none := by
          apply List.getElem?_eq_none; simp; omega
        rw [this] at h; exact absurd h (by simp)
      rw [this] at h
      exact Or.inl ⟨by omega, (Option.some.inj h).symm⟩
  constructor
  · intro i k a b ha hb hab
    rcases get i a ha with ⟨rfl, rfl⟩ | ⟨hi1, ha'⟩ <;> rcases get k b hb with ⟨rfl, rfl⟩ | ⟨hk1, hb'⟩
    · rfl
    · have := (hw.lt _ _ hb').1; omega
    · have := (hw.lt _ _ ha').1; omega
    · exact hw.oInj _ _ _ _ ha' hb' hab
  · intro i k a b ha hb hab
    rcases get i a ha with ⟨rfl, rfl⟩ | ⟨hi1, ha'⟩ <;> rcases get k b hb with ⟨rfl, rfl⟩ | ⟨hk1, hb'⟩
    · rfl
    · have := (hw.lt _ _ hb').2; omega
    · have := (hw.lt _ _ ha').2; omega
    · exact hw.iInj _ _ _ _ ha' hb' hab
  · intro i a ha
    rcases get i a ha with ⟨rfl, rfl⟩ | ⟨_, ha'⟩
    · exact hlt
    · have := hw.lt _ _ ha'
      have h2 : w.next ≤ n' := by omega
      exact ⟨by show a.oloc < n'; omega, by show a.iloc < n'; omega⟩
  · intro i a ha
    rcases get i a ha with ⟨rfl, rfl⟩ | ⟨_, ha'⟩
    · exact hc
    · exact hw.coh _ _ ha'

end world
end C20

namespace C20
section refine
variable {N : Type} [DecidableEq N] [TyRel]

omit [DecidableEq N] in
theorem view_getElem? (w : World N) (j : Nat) :
    (view w)[j]? = (w.colls[j]?).map (fun c => (c.ty, c.objects)) := by
  unfold view; rw [List.getElem?_map]

theorem lookup_eq (w : World N) (hw : WInv w) : lookupIdx w = specLookup (view w) := by
  funext j n
  unfold lookupIdx specLookup
  rw [view_getElem?]
  cases h : w.colls[j]? with
  | none => rfl
  | some c => simp only [Option.map_some]; rw [hw.coh j c h, odGet_createIdx]

theorem extended_coh (c : C N) (xs : List (Obj N)) (hc : c.idx = createIdx c.objects 0) :
    (extended c xs).idx = createIdx (extended c xs).objects 0 := by
  show odUpdate c.idx _ = createIdx (c.objects ++ xs) 0
  rw [hc, createIdx_extend]

/-- one primitive mutation: the world with identities does what independent lists do -/
theorem applyAct_refines (w : World N) (hw : WInv w) (a : Act N) :
    view (applyAct w a).1 = (specApply (view w) a).1 ∧
    (applyAct w a).2 = (specApply (view w) a).2 ∧ WInv (applyAct w a).1 := by
  cases a with
  | extend j xs =>
    cases h : w.colls[j]? with
    | none => simp only [applyAct, applyActWith, specApply, view_getElem?, h, Option.map_none]; exact ⟨trivial, trivial, hw⟩
    | some c =>
      have he := extendAt_eq w.colls j c xs (fun i a ha e => hw.oInj i j a c ha h e)
        (fun i a ha e => hw.iInj i j a c ha h e) h
      simp only [applyAct, applyActWith, specApply, view_getElem?, h, Option.map_some, he]
      refine ⟨?_, trivial, ?_⟩
      · simp only [view, List.map_set]; rfl
      · exact winv_set w hw j c (extended c xs) w.next h rfl (Or.inl rfl) (le_refl _) (hw.lt j c h).2
          (extended_coh c xs (hw.coh j c h))
  | erase j i =>
    cases h : w.colls[j]? with
    | none => simp only [applyAct, applyActWith, specApply, view_getElem?, h, Option.map_none]; exact ⟨trivial, trivial, hw⟩
    | some c =>
      cases ho : c.objects[i]? with
      | none =>
        simp only [applyAct, applyActWith, specApply, view_getElem?, h, Option.map_some, ho]; exact ⟨trivial, trivial, hw⟩
      | some o =>
        have hs := setObjects_eq w.colls j c (c.objects.eraseIdx i) (fun i a ha e => hw.oInj i j a c ha h e) h
        simp only [applyAct, applyActWith, specApply, view_getElem?, h, Option.map_some, ho, eraseAt, hs, List.set_set]
        refine ⟨?_, trivial, ?_⟩
        · simp only [view, List.map_set]
        · exact winv_set w hw j c _ (w.next + 1) h rfl (Or.inr (le_refl _)) (by omega)
            (by show w.next < w.next + 1; omega) rfl
  | copyExtend j xs =>
    cases h : w.colls[j]? with
    | none => simp only [applyAct, applyActWith, specApply, view_getElem?, h, Option.map_none]; exact ⟨trivial, trivial, hw⟩
    | some c =>
      have hc' : (copyOf w.next c).idx = createIdx (copyOf w.next c).objects 0 := hw.coh j c h
      have hw1 : WInv { next := w.next + 2, colls := w.colls ++ [copyOf w.next c] } :=
        winv_append w hw (copyOf w.next c) (w.next + 2) (le_refl _) (by show w.next ≤ w.next + 1; omega)
          ⟨by show w.next < w.next + 2; omega, by show w.next + 1 < w.next + 2; omega⟩ hc'
      have hget : (w.colls ++ [copyOf w.next c])[w.colls.length]? = some (copyOf w.next c) := by
        rw [List.getElem?_append_right (le_refl _)]; simp
      have he := extendAt_eq (w.colls ++ [copyOf w.next c]) w.colls.length (copyOf w.next c) xs
        (fun i a ha e => hw1.oInj i _ a _ ha hget e) (fun i a ha e => hw1.iInj i _ a _ ha hget e) hget
      have hset : (w.colls ++ [copyOf w.next c]).set w.colls.length (extended (copyOf w.next c) xs) =
          w.colls ++ [extended (copyOf w.next c) xs] := by
        rw [List.set_append_right _ _ (le_refl _)]; simp
      simp only [applyAct, applyActWith, specApply, view_getElem?, h, Option.map_some, he, hset]
      refine ⟨?_, ?_, ?_⟩
      · simp only [view, List.map_append, List.map_cons, List.map_nil]; rfl
      · simp [view]
      · exact winv_append w hw _ (w.next + 2) (le_refl _) (by show w.next ≤ w.next + 1; omega)
          ⟨by show w.next < w.next + 2; omega, by show w.next + 1 < w.next + 2; omega⟩
          (extended_coh _ xs hc')

theorem step_refines (w : World N) (hw : WInv w) (op : Op N) :
    view (step w op).1 = (specStep (view w) op).1 ∧ (step w op).2 = (specStep (view w) op).2 ∧
    WInv (step w op).1 := by
  unfold step stepWith specStep
  rw [lookup_eq w hw]
  cases plan (view w) (specLookup (view w)) op with
  | error e => exact ⟨rfl, rfl, hw⟩
  | ok a => exact applyAct_refines w hw a

theorem winv_empty : WInv ({ next := 0, colls := [] } : World N) :=
  ⟨by intro i j a b h; simp at h, by intro i j a b h; simp at h, by intro i a h; simp at h,
   by intro i a h; simp at h⟩

theorem winv_newColl (w : World N) (hw : WInv w) (ty : Nat) : WInv (newColl w ty) :=
  winv_append w hw _ (w.next + 2) (le_refl _) (by show w.next ≤ w.next + 1; omega)
    ⟨by show w.next < w.next + 2; omega, by show w.next + 1 < w.next + 2; omega⟩ rfl

end refine
end C20

/-- the flat class hierarchy (no subclassing) used by the concrete examples -/
@[instance_reducible] def C20.flatTypes : TyRel := ⟨fun a b => a == b⟩

section collthms
variable {N : Type} [DecidableEq N] [TyRel]

/-- **invariant**: whatever sequence of `add` / `+=` / `pop` / `+` calls is made on whatever
collections of the world, no two collections share their object list or name index, and the name
index of every collection is the one rebuilt from its object list. -/
theorem c20_world_invariant (ops : List (Op N)) : ∀ w : World N, C20.WInv w → C20.WInv (run w ops) := by
  induction ops with
  | nil => intro w hw; exact hw
  | cons op ops ih => intro w hw; exact ih _ (C20.step_refines w hw op).2.2

/-- **refinement**: the collections of the world evolve exactly like independent plain lists
(results and raised errors included) — in particular an operation on one collection never changes
another one, and `+` leaves its operands alone. -/
theorem c20_refines (ops : List (Op N)) : ∀ w : World N, C20.WInv w →
    view (run w ops) = specRun (view w) ops := by
  induction ops with
  | nil => intro w _; rfl
  | cons op ops ih =>
    intro w hw
    have h := C20.step_refines w hw op
    show view (run (step w op).1 ops) = specRun (specStep (view w) op).1 ops
    rw [ih _ h.2.2, h.1]

theorem c20_step_result (w : World N) (hw : C20.WInv w) (op : Op N) :
    (step w op).2 = (specStep (view w) op).2 := (C20.step_refines w hw op).2.1

/-- what "the index is the rebuilt one" means for the accessors: a lookup by name answers with a
position that holds an object of that name (the last one), a name is contained iff some object
carries it; with distinct names `name_list` is the names in positional order and lookup by the
name of the object at position `i` gives `i` and that object. -/
theorem c20_coherent_accessors (c : C N) (hc : c.idx = createIdx c.objects 0) :
    (∀ n i, getIndexByName c n = .ok i →
        ∃ o, c.objects[i]? = some o ∧ o.name = n ∧ getItemName c n = .ok o) ∧
    (∀ n, containsName c n = true ↔ n ∈ c.objects.map (·.name)) ∧
    ((c.objects.map (·.name)).Nodup →
        nameList c = c.objects.map (·.name) ∧
        ∀ i o, c.objects[i]? = some o → getIndexByName c o.name = .ok i ∧ getItemName c o.name = .ok o) := by
  have hget : ∀ n, odGet c.idx n = lastIdxFrom 0 c.objects n := by
    intro n; rw [hc, C20.odGet_createIdx]
  refine ⟨?_, ?_, ?_⟩
  · intro n i h
    unfold getIndexByName at h
    rw [hget] at h
    cases hl : lastIdxFrom 0 c.objects n with
    | none => rw [hl] at h; simp at h
    | some q =>
      rw [hl] at h
      have hq : q = i := by simpa using h
      subst hq
      obtain ⟨i', o, hqi, hi', hn⟩ := C20.lastIdxFrom_sound c.objects 0 q n hl
      have : i' = q := by omega
      subst this
      refine ⟨o, hi', hn, ?_⟩
      simp [getItemName, getIndexByName, hget, hl, hi']
  · intro n
    unfold containsName
    rw [hget]
    constructor
    · intro h
      by_contra hn
      rw [C20.lastIdxFrom_none c.objects 0 n hn] at h
      simp at h
    · exact C20.lastIdxFrom_isSome c.objects 0 n
  · intro hn
    refine ⟨?_, ?_⟩
    · unfold nameList; rw [hc, C20.odKeys_createIdx c.objects hn]
    · intro i o hi
      have := C20.lastIdxFrom_nodup c.objects 0 i o hn hi
      rw [Nat.zero_add] at this
      simp [getItemName, getIndexByName, hget, this, hi]

/-- **lookup by name = position** after any history (the statement of the property): in every
world reached by any operation sequence, every collection has the accessor properties above. -/
theorem c20_index_coherent (w : World N) (hw : C20.WInv w) (ops : List (Op N)) (j : Nat) (c : C N)
    (hj : (run w ops).colls[j]? = some c) :
    c.idx = createIdx c.objects 0 ∧
    ((c.objects.map (·.name)).Nodup →
        nameList c = c.objects.map (·.name) ∧
        ∀ i o, c.objects[i]? = some o → getIndexByName c o.name = .ok i ∧ getItemName c o.name = .ok o) := by
  have hc := (c20_world_invariant ops w hw).coh j c hj
  exact ⟨hc, (c20_coherent_accessors c hc).2.2⟩

/-- non-vacuity: the empty world satisfies the invariant, and so does every world built from it
by constructor calls -/
example : C20.WInv (newColl (newColl ({ next := 0, colls := [] } : World ℕ) 0) 0) :=
  C20.winv_newColl _ (C20.winv_newColl _ C20.winv_empty 0) 0

/-- the mutation behind every form of `+`: one new collection is appended, nothing else changes
(every existing collection keeps its objects, its index and its identities); the new collection
holds the objects of the left operand followed by the added ones, has new identities and a
coherent index. -/
theorem c20_copy_extend_pure (w : World N) (hw : C20.WInv w) (j : Nat) (a : C N) (xs : List (Obj N))
    (ha : w.colls[j]? = some a) :
    ∃ c : C N, applyAct w (.copyExtend j xs) =
        ({ next := w.next + 2, colls := w.colls ++ [c] }, .ok (.coll w.colls.length)) ∧
      c.objects = a.objects ++ xs ∧ c.ty = a.ty ∧ c.oloc = w.next ∧ c.iloc = w.next + 1 ∧
      c.idx = createIdx c.objects 0 := by
  have hc' : (copyOf w.next a).idx = createIdx (copyOf w.next a).objects 0 := hw.coh j a ha
  have hw1 : C20.WInv { next := w.next + 2, colls := w.colls ++ [copyOf w.next a] } :=
    C20.winv_append w hw (copyOf w.next a) (w.next + 2) (le_refl _) (by show w.next ≤ w.next + 1; omega)
      ⟨by show w.next < w.next + 2; omega, by show w.next + 1 < w.next + 2; omega⟩ hc'
  have hget : (w.colls ++ [copyOf w.next a])[w.colls.length]? = some (copyOf w.next a) := by
    rw [List.getElem?_append_right (le_refl _)]; simp
  have he := C20.extendAt_eq (w.colls ++ [copyOf w.next a]) w.colls.length (copyOf w.next a) xs
    (fun i x hx e => hw1.oInj i _ x _ hx hget e) (fun i x hx e => hw1.iInj i _ x _ hx hget e) hget
  have hset : (w.colls ++ [copyOf w.next a]).set w.colls.length (C20.extended (copyOf w.next a) xs) =
      w.colls ++ [C20.extended (copyOf w.next a) xs] := by
    rw [List.set_append_right _ _ (le_refl _)]; simp
  refine ⟨C20.extended (copyOf w.next a) xs, ?_, rfl, rfl, rfl, rfl, C20.extended_coh _ _ hc'⟩
  simp only [applyAct, applyActWith, ha, he, hset]

/-- **`+` is pure**, `c_j + c_k` (two collections of the same object type) -/
theorem c20_plus_pure (w : World N) (hw : C20.WInv w) (j k : Nat) (a b : C N)
    (ha : w.colls[j]? = some a) (hb : w.colls[k]? = some b) (hty : TyRel.sub b.ty a.ty = true) :
    ∃ c : C N, step w (.plusColl j k) =
        ({ next := w.next + 2, colls := w.colls ++ [c] }, .ok (.coll w.colls.length)) ∧
      c.objects = a.objects ++ b.objects ∧ c.ty = a.ty ∧ c.oloc = w.next ∧ c.iloc = w.next + 1 ∧
      c.idx = createIdx c.objects 0 := by
  have h := c20_copy_extend_pure w hw j a b.objects ha
  simpa only [step, stepWith, plan, C20.view_getElem?, ha, hb, Option.map_some, hty, if_true, applyAct] using h

/-- **`+` is pure**, `c_j + o` (an object of the collection's type) -/
theorem c20_plus_obj_pure (w : World N) (hw : C20.WInv w) (j : Nat) (a : C N) (o : Obj N)
    (ha : w.colls[j]? = some a) (hty : TyRel.sub o.ty a.ty = true) :
    ∃ c : C N, step w (.plusObj j o) =
        ({ next := w.next + 2, colls := w.colls ++ [c] }, .ok (.coll w.colls.length)) ∧
      c.objects = a.objects ++ [o] ∧ c.ty = a.ty ∧ c.oloc = w.next ∧ c.iloc = w.next + 1 ∧
      c.idx = createIdx c.objects 0 := by
  have h := c20_copy_extend_pure w hw j a [o] ha
  simpa only [step, stepWith, plan, C20.view_getElem?, ha, Option.map_some, checkObj, hty, if_true,
    Except.map, applyAct] using h

/-- **`+` is pure**, `c_j + [o₁, …]` (a sequence the argument checks accept) -/
theorem c20_plus_seq_pure (w : World N) (hw : C20.WInv w) (j : Nat) (a : C N) (os xs : List (Obj N))
    (ha : w.colls[j]? = some a) (hck : checkSeq a.ty os = .ok xs) :
    ∃ c : C N, step w (.plusSeq j os) =
        ({ next := w.next + 2, colls := w.colls ++ [c] }, .ok (.coll w.colls.length)) ∧
      c.objects = a.objects ++ xs ∧ c.ty = a.ty ∧ c.oloc = w.next ∧ c.iloc = w.next + 1 ∧
      c.idx = createIdx c.objects 0 := by
  have h := c20_copy_extend_pure w hw j a xs ha
  simpa only [step, stepWith, plan, C20.view_getElem?, ha, Option.map_some, hck, Except.map, applyAct] using h

omit [DecidableEq N] in
/-- what `checkSeq` accepts: a non-empty sequence of objects of the collection's type, unchanged -/
theorem c20_checkSeq_ok (ty : Nat) (os xs : List (Obj N)) (h : checkSeq ty os = .ok xs) :
    xs = os ∧ ∃ o₀ t, os = o₀ :: t ∧ (∀ o ∈ os, TyRel.sub o.ty o₀.ty = true) ∧ TyRel.sub o₀.ty ty = true := by
  cases os with
  | nil => simp [checkSeq] at h
  | cons o t =>
    simp only [checkSeq] at h
    split at h
    · rename_i hc
      simp only [Except.ok.injEq] at h
      refine ⟨h.symm, o, t, rfl, ?_, hc.2⟩
      intro x hx
      have hall := hc.1
      rw [List.all_eq_true] at hall
      exact hall x hx
    · cases h

/-- when the argument checks of an operation fail (wrong type, empty sequence, unknown name, index
out of range) the call raises and the world is exactly as before -/
theorem c20_error_unchanged (w : World N) (op : Op N) (e : Err)
    (hp : plan (view w) (lookupIdx w) op = .error e) : step w op = (w, .error e) := by
  simp only [step, stepWith, hp]


/-! #### targets, totality, positional access, `index`, constructor, reachable worlds -/

/-- the collection numbers an operation refers to -/
def C20.targets : Op N → List Nat
  | .addObj j _ => [j] | .addColl j k => [j, k] | .addSeq j _ => [j] | .pop j _ => [j]
  | .popName j _ => [j] | .popBad j => [j] | .plusObj j _ => [j] | .plusColl j k => [j, k] | .plusSeq j _ => [j]

omit [DecidableEq N] [TyRel] in
theorem C20.normIdx_lt (len : Nat) (i : Int) (p : Nat) (h : normIdx len i = some p) : p < len := by
  simp only [normIdx] at h
  split_ifs at h with h1 h2 h2 <;> simp at h <;> omega

omit [DecidableEq N] in
theorem C20.checkSeq_error (ty : Nat) (os : List (Obj N)) (e : Err) (h : checkSeq ty os = .error e) :
    e = .typeError := by
  cases os with
  | nil => simp [checkSeq] at h; exact h.symm
  | cons o t =>
    simp only [checkSeq] at h
    split_ifs at h
    simp at h; exact h.symm

/-- **totality**: `badTarget` is an error of the model only — an operation on existing collections
never produces it (it returns, or raises one of the Python exceptions). -/
theorem c20_no_bad_target (w : World N) (op : Op N) (hv : ∀ j ∈ C20.targets op, j < w.colls.length) :
    (step w op).2 ≠ .error .badTarget := by
  have get : ∀ j, j < w.colls.length → ∃ c, w.colls[j]? = some c := fun j hj =>
    ⟨w.colls[j], List.getElem?_eq_getElem hj⟩
  cases op with
  | addObj j o =>
    obtain ⟨c, hc⟩ := get j (hv j (by simp [C20.targets]))
    by_cases hs : TyRel.sub o.ty c.ty = true <;>
      simp [step, stepWith, plan, C20.view_getElem?, hc, checkObj, hs, Except.map, applyActWith]
  | addColl j k =>
    obtain ⟨c, hc⟩ := get j (hv j (by simp [C20.targets]))
    obtain ⟨d, hd⟩ := get k (hv k (by simp [C20.targets]))
    by_cases hs : TyRel.sub d.ty c.ty = true <;>
      simp [step, stepWith, plan, C20.view_getElem?, hc, hd, hs, applyActWith]
  | addSeq j os =>
    obtain ⟨c, hc⟩ := get j (hv j (by simp [C20.targets]))
    cases hck : checkSeq c.ty os with
    | error e =>
      have := C20.checkSeq_error _ _ _ hck
      simp [step, stepWith, plan, C20.view_getElem?, hc, hck, Except.map, this]
    | ok xs => simp [step, stepWith, plan, C20.view_getElem?, hc, hck, Except.map, applyActWith]
  | pop j i =>
    obtain ⟨c, hc⟩ := get j (hv j (by simp [C20.targets]))
    cases hn : normIdx c.objects.length (i.getD ((c.objects.length : Int) - 1)) with
    | none => simp [step, stepWith, plan, C20.view_getElem?, hc, hn]
    | some p =>
      have hp := C20.normIdx_lt _ _ _ hn
      simp [step, stepWith, plan, C20.view_getElem?, hc, hn, applyActWith, List.getElem?_eq_getElem hp]
  | popName j n =>
    obtain ⟨c, hc⟩ := get j (hv j (by simp [C20.targets]))
    cases hl : lookupIdx w j n with
    | none => simp [step, stepWith, plan, C20.view_getElem?, hc, hl]
    | some p =>
      by_cases hp : p < c.objects.length
      · simp [step, stepWith, plan, C20.view_getElem?, hc, hl, hp, applyActWith, List.getElem?_eq_getElem hp]
      · simp [step, stepWith, plan, C20.view_getElem?, hc, hl, hp]
  | popBad j =>
    obtain ⟨c, hc⟩ := get j (hv j (by simp [C20.targets]))
    simp [step, stepWith, plan, C20.view_getElem?, hc]
  | plusObj j o =>
    obtain ⟨c, hc⟩ := get j (hv j (by simp [C20.targets]))
    by_cases hs : TyRel.sub o.ty c.ty = true <;>
      simp [step, stepWith, plan, C20.view_getElem?, hc, checkObj, hs, Except.map, applyActWith]
  | plusColl j k =>
    obtain ⟨c, hc⟩ := get j (hv j (by simp [C20.targets]))
    obtain ⟨d, hd⟩ := get k (hv k (by simp [C20.targets]))
    by_cases hs : TyRel.sub d.ty c.ty = true <;>
      simp [step, stepWith, plan, C20.view_getElem?, hc, hd, hs, applyActWith]
  | plusSeq j os =>
    obtain ⟨c, hc⟩ := get j (hv j (by simp [C20.targets]))
    cases hck : checkSeq c.ty os with
    | error e =>
      have := C20.checkSeq_error _ _ _ hck
      simp [step, stepWith, plan, C20.view_getElem?, hc, hck, Except.map, this]
    | ok xs => simp [step, stepWith, plan, C20.view_getElem?, hc, hck, Except.map, applyActWith]

omit [DecidableEq N] [TyRel] in
/-- **positional access** `c[i]`: position `p` is reached by `p` and by `p - len(c)`; indices outside
`-len(c) ≤ i < len(c)` raise `IndexError`. -/
theorem c20_getitem_idx (c : C N) :
    (∀ (p : Nat) (o : Obj N), c.objects[p]? = some o →
        getItemIdx c (p : Int) = .ok o ∧ getItemIdx c ((p : Int) - c.objects.length) = .ok o) ∧
    (∀ i : Int, (i < -(c.objects.length : Int) ∨ (c.objects.length : Int) ≤ i) →
        getItemIdx c i = .error .indexError) := by
  constructor
  · intro p o hp
    have hlt : p < c.objects.length := (List.getElem?_eq_some_iff.mp hp).1
    have h1 : normIdx c.objects.length (p : Int) = some p := by
      unfold normIdx
      have : ¬ ((p : Int) < 0) := by omega
      simp only [this, if_false]
      have : (0 : Int) ≤ p ∧ (p : Int) < c.objects.length := by omega
      simp [this]
    have h2 : normIdx c.objects.length ((p : Int) - c.objects.length) = some p := by
      unfold normIdx
      have : ((p : Int) - c.objects.length < 0) := by omega
      simp only [this, if_true]
      have h3 : (p : Int) - c.objects.length + c.objects.length = p := by omega
      rw [h3]
      have : (0 : Int) ≤ p ∧ (p : Int) < c.objects.length := by omega
      simp [this]
    simp [getItemIdx, h1, h2, hp]
  · intro i hi
    have : normIdx c.objects.length i = none := by
      simp only [normIdx]
      split_ifs with h1 h2 h2 <;> first | rfl | (exfalso; omega)
    simp [getItemIdx, this]

/-- **`c[key]`** dispatches on the kind of key; with distinct names the object at position `p` is
reached by its name, by `p` and by `p - len(c)` alike -/
theorem c20_getitem_consistent (c : C N) (hc : c.idx = createIdx c.objects 0)
    (hn : (c.objects.map (·.name)).Nodup) (p : Nat) (o : Obj N) (hp : c.objects[p]? = some o) :
    getItem c (.name o.name) = .ok o ∧ getItem c (.idx p) = .ok o ∧
    getItem c (.idx ((p : Int) - c.objects.length)) = .ok o :=
  ⟨((c20_coherent_accessors c hc).2.2 hn).2 p o hp |>.2, ((c20_getitem_idx c).1 p o hp).1,
    ((c20_getitem_idx c).1 p o hp).2⟩

omit [DecidableEq N] [TyRel] in
/-- **`c.index(obj)`** is the first position holding the object; `ValueError` iff it is not stored -/
theorem c20_indexOf (c : C N) (o : Obj N) :
    (∀ i, indexOf c o = .ok i → ∃ x, c.objects[i]? = some x ∧ x.id = o.id ∧
        ∀ j x', j < i → c.objects[j]? = some x' → x'.id ≠ o.id) ∧
    (indexOf c o = .error .valueError ↔ ∀ x ∈ c.objects, x.id ≠ o.id) := by
  constructor
  · intro i h
    unfold indexOf at h
    cases hf : c.objects.findIdx? (fun x => x.id == o.id) with
    | none => rw [hf] at h; cases h
    | some k =>
      rw [hf] at h
      have hk : k = i := by simpa using h
      subst hk
      obtain ⟨hlt, hp, hfirst⟩ := List.findIdx?_eq_some_iff_getElem.mp hf
      refine ⟨c.objects[k], List.getElem?_eq_getElem hlt, by simpa using hp, ?_⟩
      intro j x' hj hx'
      have hjl : j < c.objects.length := Nat.lt_trans hj hlt
      have := hfirst j hj
      rw [List.getElem?_eq_getElem hjl] at hx'
      have hx : c.objects[j] = x' := by simpa using hx'
      rw [hx] at this
      simpa using this
  · unfold indexOf
    cases hf : c.objects.findIdx? (fun x => x.id == o.id) with
    | none =>
      simp only [true_iff]
      intro x hx
      have := List.findIdx?_eq_none_iff.mp hf x hx
      simpa using this
    | some k =>
      simp only [reduceCtorEq, false_iff]
      intro hall
      obtain ⟨hlt, hp, _⟩ := List.findIdx?_eq_some_iff_getElem.mp hf
      exact hall _ (List.getElem_mem hlt) (by simpa using hp)

/-- `for obj in objs: self.add(obj)`: the invariant is kept, the objects arrive in order, each is
an instance of the collection's type -/
theorem C20.addEach_spec (os : List (Obj N)) : ∀ (w w' : World N) (j : Nat) (c : C N), C20.WInv w →
    w.colls[j]? = some c → addEach w j os = .ok w' →
    C20.WInv w' ∧ view w' = (view w).set j (c.ty, c.objects ++ os) ∧
      ∀ o ∈ os, TyRel.sub o.ty c.ty = true := by
  induction os with
  | nil =>
    intro w w' j c hw hc h
    simp only [addEach, Except.ok.injEq] at h
    subst h
    refine ⟨hw, ?_, by simp⟩
    have : (view w)[j]? = some (c.ty, c.objects) := by rw [C20.view_getElem?, hc]; rfl
    rw [List.append_nil]
    obtain ⟨hlt, hv⟩ := List.getElem?_eq_some_iff.mp this
    rw [← hv, List.set_getElem_self hlt]
  | cons o t ih =>
    intro w w' j c hw hc h
    have hr := C20.step_refines w hw (.addObj j o)
    simp only [addEach] at h
    by_cases hs : TyRel.sub o.ty c.ty = true
    · have hspec : specStep (view w) (.addObj j o) = ((view w).set j (c.ty, c.objects ++ [o]), .ok .unit) := by
        have hv : (view w)[j]? = some (c.ty, c.objects) := by rw [C20.view_getElem?, hc]; rfl
        simp [specStep, plan, hv, checkObj, hs, Except.map, specApply]
      have h1 : (step w (.addObj j o)).2 = .ok .unit := by rw [hr.2.1, hspec]
      have hview : view (step w (.addObj j o)).1 = (view w).set j (c.ty, c.objects ++ [o]) := by
        rw [hr.1, hspec]
      have hlt : j < w.colls.length := (List.getElem?_eq_some_iff.mp hc).1
      obtain ⟨c1, hc1⟩ : ∃ c1, (step w (.addObj j o)).1.colls[j]? = some c1 := by
        have hl : j < (view (step w (.addObj j o)).1).length := by rw [hview]; simp [view, hlt]
        have hl' : j < (step w (.addObj j o)).1.colls.length := by simpa [view] using hl
        exact ⟨_, List.getElem?_eq_getElem hl'⟩
      have hc1v : (c1.ty, c1.objects) = (c.ty, c.objects ++ [o]) := by
        have h2 : (view (step w (.addObj j o)).1)[j]? = some (c1.ty, c1.objects) := by
          rw [C20.view_getElem?, hc1]; rfl
        rw [hview, List.getElem?_set_self (by simp [view, hlt])] at h2
        exact (Option.some.inj h2).symm
      have hstep : stepWith copyOf w (.addObj j o) = ((step w (.addObj j o)).1, .ok .unit) := by
        show step w (.addObj j o) = _
        rw [← h1]
      rw [hstep] at h
      obtain ⟨hw', hv', hsub⟩ := ih _ w' j c1 hr.2.2 hc1 h
      have e1 : c1.ty = c.ty := (Prod.mk.inj hc1v).1
      have e2 : c1.objects = c.objects ++ [o] := (Prod.mk.inj hc1v).2
      refine ⟨hw', ?_, ?_⟩
      · rw [hv', hview, List.set_set, e1, e2, List.append_assoc]; rfl
      · intro x hx
        rcases List.mem_cons.mp hx with rfl | hx
        · exact hs
        · rw [← e1]; exact hsub x hx
    · exfalso
      have hv : (view w)[j]? = some (c.ty, c.objects) := by rw [C20.view_getElem?, hc]; rfl
      have hplan : plan (view w) (lookupIdx w) (.addObj j o) = .error .typeError := by
        simp [plan, hv, checkObj, hs, Except.map]
      have : stepWith copyOf w (.addObj j o) = (w, .error .typeError) := by
        simp only [stepWith, hplan]
      rw [this] at h
      cases h

/-- **constructor**: a successful `NamedObjectCollection(objs, obj_type)` yields a world that
satisfies the invariant again; the new collection has the settled type, which has a `name`
attribute, and holds exactly the given objects in order, each an instance of that type. -/
theorem c20_ctor_inv (hasName : Nat → Bool) (w w' : World N) (ty : Option Nat) (arg : CtorArg N)
    (hw : C20.WInv w) (h : mkNamed hasName w ty arg = .ok w') :
    C20.WInv w' ∧ ∃ t, ctorType ty arg = some t ∧ hasName t = true ∧
      view w' = view w ++ [(t, ctorObjs arg)] ∧ ∀ o ∈ ctorObjs arg, TyRel.sub o.ty t = true := by
  unfold mkNamed at h
  cases ht : ctorType ty arg with
  | none => rw [ht] at h; cases h
  | some t =>
    rw [ht] at h
    simp only at h
    cases ha : addEach (newColl w t) w.colls.length (ctorObjs arg) with
    | error e => rw [ha] at h; cases h
    | ok w1 =>
      rw [ha] at h
      simp only at h
      split at h
      · rename_i hn
        simp only [Except.ok.injEq] at h
        subst h
        have hget : (newColl w t).colls[w.colls.length]? =
            some { oloc := w.next, iloc := w.next + 1, ty := t, objects := [], idx := [] } := by
          simp [newColl]
        obtain ⟨hw1, hv1, hs1⟩ := C20.addEach_spec (ctorObjs arg) (newColl w t) w1 w.colls.length _
          (C20.winv_newColl w hw t) hget ha
        refine ⟨hw1, t, rfl, hn, ?_, hs1⟩
        rw [hv1]
        simp [view, newColl]
      · cases h

/-- the worlds a program can build: constructor calls and operations, starting from nothing -/
inductive C20.Reachable (hasName : Nat → Bool) : World N → Prop
  | empty : C20.Reachable hasName { next := 0, colls := [] }
  | newColl (w : World N) (ty : Nat) : C20.Reachable hasName w → C20.Reachable hasName (newColl w ty)
  | ctor (w w' : World N) (ty : Option Nat) (arg : CtorArg N) : C20.Reachable hasName w →
      mkNamed hasName w ty arg = .ok w' → C20.Reachable hasName w'
  | step (w : World N) (op : Op N) : C20.Reachable hasName w → C20.Reachable hasName (step w op).1

/-- the invariant is not an assumption: every reachable world satisfies it -/
theorem c20_reachable_inv (hasName : Nat → Bool) (w : World N) (h : C20.Reachable hasName w) : C20.WInv w := by
  induction h with
  | empty => exact C20.winv_empty
  | newColl w ty _ ih => exact C20.winv_newColl w ih ty
  | ctor w w' ty arg _ hm ih => exact (c20_ctor_inv hasName w w' ty arg ih hm).1
  | step w op _ ih => exact (C20.step_refines w ih op).2.2

/-- **lookup by name = position, without hypotheses on the world**: in every world a program can
build, every collection with distinct names has `name_list` = names in positional order, and the
name of the object at position `i` leads to `i` and to that object. -/
theorem c20_reachable_index_coherent (hasName : Nat → Bool) (w : World N) (h : C20.Reachable hasName w)
    (j : Nat) (c : C N) (hj : w.colls[j]? = some c) (hn : (c.objects.map (·.name)).Nodup) :
    nameList c = c.objects.map (·.name) ∧
    ∀ i o, c.objects[i]? = some o → getIndexByName c o.name = .ok i ∧ getItem c (.name o.name) = .ok o ∧
      getItem c (.idx i) = .ok o := by
  have hc := (c20_reachable_inv hasName w h).coh j c hj
  have ha := (c20_coherent_accessors c hc).2.2 hn
  refine ⟨ha.1, fun i o hi => ⟨(ha.2 i o hi).1, (ha.2 i o hi).2, ((c20_getitem_idx c).1 i o hi).1⟩⟩

end collthms

/-! concrete instances (flat class hierarchy) -/
section concrete
attribute [local instance] C20.flatTypes

/-- non-vacuity: a concrete history (two adds, `c0 + c0`, pop by name) on the executable model -/
example :
    let w := run (newColl (newColl ({ next := 0, colls := [] } : World ℕ) 0) 0)
      [.addObj 0 ⟨1, 10, 0⟩, .addObj 0 ⟨2, 20, 0⟩, .plusColl 0 0, .popName 0 10]
    view w = [(0, [⟨2, 20, 0⟩]), (0, []), (0, [⟨1, 10, 0⟩, ⟨2, 20, 0⟩, ⟨1, 10, 0⟩, ⟨2, 20, 0⟩])] ∧
    w.colls.map nameList = [[20], [], [10, 20]] := by
  decide

example : checkSeq (N := ℕ) 0 [⟨1, 10, 0⟩, ⟨2, 20, 0⟩] = .ok [⟨1, 10, 0⟩, ⟨2, 20, 0⟩] := by decide

example : plan (N := ℕ) [(0, [])] (fun _ _ => none) (.plusSeq 0 []) = .error .typeError := rfl

/-- the world semantics *can* tell a sharing copy apart (negative model, seeded change M4): with a
`copy()` that keeps the same name-index dictionary the object lists still evolve like independent
lists, but after `c0 + o2` the index of the operand `c0` is no longer the one rebuilt from its list. -/
theorem c20_shared_index_counterexample :
    let w0 := newColl ({ next := 0, colls := [] } : World ℕ) 0
    let ops : List (Op ℕ) := [.addObj 0 ⟨1, 10, 0⟩, .plusObj 0 ⟨2, 20, 0⟩]
    let w' := runWith copyShareIdx w0 ops
    view w' = specRun (view w0) ops ∧
    w'.colls.map (fun c => decide (c.idx = createIdx c.objects 0)) = [false, true] ∧
    (run w0 ops).colls.map (fun c => decide (c.idx = createIdx c.objects 0)) = [true, true] := by
  decide

/-- negative model, seeded change M5: with a `copy()` that keeps the same object list the operand of
`+` receives the added object — the refinement of independent lists fails. -/
theorem c20_shared_list_counterexample :
    let w0 := newColl ({ next := 0, colls := [] } : World ℕ) 0
    let ops : List (Op ℕ) := [.addObj 0 ⟨1, 10, 0⟩, .plusObj 0 ⟨2, 20, 0⟩]
    view (runWith copyShareList w0 ops) ≠ specRun (view w0) ops ∧
    view (run w0 ops) = specRun (view w0) ops := by
  decide

/-- "last position wins" with clashing names (non-vacuity of the general part of
`c20_coherent_accessors`): two objects called 10 at positions 0 and 2 -/
example :
    let c : C ℕ := { oloc := 0, iloc := 1, ty := 0, objects := [⟨1, 10, 0⟩, ⟨2, 20, 0⟩, ⟨3, 10, 0⟩],
                     idx := createIdx [⟨1, 10, 0⟩, ⟨2, 20, 0⟩, ⟨3, 10, 0⟩] 0 }
    getIndexByName c 10 = .ok 2 ∧ nameList c = [10, 20] ∧ getItemName c 10 = .ok ⟨3, 10, 0⟩ := by
  decide

end concrete

/-! ### configurations: separate instances never share mutable state -/

namespace C20

/-- two (nested) dictionaries have no dict object in common -/
def Disj (a b : Cfg) : Prop := ∀ l ∈ a.locs, l ∉ b.locs

instance : DecidableRel Disj := fun a b => inferInstanceAs (Decidable (∀ l ∈ a.locs, l ∉ b.locs))

theorem Disj.symm {a b : Cfg} (h : Disj a b) : Disj b a := fun l hb ha => h l ha hb

/-- invariant of the configuration world: different entries (base configuration, user
dictionaries, Config instances) have no dict object in common; identities are below the counter -/
structure CInv (w : CWorld) : Prop where
  disj : w.cfgs.Pairwise Disj
  lt : ∀ a ∈ w.cfgs, ∀ l ∈ a.locs, l < w.next

theorem disj_of_pairwise (cs : List Cfg) (h : cs.Pairwise Disj) : ∀ (i j : Nat) (a b : Cfg),
    cs[i]? = some a → cs[j]? = some b → i ≠ j → Disj a b := by
  induction cs with
  | nil => intro i j a b hi; simp at hi
  | cons x t ih =>
    rw [List.pairwise_cons] at h
    intro i j a b hi hj hne
    cases i with
    | zero =>
      cases j with
      | zero => exact absurd rfl hne
      | succ j =>
        simp only [List.getElem?_cons_zero, Option.some.injEq] at hi
        simp only [List.getElem?_cons_succ] at hj
        subst hi
        exact h.1 b (List.mem_of_getElem? hj)
    | succ i =>
      simp only [List.getElem?_cons_succ] at hi
      cases j with
      | zero =>
        simp only [List.getElem?_cons_zero, Option.some.injEq] at hj
        subst hj
        exact (h.1 a (List.mem_of_getElem? hi)).symm
      | succ j =>
        simp only [List.getElem?_cons_succ] at hj
        exact ih h.2 i j a b hi hj (fun e => hne (by rw [e]))

theorem odGet_mem {K V : Type} [DecidableEq K] (d : List (K × V)) (k : K) (v : V) (h : odGet d k = some v) :
    (k, v) ∈ d := by
  induction d with
  | nil => simp [odGet] at h
  | cons p t ih =>
    obtain ⟨k', v'⟩ := p
    by_cases hk : k' = k
    · subst hk; simp only [odGet, if_true, Option.some.injEq] at h; subst h; simp
    · simp only [odGet, hk, if_false] at h; exact List.mem_cons_of_mem _ (ih h)

theorem navigate_mem (c : Cfg) (path : List Nat) (l : Nat) (h : navigate c path = .ok l) : l ∈ c.locs := by
  cases hg : odGet c.dicts path with
  | none =>
    simp only [navigate, hg] at h
    split at h <;> cases h
  | some l' =>
    simp only [navigate, hg] at h
    cases h
    exact List.mem_map.mpr ⟨(path, _), odGet_mem _ _ _ hg, rfl⟩

/-- a write through a dict object that a configuration does not hold leaves it unchanged -/
theorem writeLoc_of_not_mem (l k v : Nat) (c : Cfg) (h : l ∉ c.locs) : c.writeLoc l k v = c := by
  unfold Cfg.writeLoc
  have : c.dicts.filter (fun d => d.2 = l) = [] := by
    rw [List.filter_eq_nil_iff]
    intro d hd hdl
    apply h
    exact List.mem_map.mpr ⟨d, hd, by simpa using hdl⟩
  rw [this]; rfl

theorem locs_setLeaf (c : Cfg) (q : List Nat) (v : Nat) : ∀ x ∈ (c.setLeaf q v).locs, x ∈ c.locs := by
  intro x hx
  unfold Cfg.locs Cfg.setLeaf at *
  obtain ⟨d, hd, rfl⟩ := List.mem_map.mp hx
  exact List.mem_map.mpr ⟨d, (List.mem_filter.mp hd).1, rfl⟩

/-- a write never creates dict objects -/
theorem locs_writeLoc (l k v : Nat) (c : Cfg) : ∀ x ∈ (c.writeLoc l k v).locs, x ∈ c.locs := by
  unfold Cfg.writeLoc
  generalize c.dicts.filter (fun d => d.2 = l) = ds
  suffices H : ∀ (ds : List (List Nat × Nat)) (acc : Cfg), (∀ x ∈ acc.locs, x ∈ c.locs) →
      ∀ x ∈ (ds.foldl (fun acc d => acc.setLeaf (d.1 ++ [k]) v) acc).locs, x ∈ c.locs from
    H ds c (fun x hx => hx)
  intro ds
  induction ds with
  | nil => intro acc h; exact h
  | cons d t ih =>
    intro acc h
    exact ih _ (fun x hx => h x (locs_setLeaf acc _ v x hx))

theorem firstIdx_lt (l : Nat) (ls : List Nat) (h : l ∈ ls) : Cfg.firstIdx l ls < ls.length := by
  induction ls with
  | nil => simp at h
  | cons x t ih =>
    unfold Cfg.firstIdx
    by_cases hx : x = l
    · simp [hx]
    · have : l ∈ t := by
        rcases List.mem_cons.mp h with e | e
        · exact absurd e.symm hx
        · exact e
      simp only [hx, if_false, List.length_cons]
      have := ih this
      omega

/-- `deepcopy` gives every dict object a new identity -/
theorem locs_deepCopy (n : Nat) (c : Cfg) : ∀ x ∈ (c.deepCopy n).locs, n ≤ x ∧ x < n + c.dicts.length := by
  intro x hx
  unfold Cfg.deepCopy Cfg.locs at hx
  simp only [List.map_map, List.mem_map, Function.comp] at hx
  obtain ⟨d, hd, rfl⟩ := hx
  have := firstIdx_lt d.2 c.locs (List.mem_map.mpr ⟨d, hd, rfl⟩)
  have hl : c.locs.length = c.dicts.length := by simp [Cfg.locs]
  constructor
  · exact Nat.le_add_right _ _
  · show n + Cfg.firstIdx d.2 c.locs < n + c.dicts.length
    omega

theorem locs_update (c u : Cfg) : ∀ x ∈ (c.update u).locs, x ∈ c.locs ∨ x ∈ u.locs := by
  intro x hx
  unfold Cfg.update Cfg.locs at hx
  simp only [List.map_append, List.mem_append, List.mem_map] at hx
  rcases hx with ⟨d, hd, rfl⟩ | ⟨d, hd, rfl⟩
  · exact Or.inl (List.mem_map.mpr ⟨d, (List.mem_filter.mp hd).1, rfl⟩)
  · exact Or.inr (List.mem_map.mpr ⟨d, (List.mem_filter.mp hd).1, rfl⟩)

/-- appending an entry all of whose dict objects are new keeps the invariant -/
theorem cinv_append (w : CWorld) (hw : CInv w) (c : Cfg) (n' : Nat) (hn : w.next ≤ n')
    (hc : ∀ x ∈ c.locs, w.next ≤ x ∧ x < n') : CInv { w with next := n', cfgs := w.cfgs ++ [c] } := by
  constructor
  · show (w.cfgs ++ [c]).Pairwise Disj
    rw [List.pairwise_append]
    refine ⟨hw.disj, by simp, ?_⟩
    intro a ha b hb l hla hlb
    have hb' : b = c := by simpa using hb
    subst hb'
    have := hw.lt a ha l hla
    have := (hc l hlb).1
    omega
  · intro a ha l hl
    show l < n'
    rcases List.mem_append.mp ha with ha | ha
    · have := hw.lt a ha l hl
      omega
    · have : a = c := by simpa using ha
      subst this
      exact (hc l hl).2

/-- `sys.path` is not part of the invariant -/
theorem cinv_syspath (w : CWorld) (hw : CInv w) (sp : List Nat) : CInv { w with syspath := sp } :=
  ⟨hw.disj, hw.lt⟩

/-- a deletion through a container that a configuration does not hold leaves it unchanged -/
theorem delLoc_of_not_mem (l k : Nat) (c : Cfg) (h : l ∉ c.locs) : c.delLoc l k = c := by
  unfold Cfg.delLoc
  have : c.dicts.filter (fun d => d.2 = l) = [] := by
    rw [List.filter_eq_nil_iff]
    intro d hd hdl
    apply h
    exact List.mem_map.mpr ⟨d, hd, by simpa using hdl⟩
  rw [this]; rfl

theorem locs_removeUnder (c : Cfg) (q : List Nat) : ∀ x ∈ (c.removeUnder q).locs, x ∈ c.locs := by
  intro x hx
  unfold Cfg.locs Cfg.removeUnder at *
  obtain ⟨d, hd, rfl⟩ := List.mem_map.mp hx
  exact List.mem_map.mpr ⟨d, (List.mem_filter.mp hd).1, rfl⟩

/-- a deletion never creates container objects -/
theorem locs_delLoc (l k : Nat) (c : Cfg) : ∀ x ∈ (c.delLoc l k).locs, x ∈ c.locs := by
  unfold Cfg.delLoc
  generalize c.dicts.filter (fun d => d.2 = l) = ds
  suffices H : ∀ (ds : List (List Nat × Nat)) (acc : Cfg), (∀ x ∈ acc.locs, x ∈ c.locs) →
      ∀ x ∈ (ds.foldl (fun acc d => acc.removeUnder (d.1 ++ [k])) acc).locs, x ∈ c.locs from
    H ds c (fun x hx => hx)
  intro ds
  induction ds with
  | nil => intro acc h; exact h
  | cons d t ih =>
    intro acc h
    exact ih _ (fun x hx => h x (locs_removeUnder acc _ x hx))

end C20

namespace C20

/-- under the invariant, "apply the in-place effect to every holder of the container object" is
"apply it to the configuration it was made through" -/
theorem map_eff_eq_set (eff : Cfg → Cfg) (l : Nat) (heff : ∀ a : Cfg, l ∉ a.locs → eff a = a)
    (cs : List Cfg) (h : cs.Pairwise Disj) (j : Nat) (c : Cfg)
    (hj : cs[j]? = some c) (hl : l ∈ c.locs) : cs.map eff = cs.set j (eff c) := by
  apply List.ext_getElem?
  intro i
  rw [List.getElem?_map, List.getElem?_set]
  by_cases hij : j = i
  · subst hij
    obtain ⟨hlt, hc⟩ := List.getElem?_eq_some_iff.mp hj
    simp [hlt, hc]
  · simp only [hij, if_false]
    cases ha : cs[i]? with
    | none => rfl
    | some a =>
      have : l ∉ a.locs := disj_of_pairwise cs h j i c a hj ha hij l hl
      simp [heff a this]

theorem cinv_map_eff (eff : Cfg → Cfg) (hsub : ∀ (a : Cfg) (x : Nat), x ∈ (eff a).locs → x ∈ a.locs)
    (w : CWorld) (hw : CInv w) : CInv { w with cfgs := w.cfgs.map eff } := by
  constructor
  · show (w.cfgs.map _).Pairwise Disj
    rw [List.pairwise_map]
    exact hw.disj.imp (fun {a b} hab x hxa hxb => hab x (hsub a x hxa) (hsub b x hxb))
  · intro a ha x hx
    obtain ⟨a', ha', rfl⟩ := List.mem_map.mp ha
    exact hw.lt a' ha' x (hsub a' x hx)

theorem cstep_isolated (w : CWorld) (hw : CInv w) (op : COp) :
    cstep w op = cspecStep w op ∧ CInv (cstep w op).1 := by
  cases op with
  | new =>
    refine ⟨rfl, ?_⟩
    cases hb : w.cfgs[0]? with
    | none => simp only [cstep, newCfg, hb]; exact hw
    | some base =>
      simp only [cstep, newCfg, hb]
      exact cinv_append w hw _ _ (Nat.le_add_right _ _) (locs_deepCopy w.next base)
  | fromDict u =>
    refine ⟨rfl, ?_⟩
    cases hb : w.cfgs[0]? with
    | none => simp only [cstep, newCfg, hb]; exact hw
    | some base =>
      cases hu : w.cfgs[u]? with
      | none => simp only [cstep, newCfg, hb, hu]; exact hw
      | some ud =>
        simp only [cstep, newCfg, hb, hu]
        apply cinv_append w hw _ _ (by omega)
        intro x hx
        rcases locs_update _ _ x hx with h | h
        · have := locs_deepCopy w.next base x h; omega
        · have := locs_deepCopy (w.next + base.dicts.length) ud x h; omega
  | set j path k v =>
    cases hj : w.cfgs[j]? with
    | none => simp only [cstep, cspecStep, hj]; exact ⟨trivial, hw⟩
    | some c =>
      cases hn : navigate c path with
      | error e => simp only [cstep, cspecStep, hj, hn]; exact ⟨trivial, hw⟩
      | ok l =>
        have hl := navigate_mem c path l hn
        have hm := map_eff_eq_set (Cfg.writeLoc l k v) l (writeLoc_of_not_mem l k v) w.cfgs hw.disj j c hj hl
        simp only [cstep, cspecStep, hj, hn, hm]
        refine ⟨trivial, ?_⟩
        have := cinv_map_eff (Cfg.writeLoc l k v) (locs_writeLoc l k v) w hw
        rw [hm] at this
        exact this
  | del j path k =>
    cases hj : w.cfgs[j]? with
    | none => simp only [cstep, cspecStep, hj]; exact ⟨trivial, hw⟩
    | some c =>
      cases hn : navigate c path with
      | error e => simp only [cstep, cspecStep, hj, hn]; exact ⟨trivial, hw⟩
      | ok l =>
        cases hk : c.lookup (path ++ [k]) with
        | none => simp only [cstep, cspecStep, hj, hn, hk]; exact ⟨trivial, hw⟩
        | some r =>
          have hl := navigate_mem c path l hn
          have hm := map_eff_eq_set (Cfg.delLoc l k) l (delLoc_of_not_mem l k) w.cfgs hw.disj j c hj hl
          simp only [cstep, cspecStep, hj, hn, hk, hm]
          refine ⟨trivial, ?_⟩
          have := cinv_map_eff (Cfg.delLoc l k) (locs_delLoc l k) w hw
          rw [hm] at this
          exact this
  | get j path k =>
    refine ⟨rfl, ?_⟩
    cases hj : w.cfgs[j]? with
    | none => simp only [cstep, hj]; exact hw
    | some c => simp only [cstep, hj]; exact hw

/-- a straight-line method body behaves on the world with identities as on independent configurations -/
theorem runScript_isolated (sc : List (Option COp)) : ∀ w : CWorld, CInv w →
    runScript cstep w sc = runScript cspecStep w sc ∧ CInv (runScript cstep w sc).1 := by
  induction sc with
  | nil => intro w hw; exact ⟨rfl, hw⟩
  | cons o t ih =>
    intro w hw
    cases o with
    | none => exact ⟨rfl, hw⟩
    | some op =>
      have h := cstep_isolated w hw op
      simp only [runScript]
      rw [← h.1]
      cases hres : cstep w op with
      | mk w' r =>
        rw [hres] at h
        cases r with
        | ok _ => exact ih w' h.2
        | error e => exact ⟨rfl, h.2⟩

/-- every method of `Config` behaves on the world with identities as on independent configurations -/
theorem cmethod_isolated (K : Keys) (E : Ext) (w : CWorld) (hw : CInv w) (j : Nat) (m : Method) :
    cmethod cstep K E w j m = cmethod cspecStep K E w j m ∧ CInv (cmethod cstep K E w j m).1 := by
  cases m with
  | enableTracing => exact runScript_isolated _ w hw
  | disableTracing => exact runScript_isolated _ w hw
  | setEnableTracing flag => exact runScript_isolated _ w hw
  | setNcpu v => exact runScript_isolated _ w hw
  | setInternalUnits a e l t => exact runScript_isolated _ w hw
  | setWd path =>
    cases hj : w.cfgs[j]? with
    | none => simp only [cmethod, hj]; exact ⟨trivial, hw⟩
    | some c =>
      cases hg : cget c [K.project] K.workingDirectory with
      | error e => simp only [cmethod, hj, hg]; exact ⟨trivial, hw⟩
      | ok cur =>
        simp only [cmethod, hj, hg]
        have hw1 : CInv { w with syspath := sysRemove cur w.syspath } := cinv_syspath w hw _
        cases ha : onVal (match path with | some p => CRes.val p | none => cur) E.abspath with
        | error e => simp only []; exact ⟨trivial, hw1⟩
        | ok r =>
          cases r with
          | unit => simp only []; exact ⟨trivial, hw1⟩
          | cont => simp only []; exact ⟨trivial, hw1⟩
          | val wd =>
            simp only []
            have h := cstep_isolated _ hw1 (.set j [K.project] K.workingDirectory wd)
            rw [← h.1]
            cases hres : cstep { w with syspath := sysRemove cur w.syspath }
                (.set j [K.project] K.workingDirectory wd) with
            | mk w2 r2 =>
              rw [hres] at h
              cases r2 with
              | ok _ => exact ⟨rfl, cinv_syspath w2 h.2 _⟩
              | error e => exact ⟨rfl, h.2⟩
  | isTracingEnabled =>
    cases hj : w.cfgs[j]? <;> simp only [cmethod, hj] <;> exact ⟨trivial, hw⟩
  | getWd =>
    cases hj : w.cfgs[j]? with
    | none => simp only [cmethod, hj]; exact ⟨trivial, hw⟩
    | some c => simp only [cmethod, hj]; split <;> exact ⟨trivial, hw⟩
  | toInternalTimeUnit u =>
    cases hj : w.cfgs[j]? with
    | none => simp only [cmethod, hj]; exact ⟨trivial, hw⟩
    | some c => simp only [cmethod, hj]; split <;> exact ⟨trivial, hw⟩
  | wdFilename f =>
    cases hj : w.cfgs[j]? with
    | none => simp only [cmethod, hj]; exact ⟨trivial, hw⟩
    | some c =>
      simp only [cmethod, hj]
      split
      · exact ⟨trivial, hw⟩
      · split <;> exact ⟨trivial, hw⟩

theorem ccall_isolated (K : Keys) (E : Ext) (w : CWorld) (hw : CInv w) (c : CCall) :
    ccall cstep K E w c = ccall cspecStep K E w c ∧ CInv (ccall cstep K E w c).1 := by
  cases c with
  | op o => exact cstep_isolated w hw o
  | meth j m => exact cmethod_isolated K E w hw j m

end C20

/-- **configuration isolation**: in a world where the base configuration, the user dictionaries
and the existing Config instances share no container object, any sequence of `Config()`,
`Config.from_dict(u)`, item writes `cfg[p1]..[pn][k] = v`, deletions and reads behaves as if every
write changed only the configuration it was made through — and the world stays such a world. -/
theorem c20_config_isolated (ops : List COp) : ∀ w : CWorld, C20.CInv w →
    crun cstep w ops = crun cspecStep w ops ∧ C20.CInv (crun cstep w ops) := by
  induction ops with
  | nil => intro w hw; exact ⟨rfl, hw⟩
  | cons op ops ih =>
    intro w hw
    have h := C20.cstep_isolated w hw op
    show crun cstep (cstep w op).1 ops = crun cspecStep (cspecStep w op).1 ops ∧ _
    rw [← h.1]
    exact ih _ h.2

/-- **every mutator**: the same for sequences that also call the methods of `Config`
(`enable_tracing`, `disable_tracing`, `set_enable_tracing`, `set_ncpu`, `set_internal_units` with its
`TypeError` after partial writes, `set_wd` with its `sys.path` handling, and the queries), whatever
the key codes and the external functions (`os.path.abspath`, `os.path.join`, unit conversion) are. -/
theorem c20_config_calls_isolated (K : Keys) (E : Ext) (calls : List CCall) : ∀ w : CWorld, C20.CInv w →
    crunCalls cstep K E w calls = crunCalls cspecStep K E w calls ∧ C20.CInv (crunCalls cstep K E w calls) := by
  induction calls with
  | nil => intro w hw; exact ⟨rfl, hw⟩
  | cons c cs ih =>
    intro w hw
    have h := C20.ccall_isolated K E w hw c
    show crunCalls cstep K E (ccall cstep K E w c).1 cs = crunCalls cspecStep K E (ccall cspecStep K E w c).1 cs ∧ _
    rw [← h.1]
    exact ih _ h.2

/-- a write or deletion through configuration `j` leaves every other entry of the world (other
Config instances, `_BASECONFIG`, user dictionaries) exactly as it was -/
theorem c20_config_write_local (w : CWorld) (hw : C20.CInv w) (j i : Nat) (path : List Nat) (k v : Nat)
    (hij : i ≠ j) : (cstep w (.set j path k v)).1.cfgs[i]? = w.cfgs[i]? ∧
      (cstep w (.del j path k)).1.cfgs[i]? = w.cfgs[i]? := by
  rw [(C20.cstep_isolated w hw _).1, (C20.cstep_isolated w hw _).1]
  cases hj : w.cfgs[j]? with
  | none => simp only [cspecStep, hj]; exact ⟨trivial, trivial⟩
  | some c =>
    cases hn : navigate c path with
    | error e => simp only [cspecStep, hj, hn]; exact ⟨trivial, trivial⟩
    | ok l =>
      simp only [cspecStep, hj, hn]
      refine ⟨List.getElem?_set_ne (fun e => hij e.symm), ?_⟩
      cases hk : c.lookup (path ++ [k]) with
      | none => rfl
      | some r => exact List.getElem?_set_ne (fun e => hij e.symm)

/-- a new `Config()` has the content of the base configuration and only new dict objects -/
theorem c20_config_new_fresh (w : CWorld) (base : Cfg) (hb : w.cfgs[0]? = some base) :
    ∃ c n, cstep w .new = ({ w with next := n, cfgs := w.cfgs ++ [c] }, .ok .unit) ∧ c.leaves = base.leaves ∧
      c.dicts.map Prod.fst = base.dicts.map Prod.fst ∧ ∀ l ∈ c.locs, w.next ≤ l := by
  refine ⟨base.deepCopy w.next, w.next + base.dicts.length, ?_, rfl, ?_, ?_⟩
  · simp only [cstep, newCfg, hb]
  · simp [Cfg.deepCopy, Function.comp_def]
  · intro l hl; exact (C20.locs_deepCopy w.next base l hl).1

/-- witness world: a base configuration and one user dictionary, both with a nested dict at key 1 -/
def c20_cfgWitness : CWorld :=
  { next := 4, cfgs := [{ dicts := [([], 0), ([1], 1)], leaves := [([1, 5], 7)] },
                        { dicts := [([], 2), ([1], 3)], leaves := [([1, 5], 8)] }] }

example : C20.CInv c20_cfgWitness := ⟨by decide, by decide⟩

/-- the pinned `from_dict` (`cfg.update(user_dict)` without a copy): two configurations made from
one user dictionary share its nested dict — a write through the first one shows up in the second
one and in the user dictionary (replayed on the real code by the `config` oracle; repaired by a
`fix:` commit). -/
theorem c20_from_dict_old_counterexample :
    let w := crun cstepOld c20_cfgWitness [.fromDict 1, .fromDict 1]
    (cstepOld w (.set 2 [1] 5 9)).1.cfgs[3]? ≠ w.cfgs[3]? ∧
    (cstepOld w (.set 2 [1] 5 9)).1.cfgs[1]? ≠ w.cfgs[1]? := by
  decide

/-- the same history on the fixed code: nothing but configuration 2 changes -/
example :
    let w := crun cstep c20_cfgWitness [.fromDict 1, .fromDict 1]
    (cstep w (.set 2 [1] 5 9)).1.cfgs[3]? = w.cfgs[3]? ∧
    (cstep w (.set 2 [1] 5 9)).1.cfgs[1]? = w.cfgs[1]? ∧
    (cstep w (.set 2 [1] 5 9)).1.cfgs[2]? ≠ w.cfgs[2]? := by
  decide

/-! ### behavioural isolation: what is observed through one configuration depends on the calls made
through that configuration only -/

namespace C20

/-- the configuration a call goes through (`none` for the creation of a new one) -/
def callTarget : CCall → Option Nat
  | .op .new => none
  | .op (.fromDict _) => none
  | .op (.set j _ _ _) => some j
  | .op (.del j _ _) => some j
  | .op (.get j _ _) => some j
  | .meth j _ => some j

/-- the results (return values and raised errors) of the calls made through configuration `j` -/
def resultsOn (K : Keys) (E : Ext) (j : Nat) : CWorld → List CCall → List (Except CErr CRes)
  | _, [] => []
  | w, c :: cs =>
    if callTarget c = some j then (ccall cstep K E w c).2 :: resultsOn K E j (ccall cstep K E w c).1 cs
    else resultsOn K E j (ccall cstep K E w c).1 cs

/-- an item write / deletion / read through `i` on independent configurations: only entry `i` can change -/
theorem spec_op_other (w : CWorld) (i j : Nat) (hij : i ≠ j) (op : COp)
    (hop : callTarget (.op op) = some i) :
    (cspecStep w op).1.cfgs[j]? = w.cfgs[j]? ∧ (cspecStep w op).1.cfgs.length = w.cfgs.length := by
  cases op with
  | new => simp [callTarget] at hop
  | fromDict u => simp [callTarget] at hop
  | set i' path k v =>
    have : i' = i := by simpa [callTarget] using hop
    subst this
    cases hc : w.cfgs[i']? with
    | none => simp [cspecStep, hc]
    | some c =>
      cases hn : navigate c path with
      | error e => simp [cspecStep, hc, hn]
      | ok l => simp [cspecStep, hc, hn, List.getElem?_set_ne hij]
  | del i' path k =>
    have : i' = i := by simpa [callTarget] using hop
    subst this
    cases hc : w.cfgs[i']? with
    | none => simp [cspecStep, hc]
    | some c =>
      cases hn : navigate c path with
      | error e => simp [cspecStep, hc, hn]
      | ok l =>
        cases hk : c.lookup (path ++ [k]) with
        | none => simp [cspecStep, hc, hn, hk]
        | some r => simp [cspecStep, hc, hn, hk, List.getElem?_set_ne hij]
  | get i' path k =>
    cases hc : w.cfgs[i']? <;> simp [cspecStep, cstep, hc]

/-- … and what happens to entry `j` and what is returned depends on entry `j` only -/
theorem spec_op_local (w1 w2 : CWorld) (j : Nat) (heq : w1.cfgs[j]? = w2.cfgs[j]?) (op : COp)
    (hop : callTarget (.op op) = some j) :
    (cspecStep w1 op).2 = (cspecStep w2 op).2 ∧ (cspecStep w1 op).1.cfgs[j]? = (cspecStep w2 op).1.cfgs[j]? := by
  have hlen : ∀ (w : CWorld) (c : Cfg), w.cfgs[j]? = some c → j < w.cfgs.length := fun w c h =>
    (List.getElem?_eq_some_iff.mp h).1
  cases op with
  | new => simp [callTarget] at hop
  | fromDict u => simp [callTarget] at hop
  | set j' path k v =>
    have : j' = j := by simpa [callTarget] using hop
    subst this
    cases hc : w1.cfgs[j']? with
    | none => have hc2 := heq ▸ hc; simp [cspecStep, hc, hc2]
    | some c =>
      have hc2 : w2.cfgs[j']? = some c := heq ▸ hc
      cases hn : navigate c path with
      | error e => simp [cspecStep, hc, hc2, hn]
      | ok l => simp [cspecStep, hc, hc2, hn, List.getElem?_set_self (hlen _ _ hc), List.getElem?_set_self (hlen _ _ hc2)]
  | del j' path k =>
    have : j' = j := by simpa [callTarget] using hop
    subst this
    cases hc : w1.cfgs[j']? with
    | none => have hc2 := heq ▸ hc; simp [cspecStep, hc, hc2]
    | some c =>
      have hc2 : w2.cfgs[j']? = some c := heq ▸ hc
      cases hn : navigate c path with
      | error e => simp [cspecStep, hc, hc2, hn]
      | ok l =>
        cases hk : c.lookup (path ++ [k]) with
        | none => simp [cspecStep, hc, hc2, hn, hk]
        | some r =>
          simp [cspecStep, hc, hc2, hn, hk, List.getElem?_set_self (hlen _ _ hc), List.getElem?_set_self (hlen _ _ hc2)]
  | get j' path k =>
    have : j' = j := by simpa [callTarget] using hop
    subst this
    cases hc : w1.cfgs[j']? with
    | none => have hc2 := heq ▸ hc; simp [cspecStep, cstep, hc, hc2]
    | some c => have hc2 : w2.cfgs[j']? = some c := heq ▸ hc; simp [cspecStep, cstep, hc, hc2]

/-- a script all of whose writes go through configuration `i` -/
def ScriptThrough (i : Nat) (sc : List (Option COp)) : Prop :=
  ∀ op, some op ∈ sc → callTarget (.op op) = some i

theorem runScript_spec_other (i j : Nat) (hij : i ≠ j) (sc : List (Option COp)) : ∀ w : CWorld,
    ScriptThrough i sc →
    (runScript cspecStep w sc).1.cfgs[j]? = w.cfgs[j]? ∧ (runScript cspecStep w sc).1.cfgs.length = w.cfgs.length := by
  induction sc with
  | nil => intro w _; exact ⟨rfl, rfl⟩
  | cons o t ih =>
    intro w hs
    cases o with
    | none => exact ⟨rfl, rfl⟩
    | some op =>
      have h1 := spec_op_other w i j hij op (hs op (by simp))
      simp only [runScript]
      cases hres : cspecStep w op with
      | mk w' r =>
        rw [hres] at h1
        cases r with
        | ok _ =>
          have h2 := ih w' (fun op' h' => hs op' (List.mem_cons_of_mem _ h'))
          exact ⟨h2.1.trans h1.1, h2.2.trans h1.2⟩
        | error e => exact h1

theorem runScript_spec_local (j : Nat) (sc : List (Option COp)) : ∀ w1 w2 : CWorld,
    w1.cfgs[j]? = w2.cfgs[j]? → ScriptThrough j sc →
    (runScript cspecStep w1 sc).2 = (runScript cspecStep w2 sc).2 ∧
    (runScript cspecStep w1 sc).1.cfgs[j]? = (runScript cspecStep w2 sc).1.cfgs[j]? := by
  induction sc with
  | nil => intro w1 w2 heq _; exact ⟨rfl, heq⟩
  | cons o t ih =>
    intro w1 w2 heq hs
    cases o with
    | none => exact ⟨rfl, heq⟩
    | some op =>
      have h1 := spec_op_local w1 w2 j heq op (hs op (by simp))
      simp only [runScript]
      cases hr1 : cspecStep w1 op with
      | mk w1' r1 =>
        cases hr2 : cspecStep w2 op with
        | mk w2' r2 =>
          rw [hr1, hr2] at h1
          simp only at h1
          obtain ⟨hr, hc⟩ := h1
          subst hr
          cases r1 with
          | ok _ => exact ih w1' w2' hc (fun op' h' => hs op' (List.mem_cons_of_mem _ h'))
          | error e => exact ⟨rfl, hc⟩

theorem unitLine_through (K : Keys) (j : Nat) (a : UnitArg) (key : Nat) : ScriptThrough j (unitLine K j a key) := by
  intro op h
  cases a <;> simp [unitLine] at h
  subst h; rfl

theorem scriptThrough_append (i : Nat) (s1 s2 : List (Option COp)) (h1 : ScriptThrough i s1)
    (h2 : ScriptThrough i s2) : ScriptThrough i (s1 ++ s2) := by
  intro op h
  rcases List.mem_append.mp h with h | h
  · exact h1 op h
  · exact h2 op h

/-- the straight-line body of a method through `i`, if it has one -/
def methodScript (K : Keys) (E : Ext) (i : Nat) : Method → Option (List (Option COp))
  | .enableTracing => some [some (.set i [K.debugging] K.enableTracing E.vTrue)]
  | .disableTracing => some [some (.set i [K.debugging] K.enableTracing E.vFalse)]
  | .setEnableTracing flag => some [some (.set i [K.debugging] K.enableTracing flag)]
  | .setNcpu v => some [some (.set i [K.multiproc] K.ncpu v)]
  | .setInternalUnits a e l t => some (unitLine K i a K.angle ++ unitLine K i e K.energy ++
      unitLine K i l K.length ++ unitLine K i t K.time)
  | _ => none

theorem methodScript_through (K : Keys) (E : Ext) (i : Nat) (m : Method) (sc : List (Option COp))
    (h : methodScript K E i m = some sc) : ScriptThrough i sc := by
  cases m <;> simp only [methodScript, Option.some.injEq, reduceCtorEq] at h
  all_goals (try (subst h; intro op hop; simp at hop; subst hop; rfl))
  subst h
  exact scriptThrough_append _ _ _ (scriptThrough_append _ _ _ (scriptThrough_append _ _ _
    (unitLine_through K i _ _) (unitLine_through K i _ _)) (unitLine_through K i _ _)) (unitLine_through K i _ _)

theorem cmethod_script (stepf : CWorld → COp → CWorld × Except CErr CRes) (K : Keys) (E : Ext) (w : CWorld)
    (i : Nat) (m : Method) (sc : List (Option COp)) (h : methodScript K E i m = some sc) :
    cmethod stepf K E w i m = runScript stepf w sc := by
  cases m <;> simp only [methodScript, Option.some.injEq, reduceCtorEq] at h <;> subst h <;> rfl

/-- a method called through `i` leaves every other configuration as it was -/
theorem spec_method_other (K : Keys) (E : Ext) (w : CWorld) (i j : Nat) (hij : i ≠ j) (m : Method) :
    (cmethod cspecStep K E w i m).1.cfgs[j]? = w.cfgs[j]? ∧
    (cmethod cspecStep K E w i m).1.cfgs.length = w.cfgs.length := by
  cases hs : methodScript K E i m with
  | some sc =>
    rw [cmethod_script cspecStep K E w i m sc hs]
    exact runScript_spec_other i j hij sc w (methodScript_through K E i m sc hs)
  | none =>
    cases m with
    | setWd path =>
      cases hc : w.cfgs[i]? with
      | none => simp [cmethod, hc]
      | some c =>
        cases hg : cget c [K.project] K.workingDirectory with
        | error e => simp [cmethod, hc, hg]
        | ok cur =>
          simp only [cmethod, hc, hg]
          have h1 := fun wd => spec_op_other { w with syspath := sysRemove cur w.syspath } i j hij
            (.set i [K.project] K.workingDirectory wd) rfl
          split
          · exact ⟨rfl, rfl⟩
          · rename_i wd _
            have h1 := h1 wd
            split
            · rename_i w2 a hres; rw [hres] at h1; exact h1
            · rename_i w2 e hres; rw [hres] at h1; exact h1
          · exact ⟨rfl, rfl⟩
    | isTracingEnabled => cases hc : w.cfgs[i]? <;> simp [cmethod, hc]
    | getWd =>
      cases hc : w.cfgs[i]? with
      | none => simp [cmethod, hc]
      | some c => simp only [cmethod, hc]; split <;> exact ⟨rfl, rfl⟩
    | toInternalTimeUnit u =>
      cases hc : w.cfgs[i]? with
      | none => simp [cmethod, hc]
      | some c => simp only [cmethod, hc]; split <;> exact ⟨rfl, rfl⟩
    | wdFilename f =>
      cases hc : w.cfgs[i]? with
      | none => simp [cmethod, hc]
      | some c =>
        simp only [cmethod, hc]
        split
        · exact ⟨rfl, rfl⟩
        · split <;> exact ⟨rfl, rfl⟩
    | enableTracing => simp [methodScript] at hs
    | disableTracing => simp [methodScript] at hs
    | setEnableTracing flag => simp [methodScript] at hs
    | setNcpu v => simp [methodScript] at hs
    | setInternalUnits a e l t => simp [methodScript] at hs

/-- what a method called through `j` returns and does to configuration `j` depends on
configuration `j` only (not on other configurations, not on `sys.path`) -/
theorem spec_method_local (K : Keys) (E : Ext) (w1 w2 : CWorld) (j : Nat) (heq : w1.cfgs[j]? = w2.cfgs[j]?)
    (m : Method) :
    (cmethod cspecStep K E w1 j m).2 = (cmethod cspecStep K E w2 j m).2 ∧
    (cmethod cspecStep K E w1 j m).1.cfgs[j]? = (cmethod cspecStep K E w2 j m).1.cfgs[j]? := by
  cases hs : methodScript K E j m with
  | some sc =>
    rw [cmethod_script cspecStep K E w1 j m sc hs, cmethod_script cspecStep K E w2 j m sc hs]
    exact runScript_spec_local j sc w1 w2 heq (methodScript_through K E j m sc hs)
  | none =>
    cases hc : w1.cfgs[j]? with
    | none =>
      have hc2 : w2.cfgs[j]? = none := heq ▸ hc
      cases m <;> first | (simp [methodScript] at hs; done) | simp [cmethod, hc, hc2]
    | some c =>
      have hc2 : w2.cfgs[j]? = some c := heq ▸ hc
      cases m with
      | setWd path =>
        cases hg : cget c [K.project] K.workingDirectory with
        | error e => simp [cmethod, hc, hc2, hg]
        | ok cur =>
          simp only [cmethod, hc, hc2, hg]
          have h1 := fun wd => spec_op_local { w1 with syspath := sysRemove cur w1.syspath }
            { w2 with syspath := sysRemove cur w2.syspath } j (by simp [hc, hc2])
            (.set j [K.project] K.workingDirectory wd) rfl
          split
          · exact ⟨rfl, by simp [hc, hc2]⟩
          · rename_i wd _
            have h1 := h1 wd
            cases hr1 : cspecStep { w1 with syspath := sysRemove cur w1.syspath }
                (.set j [K.project] K.workingDirectory wd) with
            | mk a1 r1 =>
              cases hr2 : cspecStep { w2 with syspath := sysRemove cur w2.syspath }
                  (.set j [K.project] K.workingDirectory wd) with
              | mk a2 r2 =>
                rw [hr1, hr2] at h1
                simp only at h1
                obtain ⟨hr, hcf⟩ := h1
                subst hr
                cases r1 <;> exact ⟨rfl, hcf⟩
          · exact ⟨rfl, by simp [hc, hc2]⟩
      | isTracingEnabled => simp [cmethod, hc, hc2]
      | getWd => simp only [cmethod, hc, hc2]; split <;> simp [hc, hc2]
      | toInternalTimeUnit u => simp only [cmethod, hc, hc2]; split <;> simp [hc, hc2]
      | wdFilename f =>
        simp only [cmethod, hc, hc2]
        split
        · simp [hc, hc2]
        · split <;> simp [hc, hc2]
      | enableTracing => simp [methodScript] at hs
      | disableTracing => simp [methodScript] at hs
      | setEnableTracing flag => simp [methodScript] at hs
      | setNcpu v => simp [methodScript] at hs
      | setInternalUnits a e l t => simp [methodScript] at hs

/-- a call that does not go through `j` leaves configuration `j` as it was -/
theorem call_other_keeps (K : Keys) (E : Ext) (w : CWorld) (hw : CInv w) (j : Nat) (hj : j < w.cfgs.length)
    (c : CCall) (ht : callTarget c ≠ some j) :
    (ccall cstep K E w c).1.cfgs[j]? = w.cfgs[j]? ∧ j < (ccall cstep K E w c).1.cfgs.length := by
  rw [(ccall_isolated K E w hw c).1]
  cases c with
  | op o =>
    cases o with
    | new =>
      cases hb : w.cfgs[0]? with
      | none => simp [ccall, cspecStep, cstep, newCfg, hb, hj]
      | some base => simp [ccall, cspecStep, cstep, newCfg, hb, List.getElem?_append_left hj]; omega
    | fromDict u =>
      cases hb : w.cfgs[0]? with
      | none => simp [ccall, cspecStep, cstep, newCfg, hb, hj]
      | some base =>
        cases hu : w.cfgs[u]? with
        | none => simp [ccall, cspecStep, cstep, newCfg, hb, hu, hj]
        | some ud => simp [ccall, cspecStep, cstep, newCfg, hb, hu, List.getElem?_append_left hj]; omega
    | set i path k v =>
      have hij : i ≠ j := fun e => ht (by simp [callTarget, e])
      have := spec_op_other w i j hij (.set i path k v) rfl
      exact ⟨this.1, by rw [show (ccall cspecStep K E w (.op (.set i path k v))) = cspecStep w (.set i path k v) from rfl, this.2]; exact hj⟩
    | del i path k =>
      have hij : i ≠ j := fun e => ht (by simp [callTarget, e])
      have := spec_op_other w i j hij (.del i path k) rfl
      exact ⟨this.1, by rw [show (ccall cspecStep K E w (.op (.del i path k))) = cspecStep w (.del i path k) from rfl, this.2]; exact hj⟩
    | get i path k =>
      have hij : i ≠ j := fun e => ht (by simp [callTarget, e])
      have := spec_op_other w i j hij (.get i path k) rfl
      exact ⟨this.1, by rw [show (ccall cspecStep K E w (.op (.get i path k))) = cspecStep w (.get i path k) from rfl, this.2]; exact hj⟩
  | meth i m =>
    have hij : i ≠ j := fun e => ht (by simp [callTarget, e])
    have := spec_method_other K E w i j hij m
    exact ⟨this.1, by rw [show (ccall cspecStep K E w (.meth i m)) = cmethod cspecStep K E w i m from rfl, this.2]; exact hj⟩

/-- a call through `j` returns, and does to configuration `j`, the same in two worlds that agree on
configuration `j` -/
theorem call_same_local (K : Keys) (E : Ext) (w1 w2 : CWorld) (hw1 : CInv w1) (hw2 : CInv w2) (j : Nat)
    (heq : w1.cfgs[j]? = w2.cfgs[j]?) (c : CCall) (ht : callTarget c = some j) :
    (ccall cstep K E w1 c).2 = (ccall cstep K E w2 c).2 ∧
    (ccall cstep K E w1 c).1.cfgs[j]? = (ccall cstep K E w2 c).1.cfgs[j]? := by
  rw [(ccall_isolated K E w1 hw1 c).1, (ccall_isolated K E w2 hw2 c).1]
  cases c with
  | op o => exact spec_op_local w1 w2 j heq o ht
  | meth i m =>
    have : i = j := by simpa [callTarget] using ht
    subst this
    exact spec_method_local K E w1 w2 i heq m

end C20

/-- **behavioural isolation (non-interference)**: take any sequence of calls on a world of unshared
configurations — creations, item writes, deletions, reads, every method of `Config` — and any
existing configuration `j`.  Everything observed through `j` (each return value, each raised error,
and the final content of `j`) is what it is when only the calls made through `j` are executed:
nothing done through another instance, no query made elsewhere, no new instance, and no state of
`sys.path` can change it. -/
theorem c20_config_noninterference (K : Keys) (E : Ext) (j : Nat) (calls : List CCall) :
    ∀ w1 w2 : CWorld, C20.CInv w1 → C20.CInv w2 → j < w1.cfgs.length → w1.cfgs[j]? = w2.cfgs[j]? →
    C20.resultsOn K E j w1 calls =
      C20.resultsOn K E j w2 (calls.filter (fun c => decide (C20.callTarget c = some j))) ∧
    (crunCalls cstep K E w1 calls).cfgs[j]? =
      (crunCalls cstep K E w2 (calls.filter (fun c => decide (C20.callTarget c = some j)))).cfgs[j]? := by
  induction calls with
  | nil => intro w1 w2 _ _ _ heq; exact ⟨rfl, heq⟩
  | cons c cs ih =>
    intro w1 w2 hw1 hw2 hj heq
    by_cases ht : C20.callTarget c = some j
    · have hl := C20.call_same_local K E w1 w2 hw1 hw2 j heq c ht
      have hw1' := (C20.ccall_isolated K E w1 hw1 c).2
      have hw2' := (C20.ccall_isolated K E w2 hw2 c).2
      have hj' : j < (ccall cstep K E w1 c).1.cfgs.length := by
        cases hc : (ccall cstep K E w1 c).1.cfgs[j]? with
        | some x => exact (List.getElem?_eq_some_iff.mp hc).1
        | none =>
          -- entry j existed before and a call through j never removes it
          exfalso
          have h1 : w1.cfgs[j]? = some w1.cfgs[j] := List.getElem?_eq_getElem hj
          rw [(C20.ccall_isolated K E w1 hw1 c).1] at hc
          cases c with
          | op o =>
            cases o with
            | new => simp [C20.callTarget] at ht
            | fromDict u => simp [C20.callTarget] at ht
            | set j' p k v =>
              have : j' = j := by simpa [C20.callTarget] using ht
              subst this
              simp only [ccall, cspecStep, h1] at hc
              split at hc <;> simp [h1, hj] at hc
            | del j' p k =>
              have : j' = j := by simpa [C20.callTarget] using ht
              subst this
              simp only [ccall, cspecStep, h1] at hc
              split at hc
              · simp [h1] at hc
              · split at hc <;> simp [h1, hj] at hc
            | get j' p k =>
              have : j' = j := by simpa [C20.callTarget] using ht
              subst this
              simp [ccall, cspecStep, cstep, h1] at hc
          | meth i m =>
            have : i = j := by simpa [C20.callTarget] using ht
            subst this
            have h2 := C20.spec_method_local K E w1 w1 i rfl m
            -- length is preserved by methods: use the "other" lemma on a different index is not available;
            -- argue through lengths directly
            have hlen : (cmethod cspecStep K E w1 i m).1.cfgs.length = w1.cfgs.length := by
              cases hs : C20.methodScript K E i m with
              | some sc =>
                rw [C20.cmethod_script cspecStep K E w1 i m sc hs]
                exact (C20.runScript_spec_other i (i + 1) (by omega) sc w1
                  (C20.methodScript_through K E i m sc hs)).2
              | none => exact (C20.spec_method_other K E w1 i (i + 1) (by omega) m).2
            have : i < (cmethod cspecStep K E w1 i m).1.cfgs.length := by rw [hlen]; exact hj
            rw [show (ccall cspecStep K E w1 (.meth i m)) = cmethod cspecStep K E w1 i m from rfl] at hc
            rw [List.getElem?_eq_getElem this] at hc
            cases hc
      obtain ⟨ih1, ih2⟩ := ih _ _ hw1' hw2' hj' hl.2
      simp only [List.filter_cons, ht, decide_true, if_true, C20.resultsOn, crunCalls]
      exact ⟨by rw [hl.1, ih1], ih2⟩
    · have hk := C20.call_other_keeps K E w1 hw1 j hj c ht
      have hw1' := (C20.ccall_isolated K E w1 hw1 c).2
      obtain ⟨ih1, ih2⟩ := ih _ w2 hw1' hw2 hk.2 (hk.1.trans heq)
      simp only [List.filter_cons, ht, decide_false, if_false, C20.resultsOn, crunCalls, Bool.false_eq_true]
      exact ⟨ih1, ih2⟩

/-! ### hypotheses: the invariant of the configuration world is decidable and checked on every run;
a class-level memo breaks the non-interference -/

namespace C20

theorem pairwiseDisjB_sound (cs : List Cfg) (h : pairwiseDisjB cs = true) : cs.Pairwise Disj := by
  induction cs with
  | nil => exact List.Pairwise.nil
  | cons a t ih =>
    simp only [pairwiseDisjB, Bool.and_eq_true] at h
    refine List.Pairwise.cons ?_ (ih h.2)
    intro b hb l hla hlb
    have h1 := List.all_eq_true.mp h.1 b hb
    have h2 := List.all_eq_true.mp h1 l hla
    simp only [Bool.not_eq_true', List.contains_eq_mem, decide_eq_false_iff_not] at h2
    exact h2 hlb

end C20

/-- the executable check `cinvB` (printed by the driver for the initial world of every
configuration request and asserted by the harness) establishes the invariant the configuration
theorems assume -/
theorem c20_cinvB_sound (w : CWorld) (h : cinvB w = true) : C20.CInv w := by
  simp only [cinvB, Bool.and_eq_true] at h
  refine ⟨C20.pairwiseDisjB_sound _ h.1, ?_⟩
  intro a ha l hl
  have h1 := List.all_eq_true.mp h.2 a ha
  have h2 := List.all_eq_true.mp h1 l hl
  simpa using h2

example : cinvB c20_cfgWitness = true := by decide

/-- key codes / external functions of the concrete memo example: `conv u i = 100·u + i` -/
def c20_memoK : Keys := ⟨1, 2, 3, 4, 5, 6, 7, 8, 9, 10, 11, 12⟩
def c20_memoE : Ext :=
  { abspath := fun v => .ok v, conv := fun u i => .ok (100 * u + i), join := fun a b => .ok (a + b),
    vTrue := 1, vFalse := 0 }
/-- two configurations whose internal time units are 1 and 2 -/
def c20_memoA : Cfg := { dicts := [([], 0), ([5], 1), ([5, 6], 2)], leaves := [([5, 6, 10], 1)] }
def c20_memoB : Cfg := { dicts := [([], 3), ([5], 4), ([5, 6], 5)], leaves := [([5, 6, 10], 2)] }

/-- negative model (seeded change C20_m3b): with a class-level memo keyed by the requested unit
only, what `to_internal_time_unit(7)` answers through configuration B depends on whether A was
asked before — 701 (A's factor) instead of 702; the model of the current code answers 702 whatever
happened through A (`c20_config_noninterference`). -/
theorem c20_time_memo_counterexample :
    (memoTime c20_memoE (memoTime c20_memoE [] c20_memoA c20_memoK 7).1 c20_memoB c20_memoK 7).2 = .ok (.val 701) ∧
    (memoTime c20_memoE [] c20_memoB c20_memoK 7).2 = .ok (.val 702) ∧
    (cmethod cstep c20_memoK c20_memoE { next := 6, cfgs := [c20_memoA, c20_memoB] } 1 (.toInternalTimeUnit 7)).2 =
      .ok (.val 702) := by
  refine ⟨rfl, rfl, rfl⟩

/-! ### argument forms: stage masks and the `PDFSet` entry points -/

/-- `and_check` / `or_check` / `get_joint_names` over the argument forms: an `int` and an iterable
give the bitwise answers above, a scalar that is no `int` raises (`none`) — except in
`get_joint_names` over no field at all -/
theorem c20_check_forms (stage : ℕ) (fields : List (ℕ × ℕ)) :
    (∀ m, andCheckE stage (.int m) = some (andCheck stage m) ∧ orCheckE stage (.int m) = some (orCheck stage m)) ∧
    (∀ ms, andCheckE stage (.iter ms) = some (andCheckSeq stage ms) ∧
        orCheckE stage (.iter ms) = some (orCheckSeq stage ms)) ∧
    andCheckE stage .scalar = none ∧ orCheckE stage .scalar = none ∧
    (∀ m, jointNamesE fields (.int m) = some (jointNames fields (.one m))) ∧
    (∀ ms, jointNamesE fields (.iter ms) = some (jointNames fields (.many ms))) ∧
    (jointNamesE fields .scalar = none ↔ fields ≠ []) := by
  refine ⟨fun m => ⟨rfl, rfl⟩, fun ms => ⟨rfl, rfl⟩, rfl, rfl, fun m => rfl, fun ms => rfl, ?_⟩
  cases fields <;> simp [jointNamesE]

/-- the sequence forms do not depend on the order of the masks (a `set` of masks is a valid argument) -/
theorem c20_seq_perm (s : ℕ) (ms₁ ms₂ : List ℕ) (hp : ms₁.Perm ms₂) :
    andCheckSeq s ms₁ = andCheckSeq s ms₂ ∧ orCheckSeq s ms₁ = orCheckSeq s ms₂ := by
  constructor
  · rw [Bool.eq_iff_iff, c20_and_seq_iff, c20_and_seq_iff]
    exact ⟨fun h m hm => h m (hp.mem_iff.mpr hm), fun h m hm => h m (hp.mem_iff.mp hm)⟩
  · rw [Bool.eq_iff_iff, c20_or_seq_iff, c20_or_seq_iff]
    exact ⟨fun ⟨m, hm, h⟩ => ⟨m, hp.mem_iff.mp hm, h⟩, fun ⟨m, hm, h⟩ => ⟨m, hp.mem_iff.mpr hm, h⟩⟩

namespace C20
section pdfset
variable {K H P : Type} [LE K] [DecidableLE K] [DecidableEq H]

omit [LE K] [DecidableLE K] in
theorem odSet_absent {V : Type} (s : List (H × V)) (k : H) (v : V) (h : odGet s k = none) :
    odSet s k v = s ++ [(k, v)] := by
  induction s with
  | nil => rfl
  | cons p t ih =>
    obtain ⟨k', v'⟩ := p
    by_cases hk : k' = k
    · simp [odGet, hk] at h
    · simp only [odGet, hk, if_false] at h
      simp [odSet, hk, ih h]

/-- all stored PDFs have the axes of the first one, the keys are distinct -/
def PdfInv (s : List (H × (P × Nat))) : Prop :=
  (odKeys s).Nodup ∧ ∀ e ∈ s, ∀ e0, s.head? = some e0 → e.2.2 = e0.2.2

/-- `add_pdf` calls in a row; a raising call leaves the set as it is -/
def runAdds (h : List (K × PyVal) → H) (s : List (H × (P × Nat))) :
    List (PdfArg P × KeyArg K H) → List (H × (P × Nat))
  | [] => s
  | (p, g) :: t => match addPdfE h s p g with
      | .ok s' => runAdds h s' t
      | .error _ => runAdds h s t

theorem addPdfE_inv (h : List (K × PyVal) → H) (s s' : List (H × (P × Nat))) (p : PdfArg P) (g : KeyArg K H)
    (hs : PdfInv s) (ha : addPdfE h s p g = .ok s') : PdfInv s' := by
  unfold addPdfE at ha
  cases p with
  | notPdf => cases ha
  | pdf q ax =>
    cases g with
    | key k => cases ha
    | other => cases ha
    | dict d =>
      simp only at ha
      split at ha
      · cases ha
      · rename_i hnone
        have hnone' : odGet s (gridKey h d) = none := by
          cases hg : odGet s (gridKey h d) with
          | none => rfl
          | some v => rw [hg] at hnone; simp at hnone
        have hk : gridKey h d ∉ odKeys s := by
          intro hmem
          have : ∀ (t : List (H × (P × Nat))) (k : H), k ∈ odKeys t → odGet t k ≠ none := by
            intro t k
            induction t with
            | nil => intro hm; simp [odKeys] at hm
            | cons e t ih =>
              obtain ⟨k1, v1⟩ := e
              intro hm
              by_cases he : k1 = k
              · simp [odGet, he]
              · have : k ∈ odKeys t := by
                  have : k = k1 ∨ k ∈ odKeys t := by simpa [odKeys] using hm
                  rcases this with e' | e'
                  · exact absurd e'.symm he
                  · exact e'
                simp only [odGet, he, if_false]; exact ih this
          exact this s _ hmem hnone'
        cases s with
        | nil =>
          simp only [Except.ok.injEq] at ha
          subst ha
          refine ⟨by simp [odSet, odKeys], ?_⟩
          intro e he e0 h0
          simp only [odSet, List.mem_singleton] at he
          simp only [odSet, List.head?_cons, Option.some.injEq] at h0
          rw [he, h0]
        | cons e0 t =>
          obtain ⟨k0, p0, ax0⟩ := e0
          simp only at ha
          split at ha
          · rename_i hax
            simp only [Except.ok.injEq] at ha
            subst ha
            rw [odSet_absent _ _ _ hnone']
            refine ⟨?_, ?_⟩
            · simp only [odKeys, List.map_append, List.map_cons, List.map_nil]
              exact List.Nodup.append hs.1 (by simp) (by simpa [odKeys] using hk)
            · intro e he e1 h1
              simp only [List.cons_append, List.head?_cons, Option.some.injEq] at h1
              subst h1
              rcases List.mem_append.mp he with he | he
              · exact hs.2 e he _ rfl
              · simp only [List.mem_singleton] at he
                subst he
                exact hax
          · cases ha

end pdfset
end C20

section pdfsetthms
variable {K H P : Type} [LinearOrder K] [DecidableEq H]

/-- **PDFSet keeps one set of axes**: whatever `add_pdf` calls are made (some of them raising),
all stored PDFs have the axes of the first stored one and the keys stay distinct -/
theorem c20_pdfset_axes_uniform (h : List (K × PyVal) → H) (adds : List (PdfArg P × KeyArg K H)) :
    ∀ s : List (H × (P × Nat)), C20.PdfInv s → C20.PdfInv (C20.runAdds h s adds) := by
  induction adds with
  | nil => intro s hs; exact hs
  | cons a t ih =>
    intro s hs
    obtain ⟨p, g⟩ := a
    simp only [C20.runAdds]
    cases ha : addPdfE h s p g with
    | ok s' => exact ih s' (C20.addPdfE_inv h s s' p g hs ha)
    | error e => exact ih s hs

example : C20.PdfInv ([] : List (ℕ × (ℕ × ℕ))) := ⟨by simp [odKeys], by simp⟩

/-- **lookup by dictionary, by key, and membership agree**: after a successful `add_pdf(pdf, d)`
the PDF is found under `d` filled in any order, under the integer key `make_dict_hash(d)`, and
`in` says so for both forms -/
theorem c20_pdfset_lookup_forms (h : List (K × PyVal) → H) (s s' : List (H × (P × Nat))) (p : P) (ax : Nat)
    (d d' : List (K × PyVal)) (ha : addPdfE h s (.pdf p ax) (.dict d) = .ok s') (hp : d.Perm d')
    (hn : (d.map Prod.fst).Nodup) :
    getPdfE h s' (.dict d') = .ok p ∧ getPdfE h s' (.key (gridKey h d)) = .ok p ∧
    containsE h s' (.dict d') = .ok true ∧ containsE h s' (.key (gridKey h d)) = .ok true ∧
    makeDictHash h (some (.dict d')) = .ok (gridKey h d) := by
  have hk : gridKey h d' = gridKey h d := (c20_grid_key_order_indep h d d' hp hn).symm
  have hget : odGet s' (gridKey h d) = some (p, ax) := by
    unfold addPdfE at ha
    simp only at ha
    split at ha
    · cases ha
    · cases s with
      | nil => simp only [Except.ok.injEq] at ha; rw [← ha, C20.odGet_odSet_self]
      | cons e0 t =>
        obtain ⟨k0, p0, ax0⟩ := e0
        simp only at ha
        split at ha
        · simp only [Except.ok.injEq] at ha; rw [← ha, C20.odGet_odSet_self]
        · cases ha
  simp [getPdfE, containsE, makeDictHash, hk, hget]

/-- the argument checks: a non-PDF or a non-dictionary is refused with `TypeError`, a second PDF
for a grid point with `KeyError`, other axes than the stored ones with `ValueError`; lookups with
a key that is neither `dict` nor `int` raise `TypeError`; `make_dict_hash(None)` is the hash of `{}` -/
theorem c20_pdfset_argument_checks (h : List (K × PyVal) → H) (s : List (H × (P × Nat))) :
    (∀ g, addPdfE h s (.notPdf : PdfArg P) g = .error .typeError) ∧
    (∀ p ax k, addPdfE h s (.pdf p ax) (.key k : KeyArg K H) = .error .typeError) ∧
    (∀ p ax, addPdfE h s (.pdf p ax) (.other : KeyArg K H) = .error .typeError) ∧
    getPdfE h s (.other : KeyArg K H) = .error .typeError ∧
    containsE h s (.other : KeyArg K H) = .error .typeError ∧
    makeDictHash h (none : Option (KeyArg K H)) = .ok (gridKey h []) ∧
    makeDictHash h (some (.other : KeyArg K H)) = .error .typeError := by
  refine ⟨fun g => rfl, fun p ax k => rfl, fun p ax => rfl, rfl, rfl, rfl, rfl⟩

end pdfsetthms

/-! ### DatasetCollection -/

namespace C20
section dataset
variable {N : Type} [DecidableEq N]

theorem odGet_odErase_self {V : Type} (s : List (N × V)) (k : N) (hn : (odKeys s).Nodup) :
    odGet (odErase s k) k = none := by
  induction s with
  | nil => rfl
  | cons p t ih =>
    obtain ⟨k', v'⟩ := p
    have hn' : k' ∉ odKeys t ∧ (odKeys t).Nodup := by simpa [odKeys] using hn
    by_cases hk : k' = k
    · subst hk
      simp only [odErase, if_true]
      cases hg : odGet t k' with
      | none => rfl
      | some v => exact absurd (List.mem_map.mpr ⟨(k', v), odGet_mem t k' v hg, rfl⟩) hn'.1
    · simp [odErase, odGet, hk, ih hn'.2]

theorem odGet_odErase_ne {V : Type} (s : List (N × V)) (k k' : N) (hne : k ≠ k') :
    odGet (odErase s k) k' = odGet s k' := by
  induction s with
  | nil => rfl
  | cons p t ih =>
    obtain ⟨k₁, v₁⟩ := p
    by_cases h1 : k₁ = k
    · subst h1; simp [odErase, odGet, hne]
    · by_cases h2 : k₁ = k'
      · subst h2; simp [odErase, odGet, h1]
      · simp [odErase, odGet, h1, h2, ih]

theorem odKeys_odErase_sub {V : Type} (s : List (N × V)) (k : N) : (odKeys (odErase s k)).Sublist (odKeys s) := by
  induction s with
  | nil => exact List.Sublist.refl _
  | cons p t ih =>
    obtain ⟨k₁, v₁⟩ := p
    by_cases h1 : k₁ = k
    · simp only [odErase, h1, if_true, odKeys, List.map_cons]; exact List.sublist_cons_self _ _
    · simp only [odErase, h1, if_false, odKeys, List.map_cons]; exact List.Sublist.cons_cons _ ih

theorem dsAddEach_nodup (ds : List (DsObj N)) : ∀ s : List (N × Nat), (odKeys s).Nodup →
    (odKeys (dsAddEach s ds).1).Nodup := by
  induction ds with
  | nil => intro s hs; exact hs
  | cons d t ih =>
    intro s hs
    simp only [dsAddEach]
    split
    · exact hs
    · split
      · exact hs
      · exact ih _ (odKeys_nodup_odSet s d.name d.id hs)

theorem dsStep_nodup (s : List (N × Nat)) (op : DsOp N) (hs : (odKeys s).Nodup) : (odKeys (dsStep s op).1).Nodup := by
  cases op with
  | add ds => exact dsAddEach_nodup ds s hs
  | remove n =>
    simp only [dsStep]
    split
    · exact List.Nodup.sublist (odKeys_odErase_sub s n) hs
    · exact hs
  | get n => simp only [dsStep]; split <;> exact hs

end dataset
end C20

section datasetthms
variable {N : Type} [DecidableEq N]

/-- **DatasetCollection keeps one dataset per name** under any sequence of `add_datasets` / `+=`
(single datasets, sequences, also when a call raises half-way) and `remove_dataset` -/
theorem c20_dataset_names_distinct (ops : List (DsOp N)) : ∀ s : List (N × Nat), (odKeys s).Nodup →
    (odKeys (dsRun s ops)).Nodup := by
  induction ops with
  | nil => intro s hs; exact hs
  | cons op ops ih => intro s hs; exact ih _ (C20.dsStep_nodup s op hs)

/-- adding a dataset under a new name makes exactly that dataset retrievable under it and leaves
every other name as it was; removing a name makes it unknown and leaves the others -/
theorem c20_dataset_lookup (s : List (N × Nat)) (hs : (odKeys s).Nodup) (d : DsObj N) (n' : N) :
    (d.isDataset = true → odGet s d.name = none →
        (dsStep s (.add [d])).2 = .ok none ∧ odGet (dsStep s (.add [d])).1 d.name = some d.id ∧
        (d.name ≠ n' → odGet (dsStep s (.add [d])).1 n' = odGet s n')) ∧
    (odGet (dsStep s (.remove d.name)).1 d.name = none ∧
        (d.name ≠ n' → odGet (dsStep s (.remove d.name)).1 n' = odGet s n')) := by
  constructor
  · intro hd hnone
    simp only [dsStep, dsAddEach, hd, hnone, Bool.not_true, Bool.false_eq_true, if_false, Option.isSome_none]
    exact ⟨trivial, C20.odGet_odSet_self _ _ _, fun hne => C20.odGet_odSet_ne _ _ _ _ hne⟩
  · simp only [dsStep]
    split
    · exact ⟨C20.odGet_odErase_self s d.name hs, fun hne => C20.odGet_odErase_ne s d.name n' hne⟩
    · rename_i hnone
      refine ⟨?_, fun _ => rfl⟩
      cases hg : odGet s d.name with
      | none => rfl
      | some v => rw [hg] at hnone; simp at hnone

/-- `add_datasets` of a sequence is **not atomic**: the datasets before a refused element stay
stored (an observation about the post-state on a raising call; no clause of the property forbids
it, the name rules above hold on the post-state). -/
theorem c20_dataset_add_keeps_prefix :
    dsStep ([] : List (ℕ × ℕ)) (.add [⟨1, 10, true⟩, ⟨2, 10, true⟩, ⟨3, 30, true⟩]) = ([(10, 1)], .error .keyError) ∧
    dsStep ([] : List (ℕ × ℕ)) (.add [⟨1, 10, true⟩, ⟨2, 20, false⟩]) = ([(10, 1)], .error .typeError) := by
  exact ⟨rfl, rfl⟩

end datasetthms

/-! ## Round 7: which methods can run on a configuration of a given shape; the shape of the current source -/

namespace C20

theorem odGet_map_snd {K V W : Type} [DecidableEq K] (g : V → W) (l : List (K × V)) (k : K) :
    odGet (l.map (fun d => (d.1, g d.2))) k = (odGet l k).map g := by
  induction l with
  | nil => rfl
  | cons a t ih =>
    obtain ⟨k', v'⟩ := a
    simp only [List.map_cons, odGet]
    split
    · rfl
    · exact ih

theorem navigate_deepCopy (n : Nat) (c : Cfg) (p : List Nat) :
    navigate (c.deepCopy n) p = (navigate c p).map (fun l => n + Cfg.firstIdx l c.locs) := by
  simp only [navigate, Cfg.deepCopy, odGet_map_snd (fun l => n + Cfg.firstIdx l c.locs)]
  cases odGet c.dicts p with
  | none => simp only [Option.map_none]; split <;> simp [*, Except.map]
  | some l => rfl

theorem navigate_error (c : Cfg) (p : List Nat) (e : CErr) (h : navigate c p = .error e) :
    e = .keyError ∨ e = .typeError := by
  simp only [navigate] at h
  split at h
  · cases h
  · split at h <;> cases h <;> simp

theorem lookup_deepCopy (n : Nat) (c : Cfg) (q : List Nat) : (c.deepCopy n).lookup q = c.lookup q := by
  simp only [Cfg.lookup, Cfg.deepCopy, odGet_map_snd (fun l => n + Cfg.firstIdx l c.locs)]
  cases odGet c.leaves q with
  | some v => rfl
  | none => cases odGet c.dicts q <;> rfl

theorem writeOk_deepCopy (n : Nat) (c : Cfg) (p : List Nat) : writeOk (c.deepCopy n) p = writeOk c p := by
  simp only [writeOk, navigate_deepCopy]
  cases navigate c p <;> rfl

theorem readOk_deepCopy (n : Nat) (c : Cfg) (p : List Nat) (k : Nat) : readOk (c.deepCopy n) p k = readOk c p k := by
  simp only [readOk, cget, navigate_deepCopy, lookup_deepCopy]
  cases navigate c p with
  | error e => rfl
  | ok l => simp only [Except.map]

/-- the base configuration read from the current source, as a model configuration (leaf `i` has the value code `i`) -/
def genBase : Cfg := { dicts := Gen.C20.baseDicts, leaves := Gen.C20.baseLeafPaths.zipIdx }

/-- the key codes the methods of the current source use -/
def genKeys : Keys :=
  ⟨Gen.C20.kDebugging, Gen.C20.kEnableTracing, Gen.C20.kMultiproc, Gen.C20.kNcpu, Gen.C20.kUnits, Gen.C20.kInternal,
   Gen.C20.kAngle, Gen.C20.kEnergy, Gen.C20.kLength, Gen.C20.kTime, Gen.C20.kProject, Gen.C20.kWorkingDirectory⟩

end C20

/-- `Config()` can run exactly the methods `_BASECONFIG` can: the deep copy keeps every path -/
theorem c20_methods_ok_fresh (n : Nat) (c : Cfg) (K : Keys) : methodsOk (c.deepCopy n) K = methodsOk c K := by
  simp only [methodsOk, C20.writeOk_deepCopy, C20.readOk_deepCopy]

/-- **single-write setters are total on a configuration with the section**: `enable_tracing`,
`disable_tracing`, `set_enable_tracing(flag)`, `set_ncpu(v)` return normally through configuration `j`
iff the section they write into is a container of `j` — for any world, other configurations, values. -/
theorem c20_setter_total (K : Keys) (E : Ext) (w : CWorld) (j : Nat) (c : Cfg) (hj : w.cfgs[j]? = some c)
    (flag v : Nat) :
    ((cmethod cstep K E w j .enableTracing).2 = .ok .unit ↔ (methodsOk c K).tracingW = true) ∧
    ((cmethod cstep K E w j .disableTracing).2 = .ok .unit ↔ (methodsOk c K).tracingW = true) ∧
    ((cmethod cstep K E w j (.setEnableTracing flag)).2 = .ok .unit ↔ (methodsOk c K).tracingW = true) ∧
    ((cmethod cstep K E w j (.setNcpu v)).2 = .ok .unit ↔ (methodsOk c K).ncpuW = true) := by
  have key : ∀ (p : List Nat) (k x : Nat),
      ((runScript cstep w [some (.set j p k x)]).2 = .ok .unit ↔ writeOk c p = true) := by
    intro p k x
    simp only [runScript, cstep, hj, writeOk]
    cases navigate c p with
    | error e => simp
    | ok l => simp
  exact ⟨key _ _ _, key _ _ _, key _ _ _, key _ _ _⟩

/-- **queries**: `is_tracing_enabled` answers (with the stored value, whatever it is) iff the entry is there;
`get_wd` / `to_internal_time_unit` reach their external function (`os.path.abspath`, `Unit.to`) iff the entry
is there — the only `KeyError` of these methods is the one of the navigation. -/
theorem c20_query_total (K : Keys) (E : Ext) (w : CWorld) (j : Nat) (c : Cfg) (hj : w.cfgs[j]? = some c) (u : Nat) :
    ((∃ r, (cmethod cstep K E w j .isTracingEnabled).2 = .ok r) ↔ (methodsOk c K).tracingR = true) ∧
    ((methodsOk c K).wdR = true ↔ ∃ r, cget c [K.project] K.workingDirectory = .ok r ∧
        (cmethod cstep K E w j .getWd).2 = onVal r E.abspath) ∧
    ((methodsOk c K).timeR = true ↔ ∃ r, cget c [K.units, K.internal] K.time = .ok r ∧
        (cmethod cstep K E w j (.toInternalTimeUnit u)).2 = onVal r (E.conv u)) ∧
    ((methodsOk c K).wdR = false → (cmethod cstep K E w j .getWd).2 = .error .keyError ∨
        (cmethod cstep K E w j .getWd).2 = .error .typeError) := by
  refine ⟨?_, ?_, ?_, ?_⟩
  · simp only [cmethod, hj, methodsOk, readOk]
    cases cget c [K.debugging] K.enableTracing with
    | error e => simp
    | ok r => simp
  · simp only [cmethod, hj, methodsOk, readOk]
    cases cget c [K.project] K.workingDirectory with
    | error e => simp
    | ok r => simp
  · simp only [cmethod, hj, methodsOk, readOk]
    cases cget c [K.units, K.internal] K.time with
    | error e => simp
    | ok r => simp
  · simp only [cmethod, hj, methodsOk, readOk, cget]
    cases hn : navigate c [K.project] with
    | error e =>
      intro _
      rcases C20.navigate_error c _ e hn with h | h <;> simp [h]
    | ok l =>
      cases c.lookup ([K.project] ++ [K.workingDirectory]) with
      | none => simp
      | some r => simp

/-- the key chains `self[k1]..[kn]` read from the bodies of the `Config` methods of the current source have the
form the model's `cmethod` gives them: the three tracing setters and `is_tracing_enabled` use one entry,
`set_ncpu` its own, `set_internal_units` writes four *different* keys of one section in the order angle, energy,
length, time, `to_internal_time_unit` reads the key the fourth of them writes, `set_wd` / `get_wd` use one entry
(three reads, then one write).  A method edited to use another key breaks this proof obligation. -/
theorem c20_method_keys_for_current_source :
    Gen.C20.chainsEnableTracing = [(true, [Gen.C20.kDebugging, Gen.C20.kEnableTracing])] ∧
    Gen.C20.chainsDisableTracing = Gen.C20.chainsEnableTracing ∧
    Gen.C20.chainsSetEnableTracing = Gen.C20.chainsEnableTracing ∧
    Gen.C20.chainsIsTracingEnabled = [(false, [Gen.C20.kDebugging, Gen.C20.kEnableTracing])] ∧
    Gen.C20.chainsSetNcpu = [(true, [Gen.C20.kMultiproc, Gen.C20.kNcpu])] ∧
    Gen.C20.chainsSetInternalUnits =
      [Gen.C20.kAngle, Gen.C20.kEnergy, Gen.C20.kLength, Gen.C20.kTime].map
        (fun k => (true, [Gen.C20.kUnits, Gen.C20.kInternal, k])) ∧
    [Gen.C20.kAngle, Gen.C20.kEnergy, Gen.C20.kLength, Gen.C20.kTime].Nodup ∧
    Gen.C20.chainsToInternalTimeUnit = [(false, [Gen.C20.kUnits, Gen.C20.kInternal, Gen.C20.kTime])] ∧
    Gen.C20.chainsSetWd = (List.replicate 3 (false, [Gen.C20.kProject, Gen.C20.kWorkingDirectory])) ++
      [(true, [Gen.C20.kProject, Gen.C20.kWorkingDirectory])] ∧
    Gen.C20.chainsGetWd = [(false, [Gen.C20.kProject, Gen.C20.kWorkingDirectory])] := by
  decide

/-- the `_BASECONFIG` literal of the current source holds every entry the methods of the current source
navigate to, it has no container under two paths (`deepcopy` then yields a tree), and its leaves and
containers are different paths.  A renamed / removed key of the template breaks this proof obligation. -/
theorem c20_base_paths_for_current_source :
    methodPathsOk C20.genBase C20.genKeys = true ∧ C20.genBase.locs.Nodup ∧
    (C20.genBase.dicts.map Prod.fst ++ C20.genBase.leaves.map Prod.fst).Nodup := by
  decide

/-- so every method of a fresh `Config()` of the current source finds its keys: in any world whose entry 0 is the
extracted template, the configuration appended by `Config()` passes all six navigation checks … -/
theorem c20_fresh_config_methods_for_current_source (w : CWorld) (hb : w.cfgs[0]? = some C20.genBase) :
    ∃ c, (cstep w .new).1.cfgs = w.cfgs ++ [c] ∧ (cstep w .new).2 = .ok .unit ∧
      methodPathsOk c C20.genKeys = true := by
  refine ⟨C20.genBase.deepCopy w.next, ?_, ?_, ?_⟩
  · simp only [cstep, newCfg, hb]
  · simp only [cstep, newCfg, hb]
  · simp only [methodPathsOk, c20_methods_ok_fresh]
    exact c20_base_paths_for_current_source.1

/-- … and `set_internal_units` with all four units, `set_wd`, and the setters run to the end on it
(instance of the line-by-line model on the extracted template; value codes 90..94 stand for the arguments, the
external functions are the identity) -/
theorem c20_fresh_config_calls_for_current_source :
    let E : Ext := { abspath := fun v => .ok v, conv := fun _ v => .ok v, join := fun a _ => .ok a, vTrue := 1, vFalse := 0 }
    let w0 : CWorld := { next := 100, cfgs := [C20.genBase] }
    let w := (cstep w0 .new).1
    (cmethod cstep C20.genKeys E w 1 (.setInternalUnits (.ok 90) (.ok 91) (.ok 92) (.ok 93))).2 = .ok .unit ∧
    (cmethod cstep C20.genKeys E w 1 (.setWd (some 94))).2 = .ok (.val 94) ∧
    (cmethod cstep C20.genKeys E w 1 (.setWd none)).2 = .ok (.val 3) ∧
    (cmethod cstep C20.genKeys E w 1 (.wdFilename 95)).2 = .ok (.val 3) ∧
    (cmethod cstep C20.genKeys E w 1 (.toInternalTimeUnit 96)).2 = .ok (.val 9) ∧
    (cmethod cstep C20.genKeys E w 1 .enableTracing).1.cfgs[0]? = some C20.genBase := by
  decide

/-! ### writes that allocate a container: `d[k] = {}`, `d.setdefault(k, {})`, `d.setdefault(k, v)` -/

namespace C20

theorem writeNewDictLoc_of_not_mem (l k n : Nat) (c : Cfg) (h : l ∉ c.locs) : c.writeNewDictLoc l k n = c := by
  unfold Cfg.writeNewDictLoc
  have : c.dicts.filter (fun d => d.2 = l) = [] := by
    rw [List.filter_eq_nil_iff]
    intro d hd hdl
    apply h
    exact List.mem_map.mpr ⟨d, hd, by simpa using hdl⟩
  rw [this]; rfl

/-- the allocating write creates the one new container object and no other -/
theorem locs_writeNewDictLoc (l k n : Nat) (c : Cfg) : ∀ x ∈ (c.writeNewDictLoc l k n).locs, x ∈ c.locs ∨ x = n := by
  unfold Cfg.writeNewDictLoc
  generalize c.dicts.filter (fun d => d.2 = l) = ds
  suffices H : ∀ (ds : List (List Nat × Nat)) (acc : Cfg), (∀ x ∈ acc.locs, x ∈ c.locs ∨ x = n) →
      ∀ x ∈ (ds.foldl (fun acc d =>
        ({ dicts := acc.dicts.filter (fun e => !((d.1 ++ [k]).isPrefixOf e.1)) ++ [(d.1 ++ [k], n)],
           leaves := acc.leaves.filter (fun x => !((d.1 ++ [k]).isPrefixOf x.1)) } : Cfg)) acc).locs,
        x ∈ c.locs ∨ x = n from
    H ds c (fun x hx => Or.inl hx)
  intro ds
  induction ds with
  | nil => intro acc h; exact h
  | cons d t ih =>
    intro acc h
    apply ih
    intro x hx
    simp only [Cfg.locs, List.map_append, List.mem_append, List.mem_map, List.map_cons, List.map_nil,
      List.mem_singleton] at hx
    rcases hx with ⟨e, he, rfl⟩ | hx
    · exact h _ (List.mem_map.mpr ⟨e, (List.mem_filter.mp he).1, rfl⟩)
    · exact Or.inr hx

theorem cinv_new_dict (w : CWorld) (hw : CInv w) (l k : Nat) :
    CInv { w with next := w.next + 1, cfgs := w.cfgs.map (Cfg.writeNewDictLoc l k w.next) } := by
  constructor
  · show (w.cfgs.map _).Pairwise Disj
    rw [List.pairwise_map]
    have hall : ∀ a ∈ w.cfgs, ∀ x ∈ a.locs, x < w.next := hw.lt
    have hp : w.cfgs.Pairwise (fun a b => Disj a b ∧ (∀ x ∈ a.locs, x < w.next) ∧ (∀ x ∈ b.locs, x < w.next)) := by
      have := hw.disj
      exact List.Pairwise.imp_of_mem (fun {a b} ha hb hab => ⟨hab, hall a ha, hall b hb⟩) this
    refine hp.imp ?_
    rintro a b ⟨hab, hla, hlb⟩ x hxa hxb
    by_cases ha : l ∈ a.locs
    · have hb : l ∉ b.locs := hab l ha
      rw [writeNewDictLoc_of_not_mem l k w.next b hb] at hxb
      rcases locs_writeNewDictLoc l k w.next a x hxa with h | h
      · exact hab x h hxb
      · have := hlb x hxb; omega
    · rw [writeNewDictLoc_of_not_mem l k w.next a ha] at hxa
      rcases locs_writeNewDictLoc l k w.next b x hxb with h | h
      · exact hab x hxa h
      · have := hla x hxa; omega
  · intro a ha x hx
    show x < w.next + 1
    obtain ⟨a', ha', rfl⟩ := List.mem_map.mp ha
    rcases locs_writeNewDictLoc l k w.next a' x hx with h | h
    · have := hw.lt a' ha' x h; omega
    · omega

end C20

/-- **allocating write**: `cfg[p1]..[pn][k] = {}` through configuration `j` — "every holder of the written
container gets the new dict" equals "configuration `j` gets it", and the world stays a world without shared
containers (the new dict is one new object, reachable from `j` only). -/
theorem c20_new_dict_isolated (w : CWorld) (hw : C20.CInv w) (j : Nat) (path : List Nat) (k : Nat) :
    csetNewDict w j path k = cspecSetNewDict w j path k ∧ C20.CInv (csetNewDict w j path k).1 := by
  cases hj : w.cfgs[j]? with
  | none => simp only [csetNewDict, cspecSetNewDict, hj]; exact ⟨trivial, hw⟩
  | some c =>
    cases hn : navigate c path with
    | error e => simp only [csetNewDict, cspecSetNewDict, hj, hn]; exact ⟨trivial, hw⟩
    | ok l =>
      have hl := C20.navigate_mem c path l hn
      have hm := C20.map_eff_eq_set (Cfg.writeNewDictLoc l k w.next) l (C20.writeNewDictLoc_of_not_mem l k w.next)
        w.cfgs hw.disj j c hj hl
      have hc := C20.cinv_new_dict w hw l k
      simp only [csetNewDict, cspecSetNewDict, hj, hn]
      refine ⟨by rw [hm], hc⟩

/-- **`setdefault`**: with the key present it is a read (world unchanged, the stored value / container is
returned); otherwise it is the write.  In both cases every other entry of the world — other Config instances,
`_BASECONFIG`, user dictionaries — is exactly as before and no container is shared afterwards. -/
theorem c20_setdefault_local (w : CWorld) (hw : C20.CInv w) (j i : Nat) (path : List Nat) (k v : Nat) (hij : i ≠ j) :
    (csetNewDict w j path k).1.cfgs[i]? = w.cfgs[i]? ∧
    (csetDefaultDict w j path k).1.cfgs[i]? = w.cfgs[i]? ∧ C20.CInv (csetDefaultDict w j path k).1 ∧
    (csetDefaultVal w j path k v).1.cfgs[i]? = w.cfgs[i]? ∧ C20.CInv (csetDefaultVal w j path k v).1 := by
  have hnd : (csetNewDict w j path k).1.cfgs[i]? = w.cfgs[i]? := by
    rw [(c20_new_dict_isolated w hw j path k).1]
    cases hj : w.cfgs[j]? with
    | none => simp only [cspecSetNewDict, hj]
    | some c =>
      cases hn : navigate c path with
      | error e => simp only [cspecSetNewDict, hj, hn]
      | ok l => simp only [cspecSetNewDict, hj, hn]; exact List.getElem?_set_ne (fun e => hij e.symm)
  have hset := c20_config_write_local w hw j i path k v hij
  have hsetinv := (C20.cstep_isolated w hw (.set j path k v)).2
  have hndinv := (c20_new_dict_isolated w hw j path k).2
  refine ⟨hnd, ?_, ?_, ?_, ?_⟩
  all_goals
    cases hj : w.cfgs[j]? with
    | none => simp only [csetDefaultDict, csetDefaultVal, hj] <;> exact hw
    | some c =>
      cases hn : navigate c path with
      | error e => simp only [csetDefaultDict, csetDefaultVal, hj, hn] <;> exact hw
      | ok l =>
        cases hk : c.lookup (path ++ [k]) with
        | some r => simp only [csetDefaultDict, csetDefaultVal, hj, hn, hk] <;> exact hw
        | none =>
          simp only [csetDefaultDict, csetDefaultVal, hj, hn, hk]
          first
            | (cases hr : csetNewDict w j path k with
               | mk w' r =>
                 rw [hr] at hnd hndinv
                 cases r <;> first | exact hnd | exact hndinv)
            | (cases hr : cstep w (.set j path k v) with
               | mk w' r =>
                 rw [hr] at hset hsetinv
                 cases r <;> first | exact hset.1 | exact hsetinv)

/-- `setdefault` on a present key changes nothing and returns what is stored -/
theorem c20_setdefault_present (w : CWorld) (j : Nat) (c : Cfg) (path : List Nat) (k v l : Nat) (r : CRes)
    (hj : w.cfgs[j]? = some c) (hn : navigate c path = .ok l) (hk : c.lookup (path ++ [k]) = some r) :
    csetDefaultDict w j path k = (w, .ok r) ∧ csetDefaultVal w j path k v = (w, .ok r) := by
  simp only [csetDefaultDict, csetDefaultVal, hj, hn, hk, and_self]

/-- non-vacuity: a world with two configurations; `cfgs[1]['a'] = {}` on a missing key, then `setdefault`
finds it; configuration 0 is untouched -/
example :
    let w : CWorld := { next := 4, cfgs := [{ dicts := [([], 0), ([1], 1)], leaves := [([1, 5], 7)] },
                                             { dicts := [([], 2), ([1], 3)], leaves := [([1, 5], 8)] }] }
    C20.CInv w ∧ (csetNewDict w 1 [1] 6).2 = .ok .unit ∧
    (csetDefaultDict (csetNewDict w 1 [1] 6).1 1 [1] 6).2 = .ok .cont ∧
    (csetDefaultDict w 1 [1] 5).2 = .ok (.val 8) ∧
    (csetNewDict w 1 [1] 6).1.cfgs[0]? = w.cfgs[0]? ∧ (csetNewDict w 1 [1] 6).1.cfgs[1]? ≠ w.cfgs[1]? := by
  refine ⟨⟨by decide, by decide⟩, ?_⟩
  decide

/-! ### `copy()` as a call of its own -/

section copythms
variable {N : Type} [DecidableEq N] [TyRel]

/-- **`copy()` is pure**: the world gets one more collection — same class and type, the same objects in the same
order, a list and a name index of its own (new identities), a coherent index — and every existing collection is
literally unchanged; it is the collection `c + <nothing>` would build. -/
theorem c20_copy_pure (w : World N) (hw : C20.WInv w) (j : Nat) (a : C N) (ha : w.colls[j]? = some a) :
    ∃ c : C N, copyStep w j = ({ next := w.next + 2, colls := w.colls ++ [c] }, .ok (.coll w.colls.length)) ∧
      c.objects = a.objects ∧ c.ty = a.ty ∧ c.oloc = w.next ∧ c.iloc = w.next + 1 ∧
      c.idx = createIdx c.objects 0 ∧ C20.WInv (copyStep w j).1 ∧
      (copyStep w j).1 = (applyAct w (.copyExtend j [])).1 := by
  have hc' : (copyOf w.next a).idx = createIdx (copyOf w.next a).objects 0 := hw.coh j a ha
  have hw1 : C20.WInv { next := w.next + 2, colls := w.colls ++ [copyOf w.next a] } :=
    C20.winv_append w hw (copyOf w.next a) (w.next + 2) (le_refl _) (by show w.next ≤ w.next + 1; omega)
      ⟨by show w.next < w.next + 2; omega, by show w.next + 1 < w.next + 2; omega⟩ hc'
  obtain ⟨c, hc, hobj, hty, hol, hil, hidx⟩ := c20_copy_extend_pure w hw j a [] ha
  refine ⟨copyOf w.next a, ?_, rfl, rfl, rfl, rfl, hc', ?_, ?_⟩
  · simp only [copyStep, copyStepWith, ha]
  · simp only [copyStep, copyStepWith, ha]; exact hw1
  · rw [hc]
    simp only [copyStep, copyStepWith, ha]
    obtain ⟨o, i, t, ob, ix⟩ := c
    simp only [List.append_nil] at hobj
    simp only at hty hol hil hidx
    subst hobj hty hol hil
    have := hw.coh j a ha
    simp only [copyOf, hidx, this]

/-- the invariant behind all accessor theorems (no shared list / index objects, every index = the index rebuilt
from the list) survives histories that also call `copy()` at any point: the theorems stated for worlds
satisfying `WInv` (`c20_coherent_accessors`, `c20_index_coherent`, `c20_refines`, `c20_plus_*`) apply to them. -/
theorem c20_world_invariant_with_copy (ops : List (OpX N)) : ∀ w : World N, C20.WInv w → C20.WInv (runX w ops) := by
  induction ops with
  | nil => intro w hw; exact hw
  | cons o os ih =>
    intro w hw
    apply ih
    cases o with
    | op o => exact (C20.step_refines w hw o).2.2
    | copy j =>
      cases ha : w.colls[j]? with
      | none => simp only [stepX, copyStep, copyStepWith, ha]; exact hw
      | some a =>
        obtain ⟨c, _, _, _, _, _, _, hinv, _⟩ := c20_copy_pure w hw j a ha
        exact hinv

/-- a copy and its original evolve independently: an `add` to the copy leaves the original (and every other
collection) as it was, and vice versa — instance of the refinement theorem on the world after `copy()` -/
theorem c20_copy_then_add_local (w : World N) (hw : C20.WInv w) (j : Nat) (a : C N) (ha : w.colls[j]? = some a)
    (op : Op N) :
    let w1 := (copyStep w j).1
    (step w1 op).2 = (specStep (view w1) op).2 ∧ view (step w1 op).1 = (specStep (view w1) op).1 := by
  obtain ⟨c, _, _, _, _, _, _, hinv, _⟩ := c20_copy_pure w hw j a ha
  have h := C20.step_refines (copyStep w j).1 hinv op
  exact ⟨h.2.1, h.1⟩

end copythms

/-! ### `set_internal_units`: all four writes go through on a tree-shaped configuration -/

namespace C20

theorem odGet_filter_of_key {K V : Type} [DecidableEq K] (f : K × V → Bool) (l : List (K × V)) (k : K)
    (h : ∀ e ∈ l, e.1 = k → f e = true) : odGet (l.filter f) k = odGet l k := by
  induction l with
  | nil => rfl
  | cons a t ih =>
    obtain ⟨k', v'⟩ := a
    have ht : ∀ e ∈ t, e.1 = k → f e = true := fun e he => h e (List.mem_cons_of_mem _ he)
    by_cases hk : k' = k
    · have : f (k', v') = true := h _ (List.mem_cons_self) hk
      subst hk
      simp only [List.filter_cons, this, if_true, odGet]
    · by_cases hf : f (k', v') = true
      · simp only [List.filter_cons, hf, if_true, odGet, hk, if_false]; exact ih ht
      · simp only [List.filter_cons, hf, odGet, hk, if_false]; exact ih ht

/-- in a configuration that is a tree (no container under two paths) the container reached by `p` is held
under `p` only -/
theorem holders_of_nodup (c : Cfg) (hn : c.locs.Nodup) (p : List Nat) (l : Nat) (hg : odGet c.dicts p = some l) :
    ∀ d ∈ c.dicts, d.2 = l → d = (p, l) := by
  intro d hd hl
  have hm := odGet_mem _ _ _ hg
  have := List.inj_on_of_nodup_map hn hd hm (by simpa using hl)
  exact this

theorem writeLoc_tree (c : Cfg) (hn : c.locs.Nodup) (p : List Nat) (l k v : Nat) (hg : odGet c.dicts p = some l) :
    c.writeLoc l k v = c.setLeaf (p ++ [k]) v := by
  unfold Cfg.writeLoc
  have hm := odGet_mem _ _ _ hg
  have hf : c.dicts.filter (fun d => d.2 = l) = [(p, l)] := by
    have hnd : c.dicts.Nodup := List.Nodup.of_map _ hn
    have hsub : ∀ d ∈ c.dicts.filter (fun d => d.2 = l), d = (p, l) := by
      intro d hd
      have := List.mem_filter.mp hd
      exact holders_of_nodup c hn p l hg d this.1 (by simpa using this.2)
    have hnd' : (c.dicts.filter (fun d => d.2 = l)).Nodup := hnd.filter _
    have hmem : (p, l) ∈ c.dicts.filter (fun d => d.2 = l) := List.mem_filter.mpr ⟨hm, by simp⟩
    cases hfl : c.dicts.filter (fun d => d.2 = l) with
    | nil => rw [hfl] at hmem; simp at hmem
    | cons a t =>
      rw [hfl] at hsub hnd'
      have ha : a = (p, l) := hsub a List.mem_cons_self
      cases t with
      | nil => rw [ha]
      | cons b t' =>
        have hb : b = (p, l) := hsub b (List.mem_cons_of_mem _ List.mem_cons_self)
        rw [ha, hb] at hnd'
        simp at hnd'
  rw [hf]
  rfl

theorem not_prefix_snoc (p : List Nat) (k : Nat) : (p ++ [k]).isPrefixOf p = false := by
  cases h : (p ++ [k]).isPrefixOf p with
  | false => rfl
  | true =>
    have := List.isPrefixOf_iff_prefix.mp h
    have := this.length_le
    simp at this

/-- an item write into a container of a tree-shaped configuration keeps that container where it is (and the
configuration a tree): the next write into the same section cannot fail -/
theorem navigate_writeLoc_tree (c : Cfg) (hn : c.locs.Nodup) (p : List Nat) (l k v : Nat)
    (hnav : navigate c p = .ok l) :
    navigate (c.writeLoc l k v) p = .ok l ∧ (c.writeLoc l k v).locs.Nodup := by
  have hg : odGet c.dicts p = some l := by
    simp only [navigate] at hnav
    cases hg : odGet c.dicts p with
    | none => rw [hg] at hnav; simp only at hnav; split at hnav <;> cases hnav
    | some l' => rw [hg] at hnav; cases hnav; rfl
  rw [writeLoc_tree c hn p l k v hg]
  constructor
  · simp only [navigate, Cfg.setLeaf]
    rw [odGet_filter_of_key _ _ _ (by
      intro e _ he
      rw [he, not_prefix_snoc]; rfl), hg]
  · simp only [Cfg.locs, Cfg.setLeaf]
    exact (List.Nodup.sublist (List.Sublist.map _ List.filter_sublist) hn)

/-- a script of item writes into one section through configuration `j` runs to the end -/
theorem runScript_sets_total (j : Nat) (p : List Nat) (l : Nat) (kvs : List (Nat × Nat)) : ∀ (w : CWorld) (c : Cfg),
    w.cfgs[j]? = some c → c.locs.Nodup → navigate c p = .ok l →
    (runScript cstep w (kvs.map fun kv => some (.set j p kv.1 kv.2))).2 = .ok .unit := by
  induction kvs with
  | nil => intro w c _ _ _; rfl
  | cons kv t ih =>
    intro w c hj hn hnav
    simp only [List.map_cons, runScript, cstep, hj, hnav]
    have h := navigate_writeLoc_tree c hn p l kv.1 kv.2 hnav
    exact ih _ (c.writeLoc l kv.1 kv.2) (by simp [List.getElem?_map, hj]) h.2 h.1

end C20

/-- **`set_internal_units` is total on a tree-shaped configuration that has the section**: with any subset of
the four unit arguments given (each a `UnitBase` instance) all writes are performed and the call returns
normally — in any world, whatever the other entries are.  (`Config()` of the current source is such a
configuration: `c20_base_paths_for_current_source`.) -/
theorem c20_set_internal_units_total (K : Keys) (E : Ext) (w : CWorld) (j : Nat) (c : Cfg)
    (hj : w.cfgs[j]? = some c) (htree : c.locs.Nodup) (hsec : (methodsOk c K).unitsW = true)
    (a e l t : Option Nat) :
    let arg : Option Nat → UnitArg := fun x => match x with | none => .absent | some v => .ok v
    (cmethod cstep K E w j (.setInternalUnits (arg a) (arg e) (arg l) (arg t))).2 = .ok .unit := by
  intro arg
  have hnav : ∃ loc, navigate c [K.units, K.internal] = .ok loc := by
    simp only [methodsOk, writeOk] at hsec
    cases h : navigate c [K.units, K.internal] with
    | error x => rw [h] at hsec; cases hsec
    | ok loc => exact ⟨loc, rfl⟩
  obtain ⟨loc, hnav⟩ := hnav
  have key : ∀ kvs : List (Nat × Nat),
      (runScript cstep w (kvs.map fun kv => some (.set j [K.units, K.internal] kv.1 kv.2))).2 = .ok .unit :=
    fun kvs => C20.runScript_sets_total j _ loc kvs w c hj htree hnav
  simp only [cmethod]
  cases a <;> cases e <;> cases l <;> cases t <;> simp only [arg, unitLine, List.nil_append, List.append_nil,
    List.cons_append]
  all_goals first
    | exact key []
    | exact key [(_, _)]
    | exact key [(_, _), (_, _)]
    | exact key [(_, _), (_, _), (_, _)]
    | exact key [(_, _), (_, _), (_, _), (_, _)]

/-- non-vacuity: the fresh `Config()` of the current source meets the hypotheses -/
example : (C20.genBase.deepCopy 100).locs.Nodup ∧
    (methodsOk (C20.genBase.deepCopy 100) C20.genKeys).unitsW = true := by decide

/-! ### worlds built with `copy()` are reachable worlds too -/

section reachx
variable {N : Type} [DecidableEq N] [TyRel]

/-- the worlds a program can build when it may also call `copy()`: constructor calls, method calls and copies,
starting from nothing -/
inductive C20.ReachableX (hasName : Nat → Bool) : World N → Prop
  | empty : C20.ReachableX hasName { next := 0, colls := [] }
  | newColl (w : World N) (ty : Nat) : C20.ReachableX hasName w → C20.ReachableX hasName (newColl w ty)
  | ctor (w w' : World N) (ty : Option Nat) (arg : CtorArg N) : C20.ReachableX hasName w →
      mkNamed hasName w ty arg = .ok w' → C20.ReachableX hasName w'
  | step (w : World N) (op : OpX N) : C20.ReachableX hasName w → C20.ReachableX hasName (stepX w op).1

/-- every world built with constructors, method calls **and `copy()`** satisfies the invariant … -/
theorem c20_reachable_with_copy_inv (hasName : Nat → Bool) (w : World N) (h : C20.ReachableX hasName w) :
    C20.WInv w := by
  induction h with
  | empty => exact C20.winv_empty
  | newColl w ty _ ih => exact C20.winv_newColl w ih ty
  | ctor w w' ty arg _ hm ih => exact (c20_ctor_inv hasName w w' ty arg ih hm).1
  | step w op _ ih => exact c20_world_invariant_with_copy [op] w ih

/-- … so lookup by name = position holds in it without any hypothesis on the world: a copy made at any point of
a history, and its original, keep `name_list` = names in positional order and name ↦ position ↦ object. -/
theorem c20_reachable_with_copy_index_coherent (hasName : Nat → Bool) (w : World N)
    (h : C20.ReachableX hasName w) (j : Nat) (c : C N) (hj : w.colls[j]? = some c)
    (hn : (c.objects.map (·.name)).Nodup) :
    nameList c = c.objects.map (·.name) ∧
    ∀ i o, c.objects[i]? = some o → getIndexByName c o.name = .ok i ∧ getItem c (.name o.name) = .ok o ∧
      getItem c (.idx i) = .ok o := by
  have hc := (c20_reachable_with_copy_inv hasName w h).coh j c hj
  have ha := (c20_coherent_accessors c hc).2.2 hn
  refine ⟨ha.1, fun i o hi => ⟨(ha.2 i o hi).1, (ha.2 i o hi).2, ((c20_getitem_idx c).1 i o hi).1⟩⟩

end reachx

section concrete7
attribute [local instance] C20.flatTypes

/-- non-vacuity: add, `copy()`, add to the copy, pop from the original — reachable, and the two collections differ -/
example :
    let w0 : World ℕ := newColl { next := 0, colls := [] } 0
    let w := runX w0 [.op (.addObj 0 ⟨1, 10, 0⟩), .copy 0, .op (.addObj 1 ⟨2, 20, 0⟩), .op (.pop 0 none)]
    (w.colls.map (fun c => c.objects.map (·.id))) = [[], [1, 2]] ∧
    (w.colls.map (fun c => c.idx)) = [[], [(10, 0), (20, 1)]] := by
  decide

end concrete7
