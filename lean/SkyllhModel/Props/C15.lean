/-
  Property C15 — grid rounding hits exact grid members; interpolation is exact and consistent.

  Theorems are about `Model/Grid.lean` (the code-shaped model: `np.around` = multiply, `rint`,
  divide; `floatD` rounded to `fd` decimals; `floor`; grid points recomputed from the rounded
  descriptors `lb`, `delta`, `dec`).  Rounding: over ℚ.  Interpolation: over any field / ℝ.
  IEEE doubles enter only through the correspondence check.
-/
import SkyllhModel.Model.Grid
import SkyllhModel.Generated.C15
import Mathlib.Tactic
import Mathlib.Data.Rat.Floor
import Mathlib.Algebra.Order.Floor.Ring
import Mathlib.Analysis.Calculus.Deriv.Pow
import Mathlib.Analysis.Calculus.Deriv.Mul
import Mathlib.Analysis.Calculus.Deriv.Add

open Grid RoundOps

namespace C15

/-! ### the primitives on ℚ -/

@[simp] theorem floorI_eq (q : ℚ) : (floorI q : ℤ) = ⌊q⌋ := rfl
@[simp] theorem ofI_eq (n : ℤ) : (ofI n : ℚ) = (n : ℚ) := rfl

theorem half_eq : (half : ℚ) = 1 / 2 := by simp [half]

theorem p10_eq (d : ℕ) : (p10 d : ℚ) = 10 ^ d := by simp [p10]

theorem p10_pos (d : ℕ) : (0 : ℚ) < 10 ^ d := by positivity

/-- the three cases of `rint` -/
theorem rintI_cases (x : ℚ) :
    (x - ⌊x⌋ < 1 / 2 ∧ rintI x = ⌊x⌋) ∨ (1 / 2 < x - ⌊x⌋ ∧ rintI x = ⌊x⌋ + 1) ∨
      (x - ⌊x⌋ = 1 / 2 ∧ (rintI x = ⌊x⌋ ∨ rintI x = ⌊x⌋ + 1)) := by
  unfold rintI
  simp only [floorI_eq, ofI_eq, half_eq]
  by_cases h1 : x - ⌊x⌋ < 1 / 2
  · left; exact ⟨h1, by rw [if_pos h1]⟩
  · by_cases h2 : 1 / 2 < x - ⌊x⌋
    · right; left; exact ⟨h2, by rw [if_neg h1, if_pos h2]⟩
    · right; right
      refine ⟨le_antisymm (not_lt.mp h2) (not_lt.mp h1), ?_⟩
      rw [if_neg h1, if_neg h2]
      by_cases h3 : ⌊x⌋ % 2 = 0
      · left; simp [h3]
      · right; simp [h3]

/-- `rint` is within 1/2 -/
theorem rintI_spec (x : ℚ) : |x - (rintI x : ℚ)| ≤ 1 / 2 := by
  have h1 := Int.floor_le x
  have h2 := Int.lt_floor_add_one x
  rw [abs_le]
  rcases rintI_cases x with ⟨h, e⟩ | ⟨h, e⟩ | ⟨h, e | e⟩ <;> rw [e] <;> push_cast <;>
    constructor <;> linarith

theorem rintI_mem (x : ℚ) : rintI x = ⌊x⌋ ∨ rintI x = ⌊x⌋ + 1 := by
  rcases rintI_cases x with ⟨_, e⟩ | ⟨_, e⟩ | ⟨_, e | e⟩ <;> simp [e]

theorem rintI_intCast (n : ℤ) : rintI (n : ℚ) = n := by
  rcases rintI_cases (n : ℚ) with ⟨_, e⟩ | ⟨h, _⟩ | ⟨h, _⟩
  · rw [e, Int.floor_intCast]
  · rw [Int.floor_intCast, sub_self] at h; norm_num at h
  · rw [Int.floor_intCast, sub_self] at h; norm_num at h

/-- `rint` does not cross an integer above … -/
theorem rintI_le_of_le (x : ℚ) (M : ℤ) (h : x ≤ M) : rintI x ≤ M := by
  rcases lt_or_eq_of_le h with h | h
  · have : ⌊x⌋ < M := Int.floor_lt.mpr h
    rcases rintI_mem x with e | e <;> omega
  · rw [h, rintI_intCast]

/-- … or below -/
theorem le_rintI_of_le (x : ℚ) (M : ℤ) (h : (M : ℚ) ≤ x) : M ≤ rintI x := by
  have : M ≤ ⌊x⌋ := Int.le_floor.mpr h
  rcases rintI_mem x with e | e <;> omega

/-- over ℚ the sign-of-zero bookkeeping of `rint` disappears -/
theorem rint_eq (x : ℚ) : rint x = (rintI x : ℚ) := by
  unfold rint
  simp only [ofI_eq]
  split_ifs with h
  · rw [h]; simp
  · rfl

theorem aroundDec_eq (d : ℕ) (x : ℚ) : aroundDec d x = (rintI (x * 10 ^ d) : ℚ) / 10 ^ d := by
  simp [aroundDec, rint_eq, p10_eq]

/-- decimal rounding moves a number by at most half a unit of the last decimal -/
theorem aroundDec_err (d : ℕ) (x : ℚ) : |aroundDec d x - x| ≤ 1 / (2 * 10 ^ d) := by
  rw [aroundDec_eq]
  have hp := p10_pos d
  have h := rintI_spec (x * 10 ^ d)
  have e : (rintI (x * 10 ^ d) : ℚ) / 10 ^ d - x = -(x * 10 ^ d - rintI (x * 10 ^ d)) / 10 ^ d := by
    field_simp
    ring
  rw [e, abs_div, abs_neg, abs_of_pos hp, div_le_iff₀ hp]
  calc |x * 10 ^ d - ↑(rintI (x * 10 ^ d))| ≤ 1 / 2 := h
    _ = 1 / (2 * 10 ^ d) * 10 ^ d := by field_simp

/-- numbers with at most `d` decimals are fixed points -/
theorem aroundDec_lattice (d : ℕ) (n : ℤ) : aroundDec d ((n : ℚ) / 10 ^ d) = (n : ℚ) / 10 ^ d := by
  rw [aroundDec_eq]
  have hp := (p10_pos d).ne'
  rw [div_mul_cancel₀ _ hp, rintI_intCast]

theorem aroundDec_intCast (d : ℕ) (k : ℤ) : aroundDec d (k : ℚ) = k := by
  have hp := (p10_pos d).ne'
  have : (k : ℚ) = ((k * 10 ^ d : ℤ) : ℚ) / 10 ^ d := by push_cast; field_simp
  rw [this, aroundDec_lattice]

/-! ### grids whose descriptors have at most `dec` decimals (what `__init__` produces) -/

/-- `lb` and `delta` are multiples of `10^-dec` -/
def OnDec (G : PGrid ℚ) : Prop := ∃ a b : ℤ, G.lb = a / 10 ^ G.dec ∧ G.delta = b / 10 ^ G.dec

theorem mkGrid_onDec (g0 delta : ℚ) (dec fd : ℕ) : OnDec (mkGrid g0 delta dec fd) :=
  ⟨rintI (g0 * 10 ^ dec), rintI (delta * 10 ^ dec), by simp [mkGrid, aroundDec_eq], by simp [mkGrid, aroundDec_eq]⟩

/-- on such a grid the final `np.around(gp, decimals)` does nothing: `gp k = lb + k*delta` -/
theorem gp_exact (G : PGrid ℚ) (h : OnDec G) (k : ℤ) : gp G k = G.lb + k * G.delta := by
  obtain ⟨a, b, ha, hb⟩ := h
  have hp := (p10_pos G.dec).ne'
  unfold gp gpF
  rw [ofI_eq, ha, hb]
  have : (a : ℚ) / 10 ^ G.dec + k * (b / 10 ^ G.dec) = ((a + k * b : ℤ) : ℚ) / 10 ^ G.dec := by
    push_cast; field_simp
  rw [this, aroundDec_lattice]

/-- the exact number of spacings of `v` above the lower bound -/
def q (G : PGrid ℚ) (v : ℚ) : ℚ := (v - G.lb) / G.delta

/-- the slack introduced by rounding `floatD` to `fd` decimals -/
def slack (G : PGrid ℚ) : ℚ := 1 / (2 * 10 ^ G.fd)

theorem slack_pos (G : PGrid ℚ) : 0 < slack G := by unfold slack; positivity

theorem floatD_err (G : PGrid ℚ) (v : ℚ) : |floatD G v - q G v| ≤ slack G := aroundDec_err _ _

theorem v_eq (G : PGrid ℚ) (hd : G.delta ≠ 0) (v : ℚ) : v = G.lb + q G v * G.delta := by
  unfold q; field_simp; ring

/-- `floatD` is a multiple of `10^-fd`, hence at least `10^-fd` below the next integer -/
theorem floatD_add_le_floor_succ (G : PGrid ℚ) (v : ℚ) :
    floatD G v + 1 / 10 ^ G.fd ≤ (⌊floatD G v⌋ + 1 : ℤ) := by
  have hp := p10_pos G.fd
  have hlt := Int.lt_floor_add_one (floatD G v)
  set K : ℤ := ⌊floatD G v⌋ + 1 with hK
  have hf : floatD G v = (rintI (q G v * 10 ^ G.fd) : ℚ) / 10 ^ G.fd := by
    unfold floatD q; rw [aroundDec_eq]
  set m : ℤ := rintI (q G v * 10 ^ G.fd) with hm
  have h1 : (m : ℚ) < (K * 10 ^ G.fd : ℤ) := by
    push_cast
    have : floatD G v < (K : ℚ) := by rw [hK]; push_cast; exact hlt
    rw [hf, div_lt_iff₀ hp] at this
    exact this
  have h2 : m + 1 ≤ K * 10 ^ G.fd := by exact_mod_cast h1
  have h3 : ((m + 1 : ℤ) : ℚ) ≤ ((K * 10 ^ G.fd : ℤ) : ℚ) := by exact_mod_cast h2
  rw [hf]
  push_cast at h3
  rw [← add_div, div_le_iff₀ hp]
  exact h3

theorem kNearest_eq (G : PGrid ℚ) (v : ℚ) :
    kNearest G v = ⌊floatD G v⌋ + rintI (floatD G v - ⌊floatD G v⌋) := by
  simp [kNearest, intD, mod1, add_comm]

/-- the nearest index is within 1/2 of `floatD` -/
theorem kNearest_err (G : PGrid ℚ) (v : ℚ) : |floatD G v - kNearest G v| ≤ 1 / 2 := by
  rw [kNearest_eq]
  have h := rintI_spec (floatD G v - ⌊floatD G v⌋)
  push_cast
  rwa [← sub_sub]

/-- values within `(1/2 - 10^-fd)` spacings of lattice point `k` get the nearest index `k` -/
theorem kNearest_of_close (G : PGrid ℚ) (v : ℚ) (k : ℤ)
    (h : |q G v - k| ≤ 1 / 2 - 1 / 10 ^ G.fd) : kNearest G v = k := by
  have h1 := kNearest_err G v
  have h2 := floatD_err G v
  have hs : slack G < 1 / 10 ^ G.fd := by
    unfold slack
    have hp := p10_pos G.fd
    rw [div_lt_div_iff₀ (by positivity) hp]
    linarith
  have : |((kNearest G v : ℤ) : ℚ) - k| < 1 := by
    rw [abs_le] at h h1 h2
    rw [abs_lt]
    constructor <;> linarith [h.1, h.2, h1.1, h1.2, h2.1, h2.2]
  have : |kNearest G v - k| < 1 := by exact_mod_cast this
  have := Int.abs_lt_one_iff.mp this
  omega

end C15

open C15

/-! ## Rounding to a regular grid (ℚ) -/

/-- **every rounding result is a grid point `gp k`** for an explicit integer index `k` — the same
function of an integer from which the grid itself is built (`c15_grid_is_gp_range`).  Holds for
every grid and value, no side condition. -/
theorem c15_round_is_gp (G : PGrid ℚ) (v : ℚ) :
    roundLower G v = gp G (kLower G v) ∧ roundUpper G v = gp G (kUpper G v) ∧
      roundNearest G v = gp G (kNearest G v) := by
  refine ⟨rfl, rfl, ?_⟩
  unfold roundNearest gp kNearest
  simp [rint_eq]

/-- **the index is in range**: for a value inside a grid of `N+1` points, lower and nearest index
lie in `0..N`; the upper index too unless the value is within the slack of the last point. -/
theorem c15_index_in_range (G : PGrid ℚ) (hd : 0 < G.delta) (v : ℚ) (N : ℕ)
    (hlo : G.lb ≤ v) (hhi : v ≤ G.lb + N * G.delta) :
    0 ≤ kLower G v ∧ kLower G v ≤ N ∧ 0 ≤ kNearest G v ∧ kNearest G v ≤ N ∧
      (v < G.lb + N * G.delta - slack G * G.delta → kUpper G v ≤ N) := by
  have hq0 : 0 ≤ q G v := by unfold q; apply div_nonneg <;> linarith
  have hqN : q G v ≤ N := by unfold q; rw [div_le_iff₀ hd]; linarith
  have hp := p10_pos G.fd
  have hf : floatD G v = (rintI (q G v * 10 ^ G.fd) : ℚ) / 10 ^ G.fd := by
    unfold floatD q; rw [aroundDec_eq]
  have hf0 : 0 ≤ floatD G v := by
    rw [hf]; apply div_nonneg _ hp.le
    have := le_rintI_of_le (q G v * 10 ^ G.fd) 0 (by push_cast; positivity)
    exact_mod_cast this
  have hfN : floatD G v ≤ N := by
    rw [hf, div_le_iff₀ hp]
    have := rintI_le_of_le (q G v * 10 ^ G.fd) (N * 10 ^ G.fd) (by push_cast; nlinarith)
    exact_mod_cast this
  have hk0 : 0 ≤ ⌊floatD G v⌋ := Int.floor_nonneg.mpr hf0
  have hkN : ⌊floatD G v⌋ ≤ N := by
    have := Int.floor_le_floor hfN
    rwa [Int.floor_natCast] at this
  refine ⟨hk0, hkN, ?_, ?_, ?_⟩
  · rw [kNearest_eq]
    have := le_rintI_of_le (floatD G v - ⌊floatD G v⌋) 0 (by push_cast; linarith [Int.floor_le (floatD G v)])
    omega
  · rw [kNearest_eq]
    have := rintI_le_of_le (floatD G v - ⌊floatD G v⌋) (N - ⌊floatD G v⌋) (by push_cast; linarith)
    omega
  · intro hv
    have hqN' : q G v < N - slack G := by
      unfold q; rw [div_lt_iff₀ hd]; linarith
    have he := floatD_err G v
    rw [abs_le] at he
    have : floatD G v < N := by linarith [he.2]
    have : ⌊floatD G v⌋ < N := by
      rw [Int.floor_lt]; exact_mod_cast this
    show ⌊floatD G v⌋ + 1 ≤ N
    omega

/-- **lower ≤ value**, up to the slack `delta/(2*10^fd)` that rounding `floatD` introduces (a value
that close below a grid point counts as that grid point). -/
theorem c15_lower_le_value (G : PGrid ℚ) (h : OnDec G) (hd : 0 < G.delta) (v : ℚ) :
    roundLower G v ≤ v + slack G * G.delta := by
  rw [(c15_round_is_gp G v).1, gp_exact G h]
  have he := floatD_err G v
  rw [abs_le] at he
  have hfl := Int.floor_le (floatD G v)
  have : ((kLower G v : ℤ) : ℚ) ≤ q G v + slack G := by
    show ((⌊floatD G v⌋ : ℤ) : ℚ) ≤ _
    linarith [he.1]
  have hv := v_eq G hd.ne' v
  nlinarith

/-- **value < upper**, strictly and without slack. -/
theorem c15_value_lt_upper (G : PGrid ℚ) (h : OnDec G) (hd : 0 < G.delta) (v : ℚ) :
    v < roundUpper G v := by
  rw [(c15_round_is_gp G v).2.1, gp_exact G h]
  have he := floatD_err G v
  rw [abs_le] at he
  have hm := floatD_add_le_floor_succ G v
  have hs : slack G < 1 / 10 ^ G.fd := by
    unfold slack
    have hp := p10_pos G.fd
    rw [div_lt_div_iff₀ (by positivity) hp]
    linarith
  have : q G v < ((kUpper G v : ℤ) : ℚ) := by
    show q G v < ((⌊floatD G v⌋ + 1 : ℤ) : ℚ)
    linarith [he.2]
  have hv := v_eq G hd.ne' v
  nlinarith

/-- **upper = lower + spacing** -/
theorem c15_upper_eq_lower_plus_delta (G : PGrid ℚ) (h : OnDec G) (v : ℚ) :
    roundUpper G v = roundLower G v + G.delta := by
  rw [(c15_round_is_gp G v).2.1, (c15_round_is_gp G v).1, gp_exact G h, gp_exact G h]
  unfold kUpper kLower
  push_cast
  ring

/-- **the nearest member is at most half a spacing away** (plus the slack). -/
theorem c15_nearest_within_half (G : PGrid ℚ) (h : OnDec G) (hd : 0 < G.delta) (v : ℚ) :
    |roundNearest G v - v| ≤ (1 / 2 + slack G) * G.delta := by
  rw [(c15_round_is_gp G v).2.2, gp_exact G h]
  have h1 := kNearest_err G v
  have h2 := floatD_err G v
  have hv := v_eq G hd.ne' v
  have e : G.lb + (kNearest G v : ℚ) * G.delta - v = ((kNearest G v : ℚ) - q G v) * G.delta := by
    rw [hv]
    unfold q
    field_simp
    ring
  rw [e, abs_mul, abs_of_pos hd]
  apply mul_le_mul_of_nonneg_right _ hd.le
  rw [abs_le] at h1 h2 ⊢
  constructor <;> linarith [h1.1, h1.2, h2.1, h2.2]

/-- the nearest member is the lower or the upper one -/
theorem c15_nearest_is_lower_or_upper (G : PGrid ℚ) (v : ℚ) :
    roundNearest G v = roundLower G v ∨ roundNearest G v = roundUpper G v := by
  rw [(c15_round_is_gp G v).2.2, (c15_round_is_gp G v).1, (c15_round_is_gp G v).2.1, kNearest_eq]
  unfold kLower kUpper intD
  rcases rintI_mem (floatD G v - ⌊floatD G v⌋) with e | e
  · left
    rw [e]
    simp
  · right
    rw [e]
    simp

/-- **values exactly on a grid point** stay there: lower = nearest = the point, upper = the next. -/
theorem c15_on_grid_fixed (G : PGrid ℚ) (h : OnDec G) (hd : G.delta ≠ 0) (k : ℤ) :
    roundLower G (G.lb + k * G.delta) = G.lb + k * G.delta ∧
    roundNearest G (G.lb + k * G.delta) = G.lb + k * G.delta ∧
    roundUpper G (G.lb + k * G.delta) = G.lb + (k + 1) * G.delta := by
  have hf : floatD G (G.lb + k * G.delta) = k := by
    unfold floatD
    have : (G.lb + k * G.delta - G.lb) / G.delta = k := by
      rw [add_sub_cancel_left, mul_div_cancel_right₀ _ hd]
    rw [this, aroundDec_intCast]
  have hkl : kLower G (G.lb + k * G.delta) = k := by
    show ⌊floatD G _⌋ = k
    rw [hf, Int.floor_intCast]
  have hkn : kNearest G (G.lb + k * G.delta) = k := by
    rw [kNearest_eq, hf, Int.floor_intCast, sub_self]
    have := rintI_intCast 0
    simp only [Int.cast_zero] at this
    rw [this, add_zero]
  have hku : kUpper G (G.lb + k * G.delta) = k + 1 := by
    show kLower G _ + 1 = k + 1
    rw [hkl]
  obtain ⟨e1, e2, e3⟩ := c15_round_is_gp G (G.lb + k * G.delta)
  rw [e1, e2, e3, hkl, hkn, hku, gp_exact G h, gp_exact G h]
  push_cast
  exact ⟨rfl, rfl, rfl⟩

/-- **grid construction**: an input array whose `k`-th entry is within `(1/2 - 10^-fd)` spacings of
`lb + k*delta` is stored as `[gp 0, …, gp (n-1)]` — the very function the rounding methods use. -/
theorem c15_grid_is_gp_range (G : PGrid ℚ) (hd : 0 < G.delta) (arr : List ℚ)
    (hk : ∀ k (hk : k < arr.length),
      |arr[k] - (G.lb + k * G.delta)| ≤ (1 / 2 - 1 / 10 ^ G.fd) * G.delta) :
    buildGrid G arr = (List.range arr.length).map (fun (k : ℕ) => gp G (k : ℤ)) := by
  apply List.ext_getElem
  · simp [buildGrid]
  · intro i h1 h2
    simp only [buildGrid, List.getElem_map, List.getElem_range]
    have hi : i < arr.length := by simpa [buildGrid] using h1
    rw [(c15_round_is_gp G _).2.2]
    congr 1
    apply kNearest_of_close
    have := hk i hi
    have e : q G arr[i] - ((i : ℤ) : ℚ) = (arr[i] - (G.lb + i * G.delta)) / G.delta := by
      unfold q
      field_simp
      push_cast
      ring
    rw [e, abs_div, abs_of_pos hd, div_le_iff₀ hd]
    exact this

/-- **membership**: for a value inside a grid of `n` points built as above, lower and nearest
rounding return (syntactically) a member of the grid list. -/
theorem c15_round_member (G : PGrid ℚ) (hd : 0 < G.delta) (v : ℚ) (n : ℕ) (hn : 0 < n)
    (hlo : G.lb ≤ v) (hhi : v ≤ G.lb + (n - 1 : ℕ) * G.delta) :
    roundLower G v ∈ (List.range n).map (fun (k : ℕ) => gp G (k : ℤ)) ∧
    roundNearest G v ∈ (List.range n).map (fun (k : ℕ) => gp G (k : ℤ)) := by
  obtain ⟨a0, a1, b0, b1, _⟩ := c15_index_in_range G hd v (n - 1) hlo hhi
  obtain ⟨e1, _, e3⟩ := c15_round_is_gp G v
  constructor
  · rw [e1]
    refine List.mem_map.mpr ⟨(kLower G v).toNat, List.mem_range.mpr (by omega), ?_⟩
    congr 1
    omega
  · rw [e3]
    refine List.mem_map.mpr ⟨(kNearest G v).toNat, List.mem_range.mpr (by omega), ?_⟩
    congr 1
    omega

/-- the lower grid point determines the cell, hence the upper grid point (what the cache of the
linear interpolation relies on) -/
theorem c15_lower_determines_upper (G : PGrid ℚ) (h : OnDec G) (v v' : ℚ)
    (e : roundLower G v = roundLower G v') : roundUpper G v = roundUpper G v' := by
  rw [c15_upper_eq_lower_plus_delta G h, c15_upper_eq_lower_plus_delta G h, e]

theorem C15.range_map_shift (f : ℕ → ℚ) (n : ℕ) :
    (List.range (n + 2)).map f = f 0 :: (List.range n).map (fun k => f (k + 1)) ++ [f (n + 1)] := by
  rw [List.range_succ, List.map_append, List.range_succ_eq_map, List.map_cons, List.map_map]
  simp [Function.comp_def]

/-- **extension by extra bins**: the extended grid is again `[gp' 0, …, gp' (n+1)]` for the
descriptors with the lower bound moved down by one spacing (which stay on the decimal lattice), so
all rounding theorems apply to the extended grid as well. -/
theorem c15_extra_bins (G : PGrid ℚ) (h : OnDec G) (hd : G.delta ≠ 0) (m : ℕ) :
    OnDec { G with lb := G.lb - G.delta } ∧
    addExtra G ((List.range (m + 1)).map (fun (k : ℕ) => gp G (k : ℤ))) =
      some ({ G with lb := G.lb - G.delta },
        (List.range (m + 3)).map (fun (k : ℕ) => gp { G with lb := G.lb - G.delta } (k : ℤ))) := by
  set G' : PGrid ℚ := { G with lb := G.lb - G.delta } with hG'def
  have hG' : OnDec G' := by
    obtain ⟨x, y, hx, hy⟩ := h
    refine ⟨x - y, y, ?_, hy⟩
    show G.lb - G.delta = _
    rw [hx, hy]; push_cast; ring
  refine ⟨hG', ?_⟩
  have hgp : ∀ k : ℤ, gp G k = G.lb + k * G.delta := gp_exact G h
  have hhead : ((List.range (m + 1)).map (fun (k : ℕ) => gp G (k : ℤ))).head? = some G.lb := by
    rw [List.range_succ_eq_map]; simp [hgp]
  have hlast : ((List.range (m + 1)).map (fun (k : ℕ) => gp G (k : ℤ))).getLast? =
      some (G.lb + m * G.delta) := by
    rw [List.range_succ]; simp [hgp]
  have harr : [G.lb - G.delta] ++ (List.range (m + 1)).map (fun (k : ℕ) => gp G (k : ℤ)) ++
      [G.lb + m * G.delta + G.delta] =
      (List.range (m + 3)).map (fun (k : ℕ) => G'.lb + ((k : ℤ) : ℚ) * G'.delta) := by
    rw [show m + 3 = (m + 1) + 2 from rfl, range_map_shift]
    simp only [List.cons_append, List.cons.injEq]
    refine ⟨by simp [hG'def], ?_⟩
    have : (List.range (m + 1)).map (fun (k : ℕ) => gp G (k : ℤ)) =
        (List.range (m + 1)).map (fun k => G'.lb + (((k + 1 : ℕ) : ℤ) : ℚ) * G'.delta) := by
      apply List.map_congr_left
      intro k _
      simp only [hgp, hG'def]
      push_cast; ring
    rw [this]
    congr 2
    simp only [hG'def]
    push_cast; ring
  unfold addExtra
  rw [hhead, hlast]
  simp only []
  rw [harr]
  congr 2
  unfold buildGrid
  rw [List.map_map]
  apply List.map_congr_left
  intro k _
  have hd' : G'.delta ≠ 0 := hd
  simp only [Function.comp]
  rw [(c15_on_grid_fixed G' hG' hd' k).2.1, gp_exact G' hG']

/-! ### instantiation at the constants of the current source -/

/-- with the current literal in `np.around(floatD, 9)` the slack is `5·10⁻¹⁰` spacings -/
theorem c15_slack_for_current_source (G : PGrid ℚ) (h : G.fd = Gen.C15.floatDDecimals) :
    slack G = 5 / 10 ^ 10 := by
  unfold slack
  rw [h]
  norm_num [Gen.C15.floatDDecimals]

/-- all admitted numbers of decimals keep `10^d` exactly representable in a double (`d ≤ 22`), and
`floatD` keeps at least one decimal (so that "nearest" is within less than a full spacing) -/
theorem c15_decimals_for_current_source :
    Gen.C15.maxDecimals ≤ 22 ∧ 1 ≤ Gen.C15.floatDDecimals := by
  decide

-- non-vacuity: a concrete grid (lb = 1.05, delta = 0.1, two decimals) meets the hypotheses
example : OnDec (mkGrid (105 / 100) (1 / 10) 2 9 : PGrid ℚ) := mkGrid_onDec _ _ _ _
example : (0 : ℚ) < (mkGrid (105 / 100) (1 / 10) 2 9 : PGrid ℚ).delta := by
  simp only [mkGrid, aroundDec_eq]
  have : rintI ((1 : ℚ) / 10 * 10 ^ 2) = 10 := by
    have := rintI_intCast 10
    norm_num at this ⊢
    exact this
  rw [this]; norm_num

/-! ## Irregular grid (any linear order / ordered field) -/

namespace C15
section irregular
variable {F : Type} [LinearOrder F]

/-- on a strictly increasing list, "element `i` is `≤ v`" is the same as "`i` is below the
`searchsorted(…, side='right')` index" -/
theorem getElem_le_iff (g : List F) (hs : g.Pairwise (· < ·)) (v : F) (i : ℕ) (hi : i < g.length) :
    g[i] ≤ v ↔ i < ssRight g v := by
  induction g generalizing i with
  | nil => simp at hi
  | cons a t ih =>
    rw [List.pairwise_cons] at hs
    obtain ⟨ha, ht⟩ := hs
    unfold ssRight at ih ⊢
    rw [List.countP_cons]
    by_cases hav : a ≤ v
    · cases i with
      | zero => simp [hav]
      | succ j =>
        have := ih ht j (by simpa using hi)
        simp only [List.getElem_cons_succ, hav, decide_true, if_true]
        rw [this]; omega
    · have hz : t.countP (fun e => decide (e ≤ v)) = 0 := by
        rw [List.countP_eq_zero]
        intro e he
        have := ha e he
        simp only [decide_eq_true_eq, not_le]
        exact lt_trans (not_le.mp hav) this
      simp only [hav, decide_false, hz]
      constructor
      · intro h
        exfalso
        cases i with
        | zero => exact hav h
        | succ j =>
          have hj : j < t.length := by simpa using hi
          have hm : t[j] ∈ t := List.getElem_mem hj
          have := ha _ hm
          simp only [List.getElem_cons_succ] at h
          exact hav (le_trans this.le h)
      · intro h; simp at h

theorem sorted_getElem_le (g : List F) (hs : g.Pairwise (· < ·)) (i j : ℕ) (hij : i ≤ j)
    (hj : j < g.length) : g[i]'(lt_of_le_of_lt hij hj) ≤ g[j] := by
  rcases lt_or_eq_of_le hij with h | h
  · exact (List.pairwise_iff_getElem.mp hs i j _ hj h).le
  · subst h; exact le_refl _

theorem ssRight_le_length (g : List F) (v : F) : ssRight g v ≤ g.length := List.countP_le_length

end irregular
end C15

section irregular
variable {F : Type} [LinearOrder F]

/-- **irregular lower**: for a value at or above some grid point the result is the greatest grid
member `≤ value` (and it is a member by construction: it is `grid[idx]`). -/
theorem c15_irregular_lower (g : List F) (hs : g.Pairwise (· < ·)) (v : F) (h0 : ∃ a ∈ g, a ≤ v) :
    ∃ a, irrLower g v = some a ∧ a ∈ g ∧ a ≤ v ∧ ∀ b ∈ g, b ≤ v → b ≤ a := by
  obtain ⟨a0, ha0, ha0v⟩ := h0
  obtain ⟨i0, hi0, rfl⟩ := List.getElem_of_mem ha0
  have hc : i0 < ssRight g v := (C15.getElem_le_iff g hs v i0 hi0).mp ha0v
  have hcl := C15.ssRight_le_length g v
  have hlt : ssRight g v - 1 < g.length := by omega
  refine ⟨g[ssRight g v - 1], ?_, List.getElem_mem _, ?_, ?_⟩
  · unfold irrLower
    have : ssRight g v ≠ 0 := by omega
    simp [this, hlt]
  · exact (C15.getElem_le_iff g hs v _ hlt).mpr (by omega)
  · intro b hb hbv
    obtain ⟨j, hj, rfl⟩ := List.getElem_of_mem hb
    have := (C15.getElem_le_iff g hs v j hj).mp hbv
    exact C15.sorted_getElem_le g hs j _ (by omega) hlt

/-- **irregular upper**: for a value below some grid point the result is the least grid member
`> value`. -/
theorem c15_irregular_upper (g : List F) (hs : g.Pairwise (· < ·)) (v : F) (h0 : ∃ a ∈ g, v < a) :
    ∃ a, irrUpper g v = some a ∧ a ∈ g ∧ v < a ∧ ∀ b ∈ g, v < b → a ≤ b := by
  obtain ⟨a0, ha0, ha0v⟩ := h0
  obtain ⟨i0, hi0, rfl⟩ := List.getElem_of_mem ha0
  have hc : ¬ i0 < ssRight g v := fun h => not_le.mpr ha0v ((C15.getElem_le_iff g hs v i0 hi0).mpr h)
  have hlt : ssRight g v < g.length := by omega
  refine ⟨g[ssRight g v], ?_, List.getElem_mem _, ?_, ?_⟩
  · unfold irrUpper; simp [hlt]
  · exact not_le.mp (fun h => absurd ((C15.getElem_le_iff g hs v _ hlt).mp h) (lt_irrefl _))
  · intro b hb hbv
    obtain ⟨j, hj, rfl⟩ := List.getElem_of_mem hb
    have : ¬ j < ssRight g v := fun h => not_le.mpr hbv ((C15.getElem_le_iff g hs v j hj).mpr h)
    exact C15.sorted_getElem_le g hs _ j (by omega) hj

/-- at or above the last grid point `round_to_upper_grid_point` of the irregular grid has no
answer (`IndexError` in Python) — the error is explicit, not totalised away. -/
theorem c15_irregular_upper_none (g : List F) (v : F) (h : ∀ a ∈ g, a ≤ v) : irrUpper g v = none := by
  unfold irrUpper ssRight
  have : g.countP (fun e => decide (e ≤ v)) = g.length := by
    rw [List.countP_eq_length]
    intro a ha; simpa using h a ha
  simp [this]

/-- every answer of the three irregular rounding functions is a member of the grid list -/
theorem c15_irregular_member [Add F] [Div F] [OfNat F 2] (g : List F) (v a : F)
    (h : irrLower g v = some a ∨ irrUpper g v = some a ∨ irrNearest g v = some a) : a ∈ g := by
  rcases h with h | h | h
  · unfold irrLower at h
    simp only [] at h
    split_ifs at h
    · exact List.mem_of_getLast? h
    · exact List.mem_of_getElem? h
  · exact List.mem_of_getElem? h
  · exact List.mem_of_getElem? h

end irregular

/-! ### nearest member of the irregular grid (ordered field) -/

namespace C15

/-- `countP` on a list on which the predicate can only switch from true to false: element `i`
satisfies it iff `i` is below the count -/
theorem getElem_iff_lt_countP {α : Type} (p : α → Bool) (l : List α)
    (hmono : l.Pairwise (fun a b => p b = true → p a = true)) (i : ℕ) (hi : i < l.length) :
    p l[i] = true ↔ i < l.countP p := by
  induction l generalizing i with
  | nil => simp at hi
  | cons a t ih =>
    rw [List.pairwise_cons] at hmono
    obtain ⟨ha, ht⟩ := hmono
    rw [List.countP_cons]
    by_cases hpa : p a = true
    · cases i with
      | zero => simp [hpa]
      | succ j =>
        have := ih ht j (by simpa using hi)
        simp only [List.getElem_cons_succ, hpa, if_true]
        rw [this]; omega
    · have hz : t.countP p = 0 := by
        rw [List.countP_eq_zero]
        intro e he hpe
        exact hpa (ha e he hpe)
      simp only [hpa, hz]
      constructor
      · intro h
        exfalso
        cases i with
        | zero => exact hpa h
        | succ j =>
          have hj : j < t.length := by simpa using hi
          simp only [List.getElem_cons_succ] at h
          exact hpa (ha _ (List.getElem_mem hj) h)
      · intro h; simp at h

end C15

section nearest
variable {F : Type} [Field F] [LinearOrder F] [IsStrictOrderedRing F]

/-- **irregular nearest**: the result is a grid member that is at least as close to the value as
every other member (for a non-empty strictly increasing grid). -/
theorem c15_irregular_nearest (g : List F) (hs : g.Pairwise (· < ·)) (hne : g ≠ []) (v : F) :
    ∃ a, irrNearest g v = some a ∧ a ∈ g ∧ ∀ b ∈ g, |a - v| ≤ |b - v| := by
  have hn : 0 < g.length := List.length_pos_iff.mpr hne
  have hml : (irrMids g).length = g.length - 1 := by simp [irrMids]
  have hmid : ∀ i (hi : i < (irrMids g).length),
      (irrMids g)[i] = (g[i + 1]'(by omega) + g[i]'(by omega)) / 2 := by
    intro i hi
    simp [irrMids, List.getElem_zipWith]
  -- the mid points are non-decreasing, so `< v` can only switch from true to false
  have hmono : (irrMids g).Pairwise (fun a b => decide (b < v) = true → decide (a < v) = true) := by
    rw [List.pairwise_iff_getElem]
    intro i j hi hj hij h
    simp only [decide_eq_true_eq] at h ⊢
    rw [hmid i hi]
    rw [hmid j hj] at h
    have h1 := C15.sorted_getElem_le g hs i j hij.le (by omega)
    have h2 := C15.sorted_getElem_le g hs (i + 1) (j + 1) (by omega) (by omega)
    have : (g[i + 1]'(by omega) + g[i]'(by omega)) / 2 ≤ (g[j + 1]'(by omega) + g[j]'(by omega)) / 2 := by
      apply div_le_div_of_nonneg_right _ (by norm_num : (0 : F) ≤ 2)
      linarith
    exact lt_of_le_of_lt this h
  set c := ssLeft (irrMids g) v with hc
  have hcle : c ≤ g.length - 1 := by rw [← hml]; exact List.countP_le_length
  have hclt : c < g.length := by omega
  have hiff : ∀ i (hi : i < (irrMids g).length), (irrMids g)[i] < v ↔ i < c := by
    intro i hi
    have := C15.getElem_iff_lt_countP (fun e => decide (e < v)) (irrMids g) hmono i hi
    rw [hc]
    unfold ssLeft
    simpa using this
  refine ⟨g[c], by simp [irrNearest, ← hc, hclt], List.getElem_mem _, ?_⟩
  intro b hb
  obtain ⟨j, hj, rfl⟩ := List.getElem_of_mem hb
  rcases lt_trichotomy j c with hjc | hjc | hjc
  · -- members below: the mid point just below `g[c]` is `< v`
    have hc1 : c - 1 < (irrMids g).length := by omega
    have hm := (hiff (c - 1) hc1).mpr (by omega)
    rw [hmid (c - 1) hc1, div_lt_iff₀ (by norm_num : (0 : F) < 2)] at hm
    have e : c - 1 + 1 = c := by omega
    simp only [e] at hm
    have h1 := C15.sorted_getElem_le g hs j (c - 1) (by omega) (by omega)
    have h2 := C15.sorted_getElem_le g hs j c (by omega) hclt
    calc |g[c] - v| ≤ v - g[j] := by rw [abs_le]; constructor <;> linarith
      _ ≤ |g[j] - v| := by rw [← neg_sub]; exact neg_le_abs _
  · subst hjc; exact le_refl _
  · -- members above: the mid point just above `g[c]` is `≥ v`
    have hc1 : c < (irrMids g).length := by omega
    have hm : ¬ (irrMids g)[c] < v := fun h => lt_irrefl c ((hiff c hc1).mp h)
    rw [hmid c hc1, not_lt, le_div_iff₀ (by norm_num : (0 : F) < 2)] at hm
    have h1 := C15.sorted_getElem_le g hs (c + 1) j (by omega) hj
    have h2 := C15.sorted_getElem_le g hs c j (by omega) hj
    calc |g[c] - v| ≤ g[j] - v := by rw [abs_le]; constructor <;> linarith
      _ ≤ |g[j] - v| := le_abs_self _

end nearest

/-! ## Line and parabola (any field; derivative over ℝ) -/

section interp
variable {K : Type} [Field K]

/-- **the line reproduces the manifold at the two grid points** -/
theorem c15_linear_at_grid (x0 x1 M0 M1 : K) (h : x0 ≠ x1) :
    lineValue x0 x1 M0 M1 x0 = M0 ∧ lineValue x0 x1 M0 M1 x1 = M1 := by
  have : x1 - x0 ≠ 0 := sub_ne_zero.mpr (Ne.symm h)
  unfold lineValue lineB lineM
  constructor <;> field_simp <;> ring

/-- **the line is exact for functions of degree ≤ 1**, value and gradient, at every `x` -/
theorem c15_linear_exact_deg1 (x0 x1 c0 c1 x : K) (h : x0 ≠ x1) :
    lineValue x0 x1 (c1 * x0 + c0) (c1 * x1 + c0) x = c1 * x + c0 ∧
      lineGrad x0 x1 (c1 * x0 + c0) (c1 * x1 + c0) = c1 := by
  have : x1 - x0 ≠ 0 := sub_ne_zero.mpr (Ne.symm h)
  unfold lineValue lineGrad lineB lineM
  constructor <;> field_simp <;> ring

variable [NeZero (2 : K)]

/-- **the parabola reproduces the manifold at the three grid points** `x1 - dx`, `x1`, `x1 + dx` -/
theorem c15_parabola_at_grid (x1 dx M0 M1 M2 : K) (h : dx ≠ 0) :
    parValue x1 dx M0 M1 M2 x1 = M1 ∧ parValue x1 dx M0 M1 M2 (x1 - dx) = M0 ∧
      parValue x1 dx M0 M1 M2 (x1 + dx) = M2 := by
  have h2 : (2 : K) ≠ 0 := NeZero.ne 2
  unfold parValue parA parB
  refine ⟨?_, ?_, ?_⟩ <;> field_simp <;> ring

/-- **the parabola is exact for functions of degree ≤ 2**, value and gradient, at every `x` -/
theorem c15_parabola_exact_deg2 (x1 dx c0 c1 c2 x : K) (h : dx ≠ 0) :
    let p : K → K := fun t => c2 * t * t + c1 * t + c0
    parValue x1 dx (p (x1 - dx)) (p x1) (p (x1 + dx)) x = p x ∧
      parGrad x1 dx (p (x1 - dx)) (p x1) (p (x1 + dx)) x = 2 * c2 * x + c1 := by
  have h2 : (2 : K) ≠ 0 := NeZero.ne 2
  intro p
  simp only [p]
  unfold parValue parGrad parA parB
  constructor <;> field_simp <;> ring

end interp

/-- **the reported gradient is the derivative of the reported value** (inside a cell, where the
grid points and manifold values entering the parametrisation are fixed): linear method -/
theorem c15_grad_is_deriv_linear (x0 x1 M0 M1 x : ℝ) :
    HasDerivAt (fun t => lineValue x0 x1 M0 M1 t) (lineGrad x0 x1 M0 M1) x := by
  unfold lineValue lineGrad
  have := ((hasDerivAt_id x).const_mul (lineM x0 x1 M0 M1)).add_const (lineB x0 x1 M0 M1)
  simpa using this

/-- … and parabola method -/
theorem c15_grad_is_deriv_parabola (x1 dx M0 M1 M2 x : ℝ) :
    HasDerivAt (fun t => parValue x1 dx M0 M1 M2 t) (parGrad x1 dx M0 M1 M2 x) x := by
  unfold parValue parGrad
  have ht : HasDerivAt (fun t : ℝ => t - x1) 1 x := (hasDerivAt_id x).sub_const x1
  have h2 : HasDerivAt (fun t : ℝ => (t - x1) * (t - x1)) (1 * (x - x1) + (x - x1) * 1) x := ht.mul ht
  have h3 : HasDerivAt
      (fun t : ℝ => parA dx M0 M1 M2 * ((t - x1) * (t - x1)) + parB dx M0 M2 * (t - x1) + M1)
      (parA dx M0 M1 M2 * (1 * (x - x1) + (x - x1) * 1) + parB dx M0 M2 * 1) x :=
    ((h2.const_mul _).add (ht.const_mul _)).add_const M1
  exact h3.congr_deriv (by ring)

/-- the two statements together, as in the property text -/
theorem c15_grad_is_deriv (x0 x1 dx M0 M1 M2 x : ℝ) :
    HasDerivAt (fun t => lineValue x0 x1 M0 M1 t) (lineGrad x0 x1 M0 M1) x ∧
    HasDerivAt (fun t => parValue x1 dx M0 M1 M2 t) (parGrad x1 dx M0 M1 M2 x) x :=
  ⟨c15_grad_is_deriv_linear x0 x1 M0 M1 x, c15_grad_is_deriv_parabola x1 dx M0 M1 M2 x⟩

/-- rounding and interpolation together: at a grid point `lb + k*delta` the linear method, fed
with the manifold values at the grid points *it computes itself*, returns the manifold value -/
theorem c15_linear_reproduces_grid_point (G : PGrid ℚ) (h : OnDec G) (hd : G.delta ≠ 0) (k : ℤ)
    (f : ℚ → ℚ) :
    let v := G.lb + k * G.delta
    lineValue (roundLower G v) (roundUpper G v) (f (roundLower G v)) (f (roundUpper G v)) v = f v := by
  intro v
  obtain ⟨e1, _, e3⟩ := c15_on_grid_fixed G h hd k
  have hne : roundLower G v ≠ roundUpper G v := by
    show roundLower G (G.lb + k * G.delta) ≠ roundUpper G (G.lb + k * G.delta)
    rw [e1, e3]
    intro hh
    apply hd
    linarith
  have := (c15_linear_at_grid (roundLower G v) (roundUpper G v) (f (roundLower G v)) (f (roundUpper G v)) hne).1
  have e1' : roundLower G v = v := e1
  rw [e1'] at this ⊢
  exact this

/-- the neighbours the parabola method looks up are the neighbouring grid points, and at a grid
point it returns the manifold value -/
theorem c15_parabola_reproduces_grid_point (G : PGrid ℚ) (h : OnDec G) (hd : G.delta ≠ 0) (k : ℤ)
    (f : ℚ → ℚ) :
    let v := G.lb + k * G.delta
    let x1 := roundNearest G v
    roundNearest G (x1 - G.delta) = G.lb + (k - 1) * G.delta ∧
    roundNearest G (x1 + G.delta) = G.lb + (k + 1) * G.delta ∧
    parValue x1 G.delta (f (roundNearest G (x1 - G.delta))) (f x1) (f (roundNearest G (x1 + G.delta))) v
      = f v := by
  intro v x1
  have e2 : x1 = v := (c15_on_grid_fixed G h hd k).2.1
  have em : x1 - G.delta = G.lb + ((k - 1 : ℤ) : ℚ) * G.delta := by rw [e2]; push_cast; ring
  have ep : x1 + G.delta = G.lb + ((k + 1 : ℤ) : ℚ) * G.delta := by rw [e2]; push_cast; ring
  have hm := (c15_on_grid_fixed G h hd (k - 1)).2.1
  have hp := (c15_on_grid_fixed G h hd (k + 1)).2.1
  refine ⟨?_, ?_, ?_⟩
  · rw [em, hm]; push_cast; ring
  · rw [ep, hp]; push_cast; ring
  · have := (c15_parabola_at_grid x1 G.delta (f (roundNearest G (x1 - G.delta))) (f x1)
      (f (roundNearest G (x1 + G.delta))) hd).1
    rw [e2] at this ⊢
    exact this

/-! ## One shared or several per-source parameter values -/

namespace C15

theorem flat_getElem? {F : Type} (xs : List F) (ns : List ℕ) (hlen : xs.length = ns.length)
    (k j : ℕ) (hk : k < xs.length) (hkn : k < ns.length) (hj : j < ns[k]) :
    ((xs.zip ns).flatMap fun p => List.replicate p.2 p.1)[(ns.take k).sum + j]? = some xs[k] := by
  induction xs generalizing ns k with
  | nil => simp at hk
  | cons x xs' ih =>
    cases ns with
    | nil => simp at hkn
    | cons n ns' =>
      simp only [List.zip_cons_cons, List.flatMap_cons]
      cases k with
      | zero =>
        simp only [List.take_zero, List.sum_nil, zero_add, List.getElem_cons_zero] at hj ⊢
        rw [List.getElem?_append_left (by simpa using hj)]
        simp [hj]
      | succ k' =>
        simp only [List.take_succ_cons, List.sum_cons, List.getElem_cons_succ] at hj ⊢
        rw [List.getElem?_append_right (by simp; omega)]
        have e : n + (List.take k' ns').sum + j - (List.replicate n x).length = (List.take k' ns').sum + j := by
          simp; omega
        rw [e]
        exact ih ns' (by simpa using hlen) k' (by simpa using hk) (by simpa using hkn) hj

end C15

/-- **one shared value**: every entry of the values array gets it -/
theorem c15_shared_broadcast {F : Type} (x : F) (ns : List ℕ) :
    broadcast [x] ns = some (List.replicate ns.sum x) := rfl

/-- **several per-source values**: the `j`-th value of source `k` (position `ns[0]+…+ns[k-1]+j`
of the values array) gets source `k`'s parameter value, never another source's -/
theorem c15_per_source_broadcast {F : Type} (xs : List F) (ns : List ℕ) (hlen : xs.length = ns.length)
    (k j : ℕ) (hk : k < xs.length) (hkn : k < ns.length) (hj : j < ns[k]) :
    ∃ l, broadcast xs ns = some l ∧ l[(ns.take k).sum + j]? = some xs[k] := by
  unfold broadcast
  split
  · rename_i x
    refine ⟨_, rfl, ?_⟩
    have hk0 : k = 0 := by simpa using hk
    subst hk0
    have : j < ns.sum := by
      cases ns with
      | nil => simp at hkn
      | cons n t => simp at hj ⊢; omega
    simp [this]
  · rw [if_pos hlen]
    exact ⟨_, rfl, C15.flat_getElem? xs ns hlen k j hk hkn hj⟩

/-- **per-source values of the linear method**: value and gradient number `i = ns[0]+…+ns[k-1]+j`
of a (fresh) call are the line through source `k`'s own lower and upper grid point, evaluated at
source `k`'s own parameter value. -/
theorem c15_per_source_linear (G : PGrid ℚ) (Mf : ℤ → List ℚ → List ℚ) (ns : List ℕ) (sid : ℤ)
    (xs : List ℚ) (hlen : xs.length = ns.length) (k j : ℕ) (hk : k < xs.length) (hkn : k < ns.length)
    (hj : j < ns[k]) (m0 m1 : ℚ)
    (h0 : (Mf sid (xs.map (roundLower G)))[(ns.take k).sum + j]? = some m0)
    (h1 : (Mf sid (xs.map (roundUpper G)))[(ns.take k).sum + j]? = some m1) :
    ∃ vals grads, linSpec G Mf ns sid xs = some (vals, grads) ∧
      vals[(ns.take k).sum + j]? =
        some (lineValue (roundLower G xs[k]) (roundUpper G xs[k]) m0 m1 xs[k]) ∧
      grads[(ns.take k).sum + j]? = some (lineGrad (roundLower G xs[k]) (roundUpper G xs[k]) m0 m1) := by
  obtain ⟨lx, hlx, ex⟩ := c15_per_source_broadcast xs ns hlen k j hk hkn hj
  obtain ⟨l0, hl0, e0⟩ := c15_per_source_broadcast (xs.map (roundLower G)) ns (by simpa using hlen) k j
    (by simpa using hk) hkn hj
  obtain ⟨l1, hl1, e1⟩ := c15_per_source_broadcast (xs.map (roundUpper G)) ns (by simpa using hlen) k j
    (by simpa using hk) hkn hj
  simp only [List.getElem_map] at e0 e1
  unfold linSpec linCompute
  simp only [hl0, hl1, Option.bind_some, linEval, hlx]
  refine ⟨_, _, rfl, ?_, ?_⟩
  · simp [List.getElem?_zipWith, h0, h1, e0, e1, ex, lineValue, lineB, lineM]
  · simp [List.getElem?_zipWith, h0, h1, e0, e1, lineGrad, lineM]

/-! ## The caches: a used interpolation object answers like a fresh one -/

section cache
variable {F : Type} [Add F] [Sub F] [Mul F] [Div F] [LT F] [DecidableLT F] [RoundOps F]
  [OfNat F 1] [OfNat F 2] [BEq F] [LawfulBEq F]

namespace C15

/-- cache invariant of the linear method: the content is what a computation for the stored
trial-data state and *some* parameter values produced -/
def LinOK (G : PGrid F) (Mf : Int → List F → List F) (ns : List Nat) : Option (LinCache F) → Prop
  | none => True
  | some c => ∃ xs', linCompute G Mf ns c.sid xs' = some c

omit [OfNat F 1] [OfNat F 2] [BEq F] [LawfulBEq F] in
theorem linCompute_x0 (G : PGrid F) (Mf : Int → List F → List F) (ns : List Nat) (sid : Int)
    (xs : List F) (c : LinCache F) (h : linCompute G Mf ns sid xs = some c) :
    c.sid = sid ∧ c.x0 = xs.map (roundLower G) := by
  unfold linCompute at h
  simp only [] at h
  split at h
  · simp only [Option.some.injEq] at h
    subst h
    exact ⟨rfl, rfl⟩
  · simp at h

omit [OfNat F 1] [OfNat F 2] [BEq F] [LawfulBEq F] in
/-- a cache hit returns exactly what the recomputation would give, provided the lower grid point
determines the upper one -/
theorem linCompute_hit (G : PGrid F) (Mf : Int → List F → List F) (ns : List Nat)
    (hinj : ∀ v v', roundLower G v = roundLower G v' → roundUpper G v = roundUpper G v')
    (c : LinCache F) (xs' xs : List F) (hc : linCompute G Mf ns c.sid xs' = some c)
    (hx0 : c.x0 = xs.map (roundLower G)) : linCompute G Mf ns c.sid xs = some c := by
  have h0 := (linCompute_x0 G Mf ns c.sid xs' c hc).2
  have hl : xs'.map (roundLower G) = xs.map (roundLower G) := by rw [← h0, hx0]
  have hu : xs'.map (roundUpper G) = xs.map (roundUpper G) := by
    have hlen : xs'.length = xs.length := by simpa using congrArg List.length hl
    apply List.ext_getElem (by simpa using hlen)
    intro i h1 h2
    simp only [List.getElem_map]
    apply hinj
    have := congrArg (fun l => l[i]?) hl
    simp only [List.getElem?_map] at this
    have h1' : i < xs'.length := by simpa using h1
    have h2' : i < xs.length := by simpa using h2
    simpa [List.getElem?_eq_getElem h1', List.getElem?_eq_getElem h2'] using this
  unfold linCompute at hc ⊢
  simp only [] at hc ⊢
  rw [← hl, ← hu]
  exact hc

omit [OfNat F 1] [OfNat F 2] in
theorem linCall_spec (G : PGrid F) (Mf : Int → List F → List F) (ns : List Nat)
    (hinj : ∀ v v', roundLower G v = roundLower G v' → roundUpper G v = roundUpper G v')
    (cache : Option (LinCache F)) (hok : LinOK G Mf ns cache) (sid : Int) (xs : List F) :
    (linCall G Mf ns cache sid xs).2 = linSpec G Mf ns sid xs ∧
      LinOK G Mf ns (linCall G Mf ns cache sid xs).1 := by
  have hfresh : ∀ (cache : Option (LinCache F)), LinOK G Mf ns cache →
      ((match linCompute G Mf ns sid xs with
        | some c' => (some c', linEval c' ns xs)
        | none => (cache, none) : Option (LinCache F) × Option (List F × List F))).2
        = linSpec G Mf ns sid xs ∧
      LinOK G Mf ns ((match linCompute G Mf ns sid xs with
        | some c' => (some c', linEval c' ns xs)
        | none => (cache, none) : Option (LinCache F) × Option (List F × List F))).1 := by
    intro cache hok
    unfold linSpec
    cases hcomp : linCompute G Mf ns sid xs with
    | none => exact ⟨rfl, hok⟩
    | some c' =>
      refine ⟨rfl, ?_⟩
      have := (linCompute_x0 G Mf ns sid xs c' hcomp).1
      exact ⟨xs, by rw [this]; exact hcomp⟩
  unfold linCall
  simp only []
  cases cache with
  | none => exact hfresh none hok
  | some c =>
    simp only []
    split_ifs with hhit
    · obtain ⟨hsid, hx0⟩ := hhit
      have hx0' : c.x0 = xs.map (roundLower G) := by simpa using hx0
      obtain ⟨xs', hc⟩ := hok
      have := linCompute_hit G Mf ns hinj c xs' xs hc hx0'
      refine ⟨?_, ⟨xs', hc⟩⟩
      unfold linSpec
      rw [← hsid, this]
      rfl
    · exact hfresh (some c) hok

end C15

omit [OfNat F 1] [OfNat F 2] in
/-- **cache transparency, linear method** (refinement, by induction over the call history): every
call of a used object — any sequence of trial-data states and parameter values — returns what a
fresh object returns, also when calls raise; the invariant is that the cache content is a pure
function of its key.  Needs only that the lower grid point determines the upper one
(`c15_lower_determines_upper`). -/
theorem c15_linear_cache_transparent (G : PGrid F) (Mf : Int → List F → List F) (ns : List Nat)
    (hinj : ∀ v v', roundLower G v = roundLower G v' → roundUpper G v = roundUpper G v')
    (calls : List (Int × List F)) :
    linRun G Mf ns none calls = calls.map fun c => linSpec G Mf ns c.1 c.2 := by
  suffices h : ∀ cache, C15.LinOK G Mf ns cache →
      linRun G Mf ns cache calls = calls.map fun c => linSpec G Mf ns c.1 c.2 from h none trivial
  induction calls with
  | nil => intro _ _; rfl
  | cons c rest ih =>
    intro cache hok
    obtain ⟨sid, xs⟩ := c
    obtain ⟨h1, h2⟩ := C15.linCall_spec G Mf ns hinj cache hok sid xs
    simp only [linRun, List.map_cons]
    rw [h1, ih _ h2]

/-- **cache transparency, parabola method**: the parametrisation is a function of the stored
nearest grid points alone; for histories in which every call passes the same number of parameter
values (one shared or one per source) a used object answers like a fresh one. -/
theorem c15_parabola_cache_transparent (G : PGrid F) (Mf : Int → List F → List F) (ns : List Nat)
    (n : Nat) (calls : List (Int × List F)) (hlen : ∀ c ∈ calls, c.2.length = n) :
    parRun G Mf ns none calls = calls.map fun c => parSpec G Mf ns c.1 c.2 := by
  -- invariant: the cache is `parCompute` of its own key
  suffices h : ∀ cache : Option (ParCache F),
      (∀ c, cache = some c → c.x1.length = n ∧
        ∀ xs : List F, xs.map (roundNearest G) = c.x1 → parCompute G Mf c.sid xs = c) →
      parRun G Mf ns cache calls = calls.map fun c => parSpec G Mf ns c.1 c.2 from
    h none (fun c hc => by simp at hc)
  induction calls with
  | nil => intro _ _; rfl
  | cons c rest ih =>
    intro cache hok
    obtain ⟨sid, xs⟩ := c
    have hxs : xs.length = n := hlen (sid, xs) (by simp)
    have hrest : ∀ c ∈ rest, c.2.length = n := fun c hc => hlen c (by simp [hc])
    have hfreshOK : ∀ c, some (parCompute G Mf sid xs) = some c → c.x1.length = n ∧
        ∀ xs' : List F, xs'.map (roundNearest G) = c.x1 → parCompute G Mf c.sid xs' = c := by
      intro c hc
      simp only [Option.some.injEq] at hc
      subst hc
      refine ⟨by simp [parCompute, hxs], ?_⟩
      intro xs' hx'
      unfold parCompute at hx' ⊢
      simp only [] at hx' ⊢
      rw [hx']
    simp only [parRun, List.map_cons]
    unfold parCall
    simp only []
    cases cache with
    | none =>
      simp only []
      rw [ih hrest _ hfreshOK]
      rfl
    | some c0 =>
      simp only []
      split_ifs with hhit
      · obtain ⟨hsid, hx1⟩ := hhit
        obtain ⟨hl0, hpure⟩ := hok c0 rfl
        have hx1' : c0.x1 = xs.map (roundNearest G) := by
          unfold bcastEq at hx1
          rw [if_pos (by simp [hl0, hxs])] at hx1
          simpa using hx1
        have hc0 : parCompute G Mf sid xs = c0 := by rw [← hsid]; exact hpure xs hx1'.symm
        simp only []
        rw [ih hrest (some c0) hok]
        unfold parSpec
        rw [hc0]
      · simp only []
        rw [ih hrest _ hfreshOK]
        rfl

end cache

/-- the linear cache theorem applies to every grid produced by `ParameterGrid.__init__` over ℚ -/
theorem c15_linear_cache_transparent_rat (G : PGrid ℚ) (h : OnDec G) (Mf : ℤ → List ℚ → List ℚ)
    (ns : List ℕ) (calls : List (ℤ × List ℚ)) :
    linRun G Mf ns none calls = calls.map fun c => linSpec G Mf ns c.1 c.2 :=
  c15_linear_cache_transparent G Mf ns (c15_lower_determines_upper G h) calls

-- non-vacuity of the history theorems: a concrete grid, manifold function and history with a cache
-- hit, a miss in a neighbouring cell and a change of the trial-data state
example : OnDec (⟨0, 1, 0, 9⟩ : PGrid ℚ) := ⟨0, 1, by simp, by simp⟩
example : ∀ c ∈ ([(1, [1/2, 5/2]), (1, [3/4, 5/2]), (2, [3/4, 7/2])] : List (ℤ × List ℚ)), c.2.length = 2 := by
  decide
example : ([1, 2, 4, 8] : List ℤ).Pairwise (· < ·) ∧ (∃ a ∈ ([1, 2, 4, 8] : List ℤ), a ≤ 5) ∧ ∃ a ∈ ([1, 2, 4, 8] : List ℤ), 5 < a := by
  decide
example : irrLower ([1, 2, 4, 8] : List ℤ) 5 = some 4 ∧ irrUpper ([1, 2, 4, 8] : List ℤ) 5 = some 8 ∧
    irrUpper ([1, 2, 4, 8] : List ℤ) 8 = none := by decide
example : broadcast ([7, 8] : List ℤ) [2, 3] = some [7, 7, 8, 8, 8] := by decide
example : lineValue (1 : ℚ) 2 10 20 (3 / 2) = 15 := by norm_num [lineValue, lineB, lineM]
example : parValue (1 : ℚ) 1 0 1 4 (3 / 2) = 9 / 4 ∧ parGrad (1 : ℚ) 1 0 1 4 (3 / 2) = 3 := by
  norm_num [parValue, parGrad, parA, parB]
