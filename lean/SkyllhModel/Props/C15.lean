/-
  Property C15 — grid rounding hits exact grid members; interpolation is exact and consistent.

  Theorems are about `Model/Grid.lean` (the code-shaped model: `np.around` = multiply, `rint`,
  divide; `floatD` rounded to `fd` decimals; `floor`; grid points recomputed from the rounded
  descriptors `lb`, `delta`, `dec`).  Rounding: over ℚ.  Interpolation: over any field / ℝ.
  IEEE doubles enter only through the correspondence check.
-/
import SkyllhModel.Model.Grid
import SkyllhModel.Model.GridObj
import SkyllhModel.Model.GridR7
import SkyllhModel.Generated.C15
import Mathlib.Tactic
import Mathlib.Data.Rat.Floor
import Mathlib.Algebra.Order.Floor.Ring
import Mathlib.Analysis.Calculus.Deriv.Pow
import Mathlib.Analysis.Calculus.Deriv.Mul
import Mathlib.Analysis.Calculus.Deriv.Add

open Grid RoundOps

set_option linter.unusedSectionVars false

namespace C15

/-- the two primitives of `RoundOps` mean "floor" and "integer cast" -/
class LawfulRoundOps (K : Type) [Field K] [LinearOrder K] [IsStrictOrderedRing K] [FloorRing K]
    [RoundOps K] : Prop where
  floorI_eq : ∀ x : K, (RoundOps.floorI x : ℤ) = ⌊x⌋
  ofI_eq : ∀ n : ℤ, (RoundOps.ofI n : K) = (n : K)

instance : LawfulRoundOps ℚ := ⟨fun _ => rfl, fun _ => rfl⟩

end C15

/-- the reals as a scalar of the model (for the derivative statements) -/
noncomputable instance : RoundOps ℝ := ⟨Int.floor, fun n => (n : ℝ)⟩

instance : C15.LawfulRoundOps ℝ := ⟨fun _ => rfl, fun _ => rfl⟩

namespace C15

variable {K : Type} [Field K] [LinearOrder K] [IsStrictOrderedRing K] [FloorRing K] [RoundOps K]
  [LawfulRoundOps K]

/-! ### the primitives on K -/

@[simp] theorem floorI_eq (q : K) : (floorI q : ℤ) = ⌊q⌋ := LawfulRoundOps.floorI_eq q
@[simp] theorem ofI_eq (n : ℤ) : (ofI n : K) = (n : K) := LawfulRoundOps.ofI_eq n

theorem half_eq : (half : K) = 1 / 2 := by simp [half]

theorem p10_eq (d : ℕ) : (p10 d : K) = 10 ^ d := by simp [p10]

theorem p10_pos (d : ℕ) : (0 : K) < 10 ^ d := by positivity

/-- the three cases of `rint` -/
theorem rintI_cases (x : K) :
    (x - ⌊x⌋ < 1 / 2 ∧ rintI x = ⌊x⌋) ∨ (1 / 2 < x - ⌊x⌋ ∧ rintI x = ⌊x⌋ + 1) ∨
      (x - ⌊x⌋ = 1 / 2 ∧ (rintI x = ⌊x⌋ ∨ rintI x = ⌊x⌋ + 1)) := by
  unfold rintI
  simp only [floorI_eq, ofI_eq, half_eq]
  by_cases h1 : x - ⌊x⌋ < 1 / 2
  · left; exact ⟨h1, by rw [if_pos h1]⟩
  · by_cases h2 : 1 / 2 < x - ⌊x⌋
    · right; left; exact ⟨h2, by rw [if_neg h1, if_pos h2]⟩
    · right; right
      refine ⟨le_antisymm (not_lt.mp h2) (not_lt.mp h1), ?_⟩
      rw [if_neg h1, if_neg h2]
      by_cases h3 : ⌊x⌋ % 2 = 0
      · left; simp [h3]
      · right; simp [h3]

/-- `rint` is within 1/2 -/
theorem rintI_spec (x : K) : |x - (rintI x : K)| ≤ 1 / 2 := by
  have h1 := Int.floor_le x
  have h2 := Int.lt_floor_add_one x
  rw [abs_le]
  rcases rintI_cases x with ⟨h, e⟩ | ⟨h, e⟩ | ⟨h, e | e⟩ <;> rw [e] <;> push_cast <;>
    constructor <;> linarith

theorem rintI_mem (x : K) : rintI x = ⌊x⌋ ∨ rintI x = ⌊x⌋ + 1 := by
  rcases rintI_cases x with ⟨_, e⟩ | ⟨_, e⟩ | ⟨_, e | e⟩ <;> simp [e]

theorem rintI_intCast (n : ℤ) : rintI (n : K) = n := by
  rcases rintI_cases (n : K) with ⟨_, e⟩ | ⟨h, _⟩ | ⟨h, _⟩
  · rw [e, Int.floor_intCast]
  · rw [Int.floor_intCast, sub_self] at h; norm_num at h
  · rw [Int.floor_intCast, sub_self] at h; norm_num at h

/-- `rint` does not cross an integer above … -/
theorem rintI_le_of_le (x : K) (M : ℤ) (h : x ≤ M) : rintI x ≤ M := by
  rcases lt_or_eq_of_le h with h | h
  · have : ⌊x⌋ < M := Int.floor_lt.mpr h
    rcases rintI_mem x with e | e <;> omega
  · rw [h, rintI_intCast]

/-- … or below -/
theorem le_rintI_of_le (x : K) (M : ℤ) (h : (M : K) ≤ x) : M ≤ rintI x := by
  have : M ≤ ⌊x⌋ := Int.le_floor.mpr h
  rcases rintI_mem x with e | e <;> omega

/-- the integer within less than 1/2 is the result of `rint` -/
theorem rintI_unique (x : K) (k : ℤ) (h : |x - k| < 1 / 2) : rintI x = k := by
  have h1 := rintI_spec x
  have : |((rintI x : ℤ) : K) - k| < 1 := by
    rw [abs_le] at h1
    rw [abs_lt] at h ⊢
    constructor <;> linarith [h.1, h.2, h1.1, h1.2]
  have : |rintI x - k| < 1 := by exact_mod_cast this
  have := Int.abs_lt_one_iff.mp this
  omega

/-- exact ties go to the even neighbour (half-even, as `numpy.rint`) -/
theorem rintI_tie (x : K) (h : x - ⌊x⌋ = 1 / 2) :
    rintI x = if ⌊x⌋ % 2 = 0 then ⌊x⌋ else ⌊x⌋ + 1 := by
  unfold rintI
  simp only [floorI_eq, ofI_eq, half_eq]
  rw [if_neg (by rw [h]; exact lt_irrefl _), if_neg (by rw [h]; exact lt_irrefl _)]

/-- over an ordered field the sign-of-zero bookkeeping of `rint` disappears -/
theorem rint_eq (x : K) : rint x = (rintI x : K) := by
  unfold rint
  simp only [ofI_eq]
  split_ifs with h
  · rw [h]; simp
  · rfl

theorem aroundDec_eq (d : ℕ) (x : K) : aroundDec d x = (rintI (x * 10 ^ d) : K) / 10 ^ d := by
  simp [aroundDec, rint_eq, p10_eq]

/-- decimal rounding moves a number by at most half a unit of the last decimal -/
theorem aroundDec_err (d : ℕ) (x : K) : |aroundDec d x - x| ≤ 1 / (2 * 10 ^ d) := by
  rw [aroundDec_eq]
  have hp := p10_pos (K := K) d
  have h := rintI_spec (x * 10 ^ d)
  have e : (rintI (x * 10 ^ d) : K) / 10 ^ d - x = -(x * 10 ^ d - rintI (x * 10 ^ d)) / 10 ^ d := by
    field_simp
    ring
  rw [e, abs_div, abs_neg, abs_of_pos hp, div_le_iff₀ hp]
  calc |x * 10 ^ d - ↑(rintI (x * 10 ^ d))| ≤ 1 / 2 := h
    _ = 1 / (2 * 10 ^ d) * 10 ^ d := by field_simp

/-- numbers with at most `d` decimals are fixed points -/
theorem aroundDec_lattice (d : ℕ) (n : ℤ) : aroundDec d ((n : K) / 10 ^ d) = (n : K) / 10 ^ d := by
  rw [aroundDec_eq]
  have hp := (p10_pos (K := K) d).ne'
  rw [div_mul_cancel₀ _ hp, rintI_intCast]

theorem aroundDec_intCast (d : ℕ) (k : ℤ) : aroundDec d (k : K) = k := by
  have hp := (p10_pos (K := K) d).ne'
  have : (k : K) = ((k * 10 ^ d : ℤ) : K) / 10 ^ d := by push_cast; field_simp
  rw [this, aroundDec_lattice]

/-! ### grids whose descriptors have at most `dec` decimals (what `__init__` produces) -/

/-- `lb` and `delta` are multiples of `10^-dec` -/
def OnDec (G : PGrid K) : Prop := ∃ a b : ℤ, G.lb = a / 10 ^ G.dec ∧ G.delta = b / 10 ^ G.dec

theorem mkGrid_onDec (g0 delta : K) (dec fd : ℕ) : OnDec (mkGrid g0 delta dec fd) :=
  ⟨rintI (g0 * 10 ^ dec), rintI (delta * 10 ^ dec), by simp [mkGrid, aroundDec_eq], by simp [mkGrid, aroundDec_eq]⟩

/-- on such a grid the final `np.around(gp, decimals)` does nothing: `gp k = lb + k*delta` -/
theorem gp_exact (G : PGrid K) (h : OnDec G) (k : ℤ) : gp G k = G.lb + k * G.delta := by
  obtain ⟨a, b, ha, hb⟩ := h
  have hp := (p10_pos (K := K) G.dec).ne'
  unfold gp gpF
  rw [ofI_eq, ha, hb]
  have : (a : K) / 10 ^ G.dec + k * (b / 10 ^ G.dec) = ((a + k * b : ℤ) : K) / 10 ^ G.dec := by
    push_cast; field_simp
  rw [this, aroundDec_lattice]

/-- the exact number of spacings of `v` above the lower bound -/
def q (G : PGrid K) (v : K) : K := (v - G.lb) / G.delta

/-- the slack introduced by rounding `floatD` to `fd` decimals -/
def slack (G : PGrid K) : K := 1 / (2 * 10 ^ G.fd)

theorem slack_pos (G : PGrid K) : 0 < slack G := by unfold slack; positivity

theorem floatD_err (G : PGrid K) (v : K) : |floatD G v - q G v| ≤ slack G := aroundDec_err _ _

theorem v_eq (G : PGrid K) (hd : G.delta ≠ 0) (v : K) : v = G.lb + q G v * G.delta := by
  unfold q; field_simp; ring

/-- `floatD` is a multiple of `10^-fd`, hence at least `10^-fd` below the next integer -/
theorem floatD_add_le_floor_succ (G : PGrid K) (v : K) :
    floatD G v + 1 / 10 ^ G.fd ≤ (⌊floatD G v⌋ + 1 : ℤ) := by
  have hp := p10_pos (K := K) G.fd
  have hlt := Int.lt_floor_add_one (floatD G v)
  set Kz : ℤ := ⌊floatD G v⌋ + 1 with hK
  have hf : floatD G v = (rintI (q G v * 10 ^ G.fd) : K) / 10 ^ G.fd := by
    unfold floatD q; rw [aroundDec_eq]
  set m : ℤ := rintI (q G v * 10 ^ G.fd) with hm
  have h1 : (m : K) < (Kz * 10 ^ G.fd : ℤ) := by
    push_cast
    have : floatD G v < (Kz : K) := by rw [hK]; push_cast; exact hlt
    rw [hf, div_lt_iff₀ hp] at this
    exact this
  have h2 : m + 1 ≤ Kz * 10 ^ G.fd := by exact_mod_cast h1
  have h3 : ((m + 1 : ℤ) : K) ≤ ((Kz * 10 ^ G.fd : ℤ) : K) := by exact_mod_cast h2
  rw [hf]
  push_cast at h3
  rw [← add_div, div_le_iff₀ hp]
  exact h3

theorem kLower_eq (G : PGrid K) (v : K) : kLower G v = ⌊floatD G v⌋ := floorI_eq _

theorem kUpper_eq (G : PGrid K) (v : K) : kUpper G v = ⌊floatD G v⌋ + 1 := by
  show floorI (floatD G v) + 1 = _
  rw [floorI_eq]

theorem kNearest_eq (G : PGrid K) (v : K) :
    kNearest G v = ⌊floatD G v⌋ + rintI (floatD G v - ⌊floatD G v⌋) := by
  simp [kNearest, intD, mod1, add_comm]

/-- the nearest index is within 1/2 of `floatD` -/
theorem kNearest_err (G : PGrid K) (v : K) : |floatD G v - kNearest G v| ≤ 1 / 2 := by
  rw [kNearest_eq]
  have h := rintI_spec (floatD G v - ⌊floatD G v⌋)
  push_cast
  rwa [← sub_sub]

/-- values within `(1/2 - 10^-fd)` spacings of lattice point `k` get the nearest index `k` -/
theorem kNearest_of_close (G : PGrid K) (v : K) (k : ℤ)
    (h : |q G v - k| ≤ 1 / 2 - 1 / 10 ^ G.fd) : kNearest G v = k := by
  have h1 := kNearest_err G v
  have h2 := floatD_err G v
  have hs : slack G < 1 / 10 ^ G.fd := by
    unfold slack
    have hp := p10_pos (K := K) G.fd
    rw [div_lt_div_iff₀ (by positivity) hp]
    linarith
  have : |((kNearest G v : ℤ) : K) - k| < 1 := by
    rw [abs_le] at h h1 h2
    rw [abs_lt]
    constructor <;> linarith [h.1, h.2, h1.1, h1.2, h2.1, h2.2]
  have : |kNearest G v - k| < 1 := by exact_mod_cast this
  have := Int.abs_lt_one_iff.mp this
  omega

end C15

open C15

section rounding
variable {K : Type} [Field K] [LinearOrder K] [IsStrictOrderedRing K] [FloorRing K] [RoundOps K]
  [LawfulRoundOps K]

/-! ## Rounding to a regular grid (any ordered field with floor whose `RoundOps` mean floor and
cast: ℚ and ℝ) -/

/-- **every rounding result is a grid point `gp k`** for an explicit integer index `k` — the same
function of an integer from which the grid itself is built (`c15_grid_is_gp_range`).  Holds for
every grid and value, no side condition. -/
theorem c15_round_is_gp (G : PGrid K) (v : K) :
    roundLower G v = gp G (kLower G v) ∧ roundUpper G v = gp G (kUpper G v) ∧
      roundNearest G v = gp G (kNearest G v) := by
  refine ⟨rfl, rfl, ?_⟩
  unfold roundNearest gp kNearest
  simp [rint_eq]

/-- **the index is in range**: for a value inside a grid of `N+1` points, lower and nearest index
lie in `0..N`; the upper index too unless the value is within the slack of the last point. -/
theorem c15_index_in_range (G : PGrid K) (hd : 0 < G.delta) (v : K) (N : ℕ)
    (hlo : G.lb ≤ v) (hhi : v ≤ G.lb + N * G.delta) :
    0 ≤ kLower G v ∧ kLower G v ≤ N ∧ 0 ≤ kNearest G v ∧ kNearest G v ≤ N ∧
      (v < G.lb + N * G.delta - slack G * G.delta → kUpper G v ≤ N) := by
  have hq0 : 0 ≤ q G v := by unfold q; apply div_nonneg <;> linarith
  have hqN : q G v ≤ N := by unfold q; rw [div_le_iff₀ hd]; linarith
  have hp := p10_pos (K := K) G.fd
  have hf : floatD G v = (rintI (q G v * 10 ^ G.fd) : K) / 10 ^ G.fd := by
    unfold floatD q; rw [aroundDec_eq]
  have hf0 : 0 ≤ floatD G v := by
    rw [hf]; apply div_nonneg _ hp.le
    have := le_rintI_of_le (q G v * 10 ^ G.fd) 0 (by push_cast; positivity)
    exact_mod_cast this
  have hfN : floatD G v ≤ N := by
    rw [hf, div_le_iff₀ hp]
    have := rintI_le_of_le (q G v * 10 ^ G.fd) (N * 10 ^ G.fd) (by push_cast; nlinarith)
    exact_mod_cast this
  have hk0 : 0 ≤ ⌊floatD G v⌋ := Int.floor_nonneg.mpr hf0
  have hkN : ⌊floatD G v⌋ ≤ N := by
    have := Int.floor_le_floor hfN
    rwa [Int.floor_natCast] at this
  refine ⟨by rw [kLower_eq]; exact hk0, by rw [kLower_eq]; exact hkN, ?_, ?_, ?_⟩
  · rw [kNearest_eq]
    have := le_rintI_of_le (floatD G v - ⌊floatD G v⌋) 0 (by push_cast; linarith [Int.floor_le (floatD G v)])
    omega
  · rw [kNearest_eq]
    have := rintI_le_of_le (floatD G v - ⌊floatD G v⌋) (N - ⌊floatD G v⌋) (by push_cast; linarith)
    omega
  · intro hv
    have hqN' : q G v < N - slack G := by
      unfold q; rw [div_lt_iff₀ hd]; linarith
    have he := floatD_err G v
    rw [abs_le] at he
    have : floatD G v < N := by linarith [he.2]
    have : ⌊floatD G v⌋ < N := by
      rw [Int.floor_lt]; exact_mod_cast this
    rw [kUpper_eq]
    omega

/-- **lower ≤ value**, up to the slack `delta/(2*10^fd)` that rounding `floatD` introduces (a value
that close below a grid point counts as that grid point). -/
theorem c15_lower_le_value (G : PGrid K) (h : OnDec G) (hd : 0 < G.delta) (v : K) :
    roundLower G v ≤ v + slack G * G.delta := by
  rw [(c15_round_is_gp G v).1, gp_exact G h]
  have he := floatD_err G v
  rw [abs_le] at he
  have hfl := Int.floor_le (floatD G v)
  have : ((kLower G v : ℤ) : K) ≤ q G v + slack G := by
    rw [kLower_eq]
    linarith [he.1]
  have hv := v_eq G hd.ne' v
  nlinarith

/-- **value < upper**, strictly and without slack. -/
theorem c15_value_lt_upper (G : PGrid K) (h : OnDec G) (hd : 0 < G.delta) (v : K) :
    v < roundUpper G v := by
  rw [(c15_round_is_gp G v).2.1, gp_exact G h]
  have he := floatD_err G v
  rw [abs_le] at he
  have hm := floatD_add_le_floor_succ G v
  have hs : slack G < 1 / 10 ^ G.fd := by
    unfold slack
    have hp := p10_pos (K := K) G.fd
    rw [div_lt_div_iff₀ (by positivity) hp]
    linarith
  have : q G v < ((kUpper G v : ℤ) : K) := by
    rw [kUpper_eq]
    linarith [he.2]
  have hv := v_eq G hd.ne' v
  nlinarith

/-- **upper = lower + spacing** -/
theorem c15_upper_eq_lower_plus_delta (G : PGrid K) (h : OnDec G) (_hd : 0 < G.delta) (v : K) :
    roundUpper G v = roundLower G v + G.delta := by
  rw [(c15_round_is_gp G v).2.1, (c15_round_is_gp G v).1, gp_exact G h, gp_exact G h]
  unfold kUpper kLower
  push_cast
  ring

/-- **the nearest member is at most half a spacing away** (plus the slack). -/
theorem c15_nearest_within_half (G : PGrid K) (h : OnDec G) (hd : 0 < G.delta) (v : K) :
    |roundNearest G v - v| ≤ (1 / 2 + slack G) * G.delta := by
  rw [(c15_round_is_gp G v).2.2, gp_exact G h]
  have h1 := kNearest_err G v
  have h2 := floatD_err G v
  have hv := v_eq G hd.ne' v
  have e : G.lb + (kNearest G v : K) * G.delta - v = ((kNearest G v : K) - q G v) * G.delta := by
    rw [hv]
    unfold q
    field_simp
    ring
  rw [e, abs_mul, abs_of_pos hd]
  apply mul_le_mul_of_nonneg_right _ hd.le
  rw [abs_le] at h1 h2 ⊢
  constructor <;> linarith [h1.1, h1.2, h2.1, h2.2]

/-- the nearest member is the lower or the upper one -/
theorem c15_nearest_is_lower_or_upper (G : PGrid K) (v : K) :
    roundNearest G v = roundLower G v ∨ roundNearest G v = roundUpper G v := by
  rw [(c15_round_is_gp G v).2.2, (c15_round_is_gp G v).1, (c15_round_is_gp G v).2.1, kNearest_eq]
  unfold kLower kUpper intD
  rcases rintI_mem (floatD G v - ⌊floatD G v⌋) with e | e
  · left
    rw [e]
    simp
  · right
    rw [e]
    simp

/-- **values exactly on a grid point** stay there: lower = nearest = the point, upper = the next. -/
theorem c15_on_grid_fixed (G : PGrid K) (h : OnDec G) (hd : G.delta ≠ 0) (k : ℤ) :
    roundLower G (G.lb + k * G.delta) = G.lb + k * G.delta ∧
    roundNearest G (G.lb + k * G.delta) = G.lb + k * G.delta ∧
    roundUpper G (G.lb + k * G.delta) = G.lb + (k + 1) * G.delta := by
  have hf : floatD G (G.lb + k * G.delta) = k := by
    unfold floatD
    have : (G.lb + k * G.delta - G.lb) / G.delta = k := by
      rw [add_sub_cancel_left, mul_div_cancel_right₀ _ hd]
    rw [this, aroundDec_intCast]
  have hkl : kLower G (G.lb + k * G.delta) = k := by
    rw [kLower_eq, hf, Int.floor_intCast]
  have hkn : kNearest G (G.lb + k * G.delta) = k := by
    rw [kNearest_eq, hf, Int.floor_intCast, sub_self]
    have := rintI_intCast (K := K) 0
    simp only [Int.cast_zero] at this
    rw [this, add_zero]
  have hku : kUpper G (G.lb + k * G.delta) = k + 1 := by
    show kLower G _ + 1 = k + 1
    rw [hkl]
  obtain ⟨e1, e2, e3⟩ := c15_round_is_gp G (G.lb + k * G.delta)
  rw [e1, e2, e3, hkl, hkn, hku, gp_exact G h, gp_exact G h]
  push_cast
  exact ⟨rfl, rfl, rfl⟩

/-- **grid construction**: an input array whose `k`-th entry is within `(1/2 - 10^-fd)` spacings of
`lb + k*delta` is stored as `[gp 0, …, gp (n-1)]` — the very function the rounding methods use. -/
theorem c15_grid_is_gp_range (G : PGrid K) (hd : 0 < G.delta) (arr : List K)
    (hk : ∀ k (hk : k < arr.length),
      |arr[k] - (G.lb + k * G.delta)| ≤ (1 / 2 - 1 / 10 ^ G.fd) * G.delta) :
    buildGrid G arr = (List.range arr.length).map (fun (k : ℕ) => gp G (k : ℤ)) := by
  apply List.ext_getElem
  · simp [buildGrid]
  · intro i h1 h2
    simp only [buildGrid, List.getElem_map, List.getElem_range]
    have hi : i < arr.length := by simpa [buildGrid] using h1
    rw [(c15_round_is_gp G _).2.2]
    congr 1
    apply kNearest_of_close
    have := hk i hi
    have e : q G arr[i] - ((i : ℤ) : K) = (arr[i] - (G.lb + i * G.delta)) / G.delta := by
      unfold q
      field_simp
      push_cast
      ring
    rw [e, abs_div, abs_of_pos hd, div_le_iff₀ hd]
    exact this

/-- **membership**: for a value inside a grid of `n` points built as above, lower and nearest
rounding return (syntactically) a member of the grid list. -/
theorem c15_round_member (G : PGrid K) (hd : 0 < G.delta) (v : K) (n : ℕ) (hn : 0 < n)
    (hlo : G.lb ≤ v) (hhi : v ≤ G.lb + (n - 1 : ℕ) * G.delta) :
    roundLower G v ∈ (List.range n).map (fun (k : ℕ) => gp G (k : ℤ)) ∧
    roundNearest G v ∈ (List.range n).map (fun (k : ℕ) => gp G (k : ℤ)) := by
  obtain ⟨a0, a1, b0, b1, _⟩ := c15_index_in_range G hd v (n - 1) hlo hhi
  obtain ⟨e1, _, e3⟩ := c15_round_is_gp G v
  constructor
  · rw [e1]
    refine List.mem_map.mpr ⟨(kLower G v).toNat, List.mem_range.mpr (by omega), ?_⟩
    congr 1
    omega
  · rw [e3]
    refine List.mem_map.mpr ⟨(kNearest G v).toNat, List.mem_range.mpr (by omega), ?_⟩
    congr 1
    omega

/-- the lower grid point determines the cell, hence the upper grid point (what the cache of the
linear interpolation relies on) -/
theorem c15_lower_determines_upper (G : PGrid K) (h : OnDec G) (hd : 0 < G.delta) (v v' : K)
    (e : roundLower G v = roundLower G v') : roundUpper G v = roundUpper G v' := by
  rw [c15_upper_eq_lower_plus_delta G h hd, c15_upper_eq_lower_plus_delta G h hd, e]

omit [Field K] [LinearOrder K] [IsStrictOrderedRing K] [FloorRing K] [RoundOps K] [LawfulRoundOps K] in
theorem C15.range_map_shift (f : ℕ → K) (n : ℕ) :
    (List.range (n + 2)).map f = f 0 :: (List.range n).map (fun k => f (k + 1)) ++ [f (n + 1)] := by
  rw [List.range_succ, List.map_append, List.range_succ_eq_map, List.map_cons, List.map_map]
  simp [Function.comp_def]

/-- **extension by extra bins**: the extended grid is again `[gp' 0, …, gp' (n+1)]` for the
descriptors with the lower bound moved down by one spacing (which stay on the decimal lattice), so
all rounding theorems apply to the extended grid as well. -/
theorem c15_extra_bins (G : PGrid K) (h : OnDec G) (hd : G.delta ≠ 0) (m : ℕ) :
    OnDec { G with lb := G.lb - G.delta } ∧
    addExtra G ((List.range (m + 1)).map (fun (k : ℕ) => gp G (k : ℤ))) =
      some ({ G with lb := G.lb - G.delta },
        (List.range (m + 3)).map (fun (k : ℕ) => gp { G with lb := G.lb - G.delta } (k : ℤ))) := by
  set G' : PGrid K := { G with lb := G.lb - G.delta } with hG'def
  have hG' : OnDec G' := by
    obtain ⟨x, y, hx, hy⟩ := h
    refine ⟨x - y, y, ?_, hy⟩
    show G.lb - G.delta = _
    rw [hx, hy]; push_cast; ring
  refine ⟨hG', ?_⟩
  have hgp : ∀ k : ℤ, gp G k = G.lb + k * G.delta := gp_exact G h
  have hhead : ((List.range (m + 1)).map (fun (k : ℕ) => gp G (k : ℤ))).head? = some G.lb := by
    rw [List.range_succ_eq_map]; simp [hgp]
  have hlast : ((List.range (m + 1)).map (fun (k : ℕ) => gp G (k : ℤ))).getLast? =
      some (G.lb + m * G.delta) := by
    rw [List.range_succ]; simp [hgp]
  have harr : [G.lb - G.delta] ++ (List.range (m + 1)).map (fun (k : ℕ) => gp G (k : ℤ)) ++
      [G.lb + m * G.delta + G.delta] =
      (List.range (m + 3)).map (fun (k : ℕ) => G'.lb + ((k : ℤ) : K) * G'.delta) := by
    rw [show m + 3 = (m + 1) + 2 from rfl, range_map_shift]
    simp only [List.cons_append, List.cons.injEq]
    refine ⟨by simp [hG'def], ?_⟩
    have : (List.range (m + 1)).map (fun (k : ℕ) => gp G (k : ℤ)) =
        (List.range (m + 1)).map (fun k => G'.lb + (((k + 1 : ℕ) : ℤ) : K) * G'.delta) := by
      apply List.map_congr_left
      intro k _
      simp only [hgp, hG'def]
      push_cast; ring
    rw [this]
    congr 2
    simp only [hG'def]
    push_cast; ring
  unfold addExtra
  rw [hhead, hlast]
  simp only []
  rw [harr]
  congr 2
  unfold buildGrid
  rw [List.map_map]
  apply List.map_congr_left
  intro k _
  have hd' : G'.delta ≠ 0 := hd
  simp only [Function.comp]
  rw [(c15_on_grid_fixed G' hG' hd' k).2.1, gp_exact G' hG']

/-! ### instantiation at the constants of the current source -/

/-- with the current literal in `np.around(floatD, 9)` the slack is `5·10⁻¹⁰` spacings -/
theorem c15_slack_for_current_source (G : PGrid K) (h : G.fd = Gen.C15.floatDDecimals) :
    slack G = 5 / 10 ^ 10 := by
  unfold slack
  rw [h]
  norm_num [Gen.C15.floatDDecimals]

/-- all admitted numbers of decimals keep `10^d` exactly representable in a double (`d ≤ 22`), and
`floatD` keeps at least one decimal (so that "nearest" is within less than a full spacing) -/
theorem c15_decimals_for_current_source :
    Gen.C15.maxDecimals ≤ 22 ∧ 1 ≤ Gen.C15.floatDDecimals := by
  decide

end rounding

-- non-vacuity: a concrete grid (lb = 1.05, delta = 0.1, two decimals) meets the hypotheses
example : OnDec (mkGrid (105 / 100) (1 / 10) 2 9 : PGrid ℚ) := mkGrid_onDec _ _ _ _
example : (0 : ℚ) < (mkGrid (105 / 100) (1 / 10) 2 9 : PGrid ℚ).delta := by
  simp only [mkGrid, aroundDec_eq]
  have : rintI ((1 : ℚ) / 10 * 10 ^ 2) = 10 := by
    have := rintI_intCast (K := ℚ) 10
    norm_num at this ⊢
    exact this
  rw [this]; norm_num

/-! ## Irregular grid (any linear order / ordered field) -/

namespace C15
section irregular
variable {F : Type} [LinearOrder F]

/-- on a strictly increasing list, "element `i` is `≤ v`" is the same as "`i` is below the
`searchsorted(…, side='right')` index" -/
theorem getElem_le_iff (g : List F) (hs : g.Pairwise (· < ·)) (v : F) (i : ℕ) (hi : i < g.length) :
    g[i] ≤ v ↔ i < ssRight g v := by
  induction g generalizing i with
  | nil => simp at hi
  | cons a t ih =>
    rw [List.pairwise_cons] at hs
    obtain ⟨ha, ht⟩ := hs
    unfold ssRight at ih ⊢
    rw [List.countP_cons]
    by_cases hav : a ≤ v
    · cases i with
      | zero => simp [hav]
      | succ j =>
        have := ih ht j (by simpa using hi)
        simp only [List.getElem_cons_succ, hav, decide_true, if_true]
        rw [this]; omega
    · have hz : t.countP (fun e => decide (e ≤ v)) = 0 := by
        rw [List.countP_eq_zero]
        intro e he
        have := ha e he
        simp only [decide_eq_true_eq, not_le]
        exact lt_trans (not_le.mp hav) this
      simp only [hav, decide_false, hz]
      constructor
      · intro h
        exfalso
        cases i with
        | zero => exact hav h
        | succ j =>
          have hj : j < t.length := by simpa using hi
          have hm : t[j] ∈ t := List.getElem_mem hj
          have := ha _ hm
          simp only [List.getElem_cons_succ] at h
          exact hav (le_trans this.le h)
      · intro h; simp at h

theorem sorted_getElem_le (g : List F) (hs : g.Pairwise (· < ·)) (i j : ℕ) (hij : i ≤ j)
    (hj : j < g.length) : g[i]'(lt_of_le_of_lt hij hj) ≤ g[j] := by
  rcases lt_or_eq_of_le hij with h | h
  · exact (List.pairwise_iff_getElem.mp hs i j _ hj h).le
  · subst h; exact le_refl _

theorem ssRight_le_length (g : List F) (v : F) : ssRight g v ≤ g.length := List.countP_le_length

end irregular
end C15

section irregular
variable {F : Type} [LinearOrder F]

/-- **irregular lower**: for a value at or above some grid point the result is the greatest grid
member `≤ value` (and it is a member by construction: it is `grid[idx]`). -/
theorem c15_irregular_lower (g : List F) (hs : g.Pairwise (· < ·)) (v : F) (h0 : ∃ a ∈ g, a ≤ v) :
    ∃ a, irrLower g v = some a ∧ a ∈ g ∧ a ≤ v ∧ ∀ b ∈ g, b ≤ v → b ≤ a := by
  obtain ⟨a0, ha0, ha0v⟩ := h0
  obtain ⟨i0, hi0, rfl⟩ := List.getElem_of_mem ha0
  have hc : i0 < ssRight g v := (C15.getElem_le_iff g hs v i0 hi0).mp ha0v
  have hcl := C15.ssRight_le_length g v
  have hlt : ssRight g v - 1 < g.length := by omega
  refine ⟨g[ssRight g v - 1], ?_, List.getElem_mem _, ?_, ?_⟩
  · unfold irrLower
    have : ssRight g v ≠ 0 := by omega
    simp [this, hlt]
  · exact (C15.getElem_le_iff g hs v _ hlt).mpr (by omega)
  · intro b hb hbv
    obtain ⟨j, hj, rfl⟩ := List.getElem_of_mem hb
    have := (C15.getElem_le_iff g hs v j hj).mp hbv
    exact C15.sorted_getElem_le g hs j _ (by omega) hlt

/-- **irregular upper**: for a value below some grid point the result is the least grid member
`> value`. -/
theorem c15_irregular_upper (g : List F) (hs : g.Pairwise (· < ·)) (v : F) (h0 : ∃ a ∈ g, v < a) :
    ∃ a, irrUpper g v = some a ∧ a ∈ g ∧ v < a ∧ ∀ b ∈ g, v < b → a ≤ b := by
  obtain ⟨a0, ha0, ha0v⟩ := h0
  obtain ⟨i0, hi0, rfl⟩ := List.getElem_of_mem ha0
  have hc : ¬ i0 < ssRight g v := fun h => not_le.mpr ha0v ((C15.getElem_le_iff g hs v i0 hi0).mpr h)
  have hlt : ssRight g v < g.length := by omega
  refine ⟨g[ssRight g v], ?_, List.getElem_mem _, ?_, ?_⟩
  · unfold irrUpper; simp [hlt]
  · exact not_le.mp (fun h => absurd ((C15.getElem_le_iff g hs v _ hlt).mp h) (lt_irrefl _))
  · intro b hb hbv
    obtain ⟨j, hj, rfl⟩ := List.getElem_of_mem hb
    have : ¬ j < ssRight g v := fun h => not_le.mpr hbv ((C15.getElem_le_iff g hs v j hj).mpr h)
    exact C15.sorted_getElem_le g hs _ j (by omega) hj

/-- at or above the last grid point `round_to_upper_grid_point` of the irregular grid has no
answer (`IndexError` in Python) — the error is explicit, not totalised away. -/
theorem c15_irregular_upper_none (g : List F) (v : F) (h : ∀ a ∈ g, a ≤ v) : irrUpper g v = none := by
  unfold irrUpper ssRight
  have : g.countP (fun e => decide (e ≤ v)) = g.length := by
    rw [List.countP_eq_length]
    intro a ha; simpa using h a ha
  simp [this]

/-- every answer of the three irregular rounding functions is a member of the grid list -/
theorem c15_irregular_member [Add F] [Div F] [OfNat F 2] (g : List F) (v a : F)
    (h : irrLower g v = some a ∨ irrUpper g v = some a ∨ irrNearest g v = some a) : a ∈ g := by
  rcases h with h | h | h
  · unfold irrLower at h
    simp only [] at h
    split_ifs at h
    · exact List.mem_of_getLast? h
    · exact List.mem_of_getElem? h
  · exact List.mem_of_getElem? h
  · exact List.mem_of_getElem? h

end irregular

/-! ### nearest member of the irregular grid (ordered field) -/

namespace C15

/-- `countP` on a list on which the predicate can only switch from true to false: element `i`
satisfies it iff `i` is below the count -/
theorem getElem_iff_lt_countP {α : Type} (p : α → Bool) (l : List α)
    (hmono : l.Pairwise (fun a b => p b = true → p a = true)) (i : ℕ) (hi : i < l.length) :
    p l[i] = true ↔ i < l.countP p := by
  induction l generalizing i with
  | nil => simp at hi
  | cons a t ih =>
    rw [List.pairwise_cons] at hmono
    obtain ⟨ha, ht⟩ := hmono
    rw [List.countP_cons]
    by_cases hpa : p a = true
    · cases i with
      | zero => simp [hpa]
      | succ j =>
        have := ih ht j (by simpa using hi)
        simp only [List.getElem_cons_succ, hpa, if_true]
        rw [this]; omega
    · have hz : t.countP p = 0 := by
        rw [List.countP_eq_zero]
        intro e he hpe
        exact hpa (ha e he hpe)
      simp only [hpa, hz]
      constructor
      · intro h
        exfalso
        cases i with
        | zero => exact hpa h
        | succ j =>
          have hj : j < t.length := by simpa using hi
          simp only [List.getElem_cons_succ] at h
          exact hpa (ha _ (List.getElem_mem hj) h)
      · intro h; simp at h

end C15

section nearest
variable {F : Type} [Field F] [LinearOrder F] [IsStrictOrderedRing F]

/-- **irregular nearest**: the result is a grid member that is at least as close to the value as
every other member (for a non-empty strictly increasing grid). -/
theorem c15_irregular_nearest (g : List F) (hs : g.Pairwise (· < ·)) (hne : g ≠ []) (v : F) :
    ∃ a, irrNearest g v = some a ∧ a ∈ g ∧ ∀ b ∈ g, |a - v| ≤ |b - v| := by
  have hn : 0 < g.length := List.length_pos_iff.mpr hne
  have hml : (irrMids g).length = g.length - 1 := by simp [irrMids]
  have hmid : ∀ i (hi : i < (irrMids g).length),
      (irrMids g)[i] = (g[i + 1]'(by omega) + g[i]'(by omega)) / 2 := by
    intro i hi
    simp [irrMids, List.getElem_zipWith]
  -- the mid points are non-decreasing, so `< v` can only switch from true to false
  have hmono : (irrMids g).Pairwise (fun a b => decide (b < v) = true → decide (a < v) = true) := by
    rw [List.pairwise_iff_getElem]
    intro i j hi hj hij h
    simp only [decide_eq_true_eq] at h ⊢
    rw [hmid i hi]
    rw [hmid j hj] at h
    have h1 := C15.sorted_getElem_le g hs i j hij.le (by omega)
    have h2 := C15.sorted_getElem_le g hs (i + 1) (j + 1) (by omega) (by omega)
    have : (g[i + 1]'(by omega) + g[i]'(by omega)) / 2 ≤ (g[j + 1]'(by omega) + g[j]'(by omega)) / 2 := by
      apply div_le_div_of_nonneg_right _ (by norm_num : (0 : F) ≤ 2)
      linarith
    exact lt_of_le_of_lt this h
  set c := ssLeft (irrMids g) v with hc
  have hcle : c ≤ g.length - 1 := by rw [← hml]; exact List.countP_le_length
  have hclt : c < g.length := by omega
  have hiff : ∀ i (hi : i < (irrMids g).length), (irrMids g)[i] < v ↔ i < c := by
    intro i hi
    have := C15.getElem_iff_lt_countP (fun e => decide (e < v)) (irrMids g) hmono i hi
    rw [hc]
    unfold ssLeft
    simpa using this
  refine ⟨g[c], by simp [irrNearest, ← hc, hclt], List.getElem_mem _, ?_⟩
  intro b hb
  obtain ⟨j, hj, rfl⟩ := List.getElem_of_mem hb
  rcases lt_trichotomy j c with hjc | hjc | hjc
  · -- members below: the mid point just below `g[c]` is `< v`
    have hc1 : c - 1 < (irrMids g).length := by omega
    have hm := (hiff (c - 1) hc1).mpr (by omega)
    rw [hmid (c - 1) hc1, div_lt_iff₀ (by norm_num : (0 : F) < 2)] at hm
    have e : c - 1 + 1 = c := by omega
    simp only [e] at hm
    have h1 := C15.sorted_getElem_le g hs j (c - 1) (by omega) (by omega)
    have h2 := C15.sorted_getElem_le g hs j c (by omega) hclt
    calc |g[c] - v| ≤ v - g[j] := by rw [abs_le]; constructor <;> linarith
      _ ≤ |g[j] - v| := by rw [← neg_sub]; exact neg_le_abs _
  · subst hjc; exact le_refl _
  · -- members above: the mid point just above `g[c]` is `≥ v`
    have hc1 : c < (irrMids g).length := by omega
    have hm : ¬ (irrMids g)[c] < v := fun h => lt_irrefl c ((hiff c hc1).mp h)
    rw [hmid c hc1, not_lt, le_div_iff₀ (by norm_num : (0 : F) < 2)] at hm
    have h1 := C15.sorted_getElem_le g hs (c + 1) j (by omega) hj
    have h2 := C15.sorted_getElem_le g hs c j (by omega) hj
    calc |g[c] - v| ≤ g[j] - v := by rw [abs_le]; constructor <;> linarith
      _ ≤ |g[j] - v| := le_abs_self _

end nearest

/-! ## Line and parabola (any field; derivative over ℝ) -/

section interp
variable {K : Type} [Field K]

/-- **the line reproduces the manifold at the two grid points** -/
theorem c15_linear_at_grid (x0 x1 M0 M1 : K) (h : x0 ≠ x1) :
    lineValue x0 x1 M0 M1 x0 = M0 ∧ lineValue x0 x1 M0 M1 x1 = M1 := by
  have : x1 - x0 ≠ 0 := sub_ne_zero.mpr (Ne.symm h)
  unfold lineValue lineB lineM
  constructor <;> field_simp <;> ring

/-- **the line is exact for functions of degree ≤ 1**, value and gradient, at every `x` -/
theorem c15_linear_exact_deg1 (x0 x1 c0 c1 x : K) (h : x0 ≠ x1) :
    lineValue x0 x1 (c1 * x0 + c0) (c1 * x1 + c0) x = c1 * x + c0 ∧
      lineGrad x0 x1 (c1 * x0 + c0) (c1 * x1 + c0) = c1 := by
  have : x1 - x0 ≠ 0 := sub_ne_zero.mpr (Ne.symm h)
  unfold lineValue lineGrad lineB lineM
  constructor <;> field_simp <;> ring

variable [NeZero (2 : K)]

/-- **the parabola reproduces the manifold at the three grid points** `x1 - dx`, `x1`, `x1 + dx` -/
theorem c15_parabola_at_grid (x1 dx M0 M1 M2 : K) (h : dx ≠ 0) :
    parValue x1 dx M0 M1 M2 x1 = M1 ∧ parValue x1 dx M0 M1 M2 (x1 - dx) = M0 ∧
      parValue x1 dx M0 M1 M2 (x1 + dx) = M2 := by
  have h2 : (2 : K) ≠ 0 := NeZero.ne 2
  unfold parValue parA parB
  refine ⟨?_, ?_, ?_⟩ <;> field_simp <;> ring

/-- **the parabola is exact for functions of degree ≤ 2**, value and gradient, at every `x` -/
theorem c15_parabola_exact_deg2 (x1 dx c0 c1 c2 x : K) (h : dx ≠ 0) :
    let p : K → K := fun t => c2 * t * t + c1 * t + c0
    parValue x1 dx (p (x1 - dx)) (p x1) (p (x1 + dx)) x = p x ∧
      parGrad x1 dx (p (x1 - dx)) (p x1) (p (x1 + dx)) x = 2 * c2 * x + c1 := by
  have h2 : (2 : K) ≠ 0 := NeZero.ne 2
  intro p
  simp only [p]
  unfold parValue parGrad parA parB
  constructor <;> field_simp <;> ring

end interp

/-- **the reported gradient is the derivative of the reported value** (inside a cell, where the
grid points and manifold values entering the parametrisation are fixed): linear method -/
theorem c15_grad_is_deriv_linear (x0 x1 M0 M1 x : ℝ) :
    HasDerivAt (fun t => lineValue x0 x1 M0 M1 t) (lineGrad x0 x1 M0 M1) x := by
  unfold lineValue lineGrad
  have := ((hasDerivAt_id x).const_mul (lineM x0 x1 M0 M1)).add_const (lineB x0 x1 M0 M1)
  simpa using this

/-- … and parabola method -/
theorem c15_grad_is_deriv_parabola (x1 dx M0 M1 M2 x : ℝ) :
    HasDerivAt (fun t => parValue x1 dx M0 M1 M2 t) (parGrad x1 dx M0 M1 M2 x) x := by
  unfold parValue parGrad
  have ht : HasDerivAt (fun t : ℝ => t - x1) 1 x := (hasDerivAt_id x).sub_const x1
  have h2 : HasDerivAt (fun t : ℝ => (t - x1) * (t - x1)) (1 * (x - x1) + (x - x1) * 1) x := ht.mul ht
  have h3 : HasDerivAt
      (fun t : ℝ => parA dx M0 M1 M2 * ((t - x1) * (t - x1)) + parB dx M0 M2 * (t - x1) + M1)
      (parA dx M0 M1 M2 * (1 * (x - x1) + (x - x1) * 1) + parB dx M0 M2 * 1) x :=
    ((h2.const_mul _).add (ht.const_mul _)).add_const M1
  exact h3.congr_deriv (by ring)

/-- the two statements together, as in the property text -/
theorem c15_grad_is_deriv (x0 x1 dx M0 M1 M2 x : ℝ) :
    HasDerivAt (fun t => lineValue x0 x1 M0 M1 t) (lineGrad x0 x1 M0 M1) x ∧
    HasDerivAt (fun t => parValue x1 dx M0 M1 M2 t) (parGrad x1 dx M0 M1 M2 x) x :=
  ⟨c15_grad_is_deriv_linear x0 x1 M0 M1 x, c15_grad_is_deriv_parabola x1 dx M0 M1 M2 x⟩

/-- rounding and interpolation together: at a grid point `lb + k*delta` the linear method, fed
with the manifold values at the grid points *it computes itself*, returns the manifold value -/
theorem c15_linear_reproduces_grid_point (G : PGrid ℚ) (h : OnDec G) (hd : G.delta ≠ 0) (k : ℤ)
    (f : ℚ → ℚ) :
    let v := G.lb + k * G.delta
    lineValue (roundLower G v) (roundUpper G v) (f (roundLower G v)) (f (roundUpper G v)) v = f v := by
  intro v
  obtain ⟨e1, _, e3⟩ := c15_on_grid_fixed G h hd k
  have hne : roundLower G v ≠ roundUpper G v := by
    show roundLower G (G.lb + k * G.delta) ≠ roundUpper G (G.lb + k * G.delta)
    rw [e1, e3]
    intro hh
    apply hd
    linarith
  have := (c15_linear_at_grid (roundLower G v) (roundUpper G v) (f (roundLower G v)) (f (roundUpper G v)) hne).1
  have e1' : roundLower G v = v := e1
  rw [e1'] at this ⊢
  exact this

/-- the neighbours the parabola method looks up are the neighbouring grid points, and at a grid
point it returns the manifold value -/
theorem c15_parabola_reproduces_grid_point (G : PGrid ℚ) (h : OnDec G) (hd : G.delta ≠ 0) (k : ℤ)
    (f : ℚ → ℚ) :
    let v := G.lb + k * G.delta
    let x1 := roundNearest G v
    roundNearest G (x1 - G.delta) = G.lb + (k - 1) * G.delta ∧
    roundNearest G (x1 + G.delta) = G.lb + (k + 1) * G.delta ∧
    parValue x1 G.delta (f (roundNearest G (x1 - G.delta))) (f x1) (f (roundNearest G (x1 + G.delta))) v
      = f v := by
  intro v x1
  have e2 : x1 = v := (c15_on_grid_fixed G h hd k).2.1
  have em : x1 - G.delta = G.lb + ((k - 1 : ℤ) : ℚ) * G.delta := by rw [e2]; push_cast; ring
  have ep : x1 + G.delta = G.lb + ((k + 1 : ℤ) : ℚ) * G.delta := by rw [e2]; push_cast; ring
  have hm := (c15_on_grid_fixed G h hd (k - 1)).2.1
  have hp := (c15_on_grid_fixed G h hd (k + 1)).2.1
  refine ⟨?_, ?_, ?_⟩
  · rw [em, hm]; push_cast; ring
  · rw [ep, hp]; push_cast; ring
  · have := (c15_parabola_at_grid x1 G.delta (f (roundNearest G (x1 - G.delta))) (f x1)
      (f (roundNearest G (x1 + G.delta))) hd).1
    rw [e2] at this ⊢
    exact this

/-! ## One shared or several per-source parameter values -/

namespace C15

theorem flat_getElem? {F : Type} (xs : List F) (ns : List ℕ) (hlen : xs.length = ns.length)
    (k j : ℕ) (hk : k < xs.length) (hkn : k < ns.length) (hj : j < ns[k]) :
    ((xs.zip ns).flatMap fun p => List.replicate p.2 p.1)[(ns.take k).sum + j]? = some xs[k] := by
  induction xs generalizing ns k with
  | nil => simp at hk
  | cons x xs' ih =>
    cases ns with
    | nil => simp at hkn
    | cons n ns' =>
      simp only [List.zip_cons_cons, List.flatMap_cons]
      cases k with
      | zero =>
        simp only [List.take_zero, List.sum_nil, zero_add, List.getElem_cons_zero] at hj ⊢
        rw [List.getElem?_append_left (by simpa using hj)]
        simp [hj]
      | succ k' =>
        simp only [List.take_succ_cons, List.sum_cons, List.getElem_cons_succ] at hj ⊢
        rw [List.getElem?_append_right (by simp; omega)]
        have e : n + (List.take k' ns').sum + j - (List.replicate n x).length = (List.take k' ns').sum + j := by
          simp; omega
        rw [e]
        exact ih ns' (by simpa using hlen) k' (by simpa using hk) (by simpa using hkn) hj

end C15

/-- **one shared value**: every entry of the values array gets it -/
theorem c15_shared_broadcast {F : Type} (x : F) (ns : List ℕ) :
    broadcast [x] ns = some (List.replicate ns.sum x) := rfl

/-- **several per-source values**: the `j`-th value of source `k` (position `ns[0]+…+ns[k-1]+j`
of the values array) gets source `k`'s parameter value, never another source's -/
theorem c15_per_source_broadcast {F : Type} (xs : List F) (ns : List ℕ) (hlen : xs.length = ns.length)
    (k j : ℕ) (hk : k < xs.length) (hkn : k < ns.length) (hj : j < ns[k]) :
    ∃ l, broadcast xs ns = some l ∧ l[(ns.take k).sum + j]? = some xs[k] := by
  unfold broadcast
  split
  · rename_i x
    refine ⟨_, rfl, ?_⟩
    have hk0 : k = 0 := by simpa using hk
    subst hk0
    have : j < ns.sum := by
      cases ns with
      | nil => simp at hkn
      | cons n t => simp at hj ⊢; omega
    simp [this]
  · rw [if_pos hlen]
    exact ⟨_, rfl, C15.flat_getElem? xs ns hlen k j hk hkn hj⟩

/-! ### value level: the code-shaped `linSpec` / `parSpec` against the spec functions -/

section valuelevel
variable {F : Type} [Add F] [Sub F] [Mul F] [Div F] [LT F] [DecidableLT F] [RoundOps F]
  [OfNat F 1] [OfNat F 2]

namespace C15

omit [Add F] [Mul F] [Div F] [LT F] [DecidableLT F] [RoundOps F] [OfNat F 1] [OfNat F 2] in
theorem zipWith_sub_map (xs : List F) (g : F → F) :
    List.zipWith (· - ·) xs (xs.map g) = xs.map fun x => x - g x := by
  induction xs with
  | nil => rfl
  | cons x t ih => simp [ih]

omit [Add F] [Sub F] [Mul F] [Div F] [LT F] [DecidableLT F] [RoundOps F] [OfNat F 1] [OfNat F 2] in
/-- a number of parameter values that is neither 1 nor the number of sources is rejected -/
theorem broadcast_none (xs : List F) (ns : List ℕ) (h1 : xs.length ≠ 1) (hn : xs.length ≠ ns.length) :
    broadcast xs ns = none := by
  unfold broadcast
  split
  · simp at h1
  · rw [if_neg hn]

omit [Add F] [Sub F] [Mul F] [Div F] [LT F] [DecidableLT F] [RoundOps F] [OfNat F 1] [OfNat F 2] in
theorem broadcast_length (xs : List F) (ns : List ℕ) (l : List F) (h : broadcast xs ns = some l) :
    xs.length = 1 ∨ xs.length = ns.length := by
  by_contra hc
  push Not at hc
  rw [broadcast_none xs ns hc.1 hc.2] at h
  simp at h

/-- value `i` of a fresh linear call, given what the three broadcasts put at position `i` -/
theorem lin_value_at (G : PGrid F) (Mf : Option Int → List F → List F) (ns : List ℕ) (sid : Option Int) (xs : List F)
    (lx l0 l1 : List F) (hbx : broadcast xs ns = some lx)
    (hb0 : broadcast (xs.map (roundLower G)) ns = some l0)
    (hb1 : broadcast (xs.map (roundUpper G)) ns = some l1)
    (hM0 : (Mf sid (xs.map (roundLower G))).length = ns.sum)
    (hM1 : (Mf sid (xs.map (roundUpper G))).length = ns.sum)
    (i : ℕ) (x x0 x1 m0 m1 : F) (ex : lx[i]? = some x) (e0 : l0[i]? = some x0) (e1 : l1[i]? = some x1)
    (h0 : (Mf sid (xs.map (roundLower G)))[i]? = some m0)
    (h1 : (Mf sid (xs.map (roundUpper G)))[i]? = some m1) :
    ∃ vals grads, linSpec G Mf ns sid xs = some (vals, grads) ∧
      vals[i]? = some (lineValue x0 x1 m0 m1 x) ∧ grads[i]? = some (lineGrad x0 x1 m0 m1) := by
  unfold linSpec linCompute
  simp only [hb0, hb1, hM0, hM1, and_self, if_true, Option.bind_some, linEval, hbx]
  refine ⟨_, _, rfl, ?_, ?_⟩
  · simp [List.getElem?_zipWith, h0, h1, e0, e1, ex, lineValue, lineB, lineM]
  · simp [List.getElem?_zipWith, h0, h1, e0, e1, lineGrad, lineM]

/-- value `i` of a fresh parabola call, given what the broadcast of `x - x1` puts at position `i` -/
theorem par_value_at (G : PGrid F) (Mf : Option Int → List F → List F) (ns : List ℕ) (sid : Option Int) (xs : List F)
    (t : List F)
    (hbt : broadcast (List.zipWith (· - ·) xs (xs.map (roundNearest G))) ns = some t)
    (hM0 : (Mf sid ((xs.map (roundNearest G)).map fun t => roundNearest G (t - G.delta))).length = ns.sum)
    (hM1 : (Mf sid (xs.map (roundNearest G))).length = ns.sum)
    (hM2 : (Mf sid ((xs.map (roundNearest G)).map fun t => roundNearest G (t + G.delta))).length = ns.sum)
    (i : ℕ) (x x1 m0 m1 m2 : F) (et : t[i]? = some (x - x1))
    (h0 : (Mf sid ((xs.map (roundNearest G)).map fun t => roundNearest G (t - G.delta)))[i]? = some m0)
    (h1 : (Mf sid (xs.map (roundNearest G)))[i]? = some m1)
    (h2 : (Mf sid ((xs.map (roundNearest G)).map fun t => roundNearest G (t + G.delta)))[i]? = some m2) :
    ∃ vals grads, parSpec G Mf ns sid xs = some (vals, grads) ∧
      vals[i]? = some (parValue x1 G.delta m0 m1 m2 x) ∧
      grads[i]? = some (parGrad x1 G.delta m0 m1 m2 x) := by
  unfold parSpec parCompute
  simp only []
  generalize Mf sid ((xs.map (roundNearest G)).map fun t => roundNearest G (t - G.delta)) = A0 at *
  generalize Mf sid ((xs.map (roundNearest G)).map fun t => roundNearest G (t + G.delta)) = A2 at *
  generalize Mf sid (xs.map (roundNearest G)) = A1 at *
  simp only [hbt, hM0, hM1, hM2, and_self, if_true, Option.map_some, parEval]
  have hz3 : (A0.zip (A1.zip A2))[i]? = some (m0, m1, m2) := by
    rw [List.getElem?_zip_eq_some]
    exact ⟨h0, by rw [List.getElem?_zip_eq_some]; exact ⟨h1, h2⟩⟩
  have hz2 : (A0.zip A2)[i]? = some (m0, m2) := by
    rw [List.getElem?_zip_eq_some]; exact ⟨h0, h2⟩
  refine ⟨_, _, rfl, ?_, ?_⟩
  · simp [List.getElem?_zipWith, hz3, hz2, h1, et, parValue]
  · simp [List.getElem?_zipWith, hz3, hz2, et, parGrad]

omit [Add F] [Sub F] [Mul F] [Div F] [LT F] [DecidableLT F] [RoundOps F] [OfNat F 1] [OfNat F 2] in
theorem shared_getElem? (x : F) (ns : List ℕ) (i : ℕ) (hi : i < ns.sum) :
    ∃ l, broadcast [x] ns = some l ∧ l[i]? = some x :=
  ⟨_, rfl, by simp [hi]⟩

end C15

/-- **per-source values of the linear method**: value and gradient number `i = ns[0]+…+ns[k-1]+j`
of a (fresh) call are the line through source `k`'s own lower and upper grid point, evaluated at
source `k`'s own parameter value — no other source's parameter enters. -/
theorem c15_per_source_linear (G : PGrid F) (Mf : Option Int → List F → List F) (ns : List ℕ) (sid : Option Int)
    (xs : List F) (hlen : xs.length = ns.length) (k j : ℕ) (hk : k < xs.length) (hkn : k < ns.length)
    (hj : j < ns[k]) (m0 m1 : F)
    (hM0 : (Mf sid (xs.map (roundLower G))).length = ns.sum)
    (hM1 : (Mf sid (xs.map (roundUpper G))).length = ns.sum)
    (h0 : (Mf sid (xs.map (roundLower G)))[(ns.take k).sum + j]? = some m0)
    (h1 : (Mf sid (xs.map (roundUpper G)))[(ns.take k).sum + j]? = some m1) :
    ∃ vals grads, linSpec G Mf ns sid xs = some (vals, grads) ∧
      vals[(ns.take k).sum + j]? =
        some (lineValue (roundLower G xs[k]) (roundUpper G xs[k]) m0 m1 xs[k]) ∧
      grads[(ns.take k).sum + j]? = some (lineGrad (roundLower G xs[k]) (roundUpper G xs[k]) m0 m1) := by
  obtain ⟨lx, hlx, ex⟩ := c15_per_source_broadcast xs ns hlen k j hk hkn hj
  obtain ⟨l0, hl0, e0⟩ := c15_per_source_broadcast (xs.map (roundLower G)) ns (by simpa using hlen) k j
    (by simpa using hk) hkn hj
  obtain ⟨l1, hl1, e1⟩ := c15_per_source_broadcast (xs.map (roundUpper G)) ns (by simpa using hlen) k j
    (by simpa using hk) hkn hj
  simp only [List.getElem_map] at e0 e1
  exact C15.lin_value_at G Mf ns sid xs lx l0 l1 hlx hl0 hl1 hM0 hM1 _ _ _ _ m0 m1 ex e0 e1 h0 h1

/-- **one shared value, linear method**: every value `i` is the line through the shared value's
grid points, evaluated at the shared value. -/
theorem c15_shared_linear (G : PGrid F) (Mf : Option Int → List F → List F) (ns : List ℕ) (sid : Option Int)
    (x : F) (i : ℕ) (hi : i < ns.sum) (m0 m1 : F)
    (hM0 : (Mf sid [roundLower G x]).length = ns.sum) (hM1 : (Mf sid [roundUpper G x]).length = ns.sum)
    (h0 : (Mf sid [roundLower G x])[i]? = some m0) (h1 : (Mf sid [roundUpper G x])[i]? = some m1) :
    ∃ vals grads, linSpec G Mf ns sid [x] = some (vals, grads) ∧
      vals[i]? = some (lineValue (roundLower G x) (roundUpper G x) m0 m1 x) ∧
      grads[i]? = some (lineGrad (roundLower G x) (roundUpper G x) m0 m1) := by
  obtain ⟨lx, hlx, ex⟩ := C15.shared_getElem? x ns i hi
  obtain ⟨l0, hl0, e0⟩ := C15.shared_getElem? (roundLower G x) ns i hi
  obtain ⟨l1, hl1, e1⟩ := C15.shared_getElem? (roundUpper G x) ns i hi
  exact C15.lin_value_at G Mf ns sid [x] lx l0 l1 hlx hl0 hl1 hM0 hM1 _ _ _ _ m0 m1 ex e0 e1 h0 h1

/-- **per-source values of the parabola method**: the tie between the code-shaped
`parCompute`/`parEval`/`parSpec` and the spec functions `parValue`/`parGrad`: value `i` of source
`k` is the parabola through the manifold values at source `k`'s own three grid points, at source
`k`'s own parameter value. -/
theorem c15_per_source_parabola (G : PGrid F) (Mf : Option Int → List F → List F) (ns : List ℕ) (sid : Option Int)
    (xs : List F) (hlen : xs.length = ns.length) (k j : ℕ) (hk : k < xs.length) (hkn : k < ns.length)
    (hj : j < ns[k]) (m0 m1 m2 : F)
    (hM0 : (Mf sid ((xs.map (roundNearest G)).map fun t => roundNearest G (t - G.delta))).length = ns.sum)
    (hM1 : (Mf sid (xs.map (roundNearest G))).length = ns.sum)
    (hM2 : (Mf sid ((xs.map (roundNearest G)).map fun t => roundNearest G (t + G.delta))).length = ns.sum)
    (h0 : (Mf sid ((xs.map (roundNearest G)).map fun t => roundNearest G (t - G.delta)))[(ns.take k).sum + j]? = some m0)
    (h1 : (Mf sid (xs.map (roundNearest G)))[(ns.take k).sum + j]? = some m1)
    (h2 : (Mf sid ((xs.map (roundNearest G)).map fun t => roundNearest G (t + G.delta)))[(ns.take k).sum + j]? = some m2) :
    ∃ vals grads, parSpec G Mf ns sid xs = some (vals, grads) ∧
      vals[(ns.take k).sum + j]? = some (parValue (roundNearest G xs[k]) G.delta m0 m1 m2 xs[k]) ∧
      grads[(ns.take k).sum + j]? = some (parGrad (roundNearest G xs[k]) G.delta m0 m1 m2 xs[k]) := by
  obtain ⟨t, ht, et⟩ := c15_per_source_broadcast (xs.map fun x => x - roundNearest G x) ns
    (by simpa using hlen) k j (by simpa using hk) hkn hj
  simp only [List.getElem_map] at et
  rw [← C15.zipWith_sub_map] at ht
  exact C15.par_value_at G Mf ns sid xs t ht hM0 hM1 hM2 _ _ _ m0 m1 m2 et h0 h1 h2

/-- **one shared value, parabola method** -/
theorem c15_shared_parabola (G : PGrid F) (Mf : Option Int → List F → List F) (ns : List ℕ) (sid : Option Int)
    (x : F) (i : ℕ) (hi : i < ns.sum) (m0 m1 m2 : F)
    (hM0 : (Mf sid [roundNearest G (roundNearest G x - G.delta)]).length = ns.sum)
    (hM1 : (Mf sid [roundNearest G x]).length = ns.sum)
    (hM2 : (Mf sid [roundNearest G (roundNearest G x + G.delta)]).length = ns.sum)
    (h0 : (Mf sid [roundNearest G (roundNearest G x - G.delta)])[i]? = some m0)
    (h1 : (Mf sid [roundNearest G x])[i]? = some m1)
    (h2 : (Mf sid [roundNearest G (roundNearest G x + G.delta)])[i]? = some m2) :
    ∃ vals grads, parSpec G Mf ns sid [x] = some (vals, grads) ∧
      vals[i]? = some (parValue (roundNearest G x) G.delta m0 m1 m2 x) ∧
      grads[i]? = some (parGrad (roundNearest G x) G.delta m0 m1 m2 x) := by
  obtain ⟨t, ht, et⟩ := C15.shared_getElem? (x - roundNearest G x) ns i hi
  exact C15.par_value_at G Mf ns sid [x] t ht hM0 hM1 hM2 _ _ _ m0 m1 m2 et h0 h1 h2

/-- **a wrong number of parameter values** (neither one nor one per source) makes both methods
raise (`none`), and the parabola call leaves its cache exactly as it was. -/
theorem c15_wrong_length_raises [BEq F] (G : PGrid F) (Mf : Option Int → List F → List F) (ns : List ℕ)
    (sid : Option Int) (xs : List F) (h1 : xs.length ≠ 1) (hn : xs.length ≠ ns.length)
    (cache : Option (ParCache F)) :
    linSpec G Mf ns sid xs = none ∧ parSpec G Mf ns sid xs = none ∧
      parCall G Mf ns cache sid xs = (cache, none) := by
  have hb : broadcast (List.zipWith (· - ·) xs (xs.map (roundNearest G))) ns = none :=
    C15.broadcast_none _ ns (by simpa using h1) (by simpa using hn)
  have hb0 : broadcast (xs.map (roundLower G)) ns = none :=
    C15.broadcast_none _ ns (by simpa using h1) (by simpa using hn)
  refine ⟨?_, ?_, ?_⟩
  · unfold linSpec linCompute; simp [hb0]
  · unfold parSpec; simp [hb]
  · unfold parCall; simp [hb]

end valuelevel

/-! ## The caches: a used interpolation object answers like a fresh one -/

section cache
variable {F : Type} [Add F] [Sub F] [Mul F] [Div F] [LT F] [DecidableLT F] [RoundOps F]
  [OfNat F 1] [OfNat F 2] [BEq F] [LawfulBEq F]

namespace C15

/-- cache invariant of the linear method: the content is what a computation for the stored
trial-data state and *some* parameter values produced -/
def LinOK (G : PGrid F) (Mf : Option Int → List F → List F) (ns : List Nat) : Option (LinCache F) → Prop
  | none => True
  | some c => ∃ xs', linCompute G Mf ns c.sid xs' = some c

omit [OfNat F 1] [OfNat F 2] [BEq F] [LawfulBEq F] in
theorem linCompute_x0 (G : PGrid F) (Mf : Option Int → List F → List F) (ns : List Nat) (sid : Option Int)
    (xs : List F) (c : LinCache F) (h : linCompute G Mf ns sid xs = some c) :
    c.sid = sid ∧ c.x0 = xs.map (roundLower G) := by
  unfold linCompute at h
  simp only [] at h
  split at h
  · split_ifs at h
    simp only [Option.some.injEq] at h
    subst h
    exact ⟨rfl, rfl⟩
  · simp at h

omit [OfNat F 1] [OfNat F 2] [BEq F] [LawfulBEq F] in
/-- a cache hit returns exactly what the recomputation would give, provided the lower grid point
determines the upper one -/
theorem linCompute_hit (G : PGrid F) (Mf : Option Int → List F → List F) (ns : List Nat)
    (hinj : ∀ v v', roundLower G v = roundLower G v' → roundUpper G v = roundUpper G v')
    (c : LinCache F) (xs' xs : List F) (hc : linCompute G Mf ns c.sid xs' = some c)
    (hx0 : c.x0 = xs.map (roundLower G)) : linCompute G Mf ns c.sid xs = some c := by
  have h0 := (linCompute_x0 G Mf ns c.sid xs' c hc).2
  have hl : xs'.map (roundLower G) = xs.map (roundLower G) := by rw [← h0, hx0]
  have hu : xs'.map (roundUpper G) = xs.map (roundUpper G) := by
    have hlen : xs'.length = xs.length := by simpa using congrArg List.length hl
    apply List.ext_getElem (by simpa using hlen)
    intro i h1 h2
    simp only [List.getElem_map]
    apply hinj
    have := congrArg (fun l => l[i]?) hl
    simp only [List.getElem?_map] at this
    have h1' : i < xs'.length := by simpa using h1
    have h2' : i < xs.length := by simpa using h2
    simpa [List.getElem?_eq_getElem h1', List.getElem?_eq_getElem h2'] using this
  unfold linCompute at hc ⊢
  simp only [] at hc ⊢
  rw [← hl, ← hu]
  exact hc

omit [OfNat F 1] [OfNat F 2] in
theorem linCall_spec (G : PGrid F) (Mf : Option Int → List F → List F) (ns : List Nat)
    (hinj : ∀ v v', roundLower G v = roundLower G v' → roundUpper G v = roundUpper G v')
    (cache : Option (LinCache F)) (hok : LinOK G Mf ns cache) (sid : Option Int) (xs : List F) :
    (linCall G Mf ns cache sid xs).2 = linSpec G Mf ns sid xs ∧
      LinOK G Mf ns (linCall G Mf ns cache sid xs).1 := by
  have hfresh : ∀ (cache : Option (LinCache F)), LinOK G Mf ns cache →
      ((match linCompute G Mf ns sid xs with
        | some c' => (some c', linEval c' ns xs)
        | none => (cache, none) : Option (LinCache F) × Option (List F × List F))).2
        = linSpec G Mf ns sid xs ∧
      LinOK G Mf ns ((match linCompute G Mf ns sid xs with
        | some c' => (some c', linEval c' ns xs)
        | none => (cache, none) : Option (LinCache F) × Option (List F × List F))).1 := by
    intro cache hok
    unfold linSpec
    cases hcomp : linCompute G Mf ns sid xs with
    | none => exact ⟨rfl, hok⟩
    | some c' =>
      refine ⟨rfl, ?_⟩
      have := (linCompute_x0 G Mf ns sid xs c' hcomp).1
      exact ⟨xs, by rw [this]; exact hcomp⟩
  unfold linCall
  simp only []
  cases cache with
  | none => exact hfresh none hok
  | some c =>
    simp only []
    split_ifs with hhit
    · obtain ⟨_, hsid, hx0⟩ := hhit
      have hx0' : c.x0 = xs.map (roundLower G) := by simpa using hx0
      obtain ⟨xs', hc⟩ := hok
      have := linCompute_hit G Mf ns hinj c xs' xs hc hx0'
      refine ⟨?_, ⟨xs', hc⟩⟩
      unfold linSpec
      rw [← hsid, this]
      rfl
    · exact hfresh (some c) hok

end C15

omit [OfNat F 1] [OfNat F 2] in
/-- **cache transparency, linear method** (refinement, by induction over the call history): every
call of a used object — any sequence of trial-data states and parameter values — returns what a
fresh object returns, also when calls raise; the invariant is that the cache content is a pure
function of its key.  Needs only that the lower grid point determines the upper one
(`c15_lower_determines_upper`). -/
theorem c15_linear_cache_transparent (G : PGrid F) (Mf : Option Int → List F → List F) (ns : List Nat)
    (hinj : ∀ v v', roundLower G v = roundLower G v' → roundUpper G v = roundUpper G v')
    (calls : List (Option Int × List F)) :
    linRun G Mf ns none calls = calls.map fun c => linSpec G Mf ns c.1 c.2 := by
  suffices h : ∀ cache, C15.LinOK G Mf ns cache →
      linRun G Mf ns cache calls = calls.map fun c => linSpec G Mf ns c.1 c.2 from h none trivial
  induction calls with
  | nil => intro _ _; rfl
  | cons c rest ih =>
    intro cache hok
    obtain ⟨sid, xs⟩ := c
    obtain ⟨h1, h2⟩ := C15.linCall_spec G Mf ns hinj cache hok sid xs
    simp only [linRun, List.map_cons]
    rw [h1, ih _ h2]


/-! ### parabola: the parametrisation is a function of the nearest grid points alone -/

namespace C15

/-- the three coefficient arrays a parabola call uses -/
def coef (c : ParCache F) : List F × List F × List F := (c.M1, c.a, c.b)

omit [LT F] [DecidableLT F] [RoundOps F] [BEq F] [LawfulBEq F] in
theorem parEval_coef (c c' : ParCache F) (t : List F) (h : coef c = coef c') : parEval c t = parEval c' t := by
  unfold coef at h
  simp only [Prod.mk.injEq] at h
  unfold parEval
  rw [h.1, h.2.1, h.2.2]

/-- cache invariant: the content is what a computation for the stored trial-data state and *some*
accepted parameter values produced -/
def ParOK (G : PGrid F) (Mf : Option Int → List F → List F) (ns : List Nat) : Option (ParCache F) → Prop
  | none => True
  | some c => ∃ xs', parCompute G Mf ns c.sid xs' = some c ∧ (xs'.length = 1 ∨ xs'.length = ns.length)

omit [BEq F] [LawfulBEq F] in
theorem parCompute_fields (G : PGrid F) (Mf : Option Int → List F → List F) (ns : List Nat) (sid : Option Int)
    (xs : List F) (c : ParCache F) (h : parCompute G Mf ns sid xs = some c) :
    c.sid = sid ∧ c.x1 = xs.map (roundNearest G) := by
  unfold parCompute at h
  simp only [] at h
  split_ifs at h
  simp only [Option.some.injEq] at h
  subst h
  exact ⟨rfl, rfl⟩

omit [BEq F] [LawfulBEq F] in
/-- equal nearest grid points ⇒ same computation -/
theorem parCompute_congr (G : PGrid F) (Mf : Option Int → List F → List F) (ns : List Nat) (sid : Option Int)
    (xs xs' : List F) (h : xs.map (roundNearest G) = xs'.map (roundNearest G)) :
    parCompute G Mf ns sid xs = parCompute G Mf ns sid xs' := by
  unfold parCompute
  simp only []
  rw [h]

omit [BEq F] [LawfulBEq F] in
/-- one shared value against the same value repeated for every source: the same coefficients,
provided the manifold function treats a single grid value as "the same for all sources" -/
theorem parCompute_shared (G : PGrid F) (Mf : Option Int → List F → List F) (ns : List Nat) (sid : Option Int)
    (hshared : ∀ (sid : Option Int) (x : F), Mf sid [x] = Mf sid (List.replicate ns.length x))
    (xs1 xsN : List F) (y : F) (h1 : xs1.map (roundNearest G) = [y])
    (hN : xsN.map (roundNearest G) = List.replicate ns.length y) :
    (parCompute G Mf ns sid xs1).map coef = (parCompute G Mf ns sid xsN).map coef := by
  unfold parCompute
  simp only []
  rw [h1, hN]
  simp only [List.map_replicate, List.map_cons, List.map_nil, ← hshared]
  split_ifs <;> rfl

omit [Add F] [Sub F] [Mul F] [Div F] [LT F] [DecidableLT F] [RoundOps F] [OfNat F 1] [OfNat F 2] in
theorem all_beq_iff (l : List F) (y : F) : (l.all (· == y)) = true ↔ l = List.replicate l.length y := by
  induction l with
  | nil => simp
  | cons a t ih =>
    simp only [List.all_cons, Bool.and_eq_true, beq_iff_eq, List.length_cons, List.replicate_succ,
      List.cons.injEq]
    rw [ih]

omit [Add F] [Sub F] [Mul F] [Div F] [LT F] [DecidableLT F] [RoundOps F] [OfNat F 1] [OfNat F 2] [LawfulBEq F] in
theorem bcastEq_eq_len (a b : List F) (h : a.length = b.length) : bcastEq a b = some (a == b) := by
  unfold bcastEq; rw [if_pos h]

omit [Add F] [Sub F] [Mul F] [Div F] [LT F] [DecidableLT F] [RoundOps F] [OfNat F 1] [OfNat F 2] [LawfulBEq F] in
theorem bcastEq_left_single (b : List F) (x : F) (h : b.length ≠ 1) :
    bcastEq [x] b = some (b.all (· == x)) := by
  unfold bcastEq
  rw [if_neg (by simpa using fun e => h e.symm)]

omit [Add F] [Sub F] [Mul F] [Div F] [LT F] [DecidableLT F] [RoundOps F] [OfNat F 1] [OfNat F 2] [LawfulBEq F] in
theorem bcastEq_right_single (a : List F) (y : F) (h : a.length ≠ 1) :
    bcastEq a [y] = some (a.all (· == y)) := by
  unfold bcastEq
  rw [if_neg (by simpa using h)]
  split
  · rename_i x _ _
    simp at h
  · rename_i hq
    simp only [List.cons.injEq, and_true] at hq
    rw [hq]
  · rename_i h2
    exact absurd rfl (h2 y)

/-- one parabola call: same answer as a fresh object, invariant kept — for *every* number of
parameter values (a rejected call answers `none` on both sides and keeps the cache). -/
theorem parCall_spec (G : PGrid F) (Mf : Option Int → List F → List F) (ns : List Nat)
    (hshared : ∀ (sid : Option Int) (x : F), Mf sid [x] = Mf sid (List.replicate ns.length x))
    (cache : Option (ParCache F)) (hok : ParOK G Mf ns cache) (sid : Option Int) (xs : List F) :
    (parCall G Mf ns cache sid xs).2 = parSpec G Mf ns sid xs ∧
      ParOK G Mf ns (parCall G Mf ns cache sid xs).1 := by
  unfold parCall parSpec
  simp only []
  cases hb : broadcast (List.zipWith (· - ·) xs (xs.map (roundNearest G))) ns with
  | none => exact ⟨rfl, hok⟩
  | some t =>
    have hxl : xs.length = 1 ∨ xs.length = ns.length := by
      have := broadcast_length _ ns t hb
      simpa using this
    simp only []
    -- the "not cached" branch
    have hfresh : ∀ cache : Option (ParCache F), ParOK G Mf ns cache →
        ((match parCompute G Mf ns sid xs with
          | some c' => (some c', some (parEval c' t))
          | none => (cache, none) : Option (ParCache F) × Option (List F × List F))).2
          = (parCompute G Mf ns sid xs).map (fun c => parEval c t) ∧
        ParOK G Mf ns ((match parCompute G Mf ns sid xs with
          | some c' => (some c', some (parEval c' t))
          | none => (cache, none) : Option (ParCache F) × Option (List F × List F))).1 := by
      intro cache hok
      cases hc : parCompute G Mf ns sid xs with
      | none => exact ⟨rfl, hok⟩
      | some c' =>
        refine ⟨rfl, xs, ?_, hxl⟩
        rw [(parCompute_fields G Mf ns sid xs c' hc).1]; exact hc
    cases cache with
    | none => exact hfresh none hok
    | some c =>
      simp only []
      split_ifs with hsid'
      · obtain ⟨_, hsid⟩ := hsid'
        obtain ⟨xs', hc, hxl'⟩ := hok
        have hcx1 := (parCompute_fields G Mf ns c.sid xs' c hc).2
        rw [hsid] at hc
        -- the answer from the cache equals the fresh answer whenever the cache test says "hit"
        have hhit : (∃ c', parCompute G Mf ns sid xs = some c' ∧ coef c' = coef c) →
            ((some c, some (parEval c t)) : Option (ParCache F) × Option (List F × List F)).2 =
              (parCompute G Mf ns sid xs).map (fun c => parEval c t) ∧
            ParOK G Mf ns (some c) := by
          rintro ⟨c', hc', hco⟩
          refine ⟨?_, xs', by rw [hsid]; exact hc, hxl'⟩
          rw [hc']
          simp only [Option.map_some]
          rw [parEval_coef c c' t hco.symm]
        by_cases hlen : c.x1.length = (xs.map (roundNearest G)).length
        · -- equal lengths: plain equality
          rw [bcastEq_eq_len _ _ hlen]
          by_cases heq : c.x1 = xs.map (roundNearest G)
          · simp only [heq, beq_self_eq_true]
            apply hhit
            refine ⟨c, ?_, rfl⟩
            rw [parCompute_congr G Mf ns sid xs xs' (by rw [← heq, hcx1])]
            exact hc
          · have : (c.x1 == xs.map (roundNearest G)) = false := by
              rw [beq_eq_false_iff_ne]; exact heq
            simp only [this]
            exact hfresh (some c) ⟨xs', by rw [hsid]; exact hc, hxl'⟩
        · -- different lengths: one side has length one (numpy broadcasting)
          have hlx : (xs.map (roundNearest G)).length = xs.length := by simp
          have hlc : c.x1.length = xs'.length := by rw [hcx1]; simp
          rcases hxl' with h1' | hN'
          · -- the cache holds one shared value, the call gives one per source
            have hxN : xs.length = ns.length := by
              rcases hxl with h | h
              · exfalso; apply hlen; rw [hlc, hlx, h1', h]
              · exact h
            obtain ⟨y, hy⟩ : ∃ y, c.x1 = [y] := by
              have : c.x1.length = 1 := by rw [hlc, h1']
              exact List.length_eq_one_iff.mp this
            rw [hy, bcastEq_left_single _ y (fun h => hlen (by rw [hlc, h1', h]))]
            by_cases hall : ((xs.map (roundNearest G)).all (· == y)) = true
            · simp only [hall]
              apply hhit
              have hrep : xs.map (roundNearest G) = List.replicate ns.length y := by
                have := (all_beq_iff _ y).mp hall
                rw [hlx, hxN] at this
                exact this
              have := parCompute_shared G Mf ns sid hshared xs' xs y (by rw [← hcx1, hy]) hrep
              rw [hc] at this
              cases hc' : parCompute G Mf ns sid xs with
              | none => rw [hc'] at this; simp at this
              | some c' =>
                rw [hc'] at this
                simp only [Option.map_some, Option.some.injEq] at this
                exact ⟨c', rfl, this.symm⟩
            · have : ((xs.map (roundNearest G)).all (· == y)) = false := by simpa using hall
              simp only [this]
              exact hfresh (some c) ⟨xs', by rw [hsid]; exact hc, Or.inl h1'⟩
          · -- the cache holds one value per source, the call gives one shared value
            have hx1 : xs.length = 1 := by
              rcases hxl with h | h
              · exact h
              · exfalso; apply hlen; rw [hlc, hlx, hN', h]
            obtain ⟨y, hy⟩ : ∃ y, xs.map (roundNearest G) = [y] := by
              have : (xs.map (roundNearest G)).length = 1 := by rw [hlx, hx1]
              exact List.length_eq_one_iff.mp this
            have hne1 : ¬ c.x1.length = 1 := by
              intro h; apply hlen; rw [h, hlx, hx1]
            rw [hy, bcastEq_right_single c.x1 y hne1]
            by_cases hall : (c.x1.all (· == y)) = true
            · simp only [hall]
              apply hhit
              have hrep : xs'.map (roundNearest G) = List.replicate ns.length y := by
                have := (all_beq_iff _ y).mp hall
                rw [hlc, hN'] at this
                rw [← hcx1]; exact this
              have := parCompute_shared G Mf ns sid hshared xs xs' y hy hrep
              rw [hc] at this
              cases hc' : parCompute G Mf ns sid xs with
              | none => rw [hc'] at this; simp at this
              | some c' =>
                rw [hc'] at this
                simp only [Option.map_some, Option.some.injEq] at this
                exact ⟨c', rfl, this⟩
            · have : (c.x1.all (· == y)) = false := by simpa using hall
              simp only [this]
              exact hfresh (some c) ⟨xs', by rw [hsid]; exact hc, Or.inr hN'⟩
      · exact hfresh (some c) hok

end C15

/-- **cache transparency, parabola method, all histories**: one shared value and one value per
source may alternate (numpy broadcasting in the cache test), calls with a wrong number of values
may be interspersed (they raise on both sides and leave the cache alone — the *fixed* code): a used
object answers like a fresh one.  Assumes that the manifold function treats a single grid value as
"the same value for every source" (`hshared`), which is the documented calling convention. -/
theorem c15_parabola_cache_transparent (G : PGrid F) (Mf : Option Int → List F → List F) (ns : List Nat)
    (hshared : ∀ (sid : Option Int) (x : F), Mf sid [x] = Mf sid (List.replicate ns.length x))
    (calls : List (Option Int × List F)) :
    parRun G Mf ns none calls = calls.map fun c => parSpec G Mf ns c.1 c.2 := by
  suffices h : ∀ cache, C15.ParOK G Mf ns cache →
      parRun G Mf ns cache calls = calls.map fun c => parSpec G Mf ns c.1 c.2 from h none trivial
  induction calls with
  | nil => intro _ _; rfl
  | cons c rest ih =>
    intro cache hok
    obtain ⟨sid, xs⟩ := c
    obtain ⟨h1, h2⟩ := C15.parCall_spec G Mf ns hshared cache hok sid xs
    simp only [parRun, List.map_cons]
    rw [h1, ih _ h2]

end cache

/-! ## The arrays of the manifold function are only read -/

section store
variable {F : Type} [Add F] [Sub F] [Mul F] [Div F] [LT F] [DecidableLT F] [RoundOps F]
  [OfNat F 1] [OfNat F 2] [BEq F]

/-- **the manifold function's arrays survive every history**: when the manifold function hands out
the arrays of its own store (no copies), any history of calls of the linear method — hits, misses,
raising calls — returns the store exactly as it was, and the answers are those of the pure model
run on the look-up function of that store.  (An in-place update of a handed-out array, e.g.
`M2 += M0 - 2.*M1`, is excluded: the code-shaped model builds every result from new arrays.) -/
theorem c15_linear_keeps_manifold_store (G : PGrid F) (ns : List Nat) (st : Store F)
    (cache : Option (LinCache F)) (calls : List (Option Int × List F)) :
    (linRunS G ns st cache calls).1 = st ∧
      (linRunS G ns st cache calls).2 = linRun G st.get ns cache calls := by
  induction calls generalizing cache with
  | nil => exact ⟨rfl, rfl⟩
  | cons c rest ih =>
    obtain ⟨sid, xs⟩ := c
    obtain ⟨h1, h2⟩ := ih (linCall G st.get ns cache sid xs).1
    simp only [linRunS, linCallS, linRun]
    exact ⟨h1, by rw [h2]⟩

/-- the same for the parabola method -/
theorem c15_parabola_keeps_manifold_store (G : PGrid F) (ns : List Nat) (st : Store F)
    (cache : Option (ParCache F)) (calls : List (Option Int × List F)) :
    (parRunS G ns st cache calls).1 = st ∧
      (parRunS G ns st cache calls).2 = parRun G st.get ns cache calls := by
  induction calls generalizing cache with
  | nil => exact ⟨rfl, rfl⟩
  | cons c rest ih =>
    obtain ⟨sid, xs⟩ := c
    obtain ⟨h1, h2⟩ := ih (parCall G st.get ns cache sid xs).1
    simp only [parRunS, parCallS, parRun]
    exact ⟨h1, by rw [h2]⟩

/-- consequence: with a store-backed manifold function a used parabola object answers like a fresh
one on every history (the store-level form of `c15_parabola_cache_transparent`) -/
theorem c15_parabola_store_history [LawfulBEq F] (G : PGrid F) (ns : List Nat) (st : Store F)
    (hshared : ∀ (sid : Option Int) (x : F), st.get sid [x] = st.get sid (List.replicate ns.length x))
    (calls : List (Option Int × List F)) :
    (parRunS G ns st none calls).2 = calls.map fun c => parSpec G st.get ns c.1 c.2 := by
  rw [(c15_parabola_keeps_manifold_store G ns st none calls).2]
  exact c15_parabola_cache_transparent G st.get ns hshared calls

end store

/-! ## The strict clauses of the property text, made visible -/

section strict
open C15

/-- the unit grid `lb = 0, delta = 1, 0 decimals, floatD to 9 decimals` -/
def C15.unitGrid : PGrid ℚ := ⟨0, 1, 0, 9⟩

theorem C15.unitGrid_onDec : OnDec C15.unitGrid := ⟨0, 1, by simp [C15.unitGrid], by simp [C15.unitGrid]⟩

/-- the property text says `lower <= value` without slack … -/
def c15_lower_le_value_statement : Prop :=
  ∀ G : PGrid ℚ, OnDec G → 0 < G.delta → ∀ v, roundLower G v ≤ v

/-- … which is false for the code: a value `10⁻¹⁰` spacings below a grid point is counted as that
grid point (`floatD` is rounded to 9 decimals).  Witness `lb = 0, delta = 1, v = 1 - 10⁻¹⁰`:
`round_to_lower_grid_point` returns 1.  The proved form is `c15_lower_le_value` (slack
`delta/(2·10⁹)`); the behaviour is intended (it makes on-grid values robust against float noise),
so this is recorded as the precise meaning of the clause, not as a defect. -/
theorem c15_lower_le_value_counterexample : ¬ c15_lower_le_value_statement := by
  intro h
  have hG := C15.unitGrid_onDec
  have hd : (0 : ℚ) < C15.unitGrid.delta := by norm_num [C15.unitGrid]
  have := h C15.unitGrid hG hd (1 - 1 / 10 ^ 10)
  have hf : floatD C15.unitGrid (1 - 1 / 10 ^ 10) = 1 := by
    unfold floatD
    rw [aroundDec_eq]
    have : rintI (((1 : ℚ) - 1 / 10 ^ 10 - C15.unitGrid.lb) / C15.unitGrid.delta * 10 ^ C15.unitGrid.fd)
        = 10 ^ 9 := by
      apply rintI_unique
      norm_num [C15.unitGrid, abs_lt]
    rw [this]
    norm_num [C15.unitGrid]
  rw [(c15_round_is_gp _ _).1, gp_exact _ hG, kLower_eq, hf] at this
  norm_num [C15.unitGrid] at this

/-- the property text says "nearest member at most half a spacing away" without slack … -/
def c15_nearest_within_half_statement : Prop :=
  ∀ G : PGrid ℚ, OnDec G → 0 < G.delta → ∀ v, |roundNearest G v - v| ≤ G.delta / 2

/-- … false for the code by the same 9-decimal rounding: `v = 1/2 + 10⁻¹⁰` on the unit grid has
`floatD = 0.5`, the tie goes down to 0, which is `1/2 + 10⁻¹⁰` away.  Proved form:
`c15_nearest_within_half`. -/
theorem c15_nearest_within_half_counterexample : ¬ c15_nearest_within_half_statement := by
  intro h
  have hG := C15.unitGrid_onDec
  have hd : (0 : ℚ) < C15.unitGrid.delta := by norm_num [C15.unitGrid]
  have := h C15.unitGrid hG hd (1 / 2 + 1 / 10 ^ 10)
  have hf : floatD C15.unitGrid (1 / 2 + 1 / 10 ^ 10) = 1 / 2 := by
    unfold floatD
    rw [aroundDec_eq]
    have : rintI (((1 : ℚ) / 2 + 1 / 10 ^ 10 - C15.unitGrid.lb) / C15.unitGrid.delta * 10 ^ C15.unitGrid.fd)
        = 5 * 10 ^ 8 := by
      apply rintI_unique
      norm_num [C15.unitGrid, abs_lt]
    rw [this]
    norm_num [C15.unitGrid]
  have hfl : ⌊(1 / 2 : ℚ)⌋ = 0 := by norm_num
  have hk : kNearest C15.unitGrid (1 / 2 + 1 / 10 ^ 10) = 0 := by
    rw [kNearest_eq, hf, hfl]
    have ht := rintI_tie ((1 : ℚ) / 2 - ((0 : ℤ) : ℚ)) (by norm_num)
    have hfl' : ⌊((1 : ℚ) / 2 - ((0 : ℤ) : ℚ))⌋ = 0 := by norm_num
    rw [hfl'] at ht
    simpa using ht
  rw [(c15_round_is_gp _ _).2.2, gp_exact _ hG, hk] at this
  norm_num [C15.unitGrid, abs_le] at this

end strict

section tie
open C15
variable {K : Type} [Field K] [LinearOrder K] [IsStrictOrderedRing K] [FloorRing K] [RoundOps K]
  [LawfulRoundOps K]

/-- **half-way points go down**: the value exactly in the middle of two grid points is rounded to
the lower one by `round_to_nearest_grid_point` (`rint(0.5) = 0`), as documented for the irregular
grid.  Needs at least one decimal of `floatD`. -/
theorem c15_nearest_tie_goes_down (G : PGrid K) (h : OnDec G) (hd : G.delta ≠ 0) (hfd : 1 ≤ G.fd)
    (k : ℤ) : roundNearest G (G.lb + (k + 1 / 2) * G.delta) = G.lb + k * G.delta := by
  have hp := (p10_pos (K := K) G.fd).ne'
  have hf : floatD G (G.lb + (k + 1 / 2) * G.delta) = k + 1 / 2 := by
    unfold floatD
    have e : (G.lb + ((k : K) + 1 / 2) * G.delta - G.lb) / G.delta = k + 1 / 2 := by
      rw [add_sub_cancel_left, mul_div_cancel_right₀ _ hd]
    rw [e]
    obtain ⟨d', hd'⟩ : ∃ d', G.fd = d' + 1 := ⟨G.fd - 1, by omega⟩
    have : (k : K) + 1 / 2 = (((2 * k + 1) * 5 * 10 ^ d' : ℤ) : K) / 10 ^ G.fd := by
      rw [hd', pow_succ]
      push_cast
      field_simp
      ring
    rw [this, aroundDec_lattice]
  have hfl : ⌊(k : K) + 1 / 2⌋ = k := by
    rw [Int.floor_eq_iff]
    constructor <;> norm_num
  have hk : kNearest G (G.lb + (k + 1 / 2) * G.delta) = k := by
    rw [kNearest_eq, hf, hfl]
    have e : (k : K) + 1 / 2 - k = 1 / 2 := by ring
    rw [e]
    have hfl' : ⌊(1 / 2 : K)⌋ = 0 := by
      rw [Int.floor_eq_iff]; constructor <;> norm_num
    have ht := rintI_tie (1 / 2 : K) (by rw [hfl']; norm_num)
    rw [hfl'] at ht
    rw [ht]
    simp
  rw [(c15_round_is_gp _ _).2.2, hk, gp_exact G h]

/-- **end-to-end membership** for the grid the constructor builds: descriptors from `mkGrid`, grid
list from the `grid` setter.  Lower and nearest rounding of a value inside the grid — and upper
rounding unless the value is within the slack of the last point — return an element *of that
stored list*. -/
theorem c15_round_member_of_built_grid (g0 δ0 : K) (dec fd : ℕ) (arr : List K) (v : K)
    (hd : 0 < (mkGrid g0 δ0 dec fd).delta) (hne : 0 < arr.length)
    (hk : ∀ k (hk : k < arr.length),
      |arr[k] - ((mkGrid g0 δ0 dec fd).lb + k * (mkGrid g0 δ0 dec fd).delta)|
        ≤ (1 / 2 - 1 / 10 ^ fd) * (mkGrid g0 δ0 dec fd).delta)
    (hlo : (mkGrid g0 δ0 dec fd).lb ≤ v)
    (hhi : v ≤ (mkGrid g0 δ0 dec fd).lb + (arr.length - 1 : ℕ) * (mkGrid g0 δ0 dec fd).delta) :
    let G := mkGrid g0 δ0 dec fd
    roundLower G v ∈ buildGrid G arr ∧ roundNearest G v ∈ buildGrid G arr ∧
      (v < G.lb + (arr.length - 1 : ℕ) * G.delta - slack G * G.delta →
        roundUpper G v ∈ buildGrid G arr) := by
  intro G
  have hgrid := c15_grid_is_gp_range G hd arr hk
  rw [hgrid]
  obtain ⟨m1, m2⟩ := c15_round_member G hd v arr.length hne hlo hhi
  refine ⟨m1, m2, ?_⟩
  intro hv
  obtain ⟨a0, _, _, _, hu⟩ := c15_index_in_range G hd v (arr.length - 1) hlo hhi
  have hu' := hu hv
  rw [(c15_round_is_gp G v).2.1]
  have hk0 : 0 ≤ kUpper G v := by
    show 0 ≤ kLower G v + 1
    omega
  refine List.mem_map.mpr ⟨(kUpper G v).toNat, List.mem_range.mpr (by omega), ?_⟩
  congr 1
  omega

/-- the hypothesis of the grid-construction theorems is met by what `__init__` is given in the
standard case: an equidistant array whose first value and spacing have at most `dec` decimals.
Then the descriptors are the given numbers and the stored grid **is** the given array. -/
theorem c15_constructor_grid_exact (a b : ℤ) (dec fd : ℕ) (n : ℕ) :
    let g0 : K := a / 10 ^ dec
    let δ0 : K := b / 10 ^ dec
    let G := mkGrid g0 δ0 dec fd
    let arr := (List.range n).map fun (k : ℕ) => g0 + k * δ0
    b ≠ 0 → G.lb = g0 ∧ G.delta = δ0 ∧ buildGrid G arr = arr ∧
      buildGrid G arr = (List.range n).map fun (k : ℕ) => gp G (k : ℤ) := by
  intro g0 δ0 G arr hb
  have hlb : G.lb = g0 := aroundDec_lattice dec a
  have hdl : G.delta = δ0 := aroundDec_lattice dec b
  have hG : OnDec G := mkGrid_onDec _ _ _ _
  have hd : G.delta ≠ 0 := by
    rw [hdl]
    exact div_ne_zero (by exact_mod_cast hb) (p10_pos (K := K) dec).ne'
  have key : ∀ k : ℕ, roundNearest G (g0 + k * δ0) = g0 + k * δ0 := by
    intro k
    have := (c15_on_grid_fixed G hG hd (k : ℤ)).2.1
    rw [hlb, hdl] at this
    exact_mod_cast this
  refine ⟨hlb, hdl, ?_, ?_⟩
  · show (arr.map (roundNearest G)) = arr
    simp only [arr, List.map_map]
    apply List.map_congr_left
    intro k _
    exact key k
  · show (arr.map (roundNearest G)) = _
    simp only [arr, List.map_map]
    apply List.map_congr_left
    intro k _
    simp only [Function.comp]
    rw [key k, gp_exact G hG, hlb, hdl]
    push_cast
    ring

/-- the linear cache theorem applies to every grid produced by `ParameterGrid.__init__` -/
theorem c15_linear_cache_transparent_rat (G : PGrid ℚ) (h : OnDec G) (hd : 0 < G.delta)
    (Mf : Option ℤ → List ℚ → List ℚ) (ns : List ℕ) (calls : List (Option ℤ × List ℚ)) :
    linRun G Mf ns none calls = calls.map fun c => linSpec G Mf ns c.1 c.2 :=
  c15_linear_cache_transparent G Mf ns (c15_lower_determines_upper G h hd) calls

end tie

/-! ## Gradient = derivative of the value the *code-shaped* call reports (ℝ) -/

section deriv
open C15 Filter Topology

/-- `rint` is locally constant away from the half-integers -/
theorem C15.rintI_eventually_const (y0 : ℝ) (hy : ∀ n : ℤ, y0 ≠ n + 1 / 2) :
    ∀ᶠ y in 𝓝 y0, rintI y = rintI y0 := by
  have h1 := rintI_spec y0
  have hlt : |y0 - (rintI y0 : ℝ)| < 1 / 2 := by
    rcases lt_or_eq_of_le h1 with h | h
    · exact h
    · exfalso
      rcases abs_eq (by norm_num : (0 : ℝ) ≤ 1 / 2) |>.mp h with e | e
      · exact hy (rintI y0) (by linarith)
      · exact hy (rintI y0 - 1) (by push_cast; linarith)
  have hε : 0 < 1 / 2 - |y0 - (rintI y0 : ℝ)| := by linarith
  refine Filter.eventually_of_mem (Metric.ball_mem_nhds y0 hε) ?_
  intro y hyb
  apply rintI_unique
  rw [Metric.mem_ball, Real.dist_eq] at hyb
  calc |y - (rintI y0 : ℝ)| = |(y - y0) + (y0 - rintI y0)| := by ring_nf
    _ ≤ |y - y0| + |y0 - rintI y0| := abs_add_le _ _
    _ < 1 / 2 := by linarith

/-- **the rounding is locally constant inside a cell**: unless `floatD·10^fd` sits exactly on a
half-integer (the points where the 9-decimal rounding of `floatD` switches — in particular the
cell boundaries and the half-way points as the code sees them), all three rounding functions are
constant in a neighbourhood of `x`. -/
theorem c15_rounding_locally_constant (G : PGrid ℝ) (x : ℝ)
    (hx : ∀ n : ℤ, (x - G.lb) / G.delta * 10 ^ G.fd ≠ n + 1 / 2) :
    ∀ᶠ t in 𝓝 x, roundLower G t = roundLower G x ∧ roundUpper G t = roundUpper G x ∧
      roundNearest G t = roundNearest G x := by
  have hcont : ContinuousAt (fun t : ℝ => (t - G.lb) / G.delta * 10 ^ G.fd) x := by
    fun_prop
  have h := hcont.eventually (C15.rintI_eventually_const _ hx)
  filter_upwards [h] with t ht
  have hf : floatD G t = floatD G x := by
    unfold floatD
    rw [aroundDec_eq, aroundDec_eq, ht]
  unfold roundLower roundUpper roundNearest intD
  rw [hf]
  exact ⟨rfl, rfl, rfl⟩

/-- **gradient = derivative, linear method, code-shaped**: for one source with one value the
function `t ↦ linSpec … [t]` (rounding included) coincides near `x` with `(val t, grad t)` and
`val` has derivative `grad x` at `x` — everywhere except at the switching points of the rounding. -/
theorem c15_grad_is_deriv_linear_code (G : PGrid ℝ) (Mf : Option ℤ → List ℝ → List ℝ)
    (hM : ∀ s g, (Mf s g).length = 1) (sid : Option ℤ) (x : ℝ)
    (hx : ∀ n : ℤ, (x - G.lb) / G.delta * 10 ^ G.fd ≠ n + 1 / 2) (hG : OnDec G) (hd : 0 < G.delta) :
    roundLower G x ≠ roundUpper G x ∧
    ∃ val grad : ℝ → ℝ, (∀ᶠ t in 𝓝 x, linSpec G Mf [1] sid [t] = some ([val t], [grad t])) ∧
      HasDerivAt val (grad x) x := by
  refine ⟨by rw [c15_upper_eq_lower_plus_delta G hG hd]; intro h; linarith, ?_⟩
  obtain ⟨m0, h0⟩ := List.length_eq_one_iff.mp (hM sid [roundLower G x])
  obtain ⟨m1, h1⟩ := List.length_eq_one_iff.mp (hM sid [roundUpper G x])
  refine ⟨fun t => lineValue (roundLower G x) (roundUpper G x) m0 m1 t,
    fun _ => lineGrad (roundLower G x) (roundUpper G x) m0 m1, ?_, ?_⟩
  · filter_upwards [c15_rounding_locally_constant G x hx] with t ht
    obtain ⟨e0, e1, _⟩ := ht
    simp [linSpec, linCompute, linEval, broadcast, e0, e1, h0, h1, lineValue, lineB, lineM, lineGrad]
  · exact c15_grad_is_deriv_linear _ _ _ _ x

/-- **gradient = derivative, parabola method, code-shaped** (same form; here `grad` varies with
`t`): catches e.g. a change that evaluates `x - x1` with another `x1` than the one `M1` was looked
up for, which the frozen-cell statement `c15_grad_is_deriv_parabola` cannot see. -/
theorem c15_grad_is_deriv_parabola_code (G : PGrid ℝ) (Mf : Option ℤ → List ℝ → List ℝ)
    (hM : ∀ s g, (Mf s g).length = 1) (sid : Option ℤ) (x : ℝ)
    (hx : ∀ n : ℤ, (x - G.lb) / G.delta * 10 ^ G.fd ≠ n + 1 / 2) :
    ∃ val grad : ℝ → ℝ, (∀ᶠ t in 𝓝 x, parSpec G Mf [1] sid [t] = some ([val t], [grad t])) ∧
      HasDerivAt val (grad x) x := by
  set x1 := roundNearest G x with hx1
  obtain ⟨m0, h0⟩ := List.length_eq_one_iff.mp (hM sid [roundNearest G (x1 - G.delta)])
  obtain ⟨m1, h1⟩ := List.length_eq_one_iff.mp (hM sid [x1])
  obtain ⟨m2, h2⟩ := List.length_eq_one_iff.mp (hM sid [roundNearest G (x1 + G.delta)])
  refine ⟨fun t => parValue x1 G.delta m0 m1 m2 t, fun t => parGrad x1 G.delta m0 m1 m2 t, ?_, ?_⟩
  · filter_upwards [c15_rounding_locally_constant G x hx] with t ht
    obtain ⟨_, _, e⟩ := ht
    rw [← hx1] at e
    simp [parSpec, parCompute, parEval, broadcast, e, h0, h1, h2, parValue, parGrad]
  · exact c15_grad_is_deriv_parabola _ _ _ _ _ x

end deriv

/-! ## non-vacuity of the hypotheses used above -/

section examples
open C15

-- a grid on the decimal lattice with positive spacing (hypotheses `OnDec`, `0 < delta`)
example : OnDec C15.unitGrid ∧ (0 : ℚ) < C15.unitGrid.delta := ⟨C15.unitGrid_onDec, by norm_num [C15.unitGrid]⟩
-- hypothesis of `c15_grid_is_gp_range` / `c15_round_member_of_built_grid`: the array 0,1,2 on the unit grid
example : ∀ k (hk : k < ([0, 1, 2] : List ℚ).length),
    |([0, 1, 2] : List ℚ)[k] - (C15.unitGrid.lb + k * C15.unitGrid.delta)|
      ≤ (1 / 2 - 1 / 10 ^ C15.unitGrid.fd) * C15.unitGrid.delta := by
  intro k hk
  have : k = 0 ∨ k = 1 ∨ k = 2 := by simp at hk; omega
  rcases this with rfl | rfl | rfl <;> norm_num [C15.unitGrid]
-- hypothesis `hinj` of `c15_linear_cache_transparent` is met by every lattice grid
example : ∀ v v', roundLower C15.unitGrid v = roundLower C15.unitGrid v' →
    roundUpper C15.unitGrid v = roundUpper C15.unitGrid v' :=
  c15_lower_determines_upper _ C15.unitGrid_onDec (by norm_num [C15.unitGrid])
-- hypothesis `hx` of the local-constancy / derivative theorems: x = 0.3 on the real unit grid
example : ∀ n : ℤ, ((3 / 10 : ℝ) - 0) / 1 * 10 ^ 9 ≠ n + 1 / 2 := by
  intro n h
  have h2 : ((2 * n + 1 : ℤ) : ℝ) = ((600000000 : ℤ) : ℝ) := by push_cast; linarith
  have := Int.cast_injective h2
  omega
-- hypothesis `hshared` of the parabola cache theorem and the length hypotheses `hM*`: a manifold function
-- that returns one value per source, the grid value of source k (shared value for all)
example : ∀ (sid : Option ℤ) (x : ℚ), (fun (_ : Option ℤ) (g : List ℚ) => List.replicate 2 (g.headD 0)) sid [x] =
    (fun (_ : Option ℤ) (g : List ℚ) => List.replicate 2 (g.headD 0)) sid (List.replicate ([1, 1] : List ℕ).length x) := by
  intro _ _; rfl
example : ([1, 2, 4, 8] : List ℤ).Pairwise (· < ·) ∧ (∃ a ∈ ([1, 2, 4, 8] : List ℤ), a ≤ 5) ∧ ∃ a ∈ ([1, 2, 4, 8] : List ℤ), 5 < a := by
  decide
example : irrLower ([1, 2, 4, 8] : List ℤ) 5 = some 4 ∧ irrUpper ([1, 2, 4, 8] : List ℤ) 5 = some 8 ∧
    irrUpper ([1, 2, 4, 8] : List ℤ) 8 = none := by decide
example : ([1, 2, 4, 8] : List ℚ) ≠ [] := by simp
example : broadcast ([7, 8] : List ℤ) [2, 3] = some [7, 7, 8, 8, 8] := by decide
example : broadcast ([7, 8, 9] : List ℤ) [2, 3] = none := by decide
example : lineValue (1 : ℚ) 2 10 20 (3 / 2) = 15 := by norm_num [lineValue, lineB, lineM]
example : parValue (1 : ℚ) 1 0 1 4 (3 / 2) = 9 / 4 ∧ parGrad (1 : ℚ) 1 0 1 4 (3 / 2) = 3 := by
  norm_num [parValue, parGrad, parA, parB]

end examples

/-! # Deepening round: the glue around the core (`Model/GridObj.lean`) -/

section nostate
variable {F : Type} [Add F] [Sub F] [Mul F] [Div F] [LT F] [DecidableLT F] [RoundOps F]
  [OfNat F 1] [OfNat F 2] [BEq F]

/-- **without a trial-data state id nothing is ever taken from a cache** (`trial_data_state_id is
None`): whatever the cache holds — no invariant needed — both methods answer like a fresh object. -/
theorem c15_no_state_id_never_cached (G : PGrid F) (Mf : Option Int → List F → List F) (ns : List Nat)
    (lc : Option (LinCache F)) (pc : Option (ParCache F)) (xs : List F) :
    (linCall G Mf ns lc none xs).2 = linSpec G Mf ns none xs ∧
      (parCall G Mf ns pc none xs).2 = parSpec G Mf ns none xs := by
  constructor
  · unfold linCall linSpec
    simp only []
    cases lc with
    | none => cases linCompute G Mf ns none xs <;> rfl
    | some c =>
      simp only [Option.isSome_none, Bool.false_eq_true, false_and, if_false]
      cases linCompute G Mf ns none xs <;> rfl
  · unfold parCall parSpec
    simp only []
    cases broadcast (List.zipWith (· - ·) xs (xs.map (roundNearest G))) ns with
    | none => rfl
    | some t =>
      cases pc with
      | none => cases parCompute G Mf ns none xs <;> rfl
      | some c =>
        simp only [Option.isSome_none, Bool.false_eq_true, false_and, if_false]
        cases parCompute G Mf ns none xs <;> rfl

end nostate

/-! ## Irregular grid: constructor check, extension, checked lower rounding, array arguments -/

namespace C15
section irrdeep
variable {F : Type} [LinearOrder F]

theorem strictlyIncreasing_iff (l : List F) : strictlyIncreasing l = true ↔ l.Pairwise (· < ·) := by
  induction l with
  | nil => simp [strictlyIncreasing]
  | cons a t ih =>
    cases t with
    | nil => simp [strictlyIncreasing]
    | cons b t' =>
      simp only [strictlyIncreasing, Bool.and_eq_true, decide_eq_true_eq, ih]
      constructor
      · rintro ⟨hab, ht⟩
        rw [List.pairwise_cons]
        refine ⟨?_, ht⟩
        intro x hx
        rcases List.mem_cons.mp hx with rfl | hx
        · exact hab
        · exact lt_trans hab ((List.pairwise_cons.mp ht).1 x hx)
      · intro h
        rw [List.pairwise_cons] at h
        exact ⟨h.1 b (by simp), h.2⟩

theorem optAll_eq_some {α : Type} (l : List (Option α)) (r : List α) :
    optAll l = some r ↔ l = r.map some := by
  induction l generalizing r with
  | nil => cases r <;> simp [optAll]
  | cons a t ih =>
    cases a with
    | none => cases r <;> simp [optAll]
    | some x =>
      simp only [optAll, Option.map_eq_some_iff]
      constructor
      · rintro ⟨r', hr', rfl⟩
        rw [(ih r').mp hr']; rfl
      · intro h
        cases r with
        | nil => simp at h
        | cons y r' =>
          simp only [List.map_cons, List.cons.injEq, Option.some.injEq] at h
          exact ⟨r', (ih r').mpr h.2, by rw [h.1]⟩

theorem optAll_eq_none {α : Type} (l : List (Option α)) : optAll l = none ↔ none ∈ l := by
  induction l with
  | nil => simp [optAll]
  | cons a t ih =>
    cases a with
    | none => simp [optAll]
    | some x => simp [optAll, ih]

end irrdeep
end C15

section irrdeep
variable {F : Type} [LinearOrder F]

/-- **the constructor establishes sortedness** (the hypothesis of all irregular-grid theorems): an
accepted array is stored as it is and is strictly increasing; any other array is refused. -/
theorem c15_irregular_ctor_sorted (arr : List F) :
    (∀ g, mkIrr arr = some g → g = arr ∧ g.Pairwise (· < ·)) ∧
      (mkIrr arr = none ↔ ¬ arr.Pairwise (· < ·)) := by
  unfold mkIrr
  constructor
  · intro g h
    split_ifs at h with hs
    simp only [Option.some.injEq] at h
    subst h
    exact ⟨rfl, (C15.strictlyIncreasing_iff _).mp hs⟩
  · split_ifs with hs
    · simp [(C15.strictlyIncreasing_iff _).mp hs]
    · simp only [true_iff]
      intro h
      exact hs ((C15.strictlyIncreasing_iff _).mpr h)

/-- **checked lower rounding** (fixed code): no answer exactly when no grid point is `≤ value` —
never the last grid point through a negative index — and otherwise the answer of `irrLower`,
i.e. the greatest member `≤ value` (`c15_irregular_lower`). -/
theorem c15_irregular_lower_checked (g : List F) (hs : g.Pairwise (· < ·)) (v : F) :
    (irrLowerC g v = none ↔ ∀ a ∈ g, v < a) ∧
      ((∃ a ∈ g, a ≤ v) → irrLowerC g v = irrLower g v) := by
  have hcl := C15.ssRight_le_length g v
  constructor
  · unfold irrLowerC
    simp only []
    constructor
    · intro h a ha
      obtain ⟨i, hi, rfl⟩ := List.getElem_of_mem ha
      by_contra hc
      have := (C15.getElem_le_iff g hs v i hi).mp (not_lt.mp hc)
      split_ifs at h with h0
      · omega
      · have hlt : ssRight g v - 1 < g.length := by omega
        simp [hlt] at h
    · intro h
      have h0 : ssRight g v = 0 := by
        unfold ssRight
        rw [List.countP_eq_zero]
        intro a ha
        simpa using h a ha
      rw [if_pos h0]
  · rintro ⟨a, ha, hav⟩
    obtain ⟨i, hi, rfl⟩ := List.getElem_of_mem ha
    have := (C15.getElem_le_iff g hs v i hi).mp hav
    unfold irrLowerC irrLower
    simp only []
    have h0 : ssRight g v ≠ 0 := by omega
    rw [if_neg h0, if_neg h0]

/-- **array arguments are all-or-nothing**: the array forms answer exactly when every element has
an answer, and then element by element with the scalar answers (one value at or above the last
grid point makes `round_to_upper_grid_point` raise for the whole array). -/
theorem c15_irregular_array_all_or_nothing (g vs : List F) :
    (irrUpperArr g vs = none ↔ ∃ v ∈ vs, irrUpper g v = none) ∧
    (irrLowerArr g vs = none ↔ ∃ v ∈ vs, irrLowerC g v = none) ∧
    (∀ r, irrUpperArr g vs = some r → r.map some = vs.map (irrUpper g)) ∧
    (∀ r, irrLowerArr g vs = some r → r.map some = vs.map (irrLowerC g)) := by
  unfold irrUpperArr irrLowerArr
  refine ⟨?_, ?_, ?_, ?_⟩
  · rw [C15.optAll_eq_none]; simp [eq_comm]
  · rw [C15.optAll_eq_none]; simp [eq_comm]
  · intro r h; exact ((C15.optAll_eq_some _ r).mp h).symm
  · intro r h; exact ((C15.optAll_eq_some _ r).mp h).symm

end irrdeep

section irrextra
variable {F : Type} [Field F] [LinearOrder F] [IsStrictOrderedRing F]

/-- **irregular extension by extra bins**: a strictly increasing grid with at least two points is
extended by the mirrored first and last spacing; the result is again strictly increasing, has two
more points and contains every old member — so all irregular rounding theorems apply to it. -/
theorem c15_irregular_extra_bins (g : List F) (hs : g.Pairwise (· < ·)) (h2 : 2 ≤ g.length) :
    ∃ g', irrAddExtra g = some g' ∧ g'.Pairwise (· < ·) ∧ g'.length = g.length + 2 ∧
      ∀ x ∈ g, x ∈ g' := by
  obtain ⟨a, b, rest, rfl⟩ : ∃ a b rest, g = a :: b :: rest := by
    match g, h2 with
    | a :: b :: rest, _ => exact ⟨a, b, rest, rfl⟩
  have hrev : ∃ z y pre, (a :: b :: rest).reverse = z :: y :: pre := by
    have hl : 2 ≤ (a :: b :: rest).reverse.length := by simpa using h2
    match (a :: b :: rest).reverse, hl with
    | z :: y :: pre, _ => exact ⟨z, y, pre, rfl⟩
  obtain ⟨z, y, pre, hr⟩ := hrev
  have hg : a :: b :: rest = pre.reverse ++ [y, z] := by
    have := congrArg List.reverse hr
    simpa using this
  refine ⟨[a - (b - a)] ++ (a :: b :: rest) ++ [z + (z - y)], ?_, ?_, by simp, ?_⟩
  · unfold irrAddExtra; rw [hr]
  · have hab : a < b := (List.pairwise_cons.mp hs).1 b (by simp)
    have hyz : y < z := by
      rw [hg] at hs
      have := (List.pairwise_append.mp hs).2.1
      simpa using this
    have hzmax : ∀ x ∈ a :: b :: rest, x ≤ z := by
      intro x hx
      rw [hg] at hx hs
      rcases List.mem_append.mp hx with hx | hx
      · exact ((List.pairwise_append.mp hs).2.2 x hx z (by simp)).le
      · simp only [List.mem_cons, List.not_mem_nil, or_false] at hx
        rcases hx with rfl | rfl
        · exact hyz.le
        · exact le_refl _
    have hamin : ∀ x ∈ a :: b :: rest, a ≤ x := by
      intro x hx
      rcases List.mem_cons.mp hx with rfl | hx
      · exact le_refl _
      · exact ((List.pairwise_cons.mp hs).1 x hx).le
    rw [List.pairwise_append]
    refine ⟨?_, by simp, ?_⟩
    · rw [List.singleton_append, List.pairwise_cons]
      refine ⟨?_, hs⟩
      intro x hx
      have := hamin x hx
      linarith
    · intro x hx w hw
      simp only [List.mem_singleton] at hw
      subst hw
      rcases List.mem_append.mp hx with hx | hx
      · simp only [List.mem_singleton] at hx
        subst hx
        have := hzmax a (by simp)
        linarith
      · have := hzmax x hx
        linarith
  · intro x hx
    exact List.mem_append_left _ (List.mem_append_right _ hx)

end irrextra

/-! ## `np.arange` / `from_range`, the object history, the Null method -/

section rangeobj
open C15
variable {K : Type} [Field K] [LinearOrder K] [IsStrictOrderedRing K] [FloorRing K] [RoundOps K]
  [LawfulRoundOps K]

theorem C15.ceilI_eq (x : K) : ceilI x = ⌈x⌉ := by
  unfold ceilI
  rw [floorI_eq, Int.floor_neg, neg_neg]

/-- **`from_range` ends at the stop value** (fixed code, exact arithmetic): for `stop = start +
m·delta` the array handed to the constructor has exactly `m+1` points `start + i·delta`, the last
one being `stop`.  (With `np.arange(start, stop+delta, delta)` the count is `ceil` of a double that
can exceed `m+1` by rounding — e.g. 100, 100.01, 0.001 — which no exact-arithmetic statement sees;
the Float model and the correspondence do.) -/
theorem c15_from_range_ends_at_stop (start δ : K) (m : ℕ) (hδ : 0 < δ) :
    (fromRangeArr start (start + m * δ) δ).length = m + 1 ∧
    ∀ i (hi : i < (fromRangeArr start (start + m * δ) δ).length),
      (fromRangeArr start (start + m * δ) δ)[i] = start + i * δ := by
  have hlen : arangeLen start (start + m * δ + δ / ofI 2) δ = m + 1 := by
    unfold arangeLen
    rw [ceilI_eq, ofI_eq]
    have e : (start + m * δ + δ / ((2 : ℤ) : K) - start) / δ = m + 1 / 2 := by
      push_cast
      field_simp
      ring
    rw [e]
    have : ⌈(m : K) + 1 / 2⌉ = m + 1 := by
      rw [Int.ceil_eq_iff]
      constructor <;> push_cast <;> norm_num
    rw [this]
    omega
  unfold fromRangeArr arange
  simp only [hlen, List.length_map, List.length_range, List.getElem_map, List.getElem_range, true_and]
  intro i _
  split_ifs with h0 h1
  · subst h0; simp
  · subst h1; simp
  · rw [ofI_eq]
    simp only [Int.ofNat_eq_natCast, Int.cast_natCast]
    ring

/-- invariant of a `ParameterGrid` object: descriptors on the decimal lattice, positive spacing, and
the stored array is `[gp 0, …, gp m]` for the *current* descriptors -/
def C15.ObjInv (o : PGObj K) : Prop :=
  OnDec o.G ∧ 0 < o.G.delta ∧ ∃ m : ℕ, o.grid = (List.range (m + 1)).map fun (k : ℕ) => gp o.G (k : ℤ)

/-- **the constructor's argument checks**: an accepted call yields descriptors on the decimal
lattice with a *positive* spacing (the two hypotheses of the rounding theorems), stores the nearest
grid points of the given array, and a number of decimals outside `0..maxDec` or a spacing that is
not positive after rounding is refused. -/
theorem c15_object_ctor (arr : List K) (δ0 : K) (dec : ℤ) (fd maxDec : ℕ) :
    (∀ o, PGObj.new arr δ0 dec fd maxDec = some o →
      OnDec o.G ∧ 0 < o.G.delta ∧ o.grid = buildGrid o.G arr ∧ 0 ≤ dec ∧ dec ≤ maxDec) ∧
    ((dec < 0 ∨ (maxDec : ℤ) < dec) → PGObj.new arr δ0 dec fd maxDec = none) := by
  constructor
  · intro o h
    unfold PGObj.new at h
    cases hh : arr.head? with
    | none => rw [hh] at h; simp at h
    | some g0 =>
      rw [hh] at h
      simp only [] at h
      unfold mkGridChecked at h
      by_cases h1 : dec < 0 ∨ (maxDec : ℤ) < dec
      · rw [if_pos h1] at h; simp at h
      · rw [if_neg h1] at h
        simp only [] at h
        by_cases h2 : ofI 0 < (mkGrid g0 δ0 dec.toNat fd).delta
        · rw [if_pos h2] at h
          simp only [Option.some.injEq] at h
          subst h
          refine ⟨mkGrid_onDec _ _ _ _, ?_, rfl, by omega, by omega⟩
          simpa using h2
        · rw [if_neg h2] at h; simp at h
  · intro h
    unfold PGObj.new
    cases arr.head? with
    | none => rfl
    | some g0 =>
      simp only []
      unfold mkGridChecked
      rw [if_pos h]

/-- … and for the standard input (equidistant array, first value and spacing with at most `dec`
decimals) the object satisfies the full invariant -/
theorem c15_object_ctor_inv (a b : ℤ) (dec fd maxDec : ℕ) (m : ℕ) (hb : 0 < b) (hdec : dec ≤ maxDec) :
    ∃ o, PGObj.new ((List.range (m + 1)).map fun (k : ℕ) => (a : K) / 10 ^ dec + k * ((b : K) / 10 ^ dec))
      ((b : K) / 10 ^ dec) dec fd maxDec = some o ∧ ObjInv o := by
  have hp := p10_pos (K := K) dec
  obtain ⟨hlb, hdl, _, hgrid⟩ := c15_constructor_grid_exact (K := K) a b dec fd (m + 1) hb.ne'
  have hdpos : (0 : K) < (mkGrid ((a : K) / 10 ^ dec) ((b : K) / 10 ^ dec) dec fd).delta := by
    rw [hdl]
    exact div_pos (by exact_mod_cast hb) hp
  refine ⟨⟨mkGrid ((a : K) / 10 ^ dec) ((b : K) / 10 ^ dec) dec fd, _⟩, ?_, mkGrid_onDec _ _ _ _, hdpos, m, hgrid⟩
  unfold PGObj.new
  have hh : ((List.range (m + 1)).map fun (k : ℕ) => (a : K) / 10 ^ dec + k * ((b : K) / 10 ^ dec)).head?
      = some ((a : K) / 10 ^ dec) := by
    rw [List.range_succ_eq_map]; simp
  rw [hh]
  simp only []
  unfold mkGridChecked
  rw [if_neg (by push Not; constructor <;> omega)]
  simp only [Int.toNat_natCast]
  rw [if_pos (by simpa using hdpos)]
  rfl

/-- **extension keeps the invariant** -/
theorem c15_object_extra_inv (o : PGObj K) (h : ObjInv o) :
    ∃ o', o.step .extra = some o' ∧ ObjInv o' := by
  obtain ⟨hG, hd, m, hg⟩ := h
  obtain ⟨hG', hadd⟩ := c15_extra_bins o.G hG hd.ne' m
  refine ⟨⟨{ o.G with lb := o.G.lb - o.G.delta },
    (List.range (m + 3)).map fun (k : ℕ) => gp { o.G with lb := o.G.lb - o.G.delta } (k : ℤ)⟩,
    ?_, hG', hd, m + 2, rfl⟩
  unfold PGObj.step
  rw [hg, hadd]
  rfl

/-- **object history, extensions and copies** (refinement over arbitrary histories): after any number of
`add_extra_lower_and_upper_bin` calls and copies the object still satisfies the invariant, so every rounding
theorem (membership, lower/upper/nearest relations) applies to the object as it is *then*. -/
theorem c15_object_history_partial (o : PGObj K) (h : ObjInv o) (ops : List (PGOp K))
    (hops : ∀ op ∈ ops, op = PGOp.extra ∨ op = PGOp.copy) : ObjInv (o.run ops) := by
  induction ops generalizing o with
  | nil => exact h
  | cons op rest ih =>
    have hrest : ∀ op ∈ rest, op = PGOp.extra ∨ op = PGOp.copy := fun op hop => hops op (by simp [hop])
    rcases hops op (by simp) with hop | hop
    · subst hop
      obtain ⟨o', ho', hinv⟩ := c15_object_extra_inv o h
      unfold PGObj.run
      rw [ho']
      exact ih o' hinv hrest
    · subst hop
      unfold PGObj.run
      exact ih o h hrest

/-- **a copy is the object**: continuing a history with `copy()` / `deepcopy` / an unpickled object /
the member of a copied grid set gives the same states as continuing with the original -/
theorem c15_object_copy_transparent (o : PGObj K) (ops : List (PGOp K)) :
    o.run (PGOp.copy :: ops) = o.run ops := rfl

end rangeobj

/-- the full claim "the invariant survives *every* public operation" … -/
def c15_object_history_statement : Prop :=
  ∀ (o : PGObj ℚ) (ops : List (PGOp ℚ)), C15.ObjInv o → C15.ObjInv (o.run ops)

/-- … is false for the code: the public `lower_bound` setter moves the descriptors and leaves the
stored array alone.  Witness: grid `[0, 1, 2]` (one decimal), `obj.lower_bound = 0.5`: the grid
points are now `0.5 + k`, the array still `[0, 1, 2]`, and `round_to_nearest_grid_point(1.2)`
returns `1.5`, not a member of `obj.grid`.  Recorded as an open finding (the setters are outside
the property's quantifier "grids as constructed, also after extension"). -/
theorem c15_object_history_counterexample : ¬ c15_object_history_statement := by
  intro h
  let o : PGObj ℚ := ⟨⟨0, 1, 1, 9⟩, [0, 1, 2]⟩
  have hG : C15.OnDec o.G := ⟨0, 10, by simp [o], by simp [o]⟩
  have hd : (0 : ℚ) < o.G.delta := by norm_num [o]
  have hinv : C15.ObjInv o := by
    refine ⟨hG, hd, 2, ?_⟩
    simp only [List.range_succ, List.range_zero, List.nil_append, List.cons_append, List.map_cons,
      List.map_nil, C15.gp_exact o.G hG]
    norm_num [o]
  obtain ⟨hG', _, m, hg⟩ := h o [PGOp.setLowerBound (1 / 2)] hinv
  have hlb : (o.run [PGOp.setLowerBound (1 / 2)]).G.lb = 1 / 2 := by
    show aroundDec 1 (1 / 2 : ℚ) = 1 / 2
    have := C15.aroundDec_lattice (K := ℚ) 1 5
    norm_num at this ⊢
    exact this
  have hgrid : (o.run [PGOp.setLowerBound (1 / 2)]).grid = [0, 1, 2] := rfl
  rw [hgrid, List.range_succ_eq_map] at hg
  simp only [List.map_cons, List.cons.injEq] at hg
  have h0 := hg.1
  rw [C15.gp_exact _ hG', hlb] at h0
  norm_num at h0

/-! ## Null method, permutations of grid values, the PDF registry -/

section nullm
variable {F : Type} [Add F] [Sub F] [Mul F] [Div F] [LT F] [DecidableLT F] [RoundOps F]

/-- **Null method**: `D` gradient rows (one per parameter grid), one entry per value, all zero; the
values are the manifold function at the *nearest grid points* of every parameter column. -/
theorem c15_null_shape_and_zero (Gs : List (PGrid F)) (Mf : Option Int → List (List F) → List F)
    (sid : Option Int) (params : List (List F)) :
    let r := nullSpec Gs Mf sid params
    r.1 = Mf sid (List.zipWith (fun G col => col.map (roundNearest G)) Gs params) ∧
    r.2.length = Gs.length ∧ ∀ row ∈ r.2, row = List.replicate r.1.length (ofI 0) := by
  intro r
  refine ⟨rfl, by simp [r, nullSpec], ?_⟩
  intro row hrow
  simp only [r, nullSpec, List.mem_map] at hrow
  obtain ⟨_, _, rfl⟩ := hrow
  rfl

end nullm

/-- **Null method: gradient = derivative of the reported value** (ℝ, one grid, one value): off the
switching points of the rounding the reported value is locally constant in the parameter, so its
derivative is the reported gradient 0. -/
theorem c15_null_grad_is_deriv (G : PGrid ℝ) (Mf : Option ℤ → List (List ℝ) → List ℝ)
    (hM : ∀ s g, (Mf s g).length = 1) (sid : Option ℤ) (x : ℝ)
    (hx : ∀ n : ℤ, (x - G.lb) / G.delta * 10 ^ G.fd ≠ n + 1 / 2) :
    ∃ val : ℝ → ℝ, (∀ᶠ t in nhds x, nullSpec [G] Mf sid [[t]] = ([val t], [[0]])) ∧
      HasDerivAt val 0 x := by
  obtain ⟨m, hm⟩ := List.length_eq_one_iff.mp (hM sid [[roundNearest G x]])
  refine ⟨fun _ => m, ?_, hasDerivAt_const x m⟩
  filter_upwards [c15_rounding_locally_constant G x hx] with t ht
  obtain ⟨_, _, e⟩ := ht
  simp [nullSpec, nullGridParams, e, hm]

section product
variable {α : Type}

/-- **permutations of grid values** (`itertools.product`): a tuple is produced exactly when it
takes one member from every grid, in order … -/
theorem c15_product_mem (gs : List (List α)) (t : List α) :
    t ∈ gridProduct gs ↔ List.Forall₂ (· ∈ ·) t gs := by
  induction gs generalizing t with
  | nil => cases t <;> simp [gridProduct]
  | cons g rest ih =>
    simp only [gridProduct, List.mem_flatMap, List.mem_map]
    constructor
    · rintro ⟨x, hx, t', ht', rfl⟩
      exact List.Forall₂.cons hx ((ih t').mp ht')
    · intro h
      cases h with
      | cons hx hrest => exact ⟨_, hx, _, (ih _).mpr hrest, rfl⟩

/-- … and there are `∏ len` of them -/
theorem c15_product_length (gs : List (List α)) :
    (gridProduct gs).length = (gs.map List.length).prod := by
  induction gs with
  | nil => simp [gridProduct]
  | cons g rest ih =>
    simp only [gridProduct, List.map_cons, List.prod_cons, ← ih]
    induction g with
    | nil => simp
    | cons x t iht => simp [List.flatMap_cons, iht, Nat.add_mul]; omega

end product

section registry
variable {F : Type} [BEq F] [LawfulBEq F] {P : Type}

namespace C15

theorem keyEq_refl (d : List (String × F)) : keyEq d d = true := by
  unfold keyEq
  simp only [Bool.and_eq_true, List.all_eq_true, List.any_eq_true, Bool.and_self]
  intro i hi
  exact ⟨i, hi, by simp⟩

theorem keyEq_single (n : String) (v w : F) : keyEq [(n, v)] [(n, w)] = true ↔ v = w := by
  simp [keyEq]
  exact fun h => h.symm

/-- registering the dictionaries of a list whose keys are pairwise different succeeds and stores
them in order -/
theorem pdfAddAll_distinct (mk : List (String × F) → P) (ds : List (List (String × F)))
    (hd : ds.Pairwise fun a b => keyEq a b = false) (s0 : PDFSetM F P)
    (h0 : ∀ e ∈ s0, ∀ d ∈ ds, keyEq e.1 d = false) :
    pdfAddAll mk s0 ds = some (s0 ++ ds.map fun d => (d, mk d)) := by
  induction ds generalizing s0 with
  | nil => simp [pdfAddAll]
  | cons d rest ih =>
    rw [List.pairwise_cons] at hd
    have hget : pdfGet s0 d = none := by
      unfold pdfGet
      rw [Option.map_eq_none_iff, List.find?_eq_none]
      intro e he
      simp [h0 e he d (by simp)]
    unfold pdfAddAll pdfAdd
    rw [hget]
    simp only [Option.isSome_none, Bool.false_eq_true, if_false, Option.bind_some]
    rw [ih hd.2 (s0 ++ [(d, mk d)])]
    · simp
    · intro e he d' hd'
      rcases List.mem_append.mp he with he | he
      · exact h0 e he d' (by simp [hd'])
      · simp only [List.mem_singleton] at he
        subst he
        exact hd.1 d' hd'

/-- in a registry whose keys are pairwise different, the entry of a registered dictionary is found
under its own key -/
theorem pdfGet_registered (mk : List (String × F) → P) (ds : List (List (String × F)))
    (hd : ds.Pairwise fun a b => keyEq a b = false)
    (d : List (String × F)) (hmem : d ∈ ds) :
    pdfGet (ds.map fun d => (d, mk d)) d = some (mk d) := by
  induction ds with
  | nil => simp at hmem
  | cons a rest ih =>
    rw [List.pairwise_cons] at hd
    unfold pdfGet
    rw [List.map_cons, List.find?_cons]
    rcases List.mem_cons.mp hmem with rfl | hm
    · simp [keyEq_refl]
    · have : keyEq a d = false := hd.1 d hm
      simp only [this]
      exact ih hd.2 hm

theorem keyEq_symm (a b : List (String × F)) : keyEq a b = keyEq b a := by
  unfold keyEq
  rw [Bool.and_comm]

end C15

/-- **keys do not depend on the insertion order of the dictionary items** (`frozenset` of the
items in `make_dict_hash`) -/
theorem c15_key_order_independent (d1 d2 : List (String × F)) (h : d1.Perm d2) : keyEq d1 d2 = true := by
  unfold keyEq
  simp only [Bool.and_eq_true, List.all_eq_true, List.any_eq_true]
  constructor
  · intro i hi; exact ⟨i, h.mem_iff.mp hi, by simp⟩
  · intro i hi; exact ⟨i, h.mem_iff.mpr hi, by simp⟩

end registry

section lookup
open C15
variable {K : Type} [Field K] [LinearOrder K] [IsStrictOrderedRing K] [FloorRing K] [RoundOps K]
  [LawfulRoundOps K] {P : Type}

/-- **the dictionary-lookup clause, end to end in the model**: build the PDF registry over the grid
`[gp 0 … gp (n-1)]` the constructor stores (one PDF per `parameter_permutation_dict_list` entry);
this succeeds (no "already added"), and for every value inside the grid the PDF registered for its
nearest / lower grid point is found with the *rounded value* as key. -/
theorem c15_pdfset_lookup_rounded (G : PGrid K) (hG : OnDec G) (hd : 0 < G.delta) (n : ℕ) (hn : 0 < n)
    (name : String) (mk : List (String × K) → P) :
    ∃ s, pdfAddAll mk ([] : PDFSetM K P)
        (permutationDicts [name] [(List.range n).map fun (k : ℕ) => gp G (k : ℤ)]) = some s ∧
      ∀ v, G.lb ≤ v → v ≤ G.lb + (n - 1 : ℕ) * G.delta →
        pdfGet s [(name, roundNearest G v)] = some (mk [(name, roundNearest G v)]) ∧
        pdfGet s [(name, roundLower G v)] = some (mk [(name, roundLower G v)]) := by
  set grid := (List.range n).map fun (k : ℕ) => gp G (k : ℤ) with hgrid
  have hds : permutationDicts [name] [grid] = grid.map fun x => [(name, x)] := by
    simp only [permutationDicts, gridProduct]
    clear hgrid
    clear_value grid
    induction grid with
    | nil => rfl
    | cons a t ih =>
      simp only [List.flatMap_cons, List.map_cons, List.map_nil, List.singleton_append,
        List.zip_cons_cons, List.zip_nil_right] at ih ⊢
      rw [ih]
  have hinj : ∀ i j : ℕ, gp G (i : ℤ) = gp G (j : ℤ) → i = j := by
    intro i j h
    rw [gp_exact G hG, gp_exact G hG] at h
    have : ((i : ℤ) : K) * G.delta = ((j : ℤ) : K) * G.delta := by linarith
    have := mul_right_cancel₀ hd.ne' this
    exact_mod_cast this
  have hdist : (grid.map fun x => [(name, x)]).Pairwise fun a b => keyEq a b = false := by
    rw [hgrid, List.map_map, List.pairwise_map]
    apply List.Pairwise.imp _ (List.pairwise_lt_range (n := n))
    intro i j hij
    simp only [Function.comp]
    rw [Bool.eq_false_iff]
    intro h
    have := (keyEq_single name _ _).mp h
    have := hinj i j this
    omega
  refine ⟨_, by rw [hds]; exact pdfAddAll_distinct mk _ hdist [] (by simp), ?_⟩
  intro v hlo hhi
  obtain ⟨m1, m2⟩ := c15_round_member G hd v n hn hlo hhi
  simp only [List.nil_append]
  constructor
  · apply pdfGet_registered mk _ hdist
    exact List.mem_map.mpr ⟨_, m2, rfl⟩
  · apply pdfGet_registered mk _ hdist
    exact List.mem_map.mpr ⟨_, m1, rfl⟩

end lookup

/-! ## `get_number_of_float_decimals` and the constructor with inferred decimals -/

namespace C15

/-- the trailing-zero counter: the result exceeds `acc` by at most `fuel`, and that many powers of
ten divide `n` -/
theorem tz_spec (fuel n acc : ℕ) :
    acc ≤ decimalsOf.tz fuel n acc ∧ decimalsOf.tz fuel n acc ≤ acc + fuel ∧
      10 ^ (decimalsOf.tz fuel n acc - acc) ∣ n := by
  induction fuel generalizing n acc with
  | zero => simp [decimalsOf.tz]
  | succ f ih =>
    unfold decimalsOf.tz
    split_ifs with h
    · obtain ⟨h1, h2, h3⟩ := ih (n / 10) (acc + 1)
      refine ⟨by omega, by omega, ?_⟩
      have e : decimalsOf.tz f (n / 10) (acc + 1) - acc = (decimalsOf.tz f (n / 10) (acc + 1) - (acc + 1)) + 1 := by
        omega
      rw [e, pow_succ]
      have hn : n = n / 10 * 10 := by omega
      have := Nat.mul_dvd_mul h3 (dvd_refl 10)
      rwa [← hn] at this
    · simp

/-- a number with at most 16 decimals has at most `decimalsOf` decimals: the digit count the
constructor infers loses nothing -/
theorem decimalsOf_lattice (x : ℚ) (h : ∃ n : ℤ, x = n / 10 ^ 16) :
    ∃ m : ℤ, x = m / 10 ^ decimalsOf x := by
  obtain ⟨n, rfl⟩ := h
  have hp16 : (0 : ℚ) < 10 ^ 16 := by positivity
  -- |x|·10^16 is the integer |n|
  have habs : (if (n : ℚ) / 10 ^ 16 < 0 then -((n : ℚ) / 10 ^ 16) else (n : ℚ) / 10 ^ 16) * p10 16
      = ((n.natAbs : ℤ) : ℚ) := by
    rw [p10_eq]
    split_ifs with hneg
    · have hn : n < 0 := by
        have := (div_neg_iff.mp hneg)
        rcases this with ⟨h1, _⟩ | ⟨h1, _⟩
        · linarith
        · exact_mod_cast h1
      rw [neg_mul, div_mul_cancel₀ _ hp16.ne']
      have : ((n.natAbs : ℤ)) = -n := by omega
      rw [this]; push_cast; ring
    · have hn : 0 ≤ n := by
        by_contra hc
        apply hneg
        apply div_neg_of_neg_of_pos _ hp16
        exact_mod_cast (not_le.mp hc)
      rw [div_mul_cancel₀ _ hp16.ne']
      have : ((n.natAbs : ℤ)) = n := by omega
      rw [this]
  unfold decimalsOf
  simp only []
  rw [habs, rintI_intCast]
  simp only [Int.toNat_natCast]
  set r := n.natAbs % 10 ^ 16 with hr
  split_ifs with h0
  · -- no decimals at all: x is an integer
    have hdiv : (10 ^ 16 : ℕ) ∣ n.natAbs := Nat.dvd_of_mod_eq_zero h0
    have hdivz : ((10 ^ 16 : ℕ) : ℤ) ∣ n := Int.natCast_dvd.mpr hdiv
    obtain ⟨q, hq⟩ := hdivz
    refine ⟨q, ?_⟩
    rw [hq]
    push_cast
    field_simp
    ring
  · obtain ⟨_, h2, h3⟩ := tz_spec 16 r 0
    simp only [Nat.sub_zero, Nat.zero_add] at h2 h3
    set t := decimalsOf.tz 16 r 0 with ht
    -- 10^t divides r and 10^16, hence |n| and n
    have hdiv16 : 10 ^ t ∣ 10 ^ 16 := Nat.pow_dvd_pow 10 h2
    have hdivn : 10 ^ t ∣ n.natAbs := by
      have e : n.natAbs = 10 ^ 16 * (n.natAbs / 10 ^ 16) + r := (Nat.div_add_mod _ _).symm
      rw [e]
      exact Nat.dvd_add (Dvd.dvd.mul_right hdiv16 _) h3
    have hdivz : ((10 ^ t : ℕ) : ℤ) ∣ n := Int.natCast_dvd.mpr hdivn
    obtain ⟨q, hq⟩ := hdivz
    refine ⟨q, ?_⟩
    rw [hq]
    have hpt : (0 : ℚ) < 10 ^ t := by positivity
    have hsplit : (10 : ℚ) ^ 16 = 10 ^ t * 10 ^ (16 - t) := by
      rw [← pow_add]; congr 1; omega
    push_cast
    rw [hsplit]
    field_simp

/-- a number with at most `d` decimals has at most `d'` decimals for `d ≤ d'` -/
theorem lattice_mono (x : ℚ) (d d' : ℕ) (hdd : d ≤ d') (h : ∃ m : ℤ, x = m / 10 ^ d) :
    ∃ m : ℤ, x = m / 10 ^ d' := by
  obtain ⟨m, rfl⟩ := h
  refine ⟨m * 10 ^ (d' - d), ?_⟩
  have : (10 : ℚ) ^ d' = 10 ^ d * 10 ^ (d' - d) := by rw [← pow_add]; congr 1; omega
  push_cast
  rw [this]
  field_simp

end C15

/-- **the number of decimals the constructor infers keeps the given numbers** (`decimals=None`):
for a first value and a spacing with at most 16 decimals (what `'{:.16f}'` can show), rounding to
`max(decimals(first), decimals(delta))` decimals changes neither, so the constructor's descriptors
*are* the given numbers, lie on the decimal lattice, and the spacing is positive.  This discharges
the hypotheses `OnDec`, `0 < delta` and — with `c15_constructor_grid_exact` — the grid-construction
hypothesis for the inferred-decimals constructor. -/
theorem c15_auto_constructor_exact (g0 δ0 : ℚ) (fd maxDec : ℕ) (hg : ∃ n : ℤ, g0 = n / 10 ^ 16)
    (hδ : ∃ n : ℤ, δ0 = n / 10 ^ 16) (hpos : 0 < δ0) (hmax : 16 ≤ maxDec) :
    ∃ G, mkGridAuto (fun q => q) g0 δ0 fd maxDec = some G ∧ G.lb = g0 ∧ G.delta = δ0 ∧
      C15.OnDec G ∧ 0 < G.delta ∧ G.dec = max (decimalsOf g0) (decimalsOf δ0) := by
  set dec := max (decimalsOf g0) (decimalsOf δ0) with hdec
  obtain ⟨a, ha⟩ := C15.lattice_mono g0 _ dec (le_max_left _ _) (C15.decimalsOf_lattice g0 hg)
  obtain ⟨b, hb⟩ := C15.lattice_mono δ0 _ dec (le_max_right _ _) (C15.decimalsOf_lattice δ0 hδ)
  have hlb : (mkGrid g0 δ0 dec fd).lb = g0 := by
    show aroundDec dec g0 = g0
    rw [ha]; exact C15.aroundDec_lattice dec a
  have hdl : (mkGrid g0 δ0 dec fd).delta = δ0 := by
    show aroundDec dec δ0 = δ0
    rw [hb]; exact C15.aroundDec_lattice dec b
  have hle16 : ∀ x : ℚ, decimalsOf x ≤ 16 := by
    intro x
    unfold decimalsOf
    simp only []
    split_ifs <;> omega
  have hdec16 : dec ≤ 16 := max_le (hle16 _) (hle16 _)
  refine ⟨mkGrid g0 δ0 dec fd, ?_, hlb, hdl, C15.mkGrid_onDec _ _ _ _, by rw [hdl]; exact hpos, rfl⟩
  unfold mkGridAuto decimalsAuto mkGridChecked
  rw [← hdec]
  rw [if_neg (by push Not; constructor <;> omega)]
  simp only [Int.toNat_natCast]
  rw [if_pos (by rw [hdl]; simpa using hpos)]

-- non-vacuity: 1.05 and 0.1 have at most 16 decimals; the inferred number of decimals of 1.05 is 2
example : ∃ n : ℤ, (105 / 100 : ℚ) = n / 10 ^ 16 := ⟨105 * 10 ^ 14, by norm_num⟩
example : ([1, 2, 4, 8] : List ℚ).Pairwise (· < ·) ∧ 2 ≤ ([1, 2, 4, 8] : List ℚ).length := by
  constructor
  · simp only [List.pairwise_cons, List.mem_cons, List.not_mem_nil, or_false, forall_eq_or_imp,
      forall_eq, List.Pairwise.nil, and_true]
    norm_num
  · simp
example : C15.ObjInv (⟨⟨0, 1, 0, 9⟩, [0, 1, 2]⟩ : PGObj ℚ) := by
  have hG : C15.OnDec (⟨0, 1, 0, 9⟩ : PGrid ℚ) := ⟨0, 1, by simp, by simp⟩
  refine ⟨hG, by norm_num, 2, ?_⟩
  simp only [List.range_succ, List.range_zero, List.nil_append, List.cons_append, List.map_cons,
    List.map_nil, C15.gp_exact _ hG]
  norm_num
example : pdfAddAll (fun d => d.length) ([] : PDFSetM ℤ ℕ) (permutationDicts ["a", "b"] [[1, 2], [5]]) =
    some [([("a", 1), ("b", 5)], 2), ([("a", 2), ("b", 5)], 2)] := by decide
example : pdfAdd ([([("a", (1 : ℤ))], (0 : ℕ))]) 7 [("a", 1)] = none := by decide
example : irrLowerC ([1, 2, 4, 8] : List ℤ) 0 = none ∧ irrLowerArr ([1, 2, 4, 8] : List ℤ) [3, 0] = none ∧
    irrUpperArr ([1, 2, 4, 8] : List ℤ) [3, 5] = some [4, 8] := by decide

/-! ## The PDF registry over several parameter grids -/

section registryD
variable {F : Type} [BEq F] [LawfulBEq F] {P : Type}

namespace C15

/-- the key comparison looks at the items as a set: it does not change under a reordering of the
looked-up dictionary -/
theorem keyEq_perm_right (a d d' : List (String × F)) (h : d'.Perm d) : keyEq a d' = keyEq a d := by
  unfold keyEq
  congr 1
  · apply List.all_congr rfl
    intro i
    rw [Bool.eq_iff_iff]
    simp only [List.any_eq_true]
    constructor
    · rintro ⟨j, hj, e⟩; exact ⟨j, h.mem_iff.mp hj, e⟩
    · rintro ⟨j, hj, e⟩; exact ⟨j, h.mem_iff.mpr hj, e⟩
  · rw [Bool.eq_iff_iff]
    simp only [List.all_eq_true]
    constructor
    · intro hh i hi; exact hh i (h.mem_iff.mpr hi)
    · intro hh i hi; exact hh i (h.mem_iff.mp hi)

theorem pdfGet_perm (s : PDFSetM F P) (d d' : List (String × F)) (h : d'.Perm d) : pdfGet s d' = pdfGet s d := by
  unfold pdfGet
  congr 1
  apply List.find?_congr
  intro e _
  exact keyEq_perm_right e.1 d d' h

/-- with distinct names, equal keys of two value tuples mean equal tuples -/
theorem zip_keyEq_inj (names : List String) (hn : names.Nodup) (t t' : List F)
    (ht : t.length = names.length) (ht' : t'.length = names.length)
    (h : keyEq (names.zip t) (names.zip t') = true) : t = t' := by
  apply List.ext_getElem (by rw [ht, ht'])
  intro i h1 h2
  have hi : i < names.length := by rw [← ht]; exact h1
  unfold keyEq at h
  simp only [Bool.and_eq_true, List.all_eq_true, List.any_eq_true, beq_iff_eq] at h
  have hmem : (names[i], t[i]) ∈ names.zip t := by
    rw [List.mem_iff_getElem]
    exact ⟨i, by simp [ht, hi], by simp⟩
  obtain ⟨j, hj, hname, hval⟩ := h.1 _ hmem
  obtain ⟨k, hk, rfl⟩ := List.mem_iff_getElem.mp hj
  simp only [List.getElem_zip] at hname hval
  have hk' : k < names.length := by
    have := hk; simp only [List.length_zip] at this; omega
  have hik : i = k := (List.Nodup.getElem_inj_iff hn).mp hname
  subst hik
  exact hval

theorem gridProduct_length_mem {α : Type} (gs : List (List α)) (t : List α) (h : t ∈ gridProduct gs) :
    t.length = gs.length := by
  have := (c15_product_mem gs t).mp h
  exact this.length_eq

theorem gridProduct_nodup {α : Type} (gs : List (List α)) (h : ∀ g ∈ gs, g.Nodup) : (gridProduct gs).Nodup := by
  induction gs with
  | nil => simp [gridProduct]
  | cons g rest ih =>
    have hrest := ih (fun g' hg' => h g' (by simp [hg']))
    have hg := h g (by simp)
    unfold gridProduct
    rw [List.nodup_flatMap]
    constructor
    · intro x _
      exact hrest.map (fun a b hab => by simpa using hab)
    · apply List.Pairwise.imp _ hg
      intro a b hab
      simp only [Function.onFun, List.disjoint_left, List.mem_map]
      rintro _ ⟨t, _, rfl⟩ ⟨t', _, e⟩
      simp only [List.cons.injEq] at e
      exact hab e.1.symm

end C15

/-- **the dictionary-lookup clause for several parameters**: over any grids without repeated
values and distinct parameter names, registering one PDF per entry of
`parameter_permutation_dict_list` succeeds, and every permutation of grid values is found again —
under its dictionary in *any* item order (the `frozenset` in `make_dict_hash`). -/
theorem c15_pdfset_lookup_product (names : List String) (hn : names.Nodup) (gs : List (List F))
    (hlen : names.length = gs.length) (hg : ∀ g ∈ gs, g.Nodup) (mk : List (String × F) → P) :
    ∃ s, pdfAddAll mk ([] : PDFSetM F P) (permutationDicts names gs) = some s ∧
      ∀ t ∈ gridProduct gs, ∀ d : List (String × F), d.Perm (names.zip t) →
        pdfGet s d = some (mk (names.zip t)) := by
  have hdist : (permutationDicts names gs).Pairwise fun a b => keyEq a b = false := by
    unfold permutationDicts
    rw [List.pairwise_map]
    have hnd := C15.gridProduct_nodup gs hg
    refine List.Pairwise.imp_of_mem ?_ hnd
    intro t t' ht ht' hne
    rw [Bool.eq_false_iff]
    intro h
    exact hne (C15.zip_keyEq_inj names hn t t'
      (by rw [C15.gridProduct_length_mem gs t ht, hlen]) (by rw [C15.gridProduct_length_mem gs t' ht', hlen]) h)
  refine ⟨_, C15.pdfAddAll_distinct mk _ hdist [] (by simp), ?_⟩
  intro t ht d hd
  simp only [List.nil_append]
  rw [C15.pdfGet_perm _ _ d hd]
  apply C15.pdfGet_registered mk _ hdist
  unfold permutationDicts
  exact List.mem_map.mpr ⟨t, ht, rfl⟩

end registryD

section linstore
variable {F : Type} [Add F] [Sub F] [Mul F] [Div F] [LT F] [DecidableLT F] [RoundOps F]
  [OfNat F 1] [OfNat F 2] [BEq F] [LawfulBEq F]

/-- with a store-backed manifold function a used linear object answers like a fresh one on every
history (store-level form of `c15_linear_cache_transparent`) -/
theorem c15_linear_store_history (G : PGrid F) (ns : List Nat) (st : Store F)
    (hinj : ∀ v v', roundLower G v = roundLower G v' → roundUpper G v = roundUpper G v')
    (calls : List (Option Int × List F)) :
    (linRunS G ns st none calls).2 = calls.map fun c => linSpec G st.get ns c.1 c.2 := by
  rw [(c15_linear_keeps_manifold_store G ns st none calls).2]
  exact c15_linear_cache_transparent G st.get ns hinj calls

end linstore

-- non-vacuity: distinct names, grids without repeated values
example : (["q0", "q1"] : List String).Nodup ∧ ∀ g ∈ ([[-2, -1, 0], [5]] : List (List ℤ)), g.Nodup := by decide

/-! ## Irregular grid objects: queries and changes interleaved -/

section iobjhist
variable {F : Type} [Field F] [LinearOrder F] [IsStrictOrderedRing F]

namespace C15

theorem IGObj.trace_append (o : IGObj F) (ops : List (IGOp F)) (op : IGOp F) :
    o.trace (ops ++ [op]) = o.trace ops ++ [((o.after ops).step op).2] := by
  induction ops generalizing o with
  | nil => simp [IGObj.trace, IGObj.after]
  | cons a rest ih => simp [IGObj.trace, IGObj.after, ih]

/-- one operation keeps the grid strictly increasing -/
theorem IGObj.step_sorted (o : IGObj F) (h : o.grid.Pairwise (· < ·)) (op : IGOp F) :
    (o.step op).1.grid.Pairwise (· < ·) := by
  cases op with
  | extra =>
    unfold IGObj.step
    cases hx : irrAddExtra o.grid with
    | none => simpa using h
    | some g' =>
      simp only []
      -- at least two points, otherwise `irrAddExtra` is `none`
      have h2 : 2 ≤ o.grid.length := by
        unfold irrAddExtra at hx
        match hg : o.grid with
        | [] => rw [hg] at hx; simp at hx
        | [_] => rw [hg] at hx; simp at hx
        | _ :: _ :: _ => simp
      obtain ⟨g'', hg'', hs, _, _⟩ := c15_irregular_extra_bins o.grid h h2
      rw [hx] at hg''
      simp only [Option.some.injEq] at hg''
      rw [hg'']; exact hs
  | setGrid arr =>
    unfold IGObj.step
    cases hm : mkIrr arr with
    | none => simp only [hm]; exact h
    | some g' =>
      simp only [hm]
      exact ((c15_irregular_ctor_sorted arr).1 g' hm).2
  | copy => exact h
  | nearest v => exact h
  | lower v => exact h
  | upper v => exact h

theorem IGObj.after_sorted (o : IGObj F) (h : o.grid.Pairwise (· < ·)) (ops : List (IGOp F)) :
    (o.after ops).grid.Pairwise (· < ·) := by
  induction ops generalizing o with
  | nil => exact h
  | cons op rest ih => exact ih _ (IGObj.step_sorted o h op)

end C15

/-- **irregular grid object, any history** (query, extend / assign / copy, query …): the grid stays
strictly increasing whatever is done (refused changes leave it alone), and a query at *any* point
of the history answers for the grid as it is *then* — nearest member of the current grid, greatest
member `≤ v`, least member `> v` (`c15_irregular_nearest/lower/upper` apply to that grid).  The
object carries nothing but the grid: no array computed for an earlier grid can answer for a later
one. -/
theorem c15_irregular_object_history (o : IGObj F) (h : o.grid.Pairwise (· < ·)) (ops : List (IGOp F))
    (v : F) :
    let g := (o.after ops).grid
    g.Pairwise (· < ·) ∧
    (o.trace (ops ++ [IGOp.nearest v])).getLast? = some (IGOut.answer (irrNearest g v)) ∧
    (o.trace (ops ++ [IGOp.lower v])).getLast? = some (IGOut.answer (irrLowerC g v)) ∧
    (o.trace (ops ++ [IGOp.upper v])).getLast? = some (IGOut.answer (irrUpper g v)) ∧
    (g ≠ [] → ∃ a, irrNearest g v = some a ∧ a ∈ g ∧ ∀ b ∈ g, |a - v| ≤ |b - v|) := by
  intro g
  have hs := C15.IGObj.after_sorted o h ops
  refine ⟨hs, ?_, ?_, ?_, fun hne => c15_irregular_nearest g hs hne v⟩ <;>
    rw [C15.IGObj.trace_append] <;> simp [IGObj.step, g]

end iobjhist

example : (⟨[1, 2, 4]⟩ : IGObj ℤ).trace [IGOp.nearest 3, IGOp.extra, IGOp.nearest 5, IGOp.setGrid [2, 1], IGOp.upper 6] =
    [IGOut.answer (some 2), IGOut.state [0, 1, 2, 4, 6], IGOut.answer (some 4), IGOut.raised, IGOut.answer none] := by
  decide

/-! ## Round 7 -/

/-! ### the literals of the irregular rounding / the parabola gradient, read from the current source -/

section r7sides
variable {F : Type} [LinearOrder F]

/-- **the `searchsorted` sides and the index shift of the current source** are the ones of the model
functions all irregular theorems are about (`irrLowerC`, `irrUpper`, `irrNearest`): a changed side
or shift in `IrregularParameterGrid.round_to_*_grid_point` changes `Gen.C15.*` and breaks this. -/
theorem c15_irregular_sides_for_current_source [Add F] [Div F] [OfNat F 2] (g : List F) (v : F) :
    irrLowerP Gen.C15.irrLowerSideRight Gen.C15.irrLowerShift g v = irrLowerC g v ∧
      irrUpperP Gen.C15.irrUpperSideRight g v = irrUpper g v ∧
      irrNearestP Gen.C15.irrNearestSideRight g v = irrNearest g v := by
  refine ⟨?_, rfl, rfl⟩
  unfold irrLowerP irrLowerC ssSide
  simp only [Gen.C15.irrLowerSideRight, Gen.C15.irrLowerShift, if_true]
  by_cases h : ssRight g v = 0
  · simp [h]
  · have : ¬ ssRight g v < 1 := by omega
    simp [h, this]

/-- the sides matter: with `'left'` the lower rounding of a value *on* a grid point would be the
member before it, with `'right'` the nearest rounding of an exact middle would go up -/
example : irrLowerP false 1 [(1 : ℤ), 2, 4] 2 = some 1 ∧ irrLowerC [(1 : ℤ), 2, 4] 2 = some 2 := by decide

end r7sides

/-- **the gradient factor of the current source** (`grads = 2. * a * x_minus_x1 + b`) is the one of
`parGrad`, and with it the reported gradient is the derivative of the reported value. -/
theorem c15_parabola_grad_factor_for_current_source (x1 dx M0 M1 M2 x : ℝ) :
    parGradP ((Gen.C15.parGradFactor : ℕ) : ℝ) x1 dx M0 M1 M2 x = parGrad x1 dx M0 M1 M2 x ∧
      HasDerivAt (fun t => parValue x1 dx M0 M1 M2 t)
        (parGradP ((Gen.C15.parGradFactor : ℕ) : ℝ) x1 dx M0 M1 M2 x) x := by
  have h : parGradP ((Gen.C15.parGradFactor : ℕ) : ℝ) x1 dx M0 M1 M2 x = parGrad x1 dx M0 M1 M2 x := by
    unfold parGradP parGrad Gen.C15.parGradFactor
    norm_num
  exact ⟨h, h ▸ c15_grad_is_deriv_parabola x1 dx M0 M1 M2 x⟩

/-! ### linear interpolation over an irregular grid -/

namespace C15
section ilin
variable {F : Type} [Field F] [LinearOrder F] [BEq F] [LawfulBEq F]

theorem linComputeIrr_eq (g : List F) (Mf : Option Int → List F → List F) (ns : List ℕ) (sid : Option Int)
    (xs : List F) :
    linComputeIrr g Mf ns sid xs =
      (irrLowerArr g xs).bind fun x0 => (irrUpperArr g xs).bind fun x1 => linLine Mf ns sid x0 x1 := by
  unfold linComputeIrr
  cases irrLowerArr g xs with
  | none => rfl
  | some x0 => cases irrUpperArr g xs <;> rfl

/-- what `irrLowerC` answers is the greatest member `≤ v` -/
theorem irrLowerC_spec (g : List F) (hs : g.Pairwise (· < ·)) (v a : F) (h : irrLowerC g v = some a) :
    a ∈ g ∧ a ≤ v ∧ ∀ b ∈ g, b ≤ v → b ≤ a := by
  have hc := c15_irregular_lower_checked g hs v
  have hex : ∃ b ∈ g, b ≤ v := by
    by_contra hne
    push Not at hne
    rw [hc.1.mpr hne] at h
    simp at h
  obtain ⟨a', ha', hmem, hle, hgr⟩ := c15_irregular_lower g hs v hex
  rw [hc.2 hex, ha'] at h
  simp only [Option.some.injEq] at h
  subst h
  exact ⟨hmem, hle, hgr⟩

/-- the upper rounding of `v` is the upper rounding of its lower grid member -/
theorem irrUpper_of_lower (g : List F) (hs : g.Pairwise (· < ·)) (v a : F) (h : irrLowerC g v = some a) :
    irrUpper g v = irrUpper g a := by
  obtain ⟨_, hle, hgr⟩ := irrLowerC_spec g hs v a h
  unfold irrUpper ssRight
  have : g.countP (fun e => decide (e ≤ v)) = g.countP (fun e => decide (e ≤ a)) := by
    apply List.countP_congr
    intro e he
    simp only [decide_eq_true_eq]
    exact ⟨fun h1 => hgr e he h1, fun h1 => le_trans h1 hle⟩
  rw [this]

theorem irrUpperArr_of_lower (g : List F) (hs : g.Pairwise (· < ·)) (xs x0 : List F)
    (h : irrLowerArr g xs = some x0) : irrUpperArr g xs = optAll (x0.map (irrUpper g)) := by
  unfold irrLowerArr irrUpperArr at *
  induction xs generalizing x0 with
  | nil =>
    simp only [List.map_nil, optAll, Option.some.injEq] at h
    subst h
    rfl
  | cons x rest ih =>
    simp only [List.map_cons] at h ⊢
    cases hx : irrLowerC g x with
    | none => rw [hx] at h; simp [optAll] at h
    | some a =>
      rw [hx] at h
      simp only [optAll] at h
      cases hr : optAll (rest.map (irrLowerC g)) with
      | none => rw [hr] at h; simp at h
      | some r =>
        rw [hr] at h
        simp only [Option.map_some, Option.some.injEq] at h
        subst h
        simp only [List.map_cons]
        rw [irrUpper_of_lower g hs x a hx]
        cases irrUpper g a with
        | none => simp [optAll]
        | some b => simp only [optAll]; rw [ih r hr]

/-- cache invariant: the content is what a computation for the stored state and some parameter
values produced -/
def LinOKI (g : List F) (Mf : Option Int → List F → List F) (ns : List ℕ) : Option (LinCache F) → Prop
  | none => True
  | some c => ∃ xs', linComputeIrr g Mf ns c.sid xs' = some c

theorem linLine_fields (Mf : Option Int → List F → List F) (ns : List ℕ) (sid : Option Int) (x0 x1 : List F)
    (c : LinCache F) (h : linLine Mf ns sid x0 x1 = some c) : c.sid = sid ∧ c.x0 = x0 := by
  unfold linLine at h
  simp only [] at h
  split at h
  · split_ifs at h
    simp only [Option.some.injEq] at h
    subst h
    exact ⟨rfl, rfl⟩
  · simp at h

theorem linComputeIrr_fields (g : List F) (Mf : Option Int → List F → List F) (ns : List ℕ) (sid : Option Int)
    (xs : List F) (c : LinCache F) (h : linComputeIrr g Mf ns sid xs = some c) :
    c.sid = sid ∧ irrLowerArr g xs = some c.x0 := by
  rw [linComputeIrr_eq] at h
  cases h0 : irrLowerArr g xs with
  | none => rw [h0] at h; simp at h
  | some x0 =>
    rw [h0] at h
    simp only [Option.bind_some] at h
    cases h1 : irrUpperArr g xs with
    | none => rw [h1] at h; simp at h
    | some x1 =>
      rw [h1] at h
      simp only [Option.bind_some] at h
      obtain ⟨hs, hx⟩ := linLine_fields Mf ns sid x0 x1 c h
      exact ⟨hs, by rw [hx]⟩

/-- a cache hit returns what the recomputation would give (sorted grid) -/
theorem linComputeIrr_hit (g : List F) (hs : g.Pairwise (· < ·)) (Mf : Option Int → List F → List F) (ns : List ℕ)
    (c : LinCache F) (xs' xs : List F) (hc : linComputeIrr g Mf ns c.sid xs' = some c)
    (hx0 : irrLowerArr g xs = some c.x0) : linComputeIrr g Mf ns c.sid xs = some c := by
  have h0 := (linComputeIrr_fields g Mf ns c.sid xs' c hc).2
  rw [linComputeIrr_eq] at hc ⊢
  rw [h0, irrUpperArr_of_lower g hs xs' c.x0 h0] at hc
  rw [hx0, irrUpperArr_of_lower g hs xs c.x0 hx0]
  exact hc

theorem linCallIrr_spec (g : List F) (hs : g.Pairwise (· < ·)) (Mf : Option Int → List F → List F) (ns : List ℕ)
    (cache : Option (LinCache F)) (hok : LinOKI g Mf ns cache) (sid : Option Int) (xs : List F) :
    (linCallIrr g Mf ns cache sid xs).2 = linSpecIrr g Mf ns sid xs ∧
      LinOKI g Mf ns (linCallIrr g Mf ns cache sid xs).1 := by
  unfold linCallIrr
  cases hl : irrLowerArr g xs with
  | none =>
    simp only []
    refine ⟨?_, hok⟩
    unfold linSpecIrr
    rw [linComputeIrr_eq, hl]
    rfl
  | some x0 =>
    simp only []
    have hfresh : ∀ (cache : Option (LinCache F)), LinOKI g Mf ns cache →
        ((match linComputeIrr g Mf ns sid xs with
          | some c' => (some c', linEval c' ns xs)
          | none => (cache, none) : Option (LinCache F) × Option (List F × List F))).2
          = linSpecIrr g Mf ns sid xs ∧
        LinOKI g Mf ns ((match linComputeIrr g Mf ns sid xs with
          | some c' => (some c', linEval c' ns xs)
          | none => (cache, none) : Option (LinCache F) × Option (List F × List F))).1 := by
      intro cache hok
      unfold linSpecIrr
      cases hcomp : linComputeIrr g Mf ns sid xs with
      | none => exact ⟨rfl, hok⟩
      | some c' =>
        refine ⟨rfl, ?_⟩
        have := (linComputeIrr_fields g Mf ns sid xs c' hcomp).1
        exact ⟨xs, by rw [this]; exact hcomp⟩
    cases cache with
    | none => exact hfresh none hok
    | some c =>
      simp only []
      split_ifs with hhit
      · obtain ⟨_, hsid, hx0⟩ := hhit
        have hx0' : c.x0 = x0 := by simpa using hx0
        obtain ⟨xs', hc⟩ := hok
        have := linComputeIrr_hit g hs Mf ns c xs' xs hc (by rw [hx0']; exact hl)
        refine ⟨?_, ⟨xs', hc⟩⟩
        unfold linSpecIrr
        rw [← hsid, this]
        rfl
      · exact hfresh (some c) hok

/-- value `i` of a fresh call over an irregular grid, given what the broadcasts put at position `i` -/
theorem ilin_value_at (g : List F) (Mf : Option Int → List F → List F) (ns : List ℕ) (sid : Option Int)
    (xs X0 X1 lx l0 l1 : List F) (hlo : irrLowerArr g xs = some X0) (hup : irrUpperArr g xs = some X1)
    (hbx : broadcast xs ns = some lx) (hb0 : broadcast X0 ns = some l0) (hb1 : broadcast X1 ns = some l1)
    (hM0 : (Mf sid X0).length = ns.sum) (hM1 : (Mf sid X1).length = ns.sum)
    (i : ℕ) (x x0 x1 m0 m1 : F) (ex : lx[i]? = some x) (e0 : l0[i]? = some x0) (e1 : l1[i]? = some x1)
    (h0 : (Mf sid X0)[i]? = some m0) (h1 : (Mf sid X1)[i]? = some m1) :
    ∃ vals grads, linSpecIrr g Mf ns sid xs = some (vals, grads) ∧
      vals[i]? = some (lineValue x0 x1 m0 m1 x) ∧ grads[i]? = some (lineGrad x0 x1 m0 m1) := by
  unfold linSpecIrr
  rw [linComputeIrr_eq, hlo, hup]
  simp only [Option.bind_some, linLine, hb0, hb1, hM0, hM1, and_self, if_true, linEval, hbx]
  refine ⟨_, _, rfl, ?_, ?_⟩
  · simp [List.getElem?_zipWith, h0, h1, e0, e1, ex, lineValue, lineB, lineM]
  · simp [List.getElem?_zipWith, h0, h1, e0, e1, lineGrad, lineM]

end ilin
end C15

section ilinthm
variable {F : Type} [Field F] [LinearOrder F] [BEq F] [LawfulBEq F]

/-- **cache transparency of the linear method over an irregular grid** (induction over the call
history, any trial-data states, parameter values, raising calls — below the first / at or above the
last grid point, wrong number of values): the used object answers like a fresh one.  The only
hypothesis is the sortedness the constructor establishes (`c15_irregular_ctor_sorted`). -/
theorem c15_irregular_linear_cache_transparent (g : List F) (hs : g.Pairwise (· < ·))
    (Mf : Option Int → List F → List F) (ns : List ℕ) (calls : List (Option Int × List F)) :
    linRunIrr g Mf ns none calls = calls.map fun c => linSpecIrr g Mf ns c.1 c.2 := by
  suffices h : ∀ cache, C15.LinOKI g Mf ns cache →
      linRunIrr g Mf ns cache calls = calls.map fun c => linSpecIrr g Mf ns c.1 c.2 from h none trivial
  induction calls with
  | nil => intro _ _; rfl
  | cons c rest ih =>
    intro cache hok
    obtain ⟨sid, xs⟩ := c
    obtain ⟨h1, h2⟩ := C15.linCallIrr_spec g hs Mf ns cache hok sid xs
    simp only [linRunIrr, List.map_cons]
    rw [h1, ih _ h2]

/-- **one shared value over an irregular grid**: for `first ≤ x < last` every value `i` is the line
through the greatest member `a ≤ x` and the least member `b > x` (cells of any width), evaluated
at `x`, and the gradient is its slope; `a < b`, so no division by zero is involved. -/
theorem c15_irregular_linear_shared (g : List F) (hs : g.Pairwise (· < ·)) (Mf : Option Int → List F → List F)
    (ns : List ℕ) (sid : Option Int) (x : F) (hlo : ∃ a ∈ g, a ≤ x) (hhi : ∃ b ∈ g, x < b)
    (hM : ∀ t, (Mf sid [t]).length = ns.sum) (i : ℕ) (hi : i < ns.sum) :
    ∃ a b m0 m1 vals grads, a ∈ g ∧ b ∈ g ∧ a ≤ x ∧ x < b ∧ (∀ c ∈ g, c ≤ a ∨ b ≤ c) ∧
      (Mf sid [a])[i]? = some m0 ∧ (Mf sid [b])[i]? = some m1 ∧
      linSpecIrr g Mf ns sid [x] = some (vals, grads) ∧
      vals[i]? = some (lineValue a b m0 m1 x) ∧ grads[i]? = some (lineGrad a b m0 m1) := by
  obtain ⟨a, ha, ham, hax, hagr⟩ := c15_irregular_lower g hs x hlo
  obtain ⟨b, hb, hbm, hxb, hbls⟩ := c15_irregular_upper g hs x hhi
  have hac : irrLowerC g x = some a := by rw [(c15_irregular_lower_checked g hs x).2 hlo, ha]
  have hX0 : irrLowerArr g [x] = some [a] := by simp [irrLowerArr, optAll, hac]
  have hX1 : irrUpperArr g [x] = some [b] := by simp [irrUpperArr, optAll, hb]
  obtain ⟨lx, hlx, ex⟩ := C15.shared_getElem? x ns i hi
  obtain ⟨l0, hl0, e0⟩ := C15.shared_getElem? a ns i hi
  obtain ⟨l1, hl1, e1⟩ := C15.shared_getElem? b ns i hi
  have i0 : i < (Mf sid [a]).length := by rw [hM]; exact hi
  have i1 : i < (Mf sid [b]).length := by rw [hM]; exact hi
  obtain ⟨vals, grads, hsp, hv, hg⟩ := C15.ilin_value_at g Mf ns sid [x] [a] [b] lx l0 l1 hX0 hX1 hlx hl0 hl1
    (hM a) (hM b) i x a b (Mf sid [a])[i] (Mf sid [b])[i] ex e0 e1
    (List.getElem?_eq_getElem i0) (List.getElem?_eq_getElem i1)
  refine ⟨a, b, _, _, vals, grads, ham, hbm, hax, hxb, ?_, List.getElem?_eq_getElem i0, List.getElem?_eq_getElem i1,
    hsp, hv, hg⟩
  intro c hc
  rcases le_or_gt c x with h | h
  · exact Or.inl (hagr c hc h)
  · exact Or.inr (hbls c hc h)

/-- **the irregular linear interpolation reproduces the manifold at every grid member** (but the
last one, where the upper rounding raises) and **is exact for functions of degree ≤ 1** at every
`first ≤ x < last`, value and gradient, whatever the cell widths. -/
theorem c15_irregular_linear_exact (g : List F) (hs : g.Pairwise (· < ·)) (f : F → F)
    (ns : List ℕ) (sid : Option Int) (x : F) (hlo : ∃ a ∈ g, a ≤ x) (hhi : ∃ b ∈ g, x < b)
    (i : ℕ) (hi : i < ns.sum) :
    let Mf : Option Int → List F → List F := fun _ t => List.replicate ns.sum (f (t.headD 0))
    ∃ vals grads, linSpecIrr g Mf ns sid [x] = some (vals, grads) ∧
      (x ∈ g → vals[i]? = some (f x)) ∧
      (∀ c0 c1, (∀ t, f t = c1 * t + c0) → vals[i]? = some (c1 * x + c0) ∧ grads[i]? = some c1) := by
  intro Mf
  obtain ⟨a, b, m0, m1, vals, grads, ham, hbm, hax, hxb, hnb, hm0, hm1, hsp, hv, hg⟩ :=
    c15_irregular_linear_shared g hs Mf ns sid x hlo hhi (fun t => by simp [Mf]) i hi
  have hab : a ≠ b := (lt_of_le_of_lt hax hxb).ne
  have e0 : m0 = f a := by
    have : (Mf sid [a])[i]? = some (f a) := by simp [Mf, hi]
    rw [this] at hm0; exact (Option.some.inj hm0).symm
  have e1 : m1 = f b := by
    have : (Mf sid [b])[i]? = some (f b) := by simp [Mf, hi]
    rw [this] at hm1; exact (Option.some.inj hm1).symm
  rw [e0, e1] at hv hg
  refine ⟨vals, grads, hsp, ?_, ?_⟩
  · intro hx
    -- the greatest member ≤ x is x itself
    have hxa : x ≤ a := by
      rcases hnb x hx with h | h
      · exact h
      · exact absurd (lt_of_le_of_lt h hxb) (lt_irrefl _)
    have hxa' : x = a := le_antisymm hxa hax
    rw [hv, ← hxa']
    rw [← hxa'] at hab
    rw [(c15_linear_at_grid x b (f x) (f b) hab).1]
  · intro c0 c1 hf
    rw [hf a, hf b] at hv hg
    obtain ⟨h1, h2⟩ := c15_linear_exact_deg1 a b c0 c1 x hab
    rw [hv, hg, h1, h2]
    exact ⟨rfl, rfl⟩

/-- **outside `[first, last)` the call raises and leaves the object alone**: below the first grid
point the lower rounding raises before anything else happens (any cache content stays), at or above
the last one a fresh object raises in the upper rounding. -/
theorem c15_irregular_linear_out_of_range (g : List F) (hs : g.Pairwise (· < ·))
    (Mf : Option Int → List F → List F) (ns : List ℕ) (sid : Option Int) (xs : List F) (x : F) (hx : x ∈ xs) :
    ((∀ a ∈ g, x < a) → ∀ cache, linCallIrr g Mf ns cache sid xs = (cache, none)) ∧
      ((∀ a ∈ g, a ≤ x) → linSpecIrr g Mf ns sid xs = none) := by
  have optAll_none : ∀ {α : Type} (l : List (Option α)), none ∈ l → optAll l = none := by
    intro α l
    induction l with
    | nil => simp
    | cons o rest ih =>
      intro h
      cases o with
      | none => rfl
      | some v =>
        simp only [List.mem_cons, reduceCtorEq, false_or] at h
        simp [optAll, ih h]
  constructor
  · intro hbelow cache
    have h1 : irrLowerC g x = none := (c15_irregular_lower_checked g hs x).1.mpr hbelow
    have : irrLowerArr g xs = none := by
      unfold irrLowerArr
      apply optAll_none
      rw [List.mem_map]
      exact ⟨x, hx, h1⟩
    unfold linCallIrr
    rw [this]
  · intro habove
    have h1 : irrUpper g x = none := c15_irregular_upper_none g x habove
    have : irrUpperArr g xs = none := by
      unfold irrUpperArr
      apply optAll_none
      rw [List.mem_map]
      exact ⟨x, hx, h1⟩
    unfold linSpecIrr
    rw [C15.linComputeIrr_eq, this]
    cases irrLowerArr g xs <;> rfl

end ilinthm

/-- non-vacuity: cells of width 1, 2 and 4; a history with a hit, a miss, a raising call; the
hypotheses of the theorems above hold for it -/
example : linRunIrr [(1 : ℚ), 2, 4, 8] (fun _ t => List.replicate 2 (3 * t.headD 0 + 1)) [2] none
      [(some 1, [3]), (some 1, [7 / 2]), (some 1, [8]), (some 1, [5])] =
    [some ([10, 10], [3, 3]), some ([23 / 2, 23 / 2], [3, 3]), none, some ([16, 16], [3, 3])] := by
  decide +kernel

/-! ### `ParameterGridSet.add_extra_lower_and_upper_bin` -/

section gridsetthm
variable {F : Type} [LinearOrder F] [Field F] [IsStrictOrderedRing F]

/-- **extending a set of irregular grids**: the loop completes exactly when every grid has at least
two points, and then every grid is extended as by its own method (so `c15_irregular_extra_bins`
applies to each member); when it does not complete, the grids before the first short one *are*
extended and the rest is untouched (the operation is not atomic — as coded). -/
theorem c15_irregular_gridset_extra (gs : List (List F)) :
    ((irrSetExtra gs).2 = true ↔ ∀ g ∈ gs, 2 ≤ g.length) ∧
      ((irrSetExtra gs).2 = true → (irrSetExtra gs).1.map some = gs.map irrAddExtra) ∧
      (irrSetExtra gs).1.length = gs.length := by
  have hne : ∀ g : List F, irrAddExtra g = none ↔ ¬ 2 ≤ g.length := by
    intro g
    unfold irrAddExtra
    rcases g with _ | ⟨a, _ | ⟨b, t⟩⟩
    · simp
    · simp
    · have : ∃ z y r, (a :: b :: t).reverse = z :: y :: r := by
        have hl : 2 ≤ (a :: b :: t).reverse.length := by simp
        rcases h : (a :: b :: t).reverse with _ | ⟨z, _ | ⟨y, r⟩⟩
        · rw [h] at hl; simp at hl
        · rw [h] at hl; simp at hl
        · exact ⟨z, y, r, rfl⟩
      obtain ⟨z, y, r, h⟩ := this
      rw [h]
      simp
  induction gs with
  | nil => simp [irrSetExtra]
  | cons g rest ih =>
    unfold irrSetExtra
    cases hg : irrAddExtra g with
    | none =>
      have := (hne g).mp hg
      simp only [List.length_cons, List.mem_cons, forall_eq_or_imp, Bool.false_eq_true, false_iff, not_and,
        false_implies, and_true]
      intro h
      exact absurd h this
    | some g' =>
      have h2 : 2 ≤ g.length := by
        by_contra hn
        rw [(hne g).mpr hn] at hg
        simp at hg
      obtain ⟨i1, i2, i3⟩ := ih
      simp only [List.mem_cons, forall_eq_or_imp, h2, true_and, List.map_cons, List.length_cons, hg]
      refine ⟨i1, ?_, by rw [i3]⟩
      intro h
      rw [i2 h]

end gridsetthm

section gridsetreg
open C15
variable {K : Type} [Field K] [LinearOrder K] [IsStrictOrderedRing K] [FloorRing K] [RoundOps K]
  [LawfulRoundOps K]

/-- **extending a set of regular grids** (`ParameterGridSet.add_extra_lower_and_upper_bin`): for grids
as constructed (also after earlier extensions / copies: `ObjInv`) the loop runs to the end and every
member satisfies the invariant again, so every rounding theorem applies to every member of the
extended set. -/
theorem c15_gridset_extra (os : List (PGObj K)) (h : ∀ o ∈ os, ObjInv o) :
    (gridSetExtra os).2 = true ∧ (∀ o' ∈ (gridSetExtra os).1, ObjInv o') ∧
      (gridSetExtra os).1.length = os.length := by
  induction os with
  | nil => simp [gridSetExtra]
  | cons o rest ih =>
    obtain ⟨o', hstep, hinv⟩ := c15_object_extra_inv o (h o (by simp))
    obtain ⟨i1, i2, i3⟩ := ih (fun o ho => h o (by simp [ho]))
    unfold gridSetExtra
    rw [hstep]
    refine ⟨i1, ?_, by simp [i3]⟩
    intro o2 ho2
    simp only [List.mem_cons] at ho2
    rcases ho2 with rfl | ho2
    · exact hinv
    · exact i2 o2 ho2

end gridsetreg

namespace C15
theorem optAll_map_some {α β : Type} (l : List α) (f : α → Option β) (f' : α → β)
    (h : ∀ x ∈ l, f x = some (f' x)) : optAll (l.map f) = some (l.map f') := by
  induction l with
  | nil => rfl
  | cons a t ih =>
    simp only [List.map_cons]
    rw [h a (by simp)]
    simp only [optAll]
    rw [ih (fun x hx => h x (by simp [hx]))]
    rfl
end C15

section ilinps
variable {F : Type} [Field F] [LinearOrder F] [BEq F] [LawfulBEq F]

/-- **several per-source values over an irregular grid**: value and gradient number
`i = ns[0]+…+ns[k-1]+j` of a fresh call are the line through source `k`'s own neighbouring grid
members `a ≤ xs[k] < b` (each source may sit in a cell of a different width), evaluated at source
`k`'s own parameter value — no other source's parameter or cell enters. -/
theorem c15_irregular_linear_per_source (g : List F) (hs : g.Pairwise (· < ·)) (Mf : Option Int → List F → List F)
    (ns : List ℕ) (sid : Option Int) (xs : List F) (hlen : xs.length = ns.length)
    (hin : ∀ x ∈ xs, (∃ a ∈ g, a ≤ x) ∧ (∃ b ∈ g, x < b))
    (hM : ∀ t, (Mf sid t).length = ns.sum)
    (k j : ℕ) (hk : k < xs.length) (hkn : k < ns.length) (hj : j < ns[k]) :
    ∃ X0 X1 a b m0 m1 vals grads, irrLowerArr g xs = some X0 ∧ irrUpperArr g xs = some X1 ∧
      a ∈ g ∧ b ∈ g ∧ a ≤ xs[k] ∧ xs[k] < b ∧ (∀ c ∈ g, c ≤ a ∨ b ≤ c) ∧
      (Mf sid X0)[(ns.take k).sum + j]? = some m0 ∧ (Mf sid X1)[(ns.take k).sum + j]? = some m1 ∧
      linSpecIrr g Mf ns sid xs = some (vals, grads) ∧
      vals[(ns.take k).sum + j]? = some (lineValue a b m0 m1 xs[k]) ∧
      grads[(ns.take k).sum + j]? = some (lineGrad a b m0 m1) := by
  -- the per-source lower / upper members as total functions on the given values
  let lo : F → F := fun x => (irrLowerC g x).getD x
  let up : F → F := fun x => (irrUpper g x).getD x
  have hlo : ∀ x ∈ xs, irrLowerC g x = some (lo x) := by
    intro x hx
    obtain ⟨a, ha, _⟩ := c15_irregular_lower g hs x (hin x hx).1
    have : irrLowerC g x = some a := by rw [(c15_irregular_lower_checked g hs x).2 (hin x hx).1, ha]
    simp [lo, this]
  have hup : ∀ x ∈ xs, irrUpper g x = some (up x) := by
    intro x hx
    obtain ⟨b, hb, _⟩ := c15_irregular_upper g hs x (hin x hx).2
    simp [up, hb]
  have hX0 : irrLowerArr g xs = some (xs.map lo) := C15.optAll_map_some xs _ lo hlo
  have hX1 : irrUpperArr g xs = some (xs.map up) := C15.optAll_map_some xs _ up hup
  have hxk : xs[k] ∈ xs := List.getElem_mem hk
  obtain ⟨a, ha, ham, hax, hagr⟩ := c15_irregular_lower g hs xs[k] (hin _ hxk).1
  obtain ⟨b, hb, hbm, hxb, hbls⟩ := c15_irregular_upper g hs xs[k] (hin _ hxk).2
  have hak : lo xs[k] = a := by
    have := hlo _ hxk
    rw [(c15_irregular_lower_checked g hs xs[k]).2 (hin _ hxk).1, ha] at this
    exact (Option.some.inj this).symm
  have hbk : up xs[k] = b := by
    have := hup _ hxk
    rw [hb] at this
    exact (Option.some.inj this).symm
  obtain ⟨lx, hlx, ex⟩ := c15_per_source_broadcast xs ns hlen k j hk hkn hj
  obtain ⟨l0, hl0, e0⟩ := c15_per_source_broadcast (xs.map lo) ns (by simpa using hlen) k j (by simpa using hk) hkn hj
  obtain ⟨l1, hl1, e1⟩ := c15_per_source_broadcast (xs.map up) ns (by simpa using hlen) k j (by simpa using hk) hkn hj
  simp only [List.getElem_map, hak, hbk] at e0 e1
  have hidx : (ns.take k).sum + j < ns.sum := by
    have h1 : ns.sum = (ns.take k).sum + (ns.drop k).sum := by rw [← List.sum_append, List.take_append_drop]
    have h2 : ns.drop k = ns[k] :: ns.drop (k + 1) := by rw [List.drop_eq_getElem_cons hkn]
    rw [h1, h2, List.sum_cons]
    omega
  have i0 : (ns.take k).sum + j < (Mf sid (xs.map lo)).length := by rw [hM]; exact hidx
  have i1 : (ns.take k).sum + j < (Mf sid (xs.map up)).length := by rw [hM]; exact hidx
  obtain ⟨vals, grads, hsp, hv, hg⟩ := C15.ilin_value_at g Mf ns sid xs _ _ lx l0 l1 hX0 hX1 hlx hl0 hl1
    (hM _) (hM _) _ xs[k] a b _ _ ex e0 e1 (List.getElem?_eq_getElem i0) (List.getElem?_eq_getElem i1)
  refine ⟨_, _, a, b, _, _, vals, grads, hX0, hX1, ham, hbm, hax, hxb, ?_, List.getElem?_eq_getElem i0,
    List.getElem?_eq_getElem i1, hsp, hv, hg⟩
  intro c hc
  rcases le_or_gt c xs[k] with h | h
  · exact Or.inl (hagr c hc h)
  · exact Or.inr (hbls c hc h)

end ilinps

/-- non-vacuity: two sources in cells of width 1 and 4 -/
example : linSpecIrr [(1 : ℚ), 2, 4, 8] (fun _ t => match t with | [u, v] => [3 * u + 1, 3 * u + 1, 3 * v + 1] | _ => [])
    [2, 1] (some 1) [3 / 2, 5] = some ([11 / 2, 11 / 2, 16], [3, 3, 3]) := by decide +kernel

section ilinderiv
open Filter Topology

/-- **gradient = derivative of the reported value, irregular grid**: inside an open cell `(a, b)`
of an irregular grid (neighbouring members of any distance) the code-shaped fresh call
(rounding by `searchsorted`, broadcast, manifold function, line parameters) reports, for all
parameter values near `x`, the value `val t` and one and the same gradient, and that gradient is the
derivative of `val` at `x`. -/
theorem c15_grad_is_deriv_irregular_linear (g : List ℝ) (hs : g.Pairwise (· < ·))
    (Mf : Option Int → List ℝ → List ℝ) (ns : List ℕ) (sid : Option Int) (x a b : ℝ)
    (ha : a ∈ g) (hb : b ∈ g) (hax : a < x) (hxb : x < b) (hnb : ∀ c ∈ g, c ≤ a ∨ b ≤ c)
    (hM : ∀ t, (Mf sid [t]).length = ns.sum) (i : ℕ) (hi : i < ns.sum) :
    ∃ (val : ℝ → ℝ) (grad : ℝ),
      (∀ᶠ t in 𝓝 x, ∃ vals grads, linSpecIrr g Mf ns sid [t] = some (vals, grads) ∧
        vals[i]? = some (val t) ∧ grads[i]? = some grad) ∧
      HasDerivAt val grad x := by
  have i0 : i < (Mf sid [a]).length := by rw [hM]; exact hi
  have i1 : i < (Mf sid [b]).length := by rw [hM]; exact hi
  refine ⟨fun t => lineValue a b (Mf sid [a])[i] (Mf sid [b])[i] t, lineGrad a b (Mf sid [a])[i] (Mf sid [b])[i], ?_,
    c15_grad_is_deriv_linear a b _ _ x⟩
  refine Filter.eventually_of_mem (Ioo_mem_nhds hax hxb) ?_
  intro t ht
  obtain ⟨a', b', m0, m1, vals, grads, ham, hbm, hat, htb, hnb', hm0, hm1, hsp, hv, hg⟩ :=
    c15_irregular_linear_shared g hs Mf ns sid t ⟨a, ha, ht.1.le⟩ ⟨b, hb, ht.2⟩ hM i hi
  have haa : a' = a := by
    apply le_antisymm
    · rcases hnb a' ham with h | h
      · exact h
      · exact absurd (lt_of_le_of_lt (le_trans h hat) ht.2) (lt_irrefl _)
    · rcases hnb' a ha with h | h
      · exact h
      · exact absurd (lt_of_lt_of_le htb h) (not_lt.mpr ht.1.le)
  have hbb : b' = b := by
    apply le_antisymm
    · rcases hnb' b hb with h | h
      · exact absurd (lt_of_lt_of_le ht.2 (le_trans h hat)) (lt_irrefl _)
      · exact h
    · rcases hnb b' hbm with h | h
      · exact absurd (lt_of_lt_of_le htb h) (not_lt.mpr ht.1.le)
      · exact h
  subst haa hbb
  rw [List.getElem?_eq_getElem i0] at hm0
  rw [List.getElem?_eq_getElem i1] at hm1
  rw [← Option.some.inj hm0, ← Option.some.inj hm1] at hv hg
  exact ⟨vals, grads, hsp, hv, hg⟩

/-- non-vacuity: the cell (2, 4) of the grid [1, 2, 4, 8] -/
example : ∃ a ∈ [(1 : ℝ), 2, 4, 8], ∃ b ∈ [(1 : ℝ), 2, 4, 8], a < 3 ∧ (3 : ℝ) < b ∧
    ∀ c ∈ [(1 : ℝ), 2, 4, 8], c ≤ a ∨ b ≤ c :=
  ⟨2, by simp, 4, by simp, by norm_num, by norm_num, by
    intro c hc
    simp only [List.mem_cons, List.not_mem_nil, or_false] at hc
    rcases hc with rfl | rfl | rfl | rfl <;> norm_num⟩

end ilinderiv

section ilincross
open Filter Topology

/-- **no cross-talk between sources, as a derivative statement** (irregular grid, linear method):
value `i` of source `k` does not move when the parameter of *another* source `k'` moves inside its
open cell — the fresh call reports the same value and the same gradient for all `t` near `xs[k']`,
so `∂ vals[i] / ∂ xs[k'] = 0` (the reported gradient array has one row: the derivative with respect
to the value's own source parameter, `c15_grad_is_deriv_irregular_linear`). -/
theorem c15_irregular_cross_gradient_zero (g : List ℝ) (hs : g.Pairwise (· < ·))
    (Mf : Option Int → List ℝ → List ℝ) (ns : List ℕ) (sid : Option Int) (xs : List ℝ) (hlen : xs.length = ns.length)
    (hin : ∀ x ∈ xs, (∃ a ∈ g, a ≤ x) ∧ (∃ b ∈ g, x < b))
    (hM : ∀ t, (Mf sid t).length = ns.sum)
    (k j k' : ℕ) (hk : k < xs.length) (hkn : k < ns.length) (hj : j < ns[k]) (hk' : k' < xs.length) (hne : k' ≠ k)
    (a' b' : ℝ) (ha' : a' ∈ g) (hb' : b' ∈ g) (hax : a' < xs[k']) (hxb : xs[k'] < b') (hnb : ∀ c ∈ g, c ≤ a' ∨ b' ≤ c) :
    ∃ v gr : ℝ,
      (∀ᶠ t in 𝓝 xs[k'], ∃ vals grads, linSpecIrr g Mf ns sid (xs.set k' t) = some (vals, grads) ∧
        vals[(ns.take k).sum + j]? = some v ∧ grads[(ns.take k).sum + j]? = some gr) ∧
      HasDerivAt (fun _ : ℝ => v) 0 xs[k'] := by
  obtain ⟨X0, X1, a, b, m0, m1, vals, grads, hX0, hX1, ham, hbm, hax0, hxb0, hnb0, hm0, hm1, hsp, hv, hg⟩ :=
    c15_irregular_linear_per_source g hs Mf ns sid xs hlen hin hM k j hk hkn hj
  refine ⟨lineValue a b m0 m1 xs[k], lineGrad a b m0 m1, ?_, hasDerivAt_const _ _⟩
  refine Filter.eventually_of_mem (Ioo_mem_nhds hax hxb) ?_
  intro t ht
  -- inside the open cell the two roundings of `t` are those of `xs[k']`
  have hcell : ∀ u : ℝ, a' < u → u < b' → irrLowerC g u = some a' ∧ irrUpper g u = some b' := by
    intro u h1 h2
    obtain ⟨a2, ha2, ha2m, ha2u, ha2g⟩ := c15_irregular_lower g hs u ⟨a', ha', h1.le⟩
    obtain ⟨b2, hb2, hb2m, hub2, hb2l⟩ := c15_irregular_upper g hs u ⟨b', hb', h2⟩
    have e1 : a2 = a' := by
      apply le_antisymm
      · rcases hnb a2 ha2m with h | h
        · exact h
        · exact absurd (lt_of_le_of_lt (le_trans h ha2u) h2) (lt_irrefl _)
      · exact ha2g a' ha' h1.le
    have e2 : b2 = b' := by
      apply le_antisymm
      · exact hb2l b' hb' h2
      · rcases hnb b2 hb2m with h | h
        · exact absurd (lt_of_lt_of_le hub2 h) (not_lt.mpr h1.le)
        · exact h
    rw [(c15_irregular_lower_checked g hs u).2 ⟨a', ha', h1.le⟩, ha2, hb2, e1, e2]
    exact ⟨rfl, rfl⟩
  have hmapset : ∀ (f : ℝ → Option ℝ), f t = f xs[k'] → (xs.set k' t).map f = xs.map f := by
    intro f hf
    rw [List.map_set, hf]
    apply List.ext_getElem (by simp)
    intro n h1 h2
    by_cases hn : k' = n
    · subst hn; simp
    · simp [List.getElem_set_of_ne hn]
  have hL : irrLowerArr g (xs.set k' t) = some X0 := by
    unfold irrLowerArr at hX0 ⊢
    rw [hmapset _ (by rw [(hcell t ht.1 ht.2).1, (hcell _ hax hxb).1])]
    exact hX0
  have hU : irrUpperArr g (xs.set k' t) = some X1 := by
    unfold irrUpperArr at hX1 ⊢
    rw [hmapset _ (by rw [(hcell t ht.1 ht.2).2, (hcell _ hax hxb).2])]
    exact hX1
  have hlen' : (xs.set k' t).length = ns.length := by simpa using hlen
  have hk2 : k < (xs.set k' t).length := by simpa using hk
  have hxk : (xs.set k' t)[k] = xs[k] := by simp [List.getElem_set_of_ne hne]
  have hin' : ∀ x ∈ xs.set k' t, (∃ a ∈ g, a ≤ x) ∧ (∃ b ∈ g, x < b) := by
    intro x hx
    rcases List.mem_or_eq_of_mem_set hx with h | h
    · exact hin x h
    · subst h; exact ⟨⟨a', ha', ht.1.le⟩, ⟨b', hb', ht.2⟩⟩
  obtain ⟨Y0, Y1, c, d, n0, n1, vals', grads', hY0, hY1, hcm, hdm, hcx, hxd, hnb2, hn0, hn1, hsp', hv', hg'⟩ :=
    c15_irregular_linear_per_source g hs Mf ns sid (xs.set k' t) hlen' hin' hM k j hk2 hkn hj
  rw [hL] at hY0
  rw [hU] at hY1
  obtain rfl := Option.some.inj hY0
  obtain rfl := Option.some.inj hY1
  rw [hm0] at hn0
  rw [hm1] at hn1
  obtain rfl := Option.some.inj hn0
  obtain rfl := Option.some.inj hn1
  rw [hxk] at hcx hxd hv'
  have eca : c = a := by
    apply le_antisymm
    · rcases hnb0 c hcm with h | h
      · exact h
      · exact absurd (lt_of_le_of_lt (le_trans h hcx) hxb0) (lt_irrefl _)
    · rcases hnb2 a ham with h | h
      · exact h
      · exact absurd (lt_of_lt_of_le hxd h) (not_lt.mpr hax0)
  have edb : d = b := by
    apply le_antisymm
    · rcases hnb2 b hbm with h | h
      · exact absurd (lt_of_lt_of_le hxb0 (le_trans h hcx)) (lt_irrefl _)
      · exact h
    · rcases hnb0 d hdm with h | h
      · exact absurd (lt_of_lt_of_le hxd h) (not_lt.mpr hax0)
      · exact h
  subst eca edb
  exact ⟨vals', grads', hsp', hv', hg'⟩

end ilincross
