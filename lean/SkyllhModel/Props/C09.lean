/-
  Property C09 — parallel map returns all results in input order, or fails loudly.
  Theorems about `Model/Par.lean`.
-/
import SkyllhModel.Proofs.Par
import SkyllhModel.Proofs.ParStatus
import SkyllhModel.Model.ParSetupR7
import SkyllhModel.Generated.C09
import Mathlib.Tactic

open Par

namespace C09

/-! ### `numpy.array_split` -/

theorem splitSizes_length {α : Type} (ks : List Nat) (xs : List α) :
    (splitSizes ks xs).length = ks.length := by
  induction ks generalizing xs with
  | nil => rfl
  | cons k ks ih => simp [splitSizes, ih]

theorem splitSizes_flatten {α : Type} (ks : List Nat) (xs : List α) (h : xs.length ≤ ks.sum) :
    (splitSizes ks xs).flatten = xs := by
  induction ks generalizing xs with
  | nil =>
    have : xs = [] := by simpa using h
    simp [splitSizes, this]
  | cons k ks ih =>
    have h' : (xs.drop k).length ≤ ks.sum := by simp at h ⊢; omega
    simp [splitSizes, ih _ h']

theorem splitSizes_lengths {α : Type} (ks : List Nat) (xs : List α) (h : ks.sum ≤ xs.length) :
    (splitSizes ks xs).map List.length = ks := by
  induction ks generalizing xs with
  | nil => rfl
  | cons k ks ih =>
    have h' : ks.sum ≤ (xs.drop k).length := by simp at h ⊢; omega
    have hk : k ≤ xs.length := by simp at h; omega
    simp [splitSizes, ih _ h', hk]

theorem sum_sizes (q r m : Nat) :
    ((List.range m).map (fun i => q + (if i < r then 1 else 0))).sum = m * q + min m r := by
  induction m with
  | zero => simp
  | succ m ih =>
    rw [List.range_succ, List.map_append, List.sum_append, ih]
    by_cases h : m < r
    · have h1 : min m r = m := by omega
      have h2 : min (m + 1) r = m + 1 := by omega
      rw [h1, h2]; simp [h]; ring
    · have h1 : min m r = r := by omega
      have h2 : min (m + 1) r = r := by omega
      rw [h1, h2]; simp [h]; ring

theorem chunkSizes_sum (n ncpu : Nat) (h : 1 ≤ ncpu) : (chunkSizes n ncpu).sum = n := by
  unfold chunkSizes
  rw [sum_sizes]
  have : n % ncpu < ncpu := Nat.mod_lt _ (by omega)
  rw [Nat.min_eq_right (by omega)]
  exact Nat.div_add_mod n ncpu

end C09

open C09

/-- **array_split is a partition**: for every argument list and every `ncpu ≥ 1` (more processes than
tasks included) the chunks concatenate to the input, there are exactly `ncpu` of them (empty ones
allowed), the chunk of process `i` has `n / ncpu + 1` elements for `i < n % ncpu` and `n / ncpu`
otherwise — so sizes differ by at most one. -/
theorem c09_split_partition {α : Type} (xs : List α) (ncpu : Nat) (h : 1 ≤ ncpu) :
    (arraySplit xs ncpu).flatten = xs ∧ (arraySplit xs ncpu).length = ncpu ∧
    (arraySplit xs ncpu).map List.length = chunkSizes xs.length ncpu ∧
    ∀ c ∈ arraySplit xs ncpu, c.length = xs.length / ncpu ∨ c.length = xs.length / ncpu + 1 := by
  have hs := chunkSizes_sum xs.length ncpu h
  have hl : (arraySplit xs ncpu).map List.length = chunkSizes xs.length ncpu :=
    splitSizes_lengths _ _ (by omega)
  refine ⟨splitSizes_flatten _ _ (by omega), ?_, hl, ?_⟩
  · simp [arraySplit, splitSizes_length, chunkSizes]
  · intro c hc
    have : c.length ∈ chunkSizes xs.length ncpu := by
      rw [← hl]; exact List.mem_map_of_mem hc
    simp only [chunkSizes, List.mem_map, List.mem_range] at this
    obtain ⟨i, _, hi⟩ := this
    split_ifs at hi <;> omega

example : arraySplit [10, 11, 12, 13, 14, 15, 16] 3 = [[10, 11, 12], [13, 14], [15, 16]] := by decide
example : arraySplit [10, 11] 4 = [[10], [11], [], []] := by decide

/-! ### the transition system -/

namespace C09

theorem flatMap_range_getD {α γ : Type} (l : List (List α)) (F : Nat → List α → List γ) :
    (List.range l.length).flatMap (fun p => F p (l[p]?.getD [])) = (l.mapIdx F).flatten := by
  rw [List.flatMap_def]
  congr 1
  apply List.ext_getElem
  · simp
  · intro i h1 h2
    simp at h1
    simp [h1]

theorem mapIdx_const {α γ : Type} (g : α → γ) (l : List α) : l.mapIdx (fun _ x => g x) = l.map g := by
  apply List.ext_getElem <;> simp

/-- what `parallelize(func, args, ncpu)` has to return when `func` is a pure function `g` -/
theorem expected_mkCfg_pure {α β : Type} (g : α → β) (args : List α) (ncpu : Nat) (h : 1 ≤ ncpu)
    (fault : Nat → Option Fault) (logs : Bool) :
    expected (mkCfg (fun _ _ x => g x) args ncpu fault logs) = args.map g := by
  have hp := c09_split_partition args ncpu h
  have hl : (arraySplit args ncpu).length = ncpu - 1 + 1 := by rw [hp.2.1]; omega
  unfold expected mkCfg full
  simp only
  rw [← hl, flatMap_range_getD (arraySplit args ncpu) (fun _ c => c.mapIdx (fun _ x => g x))]
  simp only [mapIdx_const]
  rw [← List.map_flatten, hp.1]

end C09

variable {α β : Type}

/-- **Never a partial or re-ordered result**: for every configuration (chunks, function, fault plan),
every schedule and every moment — if `parallelize` has returned a result list `r`, then `r` is the
concatenation, chunk after chunk in pid order, of the results of all tasks (`expected cfg`).
No fairness and no fault-freedom is assumed. -/
theorem c09_no_partial_results (cfg : Cfg α β) (σ : Nat → Agent) (k : Nat) (r : List β)
    (hend : (run cfg σ k).m = .done r) : r = expected cfg :=
  (safe_run cfg σ k).done r hend

/-- **Order** (the statement of the design, with the fault-freedom hypothesis dropped): for a pure
function `g`, every argument list, every `ncpu ≥ 1` (more processes than tasks included), every fault
plan and every completion order, a run that ends with a result ends with exactly `map g args`:
one result per input, in input order. -/
theorem c09_order (g : α → β) (args : List α) (ncpu : Nat) (h : 1 ≤ ncpu) (fault : Nat → Option Fault)
    (logs : Bool) (σ : Nat → Agent) (k : Nat) (r : List β)
    (hend : (run (mkCfg (fun _ _ x => g x) args ncpu fault logs) σ k).m = .done r) :
    r = args.map g := by
  rw [c09_no_partial_results _ σ k r hend, C09.expected_mkCfg_pure g args ncpu h]

/-- **Order for a function that depends on the process and the local task number** (the per-process
random state): the expected list is, chunk after chunk of `array_split` in pid order, the chunk mapped
with `f pid t` — so with `c09_split_partition` entry `i` of the result is the result of input `i`,
computed by the process that owns it. -/
theorem c09_expected_mapIdx (f : Nat → Nat → α → β) (args : List α) (ncpu : Nat) (h : 1 ≤ ncpu)
    (fault : Nat → Option Fault) (logs : Bool) :
    expected (mkCfg f args ncpu fault logs) =
      ((arraySplit args ncpu).mapIdx (fun p c => c.mapIdx (f p))).flatten := by
  have hp := c09_split_partition args ncpu h
  have hl : (arraySplit args ncpu).length = ncpu - 1 + 1 := by rw [hp.2.1]; omega
  unfold expected mkCfg full
  simp only
  rw [← hl, C09.flatMap_range_getD (arraySplit args ncpu) (fun p c => c.mapIdx (f p))]

theorem C09.length_flatten_mapIdx (l : List (List α)) (F : Nat → List α → List β)
    (hF : ∀ p c, (F p c).length = c.length) : ((l.mapIdx F).flatten).length = l.flatten.length := by
  simp only [List.length_flatten]
  congr 1
  apply List.ext_getElem <;> simp [hF]

/-- exactly one result per input, also for a function that depends on process and task number -/
theorem c09_expected_length (f : Nat → Nat → α → β) (args : List α) (ncpu : Nat) (h : 1 ≤ ncpu)
    (fault : Nat → Option Fault) (logs : Bool) :
    (expected (mkCfg f args ncpu fault logs)).length = args.length := by
  rw [c09_expected_mapIdx f args ncpu h, C09.length_flatten_mapIdx _ _ (by simp),
    (c09_split_partition args ncpu h).1]

/-- **Determinism**: the returned list depends on the configuration (function incl. the per-process
random state — `f` may depend on pid and local task number —, arguments, number of processes) only,
not on the completion order of the processes. -/
theorem c09_deterministic (cfg : Cfg α β) (σ₁ σ₂ : Nat → Agent) (k₁ k₂ : Nat) (r₁ r₂ : List β)
    (h₁ : (run cfg σ₁ k₁).m = .done r₁) (h₂ : (run cfg σ₂ k₂).m = .done r₂) : r₁ = r₂ := by
  rw [c09_no_partial_results cfg σ₁ k₁ r₁ h₁, c09_no_partial_results cfg σ₂ k₂ r₂ h₂]

/-- **No deadlock**: in every state, reachable or not, in which `parallelize` has not ended, the
master or one of the children can make a step that lowers the ranking function `pot`. -/
theorem c09_no_deadlock (cfg : Cfg α β) (s : State (MPhase β) β) (h : s.m.terminal = false)
    (hnr : s.m ≠ .recv) :
    ∃ a, ValidAgent cfg.nchild a ∧ pot cfg (step cfg s a) < pot cfg s :=
  exists_productive cfg s h hnr

/-- **Never hangs**: under weak fairness (every process gets a turn again and again) every run of the
gather loop ends — with a result or with an error — whatever the faults and the completion order.
(ranking function `pot`; every step either leaves the state unchanged or lowers it) -/
theorem c09_terminates (cfg : Cfg α β) (hnp : NoPartial cfg) (σ : Nat → Agent) (hf : Fair cfg.nchild σ) :
    ∃ k, (run cfg σ k).m.terminal = true :=
  terminates cfg hnp σ hf

/-- without faults `parallelize` never raises -/
theorem c09_no_error_without_fault (cfg : Cfg α β) (hnf : ∀ j, cfg.fault j = none)
    (hmf : cfg.mfault = none) (σ : Nat → Agent) (k : Nat) : (run cfg σ k).m ≠ .error :=
  (clean_run cfg hnf hmf σ k).1.noerr

/-- **Progress without faults**: every fair fault-free run ends with the complete, ordered result. -/
theorem c09_progress_no_fault (cfg : Cfg α β) (hnf : ∀ j, cfg.fault j = none) (hmf : cfg.mfault = none)
    (σ : Nat → Agent) (hf : Fair cfg.nchild σ) : ∃ k, (run cfg σ k).m = .done (expected cfg) := by
  obtain ⟨k, hk⟩ := terminates cfg (fun j => by simp [hnf j, partialFault]) σ hf
  refine ⟨k, ?_⟩
  cases hm : (run cfg σ k).m with
  | done r => rw [c09_no_partial_results cfg σ k r hm]
  | error => exact absurd hm (c09_no_error_without_fault cfg hnf hmf σ k)
  | _ => simp [hm, MPhase.terminal] at hk

/-- a worker that raises or dies never leads to a returned result, whatever the schedule -/
theorem c09_fault_never_returns (cfg : Cfg α β) (j : Nat) (heff : Effective cfg j) (σ : Nat → Agent)
    (k : Nat) (r : List β) : (run cfg σ k).m ≠ .done r :=
  never_done cfg j heff σ k r

/-- **Fails loudly**: if some child raises at one of its tasks, leaves with any exit code at one of
its tasks, or dies after its result was queued (delivered or lost), every fair run ends with an
error: never a result, never a hang. -/
theorem c09_fault_loud (cfg : Cfg α β) (hnp : NoPartial cfg) (j : Nat) (heff : Effective cfg j)
    (σ : Nat → Agent) (hf : Fair cfg.nchild σ) : ∃ k, (run cfg σ k).m = .error := by
  obtain ⟨k, hk⟩ := terminates cfg hnp σ hf
  refine ⟨k, ?_⟩
  cases hm : (run cfg σ k).m with
  | done r => exact absurd hm (never_done cfg j heff σ k r)
  | error => rfl
  | _ => simp [hm, MPhase.terminal] at hk

/-- the master process is a worker too: if the function raises at one of the master's own tasks the
call never returns a result … -/
theorem c09_master_fault_never_returns (cfg : Cfg α β) (hmf : MasterFault cfg) (σ : Nat → Agent)
    (k : Nat) (r : List β) : (run cfg σ k).m ≠ .done r :=
  never_done_master cfg hmf σ k r

/-- … and every fair run ends with the error -/
theorem c09_master_fault_loud (cfg : Cfg α β) (hnp : NoPartial cfg) (hmf : MasterFault cfg)
    (σ : Nat → Agent) (hf : Fair cfg.nchild σ) : ∃ k, (run cfg σ k).m = .error := by
  obtain ⟨k, hk⟩ := terminates cfg hnp σ hf
  refine ⟨k, ?_⟩
  cases hm : (run cfg σ k).m with
  | done r => exact absurd hm (never_done_master cfg hmf σ k r)
  | error => rfl
  | _ => simp [hm, MPhase.terminal] at hk

/-- **"raises or dies at any point"**, the statement of the design (`c09_fault_loud_statement`): a child
raises / exits at one of its tasks, dies between `rqueue.put` and the log sentinel (result delivered or
lost), dies with a non-zero exit code after the sentinel, or the function raises in the master — every
fair run ends with an error.  The one point not covered is a death in the middle of a pipe write
(`NoPartial`, see `c09_partial_write_hang_counterexample`). -/
def c09_fault_loud_statement : Prop :=
  ∀ (cfg : Cfg Nat Nat) (σ : Nat → Agent), NoPartial cfg → ((∃ j, Effective cfg j) ∨ MasterFault cfg) →
    Fair cfg.nchild σ → ∃ k, (run cfg σ k).m = .error

theorem c09_fault_loud_holds : c09_fault_loud_statement := by
  intro cfg σ hnp h hf
  rcases h with ⟨j, hj⟩ | hmf
  · exact c09_fault_loud cfg hnp j hj σ hf
  · exact c09_master_fault_loud cfg hnp hmf σ hf

/-- **No child is left behind**: whenever `parallelize` has raised — any faults, any schedule — every
child process has terminated (`stop_processes()` before each `raise`; the accidental exits `KeyError`
and "pid out of range" are unreachable). -/
theorem c09_error_no_orphans (cfg : Cfg α β) (σ : Nat → Agent) (k : Nat)
    (h : (run cfg σ k).m = .error) : ∀ j < cfg.nchild, isExited ((run cfg σ k).ws j).phase = true :=
  error_no_orphans cfg σ k h

/-- "a fault-free run never ends with an error" for the gather loop with the two reads swapped
(`rqueue.get` first, exit codes after `queue.Empty`) — false: -/
def c09_check_after_get_statement : Prop :=
  ∀ (cfg : Cfg Nat Nat) (σ : Nat → Agent) (k : Nat), (∀ j, cfg.fault j = none) → cfg.mfault = none →
    (Swapped.run cfg σ k).m ≠ .error

/-- the child delivers its result and exits between the master's two reads: spurious `RuntimeError`.
In `masterStep` the exit codes are a snapshot taken *before* the `get` (field `ended`), for which
`c09_no_error_without_fault` holds. -/
theorem c09_check_after_get_counterexample : ¬ c09_check_after_get_statement :=
  fun h => h cfgNoFault (sched preSwapped 1) 8 (fun _ => rfl) rfl swapped_error

/-- the same claim for a child that dies *while its result is being written into the pipe* (possible as
soon as the result is larger than the pipe buffer) — false for the current code -/
def c09_partial_write_loud_statement : Prop :=
  ∀ (cfg : Cfg Nat Nat) (σ : Nat → Agent),
    (∃ j c, j < cfg.nchild ∧ cfg.fault j = some (.exitQueuedPartial c)) → Fair cfg.nchild σ →
    ∃ k, (run cfg σ k).m.terminal = true

/-- 2 processes, 4 tasks, round-robin: the master takes the truncated message with
`rqueue.get(block=False)` and blocks in the receive for ever (open finding, reproduced on the code with
200 kB results) -/
theorem c09_partial_write_hang_counterexample : ¬ c09_partial_write_loud_statement := by
  intro h
  obtain ⟨k, hk⟩ := h cfgPartial (sched [] 1) ⟨0, 3, by decide, rfl⟩ (sched_fair [] 1)
  by_cases hlt : k < 10
  · have : ∀ k < 10, (run cfgPartial (sched [] 1) k).m.terminal = false := by decide
    simp [this k hlt] at hk
  · obtain ⟨d, rfl⟩ : ∃ d, k = 10 + d := ⟨k - 10, by omega⟩
    rw [recv_forever cfgPartial (sched [] 1) 10 partial_recv d] at hk
    simp [MPhase.terminal] at hk

/-! non-vacuity: fair schedules exist, the hypotheses are met by concrete configurations, and the
model really reaches the claimed ends -/

example : Fair 2 (sched [] 2) := sched_fair [] 2
example : Effective cfgRaise 0 := ⟨by decide, Or.inl ⟨1, Or.inl rfl, by decide⟩⟩
example : Effective cfgAfterQueued 0 := ⟨by decide, Or.inr (Or.inl ⟨3, true, rfl⟩)⟩
example : Effective (mkCfg (fun _ _ x => x) [0, 1, 2, 3] 2 (fun j => if j = 0 then some (.exitAfterSentinel 3) else none) false) 0 :=
  ⟨by decide, Or.inr (Or.inr ⟨3, by decide, rfl⟩)⟩
example : (run (mkCfg (fun _ _ x => x) [0, 1, 2, 3] 2 (fun j => if j = 0 then some (.exitAfterSentinel 3) else none) false)
    (sched [] 1) 24).m = .error := by decide
example : MasterFault (mkCfg (fun _ _ x => x) [0, 1, 2, 3] 2 (fun _ => none) false (some 1)) := ⟨1, rfl, by decide⟩
example : (run (mkCfg (fun _ _ x => x) [0, 1, 2, 3] 2 (fun _ => none) false (some 1)) (sched [] 1) 6).m = .error := by
  decide
example : (run cfgNoFault (sched preSwapped 1) 20).m = .done [0, 1] := by decide
example : (run cfgRaise (sched preRaise 2) 24).m = .error := by decide
example : (run cfgExit0 (sched [] 1) 16).m = .error := by decide
example : (run cfgAfterQueued (sched [] 1) 20).m = .error := by decide
example : (run (mkCfg (fun _ _ x => 10 * x) [0, 1, 2, 3, 4] 3 (fun _ => none) true) (sched [] 2) 40).m
    = .done [0, 10, 20, 30, 40] := by decide
set_option maxRecDepth 4000 in
example : (run (mkCfg (fun _ _ x => 10 * x) [0, 1] 4 (fun _ => none) true)
    (sched [.child 2, .child 2, .child 0] 3) 60).m = .done [0, 10] := by decide

/-! ### the gather loop of the pinned commit (`Orig`) hangs: the three leads of the design -/

/-- "every fair run of the pinned gather loop ends" — false, see the three counterexamples -/
def c09_orig_terminates_statement : Prop :=
  ∀ (cfg : Cfg Nat Nat) (σ : Nat → Agent), Fair cfg.nchild σ →
    ∃ k, (Orig.run cfg σ k).m.terminal = true

/-- (i) a child that exits with code 0 without a result makes the polling loop spin for ever:
2 processes, 4 tasks, `os._exit(0)` at the child's first task, round-robin schedule -/
theorem c09_orig_hang_exit0_counterexample :
    ∃ σ, Fair cfgExit0.nchild σ ∧ ∀ k, (Orig.run cfgExit0 σ k).m.terminal = false :=
  ⟨sched [] 1, sched_fair [] 1,
    Orig.never_ends_of_stuck cfgExit0 (sched [] 1) 10 (by decide) (Or.inl exit0_stuck)⟩

/-- (ii) a child that dies between `rqueue.put` and the log sentinel blocks the master in
`lqueue.get()`: 2 processes, 4 tasks, exit code 3 after the result was delivered, round-robin -/
theorem c09_orig_hang_after_queued_counterexample :
    ∃ σ, Fair cfgAfterQueued.nchild σ ∧ ∀ k, (Orig.run cfgAfterQueued σ k).m.terminal = false :=
  ⟨sched [] 1, sched_fair [] 1,
    Orig.never_ends_of_stuck cfgAfterQueued (sched [] 1) 12 (by decide) (Or.inr afterQueued_stuck)⟩

/-- (iii) child A raises while child B finishes first (schedule `preRaise`, then round-robin): A's
iteration consumes B's result, B's iteration waits for ever (exit code 0, empty queue) -/
theorem c09_orig_hang_result_consumed_counterexample :
    ∃ σ, Fair cfgRaise.nchild σ ∧ ∀ k, (Orig.run cfgRaise σ k).m.terminal = false :=
  ⟨sched preRaise 2, sched_fair preRaise 2,
    Orig.never_ends_of_stuck cfgRaise (sched preRaise 2) 12 (by decide) (Or.inl raise_stuck)⟩

theorem c09_orig_terminates_counterexample : ¬ c09_orig_terminates_statement := by
  intro h
  obtain ⟨σ, hf, hn⟩ := c09_orig_hang_exit0_counterexample
  obtain ⟨k, hk⟩ := h cfgExit0 σ hf
  simp [hn k] at hk

/-! ### bounded work ("within bounded time" on the model, no fairness needed) -/

/-- number of state-changing steps among the first `k` steps of a run -/
def Par.work (cfg : Cfg α β) (σ : Nat → Agent) : Nat → Nat
  | 0 => 0
  | k+1 => Par.work cfg σ k + (if pot cfg (run cfg σ (k+1)) < pot cfg (run cfg σ k) then 1 else 0)

/-- **Bounded work**: whatever the schedule (fair or not) and the faults, a run makes at most
`pot cfg init` steps that change the state; every other step is a wait (sleeping poll, timed-out `get`,
`join`).  A gather loop that re-queues or re-polls without bound breaks this. -/
theorem c09_bounded_work (cfg : Cfg α β) (σ : Nat → Agent) (k : Nat) :
    Par.work cfg σ k + pot cfg (run cfg σ k) ≤ pot cfg (init : State (MPhase β) β) := by
  induction k with
  | zero => simp [Par.work, run]
  | succ k ih =>
    simp only [Par.work]
    rcases step_eq_or_dec cfg (run cfg σ k) (σ k) with he | hd
    · have : run cfg σ (k+1) = run cfg σ k := by simp [run, he]
      rw [this]; simp; exact ih
    · have hd' : pot cfg (run cfg σ (k+1)) < pot cfg (run cfg σ k) := by simpa [run] using hd
      simp [hd']; omega

/-- the bound, explicit: linear in the number of tasks (4 per task of a child, 1 per task of the master)
plus 12 per child and 5 -/
theorem c09_pot_init (cfg : Cfg α β) : pot cfg (init : State (MPhase β) β) =
    sumTo cfg.nchild (fun j => 4 * ((cfg.chunk (j+1)).length + 3)) + ((cfg.chunk 0).length + 4) + 1 := by
  simp [pot, init, initChild, childPot, stepsLeft, masterLeft, endedBit]

/-- **Bounded time under a concrete fair scheduler**: with round-robin over master and children
`parallelize` has ended after at most `pot init + 1` rounds, i.e. `(pot init + 1)·ncpu` steps, whatever
the faults (no death in the middle of a pipe write). -/
theorem c09_round_robin_bound (cfg : Cfg α β) (hnp : NoPartial cfg) :
    ∃ k, k ≤ (pot cfg (init : State (MPhase β) β) + 1) * (cfg.nchild + 1) ∧
      (run cfg (sched [] cfg.nchild) k).m.terminal = true :=
  round_robin_bound cfg hnp

/-! ### `get_ncpu` and `Analysis.do_trials` -/

/-- what `get_ncpu` returns is a legal worker count: the hypothesis `1 ≤ ncpu` of the theorems about
`mkCfg` is established by the code that computes `ncpu` -/
theorem C09.getNcpu_final (v : PyVal) (n : Nat)
    (h : (match v with
      | PyVal.int k => if k < 1 then (Except.error "ValueError" : Except String Nat) else Except.ok k.toNat
      | _ => Except.error "TypeError") = .ok n) : 1 ≤ n := by
  cases v with
  | int k =>
    simp only at h
    split at h
    · simp at h
    · simp at h; omega
  | none => simp at h
  | other => simp at h

theorem c09_get_ncpu_ge_one (c l : PyVal) (n : Nat) (h : getNcpu c l = .ok n) : 1 ≤ n :=
  C09.getNcpu_final _ n h

/-- `get_ncpu`: the local setting wins over the configuration, the default is 1 -/
theorem c09_get_ncpu_spec (c : PyVal) (k : Int) (hk : 1 ≤ k) :
    getNcpu c (.int k) = .ok k.toNat ∧ getNcpu (.int k) .none = .ok k.toNat ∧ getNcpu .none .none = .ok 1 := by
  refine ⟨?_, ?_, ?_⟩ <;> simp [getNcpu] <;> omega

/-- **`do_trials` order**: with `ncpu` from `get_ncpu` and at least one trial, a run of the parallel map
that returns makes `do_trials` return one record per trial, in trial order -/
theorem c09_do_trials_order (c l : PyVal) (ncpu : Nat) (hn : getNcpu c l = .ok ncpu) (g : α → β)
    (args : List α) (hne : args ≠ []) (fault : Nat → Option Fault) (logs : Bool) (σ : Nat → Agent) (k : Nat)
    (r : List β) (hend : (run (mkCfg (fun _ _ x => g x) args ncpu fault logs) σ k).m = .done r) :
    assembleTrials r = .ok (args.map g) := by
  have := c09_order g args ncpu (c09_get_ncpu_ge_one c l ncpu hn) fault logs σ k r hend
  subst this
  cases args with
  | nil => exact absurd rfl hne
  | cons a as => rfl

/-- "`do_trials` returns the (possibly empty) list of records" — false without a trial -/
def c09_do_trials_total_statement : Prop := ∀ rs : List Nat, ∃ r, assembleTrials rs = .ok r

/-- `do_trials(n = 0)`: `result_list[0].dtype` raises `IndexError` (open finding) -/
theorem c09_do_trials_zero_counterexample : ¬ c09_do_trials_total_statement := by
  intro h
  obtain ⟨r, hr⟩ := h []
  simp [assembleTrials] at hr

example : getNcpu .none (.int 3) = .ok 3 := by decide
example : getNcpu (.int 0) .none = .error "ValueError" := by decide
example : getNcpu .other .none = .error "TypeError" := by decide

/-! ### the status queue (`Model/ParStatus.lean`): a pipe of finite capacity in front of the exit -/

/-- **Batch mode never blocks on the status queue**: `squeue is None`, so nothing is ever in a feeder
buffer or in the pipe (whatever its capacity, 0 included), and the worker exits in every fair run. -/
theorem c09_status_batch_never_blocks (c : ParStatus.Cfg) (h : c.shown = false) (σ : Nat → ParStatus.Ag) :
    (∀ k, (ParStatus.run c σ k).buf = 0 ∧ (ParStatus.run c σ k).pipe = 0) ∧
    (ParStatus.Fair σ → ∃ k, (ParStatus.run c σ k).exited = true) :=
  ⟨ParStatus.batch_empty c h σ,
   fun hf => ParStatus.exits c σ hf (fun k => Or.inl (ParStatus.batch_empty c h σ k).1)⟩

/-- with the status queue emptied while joining, the worker exits in every fair run, interactive
session or not, for every number of tasks and every pipe capacity ≥ 1 -/
theorem c09_status_drain_at_join_exits (c : ParStatus.Cfg) (hd : c.drainAtJoin = true) (hc : 1 ≤ c.cap)
    (σ : Nat → ParStatus.Ag) (hf : ParStatus.Fair σ) : ∃ k, (ParStatus.run c σ k).exited = true :=
  ParStatus.exits c σ hf (fun _ => Or.inr ⟨hd, hc⟩)

/-- "the worker can always exit" without that — false in an interactive session -/
def c09_status_exits_statement : Prop :=
  ∀ (c : ParStatus.Cfg) (σ : Nat → ParStatus.Ag), 1 ≤ c.cap → ParStatus.Fair σ →
    ∃ k, (ParStatus.run c σ k).exited = true

/-- interactive session, the master has finished its own chunk, the worker writes more status
records than the pipe holds: its exit blocks for ever and `proc.join()` never returns -/
theorem c09_status_interactive_hang_counterexample : ¬ c09_status_exits_statement := by
  intro h
  obtain ⟨k, hk⟩ := h ParStatus.cfgHang (ParStatus.sched ParStatus.preHang) (by decide)
    (ParStatus.sched_fair _)
  by_cases hlt : k < 6
  · have : ∀ k < 6, (ParStatus.run ParStatus.cfgHang (ParStatus.sched ParStatus.preHang) k).exited = false := by
      decide
    simp [this k hlt] at hk
  · obtain ⟨d, rfl⟩ : ∃ d, k = 6 + d := ⟨k - 6, by omega⟩
    rw [ParStatus.hang_forever d] at hk
    revert hk; decide

example : ParStatus.Fair (ParStatus.sched []) := ParStatus.sched_fair []
example : (ParStatus.run { shown := true, cap := 2, tasks := 3, drainAtJoin := true }
    (ParStatus.sched ParStatus.preHang) 14).exited = true := by decide

/-! ## Round 7 — `get_ncpu` / `IsParallelizable.ncpu` with the literals of the source, the set-up of
`parallelize` (type checks, one seed per child drawn from the caller's service, one `TimeLord` per child),
the exit-code loop after the joins (`Model/ParSetupR7.lean`) -/

section Round7
open ParSetup

/-- the parametrised `get_ncpu` at the recorded literals is the model used so far -/
theorem c09_get_ncpu_p_eq (c l : PyVal) : getNcpuP 1 1 c l = getNcpu c l := by
  cases c <;> cases l <;> simp [getNcpuP, getNcpu]

/-- whatever the two literals are, as long as the lower bound is at least 1: every worker count `get_ncpu`
returns is at least 1 -/
theorem c09_get_ncpu_p_ge_one (d m : Int) (hm : 1 ≤ m) (c l : PyVal) (n : Nat)
    (h : getNcpuP d m c l = .ok n) : 1 ≤ n := by
  unfold getNcpuP at h
  simp only at h
  split at h
  · split at h
    · simp at h
    · simp only [Except.ok.injEq] at h; omega
  · simp at h

/-- with both settings `None` `get_ncpu` returns the default and does not raise, provided the default passes
the bound -/
theorem c09_get_ncpu_p_default (d m : Int) (hd : m ≤ d) :
    getNcpuP d m .none .none = .ok d.toNat := by
  simp [getNcpuP]; omega

/-- the obligations on the literals of the current source -/
theorem c09_get_ncpu_literals_for_current_source :
    1 ≤ Gen.C09.minNcpuGet ∧ Gen.C09.minNcpuGet ≤ Gen.C09.defaultNcpu ∧
    Gen.C09.minNcpuGet ≤ Gen.C09.minNcpuSet := by decide

theorem c09_get_ncpu_ge_one_for_current_source (c l : PyVal) (n : Nat)
    (h : getNcpuP Gen.C09.defaultNcpu Gen.C09.minNcpuGet c l = .ok n) : 1 ≤ n :=
  c09_get_ncpu_p_ge_one _ _ c09_get_ncpu_literals_for_current_source.1 c l n h

theorem c09_get_ncpu_default_for_current_source :
    ∃ n, getNcpuP Gen.C09.defaultNcpu Gen.C09.minNcpuGet .none .none = .ok n ∧ 1 ≤ n :=
  ⟨_, c09_get_ncpu_p_default _ _ c09_get_ncpu_literals_for_current_source.2.1,
    c09_get_ncpu_p_ge_one _ _ c09_get_ncpu_literals_for_current_source.1 _ _ _
      (c09_get_ncpu_p_default _ _ c09_get_ncpu_literals_for_current_source.2.1)⟩

/-- `obj.ncpu = v` accepted with a value other than `None` ⇒ reading `obj.ncpu` returns that value, whatever
the configuration holds, and never raises (the setter's bound is not weaker than the getter's) -/
theorem c09_ncpu_property_set_then_get (d mg ms : Int) (hms : mg ≤ ms) (c v stored : PyVal)
    (hset : setNcpuP ms v = .ok stored) (hv : v ≠ .none) :
    ∃ k : Int, v = .int k ∧ ms ≤ k ∧ getNcpuP d mg c stored = .ok k.toNat := by
  cases v with
  | none => exact absurd rfl hv
  | other => simp [setNcpuP] at hset
  | int k =>
    unfold setNcpuP at hset
    simp only at hset
    split at hset
    · simp at hset
    · simp only [Except.ok.injEq] at hset
      subst hset
      refine ⟨k, rfl, by omega, ?_⟩
      have : ¬ k < mg := by omega
      simp [getNcpuP, this]

/-- every worker count the property returns is at least 1 -/
theorem c09_ncpu_property_ge_one (d mg ms : Int) (hmg : 1 ≤ mg) (c v : PyVal) (n : Nat)
    (h : ncpuProperty d mg ms c v = .ok n) : 1 ≤ n := by
  unfold ncpuProperty at h
  cases hs : setNcpuP ms v with
  | error e => simp [hs] at h
  | ok stored =>
    cases hg : getNcpuP d mg c stored with
    | error e => simp [hs, hg] at h
    | ok n' =>
      simp [hs, hg] at h
      subst h
      exact c09_get_ncpu_p_ge_one d mg hmg c stored _ hg

theorem c09_ncpu_property_for_current_source (c v : PyVal) (n : Nat)
    (h : ncpuProperty Gen.C09.defaultNcpu Gen.C09.minNcpuGet Gen.C09.minNcpuSet c v = .ok n) : 1 ≤ n :=
  c09_ncpu_property_ge_one _ _ _ c09_get_ncpu_literals_for_current_source.1 c v n h

example : ncpuProperty 1 1 1 (.int 0) (.int 3) = .ok 3 := by decide
example : ncpuProperty 1 1 1 (.int 0) .none = .error "get:ValueError" := by decide
example : setNcpuP 1 (.int 3) = .ok (.int 3) ∧ PyVal.int 3 ≠ .none := by decide

/-! ### set-up -/

/-- `ncpu == 1`: no type check, the tasks get the caller's `rss` / `tl` objects as they are -/
theorem c09_setup_single_no_type_check (rss tl : Arg) (draw : Nat → Nat) :
    ∃ s, setup 1 rss tl draw = .ok s ∧ s.single = true ∧ s.masterRss = rss ∧ s.masterTl = tl ∧
      s.childSeeds = [] ∧ s.masterDraws = 0 := by
  simp [setup]

/-- more than one process: the set-up raises iff `rss` or `tl` has the wrong type -/
theorem c09_setup_error_iff (ncpu : Int) (h : 2 ≤ ncpu) (rss tl : Arg) (draw : Nat → Nat) :
    (∃ e, setup ncpu rss tl draw = .error e) ↔ (rss = .wrong ∨ tl = .wrong) := by
  have h1 : ncpu ≠ 1 := by omega
  have h2 : ¬ ncpu < 1 := by omega
  cases rss <;> cases tl <;> simp [setup, h1, h2]

/-- one seed and one `TimeLord` slot per child process of the transition system -/
theorem c09_setup_one_seed_per_child {α β : Type} (ncpu : Int) (h : 2 ≤ ncpu) (rss tl : Arg) (draw : Nat → Nat)
    (s : Setup) (hs : setup ncpu rss tl draw = .ok s) (f : Nat → Nat → α → β) (args : List α)
    (fault : Nat → Option Fault) (logs : Bool) :
    s.single = false ∧ s.childSeeds.length = (mkCfg f args ncpu.toNat fault logs).nchild ∧
      s.childTl.length = (mkCfg f args ncpu.toNat fault logs).nchild := by
  have h1 : ncpu ≠ 1 := by omega
  have h2 : ¬ ncpu < 1 := by omega
  have h3 : (ncpu - 1).toNat = ncpu.toNat - 1 := by omega
  cases rss <;> cases tl <;> simp [setup, h1, h2] at hs <;> subst hs <;> simp [mkCfg, h3]

/-- the seeds handed to the children are the first `ncpu - 1` numbers of the caller's service, in pid order,
and the caller's service continues after them -/
theorem c09_setup_seeds (ncpu : Int) (h : 2 ≤ ncpu) (tl : Arg) (draw : Nat → Nat) (s : Setup)
    (hs : setup ncpu .ok tl draw = .ok s) :
    s.childSeeds = (List.range (ncpu.toNat - 1)).map (fun i => some (draw i)) ∧
      s.masterDraws = ncpu.toNat - 1 := by
  have h1 : ncpu ≠ 1 := by omega
  have h2 : ¬ ncpu < 1 := by omega
  have h3 : (ncpu - 1).toNat = ncpu.toNat - 1 := by omega
  cases tl <;> simp [setup, h1, h2] at hs <;> subst hs <;> simp [h3]

/-- every child seed is a legal seed of `numpy.random.RandomState` (`0 … 2^32 - 1`), given the contract of
`randint(lo, hi)` and bounds on its two literals -/
theorem c09_setup_seeds_legal (lo hi : Int) (_hlo : 0 ≤ lo) (hhi : hi ≤ 2 ^ 32) (ncpu : Int) (rss tl : Arg)
    (draw : Nat → Nat) (hd : ∀ i, lo ≤ (draw i : Int) ∧ (draw i : Int) < hi) (s : Setup)
    (hs : setup ncpu rss tl draw = .ok s) : ∀ v, some v ∈ s.childSeeds → v ≤ 2 ^ 32 - 1 := by
  intro v hv
  have key : ∃ i, v = draw i := by
    unfold setup at hs
    split at hs
    · simp only [Except.ok.injEq] at hs; subst hs; simp at hv
    · split at hs
      · simp at hs
      · cases rss <;> cases tl <;> simp at hs <;> subst hs <;> simp at hv <;>
          (obtain ⟨i, _, hi⟩ := hv; exact ⟨i, hi.symm⟩)
  obtain ⟨i, rfl⟩ := key
  have := hd i
  have h32 : (2 : Int) ^ 32 = 4294967296 := by norm_num
  have h32n : (2 : Nat) ^ 32 = 4294967296 := by norm_num
  omega

theorem c09_setup_seeds_legal_for_current_source (ncpu : Int) (rss tl : Arg) (draw : Nat → Nat)
    (hd : ∀ i, Gen.C09.randintLow ≤ (draw i : Int) ∧ (draw i : Int) < Gen.C09.randintHigh) (s : Setup)
    (hs : setup ncpu rss tl draw = .ok s) : ∀ v, some v ∈ s.childSeeds → v ≤ 2 ^ 32 - 1 :=
  c09_setup_seeds_legal _ _ (by decide) (by decide) ncpu rss tl draw hd s hs

/-- the seed of child `pid` does not depend on the number of processes: the seeds for `n₁` processes are a
prefix of those for `n₂ ≥ n₁` -/
theorem c09_setup_seed_independent_of_ncpu (n₁ n₂ : Int) (h₁ : 2 ≤ n₁) (h₂ : n₁ ≤ n₂) (rss tl : Arg)
    (draw : Nat → Nat) (s₁ s₂ : Setup) (hs₁ : setup n₁ rss tl draw = .ok s₁)
    (hs₂ : setup n₂ rss tl draw = .ok s₂) : s₁.childSeeds = s₂.childSeeds.take (n₁.toNat - 1) := by
  have a1 : n₁ ≠ 1 := by omega
  have a2 : ¬ n₁ < 1 := by omega
  have b1 : n₂ ≠ 1 := by omega
  have b2 : ¬ n₂ < 1 := by omega
  have e1 : (n₁ - 1).toNat = n₁.toNat - 1 := by omega
  have e2 : (n₂ - 1).toNat = n₂.toNat - 1 := by omega
  have hle : n₁.toNat - 1 ≤ n₂.toNat - 1 := by omega
  cases rss <;> cases tl <;> simp [setup, a1, a2, b1, b2] at hs₁ hs₂ <;> subst hs₁ <;> subst hs₂ <;>
    simp [e1, e2, List.take_replicate, ← List.map_take, List.take_range, Nat.min_eq_left hle]

/-- the set-up looks at the first `ncpu - 1` numbers of the caller's service only (deterministic for a given
seed and worker count) -/
theorem c09_setup_depends_on_used_draws (ncpu : Int) (rss tl : Arg) (d₁ d₂ : Nat → Nat)
    (h : ∀ i : Nat, (i : Int) < ncpu - 1 → d₁ i = d₂ i) : setup ncpu rss tl d₁ = setup ncpu rss tl d₂ := by
  unfold setup
  split
  · rfl
  · split
    · rfl
    · cases rss <;> cases tl <;> simp
      all_goals
        intro i hi
        exact h i (by omega)

example : setup 3 .ok .none (fun i => 10 + i) =
    .ok ⟨false, [some 10, some 11], 2, [false, false], .ok, .none⟩ := by decide
example : ∃ e, setup 2 .wrong .ok (fun _ => 0) = .error e := ⟨_, rfl⟩

/-- the expected list of a configuration does not depend on the fault plan or on whether log records are written -/
theorem C09.expected_mkCfg_indep {α β : Type} (f : Nat → Nat → α → β) (args : List α) (ncpu : Nat)
    (fault₁ fault₂ : Nat → Option Fault) (logs₁ logs₂ : Bool) (mf₁ mf₂ : Option Nat) :
    expected (mkCfg f args ncpu fault₁ logs₁ mf₁) = expected (mkCfg f args ncpu fault₂ logs₂ mf₂) := rfl

/-- **Deterministic for a given seed and worker count**: two calls with the same task function, the same arguments,
the same number of processes and caller services that yield the same first `ncpu - 1` numbers (same seed) — under any
two fault plans, any two completion orders, with or without log records — that both return, return the same list,
namely `seededExpected`: the set-up hands the same seeds to the same processes, and what a process computes depends on
its pid's service and the local task number only. -/
theorem c09_seeded_deterministic {α β : Type} (g : Option Nat → Nat → Nat → α → β) (callerSeed : Option Nat)
    (ncpu : Int) (rss tl : Arg) (d₁ d₂ : Nat → Nat) (hd : ∀ i : Nat, (i : Int) < ncpu - 1 → d₁ i = d₂ i)
    (s₁ s₂ : Setup) (hs₁ : setup ncpu rss tl d₁ = .ok s₁) (hs₂ : setup ncpu rss tl d₂ = .ok s₂)
    (args : List α) (fault₁ fault₂ : Nat → Option Fault) (logs₁ logs₂ : Bool) (mf₁ mf₂ : Option Nat)
    (σ₁ σ₂ : Nat → Agent) (k₁ k₂ : Nat) (r₁ r₂ : List β)
    (h₁ : (run (mkCfg (seededF g s₁ callerSeed) args ncpu.toNat fault₁ logs₁ mf₁) σ₁ k₁).m = .done r₁)
    (h₂ : (run (mkCfg (seededF g s₂ callerSeed) args ncpu.toNat fault₂ logs₂ mf₂) σ₂ k₂).m = .done r₂) :
    r₁ = r₂ ∧ r₁ = seededExpected g s₁ callerSeed args ncpu.toNat := by
  have hs : s₁ = s₂ := by
    have := c09_setup_depends_on_used_draws ncpu rss tl d₁ d₂ hd
    rw [hs₁, hs₂] at this
    exact Except.ok.inj this
  subst hs
  rw [c09_no_partial_results _ σ₁ k₁ r₁ h₁, c09_no_partial_results _ σ₂ k₂ r₂ h₂]
  exact ⟨rfl, rfl⟩

/-- entry by entry: output position `i` holds the result of input `i`, computed as local task `t` by the process
`array_split` gives it to, with that process's service -/
theorem c09_seeded_expected_mapIdx {α β : Type} (g : Option Nat → Nat → Nat → α → β) (s : Setup)
    (callerSeed : Option Nat) (args : List α) (ncpu : Nat) (h : 1 ≤ ncpu) :
    seededExpected g s callerSeed args ncpu =
      ((arraySplit args ncpu).mapIdx (fun p c => c.mapIdx (seededF g s callerSeed p))).flatten ∧
    (seededExpected g s callerSeed args ncpu).length = args.length :=
  ⟨c09_expected_mapIdx _ args ncpu h _ _, c09_expected_length _ args ncpu h _ _⟩

example : seededExpected (fun sd skip t (x : Nat) => (sd, skip, t, x)) ⟨false, [some 10, some 11], 2, [false, false], .ok, .none⟩
    (some 7) [0, 1, 2, 3, 4] 3 =
    [(some 7, 2, 0, 0), (some 7, 2, 1, 1), (some 10, 0, 0, 2), (some 10, 0, 1, 3), (some 11, 0, 0, 4)] := by decide

/-! ### keyword arguments of a task -/

theorem C09.lookup_cons' {V : Type} (k' a : String) (b : V) (d : List (String × V)) :
    List.lookup k' ((a, b) :: d) = if k' = a then some b else List.lookup k' d := by
  by_cases h : k' = a
  · subst h; simp [List.lookup]
  · have : (k' == a) = false := by simpa using h
    simp [List.lookup, this, h]

theorem C09.lookup_dictSet {V : Type} (d : List (String × V)) (k k' : String) (v : V) :
    (dictSet d k v).lookup k' = if k' = k then some v else d.lookup k' := by
  induction d with
  | nil => simp [dictSet, C09.lookup_cons']
  | cons kv d ih =>
    obtain ⟨a, b⟩ := kv
    by_cases hak : a = k
    · subst hak
      simp only [dictSet, if_true, C09.lookup_cons']
      split_ifs <;> rfl
    · simp only [dictSet, hak, if_false, C09.lookup_cons', ih]
      split_ifs <;> simp_all

/-- a task is called with the service / the `TimeLord` of its process under `rss` / `tl` whenever one is given (whatever the
caller put there), with the caller's own value otherwise, and every other keyword argument is the caller's -/
theorem c09_task_kwargs_lookup {V : Type} (own : List (String × V)) (rss tl : Option V) (k : String) :
    (taskKwargs own rss tl).lookup k =
      if k = "tl" ∧ tl.isSome then tl
      else if k = "rss" ∧ rss.isSome then rss
      else own.lookup k := by
  cases rss <;> cases tl <;> simp only [taskKwargs, C09.lookup_dictSet, Option.isSome_none, Option.isSome_some,
    and_true, and_false, if_false, Bool.false_eq_true]

/-- without a service and without a `TimeLord` the task gets the caller's dictionary as it is -/
theorem c09_task_kwargs_none {V : Type} (own : List (String × V)) : taskKwargs own none none = own := rfl

example : taskKwargs [("a", 1), ("rss", 2), ("b", 3)] (some 9) (some 8) = [("a", 1), ("rss", 9), ("b", 3), ("tl", 8)] := by
  decide

/-- pid ↔ index in `processes`: `enumerate(processes, start)` and `processes[pid - off]` agree iff the two
literals agree -/
theorem c09_pid_index_roundtrip (start off : Int) : (∀ i : Int, 0 ≤ i → (start + i) - off = i) ↔ start = off := by
  constructor
  · intro h; have := h 0 (le_refl _); omega
  · intro h i _; omega

theorem c09_pid_layout_for_current_source :
    Gen.C09.enumStart = Gen.C09.procOffset ∧ Gen.C09.childPidAbove + 1 = Gen.C09.enumStart ∧
    Gen.C09.singleNcpu = 1 ∧ Gen.C09.singleNcpu = Gen.C09.minNcpuGet := by decide

/-! ### the exit-code loop after the joins -/

/-- the loop falls through iff every child ended with exit code 0 -/
theorem c09_first_bad_exit_none_iff (cs : List Int) : firstBadExit cs = none ↔ ∀ c ∈ cs, c = 0 := by
  induction cs with
  | nil => simp [firstBadExit]
  | cons c cs ih =>
    by_cases hc : c = 0
    · simp [firstBadExit, hc, ih]
    · simp [firstBadExit, hc]

/-- the child named in the error is the first one (in pid order) with a non-zero exit code -/
theorem c09_first_bad_exit_least (cs : List Int) (i : Nat) (c : Int) (h : firstBadExit cs = some (i, c)) :
    cs[i]? = some c ∧ c ≠ 0 ∧ ∀ j < i, cs[j]? = some 0 := by
  induction cs generalizing i with
  | nil => simp [firstBadExit] at h
  | cons a cs ih =>
    by_cases ha : a = 0
    · subst ha
      simp [firstBadExit] at h
      obtain ⟨i', hi', rfl⟩ := h
      obtain ⟨h1, h2, h3⟩ := ih i' hi'
      refine ⟨by simpa using h1, h2, ?_⟩
      intro j hj
      cases j with
      | zero => simp
      | succ j => simpa using h3 j (by omega)
    · simp [firstBadExit, ha] at h
      obtain ⟨rfl, rfl⟩ := h
      exact ⟨by simp, ha, by intro j hj; omega⟩

example : firstBadExit [0, 0, -9, 3] = some (2, -9) := by decide

/-- the join step of the transition system (`allZero`, used by `masterStep`) is the exit-code loop as coded: the
master passes it iff `firstBadExit` of the children's exit codes, in the order of `processes`, finds nothing -/
theorem c09_join_check_refines {α β M : Type} (cfg : Cfg α β) (s : State M β) :
    allZero cfg s = true ↔ firstBadExit (exitCodes cfg.nchild s.ws) = none := by
  rw [c09_first_bad_exit_none_iff]
  unfold allZero exitCodes
  rw [allTo_iff]
  constructor
  · intro h c hc
    obtain ⟨j, hj, rfl⟩ := List.mem_map.1 hc
    have := h j (List.mem_range.1 hj)
    simp only [decide_eq_true_eq] at this
    simp [this, codeOf]
  · intro h j hj
    have := h _ (List.mem_map.2 ⟨j, List.mem_range.2 hj, rfl⟩)
    simp only [decide_eq_true_eq]
    cases hp : (s.ws j).phase <;> simp [hp, codeOf] at this ⊢
    exact_mod_cast this

end Round7
