/-
  Property C04 — all views of the global parameter set agree after any sequence of edits.

  Theorems are about `Model/Params.lean` (the classes `Parameter`, `ParameterSet`,
  `ParameterModelMapper` of skyllh/core/parameters.py with their redundant caches, after the
  `fix:` commits listed in design.d/C04.md), for parameter values in an arbitrary linear order `V`
  (ℚ, ℝ, finite floats). Helper lemmas: `Proofs/Params.lean`.
-/
import SkyllhModel.Model.Params
import SkyllhModel.Model.ParamsR7
import SkyllhModel.Proofs.Params
import SkyllhModel.Proofs.ParamsHeap
import SkyllhModel.Generated.C04
import Mathlib.Tactic

open Params C04

variable {V : Type} [LinearOrder V]

/-! ## ParameterSet: the caches are functions of the parameter list -/

/-- the empty set is coherent -/
theorem c04_inv_init : Coherent (PSet.empty : PSet V) := coherent_empty

/-- **every edit keeps the five caches in step with `_params`** — also when the edit is rejected
(the state returned is the state after the `raise`). -/
theorem c04_inv_step (s : PSet V) (op : Op V) (hs : Coherent s) : Coherent (s.step op).1 := by
  cases op with
  | add a front =>
    simp only [PSet.step]
    cases hc : a.create with
    | error e => exact hs
    | ok p =>
      simp only
      cases ha : s.addParam p front with
      | error e => exact hs
      | ok s' => exact (addParam_coherent hs (create_wf (show Param.create _ _ _ _ _ = _ from hc)).1 ha).1
  | fix req =>
    exact (editAll_coherent _ (fun p p' h => (fixF_name req p p' h).1)
      (fun p p' h => (fixF_name req p p' h).2) hs).1
  | float req =>
    exact (editAll_coherent _ (fun p p' h => (floatF_name req p p' h).1)
      (fun p p' h => (floatF_name req p p' h).2) hs).1
  | setv n v => exact setValue_coherent hs n v
  | union other left =>
    simp only [PSet.step]
    cases hc : createAll other with
    | error e => exact hs
    | ok ps =>
      simp only
      cases ht : PSet.addAll PSet.empty ps with
      | error e => exact hs
      | ok t =>
        simp only
        have htc : Coherent t := addAll_coherent coherent_empty (createAll_wf hc) ht
        cases left
        · simp only [Bool.false_eq_true, if_false]
          cases hu : PSet.union t s with
          | error e => exact hs
          | ok u => exact union_coherent htc hs hu
        · simp only [if_true]
          cases hu : PSet.union s t with
          | error e => exact hs
          | ok u => exact union_coherent hs htc hu
  | unionN others pos =>
    simp only [PSet.step]
    have hsp := createSets_spec others
    cases hl : Spec.createLists others with
    | error e => rw [hl] at hsp; simp only at hsp; rw [hsp]; exact hs
    | ok oss =>
      rw [hl] at hsp
      obtain ⟨ts, h1, _, h3⟩ := hsp
      rw [h1]
      simp only
      obtain ⟨u, hu, huc, _⟩ := unionN_insert hs h3 pos
      rw [hu]
      exact huc
  | chfix n v => exact (changeFixedValue_coherent hs n v).1
  | copy => exact hs
  | badArgs => exact hs
  | map a models al => exact hs

/-- in a coherent set every view computed from the caches equals the view computed from the bare
parameter list: names, order, masks, index arrays, counts, fixed values, initials, bounds,
name→index lookups, membership tests and the two value dictionaries; none of them raises. -/
theorem c04_views_of_coherent {s : PSet V} (hs : Coherent s) (q : List String) (g : List V) :
    s.views q g = Spec.views s.params q g := by
  have hc := hs.caches
  have h1 : dget s.fixedIdx = fun n => idxOf? n s.fixedNames := funext hc.fixedIdx
  have h2 : dget s.floatIdx = fun n => idxOf? n s.floatNames := funext hc.floatIdx
  have hfm : s.floatMask = s.params.map (fun p => !p.isfixed) := by
    simp [PSet.floatMask, hs.mask]
  have hhas : s.hasName = fun n => (s.params.map (·.name)).contains n := by
    funext n
    rw [Bool.eq_iff_iff, hasName_iff hs n, List.contains_iff_mem]
  unfold PSet.views Spec.views Spec.fixedOf Spec.floatOf
  simp only [h1, h2, hfm, hhas, hs.mask, hc.fixedNames, hc.floatNames, hc.fixedVals, maskSel_map,
    PSet.exMap, List.length_map]

theorem C04.run_coherent (ops : List (Op V)) (s : PSet V) (hs : Coherent s) : Coherent (PSet.run s ops) := by
  induction ops generalizing s with
  | nil => exact hs
  | cons op ops ih => exact ih _ (c04_inv_step s op hs)

/-- **refinement**: after *any* history of edits (accepted or rejected, any length) starting from
the empty set, the state is coherent and all views are the views of the specification (the bare list
of parameters). -/
theorem c04_refine (ops : List (Op V)) (q : List String) (g : List V) :
    Coherent (PSet.run (PSet.empty : PSet V) ops) ∧
    (PSet.run (PSet.empty : PSet V) ops).views q g =
      Spec.views (PSet.run (PSet.empty : PSet V) ops).params q g :=
  ⟨C04.run_coherent ops _ c04_inv_init, c04_views_of_coherent (C04.run_coherent ops _ c04_inv_init) q g⟩

-- non-vacuity: a history with a front insertion, a fix that drops the bounds and a rejected float
example : (PSet.run (PSet.empty : PSet Int)
    [.add ⟨"a", 1, some 0, some 2, none⟩ false, .add ⟨"b", 5, none, none, none⟩ true,
     .fix [("a", .val 7)], .float [("a", .entry .cur .cur .cur)]]).fixedNames = ["b", "a"] := by decide

/-! ## rejected edits -/

/-- **a rejected edit leaves the parameter set exactly as it was** (all fields, hence all views). -/
theorem c04_reject_leaves_state (s : PSet V) (hs : Coherent s) (op : Op V) (e : Err)
    (h : (s.step op).2 = .error e) : (s.step op).1 = s := by
  cases op with
  | add a front =>
    simp only [PSet.step] at h ⊢
    cases hc : a.create with
    | error e => rfl
    | ok p =>
      rw [hc] at h
      simp only at h ⊢
      cases ha : s.addParam p front with
      | error e => rfl
      | ok s' => rw [ha] at h; cases h
  | fix req => exact editAll_error _ s e h
  | float req => exact editAll_error _ s e h
  | setv n v =>
    simp only [PSet.step, PSet.setValue] at h ⊢
    cases hv : PSet.setValueAux n v s.params with
    | error e => rfl
    | ok ps => rw [hv] at h; cases h
  | union other left =>
    simp only [PSet.step] at h ⊢
    cases hc : createAll other with
    | error e => rfl
    | ok ps =>
      rw [hc] at h
      simp only at h ⊢
      cases ht : PSet.addAll PSet.empty ps with
      | error e => rfl
      | ok t =>
        rw [ht] at h
        simp only at h ⊢
        cases hu : (if left = true then PSet.union s t else PSet.union t s) with
        | error e => rfl
        | ok u => rw [hu] at h; cases h
  | unionN others pos =>
    simp only [PSet.step] at h ⊢
    cases hc : createSets others with
    | error e => rfl
    | ok ts =>
      rw [hc] at h
      simp only at h ⊢
      cases hu : PSet.unionN (insertAt ts pos s) with
      | error e => rfl
      | ok u => rw [hu] at h; cases h
  | chfix n v => exact (changeFixedValue_coherent hs n v).2 e h
  | copy => cases h
  | badArgs => rfl
  | map a models al => rfl

/-- a value outside the bounds of a floating parameter is rejected by the setter -/
theorem c04_reject_bounds (p : Param V) (lo hi v : V) (hf : p.isfixed = false)
    (hlo : p.valmin = some lo) (hhi : p.valmax = some hi) (hv : v < lo ∨ hi < v) :
    p.setValue v = .error .valueError := by
  unfold Param.setValue
  simp only [hf, hlo, hhi, Bool.false_eq_true, if_false]
  rcases hv with h | h
  · simp [h]
  · by_cases h1 : v < lo <;> simp [h, h1]

/-- … and so is an initial value outside the (new or kept) bounds in `make_floating` -/
theorem c04_reject_bounds_make_floating (p : Param V) (ini vmin vmax : Option V) (lo hi : V)
    (hlo : vmin.or p.valmin = some lo) (hhi : vmax.or p.valmax = some hi)
    (hv : ini.getD p.value < lo ∨ hi < ini.getD p.value) :
    p.makeFloating ini vmin vmax = .error .valueError := by
  unfold Param.makeFloating Param.floatingSettings
  simp only [hlo, hhi]
  have : outside (ini.getD p.value) lo hi = true := by
    rcases hv with h | h <;> simp [outside, h]
  simp [this]

/-- inside a set: the rejected assignment changes nothing -/
theorem c04_reject_bounds_in_set (s : PSet V) (hs : Coherent s) (n : String) (v : V) (e : Err)
    (h : (s.setValue n v).2 = .error e) : (s.setValue n v).1 = s :=
  c04_reject_leaves_state s hs (.setv n v) e h

/-- the value of a fixed parameter cannot be changed through the setter -/
theorem c04_reject_fixed_change (p : Param V) (v : V) (hf : p.isfixed = true) (hv : v ≠ p.initial) :
    p.setValue v = .error .valueError := by
  unfold Param.setValue
  have : neV v p.initial = true := by
    cases h : neV v p.initial
    · exact absurd (neV_eq_false.1 h) hv
    · rfl
  simp [hf, this]

/-- a second parameter of the same name is rejected (front or back) -/
theorem c04_reject_duplicate_name (s : PSet V) (hs : Coherent s) (p : Param V) (front : Bool)
    (h : p.name ∈ s.params.map (·.name)) : s.addParam p front = .error .keyError := by
  unfold PSet.addParam
  simp [(hasName_iff hs p.name).2 h]

example : (PSet.empty : PSet Int).step (.add ⟨"a", 3, some 0, some 2, none⟩ false)
    = (PSet.empty, .error .valueError) := by decide

/-- `make_params_fixed` / `make_params_floating`, accepted: exactly the named parameters are changed
(by `Parameter.make_fixed` / `make_floating`), every other parameter and the order stay. -/
theorem c04_fix_result (s : PSet V) (hs : Coherent s) (req : List (String × FixVal V))
    (h : (s.makeParamsFixed req).2 = .ok ()) :
    (s.makeParamsFixed req).1.params = s.params.map (applyF (PSet.fixF req)) :=
  (editAll_coherent _ (fun p p' h => (fixF_name req p p' h).1)
    (fun p p' h => (fixF_name req p p' h).2) hs).2 h

theorem c04_float_result (s : PSet V) (hs : Coherent s) (req : List (String × PSet.FloatEntry V))
    (h : (s.makeParamsFloating req).2 = .ok ()) :
    (s.makeParamsFloating req).1.params = s.params.map (applyF (PSet.floatF req)) :=
  (editAll_coherent _ (fun p p' h => (floatF_name req p p' h).1)
    (fun p p' h => (floatF_name req p p' h).2) hs).2 h

/-- The code as it was before the `fix:` commit (caches emptied first, validation inside the loop)
does **not** have the property: fixing the already fixed `b` in `[a floating, b fixed]` is rejected
and leaves name lists that no longer contain `b`. -/
theorem c04_unvalidated_counterexample :
    ¬ (∀ (s : PSet Int) (req : List (String × FixVal Int)) (e : Err), Coherent s →
        (PSet.editAllUnvalidated (PSet.fixF req) s).2 = .error e →
        (PSet.editAllUnvalidated (PSet.fixF req) s).1 = s) := by
  intro h
  have hs : Coherent (PSet.run (PSet.empty : PSet Int)
      [.add ⟨"a", 1, some 0, some 2, none⟩ false, .add ⟨"b", 5, none, none, none⟩ false]) :=
    C04.run_coherent _ _ c04_inv_init
  have := h _ [("b", .val 3)] .valueError hs (by decide)
  revert this
  decide

/-- the default of `add_param(atfront=…)` in the current source is the one the model of
`ParameterSet(params)` / `union` uses (add at the back) -/
theorem c04_add_default_for_current_source : Gen.C04.addParamAtfrontDefault = false := rfl

/-! ## ParameterModelMapper -/

/-- well-formed mapper: coherent global set, one alias row per model, one column per global
parameter, no local name twice in a row (what `map_param` maintains) -/
structure C04.PMMWF (s : PMM V) : Prop where
  gps : Coherent s.gps
  rows : s.mpn.length = s.models.length
  cols : ∀ row ∈ s.mpn, row.length = s.gps.params.length
  uniq : ∀ row ∈ s.mpn, (row.filterMap id).Nodup

/-- **per-source value table**: in a well-formed mapper the record-array row of model `smidx`
holds, for every local name `f`, exactly the value of the global parameter mapped to that model
under the alias `f` — the next value of the supplied vector (in declaration order) and `+(k+1)`,
`k` = index of that fit parameter among the floating parameters, when it is floating; its fixed value
and `-(j+1)`, `j` = global index, when it is fixed — and "not applicable" when no parameter is mapped
under `f`. The boolean-mask arithmetic of the code never raises. -/
theorem c04_src_table (s : PMM V) (hw : C04.PMMWF s) (g : List V)
    (hg : g.length = s.gps.floatNames.length) (fields : List String) (smidx : Nat)
    (row : List (Option String)) (hrow : s.mpn[smidx]? = some row) :
    s.srcRow g fields smidx = .ok (smidx, fields.map (fun f => Spec.cell f s.gps.params row 0 0 g)) := by
  have hmem : row ∈ s.mpn := List.mem_of_getElem? hrow
  have hl := hw.cols row hmem
  have hg' : g.length = (s.gps.params.filter (fun p => !p.isfixed)).length := by
    rw [hg, hw.gps.caches.floatNames, List.length_map]
  unfold PMM.srcRow
  rw [hrow]
  simp only [rowEntries_eq hw.gps row g hl hg]
  congr 2
  apply List.map_congr_left
  intro f _
  exact cell_eq f s.gps.params row 0 0 g hl hg' (hw.uniq row hmem)

/-- the same for the per-model dictionary (`create_model_params_dict`): floating entries first -/
theorem c04_model_dict (s : PMM V) (hw : C04.PMMWF s) (g : List V)
    (hg : g.length = s.gps.floatNames.length) (midx : Nat)
    (row : List (Option String)) (hrow : s.mpn[midx]? = some row) :
    s.modelParamsDict g midx = .ok ((flEntries s.gps.params row 0 g ++ fxEntries s.gps.params row 0).map
      (fun e => (e.1, e.2.1))) := by
  have hmem : row ∈ s.mpn := List.mem_of_getElem? hrow
  unfold PMM.modelParamsDict
  rw [hrow]
  simp only [rowEntries_eq hw.gps row g (hw.cols row hmem) hg, PSet.exMap]

-- non-vacuity: non-source model first, a fixed parameter mapped ahead of a floating one;
-- fields are (gamma, r), the row of source s1 (model 2) holds the supplied value 25 with gpidx 1 (fit parameter 0,
-- although its global index is 1) and the fixed 7 with gpidx -1
example : ((((PMM.create [("d", false), ("s0", true), ("s1", true)] : PMM Int).run
      [.map ⟨"r", 7, none, none, none⟩ (some [2, 0]) .none,
       .map ⟨"g", 2, some 1, some 3, none⟩ (some [1, 2]) (.one "gamma")]).srcParamsRecarray [25]
      (some [2])).toOption.map (·.2)) = some [(2, [some (25, 1), some (7, -1)])] := by decide

theorem C04.mapParamCore_error (s : PMM V) (p : Param V) (names : List String) (mask : List Bool) (e : Err)
    (h : (s.mapParamCore p names mask).2 = .error e) : (s.mapParamCore p names mask).1 = s := by
  unfold PMM.mapParamCore at h ⊢
  cases h1 : PMM.checkAliases names s.mpn mask 0 with
  | error e1 => rfl
  | ok u =>
    rw [h1] at h
    simp only at h ⊢
    cases h2 : PMM.aliasColumn names mask with
    | error e2 => rfl
    | ok col =>
      rw [h2] at h
      simp only at h ⊢
      cases h3 : s.gps.addParam p false with
      | error e3 => rfl
      | ok gps' => rw [h3] at h; cases h

theorem C04.mapParam_error (s : PMM V) (p : Param V) (models : Option (List Nat)) (al : AliasArg) (e : Err)
    (h : (s.mapParam p models al).2 = .error e) : (s.mapParam p models al).1 = s := by
  unfold PMM.mapParam at h ⊢
  by_cases h0 : s.modelsEmpty models = true
  · rw [if_pos h0]
  · rw [if_neg h0] at h ⊢
    exact C04.mapParamCore_error s p _ _ e h

/-- a rejected mapper edit (duplicate alias, duplicate global name, alias list of wrong length, empty
model list, rejected fix / float / value) leaves the mapper exactly as it was -/
theorem c04_pmm_reject_leaves_state (s : PMM V) (hw : C04.PMMWF s) (op : Op V) (e : Err)
    (h : (s.step op).2 = .error e) : (s.step op).1 = s := by
  cases op with
  | map a models al =>
    simp only [PMM.step] at h ⊢
    cases hc : a.create with
    | error e => rfl
    | ok p =>
      rw [hc] at h
      simp only at h ⊢
      exact C04.mapParam_error s p models al e h
  | fix req =>
    simp only [PMM.step] at h ⊢
    have h1 : (s.gps.makeParamsFixed req).1 = s.gps := c04_reject_leaves_state s.gps hw.gps (.fix req) e h
    rw [h1]
  | float req =>
    simp only [PMM.step] at h ⊢
    have h1 : (s.gps.makeParamsFloating req).1 = s.gps := c04_reject_leaves_state s.gps hw.gps (.float req) e h
    rw [h1]
  | setv n v =>
    simp only [PMM.step] at h ⊢
    have h1 : (s.gps.setValue n v).1 = s.gps := c04_reject_leaves_state s.gps hw.gps (.setv n v) e h
    rw [h1]
  | chfix n v =>
    simp only [PMM.step] at h ⊢
    have h1 : (s.gps.changeFixedValue n v).1 = s.gps := c04_reject_leaves_state s.gps hw.gps (.chfix n v) e h
    rw [h1]
  | add a front => rfl
  | union o l => rfl
  | unionN o l => rfl
  | copy => rfl
  | badArgs => rfl

/-! ### the mapper invariant is kept by every edit -/

namespace C04

theorem nodup_snoc_some {row : List (Option String)} {a : String} (h : (row.filterMap id).Nodup)
    (hn : row.contains (some a) = false) : ((row ++ [some a]).filterMap id).Nodup := by
  rw [List.filterMap_append, List.nodup_append]
  refine ⟨h, by simp, ?_⟩
  intro x hx y hy
  simp only [List.filterMap_cons, id, List.filterMap_nil, List.mem_singleton] at hy
  subst hy
  intro hxy
  subst hxy
  rw [List.mem_filterMap] at hx
  obtain ⟨o, ho, hoe⟩ := hx
  simp only [id] at hoe
  subst hoe
  have : row.contains (some x) = true := List.contains_iff_mem.2 ho
  rw [hn] at this
  cases this

theorem nodup_snoc_none {row : List (Option String)} (h : (row.filterMap id).Nodup) :
    ((row ++ [none]).filterMap id).Nodup := by
  simpa [List.filterMap_append] using h

/-- alias list as long as the model list: the new column is taken position by position -/
theorem rows_zip (names : List String) :
    ∀ (rows : List (List (Option String))) (mask : List Bool) (ns : List String) (i : Nat),
      names.drop i = ns → PMM.checkAliases names rows mask i = .ok () →
      (∀ row ∈ rows, (row.filterMap id).Nodup) →
      ∀ row' ∈ List.zipWith (fun row c => row ++ [c]) rows
          (List.zipWith (fun (b : Bool) a => if b then some a else none) mask ns),
        (row'.filterMap id).Nodup := by
  intro rows
  induction rows with
  | nil => intro mask ns i _ _ _ row' h; simp at h
  | cons row rows ih =>
    intro mask ns i hd hc hu row' hr
    cases mask with
    | nil => simp at hr
    | cons b mask =>
      cases ns with
      | nil => simp at hr
      | cons a ns =>
        have hi : names[i]? = some a := by
          have := congrArg List.head? hd
          simpa [List.head?_drop] using this
        have hd' : names.drop (i + 1) = ns := by
          have := congrArg List.tail hd
          simpa [List.tail_drop] using this
        simp only [List.zipWith_cons_cons, List.mem_cons] at hr
        unfold PMM.checkAliases at hc
        cases b
        · simp only [Bool.false_eq_true, if_false] at hc hr
          rcases hr with h1 | h1
          · subst h1; exact nodup_snoc_none (hu row (by simp))
          · exact ih mask ns (i + 1) hd' hc (fun r hr => hu r (by simp [hr])) row' h1
        · simp only [if_true, hi] at hc hr
          by_cases hcon : row.contains (some a) = true
          · rw [if_pos hcon] at hc; cases hc
          · rw [if_neg hcon] at hc
            rcases hr with h1 | h1
            · subst h1; exact nodup_snoc_some (hu row (by simp)) (by simpa using hcon)
            · exact ih mask ns (i + 1) hd' hc (fun r hr => hu r (by simp [hr])) row' h1

/-- a single alias broadcast over the models: only model 0 can be mapped without an `IndexError` -/
theorem rows_bcast (a : String) :
    ∀ (rows : List (List (Option String))) (mask : List Bool) (i : Nat),
      PMM.checkAliases [a] rows mask i = .ok () →
      (∀ row ∈ rows, (row.filterMap id).Nodup) →
      ∀ row' ∈ List.zipWith (fun row c => row ++ [c]) rows
          (mask.map (fun (b : Bool) => if b then some a else none)),
        (row'.filterMap id).Nodup := by
  intro rows
  induction rows with
  | nil => intro mask i _ _ row' h; simp at h
  | cons row rows ih =>
    intro mask i hc hu row' hr
    cases mask with
    | nil => simp at hr
    | cons b mask =>
      simp only [List.map_cons, List.zipWith_cons_cons, List.mem_cons] at hr
      unfold PMM.checkAliases at hc
      cases b
      · simp only [Bool.false_eq_true, if_false] at hc hr
        rcases hr with h1 | h1
        · subst h1; exact nodup_snoc_none (hu row (by simp))
        · exact ih mask (i + 1) hc (fun r hr => hu r (by simp [hr])) row' h1
      · simp only [if_true] at hc hr
        cases i with
        | succ k => simp at hc
        | zero =>
          simp only [List.getElem?_cons_zero] at hc
          by_cases hcon : row.contains (some a) = true
          · rw [if_pos hcon] at hc; cases hc
          · rw [if_neg hcon] at hc
            rcases hr with h1 | h1
            · subst h1; exact nodup_snoc_some (hu row (by simp)) (by simpa using hcon)
            · exact ih mask (0 + 1) hc (fun r hr => hu r (by simp [hr])) row' h1

theorem aliasColumn_length {names : List String} {mask : List Bool} {col : List (Option String)}
    (h : PMM.aliasColumn names mask = .ok col) : col.length = mask.length := by
  unfold PMM.aliasColumn at h
  by_cases hl : names.length = mask.length
  · rw [if_pos hl] at h; cases h; simp [hl]
  · rw [if_neg hl] at h
    split at h
    · cases h; simp
    · cases h

theorem mem_zipWith_snoc {rows : List (List (Option String))} {col : List (Option String)}
    {row' : List (Option String)} (h : row' ∈ List.zipWith (fun row c => row ++ [c]) rows col) :
    ∃ row ∈ rows, ∃ c, row' = row ++ [c] := by
  induction rows generalizing col with
  | nil => simp at h
  | cons r rows ih =>
    cases col with
    | nil => simp at h
    | cons c col =>
      simp only [List.zipWith_cons_cons, List.mem_cons] at h
      rcases h with h1 | h1
      · exact ⟨r, by simp, c, h1⟩
      · obtain ⟨row, hr, c', hc⟩ := ih h1
        exact ⟨row, by simp [hr], c', hc⟩

theorem mapParamCore_wf (s : PMM V) (hw : PMMWF s) (p : Param V) (hp : ParamWF p) (al : AliasArg)
    (models : Option (List Nat)) :
    PMMWF (s.mapParamCore p (s.aliasNames p al) (s.modelMask models)).1 := by
  unfold PMM.mapParamCore
  cases h1 : PMM.checkAliases (s.aliasNames p al) s.mpn (s.modelMask models) 0 with
  | error e1 => exact hw
  | ok u =>
    cases u
    simp only
    cases h2 : PMM.aliasColumn (s.aliasNames p al) (s.modelMask models) with
    | error e2 => exact hw
    | ok col =>
      simp only
      cases h3 : s.gps.addParam p false with
      | error e3 => exact hw
      | ok gps' =>
        simp only
        obtain ⟨hco, hpar⟩ := addParam_coherent hw.gps hp h3
        have hml : (s.modelMask models).length = s.models.length := by
          simp [PMM.modelMask, PMM.nModels]
        have hcl : col.length = s.mpn.length := by
          rw [aliasColumn_length h2, hml, hw.rows]
        refine ⟨hco, ?_, ?_, ?_⟩
        · simp [List.length_zipWith, hcl, hw.rows]
        · intro row' hr
          obtain ⟨row, hrow, c, rfl⟩ := mem_zipWith_snoc hr
          simp [hpar, hw.cols row hrow]
        · intro row' hr
          unfold PMM.aliasColumn at h2
          by_cases hl : (s.aliasNames p al).length = (s.modelMask models).length
          · rw [if_pos hl] at h2
            cases h2
            exact rows_zip (s.aliasNames p al) s.mpn (s.modelMask models) (s.aliasNames p al) 0 rfl h1
              hw.uniq row' hr
          · rw [if_neg hl] at h2
            split at h2
            · rename_i a hnames
              cases h2
              rw [hnames] at h1
              exact rows_bcast a s.mpn (s.modelMask models) 0 h1 hw.uniq row' hr
            · cases h2

theorem editAll_length (f : Param V → Except Err (Option (Param V)))
    (hname : ∀ p p', f p = .ok (some p') → p'.name = p.name)
    (hwf : ∀ p p', f p = .ok (some p') → ParamWF p') {s : PSet V} (hs : Coherent s) :
    (PSet.editAll f s).1.params.length = s.params.length := by
  cases h : (PSet.editAll f s).2 with
  | error e => rw [editAll_error f s e h]
  | ok u => cases u; rw [(editAll_coherent f hname hwf hs).2 h, List.length_map]

end C04

/-- **every mapper edit keeps the mapper well-formed** (also a rejected one) -/
theorem c04_pmm_inv_step (s : PMM V) (op : Op V) (hw : C04.PMMWF s) : C04.PMMWF (s.step op).1 := by
  cases op with
  | map a models al =>
    simp only [PMM.step]
    cases hc : a.create with
    | error e => exact hw
    | ok p =>
      simp only
      unfold PMM.mapParam
      by_cases h0 : s.modelsEmpty models = true
      · rw [if_pos h0]; exact hw
      · rw [if_neg h0]
        exact C04.mapParamCore_wf s hw p (create_wf (show Param.create _ _ _ _ _ = _ from hc)).1 al models
  | fix req =>
    have hl := C04.editAll_length (PSet.fixF req) (fun p p' h => (fixF_name req p p' h).1)
      (fun p p' h => (fixF_name req p p' h).2) hw.gps
    exact ⟨c04_inv_step s.gps (.fix req) hw.gps, hw.rows,
      fun row hr => by rw [hw.cols row hr]; exact hl.symm, hw.uniq⟩
  | float req =>
    have hl := C04.editAll_length (PSet.floatF req) (fun p p' h => (floatF_name req p p' h).1)
      (fun p p' h => (floatF_name req p p' h).2) hw.gps
    exact ⟨c04_inv_step s.gps (.float req) hw.gps, hw.rows,
      fun row hr => by rw [hw.cols row hr]; exact hl.symm, hw.uniq⟩
  | setv n v =>
    have hl : (s.gps.setValue n v).1.params.length = s.gps.params.length := by
      unfold PSet.setValue
      cases h : PSet.setValueAux n v s.gps.params with
      | error e => rfl
      | ok ps' =>
        have := congrArg List.length (setValueAux_ok hw.gps.wf h).1
        simpa using this
    exact ⟨c04_inv_step s.gps (.setv n v) hw.gps, hw.rows,
      fun row hr => by rw [hw.cols row hr]; exact hl.symm, hw.uniq⟩
  | chfix n v =>
    have hl := changeFixedValue_length hw.gps n v
    exact ⟨c04_inv_step s.gps (.chfix n v) hw.gps, hw.rows,
      fun row hr => by rw [hw.cols row hr]; exact hl.symm, hw.uniq⟩
  | add a front => exact hw
  | union o l => exact hw
  | unionN o l => exact hw
  | copy => exact hw
  | badArgs => exact hw

theorem c04_pmm_inv_init (models : List (String × Bool)) : C04.PMMWF (PMM.create models : PMM V) :=
  ⟨c04_inv_init, by simp [PMM.create], by simp [PMM.create, PSet.empty], by simp [PMM.create]⟩

/-- **refinement for the mapper**: after any history of `map_param` / fix / float / value edits the
mapper is well-formed, hence (`c04_src_table`) every row of the per-source table is the
specification's row. -/
theorem c04_pmm_refine (models : List (String × Bool)) (ops : List (Op V)) :
    C04.PMMWF ((PMM.create models : PMM V).run ops) := by
  suffices h : ∀ s : PMM V, C04.PMMWF s → C04.PMMWF (s.run ops) from h _ (c04_pmm_inv_init models)
  induction ops with
  | nil => intro s hs; exact hs
  | cons op ops ih => intro s hs; exact ih _ (c04_pmm_inv_step s op hs)

/-- **a local name already used by one of the models the parameter is mapped to is rejected**, and the
mapper stays as it was -/
theorem c04_reject_duplicate_alias (s : PMM V) (p : Param V) (models : Option (List Nat)) (al : AliasArg)
    (midx : Nat) (a : String) (row : List (Option String))
    (hmask : (s.modelMask models)[midx]? = some true) (hname : (s.aliasNames p al)[midx]? = some a)
    (hrow : s.mpn[midx]? = some row) (hdup : some a ∈ row) :
    ∃ e, (s.mapParam p models al).2 = .error e ∧ (s.mapParam p models al).1 = s := by
  have key : ∀ (k : Nat) (rows : List (List (Option String))) (mask : List Bool) (i : Nat),
      mask[k]? = some true → (s.aliasNames p al)[i + k]? = some a → rows[k]? = some row →
      PMM.checkAliases (s.aliasNames p al) rows mask i ≠ .ok () := by
    intro k
    induction k with
    | zero =>
      intro rows mask i hm hn hr
      cases rows with
      | nil => simp at hr
      | cons r rows =>
        cases mask with
        | nil => simp at hm
        | cons b mask =>
          simp only [List.getElem?_cons_zero, Option.some.injEq] at hm hr
          subst hm; subst hr
          unfold PMM.checkAliases
          simp only [Nat.add_zero] at hn
          simp [hn, hdup]
    | succ k ih =>
      intro rows mask i hm hn hr
      cases rows with
      | nil => simp at hr
      | cons r rows =>
        cases mask with
        | nil => simp at hm
        | cons b mask =>
          simp only [List.getElem?_cons_succ] at hm hr
          have hn' : (s.aliasNames p al)[i + 1 + k]? = some a := by
            rw [show i + 1 + k = i + (k + 1) by omega]; exact hn
          have := ih rows mask (i + 1) hm hn' hr
          unfold PMM.checkAliases
          cases b
          · simpa using this
          · simp only [if_true]
            cases (s.aliasNames p al)[i]? with
            | none => simp
            | some a' =>
              simp only
              by_cases hcon : some a' ∈ r
              · simp [hcon]
              · simpa [hcon] using this
  have hne := key midx s.mpn (s.modelMask models) 0 hmask (by simpa using hname) hrow
  cases h : (s.mapParam p models al).2 with
  | error e => exact ⟨e, rfl, C04.mapParam_error s p models al e h⟩
  | ok u =>
    exfalso
    unfold PMM.mapParam at h
    by_cases h0 : s.modelsEmpty models = true
    · rw [if_pos h0] at h; cases h
    · rw [if_neg h0] at h
      unfold PMM.mapParamCore at h
      cases hc : PMM.checkAliases (s.aliasNames p al) s.mpn (s.modelMask models) 0 with
      | error e => rw [hc] at h; cases h
      | ok u' => cases u'; exact hne hc

/-! ## non-vacuity of the hypotheses used above (concrete inputs over `Int`) -/

namespace C04.Examples

def a : Param Int := ⟨"a", 1, false, some 0, some 2, 1⟩
def b : Param Int := ⟨"b", 5, true, none, none, 5⟩

-- c04_reject_bounds / c04_reject_fixed_change: hypotheses are met and the setter indeed rejects
example : a.isfixed = false ∧ a.valmin = some 0 ∧ a.valmax = some 2 ∧ ((3 : Int) < 0 ∨ (2 : Int) < 3) := by decide
example : a.setValue 3 = .error .valueError := c04_reject_bounds a 0 2 3 rfl rfl rfl (by decide)
example : a.setValue 2 = .ok { a with value := 2 } := by decide
example : b.setValue 4 = .error .valueError := c04_reject_fixed_change b 4 rfl (by decide)
example : b.setValue 5 = .ok b := by decide
example : a.makeFloating (some 3) none none = .error .valueError :=
  c04_reject_bounds_make_floating a (some 3) none none 0 2 rfl rfl (by decide)

-- a two-parameter set reached by a history is coherent (hypothesis of c04_reject_duplicate_name,
-- c04_fix_result, c04_views_of_coherent) and rejects a second "a"
def s2 : PSet Int := PSet.run PSet.empty
  [.add ⟨"a", 1, some 0, some 2, none⟩ false, .add ⟨"b", 5, none, none, none⟩ true]
example : Coherent s2 := C04.run_coherent _ _ c04_inv_init
example : s2.params.map (·.name) = ["b", "a"] := by decide
example : (s2.step (.add ⟨"a", 1, some 0, some 2, none⟩ true)).2 = .error .keyError := by decide
example : (s2.makeParamsFixed [("a", .val 7)]).2 = .ok () ∧
    (s2.makeParamsFixed [("a", .val 7)]).1.fixedVals = [5, 7] := by decide
-- rejected request in the middle of the list: nothing changes (c04_reject_leaves_state)
example : (s2.step (.fix [("a", .val 1), ("b", .val 1)])) = (s2, .error .valueError) := by decide

-- a mapper with a non-source model first; the second map re-uses the local name "gamma" for s1
def m3 : PMM Int := (PMM.create [("d", false), ("s0", true), ("s1", true)]).run
  [.map ⟨"g", 2, some 1, some 3, none⟩ (some [1, 2]) (.one "gamma")]
example : C04.PMMWF m3 := c04_pmm_refine _ _
example : (m3.modelMask (some [2]))[2]? = some true ∧ (m3.aliasNames b (.one "gamma"))[2]? = some "gamma" ∧
    m3.mpn[2]? = some [some "gamma"] := by decide
example : (m3.mapParam b (some [2]) (.one "gamma")).2 = .error .keyError := by decide
example : m3.srcModelIdxs (some [1]) = [1] ∧ m3.srcModelIdxs (some [2]) = [2] ∧ m3.srcModelIdxs none = [1, 2] := by
  decide

end C04.Examples

/-! ## `initial` vs. `value`: the value setter after fixing / re-floating -/

/-- `make_fixed(None)` takes the *current* value as the new initial (and fixed) value; the explicit
form takes the given one; in both cases the parameter is fixed with value = initial. -/
theorem c04_make_fixed_initial (p : Param V) (v : V) :
    (p.makeFixed none).initial = p.value ∧ (p.makeFixed none).value = p.value ∧
    (p.makeFixed none).isfixed = true ∧
    (p.makeFixed (some v)).initial = v ∧ (p.makeFixed (some v)).value = v ∧
    (p.makeFixed (some v)).isfixed = true := by
  refine ⟨rfl, rfl, rfl, ?_, ?_, ?_⟩ <;>
  · simp only [Param.makeFixed]
    repeat' split
    all_goals rfl

/-- re-floating without an explicit initial starts from the current value -/
theorem c04_refloat_initial (p p' : Param V) (lo hi : Option V) (h : p.makeFloating none lo hi = .ok p') :
    p'.initial = p.value ∧ p'.value = p.value ∧ p'.isfixed = false := by
  unfold Param.makeFloating at h
  cases hs : p.floatingSettings none lo hi with
  | error e => rw [hs] at h; cases h
  | ok t =>
    rw [hs] at h
    cases h
    unfold Param.floatingSettings at hs
    simp only [Option.getD_none] at hs
    cases hlo : lo.or p.valmin with
    | none => rw [hlo] at hs; cases hs
    | some l =>
      rw [hlo] at hs
      simp only at hs
      cases hhi : hi.or p.valmax with
      | none => rw [hhi] at hs; cases hs
      | some u =>
        rw [hhi] at hs
        simp only at hs
        by_cases hout : outside p.value l u = true
        · rw [if_pos hout] at hs; cases hs
        · rw [if_neg hout] at hs
          cases hs
          exact ⟨rfl, rfl, rfl⟩

/-- **the value setter of a well-formed parameter accepts exactly**: the fixed value when the parameter
is fixed (in particular *not* an earlier initial value), the values inside the bounds when it floats. -/
theorem c04_setter_accepts_iff (p : Param V) (hw : ParamWF p) (x : V) :
    p.accepts x = Spec.accepts p x := by
  unfold Param.accepts Spec.accepts Param.setValue
  by_cases hf : p.isfixed = true
  · simp only [hf, if_true, hw.1 hf]
    cases hne : neV x p.initial <;> simp
  · have hf' : p.isfixed = false := by simpa using hf
    obtain ⟨lo, hi, hlo, hhi, _, _⟩ := hw.2 hf'
    simp only [hf', hlo, hhi, Bool.false_eq_true, if_false]
    by_cases h1 : x < lo
    · simp [h1, outside]
    · by_cases h2 : hi < x <;> simp [h1, h2, outside]

theorem c04_fixed_accepts_iff (p : Param V) (hw : ParamWF p) (hf : p.isfixed = true) (x : V) :
    p.accepts x = true ↔ x = p.value := by
  rw [c04_setter_accepts_iff p hw x]
  simp only [Spec.accepts, hf, if_true, Bool.not_eq_true']
  exact neV_eq_false

/-- the probe view of a coherent set is the specification's (so after *any* history, by `c04_refine`) -/
theorem c04_probe_of_coherent {s : PSet V} (hs : Coherent s) (xs : List V) :
    s.probe xs = Spec.probe s.params xs := by
  unfold PSet.probe Spec.probe
  apply List.map_congr_left
  intro p hp
  apply List.map_congr_left
  intro x _
  exact c04_setter_accepts_iff p (hs.wf p hp) x

-- non-vacuity: move the value of `a` to 0 inside [0,2], fix with the None form: initial = value = 0,
-- the old initial 1 is rejected, the fixed value 0 accepted; re-floating starts from 0
example : ((PSet.run (PSet.empty : PSet Int)
    [.add ⟨"a", 1, some 0, some 2, none⟩ false, .setv "a" 0, .fix [("a", .cur)]]).params.map
      (fun p => (p.initial, p.value, p.isfixed, p.accepts 1, p.accepts 0))) = [(0, 0, true, false, true)] := by
  decide
example : ((PSet.run (PSet.empty : PSet Int)
    [.add ⟨"a", 1, some 0, some 2, none⟩ false, .setv "a" 0, .fix [("a", .cur)],
     .float [("a", .entry .cur .cur .cur)]]).params.map (fun p => (p.initial, p.value, p.isfixed))) =
    [(0, 0, false)] := by decide

/-! ## Review round: the specification machine `Spec.step` and the simulation theorem -/

/-- `add_param`: a new name is accepted and the parameter is put at the front / at the back -/
theorem c04_add_result (s : PSet V) (hs : Coherent s) (p : Param V) (hp : ParamWF p) (front : Bool)
    (hn : p.name ∉ s.params.map (·.name)) :
    ∃ s', s.addParam p front = .ok s' ∧ s'.params = if front then p :: s.params else s.params ++ [p] := by
  obtain ⟨s', h, _, hp'⟩ := addParam_ok hs hp front hn
  exact ⟨s', h, hp'⟩

/-- `union(a, b)`: the parameters of `a` in their order, then those of `b` whose name is new -/
theorem c04_union_result (a b : PSet V) (ha : Coherent a) (hb : Coherent b) :
    ∃ u, PSet.union a b = .ok u ∧
      u.params = a.params ++ b.params.filter (fun p => !(a.params.map (·.name)).contains p.name) := by
  obtain ⟨u, h, _, hp⟩ := union_params ha hb
  exact ⟨u, h, hp⟩

/-- the value setter inside a set: exactly the named parameter gets the value, the others stay -/
theorem c04_setv_result (s : PSet V) (hs : Coherent s) (n : String) (v : V) (h : (s.setValue n v).2 = .ok ()) :
    (s.setValue n v).1.params = s.params.map (fun p => if p.name = n then { p with value := v } else p) := by
  unfold PSet.setValue at h ⊢
  rw [setValueAux_spec n v s.params hs.nodup] at h ⊢
  cases hf : s.params.find? (fun p => p.name = n) with
  | none => rw [hf] at h; cases h
  | some p =>
    rw [hf] at h
    simp only at h ⊢
    cases hsv : p.setValue v with
    | error e => rw [hsv] at h; cases h
    | ok p' => rfl

/-- **simulation**: from a coherent state every edit produces exactly the parameter list and the
outcome (accepted / rejected with which error) that the specification machine `Spec.step` — a function
of the bare list only — prescribes. -/
theorem c04_simulates (s : PSet V) (hs : Coherent s) (op : Op V) :
    ((s.step op).1.params, (s.step op).2) = Spec.step s.params op := by
  cases op with
  | add a front =>
    simp only [PSet.step, Spec.step]
    cases hc : a.create with
    | error e => rfl
    | ok p =>
      simp only
      have hp := (create_wf (show Param.create _ _ _ _ _ = _ from hc)).1
      by_cases hn : p.name ∈ s.params.map (·.name)
      · rw [addParam_dup hs p front hn, if_pos (List.contains_iff_mem.2 hn)]
        rfl
      · obtain ⟨s', h, _, hp'⟩ := addParam_ok hs hp front hn
        rw [h, if_neg (fun hc => hn (List.contains_iff_mem.1 hc))]
        simp only [liftE, hp']
  | fix req =>
    exact editAll_simulates _ (fun p p' h => (fixF_name req p p' h).1)
      (fun p p' h => (fixF_name req p p' h).2) hs
  | float req =>
    exact editAll_simulates _ (fun p p' h => (floatF_name req p p' h).1)
      (fun p p' h => (floatF_name req p p' h).2) hs
  | setv n v =>
    simp only [PSet.step, Spec.step, PSet.setValue]
    rw [setValueAux_spec n v s.params hs.nodup]
    cases s.params.find? (fun p => p.name = n) with
    | none => rfl
    | some p =>
      simp only
      cases p.setValue v with
      | error e => rfl
      | ok p' => rfl
  | union other left =>
    simp only [PSet.step, Spec.step]
    cases hc : createAll other with
    | error e => rfl
    | ok os =>
      simp only
      have hw := createAll_wf hc
      by_cases hnd : (os.map (·.name)).Nodup
      · rw [if_pos hnd]
        obtain ⟨t, ht, htc, htp⟩ := addAll_params (s := PSet.empty) (ps := os) coherent_empty hw
          (by simpa [PSet.empty] using hnd)
        have htp' : t.params = os := by simpa [PSet.empty] using htp
        rw [ht]
        simp only
        cases left
        · obtain ⟨u, hu, _, hup⟩ := union_params htc hs
          simp only [Bool.false_eq_true, if_false, hu, liftE, hup, htp']
        · obtain ⟨u, hu, _, hup⟩ := union_params hs htc
          simp only [if_true, hu, liftE, hup, htp']
      · rw [if_neg hnd, addAll_dup (s := PSet.empty) coherent_empty hw (by simpa [PSet.empty] using hnd)]
  | unionN others pos =>
    simp only [PSet.step, Spec.step]
    have hsp := createSets_spec others
    cases hl : Spec.createLists others with
    | error e => rw [hl] at hsp; simp only at hsp ⊢; rw [hsp]
    | ok oss =>
      rw [hl] at hsp
      obtain ⟨ts, h1, h2, h3⟩ := hsp
      rw [h1]
      simp only
      obtain ⟨u, hu, _, hup⟩ := unionN_insert hs h3 pos
      rw [hu]
      simp only [liftE, hup, h2]
  | chfix n v =>
    simp only [PSet.step, Spec.step]
    rw [changeFixedValue_simulates hs n v, changeFixedAux_spec n v s.params hs.nodup]
    cases s.params.find? (fun p => p.name = n) with
    | none => rfl
    | some p =>
      simp only
      cases p.changeFixedValue v with
      | error e => rfl
      | ok p' => rfl
  | copy => rfl
  | badArgs => rfl
  | map a models al => rfl

/-- **refinement against the specification machine**: after any history the parameter list is the one
the specification machine reaches from the empty list, and (with `c04_refine`) every view computed from
the caches is the view of *that* list. -/
theorem c04_refine_spec (ops : List (Op V)) (q : List String) (g : List V) :
    (PSet.run (PSet.empty : PSet V) ops).params = Spec.run [] ops ∧
    (PSet.run (PSet.empty : PSet V) ops).views q g = Spec.views (Spec.run [] ops) q g := by
  have key : ∀ (s : PSet V), Coherent s → (PSet.run s ops).params = Spec.run s.params ops := by
    induction ops with
    | nil => intro s _; rfl
    | cons op ops ih =>
      intro s hs
      have h := congrArg Prod.fst (c04_simulates s hs op)
      simp only at h
      simp only [PSet.run, Spec.run, ← h]
      exact ih _ (c04_inv_step s op hs)
  have h1 := key PSet.empty c04_inv_init
  have h1' : (PSet.run (PSet.empty : PSet V) ops).params = Spec.run [] ops := h1
  exact ⟨h1', by rw [← h1']; exact (c04_refine ops q g).2⟩

example : Spec.run ([] : List (Param Int))
    [.add ⟨"a", 1, some 0, some 2, none⟩ false, .add ⟨"b", 5, none, none, none⟩ true,
     .union [⟨"c", 2, none, none, none⟩, ⟨"a", 9, none, none, none⟩] true, .setv "a" 2]
    = [⟨"b", 5, true, none, none, 5⟩, ⟨"a", 1, false, some 0, some 2, 2⟩, ⟨"c", 2, true, none, none, 2⟩] := by
  decide

/-! ### rejections at the level of the set -/

/-- a request that names an already fixed parameter is rejected as a whole and nothing changes -/
theorem c04_reject_fix_fixed (s : PSet V) (req : List (String × FixVal V)) (p : Param V) (hp : p ∈ s.params)
    (hf : p.isfixed = true) (hr : (dget req p.name).isSome = true) :
    ∃ e, s.makeParamsFixed req = (s, .error e) := by
  have hv : ∀ ps : List (Param V), p ∈ ps → ∃ e, PSet.validate (PSet.fixF req) ps = .error e := by
    intro ps
    induction ps with
    | nil => intro h; cases h
    | cons q ps ih =>
      intro hq
      unfold PSet.validate
      cases hfq : PSet.fixF req q with
      | error e => exact ⟨e, rfl⟩
      | ok r =>
        simp only
        rcases List.mem_cons.1 hq with h1 | h1
        · subst h1
          unfold PSet.fixF at hfq
          cases hd : dget req p.name with
          | none => rw [hd] at hr; cases hr
          | some x => rw [hd] at hfq; simp [hf] at hfq
        · exact ih h1
  obtain ⟨e, he⟩ := hv s.params hp
  exact ⟨e, by unfold PSet.makeParamsFixed PSet.editAll; rw [he]⟩

/-- changing the value of a fixed parameter of a set is rejected and nothing changes -/
theorem c04_reject_fixed_change_in_set (s : PSet V) (hs : Coherent s) (p : Param V) (hp : p ∈ s.params)
    (hf : p.isfixed = true) (v : V) (hv : v ≠ p.value) : s.setValue p.name v = (s, .error .valueError) := by
  have hfind : s.params.find? (fun q => q.name = p.name) = some p := by
    have hnd := hs.nodup
    generalize s.params = ps at hp hnd
    induction ps with
    | nil => cases hp
    | cons q ps ih =>
      rw [List.map_cons, List.nodup_cons] at hnd
      rcases List.mem_cons.1 hp with h1 | h1
      · subst h1; simp
      · have : q.name ≠ p.name := fun h => hnd.1 (by rw [h]; exact List.mem_map_of_mem h1)
        simp only [List.find?_cons, this, decide_false]
        exact ih h1 hnd.2
  have hrej : p.setValue v = .error .valueError :=
    c04_reject_fixed_change p v hf (by rw [← (hs.wf p hp).1 hf]; exact hv)
  unfold PSet.setValue
  rw [setValueAux_spec p.name v s.params hs.nodup, hfind]
  simp only [hrej]

/-- a `make_params_floating` request whose (given or current) initial value lies outside the (given or
kept) bounds is rejected as a whole and nothing changes -/
theorem c04_reject_float_bounds_in_set (s : PSet V) (req : List (String × PSet.FloatEntry V)) (p : Param V)
    (hp : p ∈ s.params) (ini vmin vmax : Option V) (lo hi : V)
    (hreq : dget req p.name = some (.entry (.ofOption ini) (.ofOption vmin) (.ofOption vmax)))
    (hlo : vmin.or p.valmin = some lo)
    (hhi : vmax.or p.valmax = some hi) (hv : ini.getD p.value < lo ∨ hi < ini.getD p.value) :
    ∃ e, s.makeParamsFloating req = (s, .error e) := by
  have hto : ∀ x : Option V, (FixVal.ofOption x).toOption? = some x := by
    intro x; cases x <;> rfl
  have hfp : ∃ e, PSet.floatF req p = .error e := by
    unfold PSet.floatF
    rw [hreq]
    simp only
    by_cases hf : (!p.isfixed) = true
    · exact ⟨_, by rw [if_pos hf]⟩
    · rw [if_neg hf]
      split
      · exact ⟨_, rfl⟩
      · simp only [hto, c04_reject_bounds_make_floating p ini vmin vmax lo hi hlo hhi hv]
        exact ⟨_, rfl⟩
  have hvld : ∀ ps : List (Param V), p ∈ ps → ∃ e, PSet.validate (PSet.floatF req) ps = .error e := by
    intro ps
    induction ps with
    | nil => intro h; cases h
    | cons q ps ih =>
      intro hq
      unfold PSet.validate
      cases hfq : PSet.floatF req q with
      | error e => exact ⟨e, rfl⟩
      | ok r =>
        simp only
        rcases List.mem_cons.1 hq with h1 | h1
        · subst h1
          obtain ⟨e, he⟩ := hfp
          rw [he] at hfq; cases hfq
        · exact ih h1
  obtain ⟨e, he⟩ := hvld s.params hp
  exact ⟨e, by unfold PSet.makeParamsFloating PSet.editAll; rw [he]⟩

example : ∃ e, C04.Examples.s2.makeParamsFixed [("b", .val 1)] = (C04.Examples.s2, .error e) :=
  c04_reject_fix_fixed _ _ C04.Examples.b (by decide) rfl (by decide)

/-! ### source selection, field names and the whole record array -/

/-- **`get_src_model_idxs`**: exactly the positions of the source models, restricted to the requested
ones when a selection is given (the function that carried defect 5913c1e) … -/
theorem c04_src_model_idxs (s : PMM V) (sel : Option (List Nat)) (i : Nat) :
    i ∈ s.srcModelIdxs sel ↔
      (∃ m, s.models[i]? = some m ∧ m.2 = true) ∧ (∀ l, sel = some l → i ∈ l) := by
  have hall : ∀ i, i ∈ (List.range s.nModels).filter s.isSourceAt ↔
      ∃ m, s.models[i]? = some m ∧ m.2 = true := by
    intro i
    rw [List.mem_filter, List.mem_range]
    unfold PMM.isSourceAt
    constructor
    · rintro ⟨_, h⟩
      cases hm : s.models[i]? with
      | none => rw [hm] at h; cases h
      | some m => rw [hm] at h; exact ⟨m, rfl, h⟩
    · rintro ⟨m, hm, h2⟩
      refine ⟨?_, by rw [hm]; exact h2⟩
      have := (List.getElem?_eq_some_iff.1 hm).1
      simpa [PMM.nModels] using this
  unfold PMM.srcModelIdxs
  cases sel with
  | none =>
    dsimp only
    rw [hall i]
    exact ⟨fun h => ⟨h, fun l hl => by cases hl⟩, fun h => h.1⟩
  | some l =>
    dsimp only
    rw [List.mem_filter, hall i, List.contains_iff_mem]
    constructor
    · rintro ⟨h1, h2⟩; exact ⟨h1, fun l' hl => by cases hl; exact h2⟩
    · rintro ⟨h1, h2⟩; exact ⟨h1, h2 l rfl⟩

/-- … in increasing model order, each once -/
theorem c04_src_model_idxs_sorted (s : PMM V) (sel : Option (List Nat)) :
    (s.srcModelIdxs sel).Pairwise (· < ·) := by
  unfold PMM.srcModelIdxs
  cases sel with
  | none => exact List.Pairwise.filter _ List.pairwise_lt_range
  | some l => exact List.Pairwise.filter _ (List.Pairwise.filter _ List.pairwise_lt_range)

/-- a local name nobody is mapped under is "not applicable" -/
theorem c04_cell_none (f : String) (ps : List (Param V)) (row : List (Option String)) (j k : Nat) (g : List V)
    (h : some f ∉ row) : Spec.cell f ps row j k g = none := by
  induction ps generalizing row j k g with
  | nil => cases row <;> rfl
  | cons p ps ih =>
    cases row with
    | nil => rfl
    | cons r row =>
      have hr : r ≠ some f := fun hr => h (by rw [hr]; simp)
      have hrow : some f ∉ row := fun hm => h (List.mem_cons_of_mem _ hm)
      unfold Spec.cell
      by_cases hf : p.isfixed = true
      · simp only [hf, if_true, hr, if_false]; exact ih row _ _ _ hrow
      · have hf' : p.isfixed = false := by simpa using hf
        simp only [hf', Bool.false_eq_true, if_false]
        cases g with
        | nil => rfl
        | cons v g' => simp only [hr, if_false]; exact ih row _ _ _ hrow

theorem C04.srcRows_ok (s : PMM V) (g : List V) (fields : List String) (is : List Nat)
    (h : ∀ i ∈ is, ∃ c, s.srcRow g fields i = .ok (i, c)) :
    ∃ rows, s.srcRows g fields is = .ok rows ∧ rows.map (·.1) = is ∧
      ∀ r ∈ rows, s.srcRow g fields r.1 = .ok r := by
  induction is with
  | nil => exact ⟨[], rfl, rfl, by simp⟩
  | cons i is ih =>
    obtain ⟨c, hc⟩ := h i (by simp)
    obtain ⟨rows, h1, h2, h3⟩ := ih (fun j hj => h j (by simp [hj]))
    refine ⟨(i, c) :: rows, ?_, by simp [h2], ?_⟩
    · unfold PMM.srcRows; rw [hc, h1]
    · intro r hr
      rcases List.mem_cons.1 hr with h4 | h4
      · subst h4; exact hc
      · exact h3 r h4

/-- **the whole record array**: for a well-formed mapper and a value vector of the right length
`create_src_params_recarray` does not raise, has the source field names as columns and exactly one row
per (selected) source model, in model order, tagged with that model's index, each row being the
specification's row (`c04_src_table`). -/
theorem c04_src_recarray (s : PMM V) (hw : C04.PMMWF s) (g : List V)
    (hg : g.length = s.gps.floatNames.length) (sel : Option (List Nat)) :
    ∃ rows, s.srcParamsRecarray g sel = .ok (s.srcFieldNames, rows) ∧
      rows.map (·.1) = s.srcModelIdxs sel ∧ rows.length = (s.srcModelIdxs sel).length ∧
      ∀ r ∈ rows, ∀ row, s.mpn[r.1]? = some row →
        r.2 = s.srcFieldNames.map (fun f => Spec.cell f s.gps.params row 0 0 g) := by
  have hrows : ∀ i ∈ s.srcModelIdxs sel, ∃ c, s.srcRow g s.srcFieldNames i = .ok (i, c) := by
    intro i hi
    obtain ⟨⟨m, hm, _⟩, _⟩ := (c04_src_model_idxs s sel i).1 hi
    have hlt : i < s.mpn.length := by
      rw [hw.rows]; exact (List.getElem?_eq_some_iff.1 hm).1
    exact ⟨_, c04_src_table s hw g hg s.srcFieldNames i s.mpn[i] (List.getElem?_eq_getElem hlt)⟩
  obtain ⟨rows, h1, h2, h3⟩ := C04.srcRows_ok s g s.srcFieldNames (s.srcModelIdxs sel) hrows
  refine ⟨rows, ?_, h2, by rw [← h2, List.length_map], ?_⟩
  · unfold PMM.srcParamsRecarray
    rw [if_neg (by simpa using hg)]
    simp only [h1]
  · intro r hr row hrow
    have := h3 r hr
    rw [c04_src_table s hw g hg s.srcFieldNames r.1 row hrow] at this
    exact (congrArg Prod.snd (Except.ok.inj this)).symm

example : (C04.Examples.m3.srcModelIdxs (some [1])) = [1] ∧
    (1 ∈ C04.Examples.m3.srcModelIdxs (some [1, 7])) := by decide

/-! ### the alias matrix after `map_param`, the value dictionaries -/

/-- the local name model `i` gets from the `model_param_names` argument (a single name is broadcast) -/
def C04.aliasOf (names : List String) (i : Nat) : Option String :=
  match names with
  | [a] => some a
  | _ => names[i]?

theorem C04.mapParam_ok (s : PMM V) (p : Param V) (models : Option (List Nat)) (al : AliasArg)
    (h : (s.mapParam p models al).2 = .ok ()) :
    ∃ col gps', PMM.aliasColumn (s.aliasNames p al) (s.modelMask models) = .ok col ∧
      s.gps.addParam p false = .ok gps' ∧
      (s.mapParam p models al).1 =
        { s with gps := gps', mpn := List.zipWith (fun row c => row ++ [c]) s.mpn col } := by
  unfold PMM.mapParam at h ⊢
  by_cases h0 : s.modelsEmpty models = true
  · rw [if_pos h0] at h; cases h
  · rw [if_neg h0] at h ⊢
    unfold PMM.mapParamCore at h ⊢
    cases h1 : PMM.checkAliases (s.aliasNames p al) s.mpn (s.modelMask models) 0 with
    | error e => rw [h1] at h; cases h
    | ok u =>
      cases h2 : PMM.aliasColumn (s.aliasNames p al) (s.modelMask models) with
      | error e => rw [h1, h2] at h; cases h
      | ok col =>
        cases h3 : s.gps.addParam p false with
        | error e => rw [h1, h2, h3] at h; cases h
        | ok gps' => exact ⟨col, gps', rfl, rfl, rfl⟩

/-- **`map_param`, accepted**: the parameter is appended to the global set, the models stay, and every
alias row gets exactly one new entry — the requested local name when the model is one of the models
the parameter is mapped to, "not mapped" otherwise. -/
theorem c04_map_result (s : PMM V) (hw : C04.PMMWF s) (p : Param V) (hp : ParamWF p)
    (models : Option (List Nat)) (al : AliasArg) (h : (s.mapParam p models al).2 = .ok ()) :
    (s.mapParam p models al).1.gps.params = s.gps.params ++ [p] ∧
    (s.mapParam p models al).1.models = s.models ∧
    ∀ i row, s.mpn[i]? = some row → (s.mapParam p models al).1.mpn[i]? =
      some (row ++ [if PMM.isMapped models i then C04.aliasOf (s.aliasNames p al) i else none]) := by
  obtain ⟨col, gps', h2, h3, heq⟩ := C04.mapParam_ok s p models al h
  rw [heq]
  refine ⟨by simpa using (addParam_coherent hw.gps hp h3).2, rfl, ?_⟩
  intro i row hrow
  have hi : i < s.nModels := by
    have := (List.getElem?_eq_some_iff.1 hrow).1
    rw [hw.rows] at this
    exact this
  have hmask : (s.modelMask models)[i]? = some (PMM.isMapped models i) := by
    unfold PMM.modelMask
    rw [List.getElem?_map, List.getElem?_range hi]
    rfl
  have hml : (s.modelMask models).length = s.nModels := by simp [PMM.modelMask]
  have hcol : col[i]? = some (if PMM.isMapped models i then C04.aliasOf (s.aliasNames p al) i else none) := by
    unfold PMM.aliasColumn at h2
    by_cases hl : (s.aliasNames p al).length = (s.modelMask models).length
    · rw [if_pos hl] at h2
      have hc : col = List.zipWith (fun (b : Bool) a => if b then some a else none) (s.modelMask models)
          (s.aliasNames p al) := (Except.ok.inj h2).symm
      have hin : i < (s.aliasNames p al).length := by rw [hl, hml]; exact hi
      have ha : C04.aliasOf (s.aliasNames p al) i = some (s.aliasNames p al)[i] := by
        unfold C04.aliasOf
        split
        · rename_i a hn
          have hi0 : i = 0 := by
            have : i < 1 := by simpa [hn] using hin
            omega
          subst hi0
          simp [hn]
        · exact List.getElem?_eq_getElem hin
      rw [hc, List.getElem?_zipWith, hmask, List.getElem?_eq_getElem hin, ha]
    · rw [if_neg hl] at h2
      split at h2
      · rename_i a hn
        have hc : col = (s.modelMask models).map (fun (b : Bool) => if b then some a else none) :=
          (Except.ok.inj h2).symm
        rw [hc, List.getElem?_map, hmask]
        simp [C04.aliasOf, hn]
      · cases h2
  show (List.zipWith (fun row c => row ++ [c]) s.mpn col)[i]? = _
  rw [List.getElem?_zipWith, hrow, hcol]

example : ((C04.Examples.m3.mapParam C04.Examples.b (some [0, 2]) (.one "x")).1.mpn) =
    [[none, some "x"], [some "gamma", none], [some "gamma", some "x"]] := by decide

/-- the value dictionary has exactly one entry per parameter when the supplied vector has one value
per floating parameter (a shorter vector is truncated by `zip` — the hypothesis is needed) -/
theorem c04_params_dict_total (s : PSet V) (hs : Coherent s) (q : List String) (g : List V)
    (hg : g.length = s.floatNames.length) :
    (s.views q g).paramsDict.map (·.1) = s.floatNames ++ s.fixedNames ∧
    (s.views q g).paramsDict.length = s.params.length ∧
    (s.views q g).floatDict.map (·.2) = g := by
  have hfv : s.fixedVals.length = s.fixedNames.length := by
    rw [hs.caches.fixedVals, hs.caches.fixedNames, List.length_map, List.length_map]
  have h1 : (s.views q g).paramsDict.map (·.1) = s.floatNames ++ s.fixedNames := by
    simp only [PSet.views, List.map_append]
    rw [List.map_fst_zip (by omega), List.map_fst_zip (by omega)]
  refine ⟨h1, ?_, ?_⟩
  · have := congrArg List.length h1
    rw [List.length_map] at this
    rw [this, List.length_append, hs.caches.floatNames, hs.caches.fixedNames, List.length_map, List.length_map]
    have hp := List.length_eq_length_filter_add (fun p : Param V => p.isfixed) (l := s.params)
    omega
  · simp only [PSet.views]
    rw [List.map_snd_zip (by omega)]

/-! ## Deepening round: `change_fixed_value`, the cache refresh, n-ary union -/

/-- `union(s_1, …, s_k)` (k ≥ 1, all coherent): accepted; the parameters of the first set, then, set
after set, those whose name is new -/
theorem c04_unionN_result (a : PSet V) (rest : List (PSet V)) (ha : Coherent a) (hr : ∀ b ∈ rest, Coherent b) :
    ∃ u, PSet.unionN (a :: rest) = .ok u ∧ Coherent u ∧
      u.params = rest.foldl (fun acc b => Spec.unionList acc b.params) a.params := by
  obtain ⟨u, h, hc, hp⟩ := unionN_params ha hr
  refine ⟨u, h, hc, ?_⟩
  rw [hp]
  simp only [List.map_cons, Spec.unionAll, List.foldl_map]

/-- `union()` without any set is a `ValueError` -/
theorem c04_unionN_empty : PSet.unionN ([] : List (PSet V)) = .error .valueError := rfl

/-- the sanctioned change of a fixed value (`change_fixed_value` + `update_fixed_param_value_cache`),
accepted: exactly the named fixed parameter gets the new initial = value, everything else stays -/
theorem c04_change_fixed_result (s : PSet V) (hs : Coherent s) (n : String) (v : V)
    (h : (s.changeFixedValue n v).2 = .ok ()) :
    (s.changeFixedValue n v).1.params =
      s.params.map (fun p => if p.name = n then { p with initial := v, value := v } else p) ∧
    Coherent (s.changeFixedValue n v).1 := by
  refine ⟨?_, (changeFixedValue_coherent hs n v).1⟩
  have h1 := c04_simulates s hs (.chfix n v)
  simp only [PSet.step, Spec.step] at h1
  have h2 := congrArg Prod.snd h1
  have h3 := congrArg Prod.fst h1
  simp only at h2 h3
  rw [h] at h2
  rw [h3]
  cases hf : s.params.find? (fun p => p.name = n) with
  | none => rw [hf] at h2; cases h2
  | some p =>
    rw [hf] at h2
    simp only at h2 ⊢
    cases hc : p.changeFixedValue v with
    | error e => rw [hc] at h2; cases h2
    | ok p' => rfl

/-- a floating parameter has no fixed value to change -/
theorem c04_change_fixed_rejects_floating (p : Param V) (v : V) (hf : p.isfixed = false) :
    p.changeFixedValue v = .error .valueError := by
  simp [Param.changeFixedValue, hf]

/-- **the cache refresh restores coherence**: whatever the fixed value cache holds (right length), after
`update_fixed_param_value_cache()` the set is coherent again and the call does not raise -/
theorem c04_update_cache_restores (s : PSet V) (h : CoherentModVals s) :
    s.updateFixedValueCache.2 = .ok () ∧ Coherent s.updateFixedValueCache.1 :=
  ⟨(updateCache_coherent h).1, (updateCache_coherent h).2.1⟩

/-- `change_fixed_value` on the Parameter object alone keeps everything but the value cache -/
theorem c04_change_fixed_raw_partial (s : PSet V) (hs : Coherent s) (n : String) (v : V) :
    CoherentModVals (s.changeFixedRaw n v).1 := changeFixedRaw_modVals hs n v

/-- the full claim "all views agree after `change_fixed_value`" for the raw call -/
def c04_change_fixed_raw_statement : Prop :=
  ∀ (s : PSet Int) (n : String) (v : Int), Coherent s → Coherent (s.changeFixedRaw n v).1

/-- … is false (documented: the caller has to call `update_fixed_param_value_cache`): after
`b.change_fixed_value(6)` the cache still holds 5 -/
theorem c04_change_fixed_raw_counterexample : ¬ c04_change_fixed_raw_statement := by
  intro h
  have hs : Coherent (PSet.run (PSet.empty : PSet Int) [.add ⟨"b", 5, none, none, none⟩ false]) :=
    C04.run_coherent _ _ c04_inv_init
  have := (h _ "b" 6 hs).caches.fixedVals
  revert this
  decide

example : ((PSet.run (PSet.empty : PSet Int) [.add ⟨"b", 5, none, none, none⟩ false, .chfix "b" 6]).fixedVals,
    (PSet.run (PSet.empty : PSet Int) [.add ⟨"b", 5, none, none, none⟩ false, .chfix "b" 6]).params.map (·.initial))
    = ([6], [6]) := by decide

example : (PSet.run (PSet.empty : PSet Int)
    [.add ⟨"a", 1, some 0, some 2, none⟩ false,
     .unionN [[⟨"b", 5, none, none, none⟩], [⟨"a", 9, none, none, none⟩, ⟨"c", 2, none, none, none⟩]] 1]).params.map
      (fun p => (p.name, p.initial)) = [("b", 5), ("a", 1), ("c", 2)] := by decide

/-! ### field names, closed form of the table cell, the three value views agree -/



/-- **field set of the record array**: a local name is a column exactly when some *source* model has a
parameter mapped under it -/
theorem c04_src_fields (s : PMM V) (f : String) : f ∈ s.srcFieldNames ↔
    ∃ (i : Nat) (m : String × Bool) (row : List (Option String)),
      s.models[i]? = some m ∧ m.2 = true ∧ s.mpn[i]? = some row ∧ some f ∈ row := by
  unfold PMM.srcFieldNames
  simp only [List.mem_eraseDups, List.mem_filterMap, List.mem_flatten, List.mem_map, List.mem_filter, id]
  constructor
  · rintro ⟨o, ⟨l, ⟨rm, ⟨hrm, hsrc⟩, hl⟩, hol⟩, ho⟩
    subst ho; subst hl
    obtain ⟨i, hi⟩ := List.mem_iff_getElem?.1 hrm
    obtain ⟨h1, h2⟩ := List.getElem?_zip_eq_some.1 hi
    exact ⟨i, rm.2, rm.1, h2, hsrc, h1, hol⟩
  · rintro ⟨i, m, row, hm, hsrc, hrow, hmem⟩
    have hz : (row, m) ∈ s.mpn.zip s.models :=
      List.mem_iff_getElem?.2 ⟨i, List.getElem?_zip_eq_some.2 ⟨hrow, hm⟩⟩
    exact ⟨some f, ⟨row, ⟨(row, m), ⟨hz, hsrc⟩, rfl⟩, hmem⟩, rfl⟩

/-- the local names of *all* models (`unique_model_param_names`) -/
theorem c04_model_fields (s : PMM V) (f : String) : f ∈ s.modelFieldNames ↔ ∃ row ∈ s.mpn, some f ∈ row := by
  unfold PMM.modelFieldNames
  simp only [List.mem_eraseDups, List.mem_filterMap, List.mem_flatten, id]
  constructor
  · rintro ⟨o, ⟨row, hrow, ho⟩, rfl⟩; exact ⟨row, hrow, ho⟩
  · rintro ⟨row, hrow, ho⟩; exact ⟨some f, ⟨row, hrow, ho⟩, rfl⟩

/-- number of floating parameters in front of position `j` = index of the fit parameter at `j` -/
def C04.rankAt (ps : List (Param V)) (j : Nat) : Nat := ((ps.take j).filter (fun p => !p.isfixed)).length

/-- **closed form of the table cell**: if the parameter at global position `j` is the first one mapped
under the local name `f` and the supplied vector covers the floating parameters in front of it, the
cell is `(its fixed value, -(j+1))` when it is fixed and `(g[k], k+1)`, `k` = its fit-parameter index,
when it is floating (`none` when the vector ends before `k`). -/
theorem c04_cell_at (f : String) (ps : List (Param V)) (row : List (Option String)) (j : Nat) (p : Param V)
    (j0 k0 : Nat) (g : List V) (hp : ps[j]? = some p) (hr : row[j]? = some (some f))
    (hfirst : ∀ j' < j, row[j']? ≠ some (some f)) (hg : C04.rankAt ps j ≤ g.length) :
    Spec.cell f ps row j0 k0 g =
      if p.isfixed then some (p.value, -(((j0 + j : Nat) : Int) + 1))
      else (g[C04.rankAt ps j]?).map (fun v => (v, ((k0 + C04.rankAt ps j : Nat) : Int) + 1)) := by
  induction j generalizing ps row j0 k0 g with
  | zero =>
    cases ps with
    | nil => simp at hp
    | cons q ps =>
      cases row with
      | nil => simp at hr
      | cons r row =>
        simp only [List.getElem?_cons_zero, Option.some.injEq] at hp hr
        subst hp; subst hr
        unfold Spec.cell
        cases hf : q.isfixed
        · cases g with
          | nil => simp [C04.rankAt]
          | cons v g' => simp [C04.rankAt]
        · simp
  | succ j ih =>
    cases ps with
    | nil => simp at hp
    | cons q ps =>
      cases row with
      | nil => simp at hr
      | cons r row =>
        simp only [List.getElem?_cons_succ] at hp hr
        have hr0 : r ≠ some f := by
          have := hfirst 0 (by omega)
          simpa using this
        have hfirst' : ∀ j' < j, row[j']? ≠ some (some f) := by
          intro j' hj'
          have := hfirst (j' + 1) (by omega)
          simpa using this
        unfold Spec.cell
        cases hf : q.isfixed
        · -- q floating: consumes one value
          have hrank : C04.rankAt (q :: ps) (j + 1) = C04.rankAt ps j + 1 := by
            simp [C04.rankAt, List.filter_cons, hf]
          cases g with
          | nil => rw [hrank] at hg; simp at hg
          | cons v g' =>
            have hg' : C04.rankAt ps j ≤ g'.length := by rw [hrank] at hg; simpa using hg
            simp only [Bool.false_eq_true, if_false, hr0]
            rw [ih ps row (j0 + 1) (k0 + 1) g' hp hr hfirst' hg', hrank]
            cases p.isfixed
            · simp only [Bool.false_eq_true, if_false, List.getElem?_cons_succ]
              congr 2
              funext v
              congr 2
              push_cast
              ring
            · simp only [if_true]
              congr 3
              push_cast
              ring
        · have hrank : C04.rankAt (q :: ps) (j + 1) = C04.rankAt ps j := by
            simp [C04.rankAt, List.filter_cons, hf]
          simp only [if_true, hr0, if_false]
          rw [ih ps row (j0 + 1) k0 g hp hr hfirst' (by rw [← hrank]; exact hg), hrank]
          cases p.isfixed
          · rfl
          · simp only [if_true]
            congr 3
            push_cast
            ring

/-- dictionaries: the last assignment survives, also after projecting to (name, value) -/
theorem C04.lastLookup_map_fst {β γ : Type} (k : String) (h : β → γ) (l : List (String × β)) :
    lastLookup k (l.map (fun e => (e.1, h e.2))) = (lastLookup k l).map h := by
  induction l with
  | nil => rfl
  | cons e l ih =>
    obtain ⟨k', v⟩ := e
    simp only [List.map_cons, lastLookup_cons, ih]
    cases lastLookup k l with
    | some w => rfl
    | none => by_cases hk : k' = k <;> simp [hk]

/-- **per-model dictionary and per-source table agree**: the value `create_model_params_dict` hands
model `midx` under the local name `f` is the value part of the specification's table cell (for source
and non-source models alike) -/
theorem c04_model_dict_cell (s : PMM V) (hw : C04.PMMWF s) (g : List V)
    (hg : g.length = s.gps.floatNames.length) (midx : Nat) (row : List (Option String))
    (hrow : s.mpn[midx]? = some row) (f : String) :
    ∃ d, s.modelParamsDict g midx = .ok d ∧
      lastLookup f d = (Spec.cell f s.gps.params row 0 0 g).map (·.1) := by
  have hmem : row ∈ s.mpn := List.mem_of_getElem? hrow
  have hg' : g.length = (s.gps.params.filter (fun p => !p.isfixed)).length := by
    rw [hg, hw.gps.caches.floatNames, List.length_map]
  refine ⟨_, c04_model_dict s hw g hg midx row hrow, ?_⟩
  rw [C04.lastLookup_map_fst f (fun (x : V × Int) => x.1),
    cell_eq f s.gps.params row 0 0 g (hw.cols row hmem) hg' (hw.uniq row hmem)]

/-- `get_model_idx_by_name`: the first model of that name -/
theorem c04_model_idx_by_name (name : String) (models : List (String × Bool)) (i0 i : Nat)
    (h : PMM.modelIdxByName name models i0 = .ok i) :
    ∃ k m, i = i0 + k ∧ models[k]? = some m ∧ m.1 = name ∧ ∀ k' < k, ∀ m', models[k']? = some m' → m'.1 ≠ name := by
  induction models generalizing i0 with
  | nil => cases h
  | cons m ms ih =>
    unfold PMM.modelIdxByName at h
    by_cases hm : m.1 = name
    · rw [if_pos hm] at h
      cases h
      exact ⟨0, m, rfl, rfl, hm, fun k' hk' => by omega⟩
    · rw [if_neg hm] at h
      obtain ⟨k, m', h1, h2, h3, h4⟩ := ih (i0 + 1) h
      refine ⟨k + 1, m', by omega, by simpa using h2, h3, ?_⟩
      intro k' hk' m'' hm''
      cases k' with
      | zero => simp at hm''; subst hm''; exact hm
      | succ k'' => exact h4 k'' (by omega) m'' (by simpa using hm'')

/-- a model name that does not occur is a `KeyError`; otherwise the dictionary by name is the
dictionary of the first model of that name -/
theorem c04_model_dict_by_name (s : PMM V) (g : List V) (name : String) :
    (∀ m ∈ s.models, m.1 ≠ name) → s.modelParamsDictByName g name = .error .keyError := by
  intro h
  have : ∀ (ms : List (String × Bool)) (i0 : Nat), (∀ m ∈ ms, m.1 ≠ name) →
      PMM.modelIdxByName name ms i0 = .error .keyError := by
    intro ms
    induction ms with
    | nil => intro _ _; rfl
    | cons m ms ih =>
      intro i0 hms
      unfold PMM.modelIdxByName
      rw [if_neg (hms m (by simp))]
      exact ih (i0 + 1) (fun x hx => hms x (by simp [hx]))
  unfold PMM.modelParamsDictByName
  rw [this s.models 0 h]

/-! ### consumers of `:gpidx`, the floating mask of local names, NaN fill, index-array form -/

namespace C04

theorem idxOf?_mem {f : String} {l : List String} (h : f ∈ l) : ∃ c, idxOf? f l = some c := by
  induction l with
  | nil => cases h
  | cons x l ih =>
    by_cases hx : x = f
    · exact ⟨0, by simp [idxOf?, hx]⟩
    · rcases List.mem_cons.1 h with h1 | h1
      · exact absurd h1.symm hx
      · obtain ⟨c, hc⟩ := ih h1
        exact ⟨c + 1, by simp [idxOf?, hx, hc]⟩

theorem idxOf?_not_mem {f : String} {l : List String} (h : f ∉ l) : idxOf? f l = none := idxOf?_eq_none h

theorem idxOf?_getElem_map {α : Type} (F : String → α) {f : String} {l : List String} {c : Nat}
    (h : idxOf? f l = some c) : (l.map F)[c]? = some (F f) := by
  induction l generalizing c with
  | nil => cases h
  | cons x l ih =>
    unfold idxOf? at h
    by_cases hx : x = f
    · rw [if_pos hx] at h; cases h; simp [hx]
    · rw [if_neg hx] at h
      cases hi : idxOf? f l with
      | none => rw [hi] at h; cases h
      | some c' =>
        rw [hi] at h
        simp only [Option.map_some, Option.some.injEq] at h
        subst h
        simpa using ih hi

theorem mem_whereAlias (n : String) (row : List (Option String)) (j0 j : Nat) :
    j ∈ PMM.whereAlias n row j0 ↔ ∃ i, j = j0 + i ∧ row[i]? = some (some n) := by
  induction row generalizing j0 with
  | nil => simp [PMM.whereAlias]
  | cons r row ih =>
    unfold PMM.whereAlias
    by_cases hr : r = some n
    · rw [if_pos hr, List.mem_cons, ih]
      constructor
      · rintro (h | ⟨i, h1, h2⟩)
        · exact ⟨0, by omega, by simp [hr]⟩
        · exact ⟨i + 1, by omega, by simpa using h2⟩
      · rintro ⟨i, h1, h2⟩
        cases i with
        | zero => left; omega
        | succ i => right; exact ⟨i, by omega, by simpa using h2⟩
    · rw [if_neg hr, ih]
      constructor
      · rintro ⟨i, h1, h2⟩; exact ⟨i + 1, by omega, by simpa using h2⟩
      · rintro ⟨i, h1, h2⟩
        cases i with
        | zero => simp at h2; exact absurd h2 hr
        | succ i => exact ⟨i, by omega, by simpa using h2⟩

theorem mem_whereTrue (m : List Bool) (j0 j : Nat) :
    j ∈ whereTrue m j0 ↔ ∃ i, j = j0 + i ∧ m[i]? = some true := by
  induction m generalizing j0 with
  | nil => simp [whereTrue]
  | cons b m ih =>
    unfold whereTrue
    cases b
    · simp only [Bool.false_eq_true, if_false, ih]
      constructor
      · rintro ⟨i, h1, h2⟩; exact ⟨i + 1, by omega, by simpa using h2⟩
      · rintro ⟨i, h1, h2⟩
        cases i with
        | zero => simp at h2
        | succ i => exact ⟨i, by omega, by simpa using h2⟩
    · simp only [if_true, List.mem_cons, ih]
      constructor
      · rintro (h | ⟨i, h1, h2⟩)
        · exact ⟨0, by omega, by simp⟩
        · exact ⟨i + 1, by omega, by simpa using h2⟩
      · rintro ⟨i, h1, h2⟩
        cases i with
        | zero => left; omega
        | succ i => right; exact ⟨i, by omega, by simpa using h2⟩

end C04

/-- **`is_global_fitparam_a_local_param` agrees with the producer of `:gpidx`**: for a field `f`, fit
parameter `k` "is the local parameter `f`" exactly when the table cell of `f` of some (selected) source
carries the index entry `k + 1` -/
theorem c04_fitparam_is_local (s : PMM V) (hw : C04.PMMWF s) (g : List V)
    (hg : g.length = s.gps.floatNames.length) (sel : Option (List Nat)) (k : Nat) (f : String)
    (hf : f ∈ s.srcFieldNames) :
    ∃ rec, s.srcParamsRecarray g sel = .ok rec ∧
      (PMM.isGlobalFitparamALocalParam k rec [f] = true ↔
        ∃ i ∈ s.srcModelIdxs sel, ∃ row, s.mpn[i]? = some row ∧
          PMM.cellGpidx (Spec.cell f s.gps.params row 0 0 g) = (k : Int) + 1) := by
  obtain ⟨rows, hrec, hidx, _, hcells⟩ := c04_src_recarray s hw g hg sel
  obtain ⟨c, hc⟩ := C04.idxOf?_mem hf
  refine ⟨_, hrec, ?_⟩
  have hrowOf : ∀ r ∈ rows, ∃ row, s.mpn[r.1]? = some row := by
    intro r hr
    have hmem : r.1 ∈ s.srcModelIdxs sel := by rw [← hidx]; exact List.mem_map_of_mem hr
    obtain ⟨⟨m, hm, _⟩, _⟩ := (c04_src_model_idxs s sel r.1).1 hmem
    have hlt : r.1 < s.mpn.length := by rw [hw.rows]; exact (List.getElem?_eq_some_iff.1 hm).1
    exact ⟨s.mpn[r.1], List.getElem?_eq_getElem hlt⟩
  have hcell : ∀ r ∈ rows, ∀ row, s.mpn[r.1]? = some row →
      r.2[c]? = some (Spec.cell f s.gps.params row 0 0 g) := by
    intro r hr row hrow
    rw [hcells r hr row hrow]
    exact C04.idxOf?_getElem_map _ hc
  simp only [PMM.isGlobalFitparamALocalParam, PMM.gpidxColumn, hc, List.any_cons, List.any_nil, Bool.or_false,
    List.any_map, List.any_eq_true, Function.comp]
  constructor
  · rintro ⟨r, hr, hgp⟩
    obtain ⟨row, hrow⟩ := hrowOf r hr
    refine ⟨r.1, by rw [← hidx]; exact List.mem_map_of_mem hr, row, hrow, ?_⟩
    rw [hcell r hr row hrow] at hgp
    simpa using hgp
  · rintro ⟨i, hi, row, hrow, hgp⟩
    rw [← hidx] at hi
    obtain ⟨r, hr, rfl⟩ := List.mem_map.1 hi
    refine ⟨r, hr, ?_⟩
    rw [hcell r hr row hrow]
    simpa using hgp

/-- a name that is no column of the record array is skipped (`continue`) -/
theorem c04_fitparam_skips_unknown (k : Nat) (rec : PMM.RecArray V) (f : String) (names : List String)
    (hf : f ∉ rec.1) :
    PMM.isGlobalFitparamALocalParam k rec (f :: names) = PMM.isGlobalFitparamALocalParam k rec names := by
  simp [PMM.isGlobalFitparamALocalParam, PMM.gpidxColumn, C04.idxOf?_not_mem hf]

/-- **`get_local_param_is_global_floating_param_mask`**: the entry of a local name is true exactly when
some model (source or not) has a *floating* global parameter mapped under that name -/
theorem c04_local_is_floating_mask (s : PMM V) (hw : C04.PMMWF s) (names : List String) (i : Nat) (n : String)
    (hn : names[i]? = some n) :
    (s.localParamIsGlobalFloatingMask names)[i]? = some true ↔
      ∃ row ∈ s.mpn, ∃ (j : Nat) (p : Param V),
        row[j]? = some (some n) ∧ s.gps.params[j]? = some p ∧ p.isfixed = false := by
  have hfm : s.gps.floatMask = s.gps.params.map (fun p => !p.isfixed) := by
    simp [PSet.floatMask, hw.gps.mask]
  unfold PMM.localParamIsGlobalFloatingMask
  simp only [List.getElem?_map, hn, Option.map_some, Option.some.injEq, List.any_eq_true, List.mem_eraseDups,
    List.mem_flatMap, List.contains_iff_mem, C04.mem_whereAlias, C04.mem_whereTrue, hfm, Nat.zero_add]
  constructor
  · rintro ⟨j, ⟨row, hrow, i1, hj1, h1⟩, i2, hj2, h3⟩
    subst hj1
    subst hj2
    simp only [Option.map_eq_some_iff] at h3
    obtain ⟨p, hp, hpf⟩ := h3
    exact ⟨row, hrow, j, p, h1, hp, by simpa using hpf⟩
  · rintro ⟨row, hrow, j, p, h1, hp, hpf⟩
    refine ⟨j, ⟨row, hrow, j, rfl, h1⟩, j, rfl, ?_⟩
    simp [hp, hpf]

/-- `create_src_params_recarray(None)`: never raises (the vector of NaNs has the right length by
construction), same rows as for any other vector -/
theorem c04_src_recarray_none (nan : V) (s : PMM V) (hw : C04.PMMWF s) (sel : Option (List Nat)) :
    ∃ rows, PMM.srcParamsRecarrayNone nan s sel = .ok (s.srcFieldNames, rows) ∧
      rows.map (·.1) = s.srcModelIdxs sel ∧
      ∀ r ∈ rows, ∀ row, s.mpn[r.1]? = some row → r.2 = s.srcFieldNames.map (fun f =>
        Spec.cell f s.gps.params row 0 0 (List.replicate s.gps.floatNames.length nan)) := by
  obtain ⟨rows, h1, h2, _, h4⟩ := c04_src_recarray s hw (List.replicate s.gps.floatNames.length nan)
    (List.length_replicate ..) sel
  exact ⟨rows, h1, h2, h4⟩

/-- a value vector of the wrong length is rejected by `create_src_params_recarray` (any selection form) -/
theorem c04_recarray_rejects_wrong_length (s : PMM V) (g : List V) (sel : Option (List Nat)) (idxs : List Nat)
    (hg : g.length ≠ s.gps.floatNames.length) :
    s.srcParamsRecarray g sel = .error .valueError ∧ s.srcParamsRecarrayIdx g idxs = .error .valueError := by
  unfold PMM.srcParamsRecarray PMM.srcParamsRecarrayIdx
  simp [hg]

/-- the `int32` index-array form with the indices of the selected sources gives the same record array as
the selection by `SourceModel` objects -/
theorem c04_src_recarray_idx_eq (s : PMM V) (hw : C04.PMMWF s) (g : List V) (sel : Option (List Nat)) :
    s.srcParamsRecarrayIdx g (s.srcModelIdxs sel) = s.srcParamsRecarray g sel := by
  have key : ∀ is : List Nat, (∀ i ∈ is, i ∈ s.srcModelIdxs sel) →
      s.srcRowsIdx g s.srcFieldNames is = s.srcRows g s.srcFieldNames is := by
    intro is
    induction is with
    | nil => intro _; rfl
    | cons i is ih =>
      intro h
      obtain ⟨⟨m, hm, hsrc⟩, _⟩ := (c04_src_model_idxs s sel i).1 (h i (by simp))
      have hlt : i < s.mpn.length := by rw [hw.rows]; exact (List.getElem?_eq_some_iff.1 hm).1
      have hrow : s.mpn[i]? = some s.mpn[i] := List.getElem?_eq_getElem hlt
      have hall : ((s.mpn[i]).filterMap id).all (fun a => s.srcFieldNames.contains a) = true := by
        rw [List.all_eq_true]
        intro a ha
        rw [List.contains_iff_mem, c04_src_fields]
        obtain ⟨o, ho, hoa⟩ := List.mem_filterMap.1 ha
        simp only [id] at hoa
        subst hoa
        exact ⟨i, m, s.mpn[i], hm, hsrc, hrow, ho⟩
      unfold PMM.srcRowsIdx PMM.srcRows
      rw [hrow]
      simp only [hall, if_true, ih (fun j hj => h j (by simp [hj]))]
  unfold PMM.srcParamsRecarrayIdx PMM.srcParamsRecarray
  rw [key _ (fun i hi => hi)]

/-! ### hypotheses discharged by the code, wrong-length vectors, the global dictionary -/

/-- **the constructor establishes the parameter invariant**: whatever `Parameter(name, initial, valmin,
valmax, isfixed)` accepts is well-formed (hypothesis `ParamWF p` of `c04_add_result`, `c04_map_result`) -/
theorem c04_create_wf (a : PArgs V) (p : Param V) (h : a.create = .ok p) : ParamWF p ∧ p.name = a.name :=
  create_wf (show Param.create _ _ _ _ _ = _ from h)

/-- in a row without repeated local names the column of a name is the first one (hypothesis `hfirst`
of `c04_cell_at`; the mapper establishes the premise: `c04_pmm_refine`) -/
theorem C04.first_of_nodup (row : List (Option String)) (f : String) (j : Nat)
    (hu : (row.filterMap id).Nodup) (hr : row[j]? = some (some f)) :
    ∀ j' < j, row[j']? ≠ some (some f) := by
  induction row generalizing j with
  | nil => simp at hr
  | cons r row ih =>
    intro j' hj' hj'r
    cases j with
    | zero => omega
    | succ j =>
      simp only [List.getElem?_cons_succ] at hr
      have hmem : some f ∈ row := List.mem_of_getElem? hr
      cases j' with
      | zero =>
        simp only [List.getElem?_cons_zero, Option.some.injEq] at hj'r
        subst hj'r
        simp only [List.filterMap_cons, id, List.nodup_cons] at hu
        exact hu.1 (List.mem_filterMap.2 ⟨some f, hmem, rfl⟩)
      | succ j'' =>
        simp only [List.getElem?_cons_succ] at hj'r
        have hu' : (row.filterMap id).Nodup := by
          cases r with
          | none => simpa using hu
          | some x => simp only [List.filterMap_cons, id, List.nodup_cons] at hu; exact hu.2
        exact ih j hu' hr j'' (by omega) hj'r

/-- the closed form of the cell for a reachable mapper: model `midx`, global parameter `j` mapped under
`f`, value vector of the right length -/
theorem c04_cell_at_wf (s : PMM V) (hw : C04.PMMWF s) (g : List V) (hg : g.length = s.gps.floatNames.length)
    (midx : Nat) (row : List (Option String)) (hrow : s.mpn[midx]? = some row) (j : Nat) (p : Param V) (f : String)
    (hp : s.gps.params[j]? = some p) (hr : row[j]? = some (some f)) :
    Spec.cell f s.gps.params row 0 0 g =
      if p.isfixed then some (p.value, -((j : Int) + 1))
      else (g[C04.rankAt s.gps.params j]?).map (fun v => (v, (C04.rankAt s.gps.params j : Int) + 1)) := by
  have hmem : row ∈ s.mpn := List.mem_of_getElem? hrow
  have hgl : C04.rankAt s.gps.params j ≤ g.length := by
    rw [hg, hw.gps.caches.floatNames, List.length_map]
    unfold C04.rankAt
    have : List.Sublist ((s.gps.params.take j).filter (fun p => !p.isfixed))
        (s.gps.params.filter (fun p => !p.isfixed)) :=
      List.Sublist.filter _ (List.take_sublist j _)
    exact this.length_le
  have := c04_cell_at f s.gps.params row j p 0 0 g hp hr
    (C04.first_of_nodup row f j (hw.uniq row hmem) hr) hgl
  simpa using this

namespace C04

theorem maskSel_length {α : Type} {xs : List α} {m : List Bool} {r : List α} (h : maskSel xs m = .ok r) :
    xs.length = m.length := by
  induction xs generalizing m r with
  | nil =>
    cases m with
    | nil => rfl
    | cons b bs => simp [maskSel] at h
  | cons x xs ih =>
    cases m with
    | nil => simp [maskSel] at h
    | cons b bs =>
      unfold maskSel at h
      cases hr : maskSel xs bs with
      | error e => rw [hr] at h; cases h
      | ok r' => simp [ih hr]

theorem maskSel_len_ne {α : Type} {xs : List α} {m : List Bool} (h : xs.length ≠ m.length) :
    ∃ e, maskSel xs m = .error e := by
  cases hr : maskSel xs m with
  | error e => exact ⟨e, rfl⟩
  | ok r => exact absurd (maskSel_length hr) h

end C04

/-- **a value vector of the wrong length is rejected by `create_model_params_dict`** as soon as there
is a floating global parameter (without one, numpy accepts any vector for the then empty mask) -/
theorem c04_model_dict_rejects_wrong_length (s : PMM V) (hw : C04.PMMWF s) (g : List V) (midx : Nat)
    (row : List (Option String)) (hrow : s.mpn[midx]? = some row) (hfl : 0 < s.gps.floatNames.length)
    (hg : g.length ≠ s.gps.floatNames.length) : ∃ e, s.modelParamsDict g midx = .error e := by
  have hs := hw.gps
  have hc := hs.caches
  have hmem : row ∈ s.mpn := List.mem_of_getElem? hrow
  have hl := hw.cols row hmem
  have hfm : s.gps.floatMask = s.gps.params.map (fun p => !p.isfixed) := by
    simp [PSet.floatMask, hs.mask]
  have hnfl : s.gps.floatNames.length = (s.gps.params.filter (fun p => !p.isfixed)).length := by
    rw [hc.floatNames, List.length_map]
  -- an inhabitant of `V`: the value of a floating parameter
  have hne : s.gps.params.filter (fun p => !p.isfixed) ≠ [] := by
    intro h; rw [hnfl, h] at hfl; simp at hfl
  obtain ⟨p0, _⟩ := List.exists_mem_of_ne_nil _ hne
  obtain ⟨n1, m1, i1, v1, a1, a2, a3, a4, _, _, _⟩ :=
    maskForm (fun p => !p.isfixed) (fun i => i + 1) s.gps.params row
      (PMM.cumsumM1 (s.gps.params.map (fun p => !p.isfixed)) ((0 : Nat) : Int))
      (List.replicate (s.gps.params.filter (fun p => !p.isfixed)).length p0.value) hl
      (by rw [cumsumM1_length, List.length_map]) (by simp)
  obtain ⟨n2, m2, i2, v2, b1, b2, b3, _, _, _, _⟩ :=
    maskForm (fun p => p.isfixed) (fun i => -i - 1) s.gps.params row
      ((List.range' 0 s.gps.params.length).map (fun (i : Nat) => (i : Int)))
      ((s.gps.params.filter (·.isfixed)).map (·.value)) hl (by simp) (by simp)
  have hm1 : m1.length = s.gps.floatNames.length := by
    have := C04.maskSel_length a4
    simp only [List.length_replicate] at this
    rw [hnfl, this]
  have hbad : ∃ e, maskSelNp g m1 = .error e := by
    cases m1 with
    | nil => simp at hm1; omega
    | cons b bs => exact C04.maskSel_len_ne (by rw [hm1]; exact hg)
  obtain ⟨e, he⟩ := hbad
  refine ⟨.indexError, ?_⟩
  unfold PMM.modelParamsDict
  rw [hrow]
  simp only
  unfold PMM.rowEntries
  simp only [Nat.cast_zero] at a3
  simp only [hfm, hs.mask, List.range_eq_range', maskSelNp_of_ok a1, maskSelNp_of_ok a2,
    maskSelNp_of_ok a3, maskSelNp_of_ok b1, maskSelNp_of_ok b2, maskSelNp_of_ok b3, he, PSet.exMap]

namespace C04

theorem lastLookup_append' {β : Type} (k : String) (l1 l2 : List (String × β)) :
    lastLookup k (l1 ++ l2) = (lastLookup k l2).or (lastLookup k l1) := by
  rw [lastLookup_append]
  cases lastLookup k l2 <;> rfl

theorem filter_rank_get (ps : List (Param V)) (j : Nat) (p : Param V) (hp : ps[j]? = some p)
    (hf : p.isfixed = false) : (ps.filter (fun q => !q.isfixed))[rankAt ps j]? = some p := by
  induction ps generalizing j with
  | nil => simp at hp
  | cons q ps ih =>
    cases j with
    | zero =>
      simp only [List.getElem?_cons_zero, Option.some.injEq] at hp
      subst hp
      simp [rankAt, List.filter_cons, hf]
    | succ j =>
      simp only [List.getElem?_cons_succ] at hp
      cases hq : q.isfixed
      · have : rankAt (q :: ps) (j + 1) = rankAt ps j + 1 := by simp [rankAt, List.filter_cons, hq]
        rw [this]
        simp only [List.filter_cons, hq, Bool.not_false, if_true, List.getElem?_cons_succ]
        exact ih j hp
      · have : rankAt (q :: ps) (j + 1) = rankAt ps j := by simp [rankAt, List.filter_cons, hq]
        rw [this]
        simp only [List.filter_cons, hq, Bool.not_true, Bool.false_eq_true, if_false]
        exact ih j hp

theorem lastLookup_zip_nodup {β : Type} (ns : List String) (g : List β) (k : Nat) (n : String)
    (hnd : ns.Nodup) (hk : ns[k]? = some n) : lastLookup n (ns.zip g) = g[k]? := by
  induction ns generalizing g k with
  | nil => simp at hk
  | cons x ns ih =>
    rw [List.nodup_cons] at hnd
    cases g with
    | nil => simp [lastLookup]
    | cons v g =>
      simp only [List.zip_cons_cons, lastLookup_cons]
      cases k with
      | zero =>
        simp only [List.getElem?_cons_zero, Option.some.injEq] at hk
        subst hk
        have : lastLookup x (ns.zip g) = none := by
          apply lastLookup_none
          intro e he hex
          have := (List.of_mem_zip he).1
          rw [hex] at this
          exact hnd.1 this
        simp [this]
      | succ k =>
        simp only [List.getElem?_cons_succ] at hk
        have hx : x ≠ n := fun h => hnd.1 (by rw [h]; exact List.mem_of_getElem? hk)
        rw [ih g k hnd.2 hk, List.getElem?_cons_succ]
        cases g[k]? with
        | some w => rfl
        | none => simp [hx]

theorem lastLookup_zip_not_mem {β : Type} (ns : List String) (g : List β) (n : String) (h : n ∉ ns) :
    lastLookup n (ns.zip g) = none := by
  apply lastLookup_none
  intro e he hex
  have := (List.of_mem_zip he).1
  rw [hex] at this
  exact h this

end C04

/-- **the global value dictionary** (`get_params_dict` / `create_global_params_dict`): under the global
name of the parameter at position `j` it holds the parameter's fixed value when it is fixed and the
entry `g[k]`, `k` = its fit-parameter index, of the supplied vector when it is floating -/
theorem c04_params_dict_lookup (s : PSet V) (hs : Coherent s) (q : List String) (g : List V) (j : Nat)
    (p : Param V) (hp : s.params[j]? = some p) :
    lastLookup p.name (s.views q g).paramsDict =
      if p.isfixed then some p.value else g[C04.rankAt s.params j]? := by
  have hc := hs.caches
  have hmem : p ∈ s.params := List.mem_of_getElem? hp
  have hinj : ∀ q' ∈ s.params, q'.name = p.name → q' = p := by
    intro q' hq' hn
    have hnd := hs.nodup
    generalize s.params = ps at hq' hmem hnd
    induction ps with
    | nil => cases hq'
    | cons x ps ih =>
      rw [List.map_cons, List.nodup_cons] at hnd
      rcases List.mem_cons.1 hq' with h1 | h1 <;> rcases List.mem_cons.1 hmem with h2 | h2
      · rw [h1, h2]
      · subst h1; exact absurd (by rw [hn]; exact List.mem_map_of_mem h2) hnd.1
      · subst h2; exact absurd (by rw [← hn]; exact List.mem_map_of_mem h1) hnd.1
      · exact ih h1 h2 hnd.2
  have hndfl : ((s.params.filter (fun q => !q.isfixed)).map (·.name)).Nodup :=
    (List.Sublist.map _ (List.filter_sublist)).nodup hs.nodup
  have hndfx : ((s.params.filter (·.isfixed)).map (·.name)).Nodup :=
    (List.Sublist.map _ (List.filter_sublist)).nodup hs.nodup
  simp only [PSet.views, C04.lastLookup_append']
  rw [hc.fixedNames, hc.fixedVals, hc.floatNames]
  cases hf : p.isfixed
  · -- floating: not among the fixed names, at position rank among the floating names
    have hnot : p.name ∉ (s.params.filter (·.isfixed)).map (·.name) := by
      intro hm
      obtain ⟨q', hq', hqn⟩ := List.mem_map.1 hm
      have := hinj q' (List.mem_filter.1 hq').1 hqn
      rw [this] at hq'
      have := (List.mem_filter.1 hq').2
      rw [hf] at this
      cases this
    rw [C04.lastLookup_zip_not_mem _ _ _ hnot]
    simp only [Bool.false_eq_true, if_false]
    apply C04.lastLookup_zip_nodup _ _ _ _ hndfl
    rw [List.getElem?_map, C04.filter_rank_get s.params j p hp hf]
    rfl
  · -- fixed: found among the fixed names with its own value
    obtain ⟨k, hk⟩ := List.mem_iff_getElem?.1 (List.mem_filter.2 ⟨hmem, hf⟩)
    have h1 : lastLookup p.name (((s.params.filter (·.isfixed)).map (·.name)).zip
        ((s.params.filter (·.isfixed)).map (·.value))) = some p.value := by
      rw [C04.lastLookup_zip_nodup _ _ k p.name hndfx (by rw [List.getElem?_map, hk]; rfl),
        List.getElem?_map, hk]
      rfl
    rw [h1]
    simp

/-- **per-source table and global dictionary hand out the same value**: the value in the table cell of
model `midx` under the alias `f` of the global parameter at position `j` is the value the global
dictionary holds under that parameter's global name -/
theorem c04_table_value_is_global_value (s : PMM V) (hw : C04.PMMWF s) (g : List V)
    (hg : g.length = s.gps.floatNames.length) (midx : Nat) (row : List (Option String))
    (hrow : s.mpn[midx]? = some row) (j : Nat) (p : Param V) (f : String)
    (hp : s.gps.params[j]? = some p) (hr : row[j]? = some (some f)) (q : List String) :
    (Spec.cell f s.gps.params row 0 0 g).map (·.1) = lastLookup p.name (s.gps.views q g).paramsDict := by
  rw [c04_cell_at_wf s hw g hg midx row hrow j p f hp hr, c04_params_dict_lookup s.gps hw.gps q g j p hp]
  cases p.isfixed
  · simp only [Bool.false_eq_true, if_false, Option.map_map]
    cases g[C04.rankAt s.gps.params j]? <;> rfl
  · rfl

/-! ### random initial values lie inside the reported bounds -/

section random
variable {K : Type} [CommRing K] [LinearOrder K] [IsStrictOrderedRing K]

/-- **`generate_random_floating_param_initials`**: for uniform draws in `[0, 1]` (one per floating
parameter) it does not raise and the `i`-th value is `lo + u·(hi − lo)` of the `i`-th floating parameter
in declaration order — inside that parameter's bounds, the same bounds `floating_param_bounds` reports -/
theorem c04_random_initials (s : PSet K) (hs : Coherent s) (u : List K) (hu : u.length = s.floatNames.length)
    (h01 : ∀ x ∈ u, 0 ≤ x ∧ x ≤ 1) :
    ∃ rs, s.randomInitials u = .ok rs ∧ rs.length = u.length ∧
      ∀ (i : Nat) (p : Param K) (x : K), (s.params.filter (fun p => !p.isfixed))[i]? = some p → u[i]? = some x →
        ∃ lo hi, p.valmin = some lo ∧ p.valmax = some hi ∧ rs[i]? = some (some (lo + x * (hi - lo))) ∧
          lo ≤ lo + x * (hi - lo) ∧ lo + x * (hi - lo) ≤ hi := by
  have hfm : s.floatMask = s.params.map (fun p => !p.isfixed) := by
    simp [PSet.floatMask, hs.mask]
  have hsel : maskSel s.params s.floatMask = .ok (s.params.filter (fun p => !p.isfixed)) := by
    rw [hfm, maskSel_map]
  have hlen : (s.params.filter (fun p => !p.isfixed)).length = u.length := by
    rw [hu, hs.caches.floatNames, List.length_map]
  unfold PSet.randomInitials
  rw [hsel]
  simp only [hlen, ne_eq, not_true_eq_false, if_false]
  refine ⟨_, rfl, by simp [List.length_zipWith, hlen], ?_⟩
  intro i p x hp hx
  have hpm : p ∈ s.params.filter (fun p => !p.isfixed) := List.mem_of_getElem? hp
  obtain ⟨hpmem, hpf⟩ := List.mem_filter.1 hpm
  have hpf' : p.isfixed = false := by simpa using hpf
  obtain ⟨lo, hi, hlo, hhi, hval, _⟩ := (hs.wf p hpmem).2 hpf'
  obtain ⟨h1, h2⟩ := outside_eq_false.1 hval
  have hlohi : lo ≤ hi := le_trans h1 h2
  obtain ⟨hx0, hx1⟩ := h01 x (List.mem_of_getElem? hx)
  refine ⟨lo, hi, hlo, hhi, ?_, ?_, ?_⟩
  · rw [List.getElem?_zipWith, hp, hx]
    simp [hlo, hhi]
  · nlinarith [mul_nonneg hx0 (sub_nonneg.2 hlohi)]
  · nlinarith [mul_nonneg (sub_nonneg.2 hx1) (sub_nonneg.2 hlohi)]

end random

example : (PSet.run (PSet.empty : PSet Int)
    [.add ⟨"a", 1, some 0, some 4, none⟩ false, .add ⟨"c", 2, some 1, some 3, none⟩ true]).randomInitials [1, 0]
    = .ok [some 3, some 0] := by decide

/-! ## Object identity: sets that share `Parameter` objects (Model/ParamsHeap.lean) -/

open Params.Heap C04H

/-- **frame property**: an edit through set object `k` does not change what another set object `m` shows,
provided the two reference no common `Parameter` object -/
theorem c04_heap_frame (w : World V) (k m : Nat) (r r' : RefSet V) (f : PSet V → PSet V × Except Err Unit)
    (hk : w.sets[k]? = some r) (hm : w.sets[m]? = some r') (hne : k ≠ m)
    (hdis : ∀ i ∈ r.ids, i ∉ r'.ids) :
    (editThrough w k f).1.sets[m]? = some r' ∧
    r'.view (editThrough w k f).1.heap = r'.view w.heap := by
  unfold editThrough
  rw [hk]
  simp only
  refine ⟨by rw [List.getElem?_set_ne hne]; exact hm, ?_⟩
  unfold RefSet.view
  rw [deref_congr _ _ _ (fun j hj => writeBack_get_other _ _ _ j (fun hjr => hdis j hjr hj))]

/-- **`copy()` creates fresh objects**: none of the objects of the copy is referenced by a set that existed
before (whose references are valid), and the copy shows exactly what the original shows -/
theorem c04_copy_fresh (w : World V) (i : Nat) (a : RefSet V) (ha : w.sets[i]? = some a) :
    ∃ c, (copySet w i).1.sets = w.sets ++ [c] ∧ (copySet w i).2 = .ok () ∧
      c.view (copySet w i).1.heap = a.view w.heap ∧
      (∀ r ∈ w.sets, (∀ j ∈ r.ids, j < w.heap.length) → ∀ j ∈ c.ids, j ∉ r.ids) ∧
      (∀ r ∈ w.sets, (∀ j ∈ r.ids, j < w.heap.length) → r.view (copySet w i).1.heap = r.view w.heap) := by
  unfold copySet
  rw [ha]
  simp only
  refine ⟨⟨List.range' w.heap.length (deref w.heap a.ids).length, a.st⟩, ?_, ?_, ?_, ?_, ?_⟩
  · rfl
  · trivial
  · unfold RefSet.view
    simp only [deref_range']
  · intro r _ hv j hj hjr
    simp only [List.mem_range'_1] at hj
    have := hv j hjr
    omega
  · intro r _ hv
    unfold RefSet.view
    rw [deref_append_left _ _ _ hv]

/-- **a copy is independent of its original** (and of every other older set): whatever is edited through the
copy, the older sets show what they showed -/
theorem c04_copy_independent (w : World V) (i m : Nat) (a r : RefSet V) (ha : w.sets[i]? = some a)
    (hm : w.sets[m]? = some r) (hv : ∀ j ∈ r.ids, j < w.heap.length)
    (f : PSet V → PSet V × Except Err Unit) :
    r.view (editThrough (copySet w i).1 w.sets.length f).1.heap = r.view w.heap := by
  obtain ⟨c, hs, _, _, hfresh, hsame⟩ := c04_copy_fresh w i a ha
  have hrm : r ∈ w.sets := List.mem_of_getElem? hm
  have hlt : m < w.sets.length := (List.getElem?_eq_some_iff.1 hm).1
  have hk : (copySet w i).1.sets[w.sets.length]? = some c := by rw [hs]; simp
  have hm' : (copySet w i).1.sets[m]? = some r := by
    rw [hs, List.getElem?_append_left hlt]; exact hm
  have := (c04_heap_frame (copySet w i).1 w.sets.length m c r f hk hm' (by omega)
    (fun j hj => hfresh r hrm hv j hj)).2
  rw [this, hsame r hrm hv]

/-- the full claim for worlds in which sets may share objects: every set object of every reachable world
is coherent -/
def c04_shared_objects_statement : Prop :=
  ∀ (ops : List (WOp Int)) (k : Nat) (r : RefSet Int),
    (World.run World.empty ops).sets[k]? = some r → Coherent (r.view (World.run World.empty ops).heap)

/-- … is false for the code as it is (open finding `C04/shared-parameter-objects/stale-caches`, replayed on
the implementation by the oracle `sharing` and by the world histories): `u = union(s, s)` shares the
objects of `s`; fixing `a` through `u` leaves the mask of `s` saying "floating" -/
theorem c04_shared_objects_counterexample : ¬ c04_shared_objects_statement := by
  intro h
  have := (h [.add 0 ⟨"a", 1, some 0, some 2, none⟩ false, .union 0 0, .fix 1 [("a", .cur)]] 0 _ rfl).mask
  revert this
  decide

/-! ### … and what does hold: without `union` / `ParameterSet(params=…)` nothing is shared -/

/-- world invariant: references valid and distinct, every set coherent, no object in two sets -/
structure C04H.WInv (w : World V) : Prop where
  valid : ∀ (k : Nat) (r : RefSet V), w.sets[k]? = some r → ∀ i ∈ r.ids, i < w.heap.length
  nodup : ∀ (k : Nat) (r : RefSet V), w.sets[k]? = some r → r.ids.Nodup
  coh : ∀ (k : Nat) (r : RefSet V), w.sets[k]? = some r → Coherent (r.view w.heap)
  disj : ∀ (k m : Nat) (r r' : RefSet V), k ≠ m → w.sets[k]? = some r → w.sets[m]? = some r' →
    ∀ i ∈ r.ids, i ∉ r'.ids

/-- ops that create no second reference to an object -/
def C04H.noShare : WOp V → Bool
  | .union _ _ => false
  | .ctor _ => false
  | _ => true

theorem C04H.winv_empty : C04H.WInv (World.empty : World V) := by
  refine ⟨?_, ?_, ?_, ?_⟩
  · intro k r h i hi
    cases k with
    | zero => simp [World.empty] at h; subst h; simp at hi
    | succ k => simp [World.empty] at h
  · intro k r h
    cases k with
    | zero => simp [World.empty] at h; subst h; simp
    | succ k => simp [World.empty] at h
  · intro k r h
    cases k with
    | zero =>
      simp [World.empty] at h; subst h
      exact coherent_empty
    | succ k => simp [World.empty] at h
  · intro k m r r' hne hk hm
    cases k with
    | zero =>
      cases m with
      | zero => exact absurd rfl hne
      | succ m => simp [World.empty] at hm
    | succ k => simp [World.empty] at hk

theorem C04H.winv_edit (w : World V) (hw : C04H.WInv w) (k : Nat) (f : PSet V → PSet V × Except Err Unit)
    (hf : ∀ s, Coherent s → Coherent (f s).1 ∧ (f s).1.params.length = s.params.length) :
    C04H.WInv (editThrough w k f).1 := by
  unfold editThrough
  cases hk : w.sets[k]? with
  | none => exact hw
  | some r =>
    simp only
    have hklt : k < w.sets.length := (List.getElem?_eq_some_iff.1 hk).1
    have hcoh := hw.coh k r hk
    obtain ⟨hfc, hfl⟩ := hf _ hcoh
    have hlen : (f (r.view w.heap)).1.params.length = r.ids.length := by
      rw [hfl]
      exact deref_length _ _ (hw.valid k r hk)
    have hself : deref (writeBack w.heap r.ids (f (r.view w.heap)).1.params) r.ids = (f (r.view w.heap)).1.params :=
      deref_writeBack_self _ _ _ (hw.nodup k r hk) (hw.valid k r hk) hlen
    -- what register m of the new world is
    have hget : ∀ (m : Nat) (r'' : RefSet V), (w.sets.set k { r with st := (f (r.view w.heap)).1 })[m]? = some r'' →
        (m = k ∧ r'' = { r with st := (f (r.view w.heap)).1 }) ∨ (m ≠ k ∧ w.sets[m]? = some r'') := by
      intro m r'' h
      rw [List.getElem?_set] at h
      by_cases hmk : k = m
      · rw [if_pos hmk, if_pos hklt] at h
        exact Or.inl ⟨hmk.symm, (Option.some.inj h).symm⟩
      · rw [if_neg hmk] at h
        exact Or.inr ⟨fun h' => hmk h'.symm, h⟩
    have hids : ∀ (m : Nat) (r'' : RefSet V), (w.sets.set k { r with st := (f (r.view w.heap)).1 })[m]? = some r'' →
        ∃ r0 : RefSet V, w.sets[m]? = some r0 ∧ r0.ids = r''.ids := by
      intro m r'' h
      rcases hget m r'' h with ⟨h1, h2⟩ | ⟨_, h2⟩
      · subst h1; subst h2; exact ⟨r, hk, rfl⟩
      · exact ⟨r'', h2, rfl⟩
    refine ⟨?_, ?_, ?_, ?_⟩
    · intro m r'' h i hi
      obtain ⟨r0, h0, hid⟩ := hids m r'' h
      rw [writeBack_length]
      exact hw.valid m r0 h0 i (by rw [hid]; exact hi)
    · intro m r'' h
      obtain ⟨r0, h0, hid⟩ := hids m r'' h
      rw [← hid]; exact hw.nodup m r0 h0
    · intro m r'' h
      rcases hget m r'' h with ⟨h1, h2⟩ | ⟨hne, h2⟩
      · subst h2
        have : ({ r with st := (f (r.view w.heap)).1 } : RefSet V).view
            (writeBack w.heap r.ids (f (r.view w.heap)).1.params) = (f (r.view w.heap)).1 := by
          have hv : ∀ (st : PSet V) (hp : List (Param V)),
              (⟨r.ids, st⟩ : RefSet V).view hp = { st with params := deref hp r.ids } := fun _ _ => rfl
          rw [hv, hself]
        rw [this]; exact hfc
      · have hfr := (c04_heap_frame w k m r r'' f hk h2 (fun h' => hne h'.symm)
          (hw.disj k m r r'' (fun h' => hne h'.symm) hk h2)).2
        unfold editThrough at hfr
        rw [hk] at hfr
        simp only at hfr
        rw [hfr]
        exact hw.coh m r'' h2
    · intro m1 m2 r1 r2 hne h1 h2
      obtain ⟨a1, ha1, hid1⟩ := hids m1 r1 h1
      obtain ⟨a2, ha2, hid2⟩ := hids m2 r2 h2
      rw [← hid1, ← hid2]
      exact hw.disj m1 m2 a1 a2 hne ha1 ha2

theorem C04H.winv_copy (w : World V) (hw : C04H.WInv w) (i : Nat) : C04H.WInv (copySet w i).1 := by
  cases ha : w.sets[i]? with
  | none => unfold copySet; rw [ha]; exact hw
  | some a =>
    obtain ⟨c, hs, _, hview, hfresh, hsame⟩ := c04_copy_fresh w i a ha
    have hheap : (copySet w i).1.heap = w.heap ++ deref w.heap a.ids := by
      unfold copySet; rw [ha]
    have hcids : c.ids = List.range' w.heap.length (deref w.heap a.ids).length := by
      have := hs
      unfold copySet at this
      rw [ha] at this
      simp only at this
      have := List.append_cancel_left this
      simp only [List.cons.injEq, and_true] at this
      rw [← this]
    have hget : ∀ (m : Nat) (r : RefSet V), (copySet w i).1.sets[m]? = some r →
        (m < w.sets.length ∧ w.sets[m]? = some r) ∨ (m = w.sets.length ∧ r = c) := by
      intro m r h
      rw [hs, List.getElem?_append] at h
      by_cases hm : m < w.sets.length
      · rw [if_pos hm] at h; exact Or.inl ⟨hm, h⟩
      · rw [if_neg hm] at h
        have hm0 : m - w.sets.length = 0 := by
          by_contra hne
          have : 1 ≤ m - w.sets.length := by omega
          rw [List.getElem?_eq_none (by simpa using this)] at h
          cases h
        rw [hm0] at h
        simp only [List.getElem?_cons_zero, Option.some.injEq] at h
        exact Or.inr ⟨by omega, h.symm⟩
    have hold : ∀ (m : Nat) (r : RefSet V), w.sets[m]? = some r → r ∈ w.sets := fun m r h => List.mem_of_getElem? h
    refine ⟨?_, ?_, ?_, ?_⟩
    · intro m r h j hj
      rw [hheap, List.length_append]
      rcases hget m r h with ⟨_, h1⟩ | ⟨_, h1⟩
      · have := hw.valid m r h1 j hj; omega
      · subst h1
        rw [hcids, List.mem_range'_1] at hj
        omega
    · intro m r h
      rcases hget m r h with ⟨_, h1⟩ | ⟨_, h1⟩
      · exact hw.nodup m r h1
      · subst h1; rw [hcids]; exact List.nodup_range' 1
    · intro m r h
      rcases hget m r h with ⟨_, h1⟩ | ⟨_, h1⟩
      · rw [hsame r (hold m r h1) (hw.valid m r h1)]; exact hw.coh m r h1
      · subst h1; rw [hview]; exact hw.coh i a ha
    · intro m1 m2 r1 r2 hne h1 h2
      rcases hget m1 r1 h1 with ⟨_, g1⟩ | ⟨e1, g1⟩ <;> rcases hget m2 r2 h2 with ⟨_, g2⟩ | ⟨e2, g2⟩
      · exact hw.disj m1 m2 r1 r2 hne g1 g2
      · subst g2
        intro j hj hjc
        exact hfresh r1 (hold m1 r1 g1) (hw.valid m1 r1 g1) j hjc hj
      · subst g1
        intro j hj
        exact hfresh r2 (hold m2 r2 g2) (hw.valid m2 r2 g2) j hj
      · exact absurd (e1.trans e2.symm) hne

theorem C04H.winv_add (w : World V) (hw : C04H.WInv w) (k : Nat) (p : Param V) (hp : ParamWF p) (front : Bool) :
    C04H.WInv (addThrough w k p front).1 := by
  unfold addThrough
  cases hk : w.sets[k]? with
  | none => exact hw
  | some r =>
    simp only
    cases ha : (r.view w.heap).addParam p front with
    | error e => exact hw
    | ok st' =>
      simp only
      have hklt : k < w.sets.length := (List.getElem?_eq_some_iff.1 hk).1
      have hvalid := hw.valid k r hk
      obtain ⟨hst, hpar⟩ := addParam_coherent (hw.coh k r hk) hp ha
      have hvp : (r.view w.heap).params = deref w.heap r.ids := rfl
      have hnew : (w.heap ++ [p])[w.heap.length]? = some p := by simp
      have hdold : deref (w.heap ++ [p]) r.ids = deref w.heap r.ids := deref_append_left _ _ _ hvalid
      have hidfresh : w.heap.length ∉ r.ids := fun h => Nat.lt_irrefl _ (hvalid _ h)
      have hderef : deref (w.heap ++ [p]) (if front then w.heap.length :: r.ids else r.ids ++ [w.heap.length]) =
          st'.params := by
        rw [hpar, hvp]
        cases front
        · simp only [Bool.false_eq_true, if_false]
          unfold deref at hdold ⊢
          rw [List.filterMap_append, hdold]
          simp [hnew]
        · simp only [if_true]
          unfold deref at hdold ⊢
          simp only [List.filterMap_cons, hnew, hdold]
      have hget : ∀ (m : Nat) (r'' : RefSet V),
          (w.sets.set k ⟨if front then w.heap.length :: r.ids else r.ids ++ [w.heap.length], st'⟩)[m]? = some r'' →
          (m = k ∧ r'' = ⟨if front then w.heap.length :: r.ids else r.ids ++ [w.heap.length], st'⟩) ∨
          (m ≠ k ∧ w.sets[m]? = some r'') := by
        intro m r'' h
        rw [List.getElem?_set] at h
        by_cases hmk : k = m
        · rw [if_pos hmk, if_pos hklt] at h
          exact Or.inl ⟨hmk.symm, (Option.some.inj h).symm⟩
        · rw [if_neg hmk] at h
          exact Or.inr ⟨fun h' => hmk h'.symm, h⟩
      have hmemnew : ∀ i, i ∈ (if front then w.heap.length :: r.ids else r.ids ++ [w.heap.length]) ↔
          i = w.heap.length ∨ i ∈ r.ids := by
        intro i
        cases front <;> simp [or_comm]
      refine ⟨?_, ?_, ?_, ?_⟩
      · intro m r'' h i hi
        rw [List.length_append, List.length_singleton]
        rcases hget m r'' h with ⟨_, h2⟩ | ⟨_, h2⟩
        · subst h2
          rcases (hmemnew i).1 hi with h3 | h3
          · omega
          · have := hvalid i h3; omega
        · have := hw.valid m r'' h2 i hi; omega
      · intro m r'' h
        rcases hget m r'' h with ⟨_, h2⟩ | ⟨_, h2⟩
        · subst h2
          have hnd := hw.nodup k r hk
          cases front
          · simp only [Bool.false_eq_true, if_false]
            rw [List.nodup_append]
            exact ⟨hnd, by simp, fun a ha b hb => by
              simp only [List.mem_singleton] at hb; subst hb; exact fun h' => hidfresh (h' ▸ ha)⟩
          · simp only [if_true, List.nodup_cons]
            exact ⟨hidfresh, hnd⟩
        · exact hw.nodup m r'' h2
      · intro m r'' h
        rcases hget m r'' h with ⟨_, h2⟩ | ⟨_, h2⟩
        · subst h2
          have : (⟨if front then w.heap.length :: r.ids else r.ids ++ [w.heap.length], st'⟩ : RefSet V).view
              (w.heap ++ [p]) = st' := by
            unfold RefSet.view
            simp only [hderef]
          rw [this]; exact hst
        · have : r''.view (w.heap ++ [p]) = r''.view w.heap := by
            unfold RefSet.view
            rw [deref_append_left _ _ _ (hw.valid m r'' h2)]
          rw [this]; exact hw.coh m r'' h2
      · intro m1 m2 r1 r2 hne h1 h2 i hi1 hi2
        rcases hget m1 r1 h1 with ⟨e1, g1⟩ | ⟨n1, g1⟩ <;> rcases hget m2 r2 h2 with ⟨e2, g2⟩ | ⟨n2, g2⟩
        · exact hne (e1.trans e2.symm)
        · subst g1
          rcases (hmemnew i).1 hi1 with h3 | h3
          · have := hw.valid m2 r2 g2 i hi2; omega
          · exact hw.disj k m2 r r2 (fun h' => n2 h'.symm) hk g2 i h3 hi2
        · subst g2
          rcases (hmemnew i).1 hi2 with h3 | h3
          · have := hw.valid m1 r1 g1 i hi1; omega
          · exact hw.disj m1 k r1 r n1 g1 hk i hi1 h3
        · exact hw.disj m1 m2 r1 r2 hne g1 g2 i hi1 hi2

/-- every op that creates no second reference keeps the world invariant -/
theorem c04_heap_inv_step (w : World V) (hw : C04H.WInv w) (op : WOp V) (hns : C04H.noShare op = true) :
    C04H.WInv (w.step op).1 := by
  cases op with
  | add k a front =>
    simp only [World.step]
    cases hc : a.create with
    | error e => exact hw
    | ok p => exact C04H.winv_add w hw k p (c04_create_wf a p hc).1 front
  | fix k req =>
    exact C04H.winv_edit w hw k _ (fun s hs => ⟨c04_inv_step s (.fix req) hs,
      C04.editAll_length (PSet.fixF req) (fun p p' h => (fixF_name req p p' h).1)
        (fun p p' h => (fixF_name req p p' h).2) hs⟩)
  | float k req =>
    exact C04H.winv_edit w hw k _ (fun s hs => ⟨c04_inv_step s (.float req) hs,
      C04.editAll_length (PSet.floatF req) (fun p p' h => (floatF_name req p p' h).1)
        (fun p p' h => (floatF_name req p p' h).2) hs⟩)
  | setv k n v =>
    refine C04H.winv_edit w hw k _ (fun s hs => ⟨c04_inv_step s (.setv n v) hs, ?_⟩)
    unfold PSet.setValue
    cases h : PSet.setValueAux n v s.params with
    | error e => rfl
    | ok ps' =>
      have := congrArg List.length (setValueAux_ok hs.wf h).1
      simpa using this
  | union i j => simp [C04H.noShare] at hns
  | ctor i => simp [C04H.noShare] at hns
  | copy i => exact C04H.winv_copy w hw i

/-- **partial result for the open finding**: in every world reached without `union` and without
`ParameterSet(params=<objects of another set>)` — i.e. with `add_param`, fix, float, value setter and
`copy()` on any number of set objects — every set object is coherent (all its views agree) -/
theorem c04_shared_objects_partial (ops : List (WOp V)) (hns : ∀ op ∈ ops, C04H.noShare op = true)
    (k : Nat) (r : RefSet V) (hk : (World.run (World.empty : World V) ops).sets[k]? = some r) :
    Coherent (r.view (World.run (World.empty : World V) ops).heap) := by
  have key : ∀ (os : List (WOp V)), (∀ op ∈ os, C04H.noShare op = true) →
      ∀ w : World V, C04H.WInv w → C04H.WInv (World.run w os) := by
    intro os
    induction os with
    | nil => intro _ w hw; exact hw
    | cons op os ih =>
      intro h w hw
      exact ih (fun o ho => h o (by simp [ho])) _ (c04_heap_inv_step w hw op (h op (by simp)))
  exact (key ops hns _ C04H.winv_empty).coh k r hk

example : (World.run (World.empty : World Int)
    [.add 0 ⟨"a", 1, some 0, some 2, none⟩ false, .copy 0, .fix 1 [("a", .cur)]]).sets.map
      (fun r => (r.ids, r.st.fixedMask)) = [([0], [false]), ([1], [true])] := by decide


/-! ## Round 7: `Parameter.__eq__`, the `TypeError` branch of `get_src_model_idxs`, the mapper's delegating
views, defaults of the public signatures (Model/ParamsR7.lean) -/

namespace C04

theorem neV_eq_true {a b : V} : neV a b = true ↔ a ≠ b := by
  rw [← Bool.not_eq_false, neV_eq_false]

theorem neOptV_eq_false {a b : Option V} : neOptV a b = false ↔ a = b := by
  cases a <;> cases b <;> simp [neOptV, neV_eq_false]

theorem neOptV_eq_true {a b : Option V} : neOptV a b = true ↔ a ≠ b := by
  rw [← Bool.not_eq_false, neOptV_eq_false]

end C04

/-- **`Parameter.__eq__` in closed form**: `p == q` iff name, value and kind agree and — for a *floating*
`p` — also initial value and both bounds. (The bounds a fixed parameter may carry are not compared.) -/
theorem c04_param_eq_iff (p q : Param V) :
    p.eq q = true ↔ p.name = q.name ∧ p.value = q.value ∧ p.isfixed = q.isfixed ∧
      (p.isfixed = false → p.initial = q.initial ∧ p.valmin = q.valmin ∧ p.valmax = q.valmax) := by
  unfold Param.eq
  by_cases h1 : p.name = q.name
  · by_cases h2 : p.value = q.value
    · by_cases h3 : p.isfixed = q.isfixed
      · have e1 : (p.name != q.name) = false := by simp [h1]
        have e2 : neV p.value q.value = false := neV_eq_false.2 h2
        have e3 : (p.isfixed != q.isfixed) = false := by simp [h3]
        simp only [e1, e2, e3, Bool.or_false, Bool.false_eq_true, if_false]
        cases hf : p.isfixed with
        | true => simp [h1, h2, ← h3, hf]
        | false =>
          simp only [Bool.not_false, if_true]
          by_cases h4 : p.initial = q.initial
          · by_cases h5 : p.valmin = q.valmin
            · by_cases h6 : p.valmax = q.valmax
              · simp [h1, h2, ← h3, hf, h4, neV_eq_false, C04.neOptV_eq_false, h5, h6]
              · simp [h6, C04.neOptV_eq_true.2 h6]
            · simp [h5, C04.neOptV_eq_true.2 h5]
          · simp [h4, C04.neV_eq_true.2 h4]
      · have e3 : (p.isfixed != q.isfixed) = true := by simp [h3]
        simp [e3, h3]
    · simp [C04.neV_eq_true.2 h2, h2]
  · have e1 : (p.name != q.name) = true := by simp [h1]
    simp [e1, h1]

/-- `==` on `Parameter` objects is reflexive, symmetric and transitive (for non-NaN values) -/
theorem c04_param_eq_equiv :
    (∀ p : Param V, p.eq p = true) ∧ (∀ p q : Param V, p.eq q = q.eq p) ∧
    (∀ p q r : Param V, p.eq q = true → q.eq r = true → p.eq r = true) := by
  refine ⟨fun p => (c04_param_eq_iff p p).2 ⟨rfl, rfl, rfl, fun _ => ⟨rfl, rfl, rfl⟩⟩, ?_, ?_⟩
  · intro p q
    rw [Bool.eq_iff_iff, c04_param_eq_iff, c04_param_eq_iff]
    constructor
    · rintro ⟨a, b, c, d⟩
      exact ⟨a.symm, b.symm, c.symm, fun h => by
        obtain ⟨x, y, z⟩ := d (c.trans h); exact ⟨x.symm, y.symm, z.symm⟩⟩
    · rintro ⟨a, b, c, d⟩
      exact ⟨a.symm, b.symm, c.symm, fun h => by
        obtain ⟨x, y, z⟩ := d (c.trans h); exact ⟨x.symm, y.symm, z.symm⟩⟩
  · intro p q r hpq hqr
    obtain ⟨a, b, c, d⟩ := (c04_param_eq_iff p q).1 hpq
    obtain ⟨a', b', c', d'⟩ := (c04_param_eq_iff q r).1 hqr
    refine (c04_param_eq_iff p r).2 ⟨a.trans a', b.trans b', c.trans c', fun h => ?_⟩
    obtain ⟨x, y, z⟩ := d h
    obtain ⟨x', y', z'⟩ := d' (c.symm.trans h)
    exact ⟨x.trans x', y.trans y', z.trans z'⟩

/-- **equal parameters are interchangeable for the value setter**: two well-formed `Parameter` objects that
compare equal accept exactly the same values (fixed: the common value; floating: the common bounds) -/
theorem c04_param_eq_same_setter (p q : Param V) (hp : ParamWF p) (hq : ParamWF q) (h : p.eq q = true) (x : V) :
    p.accepts x = q.accepts x := by
  obtain ⟨_, hv, hfx, hfl⟩ := (c04_param_eq_iff p q).1 h
  rw [c04_setter_accepts_iff p hp, c04_setter_accepts_iff q hq]
  unfold Spec.accepts
  cases hf : p.isfixed with
  | true => rw [← hfx, hf]; simp [hv]
  | false =>
    obtain ⟨_, h5, h6⟩ := hfl hf
    rw [← hfx, hf, h5, h6]
    simp

/-- for well-formed *floating* parameters `==` is equality of all six attributes -/
theorem c04_param_eq_floating_struct (p q : Param V) (hf : p.isfixed = false) : p.eq q = true ↔ p = q := by
  rw [c04_param_eq_iff]
  constructor
  · rintro ⟨a, b, c, d⟩
    obtain ⟨x, y, z⟩ := d hf
    cases p; cases q; simp_all
  · rintro rfl; exact ⟨rfl, rfl, rfl, fun _ => ⟨rfl, rfl, rfl⟩⟩

/-- … while two *fixed* parameters compare equal although they differ (bounds are ignored): the docstring's
"equal if their property values are equal" holds in one direction only -/
theorem c04_param_eq_fixed_ignores_bounds :
    ∃ p q : Param Int, ParamWF p ∧ ParamWF q ∧ p.eq q = true ∧ p ≠ q :=
  ⟨⟨"a", 1, true, some 0, some 2, 1⟩, ⟨"a", 1, true, none, none, 1⟩,
   ⟨fun _ => rfl, fun h => by cases h⟩, ⟨fun _ => rfl, fun h => by cases h⟩, by decide, by decide⟩

/-- in a coherent set (hence after any history, `c04_refine`) no two entries compare equal:
`p_i == p_j` ⇒ `i = j` (names are distinct) -/
theorem c04_param_eq_in_set {s : PSet V} (hs : Coherent s) (i j : Nat) (p q : Param V)
    (hi : s.params[i]? = some p) (hj : s.params[j]? = some q) (h : p.eq q = true) : i = j := by
  have hn := ((c04_param_eq_iff p q).1 h).1
  have hnd := hs.nodup
  have h1 : (s.params.map (·.name))[i]? = some p.name := by simp [hi]
  have h2 : (s.params.map (·.name))[j]? = some p.name := by simp [hj, hn]
  obtain ⟨hi', e1⟩ := List.getElem?_eq_some_iff.1 h1
  obtain ⟨hj', e2⟩ := List.getElem?_eq_some_iff.1 h2
  exact (List.Nodup.getElem_inj_iff hnd).1 (e1.trans e2.symm)

example : (⟨"a", 1, false, some 0, some 2, 1⟩ : Param Int).eq ⟨"a", 1, false, some 0, some 3, 1⟩ = false := by decide
example : (⟨"a", 1, false, some 0, some 2, 2⟩ : Param Int).eq ⟨"a", 2, false, some 0, some 2, 2⟩ = false := by decide
example : (⟨"a", 1, false, some 0, some 2, 1⟩ : Param Int).eq ⟨"a", 1, false, some 0, some 2, 1⟩ = true := by decide

/-- **`get_src_model_idxs(sources=…)` with its argument check**: the call is accepted iff every model of the
mapper named in `sources` is a source model; then the result is the one of `c04_src_model_idxs`
(membership ⇔ source ∧ selected) — a non-source model is never silently dropped or returned -/
theorem c04_src_model_idxs_checked (s : PMM V) (sel : Option (List Nat)) :
    (s.srcModelIdxsChecked sel = .ok (s.srcModelIdxs sel) ↔
      ∀ l, sel = some l → ∀ i ∈ l, i < s.nModels → s.isSourceAt i = true) ∧
    (s.srcModelIdxsChecked sel = .error .typeError ↔
      ∃ l, sel = some l ∧ ∃ i ∈ l, i < s.nModels ∧ s.isSourceAt i = false) := by
  have key : s.sourcesTypeOk sel = true ↔
      ∀ l, sel = some l → ∀ i ∈ l, i < s.nModels → s.isSourceAt i = true := by
    cases sel with
    | none => simp [PMM.sourcesTypeOk]
    | some l =>
      simp only [PMM.sourcesTypeOk, List.all_eq_true, Bool.or_eq_true, decide_eq_true_eq, Option.some.injEq]
      constructor
      · intro h l' hl i hi hlt
        subst hl
        rcases h i hi with h1 | h1
        · omega
        · exact h1
      · intro h i hi
        by_cases hlt : i < s.nModels
        · exact Or.inr (h l rfl i hi hlt)
        · exact Or.inl (by omega)
  unfold PMM.srcModelIdxsChecked
  cases hb : s.sourcesTypeOk sel with
  | true =>
    have hk := key.1 hb
    simp only [if_true, true_iff, reduceCtorEq, false_iff, not_exists, not_and]
    refine ⟨hk, ?_⟩
    intro l hl i hi hlt
    simp [hk l hl i hi hlt]
  | false =>
    have hk : ¬ ∀ l, sel = some l → ∀ i ∈ l, i < s.nModels → s.isSourceAt i = true := fun h => by
      have := key.2 h; rw [hb] at this; cases this
    simp only [Bool.false_eq_true, if_false, reduceCtorEq, false_iff, true_iff]
    refine ⟨hk, ?_⟩
    push Not at hk
    obtain ⟨l, hl, i, hi, hlt, hne⟩ := hk
    exact ⟨l, hl, i, hi, hlt, by simpa using hne⟩

/-- the record array with the argument check: accepted selection ⇒ the table of `c04_src_recarray`
(`Spec.cell` rows, one per selected source); a non-source model in `sources` ⇒ `TypeError`, after the
length check of the value vector -/
theorem c04_src_recarray_checked (s : PMM V) (g : List V) (sel : Option (List Nat)) :
    (s.sourcesTypeOk sel = true → s.srcParamsRecarrayChecked g sel = s.srcParamsRecarray g sel) ∧
    (s.sourcesTypeOk sel = false → g.length = s.gps.floatNames.length →
      s.srcParamsRecarrayChecked g sel = .error .typeError) ∧
    (g.length ≠ s.gps.floatNames.length → s.srcParamsRecarrayChecked g sel = .error .valueError) := by
  unfold PMM.srcParamsRecarrayChecked PMM.srcParamsRecarray PMM.srcModelIdxsChecked
  refine ⟨fun h => ?_, fun h hg => ?_, fun hg => ?_⟩
  · rw [if_pos h]
    by_cases hg : g.length ≠ s.gps.floatNames.length
    · rw [if_pos hg, if_pos hg]
    · rw [if_neg hg, if_neg hg]
      cases s.srcRows g s.srcFieldNames (s.srcModelIdxs sel) <;> rfl
  · rw [if_neg (by simpa using hg), if_neg (by simp [h])]
  · rw [if_pos hg]

example : (PMM.create [("d", false), ("s", true)] : PMM Int).srcModelIdxsChecked (some [1, 0]) = .error .typeError := by decide
example : (PMM.create [("d", false), ("s", true)] : PMM Int).srcModelIdxsChecked (some [1, 5]) = .ok [1] := by decide

/-- **the mapper's counters and `get_gflp_idx` describe the same state as the table**: in a well-formed mapper
(`c04_pmm_refine`) the four counters are the lengths of the model list, the parameter list and its fixed /
floating parts; `get_gflp_idx(name)` is the position of `name` among the floating parameters in declaration
order (`KeyError` iff there is no such floating parameter) — the `k` of the `+(k+1)` entry of `c04_src_table`;
`create_global_floating_params_dict` pairs the floating names with the supplied vector -/
theorem c04_mapper_counts_gflp (s : PMM V) (hw : C04.PMMWF s) (g : List V) :
    s.counts = (s.models.length, s.gps.params.length, (Spec.fixedOf s.gps.params).length,
      (Spec.floatOf s.gps.params).length) ∧
    (∀ n, s.gflpIdx n = match idxOf? n ((Spec.floatOf s.gps.params).map (·.name)) with
      | some k => .ok k
      | none => .error .keyError) ∧
    s.globalFloatingParamsDict g = ((Spec.floatOf s.gps.params).map (·.name)).zip g := by
  have hc := hw.gps.caches
  refine ⟨?_, fun n => ?_, ?_⟩
  · unfold PMM.counts Spec.fixedOf Spec.floatOf
    rw [hc.fixedNames, hc.floatNames, List.length_map, List.length_map]
  · unfold PMM.gflpIdx Spec.floatOf
    rw [hc.floatIdx n, hc.floatNames]
    generalize idxOf? n _ = o
    cases o <;> rfl
  · unfold PMM.globalFloatingParamsDict Spec.floatOf
    rw [hc.floatNames]

/-! ### signed indices -/

/-- **signed indices**: `a[i]` on an axis of length `n` is defined exactly for `-n ≤ i < n`; it denotes position
`i` for `i ≥ 0` and position `i + n` for `i < 0` -/
theorem c04_signed_index (n : Nat) (i : Int) :
    (PMM.normIdx n i = none ↔ i < -(n : Int) ∨ (n : Int) ≤ i) ∧
    (∀ k, PMM.normIdx n i = some k ↔ k < n ∧ ((k : Int) = i ∨ (k : Int) = i + n)) := by
  unfold PMM.normIdx
  refine ⟨?_, fun k => ?_⟩
  · split_ifs <;> simp <;> omega
  · split_ifs <;> simp <;> omega

omit [LinearOrder V] in
/-- `create_model_params_dict(model=<int>)` has an explicit range check: every index outside `[0, n_models)` —
negative ones included — is an `IndexError`; inside the range it is the table row of `c04_model_dict` -/
theorem c04_model_dict_int (s : PMM V) (g : List V) (i : Int) :
    (i < 0 ∨ (s.models.length : Int) ≤ i → s.modelParamsDictInt g i = .error .indexError) ∧
    (∀ k : Nat, k < s.models.length → s.modelParamsDictInt g (k : Int) = s.modelParamsDict g k) := by
  unfold PMM.modelParamsDictInt
  refine ⟨fun h => by rw [if_pos h], fun k hk => ?_⟩
  rw [if_neg (by omega)]
  simp

omit [LinearOrder V] in
/-- **the signed `int32` index array of `create_src_params_recarray`**: when every entry lies in `[-n, n)` the
rows are those of the wrapped (non-negative) model indices (`c04_src_recarray_idx_eq`), in the given order, and
the `:model_idx` column shows the entries as given (a negative entry stays negative) -/
theorem c04_src_recarray_idx_signed (s : PMM V) (g : List V) (fields : List String) (idxs : List Int) (ks : List Nat)
    (h : List.Forall₂ (fun i k => PMM.normIdx s.mpn.length i = some k) idxs ks) :
    s.srcRowsIdxInt g fields idxs =
      PSet.exMap (fun rows => (idxs.zip rows).map (fun ir => (ir.1, ir.2.2))) (s.srcRowsIdx g fields ks) := by
  induction h with
  | nil => rfl
  | @cons i k is ks' hik _ ih =>
    unfold PMM.srcRowsIdxInt PMM.srcRowsIdx
    rw [hik]
    dsimp only
    cases hrow : s.mpn[k]? with
    | none => rfl
    | some row =>
      dsimp only
      by_cases hall : ((row.filterMap id).all fun a => fields.contains a) = true
      · rw [if_pos hall, if_pos hall, ih]
        cases s.srcRow g fields k <;> cases s.srcRowsIdx g fields ks' <;> rfl
      · rw [if_neg hall, if_neg hall]; rfl

omit [LinearOrder V] in
/-- an entry outside `[-n_models, n_models)` makes the call fail -/
theorem c04_src_recarray_idx_signed_rejects (s : PMM V) (g : List V) (fields : List String) (idxs : List Int)
    (h : ∃ i ∈ idxs, i < -(s.mpn.length : Int) ∨ (s.mpn.length : Int) ≤ i) :
    ∃ e, s.srcRowsIdxInt g fields idxs = .error e := by
  induction idxs with
  | nil => obtain ⟨i, hi, _⟩ := h; cases hi
  | cons j js ih =>
    unfold PMM.srcRowsIdxInt
    cases hn : PMM.normIdx s.mpn.length j with
    | none => exact ⟨_, rfl⟩
    | some k =>
      have hrest : ∃ i ∈ js, i < -(s.mpn.length : Int) ∨ (s.mpn.length : Int) ≤ i := by
        obtain ⟨i, hi, hout⟩ := h
        rcases List.mem_cons.1 hi with rfl | hi'
        · have := (c04_signed_index s.mpn.length i).1.2 hout
          rw [hn] at this; cases this
        · exact ⟨i, hi', hout⟩
      obtain ⟨e, he⟩ := ih hrest
      simp only
      cases s.mpn[k]? with
      | none => exact ⟨_, rfl⟩
      | some row =>
        simp only
        split_ifs
        · rw [he]
          cases s.srcRow g fields k with
          | error e' => exact ⟨_, rfl⟩
          | ok r => exact ⟨_, rfl⟩
        · exact ⟨_, rfl⟩

omit [LinearOrder V] in
/-- `get_model_param_name(i, j)` is plain numpy indexing: defined iff both indices are in their signed ranges;
the result is the alias-matrix entry at the wrapped position -/
theorem c04_get_model_param_name (s : PMM V) (hw : ∀ row ∈ s.mpn, row.length = s.gps.params.length) (mi gi : Int) :
    (∀ a, s.getModelParamName mi gi = .ok a ↔
      ∃ i j row, PMM.normIdx s.mpn.length mi = some i ∧ PMM.normIdx s.gps.params.length gi = some j ∧
        s.mpn[i]? = some row ∧ a = row[j]?.join) := by
  intro a
  unfold PMM.getModelParamName
  cases hi : PMM.normIdx s.mpn.length mi with
  | none => simp
  | some i =>
    have hlt := ((c04_signed_index _ _).2 i).1 hi |>.1
    have hrow : s.mpn[i]? = some s.mpn[i] := List.getElem?_eq_getElem hlt
    dsimp only
    rw [hrow]
    dsimp only
    have hlen := hw _ (List.getElem_mem hlt)
    rw [hlen]
    cases hj : PMM.normIdx s.gps.params.length gi with
    | none => simp
    | some j =>
      simp only [Except.ok.injEq, Option.some.injEq]
      constructor
      · intro h; exact ⟨i, j, _, rfl, rfl, hrow, h.symm⟩
      · rintro ⟨i', j', row, h1, h2, h3, h4⟩
        subst h1; subst h2
        rw [hrow] at h3
        cases h3
        exact h4.symm

example : PMM.normIdx 3 (-1) = some 2 ∧ PMM.normIdx 3 (-3) = some 0 ∧ PMM.normIdx 3 (-4) = none ∧ PMM.normIdx 3 3 = none := by decide

/-- defaults of the public signatures read from the current source = the ones the protocol and the model
assume (`ParameterSet(params)` / `union` add at the back; a left-out argument is `None`) -/
theorem c04_defaults_for_current_source : Gen.C04.defaults = Defaults.assumed := by decide
