/-
  Property C07 — generating pseudo-data never alters the stored experimental or MC data.

  `Model/PseudoData.lean` expresses every pseudo-data operation as the sequence of container operations the
  code performs on the heap model of `Model/Store.lean`.  The theorems: no such operation targets the stored
  containers (`c07_compile_targets`); therefore, by the refinement theorem of C16 (no location is shared
  between two slots, so a write through one container cannot reach another one), for *every* history the
  stored containers read exactly as before — same fields, same order, same dtypes, same values, same rows
  (`c07_frame`) — and share no location with any generated container (`c07_no_alias_inv`).  The code before
  the `fix:` commit (unblind adopting `data.exp` itself) is kept as `GOp.unblindAdopt` with a proved
  counterexample.  Scrambling = copy + assignment of the documented fields: everything else and the length
  are those of the stored data.  Right ascension range over the reals.
-/
import SkyllhModel.Proofs.Store
import SkyllhModel.Props.C16
import SkyllhModel.Model.PseudoData
import SkyllhModel.Model.PseudoDataR7
import SkyllhModel.Generated.C07
import Mathlib.Analysis.Real.Pi.Bounds
import Mathlib.Analysis.SpecialFunctions.Trigonometric.Basic
import SkyllhModel.Proofs.RealScalar
import Mathlib.Algebra.Order.Round

open Store StoreP Pseudo

namespace C07

set_option hygiene false in
local macro "fin_tgt" : tactic =>
  `(tactic| (simp only [pure_eq, Except.ok.injEq, Prod.mk.injEq, Target.inplace.injEq, reduceCtorEq, false_and, and_false] at h
             <;> simp [target, h.1]))

/-- the container an operation replaces is the one named by its static `target` -/
theorem target_sound {get : Nat → Except Err Table} {n : Nat} {op : Op} {c : Nat} {u : Upd} {out : Out}
    (h : tableOp get n op = .ok (.inplace c, u, out)) : target op = some c := by
  cases op <;> simp only [tableOp, bind_ok] at h
  case append a b => obtain ⟨t, _, s, _, cols, _, h⟩ := h; fin_tgt
  case appendField a m col => obtain ⟨t, _, h⟩ := h; split_ifs at h; fin_tgt
  case setItem a m col => obtain ⟨t, _, h⟩ := h; split_ifs at h <;> fin_tgt
  case removeField a m => obtain ⟨t, _, h⟩ := h; split_ifs at h; fin_tgt
  case rename a cv m => obtain ⟨t, _, cols, _, h⟩ := h; fin_tgt
  case tidyUp a keep => obtain ⟨t, _, h⟩ := h; fin_tgt
  case getSel a sel => obtain ⟨t, _, cols, _, h⟩ := h; fin_tgt
  case setSel a sel d => obtain ⟨t, _, s, _, srcs, _, cols, _, h⟩ := h; fin_tgt
  case sortBy a m perm =>
    obtain ⟨t, _, h⟩ := h
    split at h
    · cases h
    · split_ifs at h
      simp only [bind_ok] at h
      obtain ⟨ks, _, h⟩ := h
      split_ifs at h
      simp only [bind_ok] at h
      obtain ⟨cols, _, h⟩ := h
      fin_tgt
  case copy a keep => obtain ⟨t, _, h⟩ := h; fin_tgt
  case setDtype a m dt => obtain ⟨t, _, h⟩ := h; split_ifs at h; fin_tgt
  case convert a cv exc => obtain ⟨t, _, h⟩ := h; fin_tgt
  case indices a => obtain ⟨t, _, h⟩ := h; fin_tgt
  case new cols => split_ifs at h; fin_tgt

theorem stepT_length_le (ts : List Table) (op : Op) : ts.length ≤ (stepT ts op).1.length := by
  unfold stepT
  split <;> simp

/-- **Frame, container level**: operations none of which targets table `i` leave table `i` as it is. -/
theorem frame_ops : ∀ (ops : List Op) (ts : List Table) (i : Nat), i < ts.length →
    (∀ op ∈ ops, target op ≠ some i) → (runT ts ops)[i]? = ts[i]? := by
  intro ops
  induction ops with
  | nil => intro ts i _ _; rfl
  | cons op ops ih =>
    intro ts i hi hne
    have h1 : (stepT ts op).1[i]? = ts[i]? := by
      unfold stepT
      cases hr : tableOp (getT ts) ts.length op with
      | error e => rfl
      | ok r =>
        obtain ⟨tgt, u, out⟩ := r
        cases tgt with
        | inplace c =>
          have : c ≠ i := by
            intro hci
            have := target_sound hr
            exact hne op List.mem_cons_self (by rw [this, hci])
          simp only [List.getElem?_set_ne this]
        | new => simp only [List.getElem?_append_left hi]
    simp only [runT]
    rw [ih _ i (Nat.lt_of_lt_of_le hi (stepT_length_le ts op)) (fun o ho => hne o (List.mem_cons_of_mem _ ho)), h1]


theorem mem_setItems {c : Nat} {sets : List (Name × Col)} {op : Op} (h : op ∈ setItems c sets) : target op = some c := by
  simp only [setItems, List.mem_map] at h
  obtain ⟨p, _, rfl⟩ := h
  rfl

theorem mem_sortOps {c : Nat} {idx : Option (Name × List Nat)} {op : Op} (h : op ∈ sortOps c idx) : target op = some c := by
  cases idx with
  | none => simp [sortOps] at h
  | some p => obtain ⟨n, perm⟩ := p; simp only [sortOps, List.mem_singleton] at h; subst h; rfl

theorem trialOps_targets (n0 e : Nat) (cfg : TrialCfg) :
    (∀ op ∈ (trialOps n0 e cfg).1, ∀ x, target op = some x → x = e ∨ x = n0) ∧
    ((trialOps n0 e cfg).2 = e ∨ (trialOps n0 e cfg).2 = n0) := by
  unfold trialOps
  cases cfg.sel with
  | none =>
    cases cfg.index with
    | none =>
      refine ⟨?_, Or.inl rfl⟩
      intro op hop x hx
      simp only [List.mem_append] at hop
      rcases hop with h | h
      · rw [mem_setItems h] at hx; left; exact (Option.some.inj hx).symm
      · rw [mem_setItems h] at hx; left; exact (Option.some.inj hx).symm
    | some idx =>
      refine ⟨?_, Or.inr rfl⟩
      intro op hop x hx
      simp only [List.mem_append, List.mem_singleton] at hop
      rcases hop with ((h | h) | h) | h
      · rw [mem_setItems h] at hx; left; exact (Option.some.inj hx).symm
      · subst h; simp [target] at hx
      · rw [mem_sortOps h] at hx; right; exact (Option.some.inj hx).symm
      · rw [mem_setItems h] at hx; right; exact (Option.some.inj hx).symm
  | some sel =>
    refine ⟨?_, Or.inr rfl⟩
    intro op hop x hx
    simp only [List.mem_append, List.mem_singleton] at hop
    rcases hop with ((h | h) | h) | h
    · rw [mem_setItems h] at hx; left; exact (Option.some.inj hx).symm
    · subst h; simp [target] at hx
    · rw [mem_sortOps h] at hx; right; exact (Option.some.inj hx).symm
    · rw [mem_setItems h] at hx; right; exact (Option.some.inj hx).symm

/-- the stored containers exist, and the cached MC copy is not one of them -/
def RolesOK (n0 : Nat) (r : Roles) : Prop :=
  r.exp < n0 ∧ r.mc < n0 ∧ (∀ c, r.cache = some c → c ≠ r.exp ∧ c ≠ r.mc) ∧ (∀ ev, r.events = some ev → ev ≠ r.exp ∧ ev ≠ r.mc)

end C07

open C07

theorem C07.cachePlan_spec (n0 : Nat) (r : Roles) (keep : List Name) (presel : Option Sel) (hr : C07.RolesOK n0 r) :
    (∀ op ∈ (cachePlan n0 r keep presel).1, ∀ x, target op = some x → n0 ≤ x) ∧
    ((cachePlan n0 r keep presel).2.1 ≠ r.exp ∧ (cachePlan n0 r keep presel).2.1 ≠ r.mc) ∧
    n0 ≤ (cachePlan n0 r keep presel).2.2 := by
  obtain ⟨he, hm, hc, _⟩ := hr
  unfold cachePlan
  cases hcache : r.cache with
  | some c => exact ⟨(by intro op hop; cases hop), hc c hcache, le_refl _⟩
  | none =>
    cases presel with
    | none =>
      refine ⟨?_, ⟨by simp only; omega, by simp only; omega⟩, by simp only; omega⟩
      intro op hop x hx
      simp only [List.mem_cons, List.not_mem_nil, or_false] at hop
      rcases hop with rfl | rfl <;> simp [target] at hx <;> omega
    | some sel =>
      refine ⟨?_, ⟨by simp only; omega, by simp only; omega⟩, by simp only; omega⟩
      intro op hop x hx
      simp only [List.mem_cons, List.not_mem_nil, or_false] at hop
      rcases hop with rfl | rfl | rfl <;> simp [target] at hx <;> omega

theorem C07.compositePlan_spec (n0 : Nat) (presel : Option Sel) (draw : List Int) :
    (∀ op ∈ (compositePlan n0 presel draw).1, ∀ x, target op = some x → n0 ≤ x) ∧ n0 ≤ (compositePlan n0 presel draw).2 := by
  unfold compositePlan
  cases presel with
  | none =>
    refine ⟨?_, by simp only; omega⟩
    intro op hop x hx
    simp only [List.mem_cons, List.not_mem_nil, or_false] at hop
    rcases hop with rfl | rfl <;> simp [target] at hx <;> omega
  | some sel =>
    refine ⟨?_, by simp only; omega⟩
    intro op hop x hx
    simp only [List.mem_cons, List.not_mem_nil, or_false] at hop
    rcases hop with rfl | rfl | rfl <;> simp [target] at hx <;> omega

/-- the roles after an operation: the stored containers keep their roles, a new cache and the trial events are not
stored containers -/
theorem C07.compile_roles (n0 : Nat) (r : Roles) (gop : GOp) (hr : C07.RolesOK n0 r) (hh : HandlesOK r gop) :
    (compile n0 r gop).2.1.exp = r.exp ∧ (compile n0 r gop).2.1.mc = r.mc ∧
    (∀ c, (compile n0 r gop).2.1.cache = some c → c ≠ r.exp ∧ c ≠ r.mc) ∧
    (∀ ev, (compile n0 r gop).2.1.events = some ev → ev ≠ r.exp ∧ ev ≠ r.mc) := by
  have big : ∀ x, n0 ≤ x → x ≠ r.exp ∧ x ≠ r.mc := fun x hx => ⟨by have := hr.1; omega, by have := hr.2.1; omega⟩
  have trialEv : ∀ (m e : Nat) (cfg : TrialCfg), n0 ≤ m → (e ≠ r.exp ∧ e ≠ r.mc) →
      (trialOps m e cfg).2 ≠ r.exp ∧ (trialOps m e cfg).2 ≠ r.mc := by
    intro m e cfg hm he
    rcases (trialOps_targets m e cfg).2 with h | h <;> rw [h]
    · exact he
    · exact big m hm
  cases gop with
  | genMC keep presel draw scr vals expFields =>
    refine ⟨rfl, rfl, ?_, hr.2.2.2⟩
    intro c hc
    simp only [compile, Option.some.injEq] at hc
    subst hc
    exact (C07.cachePlan_spec n0 r keep presel hr).2.1
  | genFixed _ _ => exact ⟨rfl, rfl, hr.2.2.1, hr.2.2.2⟩
  | genComposite _ _ _ _ _ _ _ => exact ⟨rfl, rfl, hr.2.2.1, hr.2.2.2⟩
  | genSigMC _ _ _ _ => exact ⟨rfl, rfl, hr.2.2.1, hr.2.2.2⟩
  | genSig _ => exact ⟨rfl, rfl, hr.2.2.1, hr.2.2.2⟩
  | merge _ _ => exact ⟨rfl, rfl, hr.2.2.1, hr.2.2.2⟩
  | initTrial e cfg =>
    refine ⟨rfl, rfl, hr.2.2.1, ?_⟩
    intro ev hev
    simp only [compile, Option.some.injEq] at hev
    subst hev
    exact trialEv n0 e cfg (le_refl _) hh
  | unblind cfg =>
    refine ⟨rfl, rfl, hr.2.2.1, ?_⟩
    intro ev hev
    simp only [compile, Option.some.injEq] at hev
    subst hev
    exact trialEv (n0 + 1) n0 cfg (by omega) (big n0 (le_refl _))
  | unblindAdopt _ => exact hh.elim
  | evaluate fields =>
    refine ⟨?_, ?_, ?_, ?_⟩ <;> (simp only [compile]; split) <;> first
      | rfl
      | exact hr.2.2.1
      | exact hr.2.2.2
  | resetCache => exact ⟨rfl, rfl, fun c h => by simp [compile] at h, hr.2.2.2⟩

/-- **No pseudo-data operation targets the stored data.**  With `n0` containers in the store, the stored
containers among them, and handles that are generated containers, none of the container operations of any
pseudo-data operation rebinds or writes `data.exp` or `data.mc`; the roles of the stored containers stay. -/
theorem c07_compile_targets (n0 : Nat) (r : Roles) (gop : GOp) (hr : RolesOK n0 r) (hh : HandlesOK r gop) :
    (∀ op ∈ (compile n0 r gop).1, target op ≠ some r.exp ∧ target op ≠ some r.mc) ∧
    (compile n0 r gop).2.1.exp = r.exp ∧ (compile n0 r gop).2.1.mc = r.mc ∧
    ∀ n', n0 ≤ n' → RolesOK n' (compile n0 r gop).2.1 := by
  obtain ⟨r1, r2, r3, r4⟩ := C07.compile_roles n0 r gop hr hh
  have hr0 := hr
  obtain ⟨he, hm, hc, hev⟩ := hr
  refine ⟨?_, r1, r2, fun n' hn => ⟨by rw [r1]; omega, by rw [r2]; omega, fun c h => by rw [r1, r2]; exact r3 c h,
    fun ev h => by rw [r1, r2]; exact r4 ev h⟩⟩
  have big : ∀ x, n0 ≤ x → x ≠ r.exp ∧ x ≠ r.mc := fun x hx => ⟨by omega, by omega⟩
  suffices hs : ∀ op ∈ (compile n0 r gop).1, ∀ x, target op = some x → x ≠ r.exp ∧ x ≠ r.mc from
    fun op hop => ⟨fun h1 => (hs op hop _ h1).1 rfl, fun h1 => (hs op hop _ h1).2 rfl⟩
  have trial : ∀ (m e : Nat), n0 ≤ m → (e ≠ r.exp ∧ e ≠ r.mc) → ∀ (cfg : TrialCfg), ∀ op ∈ (trialOps m e cfg).1, ∀ x,
      target op = some x → x ≠ r.exp ∧ x ≠ r.mc := by
    intro m e hm' hne cfg op hop x hx
    rcases (trialOps_targets m e cfg).1 op hop x hx with rfl | rfl
    · exact hne
    · exact big _ hm'
  intro op hop x hx
  cases gop with
  | genFixed scr vals =>
    simp only [compile, List.mem_append, List.mem_singleton] at hop
    rcases hop with h | h
    · subst h; simp [target] at hx
    · rw [mem_setItems h] at hx; cases hx; exact big _ (le_refl _)
  | genMC keep presel draw scr vals expFields =>
    obtain ⟨p1, p2, p3⟩ := C07.cachePlan_spec n0 r keep presel hr0
    simp only [compile, List.mem_append, List.mem_singleton] at hop
    rcases hop with ((h | h) | h) | h
    · exact big _ (p1 op h x hx)
    · subst h; simp [target] at hx
    · rw [mem_setItems h] at hx; cases hx; exact big _ p3
    · subst h; simp only [target, Option.some.injEq] at hx; subst hx; exact big _ p3
  | genComposite keep scr vals rates presel draw expFields =>
    obtain ⟨q1, q2⟩ := C07.compositePlan_spec n0 presel draw
    simp only [compile, List.mem_append, List.mem_singleton] at hop
    rcases hop with (((h | h) | h) | h) | h
    · subst h; simp [target] at hx
    · rw [mem_setItems h] at hx; cases hx; exact big _ (le_refl _)
    · rw [mem_setItems h] at hx; cases hx; exact big _ (le_refl _)
    · exact big _ (q1 op h x hx)
    · subst h; simp only [target, Option.some.injEq] at hx; subst hx; exact big _ q2
  | genSigMC ev post empty fill =>
    simp only [compile, List.mem_append, List.mem_singleton, List.mem_cons, List.not_mem_nil, or_false] at hop
    rcases hop with ((h | h) | h)
    · subst h; simp [target] at hx
    · rw [mem_setItems h] at hx; cases hx; exact big _ (le_refl _)
    · rcases h with h | h
      · subst h; simp [target] at hx
      · subst h; simp only [target, Option.some.injEq] at hx; subst hx; exact big _ (by omega)
  | genSig cols =>
    simp only [compile, List.mem_singleton] at hop
    subst hop; simp [target] at hx
  | merge b s =>
    simp only [compile, List.mem_singleton] at hop
    subst hop; simp only [target, Option.some.injEq] at hx; subst hx; exact hh
  | initTrial e cfg => exact trial n0 e (le_refl _) hh cfg op (by simpa [compile] using hop) x hx
  | unblind cfg =>
    simp only [compile, List.mem_append, List.mem_singleton] at hop
    rcases hop with h | h
    · subst h; simp [target] at hx
    · exact trial (n0 + 1) n0 (by omega) (big n0 (le_refl _)) cfg op h x hx
  | unblindAdopt cfg => exact hh.elim
  | evaluate fields =>
    simp only [compile] at hop
    cases hev' : r.events with
    | none => rw [hev'] at hop; cases hop
    | some ev =>
      rw [hev'] at hop
      rw [mem_setItems hop] at hx; cases hx
      exact hev _ hev'
  | resetCache => simp [compile] at hop

namespace C07

theorem runT_length_le : ∀ (ops : List Op) (ts : List Table), ts.length ≤ (runT ts ops).length := by
  intro ops
  induction ops with
  | nil => intro ts; exact le_refl _
  | cons op ops ih => intro ts; exact le_trans (stepT_length_le ts op) (ih _)

/-- one pseudo-data operation: the simulation is kept, the stored tables are untouched, the roles stay valid -/
theorem gstep_frame (g : G) (ts : List Table) (good : Good g.st ts) (hr : RolesOK g.st.conts.length g.roles)
    (gop : GOp) (hh : HandlesOK g.roles gop) :
    ∃ ts', Good (gstep g gop).1.st ts' ∧ ts'[g.roles.exp]? = ts[g.roles.exp]? ∧ ts'[g.roles.mc]? = ts[g.roles.mc]? ∧
      RolesOK (gstep g gop).1.st.conts.length (gstep g gop).1.roles ∧
      (gstep g gop).1.roles.exp = g.roles.exp ∧ (gstep g gop).1.roles.mc = g.roles.mc := by
  obtain ⟨h1, h2, h3, h4⟩ := c07_compile_targets g.st.conts.length g.roles gop hr hh
  have good' := c16_refines good (compile g.st.conts.length g.roles gop).1
  refine ⟨runT ts (compile g.st.conts.length g.roles gop).1, good', ?_, ?_, ?_, h2, h3⟩
  · exact frame_ops _ ts _ (by rw [← good.len]; exact hr.1) (fun op hop => (h1 op hop).1)
  · exact frame_ops _ ts _ (by rw [← good.len]; exact hr.2.1) (fun op hop => (h1 op hop).2)
  · refine h4 _ ?_
    show g.st.conts.length ≤ (runH g.st (compile g.st.conts.length g.roles gop).1).conts.length
    rw [good'.len, good.len]
    exact runT_length_le _ _

end C07

/-- **Frame property, all histories.**  Start from any state in which the store represents plain tables
(`Good`: in particular no location is shared between two slots) and the stored containers exist.  After any
history of pseudo-data operations whose handles are generated containers — generate background with either
method and any scrambling, generate signal, merge, initialise a trial, unblind (on a copy), evaluate, in any
order and number — reading `data.exp` and `data.mc` through the container's accessors yields exactly the
same table as before: same fields in the same order, same dtypes, same values in the same rows. -/
theorem c07_frame (g : G) (ts : List Table) (good : Good g.st ts) (hr : RolesOK g.st.conts.length g.roles)
    (gops : List GOp) (hh : ∀ gop ∈ gops, HandlesOK g.roles gop) :
    viewAt (grun g gops).st g.roles.exp = viewAt g.st g.roles.exp ∧
    viewAt (grun g gops).st g.roles.mc = viewAt g.st g.roles.mc ∧
    (grun g gops).roles.exp = g.roles.exp ∧ (grun g gops).roles.mc = g.roles.mc ∧
    C16.Inv (grun g gops).st := by
  induction gops generalizing g ts with
  | nil => exact ⟨rfl, rfl, rfl, rfl, ts, good⟩
  | cons gop gops ih =>
    obtain ⟨ts', good', he, hm, hr', re, rm⟩ := gstep_frame g ts good hr gop (hh gop List.mem_cons_self)
    have hh' : ∀ gop' ∈ gops, HandlesOK (gstep g gop).1.roles gop' := by
      intro gop' hg
      have := hh gop' (List.mem_cons_of_mem _ hg)
      cases gop' <;> simp only [HandlesOK, re, rm] at this ⊢ <;> exact this
    obtain ⟨i1, i2, i3, i4, i5⟩ := ih (gstep g gop).1 ts' good' hr' hh'
    simp only [grun]
    refine ⟨?_, ?_, by rw [i3, re], by rw [i4, rm], i5⟩
    · rw [← re, i1, re, view_eq good', view_eq good]; unfold getT; rw [he]
    · rw [← rm, i2, rm, view_eq good', view_eq good]; unfold getT; rw [hm]

/-- **No alias.**  After any such history no generated container (nor the cached MC copy, nor `tdm.events`)
is, or shares a heap location with, `data.exp` or `data.mc`: every location bound in a container other than
a stored one is not bound in the stored one. -/
theorem c07_no_alias_inv (g : G) (ts : List Table) (good : Good g.st ts) (hr : RolesOK g.st.conts.length g.roles)
    (gops : List GOp) (hh : ∀ gop ∈ gops, HandlesOK g.roles gop)
    (k j : Nat) (ck cj : Cont) (n m l : Nat) (hk : k = g.roles.exp ∨ k = g.roles.mc) (hj : j ≠ k)
    (h1 : (grun g gops).st.conts[k]? = some ck) (h2 : (grun g gops).st.conts[j]? = some cj)
    (hn : (n, l) ∈ ck.fields) : (m, l) ∉ cj.fields := by
  obtain ⟨_, _, _, _, ts', good'⟩ := c07_frame g ts good hr gops hh
  intro hm
  exact hj (good'.noalias j k cj ck m n l h2 h1 hm hn)

/-- the frame property from the empty store: a data set is loaded (`new` exp, `new` mc), then any history -/
theorem c07_frame_from_load (expCols mcCols : List (Name × Col)) (gops : List GOp)
    (hh : ∀ gop ∈ gops, HandlesOK ⟨0, 1, none, none⟩ gop)
    (hl : (runH ⟨[], []⟩ [.new expCols, .new mcCols]).conts.length = 2) :
    let g0 : G := ⟨runH ⟨[], []⟩ [.new expCols, .new mcCols], ⟨0, 1, none, none⟩⟩
    viewAt (grun g0 gops).st 0 = viewAt g0.st 0 ∧ viewAt (grun g0 gops).st 1 = viewAt g0.st 1 := by
  intro g0
  have good := c16_refines_from_init [.new expCols, .new mcCols]
  have hr : RolesOK g0.st.conts.length g0.roles :=
    ⟨by show 0 < _; rw [hl]; omega, by show 1 < _; rw [hl]; omega, (fun c h => by cases h), (fun c h => by cases h)⟩
  obtain ⟨h1, h2, _⟩ := c07_frame g0 _ good hr gops hh
  exact ⟨h1, h2⟩

/-! ### scrambling -/

namespace C07

theorem lookup_setItemCol (m : Nat) (col : Col) (n : Nat) (hn : n ≠ m) : ∀ (cols : List (Name × Col)),
    ((cols.map (setItemCol m col)).map (fun e => (e.1, e.2.2))).lookup n = cols.lookup n := by
  intro cols
  induction cols with
  | nil => rfl
  | cons p cols ih =>
    obtain ⟨k, c⟩ := p
    by_cases hk : (k == m) = true
    · have hkm : k = m := by simpa using hk
      have h1 : setItemCol m col (k, c) = (k, Prov.fresh, col) := by simp [setItemCol, hk]
      have : (n == k) = false := by rw [beq_eq_false_iff_ne]; rw [hkm]; exact hn
      simp only [List.map_cons, h1, List.lookup, this]
      exact ih
    · have h1 : setItemCol m col (k, c) = (k, Prov.kept k, c) := by simp [setItemCol, hk]
      simp only [List.map_cons, h1, List.lookup]
      cases (n == k)
      · exact ih
      · rfl

theorem lookup_addField (m : Nat) (col : Col) (n : Nat) (hn : n ≠ m) : ∀ (cols : List (Name × Col)),
    ((keepAll cols ++ [(m, Prov.fresh, col)]).map (fun e => (e.1, e.2.2))).lookup n = cols.lookup n := by
  intro cols
  induction cols with
  | nil =>
    have : (n == m) = false := by rw [beq_eq_false_iff_ne]; exact hn
    simp [keepAll, List.lookup, this]
  | cons p cols ih =>
    obtain ⟨k, c⟩ := p
    simp only [keepAll, List.map_cons, List.cons_append, List.lookup] at ih ⊢
    split
    · rfl
    · exact ih

/-- `x[m] = col` on table `c`: the length and every other field stay (also when the assignment raises) -/
theorem setItem_step (ts : List Table) (c m : Nat) (col : Col) (t1 : Table) (h : ts[c]? = some t1) :
    (stepT ts (.setItem c m col)).1.length = ts.length ∧
    ∃ t2, (stepT ts (.setItem c m col)).1[c]? = some t2 ∧ t2.len = t1.len ∧
      ∀ n, n ≠ m → t2.cols.lookup n = t1.cols.lookup n := by
  have hg : getT ts c = .ok t1 := by simp [getT, h]
  have hc : c < ts.length := (List.getElem?_eq_some_iff.mp h).1
  unfold stepT
  simp only [tableOp, hg, bind, Except.bind]
  split_ifs with h1 h2 h3
  · exact ⟨rfl, t1, h, rfl, fun _ _ => rfl⟩
  · refine ⟨by simp [pure, Except.pure], ?_⟩
    simp only [pure, Except.pure, List.getElem?_set_self hc]
    exact ⟨_, rfl, rfl, fun n hn => lookup_setItemCol m col n hn t1.cols⟩
  · exact ⟨rfl, t1, h, rfl, fun _ _ => rfl⟩
  · refine ⟨by simp [pure, Except.pure], ?_⟩
    simp only [pure, Except.pure, List.getElem?_set_self hc]
    exact ⟨_, rfl, rfl, fun n hn => lookup_addField m col n hn t1.cols⟩

theorem setItems_run : ∀ (sets : List (Name × Col)) (ts : List Table) (c : Nat) (t1 : Table), ts[c]? = some t1 →
    ∃ t2, (runT ts (setItems c sets))[c]? = some t2 ∧ t2.len = t1.len ∧
      ∀ n, n ∉ sets.map (·.1) → t2.cols.lookup n = t1.cols.lookup n := by
  intro sets
  induction sets with
  | nil => intro ts c t1 h; exact ⟨t1, h, rfl, fun _ _ => rfl⟩
  | cons p sets ih =>
    intro ts c t1 h
    obtain ⟨_, t2, h2, l2, k2⟩ := setItem_step ts c p.1 p.2 t1 h
    obtain ⟨t3, h3, l3, k3⟩ := ih _ c t2 h2
    refine ⟨t3, h3, by rw [l3, l2], ?_⟩
    intro n hn
    simp only [List.map_cons, List.mem_cons, not_or] at hn
    rw [k3 n hn.2, k2 n hn.1]

end C07

/-- **Scrambling changes only the documented fields and keeps the number of events.**  `scramble_data(data.exp,
copy=True)` = `data.exp.copy()` followed by the assignments `data[f] = …` of the scrambling method: the generated
container has the length of the stored one and every field that is not assigned is the stored column (dtype and
values) — whatever the assigned arrays are. -/
theorem c07_scramble_only_documented_fields (ts : List Table) (e : Nat) (t : Table) (sets : List (Name × Col))
    (h : ts[e]? = some t) (hne : t.cols ≠ []) :
    ∃ t', (runT ts ([.copy e none] ++ setItems ts.length sets))[ts.length]? = some t' ∧ t'.len = t.len ∧
      ∀ n, n ∉ sets.map (·.1) → t'.cols.lookup n = t.cols.lookup n := by
  have hg : getT ts e = .ok t := by simp [getT, h]
  have hcopy : (stepT ts (.copy e none)).1 = ts ++ [⟨t.len, t.cols⟩] := by
    unfold stepT
    simp only [tableOp, hg, bind, Except.bind, pure, Except.pure, copyCols]
    have : t.cols.isEmpty = false := by cases hc : t.cols with
      | nil => exact (hne hc).elim
      | cons _ _ => rfl
    simp [Upd.table, freshAll_table, this]
  simp only [List.cons_append, List.nil_append, runT, hcopy]
  have hl : (ts ++ [(⟨t.len, t.cols⟩ : Table)])[ts.length]? = some ⟨t.len, t.cols⟩ := by simp
  obtain ⟨t2, h2, l2, k2⟩ := C07.setItems_run sets _ ts.length _ hl
  exact ⟨t2, h2, l2, k2⟩

/-- the length is kept (separate name for the design's list) -/
theorem c07_scramble_len (ts : List Table) (e : Nat) (t : Table) (sets : List (Name × Col))
    (h : ts[e]? = some t) (hne : t.cols ≠ []) :
    ∃ t', (runT ts ([.copy e none] ++ setItems ts.length sets))[ts.length]? = some t' ∧ t'.len = t.len := by
  obtain ⟨t', h1, h2, _⟩ := c07_scramble_only_documented_fields ts e t sets h hne
  exact ⟨t', h1, h2⟩

/-! ### the code before the fix: `unblind` adopting `data.exp` itself -/

namespace C07
def demoExp : List (Name × Col) := [(3, ⟨.i16, [3, 1, 2]⟩), (0, ⟨.f32, [10, 11, 12]⟩)]
def demoG : G := ⟨runH ⟨[], []⟩ [.new demoExp, .new demoExp], ⟨0, 1, none, none⟩⟩
/-- index field `run` (argsort = [1,2,0]), no event selection, one static data field -/
def demoCfg : TrialCfg := ⟨[], none, some (3, [1, 2, 0]), [(7, ⟨.f64, [5, 5, 5]⟩)]⟩
/-- no index field: the static data field goes into the adopted container itself -/
def demoCfgAdopt : TrialCfg := ⟨[], none, none, [(7, ⟨.f64, [5, 5, 5]⟩)]⟩
end C07

/-- the full statement for a history containing the pre-fix unblind -/
def c07_frame_adopt_statement : Prop :=
  ∀ (g : G) (cfg : TrialCfg), viewAt (gstep g (.unblindAdopt cfg)).1.st g.roles.exp = viewAt g.st g.roles.exp

/-- **Counterexample (code before the fix)**: `unblind` assigns the static data fields of the trial data manager into the stored experimental data
(and, before the later fix of `initialize_trial`, also sorted it in place with an index field). -/
theorem c07_unblind_adopt_counterexample : ¬ c07_frame_adopt_statement := by
  intro h
  have := h C07.demoG C07.demoCfgAdopt
  revert this
  decide

/-- the same witness through the fixed `unblind` leaves the stored data alone, and the trial data are sorted -/
example : viewAt (gstep C07.demoG (.unblind C07.demoCfg)).1.st 0 = viewAt C07.demoG.st 0 := by decide
example : (viewAt (gstep C07.demoG (.unblind C07.demoCfg)).1.st 3).toOption.map (·.cols.lookup 3) =
    some (some ⟨.i16, [1, 2, 3]⟩) := by decide
example : C07.RolesOK C07.demoG.st.conts.length C07.demoG.roles :=
  ⟨by decide, by decide, (fun c h => by cases h), (fun c h => by cases h)⟩
example : HandlesOK C07.demoG.roles (.initTrial 2 C07.demoCfg) := ⟨by decide, by decide⟩

/-! ### right ascension of scrambled events (over the reals) -/

/-- `UniformRAScramblingMethod`: `uniform(lo, hi)` lies in the configured range `[lo, hi)` -/
theorem c07_ra_range_uniform (lo hi u : ℝ) (h : lo < hi) (hu0 : 0 ≤ u) (hu1 : u < 1) :
    lo ≤ uniformRA lo hi u ∧ uniformRA lo hi u < hi := by
  unfold uniformRA
  constructor <;> nlinarith

/-- the same for any configured range `lo ≤ hi` — no assumption that it lies inside `[0, 2π)`: ranges straddling 0 or
2π, entirely below 0 or above 2π, and zero-width ranges (`lo = hi`, every event gets `lo`) — closed form with
`u ∈ [0, 1]`, which also covers the value after rounding `u` up -/
theorem c07_ra_range_uniform_closed (lo hi u : ℝ) (h : lo ≤ hi) (hu0 : 0 ≤ u) (hu1 : u ≤ 1) :
    lo ≤ uniformRA lo hi u ∧ uniformRA lo hi u ≤ hi := by
  unfold uniformRA
  constructor <;> nlinarith

/-- wrapping the drawn value into `[0, 2π)` (a seeded mutant of the code) leaves the configured range as soon as the
range reaches below 0: witness range `(-2/5, 2/5)`, deviate `u = 1/4`, drawn RA `-1/5`, wrapped RA `2π - 1/5 > 2/5` -/
example : uniformRA (-2 / 5 : ℝ) (2 / 5) (1 / 4) = -1 / 5 ∧ (2 / 5 : ℝ) < (-1 / 5) + 2 * Real.pi := by
  refine ⟨by unfold uniformRA; norm_num, ?_⟩
  have := Real.two_le_pi
  linarith

example : (-2 / 5 : ℝ) ≤ uniformRA (-2 / 5) (2 / 5) (1 / 4) ∧ uniformRA (-2 / 5 : ℝ) (2 / 5) (1 / 4) ≤ 2 / 5 :=
  c07_ra_range_uniform_closed _ _ _ (by norm_num) (by norm_num) (by norm_num)

/-- numpy's `mod` (floored) -/
noncomputable def C07.npMod (x m : ℝ) : ℝ := x - m * ⌊x / m⌋

/-- time scrambling: `np.mod(·, 2π)` (azi_to_ra_transform) lies in `[0, 2π)` -/
theorem c07_ra_range_mod (x : ℝ) : 0 ≤ C07.npMod x (2 * Real.pi) ∧ C07.npMod x (2 * Real.pi) < 2 * Real.pi := by
  have hm : 0 < 2 * Real.pi := by positivity
  have h1 := Int.floor_le (x / (2 * Real.pi))
  have h2 := Int.lt_floor_add_one (x / (2 * Real.pi))
  have hx : x = 2 * Real.pi * (x / (2 * Real.pi)) := by field_simp
  unfold C07.npMod
  constructor
  · nlinarith
  · nlinarith

example : (0 : ℝ) ≤ uniformRA 1 (5 / 2) (1 / 2) ∧ uniformRA (1 : ℝ) (5 / 2) (1 / 2) < 5 / 2 := by
  have := c07_ra_range_uniform 1 (5 / 2) (1 / 2) (by norm_num) (by norm_num) (by norm_num)
  constructor <;> linarith [this.1, this.2]


/-! ### review round: handles, unblinding, documented fields per method, shared columns, evaluation -/

/-- **The handle an operation returns is a generated container**, never a stored one — so `HandlesOK` holds for every
handle that was returned by an earlier operation. -/
theorem c07_returned_handle_generated (n0 : Nat) (r : Roles) (gop : GOp) (hr : RolesOK n0 r) (hh : HandlesOK r gop) :
    ∀ h, (compile n0 r gop).2.2 = some h → h ≠ r.exp ∧ h ≠ r.mc := by
  have big : ∀ x, n0 ≤ x → x ≠ r.exp ∧ x ≠ r.mc := fun x hx => ⟨by have := hr.1; omega, by have := hr.2.1; omega⟩
  have trialEv : ∀ (m e : Nat) (cfg : TrialCfg), n0 ≤ m → (e ≠ r.exp ∧ e ≠ r.mc) →
      (trialOps m e cfg).2 ≠ r.exp ∧ (trialOps m e cfg).2 ≠ r.mc := by
    intro m e cfg hm he
    rcases (trialOps_targets m e cfg).2 with h | h <;> rw [h]
    · exact he
    · exact big m hm
  intro h hh'
  cases gop with
  | genFixed _ _ => simp only [compile, Option.some.injEq] at hh'; subst hh'; exact big _ (le_refl _)
  | genMC keep presel draw scr vals ef =>
    simp only [compile, Option.some.injEq] at hh'; subst hh'
    exact big _ (cachePlan_spec n0 r keep presel hr).2.2
  | genComposite keep scr vals rates presel draw ef =>
    simp only [compile, Option.some.injEq] at hh'; subst hh'
    exact big _ (compositePlan_spec n0 presel draw).2
  | genSigMC _ _ _ _ => simp only [compile, Option.some.injEq] at hh'; subst hh'; exact big _ (by omega)
  | genSig _ => simp only [compile, Option.some.injEq] at hh'; subst hh'; exact big _ (le_refl _)
  | merge b s => simp only [compile, Option.some.injEq] at hh'; subst hh'; exact hh
  | initTrial e cfg => simp only [compile, Option.some.injEq] at hh'; subst hh'; exact trialEv n0 e cfg (le_refl _) hh
  | unblind cfg =>
    simp only [compile, Option.some.injEq] at hh'; subst hh'
    exact trialEv (n0 + 1) n0 cfg (by omega) (big n0 (le_refl _))
  | unblindAdopt _ => exact hh.elim
  | evaluate fields =>
    simp only [compile] at hh'
    split at hh' <;> cases hh'
  | resetCache => simp [compile] at hh'

/-- **Unblinding sees the original data**: after any history of pseudo-data operations, `unblind` (no static fields, no
selection, no index field) evaluates a container that reads exactly like the experimental data as they were loaded. -/
theorem c07_unblind_sees_original (g : G) (ts : List Table) (good : Good g.st ts) (hr : RolesOK g.st.conts.length g.roles)
    (gops : List GOp) (hh : ∀ gop ∈ gops, HandlesOK g.roles gop) (t : Table) (h0 : viewAt g.st g.roles.exp = .ok t)
    (hne : t.cols ≠ []) :
    viewAt (gstep (grun g gops) (.unblind ⟨[], none, none, []⟩)).1.st (grun g gops).st.conts.length = .ok t := by
  obtain ⟨h1, _, h3, _, ts', good'⟩ := c07_frame g ts good hr gops hh
  have hv : viewAt (grun g gops).st (grun g gops).roles.exp = .ok t := by rw [h3, h1]; exact h0
  rw [view_eq good'] at hv
  have htc : ts'[(grun g gops).roles.exp]? = some t := getT_ok hv
  have hstep : (gstep (grun g gops) (.unblind ⟨[], none, none, []⟩)).1.st = (stepH (grun g gops).st (.copy (grun g gops).roles.exp none)).1 := by
    simp [gstep, compile, trialOps, setItems, runH]
  rw [hstep]
  have hs := step_refines good' (.copy (grun g gops).roles.exp none)
  rw [view_eq hs.1, c16_copy_eq ts' _ t htc hne, good'.len]
  simp [getT]

/-- the assignments of a scrambling method are assignments to its documented fields -/
theorem c07_scrSets_documented (m : Scr) (vals : List Col) : ∀ n ∈ (scrSets (some m) vals).map (·.1), n ∈ documented m := by
  intro n hn
  simp only [scrSets, List.mem_map] at hn
  obtain ⟨p, hp, rfl⟩ := hn
  exact (List.of_mem_zip hp).1

/-- **Scrambling by each method changes only the fields that method documents** (`ra` | `time, ra` | `time, ra, dec`):
the background generated by `FixedScrambledExpDataI3BkgGenMethod` with method `m` has the length of the stored data and every
field outside `documented m` is the stored column. -/
theorem c07_scramble_method (ts : List Table) (e : Nat) (t : Table) (m : Scr) (vals : List Col)
    (h : ts[e]? = some t) (hne : t.cols ≠ []) :
    ∃ t', (runT ts ([.copy e none] ++ setItems ts.length (scrSets (some m) vals)))[ts.length]? = some t' ∧ t'.len = t.len ∧
      ∀ n, n ∉ documented m → t'.cols.lookup n = t.cols.lookup n := by
  obtain ⟨t', h1, h2, h3⟩ := c07_scramble_only_documented_fields ts e t (scrSets (some m) vals) h hne
  exact ⟨t', h1, h2, fun n hn => h3 n (fun hmem => hn (c07_scrSets_documented m vals n hmem))⟩

example : documented .time = [2, 0, 1] ∧ documented .uniformRA = [0] := ⟨rfl, rfl⟩

namespace C07
theorem refines_rebind_run : ∀ (ops : List Op) (s : St) (ts : List Table), GoodS s ts → (∀ op ∈ ops, ¬ IsSetSel op) →
    GoodS (runH s ops) (runT ts ops) := by
  intro ops
  induction ops with
  | nil => intro s ts g _; exact g
  | cons op ops ih =>
    intro s ts g h
    exact ih _ _ (step_refines_rebind g op (h op List.mem_cons_self)).1 (fun o ho => h o (List.mem_cons_of_mem _ ho))

/-- operations that contain no write-through (`set_selection`): everything except the MC signal generator -/
def Rebinding : GOp → Prop
  | .genSigMC _ _ _ _ => False
  | _ => True

theorem setItems_rebind {c : Nat} {sets : List (Name × Col)} : ∀ op ∈ setItems c sets, ¬ IsSetSel op := by
  intro op h
  simp only [setItems, List.mem_map] at h
  obtain ⟨p, _, rfl⟩ := h
  exact fun hh => hh

theorem sortOps_rebind {c : Nat} {idx : Option (Name × List Nat)} : ∀ op ∈ sortOps c idx, ¬ IsSetSel op := by
  intro op h
  cases idx with
  | none => simp [sortOps] at h
  | some p => obtain ⟨n, perm⟩ := p; simp only [sortOps, List.mem_singleton] at h; subst h; exact fun hh => hh

theorem trialOps_rebind (n0 e : Nat) (cfg : TrialCfg) : ∀ op ∈ (trialOps n0 e cfg).1, ¬ IsSetSel op := by
  intro op h
  unfold trialOps at h
  cases hs : cfg.sel with
  | none =>
    rw [hs] at h
    cases hi : cfg.index with
    | none =>
      rw [hi] at h
      simp only [List.mem_append] at h
      rcases h with h | h <;> exact setItems_rebind op h
    | some idx =>
      rw [hi] at h
      simp only [List.mem_append, List.mem_singleton] at h
      rcases h with ((h | h) | h) | h
      · exact setItems_rebind op h
      · subst h; exact fun hh => hh
      · exact sortOps_rebind op h
      · exact setItems_rebind op h
  | some sel =>
    rw [hs] at h
    simp only [List.mem_append, List.mem_singleton] at h
    rcases h with ((h | h) | h) | h
    · exact setItems_rebind op h
    · subst h; exact fun hh => hh
    · exact sortOps_rebind op h
    · exact setItems_rebind op h

theorem compile_rebind (n0 : Nat) (r : Roles) (gop : GOp) (hg : Rebinding gop) : ∀ op ∈ (compile n0 r gop).1, ¬ IsSetSel op := by
  intro op hop
  cases gop with
  | genFixed scr vals =>
    simp only [compile, List.mem_append, List.mem_singleton] at hop
    rcases hop with h | h
    · subst h; exact fun hh => hh
    · exact setItems_rebind op h
  | genMC keep presel draw scr vals ef =>
    simp only [compile, List.mem_append, List.mem_singleton] at hop
    rcases hop with ((h | h) | h) | h
    · unfold cachePlan at h
      cases hc : r.cache with
      | some c => rw [hc] at h; cases h
      | none =>
        rw [hc] at h
        cases presel with
        | none =>
          simp only [List.mem_cons, List.not_mem_nil, or_false] at h
          rcases h with rfl | rfl <;> exact fun hh => hh
        | some sel =>
          simp only [List.mem_cons, List.not_mem_nil, or_false] at h
          rcases h with rfl | rfl | rfl <;> exact fun hh => hh
    · subst h; exact fun hh => hh
    · exact setItems_rebind op h
    · subst h; exact fun hh => hh
  | genComposite keep scr vals rates presel draw ef =>
    simp only [compile, List.mem_append, List.mem_singleton] at hop
    rcases hop with (((h | h) | h) | h) | h
    · subst h; exact fun hh => hh
    · exact setItems_rebind op h
    · exact setItems_rebind op h
    · unfold compositePlan at h
      cases presel with
      | none =>
        simp only [List.mem_cons, List.not_mem_nil, or_false] at h
        rcases h with rfl | rfl <;> exact fun hh => hh
      | some sel =>
        simp only [List.mem_cons, List.not_mem_nil, or_false] at h
        rcases h with rfl | rfl | rfl <;> exact fun hh => hh
    · subst h; exact fun hh => hh
  | genSigMC _ _ _ _ => exact hg.elim
  | genSig cols => simp only [compile, List.mem_singleton] at hop; subst hop; exact fun hh => hh
  | merge b s => simp only [compile, List.mem_singleton] at hop; subst hop; exact fun hh => hh
  | initTrial e cfg => exact trialOps_rebind n0 e cfg op (by simpa [compile] using hop)
  | unblind cfg =>
    simp only [compile, List.mem_append, List.mem_singleton] at hop
    rcases hop with h | h
    · subst h; exact fun hh => hh
    · exact trialOps_rebind _ _ cfg op h
  | unblindAdopt cfg => exact trialOps_rebind n0 r.exp cfg op (by simpa [compile] using hop)
  | evaluate fields =>
    simp only [compile] at hop
    cases hev : r.events with
    | none => rw [hev] at hop; cases hop
    | some ev => rw [hev] at hop; exact setItems_rebind op hop
  | resetCache => simp [compile] at hop
end C07

/-- **Frame property for data sets whose columns share arrays.**  The stored data need not satisfy "no location in two
slots" (loaders use `copy=False`, `exp['a'] = exp['b']` binds one array twice): from any state that merely *represents*
tables (`GoodS`), after any history of pseudo-data operations that only rebind — everything except the MC signal generator,
whose `set_selection` is covered by `c07_frame` under `Good` — `data.exp` and `data.mc` read exactly as before. -/
theorem c07_frame_shared (g : G) (ts : List Table) (good : GoodS g.st ts) (hr : RolesOK g.st.conts.length g.roles)
    (gops : List GOp) (hh : ∀ gop ∈ gops, HandlesOK g.roles gop ∧ C07.Rebinding gop) :
    viewAt (grun g gops).st g.roles.exp = viewAt g.st g.roles.exp ∧
    viewAt (grun g gops).st g.roles.mc = viewAt g.st g.roles.mc := by
  induction gops generalizing g ts with
  | nil => exact ⟨rfl, rfl⟩
  | cons gop gops ih =>
    obtain ⟨hok, hreb⟩ := hh gop List.mem_cons_self
    obtain ⟨h1, h2, h3, h4⟩ := c07_compile_targets g.st.conts.length g.roles gop hr hok
    have good' : GoodS (gstep g gop).1.st (runT ts (compile g.st.conts.length g.roles gop).1) :=
      C07.refines_rebind_run _ _ _ good (C07.compile_rebind _ _ gop hreb)
    have he := C07.frame_ops (compile g.st.conts.length g.roles gop).1 ts g.roles.exp (by rw [← good.len]; exact hr.1) (fun op hop => (h1 op hop).1)
    have hm := C07.frame_ops (compile g.st.conts.length g.roles gop).1 ts g.roles.mc (by rw [← good.len]; exact hr.2.1) (fun op hop => (h1 op hop).2)
    have hr' : RolesOK (gstep g gop).1.st.conts.length (gstep g gop).1.roles := by
      refine h4 _ ?_
      show g.st.conts.length ≤ (runH g.st (compile g.st.conts.length g.roles gop).1).conts.length
      have hl : (runH g.st (compile g.st.conts.length g.roles gop).1).conts.length = _ := good'.len
      rw [hl, good.len]
      exact C07.runT_length_le _ _
    have re : (gstep g gop).1.roles.exp = g.roles.exp := h2
    have rm : (gstep g gop).1.roles.mc = g.roles.mc := h3
    have hh' : ∀ gop' ∈ gops, HandlesOK (gstep g gop).1.roles gop' ∧ C07.Rebinding gop' := by
      intro gop' hg
      obtain ⟨a, b⟩ := hh gop' (List.mem_cons_of_mem _ hg)
      refine ⟨?_, b⟩
      cases gop' <;> simp only [HandlesOK, re, rm] at a ⊢ <;> exact a
    obtain ⟨i1, i2⟩ := ih (gstep g gop).1 _ good' hr' hh'
    simp only [grun]
    constructor
    · rw [← re, i1, re, view_eqS good', view_eqS good]; unfold getT; rw [he]
    · rw [← rm, i2, rm, view_eqS good', view_eqS good]; unfold getT; rw [hm]


/-- the pre-fix `unblind` followed by an evaluation: the global-fit-parameter data field of the evaluation is assigned
into the stored experimental data as well -/
example : (viewAt (grun C07.demoG [.unblindAdopt C07.demoCfgAdopt, .evaluate [(8, ⟨.f64, [1, 1, 1]⟩)]]).st 0).toOption.map (·.keys) =
    some [3, 0, 7, 8] := by decide

/-- non-vacuity of the frame theorem: a history whose container operations all succeed (fixed background, MC signal with a
write-through `set_selection` on the generated container, merge, trial on the merged events with an index field, evaluation) -/
example :
    let g := grun C07.demoG [.genFixed .uniformRA [⟨.f32, [7, 8, 9]⟩], .genSigMC [2, 0] [(0, ⟨.f32, [1, 1]⟩)]
      [(3, ⟨.i16, [0, 0]⟩), (0, ⟨.f32, [0, 0]⟩)] [0, 1], .merge 2 4, .initTrial 2 ⟨[], none, some (3, [1, 3, 2, 4, 0]), []⟩,
      .evaluate [(8, ⟨.f64, [1, 1, 1, 1, 1]⟩)]]
    g.st.conts.map (·.len) = [3, 3, 5, 2, 2, 5] ∧ g.roles.events = some 5 ∧
    (viewAt g.st 5).toOption.map (·.cols.lookup 3) = some (some ⟨.i16, [1, 2, 2, 3, 3]⟩) ∧
    viewAt g.st 0 = viewAt C07.demoG.st 0 ∧ viewAt g.st 1 = viewAt C07.demoG.st 1 := by decide

/-! ### deepening round: histories whose handles come from earlier results -/

/-- the handles an operation takes from the caller are among the available ones -/
def C07.UsesOnly (avail : List Nat) : GOp → Prop
  | .merge b _ => b ∈ avail
  | .initTrial e _ => e ∈ avail
  | .unblindAdopt _ => False
  | _ => True

/-- a history in which every handle handed to an operation was returned by an earlier operation of the history
(or is one of the initially available generated containers) -/
def C07.Scoped : G → List Nat → List GOp → Prop
  | _, _, [] => True
  | g, avail, gop :: rest =>
    C07.UsesOnly avail gop ∧
    C07.Scoped (gstep g gop).1 (match (gstep g gop).2 with | some h => h :: avail | none => avail) rest

/-- **Frame property without an assumption on the handles**: in a scoped history the handles are generated containers
*because* they were returned by earlier operations (`c07_returned_handle_generated`); the stored data read as before. -/
theorem c07_frame_scoped (g : G) (ts : List Table) (good : Good g.st ts) (hr : RolesOK g.st.conts.length g.roles)
    (avail : List Nat) (hav : ∀ h ∈ avail, h ≠ g.roles.exp ∧ h ≠ g.roles.mc) (gops : List GOp) (hs : C07.Scoped g avail gops) :
    viewAt (grun g gops).st g.roles.exp = viewAt g.st g.roles.exp ∧
    viewAt (grun g gops).st g.roles.mc = viewAt g.st g.roles.mc := by
  induction gops generalizing g ts avail with
  | nil => exact ⟨rfl, rfl⟩
  | cons gop gops ih =>
    obtain ⟨huse, hrest⟩ := hs
    have hh : HandlesOK g.roles gop := by
      cases gop <;> simp only [C07.UsesOnly, HandlesOK] at huse ⊢ <;> first
        | trivial
        | exact hav _ huse
        | exact huse
    obtain ⟨ts', good', he, hm, hr', re, rm⟩ := C07.gstep_frame g ts good hr gop hh
    have hret := c07_returned_handle_generated g.st.conts.length g.roles gop hr hh
    have hav' : ∀ h ∈ (match (gstep g gop).2 with | some h => h :: avail | none => avail),
        h ≠ (gstep g gop).1.roles.exp ∧ h ≠ (gstep g gop).1.roles.mc := by
      intro h hmem
      rw [re, rm]
      cases hg : (gstep g gop).2 with
      | none => rw [hg] at hmem; exact hav h hmem
      | some h0 =>
        rw [hg] at hmem
        rcases List.mem_cons.mp hmem with rfl | hmem
        · exact hret h hg
        · exact hav h hmem
    obtain ⟨i1, i2⟩ := ih (gstep g gop).1 ts' good' hr' _ hav' hrest
    simp only [grun]
    constructor
    · rw [← re, i1, re, view_eq good', view_eq good]; unfold getT; rw [he]
    · rw [← rm, i2, rm, view_eq good', view_eq good]; unfold getT; rw [hm]

/-- non-vacuity: generate, generate signal, merge the returned handles, trial on the merged events — scoped from no handle -/
example : C07.Scoped C07.demoG [] [.genFixed .uniformRA [⟨.f32, [7, 8, 9]⟩],
    .genSigMC [2, 0] [(0, ⟨.f32, [1, 1]⟩)] [(3, ⟨.i16, [0, 0]⟩), (0, ⟨.f32, [0, 0]⟩)] [0, 1], .merge 2 4,
    .initTrial 2 ⟨[], none, none, []⟩, .resetCache] := by
  simp only [C07.Scoped, C07.UsesOnly]
  decide

/-- **Scrambling on the MC path changes only the documented fields of the drawn events.**  `MCDataSamplingBkgGenMethod`:
`bkg = cache[drawn indices]`, then the scrambling method assigns its fields into `bkg` (`copy=False`): whenever the selection
succeeds, `bkg` has the length of the selection and every field outside `documented m` is the selected column of the cache
(what `get_selection` returned) — whatever arrays the method assigned. -/
theorem c07_scramble_mc (ts : List Table) (cache : Nat) (draw : List Int) (m : Option Scr) (vals : List Col) (tsel : Table)
    (hsel : stepT ts (.getSel cache (.idx draw)) = (ts ++ [tsel], .ok (.cont ts.length))) :
    ∃ t', (runT ts ([.getSel cache (.idx draw)] ++ setItems ts.length (scrSets m vals)))[ts.length]? = some t' ∧
      t'.len = tsel.len ∧ ∀ n, n ∉ (scrSets m vals).map (·.1) → t'.cols.lookup n = tsel.cols.lookup n := by
  simp only [List.cons_append, List.nil_append, runT, hsel]
  have hl : (ts ++ [tsel])[ts.length]? = some tsel := by simp
  exact C07.setItems_run (scrSets m vals) _ ts.length _ hl

/-- with the per-method table of documented fields -/
theorem c07_scramble_mc_method (ts : List Table) (cache : Nat) (draw : List Int) (m : Scr) (vals : List Col) (tsel : Table)
    (hsel : stepT ts (.getSel cache (.idx draw)) = (ts ++ [tsel], .ok (.cont ts.length))) :
    ∃ t', (runT ts ([.getSel cache (.idx draw)] ++ setItems ts.length (scrSets (some m) vals)))[ts.length]? = some t' ∧
      t'.len = tsel.len ∧ ∀ n, n ∉ documented m → t'.cols.lookup n = tsel.cols.lookup n := by
  obtain ⟨t', h1, h2, h3⟩ := c07_scramble_mc ts cache draw (some m) vals tsel hsel
  exact ⟨t', h1, h2, fun n hn => h3 n (fun hmem => hn (c07_scrSets_documented m vals n hmem))⟩

/-- non-vacuity: drawing rows 2, 0, 2 of the demo MC and scrambling `ra` uniformly -/
example : stepT (runT [] [.new C07.demoExp, .new C07.demoExp]) (.getSel 1 (.idx [2, 0, 2])) =
    (runT [] [.new C07.demoExp, .new C07.demoExp] ++ [⟨3, [(3, ⟨.i16, [2, 3, 2]⟩), (0, ⟨.f32, [12, 10, 12]⟩)]⟩], .ok (.cont 2)) := by decide


/-! ### round 4: the number of generated events -/

/-- **Without a pre-selection the background method draws exactly `n_bkg` events**: over the reals `n_bkg * mean / mean = n_bkg`
for every non-zero expected mean (integer or not), so rounding it gives `n_bkg` — the generated array has the number of events
that is reported. (The IEEE evaluation `fl(fl(n·m)/m)` can be one unit in the last place below `n`; `np.around` absorbs that,
truncation would not: the executable `nBkgSelected` is compared with the implementation on every run.) -/
theorem c07_n_bkg_no_preselection (n : ℕ) (mean : ℝ) (hm : mean ≠ 0) :
    nBkgRaw n mean mean = (n : ℝ) ∧ round (nBkgRaw n mean mean) = (n : ℤ) := by
  have h : nBkgRaw n mean mean = (n : ℝ) := by
    simp only [nBkgRaw, TranscReal.ofN_def]
    field_simp
  exact ⟨h, by rw [h]; exact round_natCast n⟩

/-- **With a pre-selection never more than `n_bkg` events are drawn** (and at least none): the drawn number is `n_bkg` scaled by
the fraction of the expected background that survives the pre-selection. -/
theorem c07_n_bkg_preselection_bounds (n : ℕ) (meanSel mean : ℝ) (hm : 0 < mean) (h0 : 0 ≤ meanSel) (h1 : meanSel ≤ mean) :
    0 ≤ nBkgRaw n meanSel mean ∧ nBkgRaw n meanSel mean ≤ (n : ℝ) ∧
    0 ≤ round (nBkgRaw n meanSel mean) ∧ round (nBkgRaw n meanSel mean) ≤ (n : ℤ) := by
  have hn : (0 : ℝ) ≤ n := Nat.cast_nonneg n
  have hraw0 : 0 ≤ nBkgRaw n meanSel mean := by
    simp only [nBkgRaw, TranscReal.ofN_def]
    positivity
  have hraw1 : nBkgRaw n meanSel mean ≤ (n : ℝ) := by
    simp only [nBkgRaw, TranscReal.ofN_def]
    rw [div_le_iff₀ hm]
    nlinarith
  have hmono : ∀ x y : ℝ, x ≤ y → round x ≤ round y := by
    intro x y hxy
    rw [round_eq, round_eq]
    exact Int.floor_le_floor (by linarith)
  refine ⟨hraw0, hraw1, ?_, ?_⟩
  · have := hmono _ _ hraw0
    simpa using this
  · have := hmono _ _ hraw1
    simpa using this

example : nBkgRaw 99 (873 / 10 : ℝ) (873 / 10) = 99 := (c07_n_bkg_no_preselection 99 _ (by norm_num)).1


/-! ## Round 7: `scramble_data` with its `copy` flag, the signal-injection loop, composed trial calls with exception
semantics, and the tie of the `copy=` keyword / default RA range / assigned fields to the current source -/

namespace C07

theorem runH_append : ∀ (a b : List Op) (s : St), runH s (a ++ b) = runH (runH s a) b := by
  intro a
  induction a with
  | nil => intro b s; rfl
  | cons op a ih => intro b s; simp only [List.cons_append, runH]; exact ih b _

/-- exception semantics of a sequence of container operations = the plain run of a prefix of it -/
theorem runHE_take : ∀ (ops : List Op) (s : St), ∃ k, (runHE s ops).1 = runH s (ops.take k) := by
  intro ops
  induction ops with
  | nil => intro s; exact ⟨0, rfl⟩
  | cons op ops ih =>
    intro s
    rcases h : stepH s op with ⟨s', res⟩
    cases res with
    | ok o =>
      obtain ⟨k, hk⟩ := ih s'
      refine ⟨k + 1, ?_⟩
      simp only [runHE, h, List.take_succ_cons, runH]
      exact hk
    | error e =>
      refine ⟨1, ?_⟩
      simp [runHE, h, runH]

theorem rolesOK_mono {n0 n' : Nat} {r : Roles} (hr : RolesOK n0 r) (h : n0 ≤ n') : RolesOK n' r :=
  ⟨by have := hr.1; omega, by have := hr.2.1; omega, hr.2.2.1, hr.2.2.2⟩

theorem scrambleData_targets (n0 c : Nat) (copy : Bool) (scr : Option Scr) (vals : List Col) :
    ∀ op ∈ (scrambleData n0 c copy scr vals).1, ∀ x, target op = some x → (copy = true ∧ x = n0) ∨ (copy = false ∧ x = c) := by
  intro op hop x hx
  unfold scrambleData at hop
  cases copy with
  | true =>
    simp only [if_true, List.mem_append, List.mem_singleton] at hop
    rcases hop with h | h
    · subst h; simp [target] at hx
    · rw [mem_setItems h] at hx; exact Or.inl ⟨rfl, (Option.some.inj hx).symm⟩
  | false =>
    simp only [Bool.false_eq_true, if_false] at hop
    rw [mem_setItems hop] at hx; exact Or.inr ⟨rfl, (Option.some.inj hx).symm⟩

theorem injectPlan_targets (events sig : Option Nat) :
    ∀ op ∈ (injectPlan events sig).1, ∀ x, target op = some x → events = some x := by
  intro op hop x hx
  unfold injectPlan at hop
  cases sig with
  | none => cases hop
  | some s =>
    cases events with
    | none => cases hop
    | some b =>
      simp only [List.mem_singleton] at hop
      subst hop
      simp only [target, Option.some.injEq] at hx
      rw [hx]

theorem injectPlan_handle (events sig : Option Nat) (e : Nat) (h : (injectPlan events sig).2 = some e) :
    events = some e ∨ sig = some e := by
  unfold injectPlan at h
  cases sig with
  | none => exact Or.inl h
  | some s =>
    cases events with
    | none => exact Or.inr h
    | some b => exact Or.inl h

theorem handlesOK7_congr {r r' : Roles} (he : r'.exp = r.exp) (hm : r'.mc = r.mc) (gop : GOp7) (h : HandlesOK7 r gop) :
    HandlesOK7 r' gop := by
  cases gop with
  | base op => cases op <;> simp only [HandlesOK7, HandlesOK, he, hm] at h ⊢ <;> exact h
  | scramble c copy scr vals => simp only [HandlesOK7, he, hm] at h ⊢; exact h
  | fixedBkg copy scr vals => exact h
  | inject events sig => simp only [HandlesOK7, he, hm] at h ⊢; exact h
  | trialBkgSig b s cfg fields => simp only [HandlesOK7, he, hm] at h ⊢; exact h

end C07

/-- **No call of the round-7 model targets the stored data**: `scramble_data` with `copy=True` on any container (also a stored
one) or in place on a generated one, the fixed background generation provided its keyword is `copy=True`, the signal-injection
loop and the composed trial call on generated handles (each may be `None`). -/
theorem c07_compile7_targets (n0 : Nat) (r : Roles) (gop : GOp7) (hr : RolesOK n0 r) (hh : HandlesOK7 r gop) :
    (∀ op ∈ (compile7 n0 r gop).first ++ (compile7 n0 r gop).rest, target op ≠ some r.exp ∧ target op ≠ some r.mc) ∧
    (compile7 n0 r gop).roles.exp = r.exp ∧ (compile7 n0 r gop).roles.mc = r.mc ∧
    ∀ n', n0 ≤ n' → RolesOK n' (compile7 n0 r gop).roles := by
  have big : ∀ x, n0 ≤ x → x ≠ r.exp ∧ x ≠ r.mc := fun x hx => ⟨by have := hr.1; omega, by have := hr.2.1; omega⟩
  have wrap : ∀ (ops : List Op), (∀ op ∈ ops, ∀ x, target op = some x → x ≠ r.exp ∧ x ≠ r.mc) →
      ∀ op ∈ ops, target op ≠ some r.exp ∧ target op ≠ some r.mc :=
    fun ops hs op hop => ⟨fun h1 => (hs op hop _ h1).1 rfl, fun h1 => (hs op hop _ h1).2 rfl⟩
  cases gop with
  | base op => exact c07_compile_targets n0 r op hr hh
  | scramble c copy scr vals =>
    refine ⟨wrap _ ?_, rfl, rfl, fun n' hn => C07.rolesOK_mono hr hn⟩
    intro op hop x hx
    simp only [compile7, List.nil_append] at hop
    rcases C07.scrambleData_targets n0 c copy scr vals op hop x hx with ⟨_, rfl⟩ | ⟨hc, rfl⟩
    · exact big _ (le_refl _)
    · rcases hh with h | h
      · rw [h] at hc; cases hc
      · exact h
  | fixedBkg copy scr vals =>
    refine ⟨wrap _ ?_, rfl, rfl, fun n' hn => C07.rolesOK_mono hr hn⟩
    intro op hop x hx
    simp only [compile7, List.nil_append] at hop
    rcases C07.scrambleData_targets n0 r.exp copy (some scr) vals op hop x hx with ⟨_, rfl⟩ | ⟨hc, rfl⟩
    · exact big _ (le_refl _)
    · have : copy = true := hh
      rw [this] at hc; cases hc
  | inject events sig =>
    cases sig with
    | none => exact ⟨fun op hop => by simp [compile7] at hop, rfl, rfl, fun n' hn => C07.rolesOK_mono hr hn⟩
    | some cols =>
      refine ⟨wrap _ ?_, rfl, rfl, fun n' hn => C07.rolesOK_mono hr hn⟩
      intro op hop x hx
      simp only [compile7, List.append_nil, List.mem_append, List.mem_singleton] at hop
      rcases hop with h | h
      · subst h; simp [target] at hx
      · exact hh x (C07.injectPlan_targets events (some n0) op h x hx)
  | trialBkgSig b s cfg fields =>
    cases hm : (injectPlan b s).2 with
    | none =>
      have e1 : compile7 n0 r (.trialBkgSig b s cfg fields) = ⟨[], [], r, none, true⟩ := by simp only [compile7, hm]
      rw [e1]
      exact ⟨fun op hop => by simp at hop, rfl, rfl, fun n' hn => C07.rolesOK_mono hr hn⟩
    | some e =>
      have e1 : compile7 n0 r (.trialBkgSig b s cfg fields) =
          ⟨(injectPlan b s).1, (trialOps n0 e cfg).1 ++ setItems (trialOps n0 e cfg).2 fields,
           { r with events := some (trialOps n0 e cfg).2 }, some (trialOps n0 e cfg).2, false⟩ := by simp only [compile7, hm]
      rw [e1]
      have he : e ≠ r.exp ∧ e ≠ r.mc := by
        rcases C07.injectPlan_handle b s e hm with h | h
        · exact hh.1 e h
        · exact hh.2 e h
      have hev : (trialOps n0 e cfg).2 ≠ r.exp ∧ (trialOps n0 e cfg).2 ≠ r.mc := by
        rcases (trialOps_targets n0 e cfg).2 with h | h <;> rw [h]
        · exact he
        · exact big _ (le_refl _)
      refine ⟨wrap _ ?_, rfl, rfl, fun n' hn => ⟨by have := hr.1; show r.exp < n'; omega, by have := hr.2.1; show r.mc < n'; omega, hr.2.2.1, ?_⟩⟩
      · intro op hop x hx
        simp only [List.mem_append] at hop
        rcases hop with h | h | h
        · exact hh.1 x (C07.injectPlan_targets b s op h x hx)
        · rcases (trialOps_targets n0 e cfg).1 op h x hx with rfl | rfl
          · exact he
          · exact big _ (le_refl _)
        · rw [mem_setItems h] at hx; cases hx; exact hev
      · intro ev h
        simp only [Option.some.injEq] at h
        subst h
        exact hev

namespace C07

/-- container operations none of which targets a stored container: the simulation is kept and the stored tables stay -/
theorem ops_frame (g : G) (ts : List Table) (good : Good g.st ts) (hr : RolesOK g.st.conts.length g.roles) (ops : List Op)
    (h : ∀ op ∈ ops, target op ≠ some g.roles.exp ∧ target op ≠ some g.roles.mc) :
    Good (runH g.st ops) (runT ts ops) ∧ (runT ts ops)[g.roles.exp]? = ts[g.roles.exp]? ∧
    (runT ts ops)[g.roles.mc]? = ts[g.roles.mc]? ∧ g.st.conts.length ≤ (runH g.st ops).conts.length := by
  have good' := c16_refines good ops
  refine ⟨good', ?_, ?_, ?_⟩
  · exact frame_ops _ ts _ (by rw [← good.len]; exact hr.1) (fun op hop => (h op hop).1)
  · exact frame_ops _ ts _ (by rw [← good.len]; exact hr.2.1) (fun op hop => (h op hop).2)
  · rw [good'.len, good.len]; exact runT_length_le _ _

/-- one call of the round-7 model, whether it returns or raises (and wherever it raises) -/
theorem gstep7_frame (g : G) (ts : List Table) (good : Good g.st ts) (hr : RolesOK g.st.conts.length g.roles)
    (gop : GOp7) (hh : HandlesOK7 g.roles gop) :
    ∃ ts', Good (gstep7 g gop).1.st ts' ∧ ts'[g.roles.exp]? = ts[g.roles.exp]? ∧ ts'[g.roles.mc]? = ts[g.roles.mc]? ∧
      RolesOK (gstep7 g gop).1.st.conts.length (gstep7 g gop).1.roles ∧
      (gstep7 g gop).1.roles.exp = g.roles.exp ∧ (gstep7 g gop).1.roles.mc = g.roles.mc := by
  obtain ⟨h1, h2, h3, h4⟩ := c07_compile7_targets g.st.conts.length g.roles gop hr hh
  obtain ⟨k, hk⟩ := runHE_take (compile7 g.st.conts.length g.roles gop).first g.st
  have hpre : ∀ op ∈ (compile7 g.st.conts.length g.roles gop).first.take k,
      target op ≠ some g.roles.exp ∧ target op ≠ some g.roles.mc :=
    fun op hop => h1 op (List.mem_append_left _ (List.mem_of_mem_take hop))
  have hall : ∀ op ∈ (compile7 g.st.conts.length g.roles gop).first.take k ++ (compile7 g.st.conts.length g.roles gop).rest,
      target op ≠ some g.roles.exp ∧ target op ≠ some g.roles.mc := by
    intro op hop
    rcases List.mem_append.1 hop with h | h
    · exact hpre op h
    · exact h1 op (List.mem_append_right _ h)
  unfold gstep7
  simp only []
  split
  · exact ⟨ts, good, rfl, rfl, hr, rfl, rfl⟩
  · split
    · rename_i s hE
      have hs : s = runH g.st ((compile7 g.st.conts.length g.roles gop).first.take k) := by rw [← hk, hE]
      obtain ⟨a, b, c, d⟩ := ops_frame g ts good hr _ hpre
      subst hs
      exact ⟨_, a, b, c, rolesOK_mono hr d, rfl, rfl⟩
    · rename_i s hE
      have hs : s = runH g.st ((compile7 g.st.conts.length g.roles gop).first.take k) := by rw [← hk, hE]
      obtain ⟨a, b, c, d⟩ := ops_frame g ts good hr _ hall
      subst hs
      rw [← runH_append]
      exact ⟨_, a, b, c, h4 _ d, h2, h3⟩

end C07

/-- **Frame property, round-7 histories (exception semantics included).**  After any history of calls of the round-7 model —
everything of `c07_frame`, `DataScrambler.scramble_data` with either value of `copy`, the signal-injection loop with `None`
events / `None` signal, `do_trial_with_given_bkg_and_sig_pseudo_data` — in which a call may raise at any of the container
operations of its exception-semantics part (the rest of that call is then not executed, the caller goes on with the next
call), `data.exp` and `data.mc` read exactly as before. -/
theorem c07_frame7 (g : G) (ts : List Table) (good : Good g.st ts) (hr : RolesOK g.st.conts.length g.roles)
    (gops : List GOp7) (hh : ∀ gop ∈ gops, HandlesOK7 g.roles gop) :
    viewAt (grun7 g gops).st g.roles.exp = viewAt g.st g.roles.exp ∧
    viewAt (grun7 g gops).st g.roles.mc = viewAt g.st g.roles.mc ∧
    (grun7 g gops).roles.exp = g.roles.exp ∧ (grun7 g gops).roles.mc = g.roles.mc ∧
    C16.Inv (grun7 g gops).st := by
  induction gops generalizing g ts with
  | nil => exact ⟨rfl, rfl, rfl, rfl, ts, good⟩
  | cons gop gops ih =>
    obtain ⟨ts', good', he, hm, hr', re, rm⟩ := C07.gstep7_frame g ts good hr gop (hh gop List.mem_cons_self)
    have hh' : ∀ gop' ∈ gops, HandlesOK7 (gstep7 g gop).1.roles gop' :=
      fun gop' hg => C07.handlesOK7_congr re rm gop' (hh gop' (List.mem_cons_of_mem _ hg))
    obtain ⟨i1, i2, i3, i4, i5⟩ := ih (gstep7 g gop).1 ts' good' hr' hh'
    simp only [grun7]
    refine ⟨?_, ?_, by rw [i3, re], by rw [i4, rm], i5⟩
    · rw [← re, i1, re, view_eq good', view_eq good]; unfold getT; rw [he]
    · rw [← rm, i2, rm, view_eq good', view_eq good]; unfold getT; rw [hm]

/-- **The handle a round-7 call returns is a generated container** (or `None`), never a stored one. -/
theorem c07_returned_handle7_generated (n0 : Nat) (r : Roles) (gop : GOp7) (hr : RolesOK n0 r) (hh : HandlesOK7 r gop) :
    ∀ h, (compile7 n0 r gop).handle = some h → h ≠ r.exp ∧ h ≠ r.mc := by
  have big : ∀ x, n0 ≤ x → x ≠ r.exp ∧ x ≠ r.mc := fun x hx => ⟨by have := hr.1; omega, by have := hr.2.1; omega⟩
  intro h hh'
  cases gop with
  | base op => exact c07_returned_handle_generated n0 r op hr hh h hh'
  | scramble c copy scr vals =>
    simp only [compile7, scrambleData, Option.some.injEq] at hh'
    cases copy with
    | true => simp only [if_true] at hh'; subst hh'; exact big _ (le_refl _)
    | false =>
      simp only [Bool.false_eq_true, if_false] at hh'; subst hh'
      rcases hh with h1 | h1
      · cases h1
      · exact h1
  | fixedBkg copy scr vals =>
    have hc : copy = true := hh
    subst hc
    simp only [compile7, scrambleData, if_true, Option.some.injEq] at hh'
    subst hh'; exact big _ (le_refl _)
  | inject events sig =>
    cases sig with
    | none => simp only [compile7] at hh'; exact hh h hh'
    | some cols =>
      simp only [compile7] at hh'
      rcases C07.injectPlan_handle events (some n0) h hh' with h1 | h1
      · exact hh h h1
      · cases h1; exact big _ (le_refl _)
  | trialBkgSig b s cfg fields =>
    cases hm : (injectPlan b s).2 with
    | none => simp [compile7, hm] at hh'
    | some e =>
      simp only [compile7, hm, Option.some.injEq] at hh'
      subst hh'
      have he : e ≠ r.exp ∧ e ≠ r.mc := by
        rcases C07.injectPlan_handle b s e hm with h1 | h1
        · exact hh.1 e h1
        · exact hh.2 e h1
      rcases (trialOps_targets n0 e cfg).2 with h1 | h1 <;> rw [h1]
      · exact he
      · exact big _ (le_refl _)

namespace C07

/-- the handle `gstep7` gives back is `None` or the handle of the plan -/
theorem gstep7_handle (g : G) (gop : GOp7) (h : Nat) (hh : (gstep7 g gop).2.1 = some h) :
    (compile7 g.st.conts.length g.roles gop).handle = some h := by
  unfold gstep7 at hh
  simp only [] at hh
  split at hh
  · cases hh
  · split at hh
    · cases hh
    · exact hh

/-- the frame facts of one call, in the form used for composing calls -/
theorem gstep7_frame' (g : G) (ts : List Table) (good : Good g.st ts) (hr : RolesOK g.st.conts.length g.roles)
    (gop : GOp7) (hh : HandlesOK7 g.roles gop) :
    (∃ ts', Good (gstep7 g gop).1.st ts') ∧ RolesOK (gstep7 g gop).1.st.conts.length (gstep7 g gop).1.roles ∧
    viewAt (gstep7 g gop).1.st g.roles.exp = viewAt g.st g.roles.exp ∧ viewAt (gstep7 g gop).1.st g.roles.mc = viewAt g.st g.roles.mc ∧
    (gstep7 g gop).1.roles.exp = g.roles.exp ∧ (gstep7 g gop).1.roles.mc = g.roles.mc ∧
    (∀ h, (gstep7 g gop).2.1 = some h → h ≠ g.roles.exp ∧ h ≠ g.roles.mc) := by
  obtain ⟨ts', good', he, hm, hr', re, rm⟩ := gstep7_frame g ts good hr gop hh
  refine ⟨⟨ts', good'⟩, hr', ?_, ?_, re, rm, ?_⟩
  · rw [view_eq good', view_eq good]; unfold getT; rw [he]
  · rw [view_eq good', view_eq good]; unfold getT; rw [hm]
  · intro h hh'
    exact c07_returned_handle7_generated _ _ gop hr hh h (gstep7_handle g gop h hh')

/-- background generation calls: the fixed method provided it copies, the MC sampling methods -/
def IsBkgGen : GOp7 → Prop
  | .fixedBkg copy _ _ => copy = true
  | .base (.genFixed _ _) => True
  | .base (.genMC _ _ _ _ _ _) => True
  | .base (.genComposite _ _ _ _ _ _ _) => True
  | _ => False

theorem isBkgGen_handlesOK (r : Roles) (gop : GOp7) (h : IsBkgGen gop) : HandlesOK7 r gop := by
  cases gop with
  | base op => cases op <;> first | exact h.elim | exact trivial
  | fixedBkg copy scr vals => exact h
  | scramble _ _ _ _ => exact h.elim
  | inject _ _ => exact h.elim
  | trialBkgSig _ _ _ _ => exact h.elim

end C07

/-- **`Analysis.do_trial` end to end** (background of any generation method, signal injected into it or not, trial initialised
and evaluated; an exception may end the call after any stage): the stored data read as before, the roles of the stored
containers stay, the store invariant holds — so the next `do_trial` starts from the same premises. -/
theorem c07_do_trial_frame (g : G) (ts : List Table) (good : Good g.st ts) (hr : RolesOK g.st.conts.length g.roles)
    (bkg : GOp7) (hb : C07.IsBkgGen bkg) (sig : Option (List (Name × Col))) (cfg : TrialCfg) (fields : List (Name × Col)) :
    viewAt (doTrial g bkg sig cfg fields).1.st g.roles.exp = viewAt g.st g.roles.exp ∧
    viewAt (doTrial g bkg sig cfg fields).1.st g.roles.mc = viewAt g.st g.roles.mc ∧
    (doTrial g bkg sig cfg fields).1.roles.exp = g.roles.exp ∧ (doTrial g bkg sig cfg fields).1.roles.mc = g.roles.mc ∧
    RolesOK (doTrial g bkg sig cfg fields).1.st.conts.length (doTrial g bkg sig cfg fields).1.roles ∧
    C16.Inv (doTrial g bkg sig cfg fields).1.st := by
  obtain ⟨⟨ts1, good1⟩, hr1, e1, m1, re1, rm1, hd1⟩ := C07.gstep7_frame' g ts good hr bkg (C07.isBkgGen_handlesOK _ _ hb)
  have hh2 : HandlesOK7 (gstep7 g bkg).1.roles (.inject (gstep7 g bkg).2.1 sig) := by
    intro b hb'
    rw [re1, rm1]
    exact hd1 b hb'
  obtain ⟨⟨ts2, good2⟩, hr2, e2, m2, re2, rm2, hd2⟩ := C07.gstep7_frame' _ ts1 good1 hr1 _ hh2
  have hh3 : HandlesOK7 (gstep7 (gstep7 g bkg).1 (.inject (gstep7 g bkg).2.1 sig)).1.roles
      (.trialBkgSig (gstep7 (gstep7 g bkg).1 (.inject (gstep7 g bkg).2.1 sig)).2.1 none cfg fields) := by
    refine ⟨?_, fun x hx => by cases hx⟩
    intro b hb'
    rw [re2, rm2]
    exact hd2 b hb'
  obtain ⟨⟨ts3, good3⟩, hr3, e3, m3, re3, rm3, _⟩ := C07.gstep7_frame' _ ts2 good2 hr2 _ hh3
  unfold doTrial
  simp only []
  split
  · exact ⟨e1, m1, re1, rm1, hr1, ts1, good1⟩
  · split
    · exact ⟨by rw [← re1, e2, re1, e1], by rw [← rm1, m2, rm1, m1], by rw [re2, re1], by rw [rm2, rm1], hr2, ts2, good2⟩
    · refine ⟨?_, ?_, by rw [re3, re2, re1], by rw [rm3, rm2, rm1], hr3, ts3, good3⟩
      · rw [← re1, ← re2, e3, re2, e2, re1, e1]
      · rw [← rm1, ← rm2, m3, rm2, m2, rm1, m1]

namespace C07

/-- the arguments of one `Analysis.do_trial` call (the random draws are inputs) -/
structure TrialArgs where
  bkg : GOp7
  sig : Option (List (Name × Col))
  cfg : TrialCfg
  fields : List (Name × Col)

/-- any number of trials, one after the other (a trial that raises is caught by the caller, the next one follows) -/
def doTrials (g : G) : List TrialArgs → G
  | [] => g
  | a :: r => doTrials (doTrial g a.bkg a.sig a.cfg a.fields).1 r

end C07

/-- **Any number of trials.**  After any number of `do_trial` calls (each with any background generation method, any signal,
any trial configuration, returning or raising) the stored data read as before and the premises hold again. -/
theorem c07_do_trials_frame (trials : List C07.TrialArgs) (hb : ∀ a ∈ trials, C07.IsBkgGen a.bkg) :
    ∀ (g : G) (ts : List Table), Good g.st ts → RolesOK g.st.conts.length g.roles →
    viewAt (C07.doTrials g trials).st g.roles.exp = viewAt g.st g.roles.exp ∧
    viewAt (C07.doTrials g trials).st g.roles.mc = viewAt g.st g.roles.mc ∧
    (C07.doTrials g trials).roles.exp = g.roles.exp ∧ (C07.doTrials g trials).roles.mc = g.roles.mc ∧
    RolesOK (C07.doTrials g trials).st.conts.length (C07.doTrials g trials).roles ∧ C16.Inv (C07.doTrials g trials).st := by
  induction trials with
  | nil => intro g ts good hr; exact ⟨rfl, rfl, rfl, rfl, hr, ts, good⟩
  | cons a r ih =>
    intro g ts good hr
    obtain ⟨e1, m1, re1, rm1, hr1, ts1, good1⟩ :=
      c07_do_trial_frame g ts good hr a.bkg (hb a List.mem_cons_self) a.sig a.cfg a.fields
    obtain ⟨e2, m2, re2, rm2, hr2, inv2⟩ := ih (fun b hb' => hb b (List.mem_cons_of_mem _ hb')) _ ts1 good1 hr1
    simp only [C07.doTrials]
    exact ⟨by rw [← re1, e2, re1, e1], by rw [← rm1, m2, rm1, m1], by rw [re2, re1], by rw [rm2, rm1], hr2, inv2⟩

/-- **Unblinding after any number of trials sees the original data** (the sentence of the property text): the container
`unblind` evaluates reads exactly like the experimental data as they were before the first trial. -/
theorem c07_unblind_after_trials (g : G) (ts : List Table) (good : Good g.st ts) (hr : RolesOK g.st.conts.length g.roles)
    (trials : List C07.TrialArgs) (hb : ∀ a ∈ trials, C07.IsBkgGen a.bkg) (t : Table) (h0 : viewAt g.st g.roles.exp = .ok t)
    (hne : t.cols ≠ []) :
    viewAt (gstep (C07.doTrials g trials) (.unblind ⟨[], none, none, []⟩)).1.st (C07.doTrials g trials).st.conts.length = .ok t := by
  obtain ⟨e, _, re, _, hr', ts', good'⟩ := c07_do_trials_frame trials hb g ts good hr
  have h0' : viewAt (C07.doTrials g trials).st (C07.doTrials g trials).roles.exp = .ok t := by rw [re, e]; exact h0
  exact c07_unblind_sees_original (C07.doTrials g trials) ts' good' hr' [] (fun _ h => by cases h) t h0' hne

/-- non-vacuity of the hypothesis of `c07_do_trials_frame`: a trial with the fixed method as coded, then one with MC sampling -/
example : ∀ a ∈ ([⟨.fixedBkg Gen.C07.fixedBkgCopy .uniformRA [⟨.f32, [1, 2, 3]⟩], none, C07.demoCfgAdopt, []⟩,
    ⟨.base (.genMC [3, 0] none [0, 1] none [] [3, 0]), some [(3, ⟨.i16, [9]⟩), (0, ⟨.f32, [7]⟩)], C07.demoCfgAdopt, []⟩] : List C07.TrialArgs),
    C07.IsBkgGen a.bkg := by
  intro a ha
  simp only [List.mem_cons, List.not_mem_nil, or_false] at ha
  rcases ha with rfl | rfl
  · rfl
  · trivial

/-- non-vacuity: a trial with the fixed method (keyword of the source), two signal events, an index field -/
example : (doTrial C07.demoG (.fixedBkg Gen.C07.fixedBkgCopy .uniformRA [⟨.f32, [1, 2, 3]⟩])
    (some [(3, ⟨.i16, [9, 0]⟩), (0, ⟨.f32, [7, 8]⟩)]) C07.demoCfgAdopt []).2 = true := by decide

/-- **Contract of `DataScrambler.scramble_data` for either value of `copy`**, on any container `c` (stored or generated) with
any scrambling method (or none): the returned container has the number of events of `c`, and every field outside the
documented fields of the method is the column of `c` (dtype and values); with `copy=True` the container `c` itself reads as
before.  (With `copy=False` the returned container *is* `c`: its documented fields are overwritten.) -/
theorem c07_scramble_data_contract (ts : List Table) (c : Nat) (t : Table) (copy : Bool) (scr : Option Scr) (vals : List Col)
    (h : ts[c]? = some t) (hne : t.cols ≠ []) :
    ∃ t', (runT ts (scrambleData ts.length c copy scr vals).1)[(scrambleData ts.length c copy scr vals).2]? = some t' ∧
      t'.len = t.len ∧
      (∀ n, (∀ m, scr = some m → n ∉ documented m) → t'.cols.lookup n = t.cols.lookup n) ∧
      (copy = true → (runT ts (scrambleData ts.length c copy scr vals).1)[c]? = some t) ∧
      (copy = false → (scrambleData ts.length c copy scr vals).2 = c) := by
  have hdoc : ∀ n, (∀ m, scr = some m → n ∉ documented m) → n ∉ (scrSets scr vals).map (·.1) := by
    intro n hn hmem
    cases scr with
    | none => simp [scrSets] at hmem
    | some m => exact hn m rfl (c07_scrSets_documented m vals n hmem)
  have hc : c < ts.length := by
    rcases Nat.lt_or_ge c ts.length with h1 | h1
    · exact h1
    · rw [List.getElem?_eq_none h1] at h; cases h
  cases copy with
  | true =>
    have e : scrambleData ts.length c true scr vals = ([.copy c none] ++ setItems ts.length (scrSets scr vals), ts.length) := rfl
    rw [e]
    obtain ⟨t', h1, h2, h3⟩ := c07_scramble_only_documented_fields ts c t (scrSets scr vals) h hne
    refine ⟨t', h1, h2, fun n hn => h3 n (hdoc n hn), fun _ => ?_, (fun hf => by cases hf)⟩
    rw [C07.frame_ops _ ts c hc, h]
    intro op hop
    simp only [List.mem_append, List.mem_singleton] at hop
    rcases hop with h4 | h4
    · subst h4; simp [target]
    · rw [mem_setItems h4]; intro h5; have := Option.some.inj h5; omega
  | false =>
    have e : scrambleData ts.length c false scr vals = (setItems c (scrSets scr vals), c) := rfl
    rw [e]
    obtain ⟨t2, h2, l2, k2⟩ := C07.setItems_run (scrSets scr vals) ts c t h
    exact ⟨t2, h2, l2, fun n hn => k2 n (hdoc n hn), (fun hf => by cases hf), fun _ => rfl⟩

/-- non-vacuity: in-place time scrambling of a generated container keeps its `run` field (3) -/
example : ∃ t', (runT [⟨3, C07.demoExp⟩] (scrambleData 1 0 false (some .uniformRA) [⟨.f32, [1, 2, 3]⟩]).1)[0]? = some t' ∧
    t'.cols.lookup 3 = some ⟨.i16, [3, 1, 2]⟩ ∧ t'.cols.lookup 0 = some ⟨.f32, [1, 2, 3]⟩ := ⟨_, rfl, by decide, by decide⟩

/-- the `copy=` keyword of the fixed background generation method in the current source is `True` … -/
theorem c07_fixed_bkg_copy_for_current_source : Gen.C07.fixedBkgCopy = true := rfl

/-- … hence the method as coded is the `genFixed` of the model, and it meets the hypothesis of `c07_frame7` -/
theorem c07_fixed_bkg_for_current_source (n0 : Nat) (r : Roles) (scr : Scr) (vals : List Col) :
    (compile7 n0 r (.fixedBkg Gen.C07.fixedBkgCopy scr vals)).rest = (compile n0 r (.genFixed scr vals)).1 ∧
    (compile7 n0 r (.fixedBkg Gen.C07.fixedBkgCopy scr vals)).first = [] ∧
    HandlesOK7 r (.fixedBkg Gen.C07.fixedBkgCopy scr vals) :=
  ⟨rfl, rfl, rfl⟩

/-- the statement for a fixed background generation method that passes `copy=False` -/
def c07_fixed_bkg_no_copy_statement : Prop :=
  ∀ (g : G) (scr : Scr) (vals : List Col), viewAt (gstep7 g (.fixedBkg false scr vals)).1.st g.roles.exp = viewAt g.st g.roles.exp

/-- **the copy is necessary**: with `copy=False` the scrambled right ascension is assigned into the stored experimental data -/
theorem c07_fixed_bkg_no_copy_counterexample : ¬ c07_fixed_bkg_no_copy_statement := by
  intro h
  have := h C07.demoG .uniformRA [⟨.f32, [1, 2, 3]⟩]
  revert this
  decide

/-- non-vacuity: a history with `scramble_data(copy=True)` on the stored data, in-place scrambling of the result, an injection
into `None` events, a merge that raises (the signal lacks field 3 of the events) and a trial on `None` background -/
example : HandlesOK7 C07.demoG.roles (.scramble 0 true (some .uniformRA) [⟨.f32, [1, 2, 3]⟩]) := Or.inl rfl
example :
    let h := [GOp7.scramble 0 true (some .uniformRA) [⟨.f32, [1, 2, 3]⟩], .scramble 2 false (some .uniformRA) [⟨.f32, [4, 5, 6]⟩],
              .inject none (some [(0, ⟨.f32, [7]⟩)]), .trialBkgSig (some 2) (some 3) C07.demoCfg [], .trialBkgSig none (some 3) C07.demoCfgAdopt []]
    viewAt (grun7 C07.demoG h).st 0 = viewAt C07.demoG.st 0 ∧ (grun7 C07.demoG h).roles.events = some 3 ∧
    (gstep7 (grun7 C07.demoG (h.take 3)) (.trialBkgSig (some 2) (some 3) C07.demoCfg [])).2.2 = false := by decide

/-- the fields every scrambling method assigns in the current source are documented fields of the model -/
theorem c07_documented_for_current_source :
    (∀ n ∈ Gen.C07.assigned_uniformRA, n ∈ documented .uniformRA) ∧ (∀ n ∈ Gen.C07.assigned_i3time, n ∈ documented .i3time) ∧
    (∀ n ∈ Gen.C07.assigned_seasonal, n ∈ documented .seasonal) ∧ (∀ n ∈ Gen.C07.assigned_time, n ∈ documented .time) := by
  decide

/-- the default range of `UniformRAScramblingMethod` in the current source lies inside `[0, 2π]`, is not empty, and a uniform
draw from it is a right ascension in `[0, 2π)` -/
theorem c07_default_ra_range_for_current_source (u : ℝ) (hu0 : 0 ≤ u) (hu1 : u < 1) :
    let rg := raRangeOf ((Gen.C07.defaultRaLo : ℝ), (Gen.C07.defaultRaHi : ℝ)) none
    0 ≤ uniformRA rg.1 rg.2 u ∧ uniformRA rg.1 rg.2 u < 2 * Real.pi := by
  have hpi : (6.283185307179586 : ℝ) < 2 * Real.pi := by
    have := Real.pi_gt_d20
    norm_num at this ⊢
    linarith
  simp only [raRangeOf, Gen.C07.defaultRaLo, Gen.C07.defaultRaHi, uniformRA]
  constructor
  · norm_num; nlinarith
  · norm_num; nlinarith
