/-
  Property C06 — a trial's result never depends on earlier trials or evaluations
  (all internal caches are observationally invisible).

  Theorems are about Model/Cache.lean: the cached evaluator `evalC` (real cache fields: trial-data
  state id, Linear/Parabola interpolation cache, per-grid-point `MultiDimGridPDF._cache_pd` with
  per-source NaN blocks, background `_cache_pd`, `_cache_nsgrad_i`) against the stateless
  `evalPure`, for every history over {initTrial, changeSource, evaluate, grad2}, every world of
  leaf functions, every scalar type.  The two hypotheses the proof forces are
    (a) every `initialize_trial` advances the state id,      (b) the hit test is key equality;
  `c06_sound_for_current_source` discharges them for the flags read from the current source.
-/
import SkyllhModel.Model.Cache
import SkyllhModel.Proofs.Cache
import SkyllhModel.Model.CacheTop
import SkyllhModel.Proofs.CacheTop
import SkyllhModel.Model.CacheI3R7
import SkyllhModel.Proofs.CacheI3R7
import SkyllhModel.Generated.C06
import Mathlib.Tactic

open Cache C06 CacheTop

set_option linter.unusedSectionVars false

namespace C06

/-- hypotheses (a) and (b) -/
def Sound {F : Type} (v : Variant) (cfg : Cfg) (hit : F → F → Bool) : Prop :=
  0 < bumpInit v cfg ∧ ∀ a b, hit a b = true → a = b

end C06

section main
variable {D S F : Type} [DecidableEq F] [Add F] [Sub F] [Mul F] [Div F] [LT F] [DecidableLT F]
  [OfScientific F]

/-- **invariant** ("cache content = pure function of the current data at the cached key") is kept by
every operation. -/
theorem c06_cache_valid_inv (W : World D S F) (v : Variant) (hit : F → F → Bool) (cfg : Cfg)
    (hs : Sound v cfg hit) (st : St D S F) (op : Op D S F) (h : Inv W cfg.parabola st) :
    Inv W cfg.parabola (step W v hit cfg st op).1 := by
  cases op with
  | initTrial d =>
    refine inv_of_lt W _ st _ h rfl rfl rfl ?_
    have := hs.1
    simp only [step, initTrial]
    omega
  | changeSource s =>
    refine inv_of_lt W _ st _ h rfl rfl rfl ?_
    have := hs.1
    simp only [step, changeSource, initTrial]
    omega
  | evaluate q =>
    simp only [step, evalE]
    split
    · exact (evalC_spec W hit hs.2 cfg st q h).2.1
    · exact ⟨h.interp_le, h.interp_ok, h.pdc_ok, h.bkg_ok⟩
  | grad2 => exact h

/-- the invariant holds after every history that starts from a freshly built object graph -/
theorem c06_cache_valid_inv_run (W : World D S F) (v : Variant) (hit : F → F → Bool) (cfg : Cfg)
    (hs : Sound v cfg hit) (ops : List (Op D S F)) (st : St D S F) (h : Inv W cfg.parabola st) :
    Inv W cfg.parabola (runSt W v hit cfg st ops) := by
  induction ops generalizing st with
  | nil => exact h
  | cons op ops ih => exact ih _ (c06_cache_valid_inv W v hit cfg hs st op h)

/-- the trial data / source hypothesis the objects hold are those of the last initTrial /
changeSource of the history -/
theorem c06_current_data_src (W : World D S F) (v : Variant) (hit : F → F → Bool) (cfg : Cfg)
    (ops : List (Op D S F)) (st : St D S F) :
    (runSt W v hit cfg st ops).data = lastData st.data ops ∧
    (runSt W v hit cfg st ops).src = lastSrc st.src ops := by
  induction ops generalizing st with
  | nil => exact ⟨rfl, rfl⟩
  | cons op ops ih =>
    have := ih (step W v hit cfg st op).1
    cases op with
    | evaluate q =>
      have hd : (step W v hit cfg st (.evaluate q)).1.data = st.data ∧
          (step W v hit cfg st (.evaluate q)).1.src = st.src := by
        simp only [step, evalE]; split <;> exact ⟨rfl, rfl⟩
      rw [hd.1, hd.2] at this; exact this
    | _ => exact this

/-- **transparency**: after any history, an evaluation returns exactly what the stateless evaluator
returns for the current data, source and query — which is also what a freshly built object graph
returns. -/
theorem c06_transparent (W : World D S F) (v : Variant) (hit : F → F → Bool) (cfg : Cfg)
    (hs : Sound v cfg hit) (d0 : D) (s0 : S) (ops : List (Op D S F)) (q : Query F) :
    let o := (evalC W hit cfg (runSt W v hit cfg (fresh d0 s0) ops) q).2
    let f := (evalC W hit cfg (fresh (lastData d0 ops) (lastSrc s0 ops)) q).2
    (o.ratio, o.grad) = evalPure W cfg.parabola (lastData d0 ops) (lastSrc s0 ops) q ∧
    (o.ratio, o.grad) = (f.ratio, f.grad) := by
  intro o f
  have hinv := c06_cache_valid_inv_run W v hit cfg hs ops _ (inv_fresh W cfg.parabola d0 s0)
  have hds := c06_current_data_src W v hit cfg ops (fresh d0 s0 : St D S F)
  have h1 := (evalC_spec W hit hs.2 cfg _ q hinv).1
  have h2 := (evalC_spec W hit hs.2 cfg _ q
    (inv_fresh W cfg.parabola (lastData d0 ops) (lastSrc s0 ops))).1
  rw [hds.1, hds.2] at h1
  exact ⟨h1, h1.trans h2.symm⟩

/-- two arbitrary histories that end on the same data and source give the same answer -/
theorem c06_history_independent (W : World D S F) (v : Variant) (hit : F → F → Bool) (cfg : Cfg)
    (hs : Sound v cfg hit) (d0 d0' : D) (s0 s0' : S) (ops ops' : List (Op D S F)) (q : Query F)
    (hd : lastData d0 ops = lastData d0' ops') (hsrc : lastSrc s0 ops = lastSrc s0' ops') :
    let o := (evalC W hit cfg (runSt W v hit cfg (fresh d0 s0) ops) q).2
    let o' := (evalC W hit cfg (runSt W v hit cfg (fresh d0' s0') ops') q).2
    (o.ratio, o.grad) = (o'.ratio, o'.grad) := by
  intro o o'
  have a := (c06_transparent W v hit cfg hs d0 s0 ops q).1
  have b := (c06_transparent W v hit cfg hs d0' s0' ops' q).1
  rw [hd, hsrc] at a
  exact a.trans b.symm

/-- switching `cache_pd_values` on or off — independently for the signal grid PDFs and the background PDF —
is invisible -/
theorem c06_pd_caching_invisible (W : World D S F) (v : Variant) (hit : F → F → Bool) (cfg : Cfg)
    (hs : Sound v cfg hit) (d0 : D) (s0 : S) (ops : List (Op D S F)) (q : Query F) (b b' : Bool) :
    let cfg' : Cfg := { cfg with cachePd := b, cacheBkg := b' }
    let o := (evalC W hit cfg (runSt W v hit cfg (fresh d0 s0) ops) q).2
    let o' := (evalC W hit cfg' (runSt W v hit cfg' (fresh d0 s0) ops) q).2
    (o.ratio, o.grad) = (o'.ratio, o'.grad) := by
  intro cfg' o o'
  have hs' : Sound v cfg' hit := hs
  have a := (c06_transparent W v hit cfg hs d0 s0 ops q).1
  have b := (c06_transparent W v hit cfg' hs' d0 s0 ops q).1
  exact a.trans b.symm

/-- a hit of the interpolation cache means: same state id and the cached grid key *is* the
requested one (needs (b) only) -/
theorem c06_hit_implies_same_key (W : World D S F) (hit : F → F → Bool)
    (hx : ∀ a b, hit a b = true → a = b) (cfg : Cfg) (st : St D S F) (q : Query F)
    (hh : (evalC W hit cfg st q).2.interpHit = true) :
    ∃ ic, st.interp = some ic ∧ ic.sid = st.sid ∧ ic.keys = q.key := by
  simp only [evalC, interpCall] at hh
  cases hI : st.interp with
  | none => rw [hI] at hh; simp at hh
  | some ic =>
    rw [hI] at hh
    simp only at hh
    split at hh
    · rename_i hc
      exact ⟨ic, rfl, hc.1, all2_eq hit hx _ _ hc.2⟩
    · simp at hh

/-- the caches are not vacuous: repeating an evaluation hits the interpolation cache and evaluates
no signal PDF again -/
theorem c06_second_evaluate_hits (W : World D S F) (hit : F → F → Bool) (hr : ∀ a, hit a a = true)
    (cfg : Cfg) (st : St D S F) (q : Query F) :
    let st1 := (evalC W hit cfg st q).1
    (evalC W hit cfg st1 q).2.interpHit = true ∧ (evalC W hit cfg st1 q).2.pdMiss = 0 := by
  intro st1
  have key : ∃ ic, st1.interp = some ic ∧ ic.sid = st1.sid ∧ all2 hit ic.keys q.key = true := by
    simp only [st1, evalC, interpCall]
    cases hI : st.interp with
    | none =>
      simp only [interpMiss]
      split <;> exact ⟨_, rfl, rfl, all2_refl hit hr _⟩
    | some ic =>
      simp only
      split
      · rename_i hc
        exact ⟨ic, rfl, hc.1, hc.2⟩
      · simp only [interpMiss]
        split <;> exact ⟨_, rfl, rfl, all2_refl hit hr _⟩
  obtain ⟨ic, h1, h2, h3⟩ := key
  simp only [evalC, interpCall, h1, h2, h3, and_self, if_true]

/-- **cached PDF values are constants of a trial**: a block of PDF values that sits in a pd cache
(signal grid PDF or background PDF) under the current state id is still there, unchanged, after any
number of further evaluations and second-derivative queries — for *every* state, no invariant and no
hypothesis on the hit test needed.  (Seeded change m3d computed a slope in place in such an array;
the byte snapshots around every evaluate are the implementation-side form of this theorem.) -/
theorem c06_cached_pd_values_immutable (W : World D S F) (v : Variant) (hit : F → F → Bool)
    (cfg : Cfg) (ops : List (Op D S F)) (hq : ∀ op ∈ ops, (∃ q, op = .evaluate q) ∨ op = .grad2)
    (st : St D S F) :
    let st' := runSt W v hit cfg st ops
    st'.sid = st.sid ∧ (∀ g, PdKeeps st.sid (st.pdc g) (st'.pdc g)) ∧ PdKeeps st.sid st.bkgc st'.bkgc := by
  induction ops generalizing st with
  | nil => exact ⟨rfl, fun g => pdKeeps_refl _ _, pdKeeps_refl _ _⟩
  | cons op ops ih =>
    have hrest : ∀ op' ∈ ops, (∃ q, op' = .evaluate q) ∨ op' = .grad2 :=
      fun op' h => hq op' (List.mem_cons_of_mem _ h)
    have hstep : (step W v hit cfg st op).1.sid = st.sid ∧
        (∀ g, PdKeeps st.sid (st.pdc g) ((step W v hit cfg st op).1.pdc g)) ∧
        PdKeeps st.sid st.bkgc (step W v hit cfg st op).1.bkgc := by
      rcases hq op (List.mem_cons_self ..) with ⟨q, rfl⟩ | rfl
      · simp only [step, evalE]
        split
        · obtain ⟨h1, h2, h3⟩ := evalC_keeps W hit cfg st q
          exact ⟨h3, h1, h2⟩
        · exact ⟨rfl, fun g => pdKeeps_refl _ _, pdKeeps_refl _ _⟩
      · exact ⟨rfl, fun g => pdKeeps_refl _ _, pdKeeps_refl _ _⟩
    obtain ⟨i1, i2, i3⟩ := ih hrest (step W v hit cfg st op).1
    obtain ⟨s1, s2, s3⟩ := hstep
    rw [s1] at i1 i2 i3
    exact ⟨i1, fun g => pdKeeps_trans (s2 g) (i2 g), pdKeeps_trans s3 i3⟩

/-! ### data sets of different size: nothing is truncated -/

/-- all arrays of one trial have that trial's number of events, and (no event selection method) every
source is paired with every event -/
def C06.WellFormed (W : World D S F) : Prop :=
  (∀ d s k g, (W.man d s k g).length = (W.bkg d s).length) ∧
  (∀ d s k, W.sel d s k = List.range (W.bkg d s).length)

/-- **sizes**: after any history (through trials of any sizes) an evaluation returns one block per
source and every block has the number of events of the *current* trial — the `zipWith`s of the
model never truncate, i.e. the model does not silently paper over a stale array of another size. -/
theorem c06_no_truncation (W : World D S F) (v : Variant) (hit : F → F → Bool) (cfg : Cfg)
    (hs : Sound v cfg hit) (hw : C06.WellFormed W) (d0 : D) (s0 : S) (ops : List (Op D S F))
    (q : Query F) (hq : q.x.length = q.key.length) :
    let o := (evalC W hit cfg (runSt W v hit cfg (fresh d0 s0) ops) q).2
    let n := (W.bkg (lastData d0 ops) (lastSrc s0 ops)).length
    o.ratio.length = q.key.length ∧ o.grad.length = q.key.length ∧
    (∀ b ∈ o.ratio, b.length = n) ∧ (∀ b ∈ o.grad, b.length = n) := by
  intro o n
  have ht := (c06_transparent W v hit cfg hs d0 s0 ops q).1
  have hsh := evalPure_shape W cfg.parabola (lastData d0 ops) (lastSrc s0 ops) q
    (fun k g => hw.1 _ _ k g) (fun k => hw.2 _ _ k) hq
  have h1 : o.ratio = (evalPure W cfg.parabola (lastData d0 ops) (lastSrc s0 ops) q).1 :=
    congrArg Prod.fst ht
  have h2 : o.grad = (evalPure W cfg.parabola (lastData d0 ops) (lastSrc s0 ops) q).2 :=
    congrArg Prod.snd ht
  rw [h1, h2]
  exact hsh

/-! ### every evaluate of a history, including failing ones -/

/-- **trace theorem**: along any history every evaluate (not only a final one) answers with the
stateless evaluator on the data / source of the last initTrial / changeSource before it, and raises
exactly when the stateless evaluator raises (point outside the grid).  A deterministic client that
chooses its next query from the answers so far (a minimiser) therefore sees the same sequence on a
used and on a fresh object graph. -/
theorem c06_trace (W : World D S F) (v : Variant) (hit : F → F → Bool) (cfg : Cfg)
    (hs : Sound v cfg hit) (ops : List (Op D S F)) (st : St D S F) (h : Inv W cfg.parabola st) :
    (run W v hit cfg st ops).2.map Res.vals = pureTrace W cfg.parabola st.data st.src ops := by
  induction ops generalizing st with
  | nil => rfl
  | cons op ops ih =>
    have hinv := c06_cache_valid_inv W v hit cfg hs st op h
    have := ih _ hinv
    cases op with
    | initTrial d => simpa [run, pureTrace, step, Res.vals, initTrial] using this
    | changeSource s => simpa [run, pureTrace, step, Res.vals, changeSource, initTrial] using this
    | grad2 =>
      simp only [run, pureTrace, List.map_cons]
      refine congrArg₂ _ ?_ this
      simp only [step]; split <;> rfl
    | evaluate q =>
      simp only [run, pureTrace, List.map_cons]
      have hd : (step W v hit cfg st (.evaluate q)).1.data = st.data ∧
          (step W v hit cfg st (.evaluate q)).1.src = st.src := by
        simp only [step, evalE]; split <;> exact ⟨rfl, rfl⟩
      rw [hd.1, hd.2] at this
      refine congrArg₂ _ ?_ this
      have hv := (evalC_spec W hit hs.2 cfg st q h).1
      by_cases hq : queryOk W cfg.parabola q = true
      · simp [step, evalE, evalPureE, hq, Res.vals, hv]
      · simp [step, evalE, evalPureE, hq, Res.vals]

/-- the trace of a used object graph is the trace of a fresh one -/
theorem c06_trace_fresh (W : World D S F) (v : Variant) (hit : F → F → Bool) (cfg : Cfg)
    (hs : Sound v cfg hit) (d0 : D) (s0 : S) (ops : List (Op D S F)) :
    (run W v hit cfg (fresh d0 s0) ops).2.map Res.vals = pureTrace W cfg.parabola d0 s0 ops :=
  c06_trace W v hit cfg hs ops _ (inv_fresh W cfg.parabola d0 s0)

/-! ### second derivative (`_cache_nsgrad_i`) -/

/-- generalised form: the remembered evaluation is `lastEval` of the history, tagged with the
*current* data and source -/
theorem C06.nsg_run (W : World D S F) (v : Variant) (hit : F → F → Bool) (cfg : Cfg)
    (hr : v.resetNsgrad = true) (ops : List (Op D S F)) (st : St D S F) (r : Option (Query F))
    (h : st.nsg = r.map (fun q => (st.data, st.src, q))) :
    let st' := runSt W v hit cfg st ops
    st'.nsg = (lastEval W cfg.parabola v.clearNsgOnEval r ops).map (fun q => (st'.data, st'.src, q)) := by
  induction ops generalizing st r with
  | nil => exact h
  | cons op ops ih =>
    cases op with
    | initTrial d => exact ih _ none (by simp [step, initTrial, hr])
    | changeSource s => exact ih _ none (by simp [step, changeSource, initTrial, hr])
    | grad2 => exact ih _ r h
    | evaluate q =>
      refine ih _ _ ?_
      simp only [step, evalE]
      split
      · simp [evalC]
      · split
        · simp
        · simpa using h

/-- **history-level second-derivative theorem.**  After any history the second derivative is that of
the last successful evaluation *of the current trial* (its ns and parameter point are part of the
token) on the current data and source, and the call is refused when there is none — whether the
trial was initialised on new data, on the same data again, or the source changed, and (with
`clearNsgOnEval`) also when the last evaluation of the trial failed. -/
theorem c06_grad2_transparent (W : World D S F) (v : Variant) (hit : F → F → Bool) (cfg : Cfg)
    (hr : v.resetNsgrad = true) (d0 : D) (s0 : S) (ops : List (Op D S F)) :
    (step W v hit cfg (runSt W v hit cfg (fresh d0 s0) ops) .grad2).2 =
      match lastEval W cfg.parabola v.clearNsgOnEval none ops with
      | some q => .grad2Of (lastData d0 ops) (lastSrc s0 ops) q
      | none => .error := by
  have h := C06.nsg_run W v hit cfg hr ops (fresh d0 s0) none (by simp [fresh])
  have hds := c06_current_data_src W v hit cfg ops (fresh d0 s0 : St D S F)
  simp only at h
  simp only [step, runSt] at h ⊢
  rw [h]
  cases lastEval W cfg.parabola v.clearNsgOnEval none ops with
  | none => rfl
  | some q =>
    simp only [Option.map_some]
    rw [show (run W v hit cfg (fresh d0 s0) ops).1 = runSt W v hit cfg (fresh d0 s0) ops from rfl,
      hds.1, hds.2]
    rfl

/-- two histories ending on the same data, source and last evaluation of the current trial get the
same second derivative (in particular: a used object and a fresh one that replays only that
evaluation) -/
theorem c06_grad2_history_independent (W : World D S F) (v : Variant) (hit : F → F → Bool)
    (cfg : Cfg) (hr : v.resetNsgrad = true) (d0 d0' : D) (s0 s0' : S) (ops ops' : List (Op D S F))
    (hd : lastData d0 ops = lastData d0' ops') (hsrc : lastSrc s0 ops = lastSrc s0' ops')
    (he : lastEval W cfg.parabola v.clearNsgOnEval none ops =
      lastEval W cfg.parabola v.clearNsgOnEval none ops') :
    (step W v hit cfg (runSt W v hit cfg (fresh d0 s0) ops) .grad2).2 =
    (step W v hit cfg (runSt W v hit cfg (fresh d0' s0') ops') .grad2).2 := by
  rw [c06_grad2_transparent W v hit cfg hr, c06_grad2_transparent W v hit cfg hr, hd, hsrc, he]

/-- **queries are read-only**: inserting a second-derivative query anywhere into a history changes
neither the state reached nor any other answer (the implementation-side counterparts are the
`repeat_final` oracle and the byte snapshot of what the weight services hand out) -/
theorem c06_grad2_invisible (W : World D S F) (v : Variant) (hit : F → F → Bool) (cfg : Cfg)
    (st : St D S F) (ops1 ops2 : List (Op D S F)) :
    (run W v hit cfg st (ops1 ++ .grad2 :: ops2)).1 = (run W v hit cfg st (ops1 ++ ops2)).1 ∧
    ((run W v hit cfg st (ops1 ++ .grad2 :: ops2)).2.take ops1.length =
      (run W v hit cfg st (ops1 ++ ops2)).2.take ops1.length) ∧
    ((run W v hit cfg st (ops1 ++ .grad2 :: ops2)).2.drop (ops1.length + 1) =
      (run W v hit cfg st (ops1 ++ ops2)).2.drop ops1.length) := by
  induction ops1 generalizing st with
  | nil => simp [run, step]
  | cons op ops1 ih =>
    obtain ⟨h1, h2, h3⟩ := ih (step W v hit cfg st op).1
    refine ⟨by simpa [run] using h1, ?_, ?_⟩
    · simp only [List.cons_append, run, List.length_cons, List.take_succ_cons]
      exact congrArg _ h2
    · simpa [run] using h3

/-- after a failed evaluation the second derivative is refused, whatever was evaluated before —
exactly what a fresh object does after the same failed evaluation -/
theorem c06_failed_evaluate (W : World D S F) (v : Variant) (hit : F → F → Bool) (cfg : Cfg)
    (hr : v.resetNsgrad = true) (hc : v.clearNsgOnEval = true) (d0 : D) (s0 : S)
    (ops : List (Op D S F)) (q : Query F) (hq : queryOk W cfg.parabola q = false) :
    (step W v hit cfg (runSt W v hit cfg (fresh d0 s0) (ops ++ [.evaluate q])) .grad2).2 = .error := by
  rw [c06_grad2_transparent W v hit cfg hr]
  have : ∀ (r : Option (Query F)) (l : List (Op D S F)),
      lastEval W cfg.parabola v.clearNsgOnEval r (l ++ [.evaluate q]) = none := by
    intro r l
    induction l generalizing r with
    | nil => simp [lastEval, hq, hc]
    | cons op l ih => cases op <;> simp only [List.cons_append, lastEval] <;> exact ih _
  rw [this]

end main

/-! ### `DataField` values that depend on global fit parameters -/

section datafield
variable {D S P V : Type} [DecidableEq P]

/-- remembered fit parameter values describe the stored field values of the *current* data and source -/
def C06.FieldInv (f : D → S → P → V) (st : FieldSt D S P V) : Prop :=
  ∀ v p, st.inEvents = true → st.vals = some v → st.key = some p → v = f st.data st.src p

theorem c06_datafield_inv (f : D → S → P → V) (st : FieldSt D S P V) (op : FieldOp D S P)
    (h : C06.FieldInv f st) : C06.FieldInv f (fieldStep f true st op).1 := by
  cases op with
  | initNew d => intro v p h1; simp [fieldStep] at h1
  | initSame => intro v p _ _ h3; simp [fieldStep] at h3
  | changeSource s => intro v p _ _ h3; simp [fieldStep] at h3
  | compute p =>
    simp only [fieldStep, fieldCalc]
    split
    · split
      · exact h
      · intro v p' _ h2 h3
        simp only [Option.some.injEq] at h2 h3
        subst h2 h3; rfl
    · intro v p' _ h2 h3
      simp only [Option.some.injEq] at h2 h3
      subst h2 h3; rfl

/-- **transparency of the data-field cache**: after any history the field values handed out are
the function of the current data, source and fit parameter values -/
theorem c06_datafield_transparent (f : D → S → P → V) (ops : List (FieldOp D S P))
    (st : FieldSt D S P V) (h : C06.FieldInv f st) (p : P) :
    let st' := (fieldRun f true st ops).1
    (fieldCalc f st' p).2 = f st'.data st'.src p := by
  induction ops generalizing st with
  | nil =>
    simp only [fieldRun, fieldCalc]
    split
    · rename_i v p' h1 h2 h3
      split
      · rename_i hp; subst hp; exact h v p' h1 h2 h3
      · rfl
    · rfl
  | cons op ops ih => exact ih _ (c06_datafield_inv f st op h)

theorem c06_datafield_fresh_inv (f : D → S → P → V) (d : D) (s : S) :
    C06.FieldInv f (fieldFresh d s) := by
  intro v p h1; simp [fieldFresh] at h1

end datafield

/-- the key of a data field is the tuple of the values of *all* global fit parameters it depends on:
whenever the remembered tuple is not exactly the requested one — one component differing is enough —
the values are recomputed from the current data and source, for every state (no invariant needed).
(Seeded change m1d recomputed only when all components differed.) -/
theorem c06_datafield_key_mismatch_recomputes {D S P V : Type} [DecidableEq P] (f : D → S → P → V)
    (st : FieldSt D S P V) (p : P) (h : st.key ≠ some p) :
    (fieldCalc f st p).2 = f st.data st.src p ∧ (fieldCalc f st p).1.key = some p := by
  simp only [fieldCalc]
  split
  · rename_i v p' _ _ hk
    split
    · rename_i hp; subst hp; exact absurd hk h
    · exact ⟨rfl, rfl⟩
  · exact ⟨rfl, rfl⟩

/-- a two-component key: only the second fit parameter changes — recomputed -/
example : (fieldCalc (fun (d s : Nat) (p : Nat × Nat) => d + s + p.1 + 10 * p.2)
    ⟨0, 0, true, some 12, some (2, 1)⟩ (2, 4)).2 = 42 := by decide

/-- the data / source the field machine holds are those of the last `initNew` / `changeSource` -/
def C06.fieldLastData {D S P : Type} (d0 : D) : List (FieldOp D S P) → D
  | [] => d0
  | .initNew d :: ops => C06.fieldLastData d ops
  | _ :: ops => C06.fieldLastData d0 ops

def C06.fieldLastSrc {D S P : Type} (s0 : S) : List (FieldOp D S P) → S
  | [] => s0
  | .changeSource s :: ops => C06.fieldLastSrc s ops
  | _ :: ops => C06.fieldLastSrc s0 ops

theorem c06_datafield_current_data_src {D S P V : Type} [DecidableEq P] (f : D → S → P → V)
    (reset : Bool) (ops : List (FieldOp D S P)) (st : FieldSt D S P V) :
    (fieldRun f reset st ops).1.data = C06.fieldLastData st.data ops ∧
    (fieldRun f reset st ops).1.src = C06.fieldLastSrc st.src ops := by
  induction ops generalizing st with
  | nil => exact ⟨rfl, rfl⟩
  | cons op ops ih =>
    have := ih (fieldStep f reset st op).1
    cases op with
    | compute p =>
      have hd : (fieldStep f reset st (.compute p)).1.data = st.data ∧
          (fieldStep f reset st (.compute p)).1.src = st.src := by
        simp only [fieldStep, fieldCalc]
        split
        · split <;> exact ⟨rfl, rfl⟩
        · exact ⟨rfl, rfl⟩
      simp only [fieldRun, C06.fieldLastData, C06.fieldLastSrc]
      rw [hd.1, hd.2] at this
      exact this
    | _ => exact this

/-- pinned commit (no reset): the values computed for the first source are handed out for the second -/
theorem c06_datafield_counterexample :
    let f : Nat → Nat → Nat → Nat := fun d s p => d + 10 * s + 100 * p
    let st := (fieldRun f false (fieldFresh 1 0) [.compute 2, .changeSource 5]).1
    (fieldCalc f st 2).2 = 201 ∧ f st.data st.src 2 = 251 := by decide

/-! ### the layers above the PDF ratio: split cascade, source-weighted ratio, log-lambda, second derivative number -/

section top
variable {D S F : Type} [DecidableEq F] [Add F] [Sub F] [Mul F] [Div F] [Neg F] [LT F] [DecidableLT F]
  [OfNat F 0] [OfNat F 1] [OfScientific F] [Transc F]

/-- general form of the refinement, for the induction -/
theorem C06.top_run (T : Top D S F) (v : Variant) (hit : F → F → Bool) (cfg : Cfg)
    (hs : Sound v cfg hit) (hr : v.resetNsgrad = true) (ops : List (Op D S F)) (t : TSt D S F)
    (st : St D S F) (r : Option (Query F)) (h : TI T cfg.parabola t st r)
    (hinv : Inv T.W cfg.parabola st) :
    TI T cfg.parabola (ops.foldl (tfstep T v hit cfg) t) (runSt T.W v hit cfg st ops)
      (lastEval T.W cfg.parabola v.clearNsgOnEval r ops) := by
  induction ops generalizing t st r with
  | nil => exact h
  | cons op ops ih =>
    rw [lastEval_cons]
    exact ih _ _ _ (tfstep_refines T v hit cfg hs.2 hr t st r op h hinv)
      (c06_cache_valid_inv T.W v hit cfg hs st op hinv)

/-- **refinement of the cascade**: carrying out every fused operation of a history as the real call
sequence (`tdm.initialize_trial`, then the `initialize_for_new_trial` cascade; `change_shg_mgr`, new
trial, cascade) from a freshly built object graph leaves (1) the lower layers in exactly the state
of Model/Cache.lean, (2) `_cache_eventdata` built from the current trial data and source, and (3)
the cached per-event ns-gradient **values** equal to those the stateless evaluator computes for the
last successful evaluation of the current trial (none otherwise). -/
theorem c06_top_refines (T : Top D S F) (v : Variant) (hit : F → F → Bool) (cfg : Cfg)
    (hs : Sound v cfg hit) (hr : v.resetNsgrad = true) (d0 : D) (s0 : S) (ops : List (Op D S F)) :
    let t := (trun T v hit cfg (tfresh d0 s0) (expandAll d0 ops)).1
    t.base = runSt T.W v hit cfg (fresh d0 s0) ops ∧ Synced t ∧
    t.nsgrad = (lastEval T.W cfg.parabola v.clearNsgOnEval none ops).map
      (nsgradPure T cfg.parabola (lastData d0 ops) (lastSrc s0 ops)) := by
  intro t
  have h0 : TI T cfg.parabola (tfresh d0 s0) (fresh d0 s0) none := ⟨rfl, rfl, rfl⟩
  have h := C06.top_run T v hit cfg hs hr ops _ _ none h0 (inv_fresh T.W cfg.parabola d0 s0)
  have ht : t = ops.foldl (tfstep T v hit cfg) (tfresh d0 s0) :=
    trun_expandAll T v hit cfg ops (tfresh d0 s0)
  have hds := c06_current_data_src T.W v hit cfg ops (fresh d0 s0 : St D S F)
  rw [ht]
  refine ⟨h.base, h.sync, ?_⟩
  rw [h.nsg, hds.1, hds.2]
  rfl

/-- **transparency at the top**: after any history (as real call sequences) an evaluation returns the
log-lambda, its ns-gradient and the per-(source, event) ratios and gradients of the stateless
top-level evaluator on the current data and source, and raises exactly when it raises. -/
theorem c06_top_transparent (T : Top D S F) (v : Variant) (hit : F → F → Bool) (cfg : Cfg)
    (hs : Sound v cfg hit) (hr : v.resetNsgrad = true) (d0 : D) (s0 : S) (ops : List (Op D S F))
    (q : Query F) :
    let t := (trun T v hit cfg (tfresh d0 s0) (expandAll d0 ops)).1
    match topPure T cfg.parabola (lastData d0 ops) (lastSrc s0 ops) q with
    | some p => ∃ o, (tstep T v hit cfg t (.evaluate q)).2 = .vals o ∧ o.llh = p.1.llh ∧
        o.gradNs = p.1.gradNs ∧ o.out.ratio = p.1.out.ratio ∧ o.out.grad = p.1.out.grad
    | none => (tstep T v hit cfg t (.evaluate q)).2 = .evalError := by
  intro t
  obtain ⟨hb, hsy, -⟩ := c06_top_refines T v hit cfg hs hr d0 s0 ops
  change t.base = _ at hb
  change Synced t at hsy
  clear_value t
  have hinv := c06_cache_valid_inv_run T.W v hit cfg hs ops _ (inv_fresh T.W cfg.parabola d0 s0)
  have hds := c06_current_data_src T.W v hit cfg ops (fresh d0 s0 : St D S F)
  have hsy' : t.evd = some (t.base.data, t.base.src) := hsy
  rw [← hb] at hinv hds
  simp only [fresh] at hds
  by_cases hq : queryOk T.W cfg.parabola q = true
  · have hc := evalCσ_synced T.W hit cfg t.base q
    have hsp := (evalC_spec T.W hit hs.2 cfg t.base q hinv).1
    have h1 : (evalC T.W hit cfg t.base q).2.ratio = (evalPure T.W cfg.parabola t.base.data t.base.src q).1 :=
      congrArg Prod.fst hsp
    have h2 : (evalC T.W hit cfg t.base q).2.grad = (evalPure T.W cfg.parabola t.base.data t.base.src q).2 :=
      congrArg Prod.snd hsp
    simp only [topPure, hq, if_true, ← hds.1, ← hds.2]
    refine ⟨⟨(derive T t.base.data t.base.src q (evalC T.W hit cfg t.base q).2.ratio).llh,
      (derive T t.base.data t.base.src q (evalC T.W hit cfg t.base q).2.ratio).gradNs,
      (evalC T.W hit cfg t.base q).2⟩, by simp only [tstep, hsy', hq, if_true, hc], ?_, ?_, ?_, ?_⟩ <;>
      simp only [h1, h2]
  · have hq' : queryOk T.W cfg.parabola q = false := by simpa using hq
    simp only [topPure, hq', tstep, hsy']
    simp

/-- **the second-derivative number**: after any history `calculate_ns_grad2(ns)` returns
`-Σ nsgrad_i² - (N - N')/(N - ns)²` with the per-event gradients of the last successful evaluation of
the current trial and `N`, `N'` of the current trial — the number a freshly built object graph
returns after replaying only that evaluation — and is refused when there is no such evaluation. -/
theorem c06_top_grad2_number (T : Top D S F) (v : Variant) (hit : F → F → Bool) (cfg : Cfg)
    (hs : Sound v cfg hit) (hr : v.resetNsgrad = true) (d0 : D) (s0 : S) (ops : List (Op D S F))
    (ns : F) :
    let t := (trun T v hit cfg (tfresh d0 s0) (expandAll d0 ops)).1
    (tstep T v hit cfg t (.grad2 ns)).2 =
      match lastEval T.W cfg.parabola v.clearNsgOnEval none ops with
      | some q => .grad2 (grad2Of T (lastData d0 ops) (lastSrc s0 ops)
          (nsgradPure T cfg.parabola (lastData d0 ops) (lastSrc s0 ops) q) ns)
      | none => .refused := by
  intro t
  obtain ⟨hb, -, hn⟩ := c06_top_refines T v hit cfg hs hr d0 s0 ops
  change t.base = _ at hb
  change t.nsgrad = _ at hn
  clear_value t
  have hds := c06_current_data_src T.W v hit cfg ops (fresh d0 s0 : St D S F)
  rw [← hb] at hds
  simp only [fresh] at hds
  simp only [tstep, hn]
  cases lastEval T.W cfg.parabola v.clearNsgOnEval none ops with
  | none => rfl
  | some q => simp only [Option.map_some, hds.1, hds.2]

/-- a freshly built object graph is in sync, and every cascade re-establishes it -/
theorem c06_top_cascade_syncs (T : Top D S F) (v : Variant) (hit : F → F → Bool) (cfg : Cfg)
    (t : TSt D S F) (d : D) (s : S) :
    Synced (tfresh d s : TSt D S F) ∧ Synced (tstep T v hit cfg t .llhInit).1 :=
  ⟨rfl, rfl⟩

/-- **the composite likelihood of several datasets** (`MultiDatasetTCLLHRatio.evaluate`): after any
history of complete call sequences the composite log-lambda `Σ_j log-lambda_j(ns·f_j)` and its
ns-gradient `Σ_j f_j ∂_ns log-lambda_j` equal the stateless composite evaluator on the current data
and source, and the call raises exactly when it raises — whatever was evaluated, initialised or
changed before, and whatever the weight services handed out earlier. -/
theorem c06_comp_transparent (C : Comp D S F) (v : Variant) (hit : F → F → Bool) (cfg : Cfg)
    (hs : Sound v cfg hit) (hr : v.resetNsgrad = true) (d0 : D) (s0 : S)
    (fops : List (FOp D S F)) (q : Query F) :
    let c := (crun C v hit cfg (cfresh d0 s0) (cexpandAll d0 fops)).1
    (cstep C v hit cfg c (.cevaluate q)).2 =
      match compPure C cfg.parabola (clastData d0 fops) (clastSrc s0 fops) q with
      | some p => .vals p.1.1 p.1.2
      | none => .evalError := by
  intro c
  have hl : c.t = (trun C.T v hit cfg (tfresh d0 s0) (expandAll d0 (lower C s0 fops))).1 :=
    crun_lower C v hit cfg fops (cfresh d0 s0)
  obtain ⟨hb, -, -⟩ := c06_top_refines C.T v hit cfg hs hr d0 s0 (lower C s0 fops)
  have hds := c06_current_data_src C.T.W v hit cfg (lower C s0 fops) (fresh d0 s0 : St D S F)
  obtain ⟨hld, hls⟩ := lower_lastData C fops d0 s0
  rw [← hl] at hb
  rw [← hb] at hds
  simp only [fresh] at hds
  rw [hld, hls] at hds
  clear_value c
  simp only [cstep, compPure, hds.2]
  cases hf : C.fj (clastSrc s0 fops) q with
  | nil => rfl
  | cons f0 fr =>
    have ht := c06_top_transparent C.T v hit cfg hs hr d0 s0 (lower C s0 fops) (q0 q f0)
    simp only [← hl, hld, hls] at ht
    cases hp : topPure C.T cfg.parabola (clastData d0 fops) (clastSrc s0 fops) (q0 q f0) with
    | none =>
      rw [hp] at ht
      have ht' : (tstep C.T v hit cfg c.t (.evaluate (q0 q f0))).2 = .evalError := ht
      simp only [ht', hp]
    | some p =>
      rw [hp] at ht
      obtain ⟨o, ho, h1, h2, -, -⟩ := ht
      simp only [ho, h1, h2, hds.1, hp]

/-- **the composite second derivative** (`MultiDatasetTCLLHRatio.calculate_ns_grad2`): after any history
of complete call sequences it is `Σ_j f_j² · ∂²_ns log-lambda_j(ns·f_j)` built from (1) the weight
factors `f_j` of the last successful composite evaluation of the current trial, (2) the per-event
ns-gradients every dataset cached in that evaluation, (3) the event counts of the current trial — a
pure function of (current data, current source, that evaluation's point, `ns`) — and it is refused when
there is no such evaluation.  In particular nothing an earlier evaluation, trial, source or weight
calculation left behind can enter. -/
theorem c06_comp_grad2 (C : Comp D S F) (v : Variant) (hit : F → F → Bool) (cfg : Cfg)
    (hs : Sound v cfg hit) (hr : v.resetNsgrad = true) (hc : v.clearNsgOnEval = true) (d0 : D)
    (s0 : S) (fops : List (FOp D S F)) (ns : F) :
    let c := (crun C v hit cfg (cfresh d0 s0) (cexpandAll d0 fops)).1
    let d := clastData d0 fops
    let s := clastSrc s0 fops
    (cstep C v hit cfg c (.cgrad2 ns)).2 =
      match clastEval C cfg.parabola s0 none fops with
      | none => .refused
      | some q =>
        match C.fj s q with
        | f0 :: fr => .grad2 (cgrad2Of C d s f0 fr (nsgradPure C.T cfg.parabola d s (q0 q f0))
            ((othersEval C d s q fr).map (·.2.2)) ns)
        | [] => .refused := by
  intro c d s
  have h0 : CI C cfg.parabola (cfresh d0 s0) (fresh d0 s0) none :=
    ⟨⟨rfl, rfl, rfl⟩, inv_fresh C.T.W cfg.parabola d0 s0, by intro q hq; cases hq⟩
  have h := ci_run C v hit cfg hs.2 hs.1 hr hc fops (cfresh d0 s0) (fresh d0 s0) none h0
  have hds := c06_current_data_src C.T.W v hit cfg (lower C s0 fops) (fresh d0 s0 : St D S F)
  obtain ⟨hld, hls⟩ := lower_lastData C fops d0 s0
  simp only [fresh] at hds
  rw [hld, hls] at hds
  change CI C cfg.parabola c _ _ at h
  clear_value c
  have hbd : c.t.base.data = d := by rw [h.ti.base]; exact hds.1
  have hbs : c.t.base.src = s := by rw [h.ti.base]; exact hds.2
  have hnsg := h.ti.nsg
  have hsvc := h.svc
  simp only [fresh] at hnsg hsvc
  rw [hds.1, hds.2] at hnsg
  rw [hds.1, hds.2] at hsvc
  cases hr' : clastEval C cfg.parabola s0 none fops with
  | none =>
    rw [hr'] at hnsg
    simp only [lowQ, Option.bind_none, Option.map_none] at hnsg
    simp only [cstep, hnsg]
    cases c.fsvc with
    | none => rfl
    | some f => cases f <;> rfl
  | some q =>
    rw [hr'] at hnsg
    obtain ⟨f0, fr, hf, hfs, hn2⟩ := hsvc q hr'
    simp only [lowQ, Option.bind_some, hf, Option.map_some] at hnsg
    have hf' : C.fj s q = f0 :: fr := hf
    have hn2' : c.nsg2 = some ((othersEval C d s q fr).map (·.2.2)) := hn2
    have hnsg' : c.t.nsgrad = some (nsgradPure C.T cfg.parabola d s (q0 q f0)) := hnsg
    simp only [cstep, hnsg', hfs, hn2', hf', hbd, hbs]

end top

/-! ### the current source satisfies the hypotheses -/

theorem c06_datafield_reset_for_current_source : Gen.C06.resetFields = true := by
  simp [Gen.C06.resetFields]

/-- the data-field theorem stated for the flag of the current source -/
theorem c06_datafield_transparent_for_current_source {D S P V : Type} [DecidableEq P]
    (f : D → S → P → V) (d : D) (s : S) (ops : List (FieldOp D S P)) (p : P) :
    let st' := (fieldRun f Gen.C06.resetFields (fieldFresh d s) ops).1
    (fieldCalc f st' p).2 = f st'.data st'.src p := by
  rw [c06_datafield_reset_for_current_source]
  exact c06_datafield_transparent f ops _ (c06_datafield_fresh_inv f d s) p


section current
variable {F : Type} [DecidableEq F] [Add F] [Sub F] [Mul F] [Div F] [LT F] [DecidableLT F] [LE F]
  [DecidableLE F] [OfScientific F]

/-- (a) and (b) hold for the flags extracted from the current skyllh source, for every
configuration (with and without data fields, caching on and off, Linear and Parabola) -/
theorem c06_sound_for_current_source (cfg : Cfg) :
    Sound Gen.C06.variant cfg (hitOf Gen.C06.variant cfg : F → F → Bool) := by
  refine ⟨?_, ?_⟩
  · simp [bumpInit, Gen.C06.variant, Gen.C06.bumpAlways]
  · intro a b h
    unfold hitOf at h
    split at h
    · exact eq_of_beq h
    · simp only [linearHit, Gen.C06.variant, Gen.C06.exactHit, if_true] at h
      exact eq_of_beq h

theorem c06_reset_for_current_source : Gen.C06.variant.resetNsgrad = true := by
  simp [Gen.C06.variant, Gen.C06.resetNsgrad]

theorem c06_clear_for_current_source : Gen.C06.variant.clearNsgOnEval = true := by
  simp [Gen.C06.variant, Gen.C06.clearNsgOnEval]

/-- the second-derivative theorem for the code as it is now: last successful evaluation of the
current trial, refused after a new trial / source change / failed evaluation -/
theorem c06_grad2_transparent_for_current_source {D S : Type} (W : World D S F) (cfg : Cfg) (d0 : D)
    (s0 : S) (ops : List (Op D S F)) :
    let hit : F → F → Bool := hitOf Gen.C06.variant cfg
    (step W Gen.C06.variant hit cfg (runSt W Gen.C06.variant hit cfg (fresh d0 s0) ops) .grad2).2 =
      match lastEval W cfg.parabola true none ops with
      | some q => .grad2Of (lastData d0 ops) (lastSrc s0 ops) q
      | none => .error := by
  intro hit
  have h := c06_grad2_transparent W Gen.C06.variant hit cfg c06_reset_for_current_source d0 s0 ops
  rw [c06_clear_for_current_source] at h
  exact h

/-- every evaluate of every history, for the code as it is now -/
theorem c06_trace_for_current_source {D S : Type} (W : World D S F) (cfg : Cfg) (d0 : D) (s0 : S)
    (ops : List (Op D S F)) :
    (run W Gen.C06.variant (hitOf Gen.C06.variant cfg) cfg (fresh d0 s0) ops).2.map Res.vals =
      pureTrace W cfg.parabola d0 s0 ops :=
  c06_trace_fresh W Gen.C06.variant _ cfg (c06_sound_for_current_source cfg) d0 s0 ops

/-- the upper layers for the code as it is now: log-lambda, ns-gradient, ratios after any history of
complete call sequences equal the stateless top-level evaluator -/
theorem c06_top_transparent_for_current_source {D S : Type} [Neg F] [OfNat F 0] [OfNat F 1] [Transc F]
    (T : Top D S F) (cfg : Cfg) (d0 : D) (s0 : S) (ops : List (Op D S F)) (q : Query F) :
    let hit : F → F → Bool := hitOf Gen.C06.variant cfg
    let t := (trun T Gen.C06.variant hit cfg (tfresh d0 s0) (expandAll d0 ops)).1
    match topPure T cfg.parabola (lastData d0 ops) (lastSrc s0 ops) q with
    | some p => ∃ o, (tstep T Gen.C06.variant hit cfg t (.evaluate q)).2 = .vals o ∧ o.llh = p.1.llh ∧
        o.gradNs = p.1.gradNs ∧ o.out.ratio = p.1.out.ratio ∧ o.out.grad = p.1.out.grad
    | none => (tstep T Gen.C06.variant hit cfg t (.evaluate q)).2 = .evalError :=
  c06_top_transparent T Gen.C06.variant _ cfg (c06_sound_for_current_source cfg)
    c06_reset_for_current_source d0 s0 ops q

/-- the second-derivative number for the code as it is now -/
theorem c06_top_grad2_number_for_current_source {D S : Type} [Neg F] [OfNat F 0] [OfNat F 1]
    [Transc F] (T : Top D S F) (cfg : Cfg) (d0 : D) (s0 : S) (ops : List (Op D S F)) (ns : F) :
    let hit : F → F → Bool := hitOf Gen.C06.variant cfg
    let t := (trun T Gen.C06.variant hit cfg (tfresh d0 s0) (expandAll d0 ops)).1
    (tstep T Gen.C06.variant hit cfg t (.grad2 ns)).2 =
      match lastEval T.W cfg.parabola true none ops with
      | some q => .grad2 (grad2Of T (lastData d0 ops) (lastSrc s0 ops)
          (nsgradPure T cfg.parabola (lastData d0 ops) (lastSrc s0 ops) q) ns)
      | none => .refused := by
  intro hit t
  have h := c06_top_grad2_number T Gen.C06.variant hit cfg (c06_sound_for_current_source cfg)
    c06_reset_for_current_source d0 s0 ops ns
  rw [c06_clear_for_current_source] at h
  exact h

/-- the composite likelihood for the code as it is now: value and ns-gradient after any history -/
theorem c06_comp_transparent_for_current_source {D S : Type} [Neg F] [OfNat F 0] [OfNat F 1]
    [Transc F] (C : Comp D S F) (cfg : Cfg) (d0 : D) (s0 : S) (fops : List (FOp D S F))
    (q : Query F) :
    let hit : F → F → Bool := hitOf Gen.C06.variant cfg
    let c := (crun C Gen.C06.variant hit cfg (cfresh d0 s0) (cexpandAll d0 fops)).1
    (cstep C Gen.C06.variant hit cfg c (.cevaluate q)).2 =
      match compPure C cfg.parabola (clastData d0 fops) (clastSrc s0 fops) q with
      | some p => .vals p.1.1 p.1.2
      | none => .evalError :=
  c06_comp_transparent C Gen.C06.variant _ cfg (c06_sound_for_current_source cfg)
    c06_reset_for_current_source d0 s0 fops q

/-- the composite second derivative for the code as it is now -/
theorem c06_comp_grad2_for_current_source {D S : Type} [Neg F] [OfNat F 0] [OfNat F 1] [Transc F]
    (C : Comp D S F) (cfg : Cfg) (d0 : D) (s0 : S) (fops : List (FOp D S F)) (ns : F) :
    let hit : F → F → Bool := hitOf Gen.C06.variant cfg
    let c := (crun C Gen.C06.variant hit cfg (cfresh d0 s0) (cexpandAll d0 fops)).1
    let d := clastData d0 fops
    let s := clastSrc s0 fops
    (cstep C Gen.C06.variant hit cfg c (.cgrad2 ns)).2 =
      match clastEval C cfg.parabola s0 none fops with
      | none => .refused
      | some q =>
        match C.fj s q with
        | f0 :: fr => .grad2 (cgrad2Of C d s f0 fr (nsgradPure C.T cfg.parabola d s (q0 q f0))
            ((othersEval C d s q fr).map (·.2.2)) ns)
        | [] => .refused :=
  c06_comp_grad2 C Gen.C06.variant _ cfg (c06_sound_for_current_source cfg)
    c06_reset_for_current_source c06_clear_for_current_source d0 s0 fops ns

/-- transparency for the code as it is now, without any hypothesis -/
theorem c06_transparent_for_current_source {D S : Type} (W : World D S F) (cfg : Cfg) (d0 : D)
    (s0 : S) (ops : List (Op D S F)) (q : Query F) :
    let hit : F → F → Bool := hitOf Gen.C06.variant cfg
    let o := (evalC W hit cfg (runSt W Gen.C06.variant hit cfg (fresh d0 s0) ops) q).2
    (o.ratio, o.grad) = evalPure W cfg.parabola (lastData d0 ops) (lastSrc s0 ops) q :=
  (c06_transparent W Gen.C06.variant _ cfg (c06_sound_for_current_source cfg) d0 s0 ops q).1

end current

/-! ### what goes wrong without (a) / (b) / the reset — the pinned commit -/

section counterexamples

/-- integer scalars for the witnesses (decimal literals truncate; only 0.0 and 1.0 are used) -/
local instance : OfScientific Int := ⟨fun m s e => if s then m / 10 ^ e else m * 10 ^ e⟩

/-- signal PDF value `d + g`, resp. `g²`; background 1; unit grid -/
def C06.W0 : World Nat Nat Int :=
  { man := fun d _ _ g => [(d : Int) + g], bkg := fun _ _ => [1], up := (· + 1), lo := (· - 1), dx := 1,
    inGrid := fun _ => true, sel := fun _ _ _ => [0] }

/-- `W0` with a grid that ends at 5 -/
def C06.W2 : World Nat Nat Int := { C06.W0 with inGrid := fun g => decide (g ≤ 5) }

def C06.W1 : World Nat Nat Int :=
  { man := fun _ _ _ g => [g * g], bkg := fun _ _ => [1], up := (· + 1), lo := (· - 1), dx := 1,
    inGrid := fun _ => true, sel := fun _ _ _ => [0] }

/-- `numpy.isclose` with `rtol = 1e-5`, `atol = 1e-8` on grid indices of a grid with spacing 0.1
(both sides scaled by 10⁸): `|a-b|·10⁷ ≤ 1 + 100·|b|` -/
def C06.iscloseScaled (a b : Int) : Bool := decide ((a - b).natAbs * 10 ^ 7 ≤ 1 + 100 * b.natAbs)

/-- the trial data a `grad2` answer refers to -/
def C06.grad2Data {D S F : Type} : Res D S F → Option D
  | .grad2Of d _ _ => some d
  | _ => none

def C06.isError {D S F : Type} : Res D S F → Bool
  | .error => true
  | _ => false

/-- (a) fails — pinned commit, `TrialDataManager` without data fields: the state id never leaves
−1, so the second trial is answered from the first trial's interpolation cache. -/
theorem c06_stuck_state_id_counterexample :
    let v : Variant := ⟨false, true, true, true⟩
    let cfg : Cfg := ⟨false, false, false, true, false, true⟩
    let q : Query Int := ⟨2, [0], [0]⟩
    let st := runSt C06.W0 v (· == ·) cfg (fresh 0 0) [.evaluate q, .initTrial 1]
    bumpInit v cfg = 0 ∧ st.sid = -1 ∧
    (evalC C06.W0 (· == ·) cfg st q).2.ratio = [[0]] ∧
    (evalPure C06.W0 false 1 0 q).1 = [[1]] := by decide

/-- (b) fails — pinned commit, Linear cache with `numpy.isclose`: grid cells 55000.0 and 55000.1
(indices 550000, 550001) are indistinguishable, the slope of the wrong cell is returned. -/
theorem c06_isclose_counterexample :
    let v : Variant := ⟨true, false, true, true⟩
    let cfg : Cfg := ⟨false, false, false, false, false, false⟩
    let st := runSt C06.W1 v C06.iscloseScaled cfg (fresh 0 0) [.evaluate ⟨2, [550000], [550000]⟩]
    C06.iscloseScaled 550000 550001 = true ∧
    (evalC C06.W1 C06.iscloseScaled cfg st ⟨2, [550001], [550001]⟩).2.grad = [[1100001]] ∧
    (evalPure C06.W1 false 0 0 ⟨2, [550001], [550001]⟩).2 = [[1100003]] := by decide

/-- without the reset the second derivative asked for right after a new trial is that of the
*previous* trial's data, where a fresh object refuses the call -/
theorem c06_stale_nsgrad_counterexample :
    let v : Variant := ⟨true, true, false, true⟩
    let cfg : Cfg := ⟨false, false, false, false, false, false⟩
    let q : Query Int := ⟨2, [0], [0]⟩
    (run C06.W0 v (· == ·) cfg (fresh 0 0) [.evaluate q, .initTrial 1, .grad2]).2.map C06.grad2Data
      = [none, none, some 0] ∧
    (run C06.W0 v (· == ·) cfg (fresh 1 0) [.grad2]).2.map C06.isError = [true] := by decide

/-- data set `d` has `d + 1` events -/
def C06.W3 : World Nat Nat Int :=
  { man := fun d _ _ g => List.replicate (d + 1) ((d : Int) + g), bkg := fun d _ => List.replicate (d + 1) 1,
    up := (· + 1), lo := (· - 1), dx := 1, inGrid := fun _ => true, sel := fun d _ _ => List.range (d + 1) }

/-- `WellFormed` is inhabited by a world with data sets of different size … -/
example : C06.WellFormed C06.W3 := ⟨by intro d s k g; simp [C06.W3], by intro d s k; simp [C06.W3]⟩

/-- … and on the pinned commit (stuck state id) the stale coefficients of the one-event trial are
zipped with the three-event background of the next trial: the answer has the *wrong shape*
(numpy: `ValueError: operands could not be broadcast together`), where the repaired code
(`c06_no_truncation`) returns three values. -/
theorem c06_stale_shape_counterexample :
    let v : Variant := ⟨false, true, true, true⟩
    let cfg : Cfg := ⟨false, false, false, false, false, false⟩
    let q : Query Int := ⟨2, [0], [0]⟩
    let st := runSt C06.W3 v (· == ·) cfg (fresh 0 0) [.evaluate q, .initTrial 2]
    (evalC C06.W3 (· == ·) cfg st q).2.ratio.map List.length = [1] ∧
    (evalPure C06.W3 false 2 0 q).1.map List.length = [3] := by decide

/-- an event selection method with unequal blocks: three selected events, source 0 is paired with
events 0 and 2, source 1 with event 1 only -/
def C06.W4 : World Nat Nat Int :=
  { man := fun d _ k g => if k = 0 then [(d : Int) + g, d + g + 2] else [d + g + 1],
    bkg := fun _ _ => [1, 1, 1], up := (· + 1), lo := (· - 1), dx := 1, inGrid := fun _ => true,
    sel := fun _ _ k => if k = 0 then [0, 2] else [1] }

/-- non-vacuity of the event-selection branch: the theorems above hold for every world, in particular
for one whose per-source blocks have different lengths (`n_values = 3 ≠ K·E = 6`); the stateless
evaluator returns blocks of 2 and 1 values, and so does the cached one after a history -/
theorem c06_event_selection_example :
    let v : Variant := ⟨true, true, true, true⟩
    let cfg : Cfg := ⟨false, false, false, true, false, true⟩
    let q : Query Int := ⟨2, [0, 0], [0, 0]⟩
    let st := runSt C06.W4 v (· == ·) cfg (fresh 0 0) [.evaluate q, .initTrial 1, .evaluate q]
    (evalPure C06.W4 false 1 0 q).1 = [[1, 3], [2]] ∧
    (evalC C06.W4 (· == ·) cfg st q).2.ratio = [[1, 3], [2]] ∧
    (evalC C06.W4 (· == ·) cfg st q).2.interpHit = true := by decide

/-- review round — `evaluate` that does not clear the cached ns-gradients first: after a *failed*
evaluation (grid point 6 does not exist) the second derivative is that of the earlier point, where a
fresh object that only saw the failing evaluation refuses the call.  (`c06_failed_evaluate` is the
positive statement for the repaired code.) -/
theorem c06_failed_evaluate_counterexample :
    let v : Variant := ⟨true, true, true, false⟩
    let cfg : Cfg := ⟨false, false, false, true, false, true⟩
    let q : Query Int := ⟨2, [0], [0]⟩
    let bad : Query Int := ⟨2, [5], [5]⟩
    queryOk C06.W2 false bad = false ∧
    (run C06.W2 v (· == ·) cfg (fresh 0 0) [.evaluate q, .evaluate bad, .grad2]).2.map C06.grad2Data
      = [none, none, some 0] ∧
    (run C06.W2 v (· == ·) cfg (fresh 0 0) [.evaluate bad, .grad2]).2.map C06.isError
      = [false, true] := by decide

/-- dummy transcendental functions on `Int` (the witnesses below only look at PDF ratios) -/
local instance : Transc Int := ⟨id, id, id, id, id, id, id, id, 0, Int.ofNat, id⟩

def C06.T0 : Top Nat Nat Int := { W := C06.W0, nEvents := fun _ => 10, ak := fun _ _ => [1], opa := 1 }

def C06.ratioOfRes : TRes Int → Option (List (List Int))
  | .vals o => some o.out.ratio
  | _ => none

/-- **why the documented call order matters** (repaired code, state id advancing): new trial data
handed to the trial data manager without running the `initialize_for_new_trial` cascade — the signal
PDFs still evaluate the event data of the previous trial (`_cache_eventdata`); and running the
cascade *afterwards* does not repair it, because the stale values were cached under the new state id.
Hence `c06_top_transparent` is stated for histories of complete call sequences (`expandAll`). -/
theorem c06_top_cascade_needed_counterexample :
    let v : Variant := ⟨true, true, true, true⟩
    let cfg : Cfg := ⟨false, false, false, true, false, true⟩
    let q : Query Int := ⟨2, [0], [0]⟩
    (trun C06.T0 v (· == ·) cfg (tfresh 0 0) [.evaluate q, .tdmInit 1, .evaluate q]).2.map C06.ratioOfRes
      = [some [[0]], none, some [[0]]] ∧
    (trun C06.T0 v (· == ·) cfg (tfresh 0 0) [.tdmInit 1, .evaluate q, .llhInit, .evaluate q]).2.map
      C06.ratioOfRes = [none, some [[0]], none, some [[0]]] ∧
    (trun C06.T0 v (· == ·) cfg (tfresh 0 0) [.tdmInit 1, .llhInit, .evaluate q]).2.map C06.ratioOfRes
      = [none, none, some [[1]]] ∧
    (evalPure C06.W0 false 1 0 q).1 = [[1]] := by decide

end counterexamples

/-- the integer-scaled hit test of `c06_isclose_counterexample` *is* numpy's `isclose` (model
`Cache.isclose`, default `rtol`, `atol`) on a grid with spacing 0.1: grid index `a` ↦ value `a/10` -/
theorem c06_isclose_scaled_is_isclose (a b : ℤ) :
    isclose (1e-5 : ℚ) (1e-8 : ℚ) ((a : ℚ) / 10) ((b : ℚ) / 10) = C06.iscloseScaled a b := by
  have habs : ∀ z : ℚ, (if z < (0.0 : ℚ) then (0.0 : ℚ) - z else z) = |z| := by
    intro z
    have h0 : (0.0 : ℚ) = 0 := by norm_num
    rw [h0]
    split
    · rename_i h; rw [abs_of_neg h]; ring
    · rename_i h; rw [abs_of_nonneg (not_lt.mp h)]
  have h1 : (((a - b).natAbs : ℕ) : ℚ) = |(a : ℚ) - b| := by
    rw [Nat.cast_natAbs]; push_cast; rfl
  have h2 : ((b.natAbs : ℕ) : ℚ) = |(b : ℚ)| := by
    rw [Nat.cast_natAbs]; push_cast; rfl
  simp only [isclose, habs, C06.iscloseScaled]
  have key : (|(a : ℚ) / 10 - (b : ℚ) / 10| ≤ (1e-8 : ℚ) + (1e-5 : ℚ) * |(b : ℚ) / 10|) ↔
      ((a - b).natAbs * 10 ^ 7 ≤ 1 + 100 * b.natAbs) := by
    have e1 : |(a : ℚ) / 10 - (b : ℚ) / 10| = |(a : ℚ) - b| / 10 := by
      rw [← sub_div, abs_div]; norm_num
    have e2 : |(b : ℚ) / 10| = |(b : ℚ)| / 10 := by rw [abs_div]; norm_num
    rw [e1, e2, ← h1, ← h2]
    constructor
    · intro h
      have : (((a - b).natAbs * 10 ^ 7 : ℕ) : ℚ) ≤ ((1 + 100 * b.natAbs : ℕ) : ℚ) := by
        push_cast
        norm_num at h ⊢
        linarith
      exact_mod_cast this
    · intro h
      have : (((a - b).natAbs * 10 ^ 7 : ℕ) : ℚ) ≤ ((1 + 100 * b.natAbs : ℕ) : ℚ) := by exact_mod_cast h
      push_cast at this
      norm_num at this ⊢
      linarith
  by_cases hk : ((a - b).natAbs * 10 ^ 7 ≤ 1 + 100 * b.natAbs)
  · have hk' := hk
    norm_num at hk'
    simp [key.mpr hk, hk']
  · have hk' := hk
    norm_num at hk'
    simp [mt key.mp hk, hk']

/-- numpy's default tolerances really identify adjacent MJD-sized grid points (exact rationals) -/
theorem c06_isclose_identifies_mjd_cells :
    isclose (1e-5 : ℚ) (1e-8 : ℚ) (55000.0 : ℚ) (55000.1 : ℚ) = true ∧
    isclose (1e-5 : ℚ) (1e-8 : ℚ) (2.0 : ℚ) (2.1 : ℚ) = false := by
  constructor <;> · simp only [isclose]; norm_num

/-! ### non-vacuity -/

/-- `Sound` is inhabited by the configurations of the quantifier … -/
example : Sound (F := Int) ⟨true, true, true, true⟩ ⟨false, false, false, true, false, false⟩ (· == ·) :=
  ⟨by decide, fun a b h => by simpa using h⟩

/-- … and, on the pinned commit, only by trial data managers *with* data fields -/
example : Sound (F := Int) ⟨false, true, true, true⟩ ⟨false, false, true, true, true, false⟩ (· == ·) :=
  ⟨by decide, fun a b h => by simpa using h⟩

example : ¬ Sound (F := Int) ⟨false, true, true, true⟩ ⟨true, false, false, true, true, true⟩ (· == ·) := by
  intro h; exact absurd h.1 (by decide)

/-- the reflexivity hypothesis of `c06_second_evaluate_hits` holds for the exact hit test -/
example : ∀ a : Int, (fun x y : Int => x == y) a a = true := by intro a; simp


/-! ## Round 7 — the one-slot cache of `SplinedI3EnergySigSetOverBkgPDFRatio` (Model/CacheI3R7.lean)

`get_ratio` / `get_gradient` of the splined I3 energy PDF ratio keep the last ratio and gradient rows together with the
trial data state id and the (reduced) per-source parameter values.  `close0` is the "difference is close to zero" test of
`_create_interpol_params_recarray`; the only thing the proofs need from it is reflexivity (a value is close to itself —
true for every non-NaN double, and for `closeAbs atol` over an ordered field iff `0 ≤ atol`, see
`c06_i3_close_refl_for_current_source`).  `World.compute` is arbitrary. -/

section I3
open CacheI3 C06I3

variable {D S P R : Type} [DecidableEq P]

/-- the slot invariant (a slot filled under the current state id holds the stateless value of the current data and source
at a reduced key; no stored id exceeds the current one) is kept by every operation, for every state that has it -/
theorem c06_i3_slot_inv (W : CacheI3.World D S P R) (close0 : P → P → Bool) (hrefl : ∀ a, close0 a a = true)
    (st : CacheI3.St D S P R) (h : SlotInv W close0 st) (o : CacheI3.Op D S P) :
    SlotInv W close0 (CacheI3.step W true close0 st o).1 :=
  step_inv W close0 hrefl st h o

/-- **transparency**: after any history on a freshly built ratio object, `get_ratio`/`get_gradient` at per-source values
`p :: rest` hands out what a fresh object computes from the data and source of the last initTrial / changeSource — or
stops with numpy's broadcasting error (excluded by `c06_i3_no_shape_error` for a fixed number of sources) -/
theorem c06_i3_transparent (W : CacheI3.World D S P R) (close0 : P → P → Bool) (hrefl : ∀ a, close0 a a = true)
    (d0 : D) (s0 : S) (ops : List (CacheI3.Op D S P)) (p : P) (rest : List P) :
    let st := (CacheI3.run W true close0 (CacheI3.fresh d0 s0) ops).1
    (∃ hit, (CacheI3.step W true close0 st (.get p rest)).2
        = .val (pureGet W close0 (CacheI3.lastData d0 ops) (CacheI3.lastSrc s0 ops) (p :: rest)) hit) ∨
      (CacheI3.step W true close0 st (.get p rest)).2 = .shapeError := by
  intro st
  have h := run_inv W close0 hrefl ops (CacheI3.fresh d0 s0) (inv_fresh W close0 d0 s0)
  have hs := (lookup_spec W close0 hrefl st h.1 p rest).2.2.2.2
  have hd : st.d = CacheI3.lastData d0 ops := h.2.1
  have hsrc : st.s = CacheI3.lastSrc s0 ops := h.2.2
  rw [hd, hsrc] at hs
  exact hs

/-- two arbitrary histories ending on the same data and source answer alike (when both answer) -/
theorem c06_i3_history_independent (W : CacheI3.World D S P R) (close0 : P → P → Bool)
    (hrefl : ∀ a, close0 a a = true) (d0 d0' : D) (s0 s0' : S) (ops ops' : List (CacheI3.Op D S P))
    (hd : CacheI3.lastData d0 ops = CacheI3.lastData d0' ops') (hs : CacheI3.lastSrc s0 ops = CacheI3.lastSrc s0' ops')
    (p : P) (rest : List P) (r r' : R) (hit hit' : Bool)
    (h1 : (CacheI3.step W true close0 (CacheI3.run W true close0 (CacheI3.fresh d0 s0) ops).1 (.get p rest)).2 = .val r hit)
    (h2 : (CacheI3.step W true close0 (CacheI3.run W true close0 (CacheI3.fresh d0' s0') ops').1 (.get p rest)).2
        = .val r' hit') : r = r' := by
  rcases c06_i3_transparent W close0 hrefl d0 s0 ops p rest with ⟨_, e1⟩ | e1 <;>
  rcases c06_i3_transparent W close0 hrefl d0' s0' ops' p rest with ⟨_, e2⟩ | e2 <;>
  simp only [h1, h2, hd, hs, CacheI3.Res.val.injEq, reduceCtorEq] at e1 e2
  rw [e1.1, e2.1]

/-- a hit means the same trial data state id and the same reduced key: on keys produced by
`_create_interpol_params_recarray` numpy's broadcasting `np.all(cached == new)` is plain equality -/
theorem c06_i3_hit_implies_same_key (close0 : P → P → Bool) (hrefl : ∀ a, close0 a a = true) (a : List P)
    (ha : Reduced close0 a) (p : P) (rest : List P)
    (h : CacheI3.keyEq a (CacheI3.reduceKey close0 (p :: rest)) = some true) :
    a = CacheI3.reduceKey close0 (p :: rest) :=
  keyEq_reduced close0 hrefl a _ ha (reduced_reduceKey close0 p rest) h

/-- `_create_interpol_params_recarray` is idempotent and never yields an empty key for K ≥ 1 sources -/
theorem c06_i3_reduce_key (close0 : P → P → Bool) (p : P) (rest : List P) :
    CacheI3.reduceKey close0 (CacheI3.reduceKey close0 (p :: rest)) = CacheI3.reduceKey close0 (p :: rest) ∧
    CacheI3.reduceKey close0 (p :: rest) ≠ [] ∧
    ((CacheI3.reduceKey close0 (p :: rest)).length = 1 ∨
      (CacheI3.reduceKey close0 (p :: rest)).length = (p :: rest).length) := by
  refine ⟨reduceKey_idem close0 _, (reduced_reduceKey close0 p rest).2, ?_⟩
  unfold CacheI3.reduceKey
  split <;> simp

/-- with a fixed number K of sources the cached and the new key always broadcast: no shape error -/
theorem c06_i3_no_shape_error (close0 : P → P → Bool) (p q : P) (rest rest' : List P)
    (hK : rest.length = rest'.length) :
    (CacheI3.keyEq (CacheI3.reduceKey close0 (p :: rest)) (CacheI3.reduceKey close0 (q :: rest'))).isSome = true := by
  apply keyEq_isSome_of_len _ _ (rest.length + 1)
  · simpa using (c06_i3_reduce_key close0 p rest).2.2
  · simpa [hK] using (c06_i3_reduce_key close0 q rest').2.2

/-- `get_gradient`: the shortcut "fit parameter belongs to all sources → hand out the cached row" and the branch
"belongs to no source → zeros" agree with the general masked assembly -/
theorem c06_i3_gradient_branches_agree {F : Type} [OfNat F 0] (srcOf gp : List Nat) (fid : Nat) (grads : List F)
    (hl : grads.length = srcOf.length) (hsrc : ∀ k ∈ srcOf, k < gp.length) :
    CacheI3.gradOut srcOf gp fid grads = CacheI3.assemble srcOf gp fid grads := by
  unfold CacheI3.gradOut
  simp only
  split
  · rename_i h0
    rw [assemble_none srcOf gp fid grads hl]
    intro k hk hc
    have hmem : gp[k]'(hsrc k hk) = fid + 1 := by
      have := List.getElem?_eq_getElem (hsrc k hk); rw [this] at hc; exact Option.some.inj hc
    have : gp[k]'(hsrc k hk) ∈ gp.filter (fun g => g == fid + 1) :=
      List.mem_filter.mpr ⟨List.getElem_mem _, by simp [hmem]⟩
    rw [List.length_eq_zero_iff.mp h0] at this
    simp at this
  · split
    · rename_i _ hall
      rw [assemble_all srcOf gp fid grads hl]
      intro k hk
      have hf : gp.filter (fun g => g == fid + 1) = gp := List.length_filter_eq_length_iff.mp hall |> fun h =>
        List.filter_eq_self.mpr h
      have hm : gp[k]'(hsrc k hk) ∈ gp.filter (fun g => g == fid + 1) := by rw [hf]; exact List.getElem_mem _
      have := (List.mem_filter.mp hm).2
      rw [List.getElem?_eq_getElem (hsrc k hk)]
      simpa using this
    · rfl

/-- without the state-id bump (the pinned commit for trial data managers without data fields) the slot answers a new
trial with the previous trial's rows -/
theorem c06_i3_stuck_state_id_counterexample :
    (CacheI3.run (⟨fun d _ k => (d, k)⟩ : CacheI3.World Nat Nat Nat (Nat × List Nat)) false (fun a b => a == b)
        (CacheI3.fresh 0 0) [.get 7 [], .initTrial 1, .get 7 []]).2
      = [.val (0, [7]) false, .unit, .val (0, [7]) true] := by decide

/-- the generated tolerance makes "close to zero" reflexive (the hypothesis of the theorems above) -/
theorem c06_i3_close_refl_for_current_source (a : ℚ) : CacheI3.closeAbs (Gen.C06.i3Atol : ℚ) a a = true := by
  simp [CacheI3.closeAbs, Gen.C06.i3Atol]
  norm_num

/-- transparency for the flags / constants of the current source, over exact rationals -/
theorem c06_i3_transparent_for_current_source {D S R : Type} (W : CacheI3.World D S ℚ R) (d0 : D) (s0 : S) (ops : List (CacheI3.Op D S ℚ)) (p : ℚ) (rest : List ℚ) :
    let close0 := CacheI3.closeAbs (Gen.C06.i3Atol : ℚ)
    let st := (CacheI3.run W Gen.C06.bumpAlways close0 (CacheI3.fresh d0 s0) ops).1
    (∃ hit, (CacheI3.step W Gen.C06.bumpAlways close0 st (.get p rest)).2
        = .val (pureGet W close0 (CacheI3.lastData d0 ops) (CacheI3.lastSrc s0 ops) (p :: rest)) hit) ∨
      (CacheI3.step W Gen.C06.bumpAlways close0 st (.get p rest)).2 = .shapeError := by
  have hb : Gen.C06.bumpAlways = true := by simp [Gen.C06.bumpAlways]
  rw [hb]
  exact c06_i3_transparent W _ c06_i3_close_refl_for_current_source d0 s0 ops p rest

/-! ### `PDFRatioProduct` with the caching ratio as a factor -/

section I3Product
variable {F : Type} [Add F] [Mul F] [OfNat F 0] [DecidableEq F]

/-- **trace theorem for the product**: along any history of trials, source changes, direct calls of the caching factor and
`get_ratio` / `get_gradient` calls of the product (each of which goes through the factor's slot once or twice), *every*
answer is the stateless product — `r1·r2`, resp. the product rule in the branch `PDFRatioProduct.get_gradient` takes for
that fit parameter, on the data and source of that moment — or numpy's broadcasting error -/
theorem c06_i3_product_trace (W : CacheI3.World D S F (List F × List F)) (B : CacheI3.Stub D S F)
    (close0 : F → F → Bool) (hrefl : ∀ a, close0 a a = true) (srcOf : D → List Nat) (gp : List Nat) (d0 : D) (s0 : S)
    (pre : List (CacheI3.POp D S F)) (o : CacheI3.POp D S F) :
    let st := (CacheI3.prun W B true close0 srcOf gp (CacheI3.fresh d0 s0) pre).1
    PAnswer W B close0 srcOf gp (CacheI3.plastData d0 (pre ++ [o])) (CacheI3.plastSrc s0 (pre ++ [o])) o
      (CacheI3.pstep W B true close0 srcOf gp st o).2 := by
  intro st
  have h := prun_inv W B close0 hrefl srcOf gp pre (CacheI3.fresh d0 s0) (inv_fresh W close0 d0 s0)
  have hs := pstep_spec W B close0 hrefl srcOf gp st h.1 o
  have hd : CacheI3.plastData d0 (pre ++ [o]) = (CacheI3.pstep W B true close0 srcOf gp st o).1.d := by
    rw [hs.2.1, h.2.1, plast_snoc_d]; rfl
  have hsr : CacheI3.plastSrc s0 (pre ++ [o]) = (CacheI3.pstep W B true close0 srcOf gp st o).1.s := by
    rw [hs.2.2.1, h.2.2, plast_snoc_s]; rfl
  rw [hd, hsr]
  exact hs.2.2.2

/-- history independence of the product: two histories that end on the same data and source give the same gradient
answer for the same fit parameter and point (when neither stops with the broadcasting error) -/
theorem c06_i3_product_history_independent (W : CacheI3.World D S F (List F × List F)) (B : CacheI3.Stub D S F)
    (close0 : F → F → Bool) (hrefl : ∀ a, close0 a a = true) (srcOf : D → List Nat) (gp : List Nat) (d0 d0' : D)
    (s0 s0' : S) (pre pre' : List (CacheI3.POp D S F)) (fid : Nat) (p : F) (rest : List F)
    (hd : CacheI3.plastData d0 pre = CacheI3.plastData d0' pre') (hs : CacheI3.plastSrc s0 pre = CacheI3.plastSrc s0' pre')
    (h1 : (CacheI3.pstep W B true close0 srcOf gp (CacheI3.prun W B true close0 srcOf gp (CacheI3.fresh d0 s0) pre).1
      (.pgrad fid p rest)).2 ≠ .shapeError)
    (h2 : (CacheI3.pstep W B true close0 srcOf gp (CacheI3.prun W B true close0 srcOf gp (CacheI3.fresh d0' s0') pre').1
      (.pgrad fid p rest)).2 ≠ .shapeError) :
    (CacheI3.pstep W B true close0 srcOf gp (CacheI3.prun W B true close0 srcOf gp (CacheI3.fresh d0 s0) pre).1
      (.pgrad fid p rest)).2 =
    (CacheI3.pstep W B true close0 srcOf gp (CacheI3.prun W B true close0 srcOf gp (CacheI3.fresh d0' s0') pre').1
      (.pgrad fid p rest)).2 := by
  have a1 := c06_i3_product_trace W B close0 hrefl srcOf gp d0 s0 pre (.pgrad fid p rest)
  have a2 := c06_i3_product_trace W B close0 hrefl srcOf gp d0' s0' pre' (.pgrad fid p rest)
  have e : ∀ (d : D) (l : List (CacheI3.POp D S F)), CacheI3.plastData d (l ++ [.pgrad fid p rest]) = CacheI3.plastData d l := by
    intro d l; rw [plast_snoc_d]; rfl
  have e' : ∀ (s : S) (l : List (CacheI3.POp D S F)), CacheI3.plastSrc s (l ++ [.pgrad fid p rest]) = CacheI3.plastSrc s l := by
    intro s l; rw [plast_snoc_s]; rfl
  simp only [PAnswer, e, e'] at a1 a2
  rcases a1 with a1 | a1
  · rcases a2 with a2 | a2
    · rw [a1, a2, hd, hs]
    · exact absurd a2 h2
  · exact absurd a1 h1

/-- the product rule as coded reduces to the general formula `r1·g2 + g1·r2` with a zero row for a factor that does not
depend on the fit parameter (exact arithmetic: any commutative semiring) -/
theorem c06_i3_product_rule {A : Type} [CommSemiring A] [DecidableEq A] (dep1 dep2 : Bool) (r1 g1 r2 : List A) (g2 : Option (List A))
    (n : Nat) (h1 : r1.length = n) (h2 : r2.length = n) (hg1 : g1.length = n) (hg2 : ∀ g, g2 = some g → g.length = n)
    (hz1 : dep1 = false → g1 = List.replicate n 0) (hz2 : dep2 = false → g2 = none) (hdep : dep1 = true ∨ dep2 = true) :
    CacheI3.combine dep1 dep2 r1 g1 r2 g2 =
      .vals (CacheI3.addRows (CacheI3.mulRows r1 (CacheI3.gradOrZero n g2)) (CacheI3.mulRows g1 r2)) := by
  have zr : ∀ (l : List A), l.length = n → CacheI3.mulRows l (List.replicate n 0) = List.replicate n 0 := by
    intro l hl; subst hl; exact mulRows_zero_right l
  have zl : ∀ (l : List A), l.length = n → CacheI3.mulRows (List.replicate n 0) l = List.replicate n 0 := by
    intro l hl; subst hl; exact mulRows_zero_left l
  have az : ∀ (l : List A), l.length = n → CacheI3.addRows l (List.replicate n 0) = l := by
    intro l hl; subst hl; exact addRows_zero_right l
  have za : ∀ (l : List A), l.length = n → CacheI3.addRows (List.replicate n 0) l = l := by
    intro l hl; subst hl; exact addRows_zero_left l
  have lm : ∀ (a b : List A), a.length = n → b.length = n → (CacheI3.mulRows a b).length = n := by
    intro a b ha hb; simp [CacheI3.mulRows, ha, hb]
  cases dep1 <;> cases dep2
  · simp at hdep
  · have := hz1 rfl
    subst this
    simp only [CacheI3.combine, Bool.false_and, Bool.false_eq_true, if_false, if_true, h1]
    rw [zl r2 h2, az]
    cases g2 with
    | none => simp [CacheI3.gradOrZero, CacheI3.mulRows, h1]
    | some g => exact lm _ _ h1 (hg2 g rfl)
  · have := hz2 rfl
    subst this
    simp only [CacheI3.combine, Bool.and_false, Bool.false_eq_true, if_false, if_true, CacheI3.gradOrZero]
    rw [zr r1 h1, za _ (lm _ _ hg1 h2)]
  · simp [CacheI3.combine, h1]

end I3Product

/-- the product trace theorem for the flags / constants of the current source, over exact rationals -/
theorem c06_i3_product_trace_for_current_source {D S : Type} (W : CacheI3.World D S ℚ (List ℚ × List ℚ))
    (B : CacheI3.Stub D S ℚ) (srcOf : D → List Nat) (gp : List Nat) (d0 : D) (s0 : S)
    (pre : List (CacheI3.POp D S ℚ)) (o : CacheI3.POp D S ℚ) :
    let close0 := CacheI3.closeAbs (Gen.C06.i3Atol : ℚ)
    let st := (CacheI3.prun W B Gen.C06.bumpAlways close0 srcOf gp (CacheI3.fresh d0 s0) pre).1
    PAnswer W B close0 srcOf gp (CacheI3.plastData d0 (pre ++ [o])) (CacheI3.plastSrc s0 (pre ++ [o])) o
      (CacheI3.pstep W B Gen.C06.bumpAlways close0 srcOf gp st o).2 := by
  have hb : Gen.C06.bumpAlways = true := by simp [Gen.C06.bumpAlways]
  rw [hb]
  exact c06_i3_product_trace W B _ c06_i3_close_refl_for_current_source srcOf gp d0 s0 pre o

/-! non-vacuity -/
example : ∀ a : Nat, (fun x y : Nat => x == y) a a = true := by intro a; simp
/-- a product history over K = 2 sources: ratio, gradient for a parameter of source 0 only (masked row), for one both
factors depend on, for one nobody depends on (scalar 0), across a new trial -/
example :
    (CacheI3.prun (⟨fun d _ k => ([d + 1, d + 2], k.map (· + 10) ++ [3])⟩ : CacheI3.World Nat Nat Nat (List Nat × List Nat))
        ⟨fun _ _ => [2, 3], fun _ _ fid => if fid = 2 then some [1, 1] else none, fun fid => fid == 2⟩ true (fun a b => a == b)
        (fun _ => [0, 1]) [2, 3] (CacheI3.fresh 0 0)
        [.pratio 7 [8], .pgrad 1 7 [8], .pgrad 2 7 [8], .pgrad 0 7 [8], .low (.initTrial 1), .pratio 7 [8]]).2
      = [.vals [2, 6], .vals [34, 0], .vals [1, 56], .zero, .low .unit, .vals [4, 9]] := by decide
/-- K = 2: equal values are cut to one row and hit a slot filled by the one-row key; different values miss -/
example :
    (CacheI3.run (⟨fun d _ k => (d, k)⟩ : CacheI3.World Nat Nat Nat (Nat × List Nat)) true (fun a b => a == b)
        (CacheI3.fresh 0 0) [.get 7 [7], .get 7 [7], .get 7 [8], .initTrial 1, .get 7 [8]]).2
      = [.val (0, [7]) false, .val (0, [7]) true, .val (0, [7, 8]) false, .unit, .val (1, [7, 8]) false] := by decide
example : CacheI3.gradOut [0, 0, 1, 1] [1, 2] 0 [5, 6, 7, 8] = ([5, 6, 0, 0] : List Int) := by decide
example : CacheI3.gradOut [0, 0, 1, 1] [2, 2] 1 [5, 6, 7, 8] = ([5, 6, 7, 8] : List Int) := by decide
example : CacheI3.gradOut [0, 0, 1, 1] [2, 2] 0 [5, 6, 7, 8] = ([0, 0, 0, 0] : List Int) := by decide

end I3
