/-
  Property C17 — data loading returns every row once, identically across modes and formats.

  Theorems about `Model/Load.lean`, for arbitrary name / dtype / cell types, every file system `fs`
  (a function: files do not change while they are loaded), every cast function and every re-open
  block size.  Codecs (npy / parquet / text) enter only as "the file holds this table"; numpy's casts
  and pyarrow are compared by the correspondence check, not proved.
-/
import SkyllhModel.Model.Load
import SkyllhModel.Model.LoadI3
import SkyllhModel.Proofs.Load
import SkyllhModel.Proofs.LoadRename
import SkyllhModel.Proofs.LoadDispatchR7
import SkyllhModel.Proofs.LoadHeaderR7
import SkyllhModel.Generated.C17
import Mathlib.Tactic

open Load C17

section loaders
set_option linter.unusedSectionVars false
variable {N D V P : Type} [DecidableEq N] [DecidableEq D]
variable (castCopy castAssign : D → D → V → Except Err V) (cast : D → D → V → V) (promote : D → D → D)

/-! ### memory-efficient = time-efficient

The code converts cells on two paths: `np.copyto` (constructor, time-efficient mode) and element
assignment (row loop, memory-efficient mode).  `CastOK cast castX o f` is the agreement-domain
guard: on every cell of every kept field, path `castX` succeeds with numpy's value conversion. -/

/-- **Both efficiency modes load the same table**: for every well-formed file, every number of rows
(also across the re-open block, for every block size `bs > 0`) and every option set on whose
conversions the two cast paths agree with numpy's value conversion; a missing file is the same
error in both. -/
theorem c17_memory_eq_time (fs : P → Option (File N D V)) (bs : Nat) (hbs : 0 < bs) (p : P) (o : Opts N D)
    (hwf : ∀ f, fs p = some f → WF f ∧ CastOK cast castCopy o f ∧ CastOK cast castAssign o f) :
    loadFileMem castAssign fs bs p o = loadFileTime castCopy fs p o := by
  cases hp : fs p with
  | none => simp [loadFileMem, loadFileTime, openFile, hp]
  | some f =>
    obtain ⟨hf, hc, ha⟩ := hwf f hp
    rw [loadFileMem_ok cast castAssign fs bs p o f hp hf hbs ha]
    simp [loadFileTime, openFile, hp, ctorNd_ok cast castCopy o f hf hc]

/-- the full statement without the guard on the conversions … -/
def c17_memory_eq_time_unguarded_statement : Prop :=
  ∀ (fs : Nat → Option (File Nat DT Int)) (bs : Nat) (p : Nat) (o : Opts Nat DT), 0 < bs →
    (∀ f, fs p = some f → WF f) →
    loadFileMem castAssignCell fs bs p o = loadFileTime castCopyCell fs p o

/-- … is false for the code's two cast paths: converting the int64 value 2^40 + 5 to int32, the
time-efficient mode wraps to 5 while the memory-efficient mode raises OverflowError (open finding
C17/modes/int-narrowing-out-of-range, replayed on the implementation by the `modes` oracle). -/
theorem c17_memory_eq_time_unguarded_counterexample : ¬ c17_memory_eq_time_unguarded_statement := by
  intro h
  have := h (fun _ => some ⟨[(0, DT.i8)], [[1099511627781]]⟩) 4096 0 ⟨none, [(DT.i8, DT.i4)], []⟩ (by decide)
    (by
      intro f hf
      simp only [Option.some.injEq] at hf
      subst hf
      intro r hr
      simp at hr
      subst hr
      rfl)
  revert this
  decide

/-- kind-changing conversion maps (float64 → int64): the time-efficient mode raises TypeError
(`np.copyto`, rule 'same_kind'), the memory-efficient mode returns a table (open finding
C17/modes/kind-changing-conversion). -/
theorem c17_kind_changing_conversion_differs :
    loadFileTime castCopyCell (fun _ : Nat => some (⟨[(0, DT.f8)], [[4609434218613702656]]⟩ : File Nat DT Int))
        0 ⟨none, [(DT.f8, DT.i8)], []⟩ = .error .castKind ∧
    ∃ a, loadFileMem castAssignCell (fun _ : Nat => some (⟨[(0, DT.f8)], [[4609434218613702656]]⟩ : File Nat DT Int))
        4096 0 ⟨none, [(DT.f8, DT.i8)], []⟩ = .ok a := by
  constructor
  · decide
  · exact ⟨_, rfl⟩

/-- the agreement-domain guard is decidable for the two cast paths of the driver instance
(numpy's `copyto` / element assignment on f8, f4, i8, i4): it holds when no selected field is
converted from a float to an integer dtype and every int64 cell converted to int32 fits. -/
theorem c17_castOK_driver_instance (o : Opts Nat DT) (f : File Nat DT Int)
    (hkind : ∀ s ∈ selected o f.schema, ¬ (isFloatDT s.2.2.1 = true ∧ isFloatDT s.2.2.2 = false))
    (hfit : ∀ s ∈ selected o f.schema, s.2.2.1 = DT.i8 → s.2.2.2 = DT.i4 →
      ∀ v ∈ colT f.rows s.1, -2147483648 ≤ v ∧ v ≤ 2147483647) :
    CastOK castCell castCopyCell o f ∧ CastOK castCell castAssignCell o f := by
  constructor
  · intro s hs v _
    have := hkind s hs
    unfold castCopyCell
    cases h1 : isFloatDT s.2.2.1 <;> cases h2 : isFloatDT s.2.2.2 <;> simp_all
  · intro s hs v hv
    unfold castAssignCell
    cases ha : s.2.2.1 <;> cases hb : s.2.2.2 <;> simp only []
    have := hfit s hs ha hb v hv
    have hno : ¬ (v < -2147483648 ∨ 2147483647 < v) := by omega
    simp [hno, castCell, wrap32]
    omega

/-- without a conversion map (and for exception-listed fields) the guard only asks that both cast
paths are the identity on equal dtypes -/
theorem c17_castOK_of_no_conversion (castX : D → D → V → Except Err V) (o : Opts N D) (f : File N D V)
    (hconv : o.conv = []) (hid : ∀ d v, castX d d v = .ok (cast d d v)) :
    CastOK cast castX o f := by
  intro s hs v _
  have h5 := (selectedFrom_idx o 0 f.schema s hs).2.2.2.2
  have : s.2.2.2 = s.2.2.1 := by
    rw [h5]
    unfold targetDt
    split
    · rfl
    · simp [hconv]
  rw [this]
  exact hid _ _

/-- the block size must be positive: with `bs = 0` the row loop raises ZeroDivisionError on a
non-empty file -/
theorem c17_zero_block_is_error (fs : P → Option (File N D V)) (p : P) (o : Opts N D) (f : File N D V)
    (row : List V) (rest : List (List V)) (hp : fs p = some f) (hrows : f.rows = row :: rest)
    (hvals : ∃ vals, rowVals castAssign (selected o f.schema) row = .ok vals) :
    loadFileMem castAssign fs 0 p o = .error .zeroDivision := by
  obtain ⟨vals, hv⟩ := hvals
  simp [loadFileMem, openFile, hp, hrows, memRows, hv]

theorem C17.appendAll_congr (l₁ l₂ : P → Except Err (Arr N D V)) (ps : List P)
    (h : ∀ q ∈ ps, l₁ q = l₂ q) (a : Arr N D V) :
    appendAll cast promote l₁ a ps = appendAll cast promote l₂ a ps := by
  induction ps generalizing a with
  | nil => rfl
  | cons q qs ih =>
    have hq := h q (by simp)
    have ih' := fun a => ih (fun x hx => h x (by simp [hx])) a
    simp only [appendAll, hq]
    cases l₂ q with
    | error e => rfl
    | ok b =>
      dsimp only
      cases appendArr cast promote a b with
      | error e => rfl
      | ok ab => exact ih' ab

/-- … and so does `NPYFileLoader.load_data` on any list of files (errors included). -/
theorem c17_memory_eq_time_all_files (fs : P → Option (File N D V)) (bs : Nat) (hbs : 0 < bs)
    (paths : List P) (o : Opts N D)
    (hwf : ∀ p ∈ paths, ∀ f, fs p = some f →
      WF f ∧ CastOK cast castCopy o f ∧ CastOK cast castAssign o f) :
    npyLoad castCopy castAssign cast promote .memory fs bs paths o =
      npyLoad castCopy castAssign cast promote .time fs bs paths o := by
  cases paths with
  | nil => rfl
  | cons p ps =>
    have hp := c17_memory_eq_time castCopy castAssign cast fs bs hbs p o (hwf p (by simp))
    have hps : ∀ q ∈ ps, loadFile castCopy castAssign .memory fs bs q o =
        loadFile castCopy castAssign .time fs bs q o :=
      fun q hq => c17_memory_eq_time castCopy castAssign cast fs bs hbs q o (hwf q (by simp [hq]))
    simp only [npyLoad, loadFile] at hps ⊢
    rw [hp]
    cases loadFileTime castCopy fs p o with
    | error e => rfl
    | ok a => exact C17.appendAll_congr cast promote _ _ ps hps a

/-- the block size of the current source is positive (`ridx % bs` is well defined) -/
theorem c17_reopen_block_for_current_source : 0 < Gen.C17.reopenBlock := by
  decide

theorem c17_memory_eq_time_for_current_source (fs : P → Option (File N D V)) (p : P) (o : Opts N D)
    (hwf : ∀ f, fs p = some f → WF f ∧ CastOK cast castCopy o f ∧ CastOK cast castAssign o f) :
    loadFileMem castAssign fs Gen.C17.reopenBlock p o = loadFileTime castCopy fs p o :=
  c17_memory_eq_time castCopy castAssign cast fs _ c17_reopen_block_for_current_source p o hwf

/-! ### every row once, in file order -/

omit [DecidableEq N] [DecidableEq D] in
/-- cell `k` of a loaded column is the cell of row `k` of the table: every row once, in order -/
theorem c17_column_row (rows : List (List V)) (i : Nat) (h : ∀ r ∈ rows, i < r.length) (k : Nat) :
    (colT rows i)[k]? = (rows[k]?).bind (fun r => r[i]?) := by
  induction rows generalizing k with
  | nil => simp [colT]
  | cons r rs ih =>
    have hr : i < r.length := h r (by simp)
    have ih' := ih (fun x hx => h x (by simp [hx]))
    cases k with
    | zero => simp [colT, List.getElem?_eq_getElem hr]
    | succ k =>
      have := ih' k
      simp only [colT] at this ⊢
      simp [List.getElem?_eq_getElem hr, this]

/-- what the hypotheses of the multi-file theorems say about one listed file -/
def C17.GoodFile (fs : P → Option (File N D V)) (o : Opts N D) (sch : List (N × D))
    (qf : P × File N D V) : Prop :=
  fs qf.1 = some qf.2 ∧ qf.2.schema = sch ∧ WF qf.2 ∧
    CastOK cast castCopy o qf.2 ∧ CastOK cast castAssign o qf.2

/-- **Several files**: loading the listed files (same field layout, distinct field names) in either
mode gives exactly the table obtained from the single file that holds all rows of all files in
file order — every row once, none dropped, none duplicated, order kept. -/
theorem c17_rows_once_in_order (mode : Mode) (fs : P → Option (File N D V)) (bs : Nat) (hbs : 0 < bs)
    (o : Opts N D) (sch : List (N × D)) (first : P × File N D V) (rest : List (P × File N D V))
    (hnd : (sch.map (·.1)).Nodup) (hcast : ∀ d v, cast d d v = v) (hprom : ∀ d, promote d d = d)
    (hfiles : ∀ qf ∈ first :: rest, C17.GoodFile castCopy castAssign cast fs o sch qf) :
    npyLoad castCopy castAssign cast promote mode fs bs ((first :: rest).map (·.1)) o =
      .ok (specArr cast o ⟨sch, ((first :: rest).map (·.2.rows)).flatten⟩) := by
  have hload : ∀ qf ∈ first :: rest,
      loadFile castCopy castAssign mode fs bs qf.1 o = .ok (specArr cast o qf.2) := by
    intro qf hqf
    obtain ⟨hfs, _, hwf, hc, ha⟩ := hfiles qf hqf
    cases mode with
    | time => simp [loadFile, loadFileTime, openFile, hfs, ctorNd_ok cast castCopy o qf.2 hwf hc, specArr]
    | memory => simp [loadFile, loadFileMem_ok cast castAssign fs bs qf.1 o qf.2 hfs hwf hbs ha, specArr]
  obtain ⟨hfs, hsch, hwf, _, _⟩ := hfiles first (by simp)
  have hfirst := hload first (by simp)
  have hall := appendAll_spec cast promote o sch (fun q => loadFile castCopy castAssign mode fs bs q o)
    hnd hcast hprom rest first.2.rows
    (fun qf hqf => ⟨hload qf (by simp [hqf]), (hfiles qf (by simp [hqf])).2.1⟩)
  obtain ⟨q, f⟩ := first
  obtain ⟨fsch, frows⟩ := f
  simp only at hsch hfirst hall
  subst hsch
  simp only [List.map_cons, npyLoad, hfirst, hall, List.flatten_cons]

/-! ### the listed order survives the path resolution -/

omit [DecidableEq N] [DecidableEq D] in
theorem C17.absPathsGo_eq (join : P → P) (es : List (PathEntry P)) (acc : List P) :
    absPathsGo join es acc = acc ++ es.map (resolveEntry join) := by
  induction es generalizing acc with
  | nil => simp [absPathsGo]
  | cons e es ih => simp [absPathsGo, ih]

omit [DecidableEq N] [DecidableEq D] in
/-- **`get_abs_pathfilename_list` keeps the listed order**: entry `i` of the result is the resolved
entry `i` of the list (absolute names unchanged, relative ones joined to the root directory), for
any mix of relative and absolute names; nothing is dropped, duplicated or moved. -/
theorem c17_abs_paths_in_listed_order (join : P → P) (es : List (PathEntry P)) :
    getAbsPaths join es = es.map (resolveEntry join) ∧
    (getAbsPaths join es).length = es.length ∧
    ∀ i : Nat, (getAbsPaths join es)[i]? = (es[i]?).map (resolveEntry join) := by
  have h : getAbsPaths join es = es.map (resolveEntry join) := by
    simp [getAbsPaths, C17.absPathsGo_eq]
  refine ⟨h, by simp [h], fun i => by simp [h]⟩

/-- **Rows in listed-file order through the path resolution**: loading the files of a data set that
are listed as any mix of relative and absolute names gives the rows of the first listed file, then
those of the second, … (composition of the path loop with `c17_rows_once_in_order`). -/
theorem c17_rows_in_listed_file_order (join : P → P) (mode : Mode) (fs : P → Option (File N D V)) (bs : Nat)
    (hbs : 0 < bs) (o : Opts N D) (sch : List (N × D))
    (first : PathEntry P × File N D V) (rest : List (PathEntry P × File N D V))
    (hnd : (sch.map (·.1)).Nodup) (hcast : ∀ d v, cast d d v = v) (hprom : ∀ d, promote d d = d)
    (hfiles : ∀ ef ∈ first :: rest,
      C17.GoodFile castCopy castAssign cast fs o sch (resolveEntry join ef.1, ef.2)) :
    npyLoad castCopy castAssign cast promote mode fs bs (getAbsPaths join ((first :: rest).map (·.1))) o =
      .ok (specArr cast o ⟨sch, ((first :: rest).map (·.2.rows)).flatten⟩) := by
  have h := c17_rows_once_in_order castCopy castAssign cast promote mode fs bs hbs o sch
    (resolveEntry join first.1, first.2) (rest.map (fun ef => (resolveEntry join ef.1, ef.2)))
    hnd hcast hprom (by
      intro qf hqf
      rcases List.mem_cons.mp hqf with rfl | hq
      · exact hfiles first (by simp)
      · obtain ⟨ef, hef, rfl⟩ := List.mem_map.mp hq
        exact hfiles ef (by simp [hef]))
  rw [(c17_abs_paths_in_listed_order join ((first :: rest).map (·.1))).1]
  simpa [List.map_map, Function.comp_def] using h

/-! ### the file lists of a data set do not alias the caller's list -/

omit [DecidableEq N] [DecidableEq D] in
theorem C17.heapModify_other (heap : List (List P)) (src ref : Nat) (f : List P → List P) (h : ref ≠ src) :
    (heapModify heap src f)[ref]? = heap[ref]? := by
  unfold heapModify
  cases hs : heap[src]? with
  | none => rfl
  | some l => simp [List.getElem?_set, Ne.symm h]

omit [DecidableEq N] [DecidableEq D] in
theorem C17.callerOps_other (heap : List (List P)) (src ref : Nat) (ops : List (ListOp P)) (h : ref ≠ src) :
    (callerOps heap src ops)[ref]? = heap[ref]? := by
  unfold callerOps
  induction ops generalizing heap with
  | nil => rfl
  | cons op ops ih =>
    simp only [List.foldl_cons]
    rw [ih, C17.heapModify_other _ _ _ _ h]

omit [DecidableEq N] [DecidableEq D] in
/-- **A data set's file list is fixed at definition**: whatever the caller does afterwards with the
list object it passed to the constructor / setter (append, pop, reverse, clear, any number of
times), the data set still lists exactly the files it was defined with — in the heap model of the
setter as coded (`list(pathfilenames)`: a new object). -/
theorem c17_file_list_fixed_at_definition (initial : List P) (ops : List (ListOp P)) :
    fileListAfter defineCopy initial ops = some initial := by
  simp only [fileListAfter, defineCopy, List.getElem?_cons_zero, List.length_singleton]
  rw [C17.callerOps_other _ 0 1 ops (by decide)]
  rfl

/-- the full statement for a setter that keeps the caller's object … -/
def c17_file_list_alias_statement : Prop :=
  ∀ (initial : List Nat) (ops : List (ListOp Nat)), fileListAfter defineAlias initial ops = some initial

/-- … is false: the caller appends one more file to its list and the data set "has" three files -/
theorem c17_file_list_alias_counterexample : ¬ c17_file_list_alias_statement := by
  intro h
  have := h [1, 2] [.append 3]
  revert this
  decide

/-! ### kept fields, dtype conversion with exception list -/

/-- **keep_fields**: the loaded fields are exactly the fields of the file whose name is kept
(`keep_fields is None` or the name is listed), in file order; names not in the file are ignored. -/
theorem c17_keep_fields (o : Opts N D) (f : File N D V) (hf : WF f) (hc : CastOK cast castCopy o f) :
    ∃ a, ctorNd castCopy o f = .ok a ∧
      a.cols.map (·.name) = (f.schema.map (·.1)).filter (fun n => isKept o.keep n) := by
  refine ⟨_, ctorNd_ok cast castCopy o f hf hc, ?_⟩
  simp only [specCols, selected, List.map_map]
  exact selectedFrom_names o 0 f.schema

omit [DecidableEq D] in
theorem c17_isKept_iff (ks : List N) (n : N) : isKept (some ks) n = true ↔ n ∈ ks := by
  simp [isKept]

omit [DecidableEq D] in
theorem c17_isKept_none (n : N) : isKept (none : Option (List N)) n = true := rfl

omit [DecidableEq D] in
/-- **A requested name is matched exactly**: asking for the single field `n` (as `[n]`, or as the
plain string the loaders document) returns exactly that field if the file has it and nothing
otherwise — whatever other field names the file has (names that contain `n`, are contained in it,
or differ in case are different names). -/
theorem c17_keep_single_name (names : List N) (n : N) (hnd : names.Nodup) :
    names.filter (fun m => isKept (some [n]) m) = if n ∈ names then [n] else [] := by
  induction names with
  | nil => simp
  | cons m ms ih =>
    simp only [List.nodup_cons] at hnd
    obtain ⟨hm, hnd'⟩ := hnd
    have ih' := ih hnd'
    by_cases hmn : m = n
    · subst hmn
      have hnot : m ∉ ms := hm
      simp only [hnot, if_false] at ih'
      simp [List.filter_cons, isKept, ih']
      simpa [isKept] using ih'
    · have hk : isKept (some [n]) m = false := by simp [isKept, hmn]
      have hne : ¬ n = m := fun e => hmn e.symm
      simp only [List.filter_cons, hk, List.mem_cons, hne, false_or]
      exact ih'

/-- an exception list with the single name `n` excepts `n` and no other field -/
theorem c17_except_single_name (conv : List (D × D)) (n m : N) (dt d : D) (hc : conv.lookup dt = some d) :
    targetDt conv [n] m dt = if m = n then dt else d := by
  unfold targetDt
  by_cases h : m = n
  · simp [h]
  · simp [h, hc]

/-- **dtype conversion**: every field the loader returns for a well-formed file comes from a field
`(name, dt)` of the file, has the dtype `targetDt` and holds the file column converted from `dt`. -/
theorem c17_dtype_conversion_except (o : Opts N D) (f : File N D V) (hf : WF f)
    (hc : CastOK cast castCopy o f) :
    ∃ a, ctorNd castCopy o f = .ok a ∧
      ∀ c ∈ a.cols, ∃ i dt, f.schema[i]? = some (c.name, dt) ∧
        c.dt = targetDt o.conv o.exc c.name dt ∧ c.cells = (colT f.rows i).map (cast dt c.dt) := by
  refine ⟨_, ctorNd_ok cast castCopy o f hf hc, ?_⟩
  intro c hcm
  simp only [specCols, List.mem_map] at hcm
  obtain ⟨s, hs, rfl⟩ := hcm
  obtain ⟨_, _, h3, _, h5⟩ := selectedFrom_idx o 0 f.schema s hs
  exact ⟨s.1, s.2.2.1, by simpa using h3, h5, rfl⟩

/-- a field on the exception list keeps its dtype -/
theorem c17_targetDt_except (conv : List (D × D)) (exc : List N) (n : N) (dt : D) (h : n ∈ exc) :
    targetDt conv exc n dt = dt := by
  simp [targetDt, h]

/-- a field not on the exception list whose dtype is a key of the conversion map is converted -/
theorem c17_targetDt_converted (conv : List (D × D)) (exc : List N) (n : N) (dt d : D)
    (h : n ∉ exc) (hc : conv.lookup dt = some d) : targetDt conv exc n dt = d := by
  simp [targetDt, h, hc]

/-- … and every other field keeps its dtype -/
theorem c17_targetDt_unlisted (conv : List (D × D)) (exc : List N) (n : N) (dt : D)
    (hc : conv.lookup dt = none) : targetDt conv exc n dt = dt := by
  unfold targetDt
  split <;> simp [hc]

/-! ### formats -/

/-- **parquet = npy**: on files holding the same tables the parquet loader (column selection in
`read_table`, `concat_tables`, constructor) returns what the npy loader returns, in both modes. -/
theorem c17_parquet_eq_npy (mode : Mode) (fs : P → Option (File N D V)) (bs : Nat) (hbs : 0 < bs)
    (o : Opts N D) (sch : List (N × D)) (first : P × File N D V) (rest : List (P × File N D V))
    (hnd : (sch.map (·.1)).Nodup) (hcast : ∀ d v, cast d d v = v) (hprom : ∀ d, promote d d = d)
    (hfiles : ∀ qf ∈ first :: rest, C17.GoodFile castCopy castAssign cast fs o sch qf)
    (hall : CastOK cast castCopy o ⟨sch, ((first :: rest).map (·.2.rows)).flatten⟩) :
    parquetLoad castCopy fs ((first :: rest).map (·.1)) o =
      npyLoad castCopy castAssign cast promote mode fs bs ((first :: rest).map (·.1)) o := by
  rw [c17_rows_once_in_order castCopy castAssign cast promote mode fs bs hbs o sch first rest hnd hcast hprom hfiles]
  obtain ⟨hfs, hsch, hwf, _, _⟩ := hfiles first (by simp)
  have hpq := pqAll_spec fs o.keep sch rest first.2.rows
    (fun qf hqf => ⟨(hfiles qf (by simp [hqf])).1, (hfiles qf (by simp [hqf])).2.1, (hfiles qf (by simp [hqf])).2.2.1⟩)
  have hread := pqRead_ok o.keep first.2 hwf
  rw [hsch] at hread
  simp only [List.map_cons, List.flatten_cons] at hall
  simp only [List.map_cons, parquetLoad, openFile, hfs, hread, hpq, List.flatten_cons,
    ctorPq_spec cast castCopy o sch _ hall]

/-- **parquet: a missing file is the same error as for npy** (first file) -/
theorem c17_parquet_missing_first (fs : P → Option (File N D V)) (p : P) (ps : List P) (o : Opts N D)
    (h : fs p = none) : parquetLoad castCopy fs (p :: ps) o = .error .fileMissing := by
  simp [parquetLoad, openFile, h]

/-- the text loader on one file whose columns are all float64 (`f8`): the same table as the npy
loader whenever a column is selected (the text loader refuses an empty selection) -/
theorem C17.csvLoadFile_eq (f8 : D) (fs : P → Option (File N D V)) (p : P) (o : Opts N D)
    (hcast : ∀ d v, cast d d v = v)
    (h : ∀ f, fs p = some f → WF f ∧ CastOK cast castCopy o f ∧ (∀ nd ∈ f.schema, nd.2 = f8) ∧
      selected (⟨o.keep, [], []⟩ : Opts N D) f.schema ≠ []) :
    csvLoadFile castCopy cast f8 fs p o = loadFileTime castCopy fs p o := by
  cases hp : fs p with
  | none => simp [csvLoadFile, loadFileTime, openFile, hp]
  | some f =>
    obtain ⟨hwf, hc, hf8, hne⟩ := h f hp
    have hemp : (selected (⟨o.keep, [], []⟩ : Opts N D) f.schema).isEmpty = false := by
      cases hs : selected (⟨o.keep, [], []⟩ : Opts N D) f.schema with
      | nil => exact absurd hs hne
      | cons _ _ => rfl
    have hretag : (pqOf o.keep f.schema f.rows).map (fun c => (c.1, f8, c.2.2.map (cast c.2.1 f8))) =
        pqOf o.keep f.schema f.rows := by
      unfold pqOf
      rw [List.map_map]
      apply List.map_congr_left
      intro s hs
      have hdt : s.2.2.1 = f8 := by
        have := (selectedFrom_idx _ 0 f.schema s hs).2.2.1
        exact hf8 _ (List.mem_of_getElem? this)
      have hid : cast f8 f8 = id := funext (hcast f8)
      simp [hdt, hid]
    simp only [csvLoadFile, loadFileTime, openFile, hp, hemp, pqRead_ok o.keep f hwf, hretag,
      ctorNd_ok cast castCopy o f hwf hc, ctorPq_spec cast castCopy o f.schema f.rows hc, specArr]
    rfl

/-- **text = npy**: on files holding the same float64 tables the text loader returns what the npy
loader returns (any number of files, errors included), provided a column is selected in each file.
The float64 hypothesis is needed: the text loader reads every column as float64. -/
theorem c17_csv_eq_npy (f8 : D) (mode : Mode) (fs : P → Option (File N D V)) (bs : Nat) (hbs : 0 < bs)
    (paths : List P) (o : Opts N D) (hcast : ∀ d v, cast d d v = v)
    (h : ∀ p ∈ paths, ∀ f, fs p = some f →
      WF f ∧ CastOK cast castCopy o f ∧ CastOK cast castAssign o f ∧ (∀ nd ∈ f.schema, nd.2 = f8) ∧
      selected (⟨o.keep, [], []⟩ : Opts N D) f.schema ≠ []) :
    csvLoad castCopy cast promote f8 fs paths o =
      npyLoad castCopy castAssign cast promote mode fs bs paths o := by
  have hmode : npyLoad castCopy castAssign cast promote mode fs bs paths o =
      npyLoad castCopy castAssign cast promote .time fs bs paths o := by
    cases mode with
    | time => rfl
    | memory =>
      exact c17_memory_eq_time_all_files castCopy castAssign cast promote fs bs hbs paths o
        (fun p hp f hf => ⟨(h p hp f hf).1, (h p hp f hf).2.1, (h p hp f hf).2.2.1⟩)
  rw [hmode]
  have hfile : ∀ q ∈ paths, csvLoadFile castCopy cast f8 fs q o = loadFileTime castCopy fs q o :=
    fun q hq => C17.csvLoadFile_eq castCopy cast f8 fs q o hcast
      (fun f hf => ⟨(h q hq f hf).1, (h q hq f hf).2.1, (h q hq f hf).2.2.2⟩)
  cases paths with
  | nil => rfl
  | cons p ps =>
    have hp := hfile p (by simp)
    have hps : ∀ q ∈ ps, csvLoadFile castCopy cast f8 fs q o = loadFile castCopy castAssign .time fs bs q o :=
      fun q hq => hfile q (by simp [hq])
    simp only [csvLoad, npyLoad, loadFile] at hps ⊢
    rw [hp]
    cases loadFileTime castCopy fs p o with
    | error e => rfl
    | ok a => exact C17.appendAll_congr cast promote _ _ ps hps a

/-- without the float64 hypothesis the claim is false: an int64 column comes back as float64 -/
theorem c17_csv_forces_float64 :
    csvLoadFile castCopyCell castCell DT.f8 (fun _ : Nat => some (⟨[(0, DT.i8)], [[5]]⟩ : File Nat DT Int)) 0
        ⟨none, [], []⟩ ≠
      loadFileTime castCopyCell (fun _ : Nat => some (⟨[(0, DT.i8)], [[5]]⟩ : File Nat DT Int)) 0 ⟨none, [], []⟩ := by
  intro h
  have h1 : loadFileTime castCopyCell (fun _ : Nat => some (⟨[(0, DT.i8)], [[5]]⟩ : File Nat DT Int)) 0
      ⟨none, [], []⟩ = .ok ⟨[⟨0, DT.i8, [5]⟩], 1⟩ := by decide
  rw [h1] at h
  have h2 : ∃ v, csvLoadFile castCopyCell castCell DT.f8
      (fun _ : Nat => some (⟨[(0, DT.i8)], [[5]]⟩ : File Nat DT Int)) 0 ⟨none, [], []⟩ =
      .ok ⟨[⟨0, DT.f8, [v]⟩], 1⟩ := ⟨_, rfl⟩
  obtain ⟨v, hv⟩ := h2
  rw [hv] at h
  simp at h

/-- the text loader refuses an empty column selection where the npy loader returns an empty table -/
theorem c17_csv_empty_selection (f8 : D) (fs : P → Option (File N D V)) (p : P) (o : Opts N D) (f : File N D V)
    (h : fs p = some f) (hsel : selected (⟨o.keep, [], []⟩ : Opts N D) f.schema = []) :
    csvLoadFile castCopy cast f8 fs p o = .error .noColumns := by
  simp [csvLoadFile, openFile, h, hsel]

/-! ### pickle files -/

omit [DecidableEq N] [DecidableEq D] in
/-- **pkl: one object per listed file, in listed order** (all keyword arguments are ignored) -/
theorem c17_pkl_objects_in_order {O : Type} (fs : P → Option O) (obj : P → O) (paths : List P)
    (h : ∀ p ∈ paths, fs p = some (obj p)) : pklObjects fs paths = .ok (paths.map obj) := by
  induction paths with
  | nil => rfl
  | cons p ps ih =>
    simp [pklObjects, h p (by simp), ih (fun q hq => h q (by simp [hq]))]

omit [DecidableEq N] [DecidableEq D] in
/-- the object itself for exactly one file, the list of objects (in listed order) otherwise -/
theorem c17_pkl_one_or_many {O : Type} (fs : P → Option O) (obj : P → O) (paths : List P)
    (h : ∀ p ∈ paths, fs p = some (obj p)) :
    pklLoad fs paths = match paths with
      | [p] => .ok (.one (obj p))
      | ps => .ok (.many (ps.map obj)) := by
  unfold pklLoad
  rw [c17_pkl_objects_in_order fs obj paths h]
  match paths with
  | [] => rfl
  | [p] => rfl
  | p :: q :: ps => rfl

omit [DecidableEq N] [DecidableEq D] in
/-- a missing pkl file is an error, wherever it is in the list -/
theorem c17_pkl_missing_is_error {O : Type} (fs : P → Option O) (paths : List P) (q : P) (hq : q ∈ paths)
    (hmiss : fs q = none) : pklLoad fs paths = .error .fileMissing := by
  have : pklObjects fs paths = .error .fileMissing := by
    induction paths with
    | nil => simp at hq
    | cons p ps ih =>
      simp only [pklObjects]
      cases hp : fs p with
      | none => rfl
      | some o =>
        rcases List.mem_cons.mp hq with rfl | hq'
        · rw [hmiss] at hp; cases hp
        · simp [ih hq']
  simp [pklLoad, this]

/-! ### missing file -/

/-- the first listed file missing: exactly the "file does not exist" error, in both modes -/
theorem c17_missing_first_file (mode : Mode) (fs : P → Option (File N D V)) (bs : Nat) (p : P) (ps : List P)
    (o : Opts N D) (h : fs p = none) :
    npyLoad castCopy castAssign cast promote mode fs bs (p :: ps) o = .error .fileMissing := by
  cases mode <;> simp [npyLoad, loadFile, loadFileTime, loadFileMem, openFile, h]


theorem C17.appendAll_error (load : P → Except Err (Arr N D V)) (ps : List P) (q : P) (hq : q ∈ ps)
    (e : Err) (h : load q = .error e) (a : Arr N D V) :
    ∃ e', appendAll cast promote load a ps = .error e' := by
  induction ps generalizing a with
  | nil => simp at hq
  | cons x xs ih =>
    simp only [appendAll]
    cases hx : load x with
    | error e₁ => exact ⟨e₁, rfl⟩
    | ok b =>
      dsimp only
      cases hab : appendArr cast promote a b with
      | error e₁ => exact ⟨e₁, rfl⟩
      | ok ab =>
        dsimp only
        rcases List.mem_cons.mp hq with rfl | hq'
        · rw [h] at hx; cases hx
        · exact ih hq' ab

/-- **a missing file is an error** (npy loader, both modes, wherever the file is in the list) -/
theorem c17_missing_file_is_error (mode : Mode) (fs : P → Option (File N D V)) (bs : Nat)
    (paths : List P) (o : Opts N D) (q : P) (hq : q ∈ paths) (hmiss : fs q = none) :
    ∃ e, npyLoad castCopy castAssign cast promote mode fs bs paths o = .error e := by
  have hload : loadFile castCopy castAssign mode fs bs q o = .error .fileMissing := by
    cases mode <;> simp [loadFile, loadFileTime, loadFileMem, openFile, hmiss]
  cases paths with
  | nil => simp at hq
  | cons p ps =>
    simp only [npyLoad]
    cases hp : loadFile castCopy castAssign mode fs bs p o with
    | error e => exact ⟨e, rfl⟩
    | ok a =>
      rcases List.mem_cons.mp hq with rfl | hq'
      · rw [hload] at hp; cases hp
      · exact C17.appendAll_error cast promote _ ps q hq' _ hload a

end loaders

/-! ### data-set level: stage tables, keep fields through the renaming dictionaries, tidy-up -/

section dataset
set_option linter.unusedSectionVars false
variable {N D V P : Type} [DecidableEq N] [DecidableEq D]

/-- `or_check` on a union of stages = any of them -/
theorem c17_orCheck_or (s a b : Nat) : orCheck s (a ||| b) = (orCheck s a || orCheck s b) := by
  unfold orCheck
  rw [Nat.and_or_distrib_left, Bool.eq_iff_iff]
  simp only [bne_iff_ne, ne_eq, Bool.or_eq_true, Nat.or_eq_zero_iff]
  tauto

/-- `get_joint_names`: a field is listed iff its stage shares a bit with the requested stages -/
theorem c17_jointNames_mem (table : List (N × Nat)) (stages : Nat) (n : N) :
    n ∈ jointNames table stages ↔ ∃ s, (n, s) ∈ table ∧ s &&& stages ≠ 0 := by
  simp only [jointNames, List.mem_map, List.mem_filter, orCheck, bne_iff_ne]
  constructor
  · rintro ⟨⟨n', s⟩, ⟨hm, hs⟩, rfl⟩
    exact ⟨s, hm, hs⟩
  · rintro ⟨s, hm, hs⟩
    exact ⟨(n, s), ⟨hm, hs⟩, rfl⟩

/-- the four stage values of the current source are distinct single bits -/
theorem c17_stage_bits_for_current_source :
    Gen.C17.stages.dpExp &&& Gen.C17.stages.dpMc = 0 ∧ Gen.C17.stages.dpExp &&& Gen.C17.stages.anExp = 0 ∧
    Gen.C17.stages.dpExp &&& Gen.C17.stages.anMc = 0 ∧ Gen.C17.stages.dpMc &&& Gen.C17.stages.anExp = 0 ∧
    Gen.C17.stages.dpMc &&& Gen.C17.stages.anMc = 0 ∧ Gen.C17.stages.anExp &&& Gen.C17.stages.anMc = 0 ∧
    Gen.C17.stages.dpExp ≠ 0 ∧ Gen.C17.stages.dpMc ≠ 0 ∧ Gen.C17.stages.anExp ≠ 0 ∧ Gen.C17.stages.anMc ≠ 0 := by
  decide

/-- the inverse renaming finds the original name of a renamed field when new names are distinct -/
theorem C17.invLookup_of_mem (ren : List (N × N)) (o r : N) (h : (o, r) ∈ ren)
    (hinj : (ren.map (·.2)).Nodup) : invLookup ren r = some o := by
  unfold invLookup
  induction ren with
  | nil => simp at h
  | cons p ps ih =>
    simp only [List.map_cons, List.nodup_cons] at hinj
    obtain ⟨hnot, hnd⟩ := hinj
    simp only [List.reverse_cons, List.find?_append]
    rcases List.mem_cons.mp h with rfl | hin
    · have : List.find? (fun p => decide (p.2 = r)) ps.reverse = none := by
        rw [List.find?_eq_none]
        intro x hx
        simp only [decide_eq_true_eq]
        intro hxr
        exact hnot (List.mem_map.mpr ⟨x, List.mem_reverse.mp hx, hxr⟩)
      simp [this]
    · have := ih hin hnd
      cases hfind : List.find? (fun p => decide (p.2 = r)) ps.reverse with
      | none => simp [hfind] at this
      | some x => simpa [hfind] using this

/-- **rename onto a required name, loading side**: when the dictionary renames the file field `o`
to `r` (new names distinct) and `r` is required for the preparation or analysis of the experimental
data, or requested by the user, then the *original* name `o` is in the keep-field list handed to the
file loader — also when the file has another field called `r`. -/
theorem c17_rename_then_required (st : Stages) (c : DsCfg N D) (o r : N)
    (hren : (o, r) ∈ c.expRen) (hinj : (c.expRen.map (·.2)).Nodup)
    (hreq : r ∈ jointNames c.merged (st.dpExp ||| st.anExp) ∨ r ∈ c.keep) :
    o ∈ keepExp st c ∧ o ∈ keepMc st c := by
  have hinv := C17.invLookup_of_mem c.expRen o r hren hinj
  have hmem : r ∈ jointNames c.merged (st.dpExp ||| st.anExp) ++ c.keep := by
    rcases hreq with h | h <;> simp [h]
  have : o ∈ new2orig c.expRen (jointNames c.merged (st.dpExp ||| st.anExp) ++ c.keep) := by
    unfold new2orig
    exact List.mem_map.mpr ⟨r, hmem, by simp [hinv]⟩
  exact ⟨this, by unfold keepMc; exact List.mem_append_left _ this⟩

/-- a required name that no dictionary entry produces is requested under its own name -/
theorem c17_unrenamed_required (st : Stages) (c : DsCfg N D) (r : N)
    (hno : ∀ p ∈ c.expRen, p.2 ≠ r)
    (hreq : r ∈ jointNames c.merged (st.dpExp ||| st.anExp) ∨ r ∈ c.keep) :
    r ∈ keepExp st c := by
  have hinv : invLookup c.expRen r = none := by
    unfold invLookup
    rw [Option.map_eq_none_iff, List.find?_eq_none]
    intro x hx
    simpa using hno x (List.mem_reverse.mp hx)
  have hmem : r ∈ jointNames c.merged (st.dpExp ||| st.anExp) ++ c.keep := by
    rcases hreq with h | h <;> simp [h]
  unfold keepExp new2orig
  exact List.mem_map.mpr ⟨r, hmem, by simp [hinv]⟩

/-- **rename onto a required name, MC half**: the MC keep-field list contains the original name of
every field that the MC dictionary renames to a name required at any of the four stages (or
requested) -/
theorem c17_rename_then_required_mc (st : Stages) (c : DsCfg N D) (o r : N)
    (hren : (o, r) ∈ c.mcRen) (hinj : (c.mcRen.map (·.2)).Nodup)
    (hreq : r ∈ jointNames c.merged (st.dpExp ||| st.anExp ||| st.dpMc ||| st.anMc) ∨ r ∈ c.keep) :
    o ∈ keepMc st c := by
  have hinv := C17.invLookup_of_mem c.mcRen o r hren hinj
  have hmem : r ∈ jointNames c.merged (st.dpExp ||| st.anExp ||| st.dpMc ||| st.anMc) ++ c.keep := by
    rcases hreq with h | h <;> simp [h]
  unfold keepMc
  apply List.mem_append_right
  unfold new2orig
  exact List.mem_map.mpr ⟨r, hmem, by simp [hinv]⟩

/-- the data-set level exception list is given in new names and handed to the loader in original
names (through the dictionary of the respective half) -/
theorem c17_except_list_in_original_names (ren : List (N × N)) (exc : List N) (o r : N)
    (hren : (o, r) ∈ ren) (hinj : (ren.map (·.2)).Nodup) (hr : r ∈ exc) :
    o ∈ excOrig ren (some exc) := by
  have hinv := C17.invLookup_of_mem ren o r hren hinj
  unfold excOrig new2orig
  exact List.mem_map.mpr ⟨r, hr, by simp [hinv]⟩

theorem C17.lookup_filter_key (g : N → Bool) (l : List (N × Nat)) (n : N) :
    (l.filter (fun p => g p.1)).lookup n = if g n then l.lookup n else none := by
  induction l with
  | nil => simp
  | cons q qs ih =>
    obtain ⟨a, b⟩ := q
    by_cases ha : n = a
    · subst ha
      by_cases hg : g n = true
      · simp [hg]
      · simp [hg, ih]
    · have hna : (n == a) = false := by simpa using ha
      by_cases hg : g a = true
      · simp [List.lookup_cons, hg, hna, ih]
      · simp [List.lookup_cons, hg, hna, ih]

theorem C17.lookup_map_override (f : N × Nat → N × Nat) (g : N → Nat → Nat)
    (hf : ∀ p, f p = (p.1, g p.1 p.2)) (cfg : List (N × Nat)) (n : N) :
    (cfg.map f).lookup n = (cfg.lookup n).map (g n) := by
  induction cfg with
  | nil => rfl
  | cons q qs ih =>
    obtain ⟨a, b⟩ := q
    by_cases ha : n = a
    · subst ha
      simp [hf]
    · have hna : (n == a) = false := by simpa using ha
      simp [List.lookup_cons, hf, hna, ← ih]

/-- `{**cfg, **ds}`: the data-set level entry wins, otherwise the configuration-level entry -/
theorem c17_merged_lookup (cfg ds : List (N × Nat)) (n : N) :
    (mergeTables cfg ds).lookup n = (ds.lookup n).or (cfg.lookup n) := by
  unfold mergeTables
  rw [List.lookup_append, C17.lookup_map_override _ (fun k v => (ds.lookup k).getD v) (by
      intro p
      cases h : ds.lookup p.1 <;> simp) cfg n,
    C17.lookup_filter_key (fun k => (cfg.lookup k).isNone) ds n]
  cases hc : cfg.lookup n with
  | none => simp
  | some v =>
    cases hd : ds.lookup n with
    | none => simp
    | some s => simp

/-- a data-set level field is required at a stage iff the merged table says so: an override to 0
removes the requirement, a new entry adds it -/
example : jointNames (mergeTables [((0 : Nat), 4), (1, 4)] [(1, 0), (2, 4)]) 4 = [0, 2] := by decide

/-- renaming one field (the renaming step of `load_data` for a one-entry dictionary): the column
loaded under the original name is present under the new name with the same content. -/
theorem c17_rename_single (a : Arr N D V) (o r : N) (col : Col N D V)
    (hcol : col ∈ a.cols) (hname : col.name = o) (hnd : (a.cols.map (·.name)).Nodup)
    (hfree : r ∉ a.cols.map (·.name)) :
    ∃ a', renameFields [(o, r)] a = .ok a' ∧ { col with name := r } ∈ a'.cols := by
  have hstale : o ∈ a.cols.map (·.name) := List.mem_map.mpr ⟨col, hcol, hname⟩
  have hpop : ∀ (cols : List (Col N D V)), col ∈ cols → (cols.map (·.name)).Nodup →
      ∃ rest, dictPop cols o = some (col, rest) ∧ ∀ x ∈ rest, x ∈ cols := by
    intro cols
    induction cols with
    | nil => intro h; simp at h
    | cons x xs ih =>
      intro hmem hnd
      simp only [List.map_cons, List.nodup_cons] at hnd
      rcases List.mem_cons.mp hmem with rfl | hin
      · exact ⟨xs, by simp [dictPop, hname], fun y hy => by simp [hy]⟩
      · have hx : x.name ≠ o := by
          intro hxo
          exact hnd.1 (List.mem_map.mpr ⟨col, hin, by rw [hname, hxo]⟩)
        obtain ⟨rest, hrest, hsub⟩ := ih hin hnd.2
        refine ⟨x :: rest, by simp [dictPop, hx, hrest], ?_⟩
        intro y hy
        rcases List.mem_cons.mp hy with rfl | hy'
        · simp
        · simp [hsub y hy']
  have hset : ∀ (cols : List (Col N D V)) (c : Col N D V), c ∈ dictSet cols c := by
    intro cols c
    induction cols with
    | nil => simp [dictSet]
    | cons x xs ih =>
      unfold dictSet
      split
      · simp
      · simp [ih]
  obtain ⟨rest, hrest, hsub⟩ := hpop a.cols hcol hnd
  have hfree' : r ∉ rest.map (·.name) := by
    intro hin
    obtain ⟨x, hx, hxn⟩ := List.mem_map.mp hin
    exact hfree (List.mem_map.mpr ⟨x, hsub x hx, hxn⟩)
  refine ⟨{ a with cols := dictSet rest { col with name := r } }, ?_, hset _ _⟩
  simp only [renameFields, renameGo, hstale, if_true, hrest, hfree', if_false]

/-- renaming onto the name of another existing field is refused (KeyError) instead of silently
overwriting that field -/
theorem c17_rename_collision_is_error (a : Arr N D V) (o r : N) (col other : Col N D V) (rest : List (Col N D V))
    (hstale : o ∈ a.cols.map (·.name)) (hpop : dictPop a.cols o = some (col, rest))
    (hother : other ∈ rest) (hname : other.name = r) :
    renameFields [(o, r)] a = .error .keyError := by
  have : r ∈ rest.map (·.name) := List.mem_map.mpr ⟨other, hother, hname⟩
  simp [renameFields, renameGo, hstale, hpop, this]

/-- **Renaming, any dictionary that does not chain.**  Keys distinct, new names distinct, no new
name is also a key, field names distinct, and the new name of every field that is present is free:
`rename_fields` succeeds, keeps the length, and the fields of the result are exactly the fields of
the array, each under its new name (`dict.get(name, name)`), with unchanged dtype and content —
nothing lost, nothing duplicated, nothing else added. -/
theorem c17_rename_all (ren : List (N × N)) (a : Arr N D V)
    (hk : (ren.map (·.1)).Nodup) (hv : (ren.map (·.2)).Nodup) (hn : (a.cols.map (·.name)).Nodup)
    (hchain : ∀ p ∈ ren, ∀ q ∈ ren, p.2 ≠ q.1)
    (hfree : ∀ p ∈ ren, p.1 ∈ a.cols.map (·.name) → p.2 ∉ a.cols.map (·.name)) :
    ∃ a', renameFields ren a = .ok a' ∧ a'.len = a.len ∧ (a'.cols.map (·.name)).Nodup ∧
      ∀ c', c' ∈ a'.cols ↔
        ∃ col ∈ a.cols, c' = { col with name := (ren.lookup col.name).getD col.name } := by
  obtain ⟨cols', hgo, hnd', hchar⟩ := renameGo_spec (a.cols.map (·.name)) ren a.cols hk hv hn hchain
    (fun _ _ => Iff.rfl) hfree
  exact ⟨{ a with cols := cols' }, by simp [renameFields, hgo], rfl, hnd', hchar⟩

/-- non-vacuity: a two-entry dictionary on a three-field array -/
example : renameFields [(0, 5), (1, 6)] (⟨[⟨0, 0, [1]⟩, ⟨1, 0, [2]⟩, ⟨2, 0, [3]⟩], 1⟩ : Arr Nat Nat Nat) =
    .ok ⟨[⟨2, 0, [3]⟩, ⟨5, 0, [1]⟩, ⟨6, 0, [2]⟩], 1⟩ := by decide

/-! ### required fields after preparation -/

omit [DecidableEq D] in
theorem C17.missing_nil_iff (names req : List N) :
    missingKeys names req = [] ↔ ∀ r ∈ req, r ∈ names := by
  simp [missingKeys, List.filter_eq_nil_iff]

variable (st : Stages) (loader : List P → Opts N D → Except Err (Arr N D V))
  (prep : Option (Arr N D V) × Option (Arr N D V) → Except Err (Option (Arr N D V) × Option (Arr N D V)))

/-- **Required fields are present after preparation.**  Whenever `load_and_prepare_data` returns,
every field that the merged stage table (configuration *and* data set) declares for the analysis of
experimental data is in the experimental data, and every field declared for the analysis of
experimental or Monte-Carlo data is in the Monte-Carlo data — for every loader, every preparation
function and every option set. -/
theorem c17_required_present (c : DsCfg N D) (expPaths mcPaths : List P) (livetime : Bool)
    (e m : Option (Arr N D V))
    (h : loadAndPrepare st loader prep c expPaths mcPaths livetime = .ok (e, m)) :
    (∀ a, e = some a → ∀ r ∈ jointNames c.merged st.anExp, r ∈ a.cols.map (·.name)) ∧
    (∀ a, m = some a → ∀ r ∈ jointNames c.merged (st.anExp ||| st.anMc), r ∈ a.cols.map (·.name)) := by
  unfold loadAndPrepare loadAndPrepareWith at h
  cases hl : loadData st loader c expPaths mcPaths with
  | error err => simp [hl] at h
  | ok d =>
    cases hp : prep d with
    | error err => simp [hl, hp] at h
    | ok em =>
      obtain ⟨e0, m0⟩ := em
      simp only [hl, hp] at h
      cases ha : assertFormat st c.merged (tidyOpt (jointNames c.merged st.anExp ++ c.keep) e0)
          (tidyOpt (jointNames c.merged (st.anExp ||| st.anMc) ++ c.keep) m0) livetime with
      | error err => simp [ha] at h
      | ok u =>
        simp only [ha, Except.ok.injEq, Prod.mk.injEq] at h
        obtain ⟨he, hm⟩ := h
        unfold assertFormat at ha
        simp only at ha
        constructor
        · intro a hea
          rw [← he] at hea
          rw [hea] at ha
          by_contra hcon
          have : ¬ (missingKeys (a.cols.map (·.name)) (jointNames c.merged st.anExp) = []) := by
            rw [C17.missing_nil_iff]; exact hcon
          simp [this] at ha
        · intro a hma
          rw [← hm] at hma
          rw [hma] at ha
          by_contra hcon
          have : ¬ (missingKeys (a.cols.map (·.name)) (jointNames c.merged (st.anExp ||| st.anMc)) = []) := by
            rw [C17.missing_nil_iff]; exact hcon
          split at ha <;> simp [this] at ha

/-- the statement of the property for the code *before* the repair (tidy-up and assertion with the
configuration-level table only) … -/
def c17_required_present_cfg_only_statement : Prop :=
  ∀ (st : Stages) (loader : List Nat → Opts Nat Nat → Except Err (Arr Nat Nat Nat))
    (c : DsCfg Nat Nat) (expPaths : List Nat) (e m : Option (Arr Nat Nat Nat)),
    loadAndPrepareCfgOnly st loader (fun d => .ok d) c expPaths [] true = .ok (e, m) →
    ∀ a, e = some a → ∀ r ∈ jointNames c.merged st.anExp, r ∈ a.cols.map (·.name)

/-- … is false: with the configuration-level table {0 ↦ ANALYSIS_EXP} and the data-set level table
{1 ↦ ANALYSIS_EXP}, a file holding both fields is loaded completely and field 1 is then dropped by
the tidy-up without any error (the defect repaired by the `fix:` commit; replayed on the
implementation by the `dataset` oracle). -/
theorem c17_required_present_cfg_only_counterexample : ¬ c17_required_present_cfg_only_statement := by
  intro h
  let c : DsCfg Nat Nat := ⟨[(0, 4)], [(1, 4)], [], [], [], [], none⟩
  let a : Arr Nat Nat Nat := ⟨[⟨0, 0, [7]⟩, ⟨1, 0, [8]⟩], 1⟩
  have := h ⟨1, 2, 4, 8⟩ (fun _ _ => .ok a) c [0] (some ⟨[⟨0, 0, [7]⟩], 1⟩) none (by decide)
    ⟨[⟨0, 0, [7]⟩], 1⟩ rfl 1 (by decide)
  revert this
  decide

/-- **A missing required field is an error.**  If, after the preparation functions, the experimental
data lack a field that the merged stage table declares for the analysis stage, then
`load_and_prepare_data` raises (KeyError) instead of returning. -/
theorem c17_missing_required_is_error (c : DsCfg N D) (expPaths mcPaths : List P) (livetime : Bool)
    (d : Option (Arr N D V) × Option (Arr N D V)) (a : Arr N D V) (m : Option (Arr N D V)) (r : N)
    (hl : loadData st loader c expPaths mcPaths = .ok d) (hp : prep d = .ok (some a, m))
    (hreq : r ∈ jointNames c.merged st.anExp) (hmiss : r ∉ a.cols.map (·.name)) :
    loadAndPrepare st loader prep c expPaths mcPaths livetime = .error .keyError := by
  have hmiss' : r ∉ (tidyUp (jointNames c.merged st.anExp ++ c.keep) a).cols.map (·.name) := by
    intro hin
    simp only [tidyUp, List.mem_map, List.mem_filter] at hin
    obtain ⟨col, ⟨hc, _⟩, hn⟩ := hin
    exact hmiss (List.mem_map.mpr ⟨col, hc, hn⟩)
  have hne : ¬ (missingKeys ((tidyUp (jointNames c.merged st.anExp ++ c.keep) a).cols.map (·.name))
      (jointNames c.merged st.anExp) = []) := by
    rw [C17.missing_nil_iff]
    intro hall
    exact hmiss' (hall r hreq)
  unfold loadAndPrepare loadAndPrepareWith
  simp [hl, hp, tidyOpt, assertFormat, hne]

/-- … and the same for the Monte-Carlo data (fields of the analysis of experimental *or* MC data) -/
theorem c17_missing_required_is_error_mc (c : DsCfg N D) (expPaths mcPaths : List P) (livetime : Bool)
    (d : Option (Arr N D V) × Option (Arr N D V)) (e : Option (Arr N D V)) (a : Arr N D V) (r : N)
    (hl : loadData st loader c expPaths mcPaths = .ok d) (hp : prep d = .ok (e, some a))
    (hreq : r ∈ jointNames c.merged (st.anExp ||| st.anMc)) (hmiss : r ∉ a.cols.map (·.name)) :
    loadAndPrepare st loader prep c expPaths mcPaths livetime = .error .keyError := by
  have hmiss' : r ∉ (tidyUp (jointNames c.merged (st.anExp ||| st.anMc) ++ c.keep) a).cols.map (·.name) := by
    intro hin
    simp only [tidyUp, List.mem_map, List.mem_filter] at hin
    obtain ⟨col, ⟨hc, _⟩, hn⟩ := hin
    exact hmiss (List.mem_map.mpr ⟨col, hc, hn⟩)
  have hne : ¬ (missingKeys ((tidyUp (jointNames c.merged (st.anExp ||| st.anMc) ++ c.keep) a).cols.map (·.name))
      (jointNames c.merged (st.anExp ||| st.anMc)) = []) := by
    rw [C17.missing_nil_iff]
    intro hall
    exact hmiss' (hall r hreq)
  unfold loadAndPrepare loadAndPrepareWith
  cases e with
  | none => simp [hl, hp, tidyOpt, assertFormat, hne]
  | some b =>
    by_cases hb : missingKeys ((tidyUp (jointNames c.merged st.anExp ++ c.keep) b).cols.map (·.name))
        (jointNames c.merged st.anExp) = []
    · simp [hl, hp, tidyOpt, assertFormat, hne, hb]
    · simp [hl, hp, tidyOpt, assertFormat, hb]

/-- a loader error (missing file, missing field in a later file, …) is an error of
`load_and_prepare_data` -/
theorem c17_loader_error_is_error (c : DsCfg N D) (expPaths mcPaths : List P) (livetime : Bool)
    (hne : expPaths ≠ []) (err : Err)
    (hload : loader expPaths ⟨some (keepExp st c), c.conv, excOrig c.expRen c.exc⟩ = .error err) :
    loadAndPrepare st loader prep c expPaths mcPaths livetime = .error err := by
  have : expPaths.isEmpty = false := by
    cases expPaths with
    | nil => exact absurd rfl hne
    | cons _ _ => rfl
  simp [loadAndPrepare, loadAndPrepareWith, loadData, loadPart, this, hload]

/-- **Nothing but required and requested fields** remains after `load_and_prepare_data`. -/
theorem c17_only_required_or_kept (c : DsCfg N D) (expPaths mcPaths : List P) (livetime : Bool)
    (e m : Option (Arr N D V))
    (h : loadAndPrepare st loader prep c expPaths mcPaths livetime = .ok (e, m)) :
    (∀ a, e = some a → ∀ n ∈ a.cols.map (·.name), n ∈ jointNames c.merged st.anExp ∨ n ∈ c.keep) ∧
    (∀ a, m = some a → ∀ n ∈ a.cols.map (·.name),
      n ∈ jointNames c.merged (st.anExp ||| st.anMc) ∨ n ∈ c.keep) := by
  unfold loadAndPrepare loadAndPrepareWith at h
  cases hl : loadData st loader c expPaths mcPaths with
  | error err => simp [hl] at h
  | ok d =>
    cases hp : prep d with
    | error err => simp [hl, hp] at h
    | ok em =>
      obtain ⟨e0, m0⟩ := em
      simp only [hl, hp] at h
      cases ha : assertFormat st c.merged (tidyOpt (jointNames c.merged st.anExp ++ c.keep) e0)
          (tidyOpt (jointNames c.merged (st.anExp ||| st.anMc) ++ c.keep) m0) livetime with
      | error err => simp [ha] at h
      | ok u =>
        simp only [ha, Except.ok.injEq, Prod.mk.injEq] at h
        obtain ⟨he, hm⟩ := h
        have key : ∀ (keep : List N) (x : Option (Arr N D V)) (a : Arr N D V), tidyOpt keep x = some a →
            ∀ n ∈ a.cols.map (·.name), n ∈ keep := by
          intro keep x a hx n hn
          cases x with
          | none => simp [tidyOpt] at hx
          | some b =>
            simp only [tidyOpt, Option.some.injEq] at hx
            subst hx
            simp only [tidyUp, List.mem_map, List.mem_filter] at hn
            obtain ⟨col, ⟨_, hk⟩, rfl⟩ := hn
            simpa using hk
        constructor
        · intro a hea n hn
          have := key _ e0 a (he.trans hea) n hn
          simpa [List.mem_append] using this
        · intro a hma n hn
          have := key _ m0 a (hm.trans hma) n hn
          simpa [List.mem_append] using this

/-! ### histories on one shared configuration -/

/-- **Frame**: a load does not write the configuration-level stage table (the merged table is a new
dictionary): the post-state of `cfg['datafields']` is its pre-state, whatever the data-set level
table, the files, the options and the outcome (also when the load raises). -/
theorem c17_config_frame (c : DsCfg N D) (expPaths mcPaths : List P) (livetime : Bool) :
    (loadAndPrepareS st loader prep c expPaths mcPaths livetime).1 = c.cfgFields := rfl

/-- **History independence**: in any sequence of loads on one shared configuration (several data
sets, or the same data set with changed keep-fields / data-set level table), every load returns
exactly what it returns on a fresh configuration — no data-set level stage entry leaks into a later
load. -/
theorem c17_history_eq_fresh (cfg : List (N × Nat)) (rs : List (LoadReq N D P)) :
    runHistory st loader prep cfg rs =
      rs.map (fun r => loadAndPrepare st loader prep (r.cfg cfg) r.expPaths r.mcPaths r.livetime) := by
  induction rs with
  | nil => rfl
  | cons r rs ih =>
    unfold runHistory at ih ⊢
    simp only [runHistoryWith, List.map_cons]
    rw [c17_config_frame]
    exact congrArg _ ih

/-- a load that merged the data-set level table into the configuration *in place* would not have
this property: data set A (data-set level table {1 ↦ ANALYSIS_EXP}) followed by data set B (no
table) on one configuration makes B demand field 1 (KeyError) although B alone loads fine. -/
theorem c17_in_place_merge_leaks :
    let loader : List Nat → Opts Nat Nat → Except Err (Arr Nat Nat Nat) :=
      fun ps _ => if ps = [0] then .ok ⟨[⟨0, 0, [7]⟩, ⟨1, 0, [8]⟩], 1⟩ else .ok ⟨[⟨0, 0, [9]⟩], 1⟩
    let a : LoadReq Nat Nat Nat := ⟨[(1, 4)], [], [], [], [], none, [0], [], true⟩
    let b : LoadReq Nat Nat Nat := ⟨[], [], [], [], [], none, [1], [], true⟩
    runHistoryWith (fun c e m l => (mergeTables c.cfgFields c.dsFields,
        loadAndPrepare ⟨1, 2, 4, 8⟩ loader (fun d => .ok d) c e m l)) [(0, 4)] [a, b] ≠
      runHistory ⟨1, 2, 4, 8⟩ loader (fun d => .ok d) [(0, 4)] [a, b] := by
  decide

end dataset

/-! ### end to end: load, rename, prepare (identity), tidy up, assert — no spurious error, content -/

section endtoend
set_option linter.unusedSectionVars false
set_option linter.unusedSimpArgs false
variable {N D V P : Type} [DecidableEq N] [DecidableEq D]
variable (castCopy castAssign : D → D → V → Except Err V) (cast : D → D → V → V) (promote : D → D → D)

/-- the file field that carries the (new) name `r`: `_conv_new2orig_field_names` on one name -/
def C17.origOf (ren : List (N × N)) (r : N) : N :=
  match invLookup ren r with
  | some o => o
  | none => r

theorem C17.new2orig_eq_map (ren : List (N × N)) (names : List N) :
    new2orig ren names = names.map (C17.origOf ren) := rfl

theorem C17.invLookup_some_mem (ren : List (N × N)) (r o : N) (h : invLookup ren r = some o) :
    (o, r) ∈ ren := by
  unfold invLookup at h
  cases hf : List.find? (fun p => decide (p.2 = r)) ren.reverse with
  | none => simp [hf] at h
  | some p =>
    simp only [hf, Option.map_some, Option.some.injEq] at h
    have hp := List.find?_some hf
    have hm := List.mem_of_find?_eq_some hf
    simp only [decide_eq_true_eq] at hp
    have : p = (o, r) := by
      cases p; simp_all
    rw [← this]
    exact List.mem_reverse.mp hm

theorem C17.lookup_of_mem (ren : List (N × N)) (o r : N) (h : (o, r) ∈ ren) (hk : (ren.map (·.1)).Nodup) :
    ren.lookup o = some r := by
  induction ren with
  | nil => simp at h
  | cons p ps ih =>
    obtain ⟨a, b⟩ := p
    simp only [List.map_cons, List.nodup_cons] at hk
    rcases List.mem_cons.mp h with heq | hin
    · cases heq
      simp [List.lookup_cons]
    · have hne : o ≠ a := fun e => hk.1 (List.mem_map.mpr ⟨(o, r), hin, e⟩)
      have hb : (o == a) = false := by simpa using hne
      simp [List.lookup_cons, hb, ih hin hk.2]

/-- the field loaded under its original name gets the requested name back -/
theorem C17.rename_origOf (ren : List (N × N)) (r : N) (hk : (ren.map (·.1)).Nodup)
    (hr : r ∉ ren.map (·.1)) :
    (ren.lookup (C17.origOf ren r)).getD (C17.origOf ren r) = r := by
  unfold C17.origOf
  cases hinv : invLookup ren r with
  | some o =>
    have := C17.lookup_of_mem ren o r (C17.invLookup_some_mem ren r o hinv) hk
    simp [this]
  | none =>
    have : ren.lookup r = none :=
      lookup_none_of_not_key ren r (fun p hp e => hr (List.mem_map.mpr ⟨p, hp, e⟩))
    simp [this]

/-- a kept field of the schema is in the field loop's selection -/
theorem C17.mem_selectedFrom (o : Opts N D) (k : Nat) (sch : List (N × D)) (i : Nat) (f : N) (dt : D)
    (h : sch[i]? = some (f, dt)) (hkept : isKept o.keep f = true) :
    (k + i, f, dt, targetDt o.conv o.exc f dt) ∈ selectedFrom o k sch := by
  induction sch generalizing k i with
  | nil => simp at h
  | cons fd rest ih =>
    obtain ⟨g, d⟩ := fd
    cases i with
    | zero =>
      simp only [List.getElem?_cons_zero, Option.some.injEq, Prod.mk.injEq] at h
      obtain ⟨rfl, rfl⟩ := h
      simp [selectedFrom, hkept]
    | succ i =>
      simp only [List.getElem?_cons_succ] at h
      have := ih (k + 1) i h
      have hidx : k + 1 + i = k + (i + 1) := by omega
      rw [hidx] at this
      by_cases hg : isKept o.keep g = true
      · simp [selectedFrom, hg, this]
      · simp [selectedFrom, hg, this]

/-- one half of `Dataset.load_data` (loader with the keep-field list `keep`, then the renaming loop
with the dictionary `ren`) on npy files of one layout: it returns, and every name `r` that is not
renamed away and whose original name is in `keep` and is field `i` of the files is present with the
converted cells of every row of every listed file, once, in file order. -/
theorem C17.loadPart_spec (mode : Mode) (fs : P → Option (File N D V)) (bs : Nat) (hbs : 0 < bs)
    (c : DsCfg N D) (keep : List N) (ren : List (N × N)) (sch : List (N × D))
    (first : P × File N D V) (rest : List (P × File N D V))
    (hnd : (sch.map (·.1)).Nodup) (hcast : ∀ d v, cast d d v = v) (hprom : ∀ d, promote d d = d)
    (hfiles : ∀ qf ∈ first :: rest, C17.GoodFile castCopy castAssign cast fs
      ⟨some keep, c.conv, excOrig ren c.exc⟩ sch qf)
    (h1 : (ren.map (·.1)).Nodup) (h2 : (ren.map (·.2)).Nodup)
    (h3 : ∀ p ∈ ren, ∀ q ∈ ren, p.2 ≠ q.1) (h4 : ∀ p ∈ ren, p.2 ∉ sch.map (·.1)) :
    ∃ a', loadPart (npyLoad castCopy castAssign cast promote mode fs bs) ((first :: rest).map (·.1)) keep ren c
        = .ok (some a') ∧
      ∀ r, r ∉ ren.map (·.1) → C17.origOf ren r ∈ keep →
        ∀ i dt, sch[i]? = some (C17.origOf ren r, dt) →
          ({ name := r, dt := targetDt c.conv (excOrig ren c.exc) (C17.origOf ren r) dt,
             cells := (colT ((first :: rest).map (·.2.rows)).flatten i).map
               (cast dt (targetDt c.conv (excOrig ren c.exc) (C17.origOf ren r) dt)) } : Col N D V)
            ∈ a'.cols := by
  let o : Opts N D := ⟨some keep, c.conv, excOrig ren c.exc⟩
  let rows := ((first :: rest).map (·.2.rows)).flatten
  have hload := c17_rows_once_in_order castCopy castAssign cast promote mode fs bs hbs o sch first rest
    hnd hcast hprom hfiles
  have hnames : (specArr cast o ⟨sch, rows⟩).cols.map (·.name) =
      (sch.map (·.1)).filter (fun n => isKept o.keep n) := by
    simp only [specArr, specCols, selected, List.map_map]
    exact selectedFrom_names o 0 sch
  have hnamesnd : ((specArr cast o ⟨sch, rows⟩).cols.map (·.name)).Nodup := by
    rw [hnames]; exact hnd.filter _
  have hsubnames : ∀ n, n ∈ (specArr cast o ⟨sch, rows⟩).cols.map (·.name) → n ∈ sch.map (·.1) := by
    intro n hn; rw [hnames] at hn; exact (List.mem_filter.mp hn).1
  obtain ⟨a', hren, _, _, hchar⟩ := c17_rename_all ren (specArr cast o ⟨sch, rows⟩) h1 h2 hnamesnd h3
    (fun p hp _ hcon => h4 p hp (hsubnames _ hcon))
  refine ⟨a', ?_, ?_⟩
  · simp [loadPart, o, rows] at hload hren ⊢
    simp [hload, hren]
  · intro r hnk hkeep i dt hi
    have hkept : isKept o.keep (C17.origOf ren r) = true := by
      simp [o, isKept, hkeep]
    have hsel := C17.mem_selectedFrom o 0 sch i _ dt hi hkept
    simp only [Nat.zero_add] at hsel
    rw [hchar]
    refine ⟨⟨C17.origOf ren r, targetDt o.conv o.exc (C17.origOf ren r) dt,
      (colT rows i).map (cast dt (targetDt o.conv o.exc (C17.origOf ren r) dt))⟩, ?_, ?_⟩
    · simp only [specArr, specCols, selected, List.mem_map]
      exact ⟨_, hsel, rfl⟩
    · simp [C17.rename_origOf ren r h1 hnk, o, rows]

/-- a name required at a sub-mask of the requested stages is listed -/
theorem C17.jointNames_mono (table : List (N × Nat)) (a b : Nat) (r : N) (h : r ∈ jointNames table b) :
    r ∈ jointNames table (a ||| b) ∧ r ∈ jointNames table (b ||| a) := by
  rw [c17_jointNames_mem] at h
  obtain ⟨s, hs, hbit⟩ := h
  have hb : orCheck s b = true := by simpa [orCheck] using hbit
  constructor
  · rw [c17_jointNames_mem]
    refine ⟨s, hs, ?_⟩
    have := c17_orCheck_or s a b
    rw [hb, Bool.or_true] at this
    simpa [orCheck] using this
  · rw [c17_jointNames_mem]
    refine ⟨s, hs, ?_⟩
    have := c17_orCheck_or s b a
    rw [hb, Bool.true_or] at this
    simpa [orCheck] using this

/-- **End to end** for the experimental data of a data set whose files are npy files of one layout
`sch`.  The renaming dictionary does not chain, no new name is a file field, and every field
required for the analysis stage is neither renamed away nor absent from the files (under its
original name).  Then `load_and_prepare_data` (identity preparation)
* returns — **no spurious error**, in either efficiency mode;
* and for every required or requested name `r` that is not renamed away, whose original name
  `origOf r` is field `i` of the files with dtype `dt`: the result holds the field `r` with the
  dtype `targetDt` (exception list translated to original names) and, as content, cell `i` of
  **every row of every listed file, once, in file order**, converted.
This unfolds the keep-field computation through the inverted dictionary, the loader, the renaming
loop, the tidy-up and the final assertion. -/
theorem c17_end_to_end (mode : Mode) (fs : P → Option (File N D V)) (bs : Nat) (hbs : 0 < bs)
    (st : Stages) (c : DsCfg N D) (sch : List (N × D)) (first : P × File N D V) (rest : List (P × File N D V))
    (hnd : (sch.map (·.1)).Nodup) (hcast : ∀ d v, cast d d v = v) (hprom : ∀ d, promote d d = d)
    (hfiles : ∀ qf ∈ first :: rest, C17.GoodFile castCopy castAssign cast fs
      ⟨some (keepExp st c), c.conv, excOrig c.expRen c.exc⟩ sch qf)
    (h1 : (c.expRen.map (·.1)).Nodup) (h2 : (c.expRen.map (·.2)).Nodup)
    (h3 : ∀ p ∈ c.expRen, ∀ q ∈ c.expRen, p.2 ≠ q.1) (h4 : ∀ p ∈ c.expRen, p.2 ∉ sch.map (·.1))
    (hreq : ∀ r ∈ jointNames c.merged st.anExp,
      r ∉ c.expRen.map (·.1) ∧ C17.origOf c.expRen r ∈ sch.map (·.1)) :
    ∃ a, loadAndPrepare st (npyLoad castCopy castAssign cast promote mode fs bs) (fun d => .ok d) c
          ((first :: rest).map (·.1)) [] true = .ok (some a, none) ∧
      ∀ r, (r ∈ jointNames c.merged st.anExp ∨ r ∈ c.keep) → r ∉ c.expRen.map (·.1) →
        ∀ i dt, sch[i]? = some (C17.origOf c.expRen r, dt) →
          ({ name := r, dt := targetDt c.conv (excOrig c.expRen c.exc) (C17.origOf c.expRen r) dt,
             cells := (colT ((first :: rest).map (·.2.rows)).flatten i).map
               (cast dt (targetDt c.conv (excOrig c.expRen c.exc) (C17.origOf c.expRen r) dt)) } : Col N D V)
            ∈ a.cols := by
  obtain ⟨a', hpart, hcontent⟩ := C17.loadPart_spec castCopy castAssign cast promote mode fs bs hbs c
    (keepExp st c) c.expRen sch first rest hnd hcast hprom hfiles h1 h2 h3 h4
  have hkeep : ∀ r, (r ∈ jointNames c.merged st.anExp ∨ r ∈ c.keep) → C17.origOf c.expRen r ∈ keepExp st c := by
    intro r hr
    unfold keepExp
    rw [C17.new2orig_eq_map]
    refine List.mem_map.mpr ⟨r, ?_, rfl⟩
    rcases hr with h | h
    · exact List.mem_append_left _ (C17.jointNames_mono c.merged st.dpExp st.anExp r h).1
    · exact List.mem_append_right _ h
  have hreqnames : ∀ r ∈ jointNames c.merged st.anExp,
      r ∈ (tidyUp (jointNames c.merged st.anExp ++ c.keep) a').cols.map (·.name) := by
    intro r hr
    obtain ⟨hnk, horig⟩ := hreq r hr
    obtain ⟨⟨f, dt⟩, hfm, hfn⟩ := List.mem_map.mp horig
    obtain ⟨i, hi⟩ := List.getElem?_of_mem hfm
    simp only at hfn
    subst hfn
    have := hcontent r hnk (hkeep r (Or.inl hr)) i dt hi
    simp only [tidyUp, List.mem_map, List.mem_filter, decide_eq_true_eq]
    exact ⟨_, ⟨this, List.mem_append_left _ hr⟩, rfl⟩
  have hmiss : missingKeys ((tidyUp (jointNames c.merged st.anExp ++ c.keep) a').cols.map (·.name))
      (jointNames c.merged st.anExp) = [] := by
    rw [C17.missing_nil_iff]; exact hreqnames
  refine ⟨tidyUp (jointNames c.merged st.anExp ++ c.keep) a', ?_, ?_⟩
  · have hmc : loadPart (npyLoad castCopy castAssign cast promote mode fs bs) ([] : List P) (keepMc st c) c.mcRen c
        = .ok none := rfl
    simp only [loadAndPrepare, loadAndPrepareWith, loadData]
    rw [hpart, hmc]
    simp [tidyOpt, assertFormat, hmiss]
  · intro r hr hnk i dt hi
    have := hcontent r hnk (hkeep r hr) i dt hi
    simp only [tidyUp, List.mem_filter, decide_eq_true_eq]
    refine ⟨this, ?_⟩
    rcases hr with h | h
    · exact List.mem_append_left _ h
    · exact List.mem_append_right _ h

/-- **End to end, Monte-Carlo half** (MC-only data set): the same for the MC files with the MC
dictionary; required are the fields of the analysis of experimental *or* MC data, the keep-field
list is the MC summand of `keepMc` (four stages through `mcRen`). -/
theorem c17_end_to_end_mc (mode : Mode) (fs : P → Option (File N D V)) (bs : Nat) (hbs : 0 < bs)
    (st : Stages) (c : DsCfg N D) (sch : List (N × D)) (first : P × File N D V) (rest : List (P × File N D V))
    (hnd : (sch.map (·.1)).Nodup) (hcast : ∀ d v, cast d d v = v) (hprom : ∀ d, promote d d = d)
    (hfiles : ∀ qf ∈ first :: rest, C17.GoodFile castCopy castAssign cast fs
      ⟨some (keepMc st c), c.conv, excOrig c.mcRen c.exc⟩ sch qf)
    (h1 : (c.mcRen.map (·.1)).Nodup) (h2 : (c.mcRen.map (·.2)).Nodup)
    (h3 : ∀ p ∈ c.mcRen, ∀ q ∈ c.mcRen, p.2 ≠ q.1) (h4 : ∀ p ∈ c.mcRen, p.2 ∉ sch.map (·.1))
    (hreq : ∀ r ∈ jointNames c.merged (st.anExp ||| st.anMc),
      r ∉ c.mcRen.map (·.1) ∧ C17.origOf c.mcRen r ∈ sch.map (·.1)) :
    ∃ a, loadAndPrepare st (npyLoad castCopy castAssign cast promote mode fs bs) (fun d => .ok d) c
          [] ((first :: rest).map (·.1)) true = .ok (none, some a) ∧
      ∀ r, (r ∈ jointNames c.merged (st.anExp ||| st.anMc) ∨ r ∈ c.keep) → r ∉ c.mcRen.map (·.1) →
        ∀ i dt, sch[i]? = some (C17.origOf c.mcRen r, dt) →
          ({ name := r, dt := targetDt c.conv (excOrig c.mcRen c.exc) (C17.origOf c.mcRen r) dt,
             cells := (colT ((first :: rest).map (·.2.rows)).flatten i).map
               (cast dt (targetDt c.conv (excOrig c.mcRen c.exc) (C17.origOf c.mcRen r) dt)) } : Col N D V)
            ∈ a.cols := by
  obtain ⟨a', hpart, hcontent⟩ := C17.loadPart_spec castCopy castAssign cast promote mode fs bs hbs c
    (keepMc st c) c.mcRen sch first rest hnd hcast hprom hfiles h1 h2 h3 h4
  have hkeep : ∀ r, (r ∈ jointNames c.merged (st.anExp ||| st.anMc) ∨ r ∈ c.keep) →
      C17.origOf c.mcRen r ∈ keepMc st c := by
    intro r hr
    unfold keepMc
    apply List.mem_append_right
    rw [C17.new2orig_eq_map]
    refine List.mem_map.mpr ⟨r, ?_, rfl⟩
    rcases hr with h | h
    · apply List.mem_append_left
      rw [c17_jointNames_mem] at h ⊢
      obtain ⟨s, hs, hbit⟩ := h
      refine ⟨s, hs, ?_⟩
      have hb : orCheck s (st.anExp ||| st.anMc) = true := by simpa [orCheck] using hbit
      rw [c17_orCheck_or, Bool.or_eq_true] at hb
      have hall : orCheck s (st.dpExp ||| st.anExp ||| st.dpMc ||| st.anMc) = true := by
        rw [c17_orCheck_or, c17_orCheck_or, c17_orCheck_or]
        rcases hb with h | h
        · simp [h]
        · simp [h]
      simpa [orCheck] using hall
    · exact List.mem_append_right _ h
  have hreqnames : ∀ r ∈ jointNames c.merged (st.anExp ||| st.anMc),
      r ∈ (tidyUp (jointNames c.merged (st.anExp ||| st.anMc) ++ c.keep) a').cols.map (·.name) := by
    intro r hr
    obtain ⟨hnk, horig⟩ := hreq r hr
    obtain ⟨⟨f, dt⟩, hfm, hfn⟩ := List.mem_map.mp horig
    obtain ⟨i, hi⟩ := List.getElem?_of_mem hfm
    simp only at hfn
    subst hfn
    have := hcontent r hnk (hkeep r (Or.inl hr)) i dt hi
    simp only [tidyUp, List.mem_map, List.mem_filter, decide_eq_true_eq]
    exact ⟨_, ⟨this, List.mem_append_left _ hr⟩, rfl⟩
  have hmiss : missingKeys ((tidyUp (jointNames c.merged (st.anExp ||| st.anMc) ++ c.keep) a').cols.map (·.name))
      (jointNames c.merged (st.anExp ||| st.anMc)) = [] := by
    rw [C17.missing_nil_iff]; exact hreqnames
  refine ⟨tidyUp (jointNames c.merged (st.anExp ||| st.anMc) ++ c.keep) a', ?_, ?_⟩
  · have hexp : loadPart (npyLoad castCopy castAssign cast promote mode fs bs) ([] : List P) (keepExp st c) c.expRen c
        = .ok none := rfl
    simp only [loadAndPrepare, loadAndPrepareWith, loadData]
    rw [hexp, hpart]
    simp [tidyOpt, assertFormat, hmiss]
  · intro r hr hnk i dt hi
    have := hcontent r hnk (hkeep r hr) i dt hi
    simp only [tidyUp, List.mem_filter, decide_eq_true_eq]
    refine ⟨this, ?_⟩
    rcases hr with h | h
    · exact List.mem_append_left _ h
    · exact List.mem_append_right _ h

/-- `load_and_prepare_data` depends on the loader only through the two calls it makes -/
theorem C17.loadAndPrepare_congr (st : Stages) (l₁ l₂ : List P → Opts N D → Except Err (Arr N D V))
    (prep : Option (Arr N D V) × Option (Arr N D V) → Except Err (Option (Arr N D V) × Option (Arr N D V)))
    (c : DsCfg N D) (expPaths mcPaths : List P) (livetime : Bool)
    (he : l₁ expPaths ⟨some (keepExp st c), c.conv, excOrig c.expRen c.exc⟩ =
          l₂ expPaths ⟨some (keepExp st c), c.conv, excOrig c.expRen c.exc⟩)
    (hm : l₁ mcPaths ⟨some (keepMc st c), c.conv, excOrig c.mcRen c.exc⟩ =
          l₂ mcPaths ⟨some (keepMc st c), c.conv, excOrig c.mcRen c.exc⟩) :
    loadAndPrepare st l₁ prep c expPaths mcPaths livetime = loadAndPrepare st l₂ prep c expPaths mcPaths livetime := by
  simp only [loadAndPrepare, loadAndPrepareWith, loadData, loadPart, he, hm]

/-- **Data-set level: both efficiency modes give the same prepared data** (any preparation function,
any stage tables and dictionaries, errors included), under the agreement-domain guard on the
files of both halves. -/
theorem c17_dataset_mode_independent (fs : P → Option (File N D V)) (bs : Nat) (hbs : 0 < bs) (st : Stages)
    (prep : Option (Arr N D V) × Option (Arr N D V) → Except Err (Option (Arr N D V) × Option (Arr N D V)))
    (c : DsCfg N D) (expPaths mcPaths : List P) (livetime : Bool)
    (he : ∀ p ∈ expPaths, ∀ f, fs p = some f → WF f ∧
      CastOK cast castCopy ⟨some (keepExp st c), c.conv, excOrig c.expRen c.exc⟩ f ∧
      CastOK cast castAssign ⟨some (keepExp st c), c.conv, excOrig c.expRen c.exc⟩ f)
    (hm : ∀ p ∈ mcPaths, ∀ f, fs p = some f → WF f ∧
      CastOK cast castCopy ⟨some (keepMc st c), c.conv, excOrig c.mcRen c.exc⟩ f ∧
      CastOK cast castAssign ⟨some (keepMc st c), c.conv, excOrig c.mcRen c.exc⟩ f) :
    loadAndPrepare st (npyLoad castCopy castAssign cast promote .memory fs bs) prep c expPaths mcPaths livetime =
      loadAndPrepare st (npyLoad castCopy castAssign cast promote .time fs bs) prep c expPaths mcPaths livetime :=
  C17.loadAndPrepare_congr st _ _ prep c expPaths mcPaths livetime
    (c17_memory_eq_time_all_files castCopy castAssign cast promote fs bs hbs expPaths _ he)
    (c17_memory_eq_time_all_files castCopy castAssign cast promote fs bs hbs mcPaths _ hm)

/-- **Data-set level: parquet files give the same prepared data as npy files** holding the same
tables (experimental data only; any preparation function; both modes of the npy loader). -/
theorem c17_dataset_format_independent (mode : Mode) (fs : P → Option (File N D V)) (bs : Nat) (hbs : 0 < bs)
    (st : Stages)
    (prep : Option (Arr N D V) × Option (Arr N D V) → Except Err (Option (Arr N D V) × Option (Arr N D V)))
    (c : DsCfg N D) (sch : List (N × D)) (first : P × File N D V) (rest : List (P × File N D V)) (livetime : Bool)
    (hnd : (sch.map (·.1)).Nodup) (hcast : ∀ d v, cast d d v = v) (hprom : ∀ d, promote d d = d)
    (hfiles : ∀ qf ∈ first :: rest, C17.GoodFile castCopy castAssign cast fs
      ⟨some (keepExp st c), c.conv, excOrig c.expRen c.exc⟩ sch qf)
    (hall : CastOK cast castCopy ⟨some (keepExp st c), c.conv, excOrig c.expRen c.exc⟩
      ⟨sch, ((first :: rest).map (·.2.rows)).flatten⟩) :
    loadAndPrepare st (parquetLoad castCopy fs) prep c ((first :: rest).map (·.1)) [] livetime =
      loadAndPrepare st (npyLoad castCopy castAssign cast promote mode fs bs) prep c
        ((first :: rest).map (·.1)) [] livetime := by
  simp only [loadAndPrepare, loadAndPrepareWith, loadData]
  have hexp : loadPart (parquetLoad castCopy fs) ((first :: rest).map (·.1)) (keepExp st c) c.expRen c =
      loadPart (npyLoad castCopy castAssign cast promote mode fs bs) ((first :: rest).map (·.1)) (keepExp st c)
        c.expRen c := by
    unfold loadPart
    rw [c17_parquet_eq_npy castCopy castAssign cast promote mode fs bs hbs _ sch first rest hnd hcast hprom
      hfiles hall]
  have hmc : loadPart (parquetLoad castCopy fs) ([] : List P) (keepMc st c) c.mcRen c =
      loadPart (npyLoad castCopy castAssign cast promote mode fs bs) ([] : List P) (keepMc st c) c.mcRen c := rfl
  rw [hexp, hmc]

/-- non-vacuity of `c17_end_to_end`: configuration table {0 ↦ ANALYSIS_EXP}, dictionary {5 → 0}, two
files with the fields 5 and 9, memory-efficient mode with a re-open block of 2 rows: field 0 holds
column 5 of all three rows in file order, field 9 is not loaded. -/
example : loadAndPrepare (N := Nat) (D := Nat) (V := Nat) (P := Nat) ⟨1, 2, 4, 8⟩
      (npyLoad (fun _ _ v => .ok v) (fun _ _ v => .ok v) (fun _ _ v => v) (fun a _ => a) .memory
        (fun p => if p = 0 then some ⟨[(5, 0), (9, 0)], [[10, 20], [11, 21]]⟩
                  else some ⟨[(5, 0), (9, 0)], [[12, 22]]⟩) 2)
      (fun d => .ok d) ⟨[(0, 4)], [], [(5, 0)], [], [], [], none⟩ [0, 1] [] true =
    .ok (some ⟨[⟨0, 0, [10, 11, 12]⟩], 3⟩, none) := by decide

example : C17.origOf [((5 : Nat), 0)] 0 = 5 := by decide

end endtoend

/-! ### IceCube data sets: good-run list (skyllh/i3/dataset.py) -/

section i3
set_option linter.unusedSectionVars false
set_option linter.unusedSimpArgs false
variable {N D V P : Type} [DecidableEq N] [DecidableEq D]
variable (ops : I3Ops D V) (nm : I3Names N)

omit [DecidableEq N] [DecidableEq D] in
theorem C17.zipWith_or_false (mask : List Bool) (times : List V) (hlen : mask.length = times.length) :
    List.zipWith (fun m (_ : V) => m || false) mask times = mask := by
  induction mask generalizing times with
  | nil => simp
  | cons m ms ih =>
    cases times with
    | nil => simp at hlen
    | cons t ts =>
      simp only [List.zipWith_cons_cons, Bool.or_false, List.cons.injEq, true_and]
      have := ih ts (by simpa using hlen)
      simpa using this

theorem C17.timeMaskGo_eq (times : List V) (ivs : List (V × V)) (mask : List Bool)
    (hlen : mask.length = times.length) :
    timeMaskGo ops times ivs mask =
      List.zipWith (fun m t => m || ivs.any (fun p => ops.le p.1 t && ops.le t p.2)) mask times := by
  induction ivs generalizing mask with
  | nil =>
    simp only [timeMaskGo, List.any_nil]
    exact (C17.zipWith_or_false mask times hlen).symm
  | cons iv rest ih =>
    obtain ⟨s, e⟩ := iv
    simp only [timeMaskGo]
    rw [ih _ (by simp [hlen])]
    clear ih
    induction mask generalizing times with
    | nil => simp
    | cons m ms ihm =>
      cases times with
      | nil => simp at hlen
      | cons t ts =>
        simp only [List.zipWith_cons_cons, List.any_cons, List.cons.injEq]
        refine ⟨by cases m <;> simp [Bool.or_assoc], ihm ts (by simpa using hlen)⟩

/-- **On-time selection**: the mask built by the loop over the good-run list marks exactly the events
whose time lies in the closed window `[start, stop]` of at least one entry of the list. -/
theorem c17_i3_time_mask (times : List V) (ivs : List (V × V)) :
    timeMask ops times ivs =
      times.map (fun t => ivs.any (fun p => ops.le p.1 t && ops.le t p.2)) := by
  unfold timeMask
  rw [C17.timeMaskGo_eq ops times ivs _ (by simp)]
  induction times with
  | nil => rfl
  | cons t ts ih =>
    simp only [List.map_cons, List.zipWith_cons_cons, Bool.false_or, List.cons.injEq, true_and]
    exact ih

/-- **Run selection**: an event is kept iff its run number occurs in the good-run list. -/
theorem c17_i3_run_mask (expRun grlRun : List V) (k : Nat) :
    (runMask ops expRun grlRun)[k]? = (expRun[k]?).map (fun r => grlRun.any (fun g => ops.eqv r g)) := by
  simp [runMask]

omit [DecidableEq N] [DecidableEq D] in
/-- **Row selection keeps the rows aligned, once, in order**: selecting a column with a mask that was
computed row by row gives the projection of the *filtered list of rows* — the same rows for every
column, each at most once, in the original order. -/
theorem c17_i3_select_is_filter {R : Type} (rows : List R) (pred : R → Bool) (proj : R → V) :
    maskCells (rows.map pred) (rows.map proj) = (rows.filter pred).map proj := by
  unfold maskCells
  induction rows with
  | nil => rfl
  | cons r rs ih =>
    cases hp : pred r with
    | true => simp [List.filter_cons, hp] at ih ⊢; exact ih
    | false => simp [List.filter_cons, hp] at ih ⊢; exact ih

omit [DecidableEq N] [DecidableEq D] in
/-- the selected cells are a sub-sequence of the column (no row duplicated or moved) -/
theorem c17_i3_select_sublist (mask : List Bool) (cells : List V) : (maskCells mask cells).Sublist cells := by
  unfold maskCells
  induction cells generalizing mask with
  | nil => simp
  | cons c cs ih =>
    cases mask with
    | nil => simp
    | cons m ms =>
      cases m with
      | true => simpa [List.filter_cons] using (ih ms).cons_cons c
      | false => simpa [List.filter_cons] using (ih ms).cons c

omit [DecidableEq N] [DecidableEq D] in
/-- a mask without a false entry selects everything (`if np.any(~mask)` may skip the selection) -/
theorem C17.maskCells_all_true (mask : List Bool) (cells : List V) (hlen : mask.length = cells.length)
    (hall : mask.all id = true) : maskCells mask cells = cells := by
  unfold maskCells
  induction cells generalizing mask with
  | nil => simp
  | cons c cs ih =>
    cases mask with
    | nil => simp at hlen
    | cons m ms =>
      simp only [List.all_cons, id, Bool.and_eq_true] at hall
      obtain ⟨hm, hms⟩ := hall
      subst hm
      simp [List.filter_cons, ih ms (by simpa using hlen) hms]

/-- a table given by a list of rows and one projection per field (what a loaded
`DataFieldRecordArray` is: every column is the same rows, seen through one field) -/
def C17.ofRows {R : Type} (specs : List (N × D × (R → V))) (rows : List R) : Arr N D V :=
  ⟨specs.map (fun s => ⟨s.1, s.2.1, rows.map s.2.2⟩),
   arrLen (specs.map (fun s => (⟨s.1, s.2.1, rows.map s.2.2⟩ : Col N D V)))⟩

theorem C17.cellsOf_ofRows {R : Type} (specs : List (N × D × (R → V))) (rows : List R)
    (hnd : (specs.map (·.1)).Nodup) (s : N × D × (R → V)) (hs : s ∈ specs) :
    cellsOf (C17.ofRows specs rows) s.1 = some (rows.map s.2.2) := by
  unfold cellsOf C17.ofRows findCol
  induction specs with
  | nil => simp at hs
  | cons t ts ih =>
    simp only [List.map_cons, List.nodup_cons] at hnd
    simp only [List.map_cons, List.find?_cons]
    by_cases hname : t.1 = s.1
    · rcases List.mem_cons.mp hs with rfl | hin
      · simp
      · exact absurd (List.mem_map.mpr ⟨s, hin, hname.symm⟩) hnd.1
    · rcases List.mem_cons.mp hs with rfl | hin
      · exact absurd rfl hname
      · simp only [hname, decide_false]
        exact ih hnd.2 hin

theorem C17.applyMask_ofRows {R : Type} (specs : List (N × D × (R → V))) (rows : List R) (p : R → Bool) :
    applyMask (rows.map p) (C17.ofRows specs rows) = C17.ofRows specs (rows.filter p) := by
  unfold applyMask
  split
  · rename_i hall
    have : rows.filter p = rows := by
      rw [List.filter_eq_self]
      intro r hr
      have := List.all_eq_true.mp hall (p r) (List.mem_map.mpr ⟨r, hr, rfl⟩)
      simpa using this
    rw [this]
  · have hcols : (C17.ofRows specs rows).cols.map (fun c => ({ c with cells := maskCells (rows.map p) c.cells } : Col N D V)) =
        (C17.ofRows specs (rows.filter p)).cols := by
      simp only [C17.ofRows, List.map_map]
      apply List.map_congr_left
      intro s _
      simp [c17_i3_select_is_filter]
    unfold selectRows
    rw [hcols]
    rfl

/-- **Selection by the good-run list, whole table**: for experimental data whose columns are the
rows `rows` seen through one projection per field (run number `runOf`, time `timeOf` among them) and
a good-run list with run / start / stop columns, `prepare_data` keeps exactly the rows whose run
number is in the list *and* whose time lies in one of the closed windows — the same rows in every
column, each once, in the original (file) order. -/
theorem c17_i3_select_rows {R : Type} (specs : List (N × D × (R → V))) (rows : List R)
    (hnd : (specs.map (·.1)).Nodup) (dr dtm : D) (runOf timeOf : R → V)
    (hrun : (nm.run, dr, runOf) ∈ specs) (htime : (nm.time, dtm, timeOf) ∈ specs)
    (grl : Arr N D V) (gr gs ge : List V)
    (h1 : cellsOf grl nm.run = some gr) (h2 : cellsOf grl nm.start = some gs) (h3 : cellsOf grl nm.stop = some ge) :
    i3Select ops nm (C17.ofRows specs rows) grl =
      C17.ofRows specs (rows.filter (fun r =>
        gr.any (fun g => ops.eqv (runOf r) g) &&
        (gs.zip ge).any (fun w => ops.le w.1 (timeOf r) && ops.le (timeOf r) w.2))) := by
  have hr := C17.cellsOf_ofRows specs rows hnd _ hrun
  simp only at hr
  unfold i3Select
  simp only [h1, hr, h2, h3]
  have hmask1 : runMask ops (rows.map runOf) gr = rows.map (fun r => gr.any (fun g => ops.eqv (runOf r) g)) := by
    simp [runMask]
  rw [hmask1, C17.applyMask_ofRows]
  have ht := C17.cellsOf_ofRows specs (rows.filter (fun r => gr.any (fun g => ops.eqv (runOf r) g))) hnd _ htime
  simp only at ht
  simp only [ht]
  rw [c17_i3_time_mask]
  have hmask2 : (List.map timeOf (rows.filter (fun r => gr.any (fun g => ops.eqv (runOf r) g)))).map
      (fun t => (gs.zip ge).any (fun p => ops.le p.1 t && ops.le t p.2)) =
      (rows.filter (fun r => gr.any (fun g => ops.eqv (runOf r) g))).map
        (fun r => (gs.zip ge).any (fun w => ops.le w.1 (timeOf r) && ops.le (timeOf r) w.2)) := by
    simp
  rw [hmask2, C17.applyMask_ofRows, List.filter_filter]
  congr 1
  apply List.filter_congr
  intro r _
  simp [Bool.and_comm]

/-- **Live time**: a given live time is used as it is; … -/
theorem c17_i3_livetime_given (v : V) (grl : Option (Arr N D V)) :
    i3Livetime ops nm (some v) grl = .ok (some v) := by
  cases grl <;> rfl

/-- … without one, the live time is the sum of the `livetime` column of the good-run list, … -/
theorem c17_i3_livetime_from_grl (g : Arr N D V) (lt : List V) (h : cellsOf g nm.livetime = some lt) :
    i3Livetime ops nm none (some g) = .ok (some (ops.sum lt)) := by
  simp [i3Livetime, h]

/-- … or, if the list has no such column, the sum of `stop - start`; -/
theorem c17_i3_livetime_from_windows (g : Arr N D V) (s e : List V) (h : cellsOf g nm.livetime = none)
    (hs : cellsOf g nm.start = some s) (he : cellsOf g nm.stop = some e) :
    i3Livetime ops nm none (some g) = .ok (some (ops.sum (List.zipWith (fun a b => ops.sub b a) s e))) := by
  simp [i3Livetime, h, hs, he]

/-- without a good-run list every event stays (identity preparation, experimental data only):
`prepare_data` only adds `sin_dec` -/
theorem c17_i3_all_rows_without_grl (a a' : Arr N D V) (lt : Option V)
    (h : addSin ops nm.dec nm.sinDec a = .ok a') :
    i3Prepare ops nm (fun d => .ok d) (some a, none) none lt = .ok ((some a', none), lt) := by
  cases lt <;> simp [i3Prepare, i3Livetime, h]

variable (st : Stages) (loader : List P → Opts N D → Except Err (Arr N D V))
  (prep : Option (Arr N D V) × Option (Arr N D V) → Except Err (Option (Arr N D V) × Option (Arr N D V)))

/-- **Required fields and a live time are there** whenever `load_and_prepare_data` of an IceCube data
set returns: the analysis-stage fields of the merged table (e.g. `sin_dec`, which only
`prepare_data` creates) are present, and a live time exists (given or from the good-run list). -/
theorem c17_i3_required_present (c : DsCfg N D) (expPaths mcPaths grlPaths : List P) (grlRen : List (N × N))
    (livetime : Option V) (e m g : Option (Arr N D V)) (lt : Option V)
    (h : i3LoadAndPrepare ops nm st loader prep c expPaths mcPaths grlPaths grlRen livetime = .ok (e, m, g, lt)) :
    (∀ a, e = some a → ∀ r ∈ jointNames c.merged st.anExp, r ∈ a.cols.map (·.name)) ∧
    (∀ a, m = some a → ∀ r ∈ jointNames c.merged (st.anExp ||| st.anMc), r ∈ a.cols.map (·.name)) ∧
    lt.isSome = true := by
  unfold i3LoadAndPrepare at h
  cases hl : loadData st loader c expPaths mcPaths with
  | error err => simp [hl] at h
  | ok d =>
    simp only [hl] at h
    split at h
    · simp at h
    · rename_i grl hgrl
      cases hp : i3Prepare ops nm prep d grl livetime with
      | error err => simp [hp] at h
      | ok r =>
        obtain ⟨⟨e0, m0⟩, lt0⟩ := r
        simp only [hp] at h
        cases ha : assertFormat st c.merged (tidyOpt (jointNames c.merged st.anExp ++ c.keep) e0)
            (tidyOpt (jointNames c.merged (st.anExp ||| st.anMc) ++ c.keep) m0) lt0.isSome with
        | error err => simp [ha] at h
        | ok u =>
          simp only [ha, Except.ok.injEq, Prod.mk.injEq] at h
          obtain ⟨he, hm, _, hlt⟩ := h
          unfold assertFormat at ha
          simp only at ha
          refine ⟨?_, ?_, ?_⟩
          · intro a hea
            rw [← he] at hea
            rw [hea] at ha
            by_contra hcon
            have : ¬ (missingKeys (a.cols.map (·.name)) (jointNames c.merged st.anExp) = []) := by
              rw [C17.missing_nil_iff]; exact hcon
            simp [this] at ha
          · intro a hma
            rw [← hm] at hma
            rw [hma] at ha
            by_contra hcon
            have : ¬ (missingKeys (a.cols.map (·.name)) (jointNames c.merged (st.anExp ||| st.anMc)) = []) := by
              rw [C17.missing_nil_iff]; exact hcon
            split at ha <;> simp [this] at ha
          · rw [← hlt]
            by_contra hcon
            have hf : lt0.isSome = false := by simpa using hcon
            rw [hf] at ha
            repeat' split at ha
            all_goals simp_all

/-- **No live time is an error**: without a given live time and without a good-run list
`load_and_prepare_data` never returns. -/
theorem c17_i3_no_livetime_is_error (c : DsCfg N D) (expPaths mcPaths : List P) (grlRen : List (N × N)) :
    ∃ err, i3LoadAndPrepare ops nm st loader prep c expPaths mcPaths [] grlRen none = .error err := by
  cases hres : i3LoadAndPrepare ops nm st loader prep c expPaths mcPaths [] grlRen none with
  | error err => exact ⟨err, rfl⟩
  | ok r =>
    obtain ⟨e, m, g, lt⟩ := r
    have hsome := (c17_i3_required_present ops nm st loader prep c expPaths mcPaths [] grlRen none e m g lt hres).2.2
    -- but the live time of the result is the one computed by `i3Livetime none none = none`
    exfalso
    unfold i3LoadAndPrepare at hres
    cases hl : loadData st loader c expPaths mcPaths with
    | error err => simp [hl] at hres
    | ok d =>
      simp only [hl, List.isEmpty_nil, if_true] at hres
      cases hp : i3Prepare ops nm prep d none none with
      | error err => simp [hp] at hres
      | ok r =>
        obtain ⟨⟨e0, m0⟩, lt0⟩ := r
        have hlt0 : lt0 = none := by
          unfold i3Prepare at hp
          simp only [i3Livetime] at hp
          cases hq : prep d with
          | error err => simp [hq] at hp
          | ok em =>
            obtain ⟨e1, m1⟩ := em
            simp only [hq] at hp
            split at hp
            · simp at hp
            · split at hp
              · simp at hp
              · simp only [Except.ok.injEq, Prod.mk.injEq] at hp
                exact hp.2.symm
        simp only [hp] at hres
        split at hres
        · simp at hres
        · simp only [Except.ok.injEq, Prod.mk.injEq] at hres
          rw [← hres.2.2.2, hlt0] at hsome
          simp at hsome

/-- non-vacuity: field 0 = run, field 1 = time, field 9 = a payload; good-run list with run 7 and the
window [10, 20]: of four events only the second (run 7, time 20 — the closed upper edge) is kept, in
every column. -/
example : i3Select (N := Nat) (D := Nat) (V := Nat)
      ⟨Nat.ble, fun a b => a == b, id, id, List.sum, fun a b => a - b⟩ ⟨0, 1, 2, 3, 4, 5, 6, 7, 8⟩
      ⟨[⟨0, 0, [7, 7, 3, 7]⟩, ⟨1, 0, [5, 20, 15, 21]⟩, ⟨9, 0, [100, 101, 102, 103]⟩], 4⟩
      ⟨[⟨0, 0, [7]⟩, ⟨2, 0, [10]⟩, ⟨3, 0, [20]⟩], 1⟩ =
    ⟨[⟨0, 0, [7]⟩, ⟨1, 0, [20]⟩, ⟨9, 0, [101]⟩], 1⟩ := by decide

end i3

/-! ### non-vacuity: concrete inputs meeting the hypotheses -/

section examples

/-- a well-formed two-field file with three rows -/
def C17.exFile : File Nat Nat Nat := ⟨[(0, 0), (1, 1)], [[10, 20], [11, 21], [12, 22]]⟩

example : WF C17.exFile := by
  intro r hr
  simp [C17.exFile] at hr
  rcases hr with rfl | rfl | rfl <;> rfl

/-- the memory-efficient loop with a re-open block of 2 rows on that file, keeping field 1 -/
example : loadFileMem (fun _ _ v => .ok v) (fun _ : Nat => some C17.exFile) 2 0 ⟨some [1, 5], [], []⟩ =
    .ok ⟨[⟨1, 1, [20, 21, 22]⟩], 3⟩ := by decide

example : (C17.exFile.schema.map (·.1)).Nodup := by decide

/-- two files, both modes: rows of the first file, then rows of the second -/
example : npyLoad (fun _ _ v => .ok v) (fun _ _ v => .ok v) (fun _ _ v => v) (fun a _ => a) .memory
      (fun p : Nat => if p = 0 then some C17.exFile else some ⟨[(0, 0), (1, 1)], [[13, 23]]⟩) 2 [0, 1] ⟨none, [], []⟩ =
    .ok ⟨[⟨0, 0, [10, 11, 12, 13]⟩, ⟨1, 1, [20, 21, 22, 23]⟩], 4⟩ := by decide

/-- the driver's cast / promotion instance meets `hcast` / `hprom` of the multi-file theorems -/
example : ∀ d v, castCell d d v = v := by intro d v; cases d <;> rfl
example : ∀ d, promoteDT d d = d := by intro d; cases d <;> rfl

/-- the agreement-domain guard holds for the identity conversion on that file (both cast paths of the
driver instance: no conversion requested) -/
example : CastOK castCell castCopyCell ⟨none, [], []⟩ (⟨[(0, DT.i8)], [[5], [6]]⟩ : File Nat DT Int) := by
  intro s hs v _
  simp [selected, selectedFrom, isKept, targetDt] at hs
  subst hs
  rfl

example : CastOK castCell castAssignCell ⟨none, [], []⟩ (⟨[(0, DT.i8)], [[5], [6]]⟩ : File Nat DT Int) := by
  intro s hs v _
  simp [selected, selectedFrom, isKept, targetDt] at hs
  subst hs
  rfl

/-- parquet / text loader on a concrete float64-tagged file: same result as the npy loader -/
example : parquetLoad (fun _ _ v => .ok v) (fun _ : Nat => some C17.exFile) [0, 0] ⟨some [1], [], []⟩ =
    npyLoad (fun _ _ v => .ok v) (fun _ _ v => .ok v) (fun _ _ v => v) (fun a _ => a) .memory
      (fun _ : Nat => some C17.exFile) 2 [0, 0] ⟨some [1], [], []⟩ := by decide

/-- a missing second file: error in both modes -/
example : npyLoad (fun _ _ v => .ok v) (fun _ _ v => .ok v) (fun _ _ v => v) (fun a _ => a) .memory
    (fun p : Nat => if p = 0 then some C17.exFile else none) 2 [0, 1] ⟨none, [], []⟩ = .error .fileMissing := by
  decide

/-- a *chained* conversion map (a target dtype that is also a source dtype, here 0 → 1, 1 → 2) is
applied once: field 0 of dtype 0 becomes dtype 1 — in both modes — not dtype 2 -/
example : loadFileMem (fun _ _ v => .ok v) (fun _ : Nat => some C17.exFile) 2 0 ⟨some [0], [(0, 1), (1, 2)], []⟩ =
    .ok ⟨[⟨0, 1, [10, 11, 12]⟩], 3⟩ := by decide

example : loadFileTime (fun _ _ v => .ok v) (fun _ : Nat => some C17.exFile) 0 ⟨some [0], [(0, 1), (1, 2)], []⟩ =
    .ok ⟨[⟨0, 1, [10, 11, 12]⟩], 3⟩ := by decide

/-- a renaming onto a required name with distinct new names -/
example : ((([(5, 0)] : List (Nat × Nat))).map (·.2)).Nodup := by decide

example : (0 : Nat) ∈ jointNames (DsCfg.merged (⟨[(0, 4)], [(1, 4)], [(5, 0)], [], [], [], none⟩ : DsCfg Nat Nat)) (1 ||| 4) := by
  decide

/-- a run of `loadAndPrepare` that returns (hypothesis of `c17_required_present`) -/
example : loadAndPrepare (N := Nat) (D := Nat) (V := Nat) (P := Nat) ⟨1, 2, 4, 8⟩
      (fun _ _ => .ok ⟨[⟨0, 0, [7]⟩, ⟨1, 0, [8]⟩, ⟨2, 0, [9]⟩], 1⟩) (fun d => .ok d)
      ⟨[(0, 4)], [(1, 4)], [], [], [], [], none⟩ [0] [] true =
    .ok (some ⟨[⟨0, 0, [7]⟩, ⟨1, 0, [8]⟩], 1⟩, none) := by decide

/-- … and one where a data-set level required field is missing: KeyError -/
example : loadAndPrepare (N := Nat) (D := Nat) (V := Nat) (P := Nat) ⟨1, 2, 4, 8⟩
      (fun _ _ => .ok ⟨[⟨0, 0, [7]⟩], 1⟩) (fun d => .ok d)
      ⟨[(0, 4)], [(1, 4)], [], [], [], [], none⟩ [0] [] true = .error .keyError := by decide

/-- renaming onto the name of a field that exists at that moment is refused (KeyError), so chained
dictionaries are order dependent: {5→6, 6→7} on fields 5, 6 raises, {6→7, 5→6} renames both
(compared with the real `rename_fields` on every run: request `rename`). -/
example : renameFields [(5, 6), (6, 7)] (⟨[⟨5, 0, [1]⟩, ⟨6, 0, [2]⟩], 1⟩ : Arr Nat Nat Nat) =
    .error .keyError := by decide

example : renameFields [(6, 7), (5, 6)] (⟨[⟨5, 0, [1]⟩, ⟨6, 0, [2]⟩], 1⟩ : Arr Nat Nat Nat) =
    .ok ⟨[⟨7, 0, [2]⟩, ⟨6, 0, [1]⟩], 1⟩ := by decide

/-- hypotheses of `c17_rename_single` on a concrete array -/
example : (5 : Nat) ∉ ((⟨[⟨0, 0, [1]⟩, ⟨1, 0, [2]⟩], 1⟩ : Arr Nat Nat Nat).cols.map (·.name)) := by decide

/-- a mixed list of relative and absolute file names, a relative one first -/
example : getAbsPaths (fun p : Nat => p + 100) [.rel 1, .abs 7, .rel 2] = [101, 7, 102] := by decide

end examples


/-! ## Round 7: the loader registry and the choice of the loader class (`register_FileLoader`, `create_FileLoader`) -/
section dispatch
open LoadR7
variable {L : Type}

/-- **The format decides the loader**: when the registered formats are non-empty and none is (ignoring ASCII
case) a suffix of another, a file name that ends in a registered format is loaded by the class registered
for that format - whatever the order of registration and the sort order of the formats - and the class
gets the whole listed path list. `hd`: keys of a Python dict are distinct. -/
theorem c17_dispatch_by_format (reg : List (Str × L)) (hd : (reg.map Prod.fst).Nodup)
    (hs : SuffixFree (reg.map Prod.fst)) (h0 : ∀ k ∈ reg.map Prod.fst, 0 < k.length)
    (k : Str) (cls : L) (hk : (k, cls) ∈ reg) (p : Str) (rest : List Str) (hm : fmtMatches k p = true) :
    createLoader reg (.seq (p :: rest)) = .ok (cls, p :: rest) := by
  have hkm : k ∈ reg.map Prod.fst := List.mem_map.2 ⟨(k, cls), hk, rfl⟩
  have hf : firstMatch p (sortedKeys (reg.map Prod.fst)) = some k := by
    apply firstMatch_unique ((mem_sortedKeys _ _).2 hkm) hm
    intro g hg hgm
    exact matches_unique hs h0 hkm ((mem_sortedKeys _ _).1 hg) hm hgm
  simp only [createLoader, createGo, hf, regLookup_of_mem hd hk]

/-- … in particular a name `stem ++ format` (any stem, any case of the extension is covered by
`fmtMatches`) -/
theorem c17_dispatch_by_extension (reg : List (Str × L)) (hd : (reg.map Prod.fst).Nodup)
    (hs : SuffixFree (reg.map Prod.fst)) (h0 : ∀ k ∈ reg.map Prod.fst, 0 < k.length)
    (k : Str) (cls : L) (hk : (k, cls) ∈ reg) (stem : Str) (rest : List Str) :
    createLoader reg (.seq ((stem ++ k) :: rest)) = .ok (cls, (stem ++ k) :: rest) :=
  c17_dispatch_by_format reg hd hs h0 k cls hk _ rest
    (fmtMatches_append stem (h0 k (List.mem_map.2 ⟨(k, cls), hk, rfl⟩)))

/-- a file name that no registered format matches is an error (RuntimeError), for every registry -/
theorem c17_dispatch_unknown_format_is_error (reg : List (Str × L)) (p : Str) (rest : List Str)
    (h : ∀ k ∈ reg.map Prod.fst, fmtMatches k p = false) :
    createLoader reg (.seq (p :: rest)) = .error .noLoader := by
  have hf : firstMatch p (sortedKeys (reg.map Prod.fst)) = none :=
    firstMatch_none (fun g hg => h g ((mem_sortedKeys _ _).1 hg))
  simp only [createLoader, createGo, hf]

/-- the chosen class is always one registered for a format that matches the FIRST listed name; the other
names of the list play no role (a list of mixed extensions is handed to the first file's loader) -/
theorem c17_dispatch_first_file_decides (reg : List (Str × L)) (hd : (reg.map Prod.fst).Nodup)
    (p : Str) (rest : List Str) (cls : L) (ps : List Str)
    (h : createLoader reg (.seq (p :: rest)) = .ok (cls, ps)) :
    ps = p :: rest ∧ (∃ k, (k, cls) ∈ reg ∧ fmtMatches k p = true) ∧
      ∀ rest', createLoader reg (.seq (p :: rest')) = .ok (cls, p :: rest') := by
  simp only [createLoader, createGo] at h ⊢
  cases hf : firstMatch p (sortedKeys (reg.map Prod.fst)) with
  | none => simp [hf] at h
  | some f =>
    simp only [hf] at h ⊢
    cases hl : regLookup f reg with
    | none => simp [hl] at h
    | some c =>
      simp only [hl, Except.ok.injEq, Prod.mk.injEq] at h ⊢
      obtain ⟨rfl, rfl⟩ := h
      have hfm := firstMatch_some hf
      obtain ⟨⟨k', c'⟩, hmem, hk'⟩ := List.mem_map.1 ((mem_sortedKeys _ _).1 hfm.1)
      simp only at hk'
      subst hk'
      have := regLookup_of_mem hd hmem
      rw [hl] at this
      cases this
      exact ⟨rfl, ⟨k', hmem, hfm.2⟩, by intro _; first | trivial | exact ⟨rfl, rfl⟩⟩

/-- a single name given as `str` is the one-element list -/
theorem c17_dispatch_str_form (reg : List (Str × L)) (p : Str) :
    createLoader reg (.str p) = createLoader reg (.seq [p]) := rfl

/-- an empty path list is an IndexError, for every registry -/
theorem c17_dispatch_empty_list (reg : List (Str × L)) : createLoader reg (.seq []) = .error .indexError := rfl

/-- **Registration**: whatever the outcome, the formats registered before stay registered with their class
(the registry only grows at the end), every new entry maps one of the given formats to the given class,
and the keys stay distinct. -/
theorem c17_register_extends (reg : List (Str × L)) (hd : (reg.map Prod.fst).Nodup) (formats : FmtArg)
    (isLoader : Bool) (cls : L) :
    (∃ added, (registerLoader reg formats isLoader cls).1 = reg ++ added ∧ ∀ e ∈ added, e.2 = cls) ∧
    (((registerLoader reg formats isLoader cls).1).map Prod.fst).Nodup := by
  cases formats with
  | other => exact ⟨⟨[], by simp [registerLoader], by simp⟩, by simpa [registerLoader] using hd⟩
  | str f =>
    cases isLoader
    · exact ⟨⟨[], by simp [registerLoader], by simp⟩, by simpa [registerLoader] using hd⟩
    · obtain ⟨a, h1, h2⟩ := registerGo_prefix cls [f] reg
      exact ⟨⟨a, by simpa [registerLoader] using h1, fun e he => (h2 e he).1⟩,
        by simpa [registerLoader] using registerGo_nodup cls [f] reg hd⟩
  | seq fs =>
    cases isLoader
    · exact ⟨⟨[], by simp [registerLoader], by simp⟩, by simpa [registerLoader] using hd⟩
    · obtain ⟨a, h1, h2⟩ := registerGo_prefix cls fs reg
      exact ⟨⟨a, by simpa [registerLoader] using h1, fun e he => (h2 e he).1⟩,
        by simpa [registerLoader] using registerGo_nodup cls fs reg hd⟩

/-- a format that is already registered is refused (KeyError) and the registry is unchanged -/
theorem c17_register_existing_is_error (reg : List (Str × L)) (f : Str) (cls : L)
    (h : f ∈ reg.map Prod.fst) : registerLoader reg (.str f) true cls = (reg, some .keyError) := by
  simp [registerLoader, registerGo, h]

/-- the registry of the current source: formats distinct, non-empty, none a suffix of another -/
theorem c17_registry_for_current_source :
    (Gen.C17.loaderRegistry.map Prod.fst).Nodup ∧ SuffixFree (Gen.C17.loaderRegistry.map Prod.fst) ∧
      ∀ k ∈ Gen.C17.loaderRegistry.map Prod.fst, 0 < k.length := by
  refine ⟨by decide, by decide, by decide⟩

/-- **Every supported format reaches its loader** (current source): a file whose name ends, in any ASCII
case, in a registered format is loaded by the class registered for it, and a name matching none is an error. -/
theorem c17_dispatch_for_current_source (k : Str) (cls : String) (hk : (k, cls) ∈ Gen.C17.loaderRegistry)
    (p : Str) (rest : List Str) (hm : fmtMatches k p = true) :
    createLoader Gen.C17.loaderRegistry (.seq (p :: rest)) = .ok (cls, p :: rest) :=
  c17_dispatch_by_format _ c17_registry_for_current_source.1 c17_registry_for_current_source.2.1
    c17_registry_for_current_source.2.2 k cls hk p rest hm

/-- non-vacuity: `data/exp.NPY` and `x.csv` with the generated registry; `x.txt`; a registry in which `.gz`
is a suffix of `.csv.gz` (outside `SuffixFree`): the sort order decides (`.csv.gz` < `.gz`) -/
example : fmtMatches [46, 110, 112, 121] [100, 47, 101, 46, 78, 80, 89] = true := by decide
example : (createLoader Gen.C17.loaderRegistry (.seq [[100, 47, 101, 46, 78, 80, 89], [120]])).toOption.map Prod.snd =
    some [[100, 47, 101, 46, 78, 80, 89], [120]] := by decide
example : createLoader Gen.C17.loaderRegistry (.str [120, 46, 116, 120, 116]) = .error .noLoader := by decide
example : createLoader [([46, 103, 122], 1), ([46, 99, 115, 118, 46, 103, 122], 2)]
    (.str [97, 46, 99, 115, 118, 46, 103, 122]) = .ok (2, [[97, 46, 99, 115, 118, 46, 103, 122]]) := by decide
example : registerLoader [([46, 97], 1)] (.seq [[46, 98], [46, 97], [46, 99]]) true 2 =
    ([([46, 97], 1), ([46, 98], 2)], some .keyError) := by decide

end dispatch

/-! ## Round 7: the table header of a text file (`TextFileLoader._extract_column_names`, `usecols`) -/
section header
open LoadR7

/-- **Header round trip** (whitespace-separated header, the default): a first line
`<ws> comment <ws> name name … <ws>` - any amount of whitespace before the comment string, after it and at
the end of the line, names joined by blanks - is read back as exactly the listed names, in order, provided the
comment string is non-empty without whitespace and the names are non-empty and contain neither whitespace
nor a character of the comment string. -/
theorem c17_header_roundtrip (comment lead mid tail : Str) (names : List Str)
    (hc : comment ≠ []) (hcs : ∀ c ∈ comment, isSpace c = false)
    (hlead : ∀ c ∈ lead, isSpace c = true) (hmid : ∀ c ∈ mid, isSpace c = true)
    (htail : ∀ c ∈ tail, isSpace c = true) (hne : names ≠ [])
    (hn : ∀ n ∈ names, n ≠ [] ∧ ∀ c ∈ n, isSpace c = false ∧ comment.contains c = false) :
    extractColumnNames comment none (lead ++ comment ++ mid ++ joinSp names ++ tail) = .ok (some names) := by
  obtain ⟨a, ct, rfl⟩ := List.exists_cons_of_ne_nil hc
  obtain ⟨b, bt, bi, z, hb, hz, hPb, hPz⟩ :=
    joinSp_ends names hne (fun c => isSpace c = false ∧ (a :: ct).contains c = false) hn
  obtain ⟨h1, h2⟩ := header_body (a :: ct) lead mid (joinSp names) tail ct bt bi a b z rfl hcs hlead hmid
    htail hb hz hPb.1 hPz.1 hPb.2 hPz.2
  have htake : ((a :: ct) ++ mid ++ joinSp names).take (a :: ct).length = a :: ct := by
    rw [List.append_assoc]; simp
  have hmap : names.map (stripBy isSpace) = names := by
    conv_rhs => rw [← List.map_id names]
    apply List.map_congr_left
    intro n hn'
    exact stripBy_none n (fun c hc' => ((hn n hn').2 c hc').1)
  have hsplit := splitWs_joinSp names (fun n hn' => ⟨(hn n hn').1, fun c hc' => ((hn n hn').2 c hc').1⟩)
  simp only [extractColumnNames, h1, htake, h2, hsplit, hmap, bne_self_eq_false, Bool.false_eq_true, if_false]
  cases names with
  | nil => exact absurd rfl hne
  | cons _ _ => rfl

/-- the defaults of the current source (`header_comment`, `header_separator = None`) are inside the proved region -/
theorem c17_header_roundtrip_for_current_source (lead mid tail : Str) (names : List Str)
    (hlead : ∀ c ∈ lead, isSpace c = true) (hmid : ∀ c ∈ mid, isSpace c = true)
    (htail : ∀ c ∈ tail, isSpace c = true) (hne : names ≠ [])
    (hn : ∀ n ∈ names, n ≠ [] ∧ ∀ c ∈ n, isSpace c = false ∧ Gen.C17.headerComment.contains c = false) :
    extractColumnNames Gen.C17.headerComment Gen.C17.headerSeparator
      (lead ++ Gen.C17.headerComment ++ mid ++ joinSp names ++ tail) = .ok (some names) := by
  have hs : Gen.C17.headerSeparator = none := rfl
  rw [hs]
  exact c17_header_roundtrip _ lead mid tail names (by decide) (by decide) hlead hmid htail hne hn

/-- **Selected columns**: with `keep_fields` the loaded fields are the header names listed in `keep_fields`, in
file order, each read (`usecols`) from the file column that carries its name; nothing selected is an error;
without `keep_fields` all columns are read. A first line that is no header is an error. -/
theorem c17_header_usecols (comment : Str) (sep : Option Str) (line : Str) (cols keep : List Str)
    (h : extractColumnNames comment sep line = .ok (some cols)) :
    (cols.filter (fun n => keep.contains n) = [] →
      headerSelect comment sep line (some keep) = .error .noColumns) ∧
    (∀ (names : List Str) (idx : List Nat), headerSelect comment sep line (some keep) = .ok (names, some idx) →
      names = cols.filter (fun n => keep.contains n) ∧ names.length = idx.length ∧
      ∀ (k : Nat) (n : Str) (j : Nat), names[k]? = some n → idx[k]? = some j → cols[j]? = some n) := by
  have hnames := usecolsGo_names keep 0 cols
  constructor
  · intro he
    rw [he, List.map_eq_nil_iff] at hnames
    simp [headerSelect, h, hnames]
  · intro names idx hr
    simp only [headerSelect, h] at hr
    split_ifs at hr with hemp
    simp only [Except.ok.injEq, Prod.mk.injEq, Option.some.injEq] at hr
    obtain ⟨rfl, rfl⟩ := hr
    refine ⟨hnames, by simp, ?_⟩
    intro k n j hk hj
    rw [List.getElem?_map] at hk hj
    cases he : (usecolsGo keep 0 cols)[k]? with
    | none => simp [he] at hk
    | some e =>
      simp only [he, Option.map_some, Option.some.injEq] at hk hj
      have hmem : (j, n) ∈ usecolsGo keep 0 cols := by
        have := List.mem_of_getElem? he
        rw [← hk, ← hj]; exact this
      simpa using (usecolsGo_index keep 0 cols j n hmem).2.1

theorem c17_header_all_columns (comment : Str) (sep : Option Str) (line : Str) (cols : List Str)
    (h : extractColumnNames comment sep line = .ok (some cols)) (hne : cols ≠ []) :
    headerSelect comment sep line none = .ok (cols, none) := by
  cases cols with
  | nil => exact absurd rfl hne
  | cons c cs => simp [headerSelect, h]

theorem c17_header_missing_is_error (comment : Str) (sep : Option Str) (line : Str) (keep : Option (List Str))
    (h : extractColumnNames comment sep line = .ok none) :
    headerSelect comment sep line keep = .error .valueError := by
  simp [headerSelect, h]

/-- a first line that does not start (after whitespace) with the comment string is no header -/
theorem c17_header_not_a_comment_line (comment : Str) (sep : Option Str) (line : Str)
    (h : (stripBy isSpace line).take comment.length ≠ comment) :
    extractColumnNames comment sep line = .ok none := by
  simp [extractColumnNames, h]

/-- non-vacuity: `"  # ra  dec\n"`, keep `dec`; `"ra dec\n"`; and an observation outside the hypotheses:
a last name ending in the comment character loses it (`"# a q#"` gives `a`, `q`) -/
example : extractColumnNames [35] none [32, 32, 35, 32, 114, 97, 32, 32, 100, 101, 99, 10] =
    .ok (some [[114, 97], [100, 101, 99]]) := by decide
example : headerSelect [35] none [32, 32, 35, 32, 114, 97, 32, 32, 100, 101, 99, 10] (some [[100, 101, 99], [120]]) =
    .ok ([[100, 101, 99]], some [1]) := by decide
example : headerSelect [35] none [114, 97, 32, 100, 101, 99, 10] none = .error .valueError := by decide
example : extractColumnNames [35] (some [44]) [35, 114, 97, 32, 44, 32, 100, 10] = .ok (some [[114, 97], [100]]) := by
  decide
example : extractColumnNames [35] none [35, 32, 97, 32, 113, 35, 10] = .ok (some [[97], [113]]) := by decide
example : joinSp [[114, 97], [100, 101, 99]] = [114, 97, 32, 100, 101, 99] := by decide

end header

/-! ## Round 7 (continued): the sorted order of the formats; explicit header separator -/

open LoadR7 in
/-- **Which format wins** (any registry, also with formats that are suffixes of one another): the chosen class
is registered for the least (in Python's `str` order = `sorted`) of all formats matching the first name. -/
theorem c17_dispatch_least_matching_format {L : Type} (reg : List (Str × L)) (hd : (reg.map Prod.fst).Nodup)
    (p : Str) (rest : List Str) (cls : L) (ps : List Str)
    (h : createLoader reg (.seq (p :: rest)) = .ok (cls, ps)) :
    ∃ k, (k, cls) ∈ reg ∧ fmtMatches k p = true ∧
      ∀ k' ∈ reg.map Prod.fst, fmtMatches k' p = true → strLt k' k = false := by
  simp only [createLoader, createGo] at h
  cases hf : firstMatch p (sortedKeys (reg.map Prod.fst)) with
  | none => simp [hf] at h
  | some f =>
    simp only [hf] at h
    cases hl : regLookup f reg with
    | none => simp [hl] at h
    | some c =>
      simp only [hl, Except.ok.injEq, Prod.mk.injEq] at h
      obtain ⟨rfl, rfl⟩ := h
      have hfm := firstMatch_some hf
      obtain ⟨⟨k', c'⟩, hmem, hk'⟩ := List.mem_map.1 ((mem_sortedKeys _ _).1 hfm.1)
      simp only at hk'
      subst hk'
      have := regLookup_of_mem hd hmem
      rw [hl] at this
      cases this
      refine ⟨k', hmem, hfm.2, ?_⟩
      intro g hg hgm
      exact firstMatch_least (sortedKeys_ascending _) hf g ((mem_sortedKeys _ _).2 hg) hgm

open LoadR7 in
/-- **Header round trip with an explicit one-character separator** (`header_separator=','` …): the names joined
by the separator are read back exactly, in order (names non-empty, without whitespace, comment characters and
the separator). -/
theorem c17_header_roundtrip_separator (comment lead mid tail : Str) (s : Nat) (names : List Str)
    (hc : comment ≠ []) (hcs : ∀ c ∈ comment, isSpace c = false)
    (hlead : ∀ c ∈ lead, isSpace c = true) (hmid : ∀ c ∈ mid, isSpace c = true)
    (htail : ∀ c ∈ tail, isSpace c = true) (hne : names ≠ [])
    (hn : ∀ n ∈ names, n ≠ [] ∧ ∀ c ∈ n, (isSpace c = false ∧ comment.contains c = false) ∧ c ≠ s) :
    extractColumnNames comment (some [s]) (lead ++ comment ++ mid ++ joinBy s names ++ tail) =
      .ok (some names) := by
  obtain ⟨a, ct, rfl⟩ := List.exists_cons_of_ne_nil hc
  obtain ⟨b, bt, bi, z, hb, hz, hPb, hPz⟩ :=
    joinBy_ends s names hne (fun c => isSpace c = false ∧ (a :: ct).contains c = false)
      (fun n hn' => ⟨(hn n hn').1, fun c hc' => ((hn n hn').2 c hc').1⟩)
  obtain ⟨h1, h2⟩ := header_body (a :: ct) lead mid (joinBy s names) tail ct bt bi a b z rfl hcs hlead hmid
    htail hb hz hPb.1 hPz.1 hPb.2 hPz.2
  have htake : ((a :: ct) ++ mid ++ joinBy s names).take (a :: ct).length = a :: ct := by
    rw [List.append_assoc]; simp
  have hmap : names.map (stripBy isSpace) = names := by
    conv_rhs => rw [← List.map_id names]
    apply List.map_congr_left
    intro n hn'
    exact stripBy_none n (fun c hc' => ((hn n hn').2 c hc').1.1)
  have hsplit : splitSep [s] (joinBy s names) = names :=
    splitSep_joinBy s names hne (fun n hn' c hc' => ((hn n hn').2 c hc').2) _ (le_refl _)
  simp only [extractColumnNames, h1, htake, h2, hsplit, hmap, bne_self_eq_false, Bool.false_eq_true, if_false]
  cases names with
  | nil => exact absurd rfl hne
  | cons _ _ => rfl

open LoadR7 in
example : extractColumnNames [35] (some [44]) ([32] ++ [35] ++ [32] ++ joinBy 44 [[114, 97], [100]] ++ [10]) =
    .ok (some [[114, 97], [100]]) := by decide
