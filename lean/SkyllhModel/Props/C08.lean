/-
  Property C08 — same seed, same result: random streams are reproducible and kept apart;
  weighted choice returns only items of non-zero probability, in the requested number;
  extending a trial file continues with a seed that does not occur in it yet.

  Theorems are about `Model/Rng.lean`.  `numpy.random.RandomState` is a parameter
  (`gen seed pos`), probabilities live in an arbitrary ordered field (hence ℚ, ℝ); IEEE doubles
  and numpy's Mersenne twister enter only through the correspondence check.
-/
import SkyllhModel.Model.Rng
import SkyllhModel.Model.RngDeep
import SkyllhModel.Model.RngR7
import SkyllhModel.Proofs.Rng
import SkyllhModel.Generated.C08
import Mathlib.Tactic

open Rng

set_option linter.unusedSectionVars false

/-! ## RandomChoice -/

section choice_any
variable {F : Type} [Add F] [Div F] [LE F] [LT F] [DecidableLE F] [DecidableLT F]

/-- **argsort / scatter round trip** (`idxs[idxs_of_sort] = sorted_idxs`): for *every* permutation
`perm` of the positions — whatever order `np.argsort` gives to ties — the indices computed by the
code are those of one independent look-up per uniform deviate, in the order of the deviates. -/
theorem c08_choice_idxs_coded_eq_spec (right : Bool) (ps us : List F) (perm : List Nat)
    (hp : perm.Perm (List.range us.length)) :
    idxsCoded right ps us perm = idxsSpec right ps us := by
  unfold idxsCoded idxsSpec
  cases hc : cdf ps with
  | none => rfl
  | some c =>
    simp only
    have hmem : ∀ i ∈ perm, i < us.length := fun i hi => List.mem_range.mp (hp.mem_iff.mp hi)
    cases hg : allSome (perm.map (fun i => us[i]?)) with
    | none =>
      exfalso
      have h1 := C08.allSome_eq_none _ hg
      simp only [List.mem_map] at h1
      obtain ⟨i, hi, hnone⟩ := h1
      have h2 := hmem i hi
      simp [h2] at hnone
    | some sortedUs =>
      simp only
      have hs := (C08.allSome_eq_some _ _).mp hg
      have hlen : sortedUs.length = us.length := by
        have h1 := congrArg List.length hs
        simp only [List.length_map] at h1
        rw [← h1, hp.length_eq, List.length_range]
      rw [C08.allSome_eq_some]
      apply List.ext_getElem?
      intro j
      by_cases hj : j < us.length
      · have hjm : j ∈ perm := hp.mem_iff.mpr (List.mem_range.mpr hj)
        obtain ⟨k, hk⟩ := List.mem_iff_getElem?.mp hjm
        have hsk : sortedUs[k]? = some us[j] := by
          have h1 := congrArg (fun l => l[k]?) hs
          simp only [List.getElem?_map, hk, Option.map_some] at h1
          rw [List.getElem?_eq_getElem hj] at h1
          cases hq : sortedUs[k]? with
          | none => rw [hq] at h1; simp at h1
          | some x => rw [hq] at h1; simp at h1; rw [h1]
        rw [C08.scatter_get _ perm _ (hp.nodup_iff.mpr List.nodup_range) k j (search right c us[j]) hk
          (by simp [hsk]) (by simp [hlen, hj])]
        simp [hj]
      · have hj' : us.length ≤ j := not_lt.mp hj
        rw [List.getElem?_eq_none (by simp [C08.scatter_length, hlen, hj']),
          List.getElem?_eq_none (by simp [hj'])]

/-- the same for the returned items (`items[idxs]`) -/
theorem c08_choice_coded_eq_spec {α : Type} (right : Bool) (items : List α) (ps us : List F)
    (perm : List Nat) (hp : perm.Perm (List.range us.length)) :
    chooseCoded right items ps us perm = chooseSpec right items ps us := by
  unfold chooseCoded chooseSpec
  rw [c08_choice_idxs_coded_eq_spec right ps us perm hp]

/-- the model's concrete `argsort` is such a permutation, so the code path as a whole equals the
specification form, for all inputs -/
theorem c08_choice_argsort_perm (us : List F) : (argsort us).Perm (List.range us.length) := by
  unfold argsort
  have h := (List.mergeSort_perm us.zipIdx (fun a b => decide (a.1 ≤ b.1))).map (fun a => a.2)
  have h2 : us.zipIdx.map (fun a => a.2) = List.range us.length := by
    have := List.zipIdx_map_snd 0 us
    rw [List.range_eq_range']
    exact this
  rw [h2] at h
  exact h

theorem c08_choice_as_coded {α : Type} (right : Bool) (items : List α) (ps us : List F) :
    chooseCoded right items ps us (argsort us) = chooseSpec right items ps us :=
  c08_choice_coded_eq_spec right items ps us _ (c08_choice_argsort_perm us)

/-- **requested number**: whenever a choice is returned it has exactly one item per requested
draw (`size` = number of uniform deviates). -/
theorem c08_choice_size {α : Type} (right : Bool) (items : List α) (ps us : List F) (r : List α)
    (h : chooseSpec right items ps us = some r) : r.length = us.length := by
  unfold chooseSpec idxsSpec at h
  cases hc : cdf ps with
  | none => rw [hc] at h; simp at h
  | some c =>
    rw [hc] at h
    simp only at h
    have := C08.allSome_length _ _ h
    simpa using this

end choice_any

section choice_field
variable {K : Type} [Field K] [LinearOrder K] [IsStrictOrderedRing K]

/-- one look-up (`side='right'`): for non-negative weights with positive sum and `u ∈ [0,1)` the
index is in range, the weight at the index is positive, and `u·Σp` lies in the half-open bracket
`[Σ_{i<idx} p_i, Σ_{i≤idx} p_i)` — the inverse-CDF law: item `i` is hit by a `u`-interval of
length `p_i / Σp`. -/
theorem c08_choice_pick (ps c : List K) (u : K) (hc : cdf ps = some c) (hp : ∀ p ∈ ps, 0 ≤ p)
    (hS : 0 < ps.sum) (hu0 : 0 ≤ u) (hu1 : u < 1) :
    ∃ p, ps[search true c u]? = some p ∧ 0 < p ∧
      (ps.take (search true c u)).sum ≤ u * ps.sum ∧ u * ps.sum < (ps.take (search true c u + 1)).sum := by
  have hne : ps ≠ [] := by rintro rfl; simp at hS
  unfold cdf at hc
  rw [C08.cumsum_eq_cumFrom, C08.cumFrom_getLast? 0 ps hne, zero_add] at hc
  simp only [Option.some.injEq] at hc
  subst hc
  have h := C08.pick_spec ps.sum u hS ps 0 hp (mul_nonneg hu0 hS.le)
    (by rw [zero_add]; exact mul_lt_of_lt_one_left hS hu1)
  simp only [zero_add] at h
  have hs : search true ((cumFrom 0 ps).map (fun c => c / ps.sum)) u =
      (cumFrom 0 ps).countP (fun c => decide (c / ps.sum ≤ u)) := by
    simp only [search, if_true, List.countP_map]
    rfl
  rw [hs]
  exact h

/-- **in range**: under the guard of `_assert_probabilities` (non-negative weights, positive sum),
uniform deviates in `[0,1)` and one item per weight, `RandomChoice.__call__` does not raise. -/
theorem c08_choice_in_range {α : Type} (items : List α) (ps us : List K)
    (hlen : items.length = ps.length) (hp : ∀ p ∈ ps, 0 ≤ p) (hS : 0 < ps.sum)
    (hu : ∀ u ∈ us, 0 ≤ u ∧ u < 1) : ∃ r, chooseSpec true items ps us = some r := by
  have hne : ps ≠ [] := by rintro rfl; simp at hS
  unfold chooseSpec idxsSpec
  cases hc : cdf ps with
  | none =>
    exfalso
    unfold cdf at hc
    rw [C08.cumsum_eq_cumFrom, C08.cumFrom_getLast? 0 ps hne] at hc
    simp at hc
  | some c =>
    simp only
    cases hr : allSome ((us.map (search true c)).map (fun i => items[i]?)) with
    | some r => exact ⟨r, rfl⟩
    | none =>
      exfalso
      have h1 := C08.allSome_eq_none _ hr
      simp only [List.mem_map, exists_exists_and_eq_and] at h1
      obtain ⟨u, hum, hnone⟩ := h1
      obtain ⟨p, hpick, -, -, -⟩ := c08_choice_pick ps c u hc hp hS (hu u hum).1 (hu u hum).2
      have hlt : search true c u < ps.length := by
        by_contra hcon
        rw [List.getElem?_eq_none (not_lt.mp hcon)] at hpick
        simp at hpick
      rw [List.getElem?_eq_getElem (by rw [hlen]; exact hlt)] at hnone
      simp at hnone

/-- **support**: every returned item is `items[i]` for an index `i` of strictly positive weight
whose cumulative bracket contains the deviate — an item of probability zero is never returned. -/
theorem c08_choice_support {α : Type} (items : List α) (ps us : List K) (r : List α)
    (hp : ∀ p ∈ ps, 0 ≤ p) (hS : 0 < ps.sum) (hu : ∀ u ∈ us, 0 ≤ u ∧ u < 1)
    (h : chooseSpec true items ps us = some r) :
    ∀ (k : Nat) (u : K), us[k]? = some u → ∃ (i : Nat) (p : K), ps[i]? = some p ∧ 0 < p ∧ r[k]? = items[i]? ∧ i < items.length ∧
      (ps.take i).sum ≤ u * ps.sum ∧ u * ps.sum < (ps.take (i + 1)).sum := by
  intro k u hk
  unfold chooseSpec idxsSpec at h
  cases hc : cdf ps with
  | none => rw [hc] at h; simp at h
  | some c =>
    rw [hc] at h
    simp only at h
    have hum : u ∈ us := List.mem_of_getElem? hk
    obtain ⟨p, hpick, hpos, hlo, hhi⟩ := c08_choice_pick ps c u hc hp hS (hu u hum).1 (hu u hum).2
    have hr := (C08.allSome_eq_some _ _).mp h
    have h1 := congrArg (fun l => l[k]?) hr
    simp only [List.getElem?_map, hk, Option.map_some] at h1
    refine ⟨search true c u, p, hpick, hpos, ?_, ?_, hlo, hhi⟩
    · cases hq : r[k]? with
      | none => rw [hq] at h1; simp at h1
      | some x => rw [hq] at h1; simp at h1; rw [h1]
    · by_contra hcon
      rw [List.getElem?_eq_none (not_lt.mp hcon)] at h1
      cases hq : r[k]? with
      | none => rw [hq] at h1; simp at h1
      | some x => rw [hq] at h1; simp at h1

/-- all of the above for the code path as written (argsort, sorted search, scatter) -/
theorem c08_choice_coded_correct {α : Type} (items : List α) (ps us : List K)
    (hlen : items.length = ps.length) (hp : ∀ p ∈ ps, 0 ≤ p) (hS : 0 < ps.sum)
    (hu : ∀ u ∈ us, 0 ≤ u ∧ u < 1) :
    ∃ r, chooseCoded true items ps us (argsort us) = some r ∧ r.length = us.length ∧
      ∀ (k : Nat) (u : K), us[k]? = some u → ∃ (i : Nat) (p : K), ps[i]? = some p ∧ 0 < p ∧ r[k]? = items[i]? ∧ i < items.length := by
  rw [c08_choice_as_coded]
  obtain ⟨r, hr⟩ := c08_choice_in_range items ps us hlen hp hS hu
  refine ⟨r, hr, c08_choice_size true items ps us r hr, ?_⟩
  intro k u hk
  obtain ⟨i, p, h1, h2, h3, h4, -, -⟩ := c08_choice_support items ps us r hp hS hu hr k u hk
  exact ⟨i, p, h1, h2, h3, h4⟩

end choice_field

/-- under the guard the normalised prefix sums are non-decreasing and end in exactly 1 — the array
handed to `np.searchsorted` is a sorted cdf -/
theorem c08_cdf_sorted {K : Type} [Field K] [LinearOrder K] [IsStrictOrderedRing K]
    (ps c : List K) (hc : cdf ps = some c) (hp : ∀ p ∈ ps, 0 ≤ p) (hS : 0 < ps.sum) :
    c.Pairwise (· ≤ ·) ∧ c.getLast? = some 1 := by
  have hne : ps ≠ [] := by rintro rfl; simp at hS
  unfold cdf at hc
  rw [C08.cumsum_eq_cumFrom, C08.cumFrom_getLast? 0 ps hne, zero_add] at hc
  simp only [Option.some.injEq] at hc
  subst hc
  have hsorted : ∀ (acc : K) (l : List K), (∀ p ∈ l, 0 ≤ p) → (cumFrom acc l).Pairwise (· ≤ ·) := by
    intro acc l
    induction l generalizing acc with
    | nil => intro _; simp [cumFrom]
    | cons p l ih =>
      intro hl
      have hl' : ∀ q ∈ l, 0 ≤ q := fun q hq => hl q (List.mem_cons_of_mem _ hq)
      simp only [cumFrom, List.pairwise_cons]
      exact ⟨fun c hc => C08.cumFrom_ge (acc + p) l hl' c hc, ih (acc + p) hl'⟩
  constructor
  · exact (hsorted 0 ps hp).map _ (fun a b hab => div_le_div_of_nonneg_right hab hS.le)
  · rw [List.getLast?_map, C08.cumFrom_getLast? 0 ps hne, zero_add]
    simp [div_self (ne_of_gt hS)]

section choice_order
variable {F : Type} [LinearOrder F]

/-- on a sorted array the model's `search` (a count over the whole array) is the insertion point
`np.searchsorted(side='right')` finds: the length of the leading run of entries `≤ u` -/
theorem c08_search_sorted (c : List F) (u : F) (hs : c.Pairwise (· ≤ ·)) :
    search true c u = (c.takeWhile (fun x => decide (x ≤ u))).length := by
  simp only [search, if_true]
  induction c with
  | nil => simp
  | cons x rest ih =>
    rw [List.pairwise_cons] at hs
    by_cases hx : x ≤ u
    · simp [List.countP_cons, List.takeWhile_cons, hx, ih hs.2]
    · have hz : rest.countP (fun y => decide (y ≤ u)) = 0 := by
        rw [List.countP_eq_zero]
        intro y hy
        simp only [decide_eq_true_eq, not_le]
        exact lt_of_lt_of_le (not_le.mp hx) (hs.1 y hy)
      simp [List.countP_cons, List.takeWhile_cons, hx, hz]

/-- **support without field axioms** (the IEEE-level argument): all that is used is a linear
order, `a + 0 = a`, and that the normalised prefix sums handed to the search are sorted and start
at or below `u`.  Then the picked index never carries weight `0` — adding `0` does not change the
accumulator, so a zero-weight entry can never be the first one above `u`. -/
theorem c08_choice_support_order [Add F] [Zero F] (norm : F → F) (hadd0 : ∀ a : F, a + 0 = a)
    (ps : List F) (acc u : F)
    (hsorted : (norm acc :: (cumFrom acc ps).map norm).Pairwise (· ≤ ·)) (h0 : norm acc ≤ u) :
    ps[((cumFrom acc ps).map norm).countP (fun c => decide (c ≤ u))]? ≠ some 0 := by
  induction ps generalizing acc with
  | nil => simp
  | cons p rest ih =>
    simp only [cumFrom, List.map_cons] at hsorted ⊢
    have htail := (List.pairwise_cons.mp hsorted).2
    by_cases hx : norm (acc + p) ≤ u
    · simp only [List.countP_cons, hx, decide_true, if_true, List.getElem?_cons_succ]
      exact ih (acc + p) htail hx
    · have hz : ((cumFrom (acc + p) rest).map norm).countP (fun y => decide (y ≤ u)) = 0 := by
        rw [List.countP_eq_zero]
        intro y hy
        simp only [decide_eq_true_eq, not_le]
        exact lt_of_lt_of_le (not_le.mp hx) ((List.pairwise_cons.mp htail).1 y hy)
      simp only [List.countP_cons, hx, decide_false, hz]
      intro hp
      simp only [Bool.false_eq_true, if_false, List.getElem?_cons_zero, Option.some.injEq, Nat.add_zero] at hp
      rw [hp, hadd0] at hx
      exact hx h0

/-- the same for the array `RandomChoice` really builds (`cumsum`, first entry `p[0]` itself,
normalised by `norm = (· / total)`), with the search of the model -/
theorem c08_choice_support_float_level [Add F] [Zero F] (norm : F → F) (hadd0 : ∀ a : F, a + 0 = a)
    (ps : List F) (u : F)
    (hsorted : (norm 0 :: (cumsum ps).map norm).Pairwise (· ≤ ·)) (h0 : norm 0 ≤ u) :
    ps[search true ((cumsum ps).map norm) u]? ≠ some 0 := by
  simp only [search, if_true]
  cases ps with
  | nil => simp
  | cons p rest =>
    simp only [cumsum, List.map_cons] at hsorted ⊢
    have htail := (List.pairwise_cons.mp hsorted).2
    by_cases hx : norm p ≤ u
    · simp only [List.countP_cons, hx, decide_true, if_true, List.getElem?_cons_succ]
      exact c08_choice_support_order norm hadd0 rest p u htail hx
    · have hz : ((cumFrom p rest).map norm).countP (fun y => decide (y ≤ u)) = 0 := by
        rw [List.countP_eq_zero]
        intro y hy
        simp only [decide_eq_true_eq, not_le]
        exact lt_of_lt_of_le (not_le.mp hx) ((List.pairwise_cons.mp htail).1 y hy)
      simp only [List.countP_cons, hx, decide_false, hz]
      intro hp
      simp only [Bool.false_eq_true, if_false, List.getElem?_cons_zero, Option.some.injEq, Nat.add_zero] at hp
      rw [hp] at hx
      exact hx h0

end choice_order

-- non-vacuity of the order-level premises (ℤ: weights [0,2,0,1], identity normalisation, u = 1)
example : ((fun x : ℤ => x) 0 :: (cumsum ([0, 2, 0, 1] : List ℤ)).map (fun x => x)).Pairwise (· ≤ ·) := by decide
example : ([0, 2, 0, 1] : List ℤ)[search true ((cumsum ([0, 2, 0, 1] : List ℤ)).map (fun x => x)) 1]? = some 2 := by decide

/-- the side of the search matters: with `side='left'` the deviate `u = 0` picks an item of
probability zero (weights `[0, 1]`) -/
theorem c08_choice_left_counterexample :
    chooseSpec false [10, 11] ([0, 1] : List ℤ) [0] = some [10] ∧
    chooseSpec true [10, 11] ([0, 1] : List ℤ) [0] = some [11] := by decide

/-- the source read at check time uses `side='right'`, the proved case -/
theorem c08_choice_side_for_current_source : Gen.C08.sideRight = true := by decide

-- non-vacuity of the guards: weights with zeros, deviates at 0 and just below a bracket edge
example : (∀ p ∈ ([0, 1, 0, 3] : List ℚ), 0 ≤ p) ∧ (0 : ℚ) < ([0, 1, 0, 3] : List ℚ).sum := by
  constructor
  · intro p hp; simp at hp; rcases hp with rfl | rfl | rfl | rfl <;> norm_num
  · norm_num
example : chooseCoded true [10, 11, 12, 13] ([0, 1, 0, 3] : List ℚ) [3/4, 0, 1/4] [1, 2, 0] = some [13, 11, 13] := by
  decide +kernel
example : chooseSpec true [10, 11, 12, 13] ([0, 1, 0, 3] : List ℚ) [3/4, 0, 1/4] = some [13, 11, 13] := by
  decide +kernel

/-! ## unused-seed search of `extend_trial_data_file` -/

/-- **fresh seed**: whatever seeds the file contains (duplicates, any order, with or without 0)
and whatever seed the service currently has, the extension runs with a seed that does not occur
in the file. -/
theorem c08_next_seed_fresh (start : Nat) (used : List Nat) (cur : Nat) :
    extendSeed start used cur ∉ used := by
  unfold extendSeed
  split_ifs with h
  · exact (C08.firstUnused_spec used _ start (C08.exists_unused used start)).1
  · exact h

/-- a seed that is not in the file yet is kept -/
theorem c08_next_seed_keeps_unused (start : Nat) (used : List Nat) (cur : Nat) (h : cur ∉ used) :
    extendSeed start used cur = cur := by
  unfold extendSeed; rw [if_neg h]

/-- otherwise the *least* unused value from `start` on is taken, and it is at most
`start + number of rows` -/
theorem c08_next_seed_least (start : Nat) (used : List Nat) (cur : Nat) (h : cur ∈ used) :
    start ≤ extendSeed start used cur ∧ extendSeed start used cur ≤ start + used.length ∧
      ∀ k, start ≤ k → k < extendSeed start used cur → k ∈ used := by
  unfold extendSeed
  rw [if_pos h]
  obtain ⟨a, b, c⟩ := C08.firstUnused_spec used _ start (C08.exists_unused used start)
  refine ⟨b, ?_, c⟩
  obtain ⟨j, h1, h2, h3⟩ := C08.exists_unused used start
  by_contra hcon
  exact h3 (c j h1 (by unfold nextSeed at hcon; omega))

/-- **histories of extensions**: extend a file any number of times, each time with an arbitrary
requested seed and at least one new row; the seeds the extensions ran with are pairwise different
and none of them occurred in the original file. -/
theorem c08_extend_history_fresh (start : Nat) (file : List Nat) (exts : List (Nat × Nat))
    (hrows : ∀ e ∈ exts, 1 ≤ e.2) :
    (extendMany start file exts).Nodup ∧ ∀ s ∈ extendMany start file exts, s ∉ file := by
  induction exts generalizing file with
  | nil => simp [extendMany]
  | cons e rest ih =>
    obtain ⟨cur, rows⟩ := e
    have hr : 1 ≤ rows := hrows (cur, rows) (by simp)
    obtain ⟨ih1, ih2⟩ := ih (file ++ List.replicate rows (extendSeed start file cur))
      (fun e he => hrows e (List.mem_cons_of_mem _ he))
    simp only [extendMany]
    refine ⟨List.nodup_cons.mpr ⟨?_, ih1⟩, ?_⟩
    · intro hmem
      apply ih2 _ hmem
      rw [List.mem_append]
      right
      rw [List.mem_replicate]
      exact ⟨by omega, rfl⟩
    · intro s hs
      rcases List.mem_cons.mp hs with rfl | hs
      · exact c08_next_seed_fresh start file cur
      · intro hf
        exact ih2 s hs (List.mem_append_left _ hf)

/-- the same along a history driven by one and the same service object (each extension starts from
the seed the previous one left in the caller's `rss`) -/
theorem c08_extend_shared_fresh (start : Nat) (file : List Nat) (cur : Nat) (rows : List Nat)
    (hrows : ∀ r ∈ rows, 1 ≤ r) :
    (extendShared start file cur rows).Nodup ∧ ∀ s ∈ extendShared start file cur rows, s ∉ file := by
  induction rows generalizing file cur with
  | nil => simp [extendShared]
  | cons r rest ih =>
    have hr : 1 ≤ r := hrows r (by simp)
    obtain ⟨ih1, ih2⟩ := ih (file ++ List.replicate r (extendSeed start file cur)) (extendSeed start file cur)
      (fun e he => hrows e (List.mem_cons_of_mem _ he))
    simp only [extendShared]
    refine ⟨List.nodup_cons.mpr ⟨?_, ih1⟩, ?_⟩
    · intro hmem
      apply ih2 _ hmem
      rw [List.mem_append]
      right
      rw [List.mem_replicate]
      exact ⟨by omega, rfl⟩
    · intro s hs
      rcases List.mem_cons.mp hs with rfl | hs
      · exact c08_next_seed_fresh start file cur
      · intro hf
        exact ih2 s hs (List.mem_append_left _ hf)

example : extendShared 1 [0, 1] 0 [2, 1, 3] = [2, 3, 4] := by decide

/-- the search start read from the source keeps the new seed a valid `RandomState` seed for every
file with fewer than 2³² − start rows -/
theorem c08_seed_search_for_current_source (used : List Nat) (cur : Nat) (h : cur ∈ used)
    (hlen : Gen.C08.seedStart + used.length < 4294967296) :
    extendSeed Gen.C08.seedStart used cur ∉ used ∧ extendSeed Gen.C08.seedStart used cur < 4294967296 :=
  ⟨c08_next_seed_fresh _ used cur, lt_of_le_of_lt (c08_next_seed_least _ used cur h).2.1 hlen⟩

/-- the source read at check time contains the repaired search (membership test against the file),
the form the theorems above are about -/
theorem c08_seed_search_repaired_for_current_source : Gen.C08.seedSearchRepaired = true := by decide

/-! ### the pinned search (`enumerate(sorted(unique(seeds)) + [None], 1)`) -/

namespace C08

theorem firstMismatch_spec (i : Nat) (l : List Nat) (hs : l.Pairwise (· < ·)) (hge : ∀ e ∈ l, i ≤ e) :
    firstMismatch i l ∉ l ∧ i ≤ firstMismatch i l ∧ ∀ k, i ≤ k → k < firstMismatch i l → k ∈ l := by
  induction l generalizing i with
  | nil => simp [firstMismatch]
  | cons e rest ih =>
    rw [List.pairwise_cons] at hs
    unfold firstMismatch
    by_cases hie : i = e
    · subst hie
      simp only [ne_eq, not_true_eq_false, if_false]
      obtain ⟨a, b, c⟩ := ih (i + 1) hs.2 (fun x hx => hs.1 x hx)
      refine ⟨?_, by omega, ?_⟩
      · intro hm
        rcases List.mem_cons.mp hm with h | h
        · omega
        · exact a h
      · intro k hk1 hk2
        by_cases hki : k = i
        · subst hki; simp
        · exact List.mem_cons_of_mem _ (c k (by omega) hk2)
    · simp only [ne_eq, hie, not_false_eq_true, if_true]
      refine ⟨?_, le_refl _, fun k h1 h2 => by omega⟩
      intro hm
      rcases List.mem_cons.mp hm with h | h
      · exact hie h
      · have h1 := hs.1 i h
        have h2 := hge e (by simp)
        omega

end C08

/-- the full statement one would like for the pinned code -/
def c08_old_seed_search_fresh_statement : Prop :=
  ∀ (s : List Nat) (cur : Nat), s.Pairwise (· < ·) → extendSeedOld s cur ∉ s

/-- it is false: file seeds `{0, 1}` and current seed 1 continue with seed 1 again -/
theorem c08_old_seed_search_counterexample : ¬ c08_old_seed_search_fresh_statement := by
  intro h
  exact absurd (h [0, 1] 1 (by decide)) (by decide)

/-- exactly where the pinned search fails: it returns a seed of the file iff the file contains
both 0 and 1 (`s` = the sorted distinct seeds) -/
theorem c08_old_seed_search_fresh_iff (s : List Nat) (hs : s.Pairwise (· < ·)) :
    nextSeedOld s ∉ s ↔ ¬ (0 ∈ s ∧ 1 ∈ s) := by
  unfold nextSeedOld
  cases s with
  | nil => simp [firstMismatch]
  | cons e rest =>
    by_cases he : e = 0
    · subst he
      simp [firstMismatch]
    · have hge : ∀ x ∈ e :: rest, 1 ≤ x := by
        intro x hx
        rcases List.mem_cons.mp hx with h | h
        · omega
        · have := (List.pairwise_cons.mp hs).1 x h; omega
      have h0 : 0 ∉ e :: rest := fun h => by have := hge 0 h; omega
      constructor
      · intro _ h; exact h0 h.1
      · intro _; exact (C08.firstMismatch_spec 1 _ hs hge).1

/-- outside that region the repaired search returns the same seed as the pinned one (the repair
changes nothing where the old code was right) -/
theorem c08_seed_search_old_eq_new (s : List Nat) (hs : s.Pairwise (· < ·)) (h : ¬ (0 ∈ s ∧ 1 ∈ s)) :
    nextSeedOld s = nextSeed 1 s := by
  obtain ⟨a, b, c⟩ := C08.firstUnused_spec s _ 1 (C08.exists_unused s 1)
  have key : ∀ x, x ∉ s → 1 ≤ x → (∀ k, 1 ≤ k → k < x → k ∈ s) → x = nextSeed 1 s := by
    intro x hx1 hx2 hx3
    unfold nextSeed
    rcases Nat.lt_trichotomy x (firstUnused s (s.length + 1) 1) with hlt | heq | hgt
    · exact absurd (c x hx2 hlt) hx1
    · exact heq
    · exact absurd (hx3 _ b hgt) a
  unfold nextSeedOld
  cases s with
  | nil => exact key _ (by simp) (by simp [firstMismatch]) (by simp [firstMismatch]; omega)
  | cons e rest =>
    by_cases he : e = 0
    · subst he
      have h1 : 1 ∉ (0 :: rest) := fun hm => h ⟨by simp, hm⟩
      have hfm : firstMismatch 1 (0 :: rest) = 1 := by simp [firstMismatch]
      rw [hfm]
      exact key 1 h1 (le_refl _) (fun k hk1 hk2 => by omega)
    · have hge : ∀ x ∈ e :: rest, 1 ≤ x := by
        intro x hx
        rcases List.mem_cons.mp hx with h | h
        · omega
        · have := (List.pairwise_cons.mp hs).1 x h; omega
      obtain ⟨a', b', c'⟩ := C08.firstMismatch_spec 1 _ hs hge
      exact key _ a' b' c'

-- non-vacuity
example : extendSeed 1 [0, 1, 1, 0] 1 = 2 := by decide
example : extendSeed 1 [3, 1, 2] 2 = 4 := by decide
example : extendSeed 1 [3, 1, 2] 7 = 7 := by decide
example : extendMany 1 [0, 1] [(0, 2), (0, 1), (7, 1), (1, 3)] = [2, 3, 7, 4] := by decide
example : ([1, 2, 4] : List Nat).Pairwise (· < ·) ∧ ¬ (0 ∈ [1, 2, 4] ∧ 1 ∈ [1, 2, 4]) ∧ nextSeedOld [1, 2, 4] = 3 := by
  decide

/-! ## random streams: reproducible and kept apart

Services live in a store (`World`) and are passed by reference, so `minimizer_rss is rss` is
expressible (`doTrial w a (some a)`); objects created inside a call (`RandomStateService(seed=
rss.seed)`, the per-worker services) are new objects and cannot alias a caller's object. -/

section streams
variable {V D R R' : Type}

namespace C08

/-- the data side of a result row: the recorded seed and the generated pseudo data -/
def dataOf {D R : Type} (o : TrialOut D R) : Nat × D := (o.seed, o.data)

/-- two stores agree on what a call `(rss = a, minimizer_rss = ms)` can see -/
def Agree (a : Nat) (ms : Option Nat) (w₁ w₂ : World) : Prop :=
  w₁ a = w₂ a ∧ ∀ m, ms = some m → w₁ m = w₂ m

theorem set_other (w : World) (a b : Nat) (s : Stream) (h : b ≠ a) : (w.set a s) b = w b := by
  simp [World.set, h]

theorem set_same (w : World) (a : Nat) (s : Stream) : (w.set a s) a = s := by
  simp [World.set]

theorem map_succ_ne_zero (ms : Option Nat) : ms.map (· + 1) ≠ some 0 := by
  cases ms <;> simp

/-- a trial touches the data service and the minimiser service it is given, nothing else -/
theorem doTrial_frame (gen : Nat → Nat → V) (cfg : TrialCfg V D R) (w : World) (a : Nat)
    (ms : Option Nat) (b : Nat) (hb : b ≠ a) (hm : ms ≠ some b) : (doTrial gen cfg w a ms).2 b = w b := by
  cases ms with
  | none => simp only [doTrial]; exact set_other _ _ _ _ hb
  | some m =>
    have hbm : b ≠ m := fun e => hm (by rw [e])
    simp only [doTrial]
    rw [set_other _ _ _ _ hbm, set_other _ _ _ _ hb]

/-- data side of one trial: for a minimiser service that is *not* the data service, the recorded
seed, the pseudo data and the data service afterwards do not depend on the minimiser at all -/
theorem doTrial_data (gen : Nat → Nat → V) (cfg₁ : TrialCfg V D R) (cfg₂ : TrialCfg V D R')
    (h : cfg₁.dataGen = cfg₂.dataGen) (w₁ w₂ : World) (a : Nat) (ms₁ ms₂ : Option Nat)
    (h₁ : ms₁ ≠ some a) (h₂ : ms₂ ≠ some a) (hw : w₁ a = w₂ a) :
    dataOf (doTrial gen cfg₁ w₁ a ms₁).1 = dataOf (doTrial gen cfg₂ w₂ a ms₂).1 ∧
      (doTrial gen cfg₁ w₁ a ms₁).2 a = (doTrial gen cfg₂ w₂ a ms₂).2 a := by
  have e1 : ∀ (R'' : Type) (cfg : TrialCfg V D R'') (w : World) (ms : Option Nat), ms ≠ some a →
      dataOf (doTrial gen cfg w a ms).1 = ((w a).seed, (cfg.dataGen ((w a).view gen)).1) ∧
      (doTrial gen cfg w a ms).2 a = (w a).adv (cfg.dataGen ((w a).view gen)).2 := by
    intro R'' cfg w ms hms
    cases ms with
    | none => simp [doTrial, dataOf, set_same]
    | some m =>
      have : a ≠ m := fun e => hms (by rw [e])
      simp only [doTrial, dataOf, true_and]
      rw [set_other _ _ _ _ this, set_same]
  obtain ⟨a1, b1⟩ := e1 R cfg₁ w₁ ms₁ h₁
  obtain ⟨a2, b2⟩ := e1 R' cfg₂ w₂ ms₂ h₂
  rw [a1, a2, b1, b2, hw, h]
  exact ⟨rfl, rfl⟩

/-- a trial depends on the store only through the two services it is given (aliased or not) -/
theorem doTrial_congr (gen : Nat → Nat → V) (cfg : TrialCfg V D R) (w₁ w₂ : World) (a : Nat)
    (ms : Option Nat) (hw : Agree a ms w₁ w₂) :
    (doTrial gen cfg w₁ a ms).1 = (doTrial gen cfg w₂ a ms).1 ∧
      Agree a ms (doTrial gen cfg w₁ a ms).2 (doTrial gen cfg w₂ a ms).2 := by
  obtain ⟨ha, hm⟩ := hw
  cases ms with
  | none =>
    simp only [doTrial, ha, true_and]
    exact ⟨by simp [World.set], fun m h => by simp at h⟩
  | some m =>
    have hmm := hm m rfl
    have h1 : (w₁.set a ((w₂ a).adv (cfg.dataGen ((w₂ a).view gen)).2)) m =
        (w₂.set a ((w₂ a).adv (cfg.dataGen ((w₂ a).view gen)).2)) m := by
      simp only [World.set]; split_ifs <;> simp [hmm]
    simp only [doTrial, ha, h1, true_and]
    refine ⟨?_, ?_⟩
    · simp only [World.set]; split_ifs <;> rfl
    · intro m' hm'
      simp only [Option.some.injEq] at hm'
      subst hm'
      simp [World.set]

theorem trialsSeq_frame (gen : Nat → Nat → V) (cfg : TrialCfg V D R) (n : Nat) (w : World) (a : Nat)
    (ms : Option Nat) (b : Nat) (hb : b ≠ a) (hm : ms ≠ some b) : (trialsSeq gen cfg n w a ms).2 b = w b := by
  induction n generalizing w with
  | zero => rfl
  | succ n ih => simp only [trialsSeq]; rw [ih, doTrial_frame gen cfg w a ms b hb hm]

theorem trialsSeq_data (gen : Nat → Nat → V) (cfg₁ : TrialCfg V D R) (cfg₂ : TrialCfg V D R')
    (h : cfg₁.dataGen = cfg₂.dataGen) (n : Nat) (w₁ w₂ : World) (a : Nat) (ms₁ ms₂ : Option Nat)
    (h₁ : ms₁ ≠ some a) (h₂ : ms₂ ≠ some a) (hw : w₁ a = w₂ a) :
    (trialsSeq gen cfg₁ n w₁ a ms₁).1.map dataOf = (trialsSeq gen cfg₂ n w₂ a ms₂).1.map dataOf ∧
      (trialsSeq gen cfg₁ n w₁ a ms₁).2 a = (trialsSeq gen cfg₂ n w₂ a ms₂).2 a := by
  induction n generalizing w₁ w₂ with
  | zero => exact ⟨rfl, hw⟩
  | succ n ih =>
    obtain ⟨d1, d2⟩ := doTrial_data gen cfg₁ cfg₂ h w₁ w₂ a ms₁ ms₂ h₁ h₂ hw
    obtain ⟨i1, i2⟩ := ih _ _ d2
    simp only [trialsSeq, List.map_cons]
    exact ⟨by rw [d1, i1], i2⟩

theorem trialsSeq_congr (gen : Nat → Nat → V) (cfg : TrialCfg V D R) (n : Nat) (w₁ w₂ : World) (a : Nat)
    (ms : Option Nat) (hw : Agree a ms w₁ w₂) :
    (trialsSeq gen cfg n w₁ a ms).1 = (trialsSeq gen cfg n w₂ a ms).1 ∧
      Agree a ms (trialsSeq gen cfg n w₁ a ms).2 (trialsSeq gen cfg n w₂ a ms).2 := by
  induction n generalizing w₁ w₂ with
  | zero => exact ⟨rfl, hw⟩
  | succ n ih =>
    obtain ⟨d1, d2⟩ := doTrial_congr gen cfg w₁ w₂ a ms hw
    obtain ⟨i1, i2⟩ := ih _ _ d2
    simp only [trialsSeq]
    exact ⟨by rw [d1, i1], i2⟩

theorem trialsSeq_fit (gen : Nat → Nat → V) (cfg : TrialCfg V D R) (n : Nat) (w : World) (a : Nat) :
    ∀ o ∈ (trialsSeq gen cfg n w a none).1, o.fit = (cfg.minim o.data (fun i => gen o.seed i)).1 := by
  induction n generalizing w with
  | zero => simp [trialsSeq]
  | succ n ih =>
    intro o ho
    simp only [trialsSeq, List.mem_cons] at ho
    rcases ho with rfl | ho
    · have hv : Stream.view gen (Stream.fresh (w a).seed) = fun i => gen (w a).seed i := by
        funext i; simp [Stream.view, Stream.fresh]
      simp only [doTrial]
      rw [hv]
    · exact ih _ o ho

theorem doTrial_seed (gen : Nat → Nat → V) (cfg : TrialCfg V D R) (w : World) (a : Nat) (ms : Option Nat) :
    (doTrial gen cfg w a ms).1.seed = (w a).seed ∧ ((doTrial gen cfg w a ms).2 a).seed = (w a).seed := by
  cases ms with
  | none => simp [doTrial, set_same, Stream.adv]
  | some m =>
    simp only [doTrial, true_and]
    by_cases h : a = m
    · subst h; simp [set_same, Stream.adv]
    · rw [set_other _ _ _ _ h, set_same]; simp [Stream.adv]

theorem trialsSeq_seed (gen : Nat → Nat → V) (cfg : TrialCfg V D R) (n : Nat) (w : World) (a : Nat)
    (ms : Option Nat) :
    (∀ o ∈ (trialsSeq gen cfg n w a ms).1, o.seed = (w a).seed) ∧
      ((trialsSeq gen cfg n w a ms).2 a).seed = (w a).seed := by
  induction n generalizing w with
  | zero => simp [trialsSeq]
  | succ n ih =>
    obtain ⟨s1, s2⟩ := doTrial_seed gen cfg w a ms
    obtain ⟨i1, i2⟩ := ih (doTrial gen cfg w a ms).2
    simp only [trialsSeq]
    refine ⟨?_, by rw [i2, s2]⟩
    intro o ho
    rcases List.mem_cons.mp ho with rfl | ho
    · exact s1
    · rw [i1 o ho, s2]

theorem trialsSeq_length (gen : Nat → Nat → V) (cfg : TrialCfg V D R) (n : Nat) (w : World) (a : Nat)
    (ms : Option Nat) : (trialsSeq gen cfg n w a ms).1.length = n := by
  induction n generalizing w with
  | zero => simp [trialsSeq]
  | succ n ih => simp [trialsSeq, ih]

end C08

/-- **non-interference**: the data-generation side of `do_trials` — the recorded seeds, the pseudo
data of every trial (master and workers), the per-worker seeds and the state the data service is
left in — is the same for any two analyses with the same data generation, however their
minimisers differ (number of restarts, numbers drawn per restart, result type) and whichever
minimiser services they are given, **provided the minimiser service is not the data service
itself**.  `do_trial` establishes exactly that when none is passed: it constructs a new object. -/
theorem c08_noninterference (gen : Nat → Nat → V) (toSeed : V → Nat)
    (cfg₁ : TrialCfg V D R) (cfg₂ : TrialCfg V D R') (h : cfg₁.dataGen = cfg₂.dataGen)
    (n ncpu : Nat) (w₁ w₂ : World) (a : Nat) (ms₁ ms₂ : Option Nat)
    (h₁ : ms₁ ≠ some a) (h₂ : ms₂ ≠ some a) (hw : w₁ a = w₂ a) :
    (parTrials gen toSeed cfg₁ n ncpu w₁ a ms₁).outs.map C08.dataOf =
        (parTrials gen toSeed cfg₂ n ncpu w₂ a ms₂).outs.map C08.dataOf ∧
      (parTrials gen toSeed cfg₁ n ncpu w₁ a ms₁).world a = (parTrials gen toSeed cfg₂ n ncpu w₂ a ms₂).world a ∧
      (parTrials gen toSeed cfg₁ n ncpu w₁ a ms₁).workerSeeds =
        (parTrials gen toSeed cfg₂ n ncpu w₂ a ms₂).workerSeeds := by
  unfold parTrials
  by_cases hn : ncpu ≤ 1
  · simp only [hn, if_true]
    obtain ⟨x, y⟩ := C08.trialsSeq_data gen cfg₁ cfg₂ h n w₁ w₂ a ms₁ ms₂ h₁ h₂ hw
    exact ⟨x, y, trivial⟩
  · simp only [hn, if_false, List.map_append, List.map_flatten, List.map_map, hw]
    obtain ⟨x, y⟩ := C08.trialsSeq_data gen cfg₁ cfg₂ h ((chunkSizes n ncpu).headD 0)
      (w₁.set a ((w₂ a).adv (ncpu - 1))) (w₂.set a ((w₂ a).adv (ncpu - 1))) a ms₁ ms₂ h₁ h₂
      (by rw [C08.set_same, C08.set_same])
    refine ⟨?_, y, trivial⟩
    rw [x]
    congr 2
    apply List.map_congr_left
    intro sk _
    exact (C08.trialsSeq_data gen cfg₁ cfg₂ h sk.2
      ((w₁.set a ((w₂ a).adv (ncpu - 1))).push (Stream.fresh sk.1))
      ((w₂.set a ((w₂ a).adv (ncpu - 1))).push (Stream.fresh sk.1)) 0 _ _ (C08.map_succ_ne_zero ms₁)
      (C08.map_succ_ne_zero ms₂) rfl).1

/-- the hypothesis is necessary: with `minimizer_rss is rss` (reference `a` passed twice) two
minimisers that differ only in how many numbers a restart draws leave the data service in
different states — the next trial's pseudo data is shifted. -/
theorem c08_aliased_service_interferes :
    ∃ (cfg₁ cfg₂ : TrialCfg (Nat × Nat) (Nat × Nat) Unit) (w : World), cfg₁.dataGen = cfg₂.dataGen ∧
      (parTrials (fun s p => (s, p)) (fun v => v.2) cfg₁ 2 1 w 0 (some 0)).outs.map C08.dataOf ≠
        (parTrials (fun s p => (s, p)) (fun v => v.2) cfg₂ 2 1 w 0 (some 0)).outs.map C08.dataOf ∧
      (parTrials (fun s p => (s, p)) (fun v => v.2) cfg₁ 2 1 w 0 (some 0)).world 0 ≠
        (parTrials (fun s p => (s, p)) (fun v => v.2) cfg₂ 2 1 w 0 (some 0)).world 0 :=
  ⟨⟨fun v => (v 0, 1), fun _ _ => ((), 0)⟩, ⟨fun v => (v 0, 1), fun _ _ => ((), 2)⟩, fun _ => ⟨5, 0⟩, rfl,
    by decide, by decide⟩

/-- what an aliased call does in the model is what the code does: data 2 words, then the
restarts read from word 2 on and leave the shared service at word 6 -/
theorem c08_aliased_service_trace :
    (doTrial (fun s p => (s, p)) (⟨fun v => (v 0, 2), fun _ v => (v 0, 4)⟩ : TrialCfg (Nat × Nat) (Nat × Nat) (Nat × Nat))
      (fun _ => ⟨5, 0⟩) 0 (some 0)).1.fit = (5, 2) ∧
    (doTrial (fun s p => (s, p)) (⟨fun v => (v 0, 2), fun _ v => (v 0, 4)⟩ : TrialCfg (Nat × Nat) (Nat × Nat) (Nat × Nat))
      (fun _ => ⟨5, 0⟩) 0 (some 0)).2 0 = ⟨5, 6⟩ := by decide

/-- **the minimiser stream is fresh in every trial** (default `minimizer_rss=None`): the fit of a
trial is the minimiser run on that trial's data with the stream of the recorded seed read from its
beginning — so it depends on (seed, pseudo data) alone, not on how many trials ran before, on
which process, or on what earlier minimisations consumed. -/
theorem c08_minimizer_stream_fresh (gen : Nat → Nat → V) (toSeed : V → Nat) (cfg : TrialCfg V D R)
    (n ncpu : Nat) (w : World) (a : Nat) :
    ∀ o ∈ (parTrials gen toSeed cfg n ncpu w a none).outs,
      o.fit = (cfg.minim o.data (fun i => gen o.seed i)).1 := by
  unfold parTrials
  by_cases hn : ncpu ≤ 1
  · simp only [hn, if_true]
    exact C08.trialsSeq_fit gen cfg n w a
  · simp only [hn, if_false]
    intro o ho
    rcases List.mem_append.mp ho with ho | ho
    · exact C08.trialsSeq_fit gen cfg _ _ _ o ho
    · simp only [List.mem_flatten, List.mem_map] at ho
      obtain ⟨l, ⟨sk, _, rfl⟩, hol⟩ := ho
      exact C08.trialsSeq_fit gen cfg _ _ _ o hol

/-- **worker seeds** are the next `ncpu − 1` words of the parent stream: a function of the parent
service (seed, position) and `ncpu` — not of the tasks, the configuration or the minimiser
service — and the parent service keeps its seed. -/
theorem c08_worker_seeds_fn (gen : Nat → Nat → V) (toSeed : V → Nat) (cfg : TrialCfg V D R)
    (n ncpu : Nat) (w : World) (a : Nat) (ms : Option Nat) :
    (parTrials gen toSeed cfg n ncpu w a ms).workerSeeds = workerSeeds gen toSeed (w a) ncpu ∧
      (parTrials gen toSeed cfg n ncpu w a ms).workerSeeds.length = ncpu - 1 ∧
      ((parTrials gen toSeed cfg n ncpu w a ms).world a).seed = (w a).seed := by
  unfold parTrials
  by_cases hn : ncpu ≤ 1
  · have h0 : ncpu - 1 = 0 := by omega
    simp only [hn, if_true, workerSeeds, h0, List.range_zero, List.map_nil, List.length_nil, true_and]
    exact (C08.trialsSeq_seed gen cfg n w a ms).2
  · simp only [hn, if_false, workerSeeds, List.length_map, List.length_range, true_and]
    rw [(C08.trialsSeq_seed gen cfg _ _ a ms).2, C08.set_same]
    simp [Stream.adv]

namespace C08

theorem chunk_sum_aux (q r : Nat) (k : Nat) :
    ((List.range k).map (fun i => q + (if i < r then 1 else 0))).sum = k * q + min r k := by
  induction k with
  | zero => simp
  | succ k ih =>
    rw [List.range_succ, List.map_append, List.sum_append_nat, ih]
    simp only [List.map_cons, List.map_nil, List.sum_cons, List.sum_nil]
    split_ifs with h
    · rw [Nat.min_eq_right (by omega), Nat.min_eq_right (by omega)]; ring
    · rw [Nat.min_eq_left (by omega), Nat.min_eq_left (by omega)]; ring

/-- `np.array_split` hands out every task exactly once -/
theorem chunkSizes_sum (n ncpu : Nat) (h : 0 < ncpu) : (chunkSizes n ncpu).sum = n := by
  unfold chunkSizes
  rw [chunk_sum_aux, Nat.min_eq_left (le_of_lt (Nat.mod_lt n h))]
  exact Nat.div_add_mod n ncpu

theorem chunkSizes_length (n ncpu : Nat) : (chunkSizes n ncpu).length = ncpu := by
  simp [chunkSizes]

end C08

/-- **all `n` requested trials come back**, whatever `ncpu` is (the chunks of `np.array_split`
cover every task once; one result row per task) -/
theorem c08_trials_count (gen : Nat → Nat → V) (toSeed : V → Nat) (cfg : TrialCfg V D R)
    (n ncpu : Nat) (w : World) (a : Nat) (ms : Option Nat) :
    (parTrials gen toSeed cfg n ncpu w a ms).outs.length = n := by
  unfold parTrials
  by_cases hn : ncpu ≤ 1
  · simp [hn, C08.trialsSeq_length]
  · simp only [hn, if_false, List.length_append, List.length_flatten, List.map_map, C08.trialsSeq_length]
    have hl : (chunkSizes n ncpu).tail.length ≤ (workerSeeds gen toSeed (w a) ncpu).length := by
      simp [workerSeeds, C08.chunkSizes_length]
    have h1 : ((workerSeeds gen toSeed (w a) ncpu).zip (chunkSizes n ncpu).tail).map
        (List.length ∘ fun sk => (trialsSeq gen cfg sk.2
          ((w.set a ((w a).adv (ncpu - 1))).push (Stream.fresh sk.1)) 0 (ms.map (· + 1))).1) =
        (chunkSizes n ncpu).tail := by
      have h2 : ((workerSeeds gen toSeed (w a) ncpu).zip (chunkSizes n ncpu).tail).map
          (List.length ∘ fun sk => (trialsSeq gen cfg sk.2
            ((w.set a ((w a).adv (ncpu - 1))).push (Stream.fresh sk.1)) 0 (ms.map (· + 1))).1) =
          ((workerSeeds gen toSeed (w a) ncpu).zip (chunkSizes n ncpu).tail).map Prod.snd := by
        apply List.map_congr_left
        intro sk _
        simp [C08.trialsSeq_length]
      rw [h2, List.map_snd_zip hl]
    rw [h1]
    have hs := C08.chunkSizes_sum n ncpu (by omega)
    cases hc : chunkSizes n ncpu with
    | nil => rw [hc] at hs; simp at hs ⊢; exact hs
    | cons a l => rw [hc] at hs; simpa using hs

/-- `do_trials` raises exactly for `ncpu < 1` (`get_ncpu`) and for `n = 0` (`result_list[0]`);
under the guard it returns the `n` rows of `parTrials`. -/
theorem c08_do_trials_no_error (gen : Nat → Nat → V) (toSeed : V → Nat) (cfg : TrialCfg V D R)
    (n ncpu : Nat) (w : World) (a : Nat) (ms : Option Nat) :
    (0 < n ∧ 0 < ncpu ↔ ∃ r, doTrials gen toSeed cfg n ncpu w a ms = .ok r) ∧
      ∀ r, doTrials gen toSeed cfg n ncpu w a ms = .ok r → r.outs.length = n := by
  unfold doTrials
  constructor
  · constructor
    · rintro ⟨h1, h2⟩
      rw [if_neg (by omega), if_neg (by omega)]
      exact ⟨_, rfl⟩
    · rintro ⟨r, hr⟩
      split_ifs at hr with h1 h2
      exact ⟨by omega, by omega⟩
  · intro r hr
    split_ifs at hr with h1 h2
    simp only [Except.ok.injEq] at hr
    rw [← hr]
    exact c08_trials_count gen toSeed cfg n ncpu w a ms

/-- every result row carries the seed of the service it was generated with: the parent seed
(master process) or one of the worker seeds -/
theorem c08_row_seeds (gen : Nat → Nat → V) (toSeed : V → Nat) (cfg : TrialCfg V D R)
    (n ncpu : Nat) (w : World) (a : Nat) (ms : Option Nat) :
    ∀ o ∈ (parTrials gen toSeed cfg n ncpu w a ms).outs,
      o.seed = (w a).seed ∨ o.seed ∈ workerSeeds gen toSeed (w a) ncpu := by
  unfold parTrials
  by_cases hn : ncpu ≤ 1
  · simp only [hn, if_true]
    intro o ho
    exact Or.inl ((C08.trialsSeq_seed gen cfg n w a ms).1 o ho)
  · simp only [hn, if_false]
    intro o ho
    rcases List.mem_append.mp ho with ho | ho
    · left
      rw [(C08.trialsSeq_seed gen cfg _ _ a ms).1 o ho, C08.set_same]
      simp [Stream.adv]
    · right
      simp only [List.mem_flatten, List.mem_map] at ho
      obtain ⟨l, ⟨sk, hsk, rfl⟩, hol⟩ := ho
      rw [(C08.trialsSeq_seed gen cfg _ _ 0 _).1 o hol]
      simp only [World.push, Stream.fresh]
      exact (List.of_mem_zip hsk).1

/-! ### histories on named services -/

namespace C08

theorem parTrials_frame (gen : Nat → Nat → V) (toSeed : V → Nat) (cfg : TrialCfg V D R) (n ncpu : Nat)
    (w : World) (a : Nat) (ms : Option Nat) (b : Nat) (hb : b ≠ a) (hm : ms ≠ some b) :
    (parTrials gen toSeed cfg n ncpu w a ms).world b = w b := by
  unfold parTrials
  by_cases hn : ncpu ≤ 1
  · simp only [hn, if_true]
    exact trialsSeq_frame gen cfg n w a ms b hb hm
  · simp only [hn, if_false]
    rw [trialsSeq_frame gen cfg _ _ a ms b hb hm, set_other _ _ _ _ hb]

theorem push_agree (a : Nat) (ms : Option Nat) (w₁ w₂ : World) (s : Stream) (h : Agree a ms w₁ w₂) :
    Agree 0 (ms.map (· + 1)) (w₁.push s) (w₂.push s) := by
  refine ⟨rfl, ?_⟩
  intro m hm
  cases ms with
  | none => simp at hm
  | some m' =>
    simp only [Option.map_some, Option.some.injEq] at hm
    subst hm
    exact h.2 m' rfl

theorem set_agree (a : Nat) (ms : Option Nat) (w₁ w₂ : World) (s : Stream) (h : Agree a ms w₁ w₂) :
    Agree a ms (w₁.set a s) (w₂.set a s) := by
  refine ⟨by rw [set_same, set_same], ?_⟩
  intro m hm
  simp only [World.set]
  split_ifs
  · rfl
  · exact h.2 m hm

/-- the rows of `do_trials` depend on the store only through the services passed to it -/
theorem parTrials_congr (gen : Nat → Nat → V) (toSeed : V → Nat) (cfg : TrialCfg V D R) (n ncpu : Nat)
    (w₁ w₂ : World) (a : Nat) (ms : Option Nat) (hw : Agree a ms w₁ w₂) :
    (parTrials gen toSeed cfg n ncpu w₁ a ms).outs = (parTrials gen toSeed cfg n ncpu w₂ a ms).outs := by
  unfold parTrials
  by_cases hn : ncpu ≤ 1
  · simp only [hn, if_true]
    exact (trialsSeq_congr gen cfg n w₁ w₂ a ms hw).1
  · simp only [hn, if_false, hw.1]
    have hs := set_agree a ms w₁ w₂ ((w₂ a).adv (ncpu - 1)) hw
    rw [(trialsSeq_congr gen cfg _ _ _ a ms hs).1]
    congr 2
    apply List.map_congr_left
    intro sk _
    exact (trialsSeq_congr gen cfg sk.2 _ _ 0 _ (push_agree a ms _ _ _ hs)).1

theorem step_frame (gen : Nat → Nat → V) (toSeed : V → Nat) (cfg : TrialCfg V D R) (w : World)
    (a : Nat) (op : Op) (h : op.touches a = false) : (step gen toSeed cfg w op).1 a = w a := by
  cases op with
  | draw s k =>
    simp only [Op.touches, beq_eq_false_iff_ne, ne_eq] at h
    exact set_other _ _ _ _ (fun e => h e.symm)
  | reseed s seed =>
    simp only [Op.touches, beq_eq_false_iff_ne, ne_eq] at h
    exact set_other _ _ _ _ (fun e => h e.symm)
  | trials s ms n ncpu =>
    simp only [Op.touches, Bool.or_eq_false_iff, beq_eq_false_iff_ne, ne_eq] at h
    exact parTrials_frame gen toSeed cfg n ncpu w s ms a (fun e => h.1 e.symm) h.2

theorem run_append (gen : Nat → Nat → V) (toSeed : V → Nat) (cfg : TrialCfg V D R) (w : World)
    (h₁ h₂ : List Op) :
    run gen toSeed cfg w (h₁ ++ h₂) =
      ((run gen toSeed cfg (run gen toSeed cfg w h₁).1 h₂).1,
        (run gen toSeed cfg w h₁).2 ++ (run gen toSeed cfg (run gen toSeed cfg w h₁).1 h₂).2) := by
  induction h₁ generalizing w with
  | nil => simp [run]
  | cons op rest ih => simp [run, ih, List.append_assoc]

end C08

/-- **frame**: a history of operations (draws, reseeds, trial runs with any `ncpu`, aliased or
not) that does not use service `a` leaves `a` exactly where it was. -/
theorem c08_frame (gen : Nat → Nat → V) (toSeed : V → Nat) (cfg : TrialCfg V D R) (w : World)
    (a : Nat) (h : List Op) (hh : ∀ op ∈ h, op.touches a = false) :
    (run gen toSeed cfg w h).1 a = w a := by
  induction h generalizing w with
  | nil => rfl
  | cons op rest ih =>
    simp only [run]
    rw [ih _ (fun o ho => hh o (List.mem_cons_of_mem _ ho))]
    exact C08.step_frame gen toSeed cfg w a op (hh op (by simp))

/-- **results do not depend on unrelated earlier use**: trials on service `a` (with the minimiser
service `m`, if one is passed — even `m = a`) give the same rows after an arbitrary history on
*other* services as without that history. -/
theorem c08_history_independence (gen : Nat → Nat → V) (toSeed : V → Nat) (cfg : TrialCfg V D R)
    (w : World) (a : Nat) (ms : Option Nat) (n ncpu : Nat) (h : List Op)
    (hh : ∀ op ∈ h, op.touches a = false) (hm : ∀ m, ms = some m → ∀ op ∈ h, op.touches m = false) :
    (step gen toSeed cfg (run gen toSeed cfg w h).1 (.trials a ms n ncpu)).2 =
      (step gen toSeed cfg w (.trials a ms n ncpu)).2 := by
  simp only [step]
  apply C08.parTrials_congr
  exact ⟨c08_frame gen toSeed cfg w a h hh, fun m hms => c08_frame gen toSeed cfg w m h (hm m hms)⟩

/-- **same seed, same result**: take two executions with *arbitrary* different pasts `h₁`, `h₂`
(on any services, including `a` itself, aliased calls, from any initial stores); once service `a`
is (re)seeded with `s` in both, `do_trials` on it returns identical rows — those obtained from any
store in which `a` is a new service of seed `s`. -/
theorem c08_same_seed_same_result (gen : Nat → Nat → V) (toSeed : V → Nat) (cfg : TrialCfg V D R)
    (w₁ w₂ : World) (h₁ h₂ : List Op) (a s n ncpu : Nat) :
    (step gen toSeed cfg (run gen toSeed cfg w₁ (h₁ ++ [.reseed a s])).1 (.trials a none n ncpu)).2 =
        (parTrials gen toSeed cfg n ncpu (fun _ => Stream.fresh s) a none).outs ∧
      (step gen toSeed cfg (run gen toSeed cfg w₁ (h₁ ++ [.reseed a s])).1 (.trials a none n ncpu)).2 =
        (step gen toSeed cfg (run gen toSeed cfg w₂ (h₂ ++ [.reseed a s])).1 (.trials a none n ncpu)).2 := by
  have key : ∀ (w : World) (h : List Op),
      (step gen toSeed cfg (run gen toSeed cfg w (h ++ [.reseed a s])).1 (.trials a none n ncpu)).2 =
        (parTrials gen toSeed cfg n ncpu (fun _ => Stream.fresh s) a none).outs := by
    intro w h
    rw [C08.run_append]
    simp only [run, step]
    apply C08.parTrials_congr
    exact ⟨C08.set_same _ _ _, fun m hm => by simp at hm⟩
  exact ⟨key w₁ h₁, by rw [key w₁ h₁, key w₂ h₂]⟩

/-- the same with an explicit minimiser service `m ≠ a`: once both services are (re)seeded alike in
the two executions, the trial **results** (fits included) are identical. -/
theorem c08_same_seeds_same_result_explicit (gen : Nat → Nat → V) (toSeed : V → Nat) (cfg : TrialCfg V D R)
    (w₁ w₂ : World) (h₁ h₂ : List Op) (a m s s' n ncpu : Nat) (hne : a ≠ m) :
    (step gen toSeed cfg (run gen toSeed cfg w₁ (h₁ ++ [.reseed a s, .reseed m s'])).1 (.trials a (some m) n ncpu)).2 =
      (step gen toSeed cfg (run gen toSeed cfg w₂ (h₂ ++ [.reseed a s, .reseed m s'])).1 (.trials a (some m) n ncpu)).2 := by
  simp only [step]
  apply C08.parTrials_congr
  rw [C08.run_append, C08.run_append]
  simp only [run, step]
  refine ⟨?_, ?_⟩
  · rw [C08.set_other _ _ _ _ hne, C08.set_other _ _ _ _ hne, C08.set_same, C08.set_same]
  · intro m' hm'
    simp only [Option.some.injEq] at hm'
    subst hm'
    rw [C08.set_same, C08.set_same]

/-- the per-worker seeds requested from the parent stream (`randint(low, high)` as read from the
source) are valid `RandomState` seeds (the driver's one-word model of `randint(0, 2**32)` is used by
the correspondence only when the bounds are exactly those); the minimiser service is seeded from `rss.seed`; `do_trial` forwards the
service it bound, not the data service -/
theorem c08_streams_for_current_source :
    Gen.C08.workerSeedLow ≤ Gen.C08.workerSeedHigh ∧ Gen.C08.workerSeedHigh ≤ 4294967296 ∧
      Gen.C08.minimizerSeedFromRss = true ∧ Gen.C08.minimizerRssForwarded = true := by decide

end streams

/-! ## the time-generation service: fresh object = used object -/

section times
variable {V I W T C : Type}

namespace C08

theorem trun_append (gen : Nat → Nat → V) (tc : TimeCfg V I W T C) (st : TState I C) (h₁ h₂ : List (TOp I W)) :
    (trun gen tc st (h₁ ++ h₂)).1 = (trun gen tc (trun gen tc st h₁).1 h₂).1 := by
  induction h₁ generalizing st with
  | nil => rfl
  | cons op rest ih => simp [trun, ih]

end C08

/-- a history without an interval assignment leaves the interval array alone (the cache cell may
have been written) -/
theorem c08_time_intervals_unchanged (gen : Nat → Nat → V) (tc : TimeCfg V I W T C) (st : TState I C)
    (h : List (TOp I W)) (hh : ∀ op ∈ h, op.setsIvs = false) : (trun gen tc st h).1.ivs = st.ivs := by
  induction h generalizing st with
  | nil => rfl
  | cons op rest ih =>
    simp only [trun]
    rw [ih _ (fun o ho => hh o (List.mem_cons_of_mem _ ho))]
    have := hh op (by simp)
    cases op <;> simp_all [tstep, TOp.setsIvs]

/-- a history that does not use service `a` leaves `a` where it was -/
theorem c08_time_frame (gen : Nat → Nat → V) (tc : TimeCfg V I W T C) (st : TState I C) (a : Nat)
    (h : List (TOp I W)) (hh : ∀ op ∈ h, op.touches a = false) : (trun gen tc st h).1.world a = st.world a := by
  induction h generalizing st with
  | nil => rfl
  | cons op rest ih =>
    simp only [trun]
    rw [ih _ (fun o ho => hh o (List.mem_cons_of_mem _ ho))]
    have ht := hh op (by simp)
    cases op with
    | draw s win size =>
      simp only [TOp.touches, beq_eq_false_iff_ne, ne_eq] at ht
      exact C08.set_other _ _ _ _ (fun e => ht e.symm)
    | setIvs J => rfl
    | other s k =>
      simp only [TOp.touches, beq_eq_false_iff_ne, ne_eq] at ht
      exact C08.set_other _ _ _ _ (fun e => ht e.symm)
    | reseed s seed =>
      simp only [TOp.touches, beq_eq_false_iff_ne, ne_eq] at ht
      exact C08.set_other _ _ _ _ (fun e => ht e.symm)

/-- **used object = fresh object, for a transparent cache**: if whatever a draw leaves on the
object never shows in the returned times (`Transparent`, the premise the `time_history`
correspondence tests on the real `Livetime`/`TimeGenerator`), then a draw (window or not) with
service `a` after an arbitrary history of earlier draws with other services on the same object —
windowed, plain, different windows, interleaved with unrelated consumption — returns what an
untouched object (empty cache) returns. -/
theorem c08_time_fresh_vs_used (gen : Nat → Nat → V) (tc : TimeCfg V I W T C) (ht : tc.Transparent)
    (st : TState I C) (a : Nat) (win : Option W) (size : Nat) (h : List (TOp I W))
    (h1 : ∀ op ∈ h, op.setsIvs = false) (h2 : ∀ op ∈ h, op.touches a = false) :
    (tstep gen tc (trun gen tc st h).1 (.draw a win size)).2 =
      (tstep gen tc ⟨st.ivs, none, st.world⟩ (.draw a win size)).2 := by
  simp only [tstep]
  rw [c08_time_intervals_unchanged gen tc st h h1, c08_time_frame gen tc st a h h2, ht]

/-- without transparency the statement is false: a cache that keeps the cumulative array of the last
draw (model `leakyDraw`, the shape of the seeded change the first version of this check missed)
makes [windowed draw, plain draw] differ from a plain draw on an untouched object. -/
theorem c08_time_cache_counterexample :
    ¬ leakyDraw.Transparent ∧
    (tstep (fun s p => s + p) leakyDraw (trun (fun s p => s + p) leakyDraw ⟨10, none, fun _ => ⟨1, 0⟩⟩ [.draw 1 (some 3) 2]).1
        (.draw 0 none 2)).2 ≠
      (tstep (fun s p => s + p) leakyDraw ⟨10, none, fun _ => ⟨1, 0⟩⟩ (.draw 0 none 2)).2 := by
  constructor
  · intro h
    have := h 0 (some 1) none 0 (fun _ => 0)
    simp [leakyDraw] at this
  · decide

/-- **same seed, same times** (transparent cache): two executions with arbitrary pasts on their
objects (including draws with `a` itself, from any stores), same intervals: once `a` is reseeded
with `s`, the same draw returns the same times — those of a new object with a new service. -/
theorem c08_time_same_seed_same_times (gen : Nat → Nat → V) (tc : TimeCfg V I W T C) (ht : tc.Transparent)
    (st₁ st₂ : TState I C) (hi : st₁.ivs = st₂.ivs) (h₁ h₂ : List (TOp I W)) (a s : Nat) (win : Option W)
    (size : Nat) (hh₁ : ∀ op ∈ h₁, op.setsIvs = false) (hh₂ : ∀ op ∈ h₂, op.setsIvs = false) :
    (tstep gen tc (trun gen tc st₁ (h₁ ++ [.reseed a s])).1 (.draw a win size)).2 =
        some (tc.draw st₁.ivs none win size ((Stream.fresh s).view gen)).1 ∧
      (tstep gen tc (trun gen tc st₁ (h₁ ++ [.reseed a s])).1 (.draw a win size)).2 =
        (tstep gen tc (trun gen tc st₂ (h₂ ++ [.reseed a s])).1 (.draw a win size)).2 := by
  have key : ∀ (st : TState I C) (h : List (TOp I W)), (∀ op ∈ h, op.setsIvs = false) →
      (tstep gen tc (trun gen tc st (h ++ [.reseed a s])).1 (.draw a win size)).2 =
        some (tc.draw st.ivs none win size ((Stream.fresh s).view gen)).1 := by
    intro st h hh
    rw [C08.trun_append]
    simp only [trun, tstep, C08.set_same]
    rw [c08_time_intervals_unchanged gen tc st h hh, ht]
  exact ⟨key st₁ h₁ hh₁, by rw [key st₁ h₁ hh₁, key st₂ h₂ hh₂, hi]⟩

/-- assigning new intervals is the one operation that matters: afterwards every draw uses the
intervals assigned last, whatever was drawn in between -/
theorem c08_time_intervals_last_set (gen : Nat → Nat → V) (tc : TimeCfg V I W T C) (st : TState I C)
    (J : I) (h h' : List (TOp I W)) (hh : ∀ op ∈ h', op.setsIvs = false) :
    (trun gen tc st (h ++ [.setIvs J] ++ h')).1.ivs = J := by
  rw [C08.trun_append, c08_time_intervals_unchanged gen tc _ h' hh, C08.trun_append]
  simp [trun, tstep]

end times

-- non-vacuity: a transparent draw function that does write its cache
example : (⟨fun ivs c _ _ v => (ivs + v 0, match c with | none => some 1 | some k => some (k + 1))⟩ :
    TimeCfg Nat Nat Nat Nat Nat).Transparent := by
  intro ivs c win size v; rfl

-- non-vacuity: a windowed draw, an unrelated consumer and a plain draw on other services
example : ∀ op ∈ ([TOp.draw 1 (some (2, 3)) 5, TOp.other 2 9, TOp.draw 1 none 4] : List (TOp Nat (Nat × Nat))),
    op.setsIvs = false ∧ op.touches 0 = false := by decide

-- non-vacuity: a history that leaves service 0 alone (it even contains an aliased call on service 1)
example : ∀ op ∈ [Op.draw 1 7, Op.reseed 2 5, Op.trials 1 (some 2) 3 2, Op.trials 1 (some 1) 2 1], op.touches 0 = false := by
  decide
-- non-vacuity: one run with two processes whose minimiser consumes words
example : (parTrials (fun s p => s + p) id
    (⟨fun v => (v 0, 2), fun d v => (d + v 0, 4)⟩ : TrialCfg Nat Nat Nat) 3 2 (fun _ => ⟨10, 0⟩) 0 none).outs.map
      (fun o => (o.seed, o.data, o.fit)) = [(10, 11, 21), (10, 13, 23), (10, 10, 20)] := by decide
-- non-vacuity of the distinctness hypotheses
example : (none : Option Nat) ≠ some 0 ∧ (some 1 : Option Nat) ≠ some 0 := by decide


/-! # Deepening round: the code around the core

## RandomChoice as an object: validation, constructor, call on the stored cdf -/

section choice_object
variable {K : Type} [Field K] [LinearOrder K] [IsStrictOrderedRing K]

/-- over an ordered field (no NaN) the pinned and the repaired form of the last test decide alike:
the repair changes nothing for real numbers -/
theorem c08_validate_forms_agree (atol : K) (n ndim : Nat) (s : K) (ps : List K) :
    validateProbs true atol n ndim s ps = validateProbs false atol n ndim s ps := by
  unfold validateProbs
  simp only [if_true, Bool.false_eq_true, if_false]
  by_cases h : absF (s - 1) ≤ atol
  · simp [h, not_lt.mpr h]
  · simp [h, not_le.mp h]

/-- **the constructor establishes the guard** of the choice theorems: whatever passes
`_assert_probabilities` (either form of its last test; tolerance below 1; `s` the sum) is a 1-d
vector of the right length with non-negative entries and positive sum. -/
theorem c08_validate_establishes_guard (b : Bool) (atol : K) (hat : atol < 1) (n ndim : Nat) (ps : List K)
    (h : validateProbs b atol n ndim ps.sum ps = .ok ()) :
    ndim = 1 ∧ ps.length = n ∧ (∀ p ∈ ps, 0 ≤ p) ∧ 0 < ps.sum := by
  have h' : validateProbs false atol n ndim ps.sum ps = .ok () := by
    cases b
    · exact h
    · rw [← c08_validate_forms_agree]; exact h
  unfold validateProbs at h'
  simp only [Bool.false_eq_true, if_false] at h'
  split_ifs at h' with h1 h2 h3 h4
  refine ⟨not_not.mp h1, not_not.mp h2, ?_, ?_⟩
  · intro p hp
    simp only [List.any_eq_true, decide_eq_true_eq, not_exists, not_and, not_lt] at h3
    exact h3 p hp
  · have habs : absF (ps.sum - 1) ≤ atol := by simpa using h4
    unfold absF at habs
    split_ifs at habs with h5 <;> linarith

end choice_object

section choice_object_any
variable {F : Type} [LT F] [LE F] [DecidableLT F] [DecidableLE F] [Neg F] [Sub F] [OfNat F 0] [OfNat F 1]
  [Add F] [Div F]

/-- the call on the stored cdf is the code path of `chooseCoded` (which recomputes the cdf): the
object computes its cdf once and that is the cdf of the probabilities it was constructed with -/
theorem c08_construct_call_eq_coded {α : Type} (b right : Bool) (atol s : F) (form : ArgForm) (ndim : Nat)
    (items : List α) (ps us : List F) (perm : List Nat) (rc : RC α F)
    (h : construct b atol form ndim s items ps = .ok rc) :
    rc.items = items ∧ rc.probs = ps ∧ cdf ps = some rc.cdf ∧
      rc.call right us perm = chooseCoded right items ps us perm := by
  unfold construct at h
  cases hv : validateItems form with
  | error e => rw [hv] at h; simp at h
  | ok u =>
    rw [hv] at h
    simp only at h
    cases hp : validateProbs b atol items.length ndim s ps with
    | error e => rw [hp] at h; simp at h
    | ok u' =>
      rw [hp] at h
      simp only at h
      cases hc : cdf ps with
      | none => rw [hc] at h; simp at h
      | some c =>
        rw [hc] at h
        simp only [Except.ok.injEq] at h
        subst h
        refine ⟨rfl, rfl, rfl, ?_⟩
        unfold RC.call chooseCoded idxsCoded
        rw [hc]
        simp only
        cases allSome (perm.map (fun i => us[i]?)) with
        | none => rfl
        | some sortedUs =>
          simp only
          cases allSome (scatter (List.replicate (sortedUs.map (search right c)).length none) perm
            (sortedUs.map (search right c))) <;> rfl

end choice_object_any

section choice_object_field
variable {K : Type} [Field K] [LinearOrder K] [IsStrictOrderedRing K]

/-- **a constructed RandomChoice is correct** — no guard left as a hypothesis: if the constructor
accepted the arguments (tolerance below 1) then for uniform deviates in `[0,1)` (numpy's contract
for `random()`) the call returns, it returns one item per deviate, and every returned item has
strictly positive probability. -/
theorem c08_choice_object_correct {α : Type} (b : Bool) (atol : K) (hat : atol < 1) (form : ArgForm)
    (ndim : Nat) (items : List α) (ps us : List K) (rc : RC α K)
    (h : construct b atol form ndim ps.sum items ps = .ok rc) (hu : ∀ u ∈ us, 0 ≤ u ∧ u < 1) :
    ∃ r, rc.call true us (argsort us) = some r ∧ r.length = us.length ∧
      ∀ (k : Nat) (u : K), us[k]? = some u → ∃ (i : Nat) (p : K), ps[i]? = some p ∧ 0 < p ∧
        r[k]? = items[i]? ∧ i < items.length := by
  obtain ⟨-, -, -, hcall⟩ := c08_construct_call_eq_coded b true atol ps.sum form ndim items ps us (argsort us) rc h
  have hv : validateProbs b atol items.length ndim ps.sum ps = .ok () := by
    unfold construct at h
    cases hv : validateItems form with
    | error e => rw [hv] at h; simp at h
    | ok u =>
      rw [hv] at h
      simp only at h
      cases hp : validateProbs b atol items.length ndim ps.sum ps with
      | error e => rw [hp] at h; simp at h
      | ok u' => rfl
  obtain ⟨-, hlen, hp, hS⟩ := c08_validate_establishes_guard b atol hat items.length ndim ps hv
  rw [hcall]
  exact c08_choice_coded_correct items ps us hlen.symm hp hS hu

/-- the constructor never fails with the `IndexError` of `self._cdf[-1]`: an empty probability
array is rejected by the sum test before -/
theorem c08_construct_never_index_error {α : Type} (b : Bool) (atol : K) (hat : atol < 1) (form : ArgForm)
    (ndim : Nat) (items : List α) (ps : List K) :
    construct b atol form ndim ps.sum items ps ≠ .error .indexError := by
  unfold construct
  cases hv : validateItems form with
  | error e =>
    unfold validateItems at hv
    cases form with
    | notArray => simp at hv; subst hv; simp
    | array k => simp only at hv; split_ifs at hv; simp at hv; subst hv; simp
  | ok u =>
    simp only
    cases hp : validateProbs b atol items.length ndim ps.sum ps with
    | error e =>
      unfold validateProbs at hp
      split_ifs at hp <;> simp at hp <;> subst hp <;> simp
    | ok u' =>
      obtain ⟨-, -, -, hS⟩ := c08_validate_establishes_guard b atol hat items.length ndim ps hp
      have hne : ps ≠ [] := by rintro rfl; simp at hS
      simp only
      cases hc : cdf ps with
      | none =>
        exfalso
        unfold cdf at hc
        rw [C08.cumsum_eq_cumFrom, C08.cumFrom_getLast? 0 ps hne] at hc
        simp at hc
      | some c => simp

end choice_object_field

/-! ### NaN: where the pinned validation falls short -/

/-- a toy arithmetic with one NaN (`none`): every operation propagates it, every comparison with it
is false — the two facts about IEEE NaN the argument needs -/
structure NInt where
  v : Option Int
deriving DecidableEq

namespace NInt
def nan : NInt := ⟨none⟩
def of (k : Int) : NInt := ⟨some k⟩
def lift2 (f : Int → Int → Int) (a b : NInt) : NInt :=
  match a.v, b.v with
  | some x, some y => ⟨some (f x y)⟩
  | _, _ => ⟨none⟩
instance : Add NInt := ⟨lift2 (· + ·)⟩
instance : Sub NInt := ⟨lift2 (· - ·)⟩
instance : Div NInt := ⟨lift2 (· / ·)⟩
instance : Neg NInt := ⟨fun a => ⟨a.v.map (fun x => -x)⟩⟩
instance : OfNat NInt 0 := ⟨of 0⟩
instance : OfNat NInt 1 := ⟨of 1⟩
instance : Zero NInt := ⟨of 0⟩
def lt (a b : NInt) : Prop := match a.v, b.v with
  | some x, some y => x < y
  | _, _ => False
def le (a b : NInt) : Prop := match a.v, b.v with
  | some x, some y => x ≤ y
  | _, _ => False
instance : LT NInt := ⟨lt⟩
instance : LE NInt := ⟨le⟩
instance : DecidableLT NInt := fun a b => by
  show Decidable (lt a b); unfold lt; cases a.v <;> cases b.v <;> infer_instance
instance : DecidableLE NInt := fun a b => by
  show Decidable (le a b); unfold le; cases a.v <;> cases b.v <;> infer_instance
end NInt

/-- the statement one wants of the validation: an accepted vector contains no NaN -/
def c08_validate_rejects_nan_statement (rejectsNaN : Bool) : Prop :=
  ∀ (atol : NInt) (n : Nat) (ps : List NInt), validateProbs rejectsNaN atol n 1 ps.sum ps = .ok () →
    ∀ p ∈ ps, p ≠ NInt.nan

/-- it is false for the pinned test `abs(p_sum - 1) > atol`: probabilities `[0, NaN]` are accepted —
and the choice then returns the item of probability 0 for every deviate -/
theorem c08_validate_rejects_nan_counterexample : ¬ c08_validate_rejects_nan_statement false := by
  intro h
  exact absurd rfl (h (NInt.of 0) 2 [NInt.of 0, NInt.nan] (by decide) NInt.nan (by simp))

theorem c08_nan_choice_returns_zero_probability_item :
    validateProbs false (NInt.of 0) 2 1 ([NInt.of 0, NInt.nan] : List NInt).sum [NInt.of 0, NInt.nan] = .ok () ∧
    chooseSpec true [10, 11] [NInt.of 0, NInt.nan] [NInt.of 0] = some [10] ∧
    validateProbs true (NInt.of 0) 2 1 ([NInt.of 0, NInt.nan] : List NInt).sum [NInt.of 0, NInt.nan] =
      .error .valueError := by decide

namespace C08
theorem nint_sum_nan (ps : List NInt) (h : NInt.nan ∈ ps) : ps.sum = NInt.nan := by
  induction ps with
  | nil => simp at h
  | cons p rest ih =>
    rw [List.sum_cons]
    rcases List.mem_cons.mp h with rfl | h
    · show NInt.lift2 (· + ·) NInt.nan rest.sum = NInt.nan
      simp [NInt.lift2, NInt.nan]
    · rw [ih h]
      show NInt.lift2 (· + ·) p NInt.nan = NInt.nan
      unfold NInt.lift2 NInt.nan
      cases p.v <;> rfl
end C08

/-- with the repaired test `not (abs(p_sum - 1) <= atol)` the statement holds: NaN anywhere in the
vector makes the sum NaN, and NaN fails every `<=` -/
theorem c08_validate_rejects_nan : c08_validate_rejects_nan_statement true := by
  intro atol n ps h p hp hnan
  subst hnan
  unfold validateProbs at h
  rw [C08.nint_sum_nan ps hp] at h
  have hle : ¬ (absF (NInt.nan - 1) ≤ atol) := by
    intro hcon
    have h1 : absF (NInt.nan - (1 : NInt)) = NInt.nan := by decide
    rw [h1] at hcon
    exact hcon
  simp only [if_true, hle, decide_false, Bool.not_false, if_true] at h
  split_ifs at h

/-- the source read at check time uses the repaired form -/
theorem c08_choice_validation_for_current_source : Gen.C08.probSumTestRejectsNaN = true := by decide

-- non-vacuity: a vector the validation accepts (ℚ, tolerance 1/100), and one it rejects
example : validateProbs true (1/100 : ℚ) 3 1 ([1/2, 0, 1/2] : List ℚ).sum [1/2, 0, 1/2] = .ok () := by
  decide +kernel
example : validateProbs true (1/100 : ℚ) 3 1 ([1/2, 0, 1/4] : List ℚ).sum [1/2, 0, 1/4] = .error .valueError := by
  decide +kernel

/-! ## Minimizer.minimize: restart loop, error, bounds -/

section minimizer
variable {V X S : Type}

/-- **the restart loop**: it does between 0 and the allowed number of restarts and stops for one of
exactly three reasons — the last attempt converged, it is not repeatable, or the allowed number of
restarts is used up. -/
theorem c08_restart_loop_spec (impl : MinImpl X S) (mkInit : (Nat → V) → X) (wordsPer : Nat)
    (view : Nat → V) (fuel reps : Nat) (cur : X × S) :
    reps ≤ (restartLoop impl mkInit wordsPer view fuel reps cur).2 ∧
      (restartLoop impl mkInit wordsPer view fuel reps cur).2 ≤ reps + fuel ∧
      (impl.converged (restartLoop impl mkInit wordsPer view fuel reps cur).1.2 = true ∨
        impl.repeatable (restartLoop impl mkInit wordsPer view fuel reps cur).1.2 = false ∨
        (restartLoop impl mkInit wordsPer view fuel reps cur).2 = reps + fuel) := by
  induction fuel generalizing reps cur with
  | zero => simp [restartLoop]
  | succ fuel ih =>
    unfold restartLoop
    by_cases hc : (!impl.converged cur.2 && impl.repeatable cur.2) = true
    · rw [if_pos hc]
      obtain ⟨a, b, c⟩ := ih (reps + 1) (impl.minimize (reps + 1) (mkInit (fun i => view (wordsPer * reps + i))))
      refine ⟨by omega, by omega, ?_⟩
      rcases c with c | c | c
      · exact Or.inl c
      · exact Or.inr (Or.inl c)
      · exact Or.inr (Or.inr (by omega))
    · rw [if_neg hc]
      refine ⟨le_refl _, by omega, ?_⟩
      simp only [Bool.and_eq_true, Bool.not_eq_eq_eq_not, Bool.not_true, not_and, Bool.not_eq_true] at hc
      cases h1 : impl.converged cur.2 with
      | true => exact Or.inl rfl
      | false => exact Or.inr (Or.inl (hc h1))

/-- **`Minimizer.minimize`**: it returns a result exactly when the last attempt converged, raises
the `ValueError` otherwise, and in both cases has read `wordsPer · reps ≤ wordsPer · max_repetitions`
words from the service it was given — from that service only (it is handed nothing else). -/
theorem c08_minimize_spec (impl : MinImpl X S) (mkInit : (Nat → V) → X) (wordsPer maxRep : Nat)
    (clip : X → X) (x0 : X) (view : Nat → V) :
    ((∃ r, (minimizeM impl mkInit wordsPer maxRep clip x0 view).1 = .ok r ∧ impl.converged r.status = true ∧
        r.reps ≤ maxRep ∧ (minimizeM impl mkInit wordsPer maxRep clip x0 view).2 = wordsPer * r.reps) ∨
      ((minimizeM impl mkInit wordsPer maxRep clip x0 view).1 = .error .notConverged)) ∧
      (minimizeM impl mkInit wordsPer maxRep clip x0 view).2 ≤ wordsPer * maxRep := by
  obtain ⟨-, hb, -⟩ := c08_restart_loop_spec impl mkInit wordsPer view maxRep 0 (impl.minimize 0 x0)
  unfold minimizeM
  by_cases hc : impl.converged (restartLoop impl mkInit wordsPer view maxRep 0 (impl.minimize 0 x0)).1.2 = true
  · simp only [hc, if_true]
    exact ⟨Or.inl ⟨_, rfl, hc, by simpa using hb, rfl⟩, Nat.mul_le_mul_left _ (by simpa using hb)⟩
  · simp only [hc, Bool.false_eq_true, if_false]
    exact ⟨Or.inr trivial, Nat.mul_le_mul_left _ (by simpa using hb)⟩

/-- a minimiser that converges at the first attempt draws nothing -/
theorem c08_minimize_converged_draws_nothing (impl : MinImpl X S) (mkInit : (Nat → V) → X)
    (wordsPer maxRep : Nat) (clip : X → X) (x0 : X) (view : Nat → V)
    (h : impl.converged (impl.minimize 0 x0).2 = true) :
    (minimizeM impl mkInit wordsPer maxRep clip x0 view).2 = 0 := by
  unfold minimizeM
  cases maxRep with
  | zero => simp [restartLoop, h]
  | succ k => simp [restartLoop, h]

end minimizer

section bounds
variable {K : Type} [Field K] [LinearOrder K] [IsStrictOrderedRing K]

/-- random restart initials lie within the parameter bounds (for deviates in `[0,1)`) -/
theorem c08_restart_initials_in_bounds (bounds : List (K × K)) (u : Nat → K)
    (hb : ∀ b ∈ bounds, b.1 ≤ b.2) (hu : ∀ j, 0 ≤ u j ∧ u j < 1) (j : Nat) (x : K) (b : K × K)
    (hx : (randInitials bounds u)[j]? = some x) (hbj : bounds[j]? = some b) : b.1 ≤ x ∧ x ≤ b.2 := by
  unfold randInitials at hx
  simp only [List.getElem?_map, List.getElem?_zipIdx, hbj, Option.map_some, Nat.zero_add,
    Option.some.injEq] at hx
  subst hx
  have h1 := hb b (List.mem_of_getElem? hbj)
  obtain ⟨h2, h3⟩ := hu j
  constructor
  · nlinarith
  · nlinarith

/-- the clipping after the minimisation puts every fit value inside its bounds and leaves a value
that is inside alone -/
theorem c08_clip_in_bounds (b : K × K) (x : K) (hb : b.1 ≤ b.2) :
    b.1 ≤ clipOne b x ∧ clipOne b x ≤ b.2 ∧ (b.1 ≤ x → x ≤ b.2 → clipOne b x = x) := by
  unfold clipOne
  refine ⟨?_, ?_, ?_⟩
  · split_ifs <;> simp_all <;> linarith
  · split_ifs <;> simp_all <;> linarith
  · intro h1 h2
    rw [if_neg (not_lt.mpr h2), if_neg (not_lt.mpr h1)]

end bounds

/-! ## trials that may raise: post-state and the data side -/

section trialsE
variable {V D R R' : Type}

namespace C08

theorem doTrialE_data (gen : Nat → Nat → V) (cfg : TrialCfgE V D R) (w : World) (a : Nat) (ms : Option Nat)
    (hms : ms ≠ some a) :
    (doTrialE gen cfg w a ms).2 a = (w a).adv (cfg.dataGen ((w a).view gen)).2 ∧
      ∀ o, (doTrialE gen cfg w a ms).1 = .ok o → dataOf o = ((w a).seed, (cfg.dataGen ((w a).view gen)).1) := by
  cases ms with
  | none =>
    simp only [doTrialE]
    refine ⟨set_same _ _ _, ?_⟩
    intro o ho
    cases hm : (cfg.minim (cfg.dataGen ((w a).view gen)).1 ((Stream.fresh (w a).seed).view gen)).1 with
    | error e => rw [hm] at ho; simp [Except.map] at ho
    | ok r => rw [hm] at ho; simp only [Except.map, Except.ok.injEq] at ho; subst ho; rfl
  | some m =>
    have ham : a ≠ m := fun e => hms (by rw [e])
    simp only [doTrialE]
    refine ⟨by rw [set_other _ _ _ _ ham, set_same], ?_⟩
    intro o ho
    cases hm : (cfg.minim (cfg.dataGen ((w a).view gen)).1
        (((w.set a ((w a).adv (cfg.dataGen ((w a).view gen)).2)) m).view gen)).1 with
    | error e => rw [hm] at ho; simp [Except.map] at ho
    | ok r => rw [hm] at ho; simp only [Except.map, Except.ok.injEq] at ho; subst ho; rfl

end C08

/-- **the data side of trials that may raise**: for a minimiser service that is not the data
service, the rows completed before a raise carry exactly the first entries of the *pure data
trace* (a function of the data service, `n` and the data generation only); a raise ends the
sequence early; and the data service is left after exactly as many pseudo-data generations as
trials were started — what the raising trial consumed stays consumed.  Which trial raises depends
on the minimiser; what the completed trials generated does not. -/
theorem c08_data_trace_with_errors (gen : Nat → Nat → V) (cfg : TrialCfgE V D R) (n : Nat) (w : World)
    (a : Nat) (ms : Option Nat) (hms : ms ≠ some a) :
    (trialsSeqE gen cfg n w a ms).outs.map C08.dataOf =
        (dataTrace gen cfg.dataGen n (w a)).take (trialsSeqE gen cfg n w a ms).outs.length ∧
      (trialsSeqE gen cfg n w a ms).outs.length ≤ n ∧
      ((trialsSeqE gen cfg n w a ms).err = none → (trialsSeqE gen cfg n w a ms).outs.length = n) ∧
      (trialsSeqE gen cfg n w a ms).world a =
        dataAdv gen cfg.dataGen ((trialsSeqE gen cfg n w a ms).outs.length +
          (if (trialsSeqE gen cfg n w a ms).err.isSome then 1 else 0)) (w a) := by
  induction n generalizing w with
  | zero => simp [trialsSeqE, dataTrace, dataAdv]
  | succ n ih =>
    obtain ⟨hw, hd⟩ := C08.doTrialE_data gen cfg w a ms hms
    unfold trialsSeqE
    cases hr : doTrialE gen cfg w a ms with
    | mk res w' =>
      rw [hr] at hw hd
      simp only at hw hd
      cases res with
      | error e =>
        simp only [List.map_nil, List.length_nil, List.take_zero, Nat.zero_le, Option.isSome_some,
          if_true, true_and, reduceCtorEq, false_implies, Nat.zero_add]
        simp only [dataAdv]
        exact hw
      | ok o =>
        obtain ⟨i1, i2, i3, i4⟩ := ih w'
        simp only [List.map_cons, List.length_cons, dataTrace, List.take_succ_cons]
        refine ⟨?_, by omega, fun h => by rw [i3 h], ?_⟩
        · rw [hd o rfl, i1, hw]
        · rw [i4, hw]
          have : (trialsSeqE gen cfg n w' a ms).outs.length + 1 +
              (if (trialsSeqE gen cfg n w' a ms).err.isSome = true then 1 else 0) =
              ((trialsSeqE gen cfg n w' a ms).outs.length +
                (if (trialsSeqE gen cfg n w' a ms).err.isSome = true then 1 else 0)) + 1 := by omega
          rw [this]
          simp only [dataAdv]

/-- **non-interference with errors**: two analyses with the same data generation, whatever their
minimisers do (restart, raise, at different trials) and whatever minimiser services they get
(other than the data service): the data of their completed trials are initial segments of one and
the same list. -/
theorem c08_noninterference_with_errors (gen : Nat → Nat → V) (cfg₁ : TrialCfgE V D R) (cfg₂ : TrialCfgE V D R')
    (h : cfg₁.dataGen = cfg₂.dataGen) (n : Nat) (w₁ w₂ : World) (a : Nat) (ms₁ ms₂ : Option Nat)
    (h₁ : ms₁ ≠ some a) (h₂ : ms₂ ≠ some a) (hw : w₁ a = w₂ a) :
    ∃ L, (trialsSeqE gen cfg₁ n w₁ a ms₁).outs.map C08.dataOf <+: L ∧
      (trialsSeqE gen cfg₂ n w₂ a ms₂).outs.map C08.dataOf <+: L := by
  refine ⟨dataTrace gen cfg₂.dataGen n (w₂ a), ?_, ?_⟩
  · rw [(c08_data_trace_with_errors gen cfg₁ n w₁ a ms₁ h₁).1, h, hw]
    exact List.take_prefix _ _
  · rw [(c08_data_trace_with_errors gen cfg₂ n w₂ a ms₂ h₂).1]
    exact List.take_prefix _ _

/-- a raising trial leaves every service other than the two it was given untouched, and with the
default (no minimiser service passed) it touches the data service only -/
theorem c08_error_poststate_frame (gen : Nat → Nat → V) (cfg : TrialCfgE V D R) (w : World) (a : Nat)
    (ms : Option Nat) (b : Nat) (hb : b ≠ a) (hm : ms ≠ some b) : (doTrialE gen cfg w a ms).2 b = w b := by
  cases ms with
  | none => simp only [doTrialE]; exact C08.set_other _ _ _ _ hb
  | some m =>
    have hbm : b ≠ m := fun e => hm (by rw [e])
    simp only [doTrialE]
    rw [C08.set_other _ _ _ _ hbm, C08.set_other _ _ _ _ hb]

/-- the explicit minimiser service has advanced by exactly what the minimiser read, also when it
raised (`m ≠ a`) -/
theorem c08_error_poststate_minimizer (gen : Nat → Nat → V) (cfg : TrialCfgE V D R) (w : World) (a m : Nat)
    (hne : a ≠ m) :
    (doTrialE gen cfg w a (some m)).2 m =
      (w m).adv (cfg.minim (cfg.dataGen ((w a).view gen)).1 ((w m).view gen)).2 := by
  simp only [doTrialE]
  rw [C08.set_same, C08.set_other _ _ _ _ (Ne.symm hne)]

/-- **refinement**: when the minimiser never raises, the error-aware layer is the total layer all
other theorems are about (rows, no error, same final store) -/
theorem c08_trialsE_refines_total (gen : Nat → Nat → V) (cfg : TrialCfg V D R) (n : Nat) (w : World)
    (a : Nat) (ms : Option Nat) :
    trialsSeqE gen ⟨cfg.dataGen, fun d v => (.ok (cfg.minim d v).1, (cfg.minim d v).2)⟩ n w a ms =
      ⟨(trialsSeq gen cfg n w a ms).1, none, (trialsSeq gen cfg n w a ms).2⟩ := by
  induction n generalizing w with
  | zero => rfl
  | succ n ih =>
    have hd : doTrialE gen ⟨cfg.dataGen, fun d v => (.ok (cfg.minim d v).1, (cfg.minim d v).2)⟩ w a ms =
        (.ok (doTrial gen cfg w a ms).1, (doTrial gen cfg w a ms).2) := by
      cases ms <;> simp [doTrialE, doTrial, Except.map]
    unfold trialsSeqE
    rw [hd]
    simp only [ih, trialsSeq]

end trialsE

/-! ## get_ncpu -/

/-- `get_ncpu`: a returned value is at least 1; the local setting wins over the configuration, the
configuration over the default 1; it raises exactly when the effective setting is below 1 -/
theorem c08_get_ncpu_spec (cfgNcpu loc : Option Int) :
    (∀ r, getNcpu cfgNcpu loc = .ok r → 1 ≤ r ∧ (∀ k, loc = some k → (r : Int) = k) ∧
      (loc = none → ∀ k, cfgNcpu = some k → (r : Int) = k) ∧ (loc = none → cfgNcpu = none → r = 1)) ∧
    (getNcpu cfgNcpu loc = .error .valueError ↔
      (∃ k, loc = some k ∧ k < 1) ∨ (loc = none ∧ ∃ k, cfgNcpu = some k ∧ k < 1)) := by
  unfold getNcpu
  cases loc with
  | some k =>
    by_cases hk : k < 1
    · simp [hk]
    · simp only [hk, if_false, Except.ok.injEq, reduceCtorEq, false_iff]
      refine ⟨?_, by simp; omega⟩
      intro r hr
      subst hr
      refine ⟨by omega, ?_, by simp, by simp⟩
      intro k' hk'
      simp only [Option.some.injEq] at hk'
      subst hk'
      omega
  | none =>
    cases cfgNcpu with
    | some k =>
      by_cases hk : k < 1
      · simp [hk]
      · simp only [hk, if_false, Except.ok.injEq, reduceCtorEq, false_iff]
        refine ⟨?_, by simp; omega⟩
        intro r hr
        subst hr
        refine ⟨by omega, by simp, ?_, by simp⟩
        intro _ k' hk'
        simp only [Option.some.injEq] at hk'
        subst hk'
        omega
    | none => simp

/-! ## labels of the rows appended with several processes -/

/-- the full statement one would like: every seed label of the appended rows is new -/
def c08_extend_all_labels_fresh_statement : Prop :=
  ∀ (gen : Nat → Nat → Nat) (start : Nat) (file : List Nat) (cur pos n ncpu : Nat),
    ∀ l ∈ extendLabels gen id start file cur pos n ncpu, l ∉ file

/-- it is false: the worker seeds are words of the new seed's stream and nothing compares them with
the file (file seeds `{1, 7}`, service seed 1, a generator whose first word is 7, two processes) -/
theorem c08_extend_all_labels_fresh_counterexample : ¬ c08_extend_all_labels_fresh_statement := by
  intro h
  exact absurd (h (fun _ _ => 7) 1 [1, 7] 1 0 2 2 7 (by decide)) (by decide)

/-- what does hold: the label of the master rows (the seed left in the caller's service) is new,
and with one process it is the only label -/
theorem c08_extend_all_labels_fresh_partial {V : Type} (gen : Nat → Nat → V) (toSeed : V → Nat)
    (start : Nat) (file : List Nat) (cur pos n ncpu : Nat) :
    (extendLabels gen toSeed start file cur pos n ncpu).head? = some (extendSeed start file cur) ∧
      extendSeed start file cur ∉ file ∧
      (ncpu ≤ 1 → ∀ l ∈ extendLabels gen toSeed start file cur pos n ncpu, l ∉ file) := by
  refine ⟨rfl, c08_next_seed_fresh start file cur, ?_⟩
  intro hn l hl
  have h0 : ncpu - 1 = 0 := by omega
  simp only [extendLabels, workerSeeds, h0, List.range_zero, List.map_nil, List.zip_nil_left, List.filter_nil,
    List.mem_singleton] at hl
  rw [hl]
  exact c08_next_seed_fresh start file cur

-- non-vacuity
example : getNcpu (some 4) none = .ok 4 ∧ getNcpu (some 4) (some 2) = .ok 2 ∧ getNcpu none none = .ok 1 ∧
    getNcpu (some 0) none = .error .valueError := by decide
example : (minimizeM (⟨fun k x => (x + k, k), fun s => decide (2 ≤ s), fun _ => true⟩ : MinImpl Nat Nat)
    (fun v => v 0) 2 5 id 0 (fun i => 100 + i)).2 = 4 := by decide
example : (minimizeM (⟨fun k x => (x + k, k), fun s => decide (9 ≤ s), fun _ => true⟩ : MinImpl Nat Nat)
    (fun v => v 0) 2 3 id 0 (fun i => 100 + i)).2 = 6 := by decide

/-! ## create_trial_data_file / extend_trial_data_file with grids of signal strengths -/

section createFile
variable {V D R G : Type}

namespace C08

theorem doTrials_ok (gen : Nat → Nat → V) (toSeed : V → Nat) (cfg : TrialCfg V D R) (n ncpu : Nat) (w : World)
    (a : Nat) (ms : Option Nat) (r : ParOut D R) (h : doTrials gen toSeed cfg n ncpu w a ms = .ok r) :
    0 < n ∧ 0 < ncpu ∧ r = parTrials gen toSeed cfg n ncpu w a ms := by
  unfold doTrials at h
  split_ifs at h with h1 h2
  simp only [Except.ok.injEq] at h
  exact ⟨by omega, by omega, h.symm⟩

/-- what the loop over the grid returns when nothing raises -/
theorem createLoop_ok (gen : Nat → Nat → V) (toSeed : V → Nat) (cfgOf : G → TrialCfg V D R) (n ncpu a : Nat)
    (ms : Option Nat) (grid : List G) (w : World) (rows : List (TrialOut D R)) (w' : World)
    (h : createLoop gen toSeed cfgOf n ncpu a ms grid w = (.ok rows, w')) :
    (grid = [] ∨ (0 < n ∧ 0 < ncpu)) ∧ rows.length = n * grid.length ∧ (w' a).seed = (w a).seed ∧
      (ncpu ≤ 1 → ∀ o ∈ rows, o.seed = (w a).seed) := by
  induction grid generalizing w rows w' with
  | nil =>
    simp only [createLoop, Prod.mk.injEq, Except.ok.injEq] at h
    obtain ⟨rfl, rfl⟩ := h
    simp
  | cons g rest ih =>
    unfold createLoop doTrialsPost at h
    cases hd : doTrials gen toSeed (cfgOf g) n ncpu w a ms with
    | error e => rw [hd] at h; cases e <;> simp at h
    | ok r =>
      rw [hd] at h
      simp only at h
      obtain ⟨hn, hc, hr⟩ := doTrials_ok gen toSeed (cfgOf g) n ncpu w a ms r hd
      cases hl : createLoop gen toSeed cfgOf n ncpu a ms rest r.world with
      | mk res w2 =>
        rw [hl] at h
        cases res with
        | error e => simp at h
        | ok rows2 =>
          simp only [Prod.mk.injEq, Except.ok.injEq] at h
          obtain ⟨rfl, rfl⟩ := h
          obtain ⟨-, i2, i3, i4⟩ := ih r.world rows2 w2 hl
          have hseed : (r.world a).seed = (w a).seed := by
            rw [hr]; exact (c08_worker_seeds_fn gen toSeed (cfgOf g) n ncpu w a ms).2.2
          have hlen : r.outs.length = n := by rw [hr]; exact c08_trials_count gen toSeed (cfgOf g) n ncpu w a ms
          refine ⟨Or.inr ⟨hn, hc⟩, ?_, by rw [i3, hseed], ?_⟩
          · simp only [List.length_append, List.length_cons, hlen, i2]; ring
          · intro hle o ho
            rcases List.mem_append.mp ho with ho | ho
            · have := c08_row_seeds gen toSeed (cfgOf g) n ncpu w a ms o (by rw [← hr]; exact ho)
              rcases this with h1 | h1
              · exact h1
              · have h0 : ncpu - 1 = 0 := by omega
                simp [workerSeeds, h0] at h1
            · rw [i4 hle o ho, hseed]

end C08

/-- **`create_trial_data_file` returns exactly when there is something to do**: at least one grid
point, `n ≥ 1`, `ncpu ≥ 1` (else `RuntimeError` / `IndexError` / `ValueError`); then it returns
`n` rows per grid point, the service keeps its seed and — with one process — every row is labelled
with that seed. -/
theorem c08_create_file_spec (gen : Nat → Nat → V) (toSeed : V → Nat) (cfgOf : G → TrialCfg V D R)
    (n ncpu a : Nat) (ms : Option Nat) (grid : List G) (w : World) (rows : List (TrialOut D R)) (w' : World)
    (h : createFile gen toSeed cfgOf n ncpu a ms grid w = (.ok rows, w')) :
    grid ≠ [] ∧ 0 < n ∧ 0 < ncpu ∧ rows.length = n * grid.length ∧ 1 ≤ rows.length ∧
      (w' a).seed = (w a).seed ∧ (ncpu ≤ 1 → ∀ o ∈ rows, o.seed = (w a).seed) := by
  unfold createFile at h
  cases hl : createLoop gen toSeed cfgOf n ncpu a ms grid w with
  | mk res w2 =>
    rw [hl] at h
    cases res with
    | error e => simp at h
    | ok rows2 =>
      simp only at h
      by_cases he : grid.isEmpty = true
      · rw [if_pos he] at h; simp at h
      rw [if_neg he] at h
      simp only [Prod.mk.injEq, Except.ok.injEq] at h
      obtain ⟨rfl, rfl⟩ := h
      have hne : grid ≠ [] := by
        intro hg; subst hg; simp at he
      obtain ⟨i1, i2, i3, i4⟩ := C08.createLoop_ok gen toSeed cfgOf n ncpu a ms grid w rows2 w2 hl
      rcases i1 with i1 | ⟨hn, hc⟩
      · exact absurd i1 hne
      · have hgl : 1 ≤ grid.length := by
          cases grid with
          | nil => exact absurd rfl hne
          | cons _ _ => simp
        refine ⟨hne, hn, hc, i2, ?_, i3, i4⟩
        rw [i2]
        exact Nat.mul_pos hn hgl

/-- **the extended file, as the code builds it**: when `extend_trial_data_file` returns (one
process), the new file is the old one followed by `k ≥ 1` rows that all carry one seed `s`; `s` is
the seed the unused-seed search yields for the caller's service, it does not occur in the old file,
and it is the seed the caller's service is left with.  (The hypothesis "at least one row per
extension" of `c08_extend_history_fresh` is thus established by the code: an extension that would
add nothing raises.) -/
theorem c08_extend_file_fresh (gen : Nat → Nat → V) (toSeed : V → Nat) (cfgOf : G → TrialCfg V D R)
    (start n ncpu a : Nat) (ms : Option Nat) (grid : List G) (file : List Nat) (w : World)
    (file' : List Nat) (rows : List (TrialOut D R)) (w' : World) (hc : ncpu ≤ 1)
    (h : extendFile gen toSeed cfgOf start n ncpu a ms grid file w = (.ok (file', rows), w')) :
    ∃ k, 1 ≤ k ∧ k = n * grid.length ∧
      file' = file ++ List.replicate k (extendSeed start file (w a).seed) ∧
      extendSeed start file (w a).seed ∉ file ∧ (w' a).seed = extendSeed start file (w a).seed := by
  unfold extendFile at h
  simp only at h
  cases hcf : createFile gen toSeed cfgOf n ncpu a ms grid
      (if (w a).seed ∈ file then w.set a (Stream.fresh (nextSeed start file)) else w) with
  | mk res w2 =>
    rw [hcf] at h
    cases res with
    | error e => simp at h
    | ok rows2 =>
      simp only [Prod.mk.injEq, Except.ok.injEq] at h
      obtain ⟨⟨rfl, rfl⟩, rfl⟩ := h
      obtain ⟨-, -, -, i4, i5, i6, i7⟩ := c08_create_file_spec gen toSeed cfgOf n ncpu a ms grid _ rows2 w2 hcf
      have hs : ((if (w a).seed ∈ file then w.set a (Stream.fresh (nextSeed start file)) else w) a).seed =
          extendSeed start file (w a).seed := by
        unfold extendSeed
        split_ifs with hin
        · rw [C08.set_same]; rfl
        · rfl
      refine ⟨rows2.length, i5, i4, ?_, c08_next_seed_fresh start file (w a).seed, by rw [i6, hs]⟩
      congr 1
      apply List.ext_getElem
      · simp
      · intro i h1 h2
        simp only [List.getElem_map, List.getElem_replicate]
        rw [i7 hc _ (List.getElem_mem _), hs]

/-- the post-state of a raising `do_trials`: untouched, except that with `n = 0` and several
processes the worker seeds are already drawn -/
theorem c08_do_trials_poststate (gen : Nat → Nat → V) (toSeed : V → Nat) (cfg : TrialCfg V D R) (n ncpu : Nat)
    (w : World) (a : Nat) (ms : Option Nat) :
    (doTrialsPost gen toSeed cfg n ncpu w a ms).1 = doTrials gen toSeed cfg n ncpu w a ms ∧
      (ncpu = 0 → (doTrialsPost gen toSeed cfg n ncpu w a ms).2 = w) ∧
      (n = 0 → 0 < ncpu → ∀ b, b ≠ a → (doTrialsPost gen toSeed cfg n ncpu w a ms).2 b = w b) ∧
      (n = 0 → 0 < ncpu → (doTrialsPost gen toSeed cfg n ncpu w a ms).2 a = (w a).adv (ncpu - 1)) := by
  unfold doTrialsPost doTrials
  refine ⟨?_, ?_, ?_, ?_⟩
  · split_ifs <;> rfl
  · intro h; simp [h]
  · intro hn hc b hb
    have : ncpu ≠ 0 := by omega
    simp only [this, if_false, hn, if_true]
    split_ifs
    · rfl
    · exact C08.set_other _ _ _ _ hb
  · intro hn hc
    have : ncpu ≠ 0 := by omega
    simp only [this, if_false, hn, if_true]
    split_ifs with h1
    · have : ncpu - 1 = 0 := by omega
      simp [this, Stream.adv]
    · exact C08.set_same _ _ _

end createFile

section grid
variable {K : Type} [Field K] [LinearOrder K] [IsStrictOrderedRing K] [FloorRing K]

/-- a single number as `mean_n_sig` is a grid of exactly that value -/
theorem c08_grid_scalar (m : K) : gridOf (fun i : Nat => (i : K)) (fun x => ⌈x⌉₊) (.scalar m) = [m] := by
  simp [gridOf, arange]

/-- a `(min, max)` or `(min, max, step)` argument gives an empty grid — the `RuntimeError` of
`create_trial_data_file` — exactly when `max + 1 ≤ min` (positive step) -/
theorem c08_grid_range_empty_iff (a b st : K) (hst : 0 < st) :
    gridOf (fun i : Nat => (i : K)) (fun x => ⌈x⌉₊) (.range3 a b st) = [] ↔ b + 1 ≤ a := by
  simp only [gridOf, arange, List.map_eq_nil_iff, List.range_eq_nil, Nat.ceil_eq_zero]
  rw [div_le_iff₀ hst]
  constructor <;> intro h <;> linarith

theorem c08_grid_range2_is_range3 (a b : K) :
    gridOf (fun i : Nat => (i : K)) (fun x => ⌈x⌉₊) (.range2 a b) =
      gridOf (fun i : Nat => (i : K)) (fun x => ⌈x⌉₊) (.range3 a b 1) := rfl

end grid

example : gridOf (fun i : Nat => (i : ℚ)) (fun x => ⌈x⌉₊) (.range3 0 2 1) = [0, 1, 2] := by
  have h : ⌈((2 : ℚ) + 1 - 0) / 1⌉₊ = 3 := by norm_num
  simp only [gridOf, arange, h]
  simp [List.range_succ]


/-! ## the time-generation service, code-shaped: the premise of the `c08_time_*` theorems discharged -/

section timeCode
variable {V F : Type} [LE F] [LT F] [DecidableLE F] [DecidableLT F] [Add F] [Sub F] [Mul F] [OfNat F 0]

/-- the code-shaped model of `draw_ontimes` (no store on the object) has a transparent cache -/
theorem c08_time_code_transparent (toU : (Nat → V) → Nat → F) : (ltCfg toU).Transparent :=
  fun _ _ _ _ _ => rfl

/-- **used object = fresh object** for `draw_ontimes` / `generate_times` as coded: unconditional -/
theorem c08_time_code_fresh_vs_used (gen : Nat → Nat → V) (toU : (Nat → V) → Nat → F)
    (st : TState (List (F × F)) Unit) (a : Nat) (win : Option (Option F × Option F)) (size : Nat)
    (h : List (TOp (List (F × F)) (Option F × Option F)))
    (h1 : ∀ op ∈ h, op.setsIvs = false) (h2 : ∀ op ∈ h, op.touches a = false) :
    (tstep gen (ltCfg toU) (trun gen (ltCfg toU) st h).1 (.draw a win size)).2 =
      (tstep gen (ltCfg toU) ⟨st.ivs, none, st.world⟩ (.draw a win size)).2 :=
  c08_time_fresh_vs_used gen (ltCfg toU) (c08_time_code_transparent toU) st a win size h h1 h2

/-- **same seed, same times** for the code-shaped draw, with the times spelled out: after a reseed
with `s` the draw returns the inverse CDF of the first `size` deviates of the stream of `s` -/
theorem c08_time_code_same_seed_same_times (gen : Nat → Nat → V) (toU : (Nat → V) → Nat → F)
    (st : TState (List (F × F)) Unit) (h : List (TOp (List (F × F)) (Option F × Option F))) (a s : Nat)
    (win : Option (Option F × Option F)) (size : Nat) (hh : ∀ op ∈ h, op.setsIvs = false) :
    (tstep gen (ltCfg toU) (trun gen (ltCfg toU) st (h ++ [.reseed a s])).1 (.draw a win size)).2 =
      some (allSome ((List.range size).map (fun k =>
        Livetime.drawWin st.ivs (win.bind (fun p => p.1)) (win.bind (fun p => p.2))
          (toU ((Stream.fresh s).view gen) k)))) :=
  (c08_time_same_seed_same_times gen (ltCfg toU) (c08_time_code_transparent toU) st st rfl h h a s win size hh hh).1

/-- a draw reads `2 · size` words of the service it is given and nothing of any other service -/
theorem c08_time_code_consumption (gen : Nat → Nat → V) (toU : (Nat → V) → Nat → F)
    (st : TState (List (F × F)) Unit) (a : Nat) (win : Option (Option F × Option F)) (size : Nat) :
    (tstep gen (ltCfg toU) st (.draw a win size)).1.world a = (st.world a).adv (2 * size) ∧
      ∀ b, b ≠ a → (tstep gen (ltCfg toU) st (.draw a win size)).1.world b = st.world b := by
  simp only [tstep]
  exact ⟨C08.set_same _ _ _, fun b hb => C08.set_other _ _ _ _ hb⟩

end timeCode


/-! ## the caller's options dict is state: what the signal generator is told does not depend on it -/

section sigKwargs
variable {F : Type} [BEq F] [OfNat F 0]

/-- one call: with the entry overwritten on every call the generator gets the `mean_n_sig` of *this*
call, whatever the dict was used for before -/
theorem c08_sig_mean_is_argument (kw : Option (Option F)) (mean : F) : (sigMean true kw mean).1 = mean := by
  unfold sigMean
  by_cases h : (mean == 0) = true
  · rw [if_pos h]
  · rw [if_neg h]
    cases kw with
    | none => rfl
    | some e => cases e <;> simp

/-- **pseudo data is a function of (seed, arguments)**: along the grid loop of
`create_trial_data_file` / `extend_trial_data_file` with a re-used `sig_kwargs` dict — in any
initial state, also one that already carries a `'mean'` from an unrelated earlier use — every
`do_trials` call generates with the signal strength of its own grid point. -/
theorem c08_sig_kwargs_transparent (kw : Option (Option F)) (grid : List (F × F)) :
    effGrid true kw grid = grid := by
  induction grid generalizing kw with
  | nil => rfl
  | cons g rest ih =>
    simp only [effGrid]
    rw [c08_sig_mean_is_argument, ih]

end sigKwargs

/-- with `setdefault` the statement is false: the first non-zero strength sticks in the dict -/
theorem c08_sig_kwargs_setdefault_counterexample :
    effGrid false (some none) [((1 : Nat), (0 : Nat)), (2, 0), (0, 0), (3, 0)] = [(1, 0), (1, 0), (0, 0), (1, 0)] ∧
    effGrid false (none : Option (Option Nat)) [(1, 0), (2, 0)] = [(1, 0), (2, 0)] := by decide

/-- the source read at check time sets the entry on every call -/
theorem c08_sig_kwargs_for_current_source : Gen.C08.sigKwargsOverwritesMean = true := by decide


/-! ## round 7: `RandomStateService` as an object — the label `seed` describes the generator -/

section rssObject
open RngR7

/-- a constructed service is consistent: an integer label is a valid seed and the generator runs on its
stream from the start; `RandomStateService(None)` is labelled `None` and runs on entropy -/
theorem c08_rss_mk_consistent (hi tag : Nat) (a : SeedArg) (r : RSS) (h : mk hi tag a = .ok r) :
    Consistent hi r ∧ (∀ v, r.seed = some v → r.toStream = some (Stream.fresh v.toNat)) := by
  unfold mk at h
  cases a with
  | none =>
    simp only [intCast, npSeed] at h
    cases h
    exact ⟨⟨tag, 0, rfl⟩, by intro v hv; cases hv⟩
  | bad => simp [intCast] at h
  | int v =>
    simp only [intCast, npSeed] at h
    by_cases hv : 0 ≤ v ∧ v < (hi : Int)
    · rw [if_pos hv] at h
      cases h
      refine ⟨⟨hv.1, hv.2, 0, rfl⟩, ?_⟩
      intro w hw
      cases hw
      rfl
    · rw [if_neg hv] at h
      cases h

/-- what the constructor does with every argument form: `TypeError` iff `int(seed)` fails, `ValueError` iff
the integer is outside `[0, hi)`, else a service labelled with the integer (or `None`) -/
theorem c08_rss_mk_spec (hi tag : Nat) (a : SeedArg) :
    mk hi tag a = match a with
      | .bad => .error .typeError
      | .none => .ok ⟨none, .entropy tag 0⟩
      | .int v => if 0 ≤ v ∧ v < (hi : Int) then .ok ⟨some v, .seeded v.toNat 0⟩ else .error .valueError := by
  cases a with
  | none => rfl
  | bad => rfl
  | int v =>
    simp only [mk, intCast, npSeed]
    by_cases hv : 0 ≤ v ∧ v < (hi : Int)
    · simp only [if_pos hv]
    · simp only [if_neg hv]

/-- **strong exception safety of `reseed`** (repaired order): a `reseed` that raises leaves the service —
label and generator — exactly as it was -/
theorem c08_rss_failed_reseed_no_change (hi tag : Nat) (r : RSS) (a : SeedArg) (e : RErr)
    (h : (reseed true hi tag r a).1 = .error e) : (reseed true hi tag r a).2 = r := by
  unfold reseed at h ⊢
  cases hc : intCast a with
  | error e' => rfl
  | ok sd =>
    rw [hc] at h
    simp only at h ⊢
    cases hs : npSeed hi tag sd with
    | error e' => simp
    | ok g => rw [hs] at h; cases h

/-- a `reseed` that returns gives the object `RandomStateService(seed)` would give: **reseeded = new** -/
theorem c08_rss_reseed_eq_fresh (aa : Bool) (hi tag : Nat) (r : RSS) (a : SeedArg)
    (h : (reseed aa hi tag r a).1 = .ok ()) : mk hi tag a = .ok (reseed aa hi tag r a).2 := by
  unfold reseed at h ⊢
  unfold mk
  cases hc : intCast a with
  | error e' => rw [hc] at h; cases h
  | ok sd =>
    rw [hc] at h
    simp only at h ⊢
    cases hs : npSeed hi tag sd with
    | error e' => rw [hs] at h; cases h
    | ok g => rfl

/-- `reseed` raises exactly when the constructor would, with the same exception -/
theorem c08_rss_reseed_raises_iff (aa : Bool) (hi tag : Nat) (r : RSS) (a : SeedArg) (e : RErr) :
    (reseed aa hi tag r a).1 = .error e ↔ mk hi tag a = .error e := by
  unfold reseed mk
  cases hc : intCast a with
  | error e' => simp
  | ok sd =>
    simp only
    cases hs : npSeed hi tag sd with
    | error e' => simp
    | ok g => simp

theorem C08.consistent_draw (hi : Nat) (r : RSS) (k : Nat) (h : Consistent hi r) : Consistent hi (draw r k) := by
  unfold Consistent at h ⊢
  cases hs : r.seed with
  | none =>
    rw [hs] at h
    obtain ⟨t, p, hg⟩ := h
    simp only [draw, hs]
    exact ⟨t, p + k, by rw [hg]; rfl⟩
  | some v =>
    rw [hs] at h
    obtain ⟨h0, h1, p, hg⟩ := h
    simp only [draw, hs]
    exact ⟨h0, h1, p + k, by rw [hg]; rfl⟩

theorem C08.consistent_reseed (hi tag : Nat) (r : RSS) (a : SeedArg) (h : Consistent hi r) :
    Consistent hi (reseed true hi tag r a).2 := by
  cases ho : (reseed true hi tag r a).1 with
  | error e => rw [c08_rss_failed_reseed_no_change hi tag r a e ho]; exact h
  | ok u =>
    cases u
    exact (c08_rss_mk_consistent hi tag a _ (c08_rss_reseed_eq_fresh true hi tag r a ho)).1

/-- the full statement, for either order of the two assignments in `reseed`: after **every** history of
draws and reseeds — including reseeds that raise, with any argument form — on a consistent service, the
label still describes the generator -/
def c08_rss_label_describes_stream_statement (assignAfter : Bool) : Prop :=
  ∀ (hi tag : Nat) (r : RSS) (ops : List ROp), Consistent hi r → Consistent hi (runOps assignAfter hi tag r ops).2

/-- **the label describes the stream after every history** (repaired order of `reseed`) -/
theorem c08_rss_label_describes_stream : c08_rss_label_describes_stream_statement true := by
  intro hi tag r ops
  induction ops generalizing tag r with
  | nil => intro h; exact h
  | cons op ops ih =>
    intro h
    simp only [runOps]
    apply ih
    cases op with
    | reseed a => exact C08.consistent_reseed hi tag r a h
    | draw k => exact C08.consistent_draw hi r k h

/-- with the pinned order (`self._seed = int_cast(…)` before `self.random.seed(self._seed)`) the statement is
false: `RandomStateService(5)`, then `reseed(-1)` raises `ValueError` and leaves a service labelled `-1` whose
generator still runs on the stream of 5 -/
theorem c08_rss_label_describes_stream_counterexample : ¬ c08_rss_label_describes_stream_statement false := by
  intro h
  have := h 4294967296 0 ⟨some 5, .seeded 5 0⟩ [.reseed (.int (-1))] ⟨by decide, by decide, 0, rfl⟩
  simp [runOps, RngR7.step, reseed, intCast, npSeed, Consistent] at this

/-- **same label, same stream** — two services with arbitrary different pasts (any consistent start, any
histories incl. failing reseeds) that report the same integer seed run on the same numpy stream (possibly at
different positions); after `reseed(s)` returns on both they are the same object state -/
theorem c08_rss_same_label_same_stream (hi t₁ t₂ : Nat) (r₁ r₂ : RSS) (ops₁ ops₂ : List ROp)
    (h₁ : Consistent hi r₁) (h₂ : Consistent hi r₂) (v : Int)
    (e₁ : (runOps true hi t₁ r₁ ops₁).2.seed = some v) (e₂ : (runOps true hi t₂ r₂ ops₂).2.seed = some v) :
    ∃ p₁ p₂, (runOps true hi t₁ r₁ ops₁).2.toStream = some ⟨v.toNat, p₁⟩ ∧
      (runOps true hi t₂ r₂ ops₂).2.toStream = some ⟨v.toNat, p₂⟩ := by
  have c₁ := c08_rss_label_describes_stream hi t₁ r₁ ops₁ h₁
  have c₂ := c08_rss_label_describes_stream hi t₂ r₂ ops₂ h₂
  unfold Consistent at c₁ c₂
  rw [e₁] at c₁
  rw [e₂] at c₂
  obtain ⟨_, _, p₁, g₁⟩ := c₁
  obtain ⟨_, _, p₂, g₂⟩ := c₂
  exact ⟨p₁, p₂, by simp [RSS.toStream, g₁], by simp [RSS.toStream, g₂]⟩

/-- every worker seed `parallelize` draws (`randint(workerSeedLow, workerSeedHigh)` as read from the source)
is accepted by `RandomStateService(seed=…)`: no `ValueError`, the worker is labelled with the drawn word and
starts its stream -/
theorem c08_rss_worker_seed_accepted (tag w : Nat) (hw : w < Gen.C08.workerSeedHigh) :
    mk 4294967296 tag (.int w) = .ok ⟨some w, .seeded w 0⟩ := by
  rw [c08_rss_mk_spec]
  have : Gen.C08.workerSeedHigh ≤ 4294967296 := by decide
  have h : (0 : Int) ≤ (w : Int) ∧ (w : Int) < ((4294967296 : Nat) : Int) := ⟨by omega, by omega⟩
  simp only [if_pos h]
  simp

/-- the source read at check time writes the label after numpy has accepted the seed -/
theorem c08_reseed_for_current_source :
    Gen.C08.reseedAssignsAfterSeeding = true ∧
      c08_rss_label_describes_stream_statement Gen.C08.reseedAssignsAfterSeeding :=
  ⟨by decide, by
    have h : Gen.C08.reseedAssignsAfterSeeding = true := by decide
    rw [h]; exact c08_rss_label_describes_stream⟩

-- non-vacuity: a history with a refused seed, a refused form, `None`, and draws
example : (runOps true 4294967296 0 ⟨some 5, .seeded 5 0⟩
    [.draw 3, .reseed (.int (-1)), .reseed .bad, .draw 2, .reseed (.int 7), .draw 1]).2 = ⟨some 7, .seeded 7 1⟩ := by decide
example : ((runOps true 4294967296 0 ⟨some 5, .seeded 5 0⟩ [.draw 3, .reseed (.int 4294967296)]).1.map (·.2)) =
    [some 5, some 5] := by decide
example : Consistent 4294967296 ⟨some 5, .seeded 5 0⟩ := ⟨by decide, by decide, 0, rfl⟩
example : (runOps true 4294967296 0 ⟨some 5, .seeded 5 0⟩ [.reseed .none, .draw 2]).2 = ⟨none, .entropy 0 2⟩ := by decide

end rssObject


/-! ## round 7: the per-dataset merge of `generate_signal_events` / `generate_pseudo_data` -/

section pseudoData
open RngR7
variable {V D M : Type}

namespace C08

theorem updAt_length {α : Type} (f : α → α) (k : Nat) (l : List α) : (updAt f k l).length = l.length := by
  induction l generalizing k with
  | nil => cases k <;> simp [updAt]
  | cons x xs ih => cases k with
    | zero => simp [updAt]
    | succ k => simp [updAt, ih]

theorem updAt_get {α : Type} (f : α → α) (k i : Nat) (l : List α) :
    (updAt f k l)[i]? = if i = k then l[i]?.map f else l[i]? := by
  induction l generalizing k i with
  | nil => cases k <;> simp [updAt]
  | cons x xs ih =>
    cases k with
    | zero => cases i with
      | zero => simp [updAt]
      | succ i => simp [updAt]
    | succ k => cases i with
      | zero => simp [updAt]
      | succ i => simp [updAt, ih]

theorem updAt_map_some (s : List D) (k : Nat) (l : List (List D)) :
    updAt (mergeEv s) k (l.map some) = (updAt (· ++ s) k l).map some := by
  induction l generalizing k with
  | nil => cases k <;> simp [updAt]
  | cons x xs ih => cases k with
    | zero => simp [updAt, mergeEv]
    | succ k => simp [updAt, ih]

/-- invariant of the injection loop on a state in which every dataset already has events -/
theorem injectAll_spec (es : List (Nat × List D)) (n : List Nat) (eb : List (List D))
    (st : List Nat × List (Option (List D))) (h : injectAll (n, eb.map some) es = some st) :
    ∃ eb' : List (List D), st.2 = eb'.map some ∧ eb'.length = eb.length ∧ st.1.length = n.length ∧
      (∀ i, eb'[i]? = eb[i]?.map (· ++ sigFor i es)) ∧
      (∀ i, st.1[i]? = n[i]?.map (· + (sigFor i es).length)) := by
  induction es generalizing n eb with
  | nil =>
    simp only [injectAll] at h
    cases h
    exact ⟨eb, rfl, rfl, rfl, by intro i; cases eb[i]? <;> simp [sigFor], by intro i; cases n[i]? <;> simp [sigFor]⟩
  | cons e es ih =>
    simp only [injectAll, injectOne] at h
    by_cases hk : e.1 < n.length ∧ e.1 < (eb.map some).length
    · rw [if_pos hk] at h
      simp only [updAt_map_some] at h
      obtain ⟨eb', h1, h2, h3, h4, h5⟩ := ih _ _ h
      refine ⟨eb', h1, by rw [h2, updAt_length], by rw [h3, updAt_length], ?_, ?_⟩
      · intro i
        rw [h4 i, updAt_get]
        by_cases hi : i = e.1
        · subst hi
          simp only [if_pos, sigFor]
          cases eb[e.1]? <;> simp [List.append_assoc]
        · have : ¬ e.1 = i := fun h => hi h.symm
          simp only [if_neg hi, sigFor, if_neg this]
      · intro i
        rw [h5 i, updAt_get]
        by_cases hi : i = e.1
        · subst hi
          simp only [if_pos, sigFor]
          cases n[e.1]? <;> simp [Nat.add_assoc]
        · have : ¬ e.1 = i := fun h => hi h.symm
          simp only [if_neg hi, sigFor, if_neg this]
    · rw [if_neg hk] at h
      cases h

/-- the loop raises only for a dataset index the analysis does not have -/
theorem injectAll_isSome (es : List (Nat × List D)) (st : List Nat × List (Option (List D)))
    (hl : st.1.length = st.2.length) (hk : ∀ e ∈ es, e.1 < st.1.length) : (injectAll st es).isSome = true := by
  induction es generalizing st with
  | nil => rfl
  | cons e es ih =>
    have he := hk e (by simp)
    have hc : e.1 < st.1.length ∧ e.1 < st.2.length := ⟨he, by omega⟩
    simp only [injectAll, injectOne, if_pos hc]
    apply ih
    · simp [updAt_length, hl]
    · intro e' h'
      simp only [updAt_length]
      exact hk e' (by simp [h'])

end C08

/-- `mean_n_sig == 0`: the signal generator is not called, nothing is drawn, the lists come back as given -/
theorem c08_signal_zero_mean_draws_nothing (nds : Nat) (isZero : M → Bool)
    (sigGen : M → (Nat → V) → (Nat × List (Nat × List D)) × Nat) (mean : M) (hz : isZero mean = true)
    (n : List Nat) (ev : List (Option (List D))) (hn : n.length = nds) (he : ev.length = nds) (view : Nat → V) :
    generateSignalEvents nds isZero sigGen mean (some n) (some ev) view = .ok ⟨0, n, ev, 0⟩ := by
  simp [generateSignalEvents, hn, he, hz]

/-- **the background of a trial does not depend on the signal strength, and the two generators read
consecutive, disjoint parts of the stream**: whenever `generate_pseudo_data` returns, every dataset holds
its background events (generated from the stream at the service's position) followed by the signal events of
that dataset in injection order (generated by the signal generator reading from where the background
generator stopped), `n_events_list` counts exactly those, `n_sig` is the signal generator's, and the service
advanced by the words of both -/
theorem c08_pseudo_data_spec (nds : Nat) (isZero : M → Bool) (bkgGen : (Nat → V) → (List Nat × List (List D)) × Nat)
    (sigGen : M → (Nat → V) → (Nat × List (Nat × List D)) × Nat) (mean : M) (view : Nat → V) (o : PseudoOut D)
    (h : generatePseudoData nds isZero bkgGen sigGen mean view = .ok o) :
    let b := bkgGen view
    let sg := if isZero mean then ((0, []), 0) else sigGen mean (fun i => view (b.2 + i))
    o.nSig = sg.1.1 ∧ o.words = b.2 + sg.2 ∧ o.ev.length = b.1.2.length ∧ o.nEv.length = b.1.1.length ∧
      (∀ i, o.ev[i]? = b.1.2[i]?.map (fun bk => some (bk ++ sigFor i sg.1.2))) ∧
      (∀ i, o.nEv[i]? = b.1.1[i]?.map (· + (sigFor i sg.1.2).length)) := by
  intro b sg
  unfold generatePseudoData at h
  simp only at h
  cases hg : generateSignalEvents nds isZero sigGen mean (some (bkgGen view).1.1) (some ((bkgGen view).1.2.map some))
      (fun i => view ((bkgGen view).2 + i)) with
  | error e => rw [hg] at h; cases h
  | ok o' =>
    rw [hg] at h
    cases h
    unfold generateSignalEvents at hg
    simp only at hg
    by_cases hl : (bkgGen view).1.1.length ≠ nds ∨ ((bkgGen view).1.2.map some).length ≠ nds
    · rw [if_pos hl] at hg; cases hg
    · rw [if_neg hl] at hg
      by_cases hz : isZero mean = true
      · rw [if_pos hz] at hg
        cases hg
        have hsg : sg = ((0, []), 0) := by simp [sg, hz]
        rw [hsg]
        refine ⟨rfl, rfl, by simp [b], rfl, ?_, ?_⟩
        · intro i; simp only [b, sigFor, List.append_nil, List.getElem?_map]
        · intro i; simp only [b, sigFor, List.length_nil, Nat.add_zero]
          try (cases (bkgGen view).1.1[i]? <;> rfl)
      · rw [if_neg hz] at hg
        cases hi : injectAll ((bkgGen view).1.1, (bkgGen view).1.2.map some)
            (sigGen mean (fun i => view ((bkgGen view).2 + i))).1.2 with
        | none => rw [hi] at hg; cases hg
        | some st =>
          rw [hi] at hg
          cases hg
          obtain ⟨eb', h1, h2, h3, h4, h5⟩ := C08.injectAll_spec _ _ _ _ hi
          have hz' : isZero mean = false := by cases hb : isZero mean <;> simp_all
          have hsg : sg = sigGen mean (fun i => view (b.2 + i)) := by simp [sg, hz']
          rw [hsg]
          refine ⟨rfl, rfl, by simp [h1, h2, b], h3, ?_, ?_⟩
          · intro i
            simp only [h1, List.getElem?_map, h4 i]
            cases (bkgGen view).1.2[i]? <;> rfl
          · intro i; exact h5 i

/-- `generate_pseudo_data` raises nothing when the generators keep to the analysis' datasets: background for
`nds` datasets, signal only for dataset indices below `nds` -/
theorem c08_pseudo_data_no_error (nds : Nat) (isZero : M → Bool) (bkgGen : (Nat → V) → (List Nat × List (List D)) × Nat)
    (sigGen : M → (Nat → V) → (Nat × List (Nat × List D)) × Nat) (mean : M) (view : Nat → V)
    (hb : (bkgGen view).1.1.length = nds ∧ (bkgGen view).1.2.length = nds)
    (hs : ∀ v, ∀ e ∈ (sigGen mean v).1.2, e.1 < nds) :
    ∃ o, generatePseudoData nds isZero bkgGen sigGen mean view = .ok o := by
  unfold generatePseudoData generateSignalEvents
  simp only
  have hl : ¬ ((bkgGen view).1.1.length ≠ nds ∨ ((bkgGen view).1.2.map some).length ≠ nds) := by simp [hb.1, hb.2]
  rw [if_neg hl]
  by_cases hz : isZero mean = true
  · rw [if_pos hz]; exact ⟨_, rfl⟩
  · rw [if_neg hz]
    have := C08.injectAll_isSome (sigGen mean (fun i => view ((bkgGen view).2 + i))).1.2
      ((bkgGen view).1.1, (bkgGen view).1.2.map some) (by simp [hb.1, hb.2])
      (by intro e he; simp only [hb.1]; exact hs _ e he)
    cases hi : injectAll ((bkgGen view).1.1, (bkgGen view).1.2.map some)
        (sigGen mean (fun i => view ((bkgGen view).2 + i))).1.2 with
    | none => rw [hi] at this; cases this
    | some st => exact ⟨_, rfl⟩

-- non-vacuity: three datasets, signal for datasets 2 and 0 (in that order), background reads 4 words
example : (match generatePseudoData (V := Nat) (D := Nat) (M := Nat) 3 (· == 0)
      (fun v => (([1, 1, 2], [[v 0], [v 1], [v 2, v 3]]), 4)) (fun m v => ((m, [(2, [v 0]), (0, [v 1, v 2])]), 3)) 3 id with
    | .ok o => (o.nSig, o.nEv, o.ev, o.words)
    | .error _ => (0, [], [], 0)) = (3, [3, 1, 3], [some [0, 5, 6], some [1], some [2, 3, 4]], 7) := by decide
example : (match generatePseudoData (V := Nat) (D := Nat) (M := Nat) 2 (· == 0)
      (fun v => (([1, 1], [[v 0], [v 1]]), 2)) (fun m _ => ((m, [(5, [])]), 0)) 1 id with
    | .ok _ => none
    | .error e => some e) = some .indexError := by decide

end pseudoData

/-! ## round 7: the public `random` setter -/

section rssSetter
open RngR7
/-- the `random` setter never touches the label; a refused object (`TypeError`) changes nothing -/
theorem c08_rss_setter_keeps_label (r : RSS) (g : Option GenSt) :
    (setRandom r g).2.seed = r.seed ∧ (∀ e, (setRandom r g).1 = .error e → (setRandom r g).2 = r) := by
  cases g with
  | none => exact ⟨rfl, fun _ _ => rfl⟩
  | some g => exact ⟨rfl, fun e h => by simp [setRandom] at h⟩

/-- why the history theorems exclude the public setter: assigning a generator of another seed leaves a label
that does not describe the stream (by design of the class; named assumption of `c08_rss_label_describes_stream`) -/
theorem c08_rss_setter_breaks_label_counterexample :
    ∃ (r : RSS) (g : GenSt), Consistent 4294967296 r ∧ ¬ Consistent 4294967296 (setRandom r (some g)).2 :=
  ⟨⟨some 5, .seeded 5 0⟩, .seeded 7 0, ⟨by decide, by decide, 0, rfl⟩, by simp [setRandom, Consistent]⟩

/-- **a `reseed` that returns repairs everything**: after ANY history — also one that assigned foreign
generators through the setter, from any (even inconsistent) state — the label describes the stream again -/
theorem c08_rss_reseed_restores_label (hi t tag : Nat) (r : RSS) (ops : List ROpX) (a : SeedArg)
    (h : (reseed true hi tag (runOpsX true hi t r ops).2 a).1 = .ok ()) :
    Consistent hi (reseed true hi tag (runOpsX true hi t r ops).2 a).2 :=
  (c08_rss_mk_consistent hi tag a _ (c08_rss_reseed_eq_fresh true hi tag _ a h)).1

example : (runOpsX true 4294967296 0 ⟨some 5, .seeded 5 0⟩
    [.op (.draw 3), .setRandom (some (.seeded 9 4)), .setRandom none, .op (.draw 1)]).2 = ⟨some 5, .seeded 9 5⟩ := by decide
end rssSetter
