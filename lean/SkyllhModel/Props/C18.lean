/-
  Property C18 — signal injection conserves counts and produces only valid, relocated events.

  Theorems about `Model/SigGen.lean` (which mirrors skyllh's signal generators, after the fix of the
  negative per-dataset count).  Counting theorems hold for every scalar type; the ones that need
  arithmetic are over an arbitrary ordered field `K` (hence ℚ and ℝ); relocation is over ℝ.
  IEEE doubles enter only through the correspondence check.
-/
import SkyllhModel.Model.SigGen
import SkyllhModel.Model.SigGenR7
import SkyllhModel.Generated.C18
import SkyllhModel.Proofs.SigGen
import SkyllhModel.Proofs.RealScalar
import Mathlib.Analysis.SpecialFunctions.Complex.Arg
import Mathlib.Data.Rat.Floor
import Mathlib.Tactic

open SigGen

/-! ## 1. weighted choice -/

section field
variable {K : Type} [Field K] [LinearOrder K] [IsStrictOrderedRing K]

/-- **no draw of zero weight** (`RandomState.choice(p=…)`, `RandomChoice`): for non-negative weights with
positive sum and a uniform deviate in `[0,1)` the chosen index exists and its weight is positive — a dataset,
source or MC event of zero weight is never selected. -/
theorem c18_choice_valid (p : List K) (u : K) (hnn : ∀ x ∈ p, 0 ≤ x) (hs : 0 < p.sum)
    (hu0 : 0 ≤ u) (hu1 : u < 1) :
    ∃ x, p[choice true p u]? = some x ∧ 0 < x :=
  C18.choice_valid p u hnn hs hu0 hu1

/-- the same for the search side the current source uses (generated constant) -/
theorem c18_choice_valid_for_current_source (p : List K) (u : K) (hnn : ∀ x ∈ p, 0 ≤ x) (hs : 0 < p.sum)
    (hu0 : 0 ≤ u) (hu1 : u < 1) :
    ∃ x, p[choice Gen.C18.choiceSideRight p u]? = some x ∧ 0 < x := by
  have h : Gen.C18.choiceSideRight = true := by decide
  rw [h]; exact C18.choice_valid p u hnn hs hu0 hu1

end field

/-- with `side='left'` the claim is false: weights (0, 1) and the deviate 0 select the item of weight 0 -/
theorem c18_choice_left_counterexample :
    ¬ ∀ (p : List ℚ) (u : ℚ), (∀ x ∈ p, 0 ≤ x) → 0 < p.sum → 0 ≤ u → u < 1 →
        ∃ x, p[choice false p u]? = some x ∧ 0 < x := by
  intro h
  obtain ⟨x, hx, hpos⟩ := h [0, 1] 0 (by simp) (by simp) le_rfl one_pos
  have e : choice false ([0, 1] : List ℚ) 0 = 0 := by decide +kernel
  rw [e] at hx
  simp only [List.getElem?_cons_zero, Option.some.injEq] at hx
  subst hx
  exact lt_irrefl _ hpos

/-! ## 2. per-dataset event numbers -/

section generic
variable {F : Type} [Add F] [Mul F] [Div F] [LE F] [DecidableLE F] [LT F] [DecidableLT F] [OfNat F 0]

/-- **the per-dataset numbers add up to the requested total** — for every scalar type (doubles included),
rounding function, weight vector, total and deviates; one number per dataset; no more deviates consumed than
supplied. -/
theorem c18_sum_eq_mean (right : Bool) (rnd : F → Int) (mean : Int) (m : F) (w us : List F)
    (n : List Int) (k : Nat) (h : distribute right rnd mean m w us = some (n, k)) :
    n.sum = mean ∧ n.length = w.length ∧ k ≤ us.length :=
  C18.distributeWith_sum _ (fun us n n' => C18.decr_sum right w us n n') right rnd mean m w us n k h

/-- the code before the fix also met the total (its defect was the sign of single entries) -/
theorem c18_sum_eq_mean_orig (right : Bool) (rnd : F → Int) (mean : Int) (m : F) (w us : List F)
    (n : List Int) (k : Nat) (h : distributeOrig right rnd mean m w us = some (n, k)) :
    n.sum = mean ∧ n.length = w.length ∧ k ≤ us.length :=
  C18.distributeWith_sum _ (fun us n n' => C18.decrOrig_sum right w us n n') right rnd mean m w us n k h

end generic

section field
variable {K : Type} [Field K] [LinearOrder K] [IsStrictOrderedRing K]

/-- **no error under the guard**: non-negative weights with positive sum, deviates in `[0,1)`, a rounding
function that maps 0 to 0 and non-negative numbers to non-negative integers, enough deviates — the
distribution is defined (no IndexError, no division by a zero weight sum). -/
theorem c18_distribute_no_error (rnd : K → Int) (hr : C18.RoundOK rnd) (mean : Int) (hmean : 0 ≤ mean)
    (m : K) (hm : 0 ≤ m) (w us : List K) (hnn : ∀ x ∈ w, 0 ≤ x) (hs : 0 < w.sum)
    (hu : ∀ u ∈ us, 0 ≤ u ∧ u < 1)
    (hk : (mean - (roundCounts rnd m w).sum).natAbs ≤ us.length) :
    ∃ n k, distribute true rnd mean m w us = some (n, k) := by
  obtain ⟨n, k, h, _⟩ := C18.distribute_ok rnd hr mean hmean m hm w us hnn hs hu hk
  exact ⟨n, k, h⟩

/-- **per-dataset numbers are non-negative** (code after the fix) -/
theorem c18_nonneg (rnd : K → Int) (hr : C18.RoundOK rnd) (mean : Int) (hmean : 0 ≤ mean)
    (m : K) (hm : 0 ≤ m) (w us : List K) (hnn : ∀ x ∈ w, 0 ≤ x) (hs : 0 < w.sum)
    (hu : ∀ u ∈ us, 0 ≤ u ∧ u < 1)
    (hk : (mean - (roundCounts rnd m w).sum).natAbs ≤ us.length)
    (n : List Int) (k : Nat) (h : distribute true rnd mean m w us = some (n, k)) :
    ∀ x ∈ n, 0 ≤ x := by
  obtain ⟨n', k', h', hI⟩ := C18.distribute_ok rnd hr mean hmean m hm w us hnn hs hu hk
  rw [h] at h'
  simp only [Option.some.injEq, Prod.mk.injEq] at h'
  obtain ⟨rfl, rfl⟩ := h'
  intro x hx
  obtain ⟨i, hi, rfl⟩ := List.getElem_of_mem hx
  exact (hI.2 i hi (by rw [← hI.1]; exact hi)).1

/-- **a dataset of zero weight receives no event** -/
theorem c18_zero_weight_none (rnd : K → Int) (hr : C18.RoundOK rnd) (mean : Int) (hmean : 0 ≤ mean)
    (m : K) (hm : 0 ≤ m) (w us : List K) (hnn : ∀ x ∈ w, 0 ≤ x) (hs : 0 < w.sum)
    (hu : ∀ u ∈ us, 0 ≤ u ∧ u < 1)
    (hk : (mean - (roundCounts rnd m w).sum).natAbs ≤ us.length)
    (n : List Int) (k : Nat) (h : distribute true rnd mean m w us = some (n, k))
    (i : Nat) (hi : w[i]? = some 0) : n[i]? = some 0 := by
  obtain ⟨n', k', h', hI⟩ := C18.distribute_ok rnd hr mean hmean m hm w us hnn hs hu hk
  rw [h] at h'
  simp only [Option.some.injEq, Prod.mk.injEq] at h'
  obtain ⟨rfl, rfl⟩ := h'
  obtain ⟨hiw, hwe⟩ := List.getElem?_eq_some_iff.mp hi
  have hin : i < n.length := by rw [hI.1]; exact hiw
  rw [List.getElem?_eq_getElem hin, (hI.2 i hin hiw).2 hwe]

end field

/-- round-half-to-even on ℚ is an admissible rounding function -/
theorem c18_rintQ_ok : C18.RoundOK rintQ := by
  constructor
  · decide +kernel
  · intro x hx
    have hf : 0 ≤ x.floor := Rat.le_floor_iff.mpr (by simpa using hx)
    unfold rintQ
    simp only
    split_ifs <;> omega

/-- the claim "per-dataset numbers are non-negative" for the code *before* the fix -/
def c18_nonneg_orig_statement : Prop :=
  ∀ (mean : Int) (w us : List ℚ) (n : List Int) (k : Nat), 0 ≤ mean → (∀ x ∈ w, 0 ≤ x) → 0 < w.sum →
    (∀ u ∈ us, 0 ≤ u ∧ u < 1) → distributeOrig true rintQ mean (mean : ℚ) w us = some (n, k) →
    ∀ x ∈ n, 0 ≤ x

/-- **the defect**: weights (0.3, 0.3, 0.3, 0.1), total 5: rounding gives (2, 2, 2, 0), the surplus event is
taken from the dataset drawn by the deviate 0.95 — the empty one: (2, 2, 2, −1). -/
theorem c18_nonneg_orig_counterexample : ¬ c18_nonneg_orig_statement := by
  intro h
  have e : distributeOrig true rintQ 5 ((5 : Int) : ℚ) [3/10, 3/10, 3/10, 1/10] [19/20]
      = some ([2, 2, 2, -1], 1) := by decide +kernel
  have := h 5 [3/10, 3/10, 3/10, 1/10] [19/20] [2, 2, 2, -1] 1 (by norm_num)
    (by intro x hx; simp only [List.mem_cons, List.not_mem_nil, or_false] at hx; rcases hx with rfl | rfl | rfl | rfl <;> norm_num)
    (by norm_num) (by intro u hu; simp only [List.mem_cons, List.not_mem_nil, or_false] at hu; subst hu; norm_num)
    e (-1) (by simp)
  omega

/-- on the same input the fixed code takes the surplus event from a dataset that has one -/
example : distribute true rintQ 5 ((5 : Int) : ℚ) [3/10, 3/10, 3/10, 1/10] [19/20] = some ([2, 2, 1, 0], 1) := by
  decide +kernel

/-! ### aggregation over the per-dataset generators, validity mask -/

/-- **aggregation over the per-dataset generators** (`n_signal += ds_n_signal`, dictionaries merged by key), code
after the fix: if every generator returns as many events as requested, the reported number is the sum of the
requested numbers and equals the number of events in the merged dictionary. -/
theorem c18_multi_count_conserved (counts : List Int) (gens : List DsGen)
    (hsub : ∀ g ∈ gens, ∀ c r, g c = some r → (r.1 : Int) = c ∧ (r.2.map (·.2)).sum = r.1)
    (n : Nat) (d : List (Nat × Nat)) (h : aggregate counts gens = some (n, d)) :
    (n : Int) = counts.sum ∧ (d.map (·.2)).sum = n := by
  unfold aggregate at h
  split_ifs at h with hl
  push Not at hl
  obtain ⟨a1, a2⟩ := C18.aggLoop_spec counts gens 0 [] n d hl hsub h
  simp only [Nat.cast_zero, zero_add, List.map_nil, List.sum_nil] at a1 a2
  exact ⟨a1, by omega⟩

/-- the claim without the length check (code before the fix) -/
def c18_multi_count_orig_statement : Prop :=
  ∀ (counts : List Int) (gens : List DsGen),
    (∀ g ∈ gens, ∀ c r, g c = some r → (r.1 : Int) = c ∧ (r.2.map (·.2)).sum = r.1) →
    ∀ n d, aggregateOrig counts gens = some (n, d) → (n : Int) = counts.sum

/-- **the defect**: 3 datasets with 3 events each, 2 generators: 6 events reported for 9 requested, no error -/
theorem c18_multi_count_orig_counterexample : ¬ c18_multi_count_orig_statement := by
  intro h
  let g : Nat → DsGen := fun j c => if 0 ≤ c then some (c.toNat, [(j, c.toNat)]) else none
  have hg : ∀ j c r, g j c = some r → (r.1 : Int) = c ∧ (r.2.map (·.2)).sum = r.1 := by
    intro j c r hr
    simp only [g] at hr
    split_ifs at hr with hc
    simp only [Option.some.injEq] at hr
    subst hr
    simp only [List.map_cons, List.map_nil, List.sum_cons, List.sum_nil, Nat.add_zero, and_true]
    omega
  have := h [3, 3, 3] [g 0, g 1] (by
    intro g' hg' c r hr
    simp only [List.mem_cons, List.not_mem_nil, or_false] at hg'
    rcases hg' with rfl | rfl
    · exact hg 0 c r hr
    · exact hg 1 c r hr) 6 [(0, 3), (1, 3)] (by decide)
  norm_num at this

example : aggregate [3, 3, 3] [fun c => some (c.toNat, [(0, c.toNat)]), fun c => some (c.toNat, [(1, c.toNat)])] = none := by
  decide
example : aggregate [2, 0, 1] [fun c => some (c.toNat, [(0, c.toNat)]), fun c => some (c.toNat, [(1, c.toNat)]),
    fun c => some (c.toNat, [(0, c.toNat)])] = some (3, [(0, 3), (1, 0)]) := by decide

/-! validity mask -/
theorem c18_valid_iff {K : Type} [LinearOrder K] (rs : List (K × K × K)) :
    invalidMask rs = false ↔ ∀ r ∈ rs, r.2.1 ≤ r.1 ∧ r.1 ≤ r.2.2 := by
  unfold invalidMask
  rw [List.any_eq_false]
  constructor
  · intro h r hr
    have := h r hr
    simp only [Bool.or_eq_true, decide_eq_true_eq, not_or, not_lt] at this
    exact this
  · intro h r hr
    simp only [Bool.or_eq_true, decide_eq_true_eq, not_or, not_lt]
    exact h r hr


/-! ### the caller's keyword dictionary reused across calls -/

/-- **every call injects the total requested in *that* call, whatever was requested before with the same
`sig_kwargs` dictionary** (and whatever `mean` the dictionary carried initially): the mean handed to the signal
generator in call `i` of a history sharing one dictionary is `mean_n_sig` of call `i`; a call with
`mean_n_sig = 0` does not reach the generator. -/
theorem c18_kwargs_history (kw : Option Int) (reqs : List Int) :
    kwHistory kwCall kw reqs = reqs.map (fun r => if r = 0 then none else some r) := by
  induction reqs generalizing kw with
  | nil => rfl
  | cons r rs ih =>
    simp only [kwHistory, List.map_cons, ih]
    congr 1
    unfold kwCall
    split_ifs <;> rfl

/-- the claim for a dictionary update that keeps an existing key -/
def c18_kwargs_history_setdefault_statement : Prop :=
  ∀ (kw : Option Int) (reqs : List Int),
    kwHistory kwCallSetdefault kw reqs = reqs.map (fun r => if r = 0 then none else some r)

/-- with `setdefault` the second call of a scan (2, then 5 events) injects the total of the first -/
theorem c18_kwargs_history_setdefault_counterexample : ¬ c18_kwargs_history_setdefault_statement := by
  intro h
  have := h none [2, 5]
  revert this
  decide

example : kwHistory kwCall (some 9) [3, 0, 7, 7, 1] = [some 3, none, some 7, some 7, some 1] := by decide

/-! ### the cached candidate table across `change_shg_mgr` and in-place modifications of the manager -/

/-- **refinement**: for every history of `generate_signal_events` / `mu2flux` / `change_shg_mgr` calls and in-place
modifications of manager objects, each call works with the candidates of the manager — *object and content* —
that was in force at the last `change_shg_mgr` (no stale table, weight sum or CDF; handing over the object the
generator already holds rebuilds, too). -/
theorem c18_cache_fresh (ops : List GenOp) (s : GenSt) :
    genRun genStep s ops = genSpec s.ver s.cached ops := by
  induction ops generalizing s with
  | nil => rfl
  | cons op ops ih =>
    cases op with
    | use => simp only [genRun, genSpec, genStep]; rw [ih s]
    | changeMgr m => simp only [genRun, genSpec, genStep]; rw [ih]
    | mutate m => simp only [genRun, genSpec, genStep]; rw [ih]

/-- right after `change_shg_mgr(m)` the cache is the current content of `m` -/
theorem c18_cache_invariant (s : GenSt) (m : Nat) :
    (genStep s (.changeMgr m)).1.cached = (m, (genStep s (.changeMgr m)).1.ver m) ∧
    (genStep s (.changeMgr m)).1.mgr = m := by
  simp [genStep]

def c18_cache_fresh_stale_statement : Prop :=
  ∀ (ops : List GenOp) (s : GenSt), genRun genStepStale s ops = genSpec s.ver s.cached ops

theorem c18_cache_fresh_stale_counterexample : ¬ c18_cache_fresh_stale_statement := by
  intro h
  have := h [.changeMgr 1, .use] ⟨0, fun _ => 0, (0, 0)⟩
  revert this
  decide

/-- the claim for a `change_shg_mgr` that skips the rebuild when handed the object it already holds -/
def c18_cache_fresh_same_object_statement : Prop :=
  ∀ (ops : List GenOp) (s : GenSt), genRun genStepSameObj s ops = genSpec s.ver s.cached ops

/-- **the two statements of `change_source`**: replace a source inside the manager, hand the same manager over
again — with the identity short-cut the next injection still uses the candidates of the old source -/
theorem c18_cache_fresh_same_object_counterexample : ¬ c18_cache_fresh_same_object_statement := by
  intro h
  have := h [.mutate 0, .changeMgr 0, .use] ⟨0, fun _ => 0, (0, 0)⟩
  revert this
  decide

example : genRun genStep ⟨0, fun _ => 0, (0, 0)⟩ [.use, .mutate 0, .use, .changeMgr 0, .use, .changeMgr 1, .mutate 1, .use]
    = [(0, 0), (0, 0), (0, 0), (0, 1), (0, 1), (1, 0), (1, 0), (1, 0)] := by decide

/-! ### merging the signal into the events handed in (`Analysis.generate_signal_events`) -/

namespace C18

theorem mergeSig_length : ∀ (sig : List (Nat × Nat)) (st st' : List (Nat × Option Nat)),
    mergeSig st sig = some st' → st'.length = st.length
  | [], st, st', h => by simp only [mergeSig, Option.some.injEq] at h; subst h; rfl
  | (d, k) :: rest, st, st', h => by
    simp only [mergeSig] at h
    split at h
    · exact absurd h (by simp)
    · rw [mergeSig_length rest _ st' h, List.length_set]

theorem sum_set_counts (st : List (Nat × Option Nat)) (d : Nat) (e : Nat × Option Nat) (k : Nat)
    (h : st[d]? = some e) : ((st.set d (mergeOne e k)).map (·.1)).sum = (st.map (·.1)).sum + k := by
  induction st generalizing d with
  | nil => simp at h
  | cons x xs ih =>
    cases d with
    | zero =>
      simp only [List.getElem?_cons_zero, Option.some.injEq] at h
      subst h
      simp only [List.set_cons_zero, List.map_cons, List.sum_cons, mergeOne]; omega
    | succ d =>
      simp only [List.getElem?_cons_succ] at h
      simp only [List.set_cons_succ, List.map_cons, List.sum_cons, ih d h]; omega

/-- total length of the event arrays (`None` = no array = 0 events) -/
def lenSum (st : List (Nat × Option Nat)) : Nat := (st.map (fun e => e.2.getD 0)).sum

theorem sum_set_lens (st : List (Nat × Option Nat)) (d : Nat) (e : Nat × Option Nat) (k : Nat)
    (h : st[d]? = some e) : lenSum (st.set d (mergeOne e k)) = lenSum st + k := by
  unfold lenSum
  induction st generalizing d with
  | nil => simp at h
  | cons x xs ih =>
    cases d with
    | zero =>
      simp only [List.getElem?_cons_zero, Option.some.injEq] at h
      subst h
      simp only [List.set_cons_zero, List.map_cons, List.sum_cons, mergeOne]
      cases x.2 <;> simp <;> omega
    | succ d =>
      simp only [List.getElem?_cons_succ] at h
      simp only [List.set_cons_succ, List.map_cons, List.sum_cons, ih d h]; omega

end C18

/-- **merging conserves the counts for every bookkeeping handed in** — also when a handed-in count differs from
the length of the handed-in array (pre-selected background): the per-dataset counts grow in total by exactly the
number of signal events, and so do the event arrays; no dataset entry is lost. -/
theorem c18_analysis_merge (st st' : List (Nat × Option Nat)) (sig : List (Nat × Nat))
    (h : mergeSig st sig = some st') :
    st'.length = st.length ∧
    (st'.map (·.1)).sum = (st.map (·.1)).sum + (sig.map (·.2)).sum ∧
    C18.lenSum st' = C18.lenSum st + (sig.map (·.2)).sum := by
  refine ⟨C18.mergeSig_length sig st st' h, ?_⟩
  induction sig generalizing st with
  | nil => simp only [mergeSig, Option.some.injEq] at h; subst h; simp
  | cons dk rest ih =>
    obtain ⟨d, k⟩ := dk
    simp only [mergeSig] at h
    split at h
    · exact absurd h (by simp)
    · rename_i e he
      obtain ⟨a1, a2⟩ := ih _ h
      rw [a1, a2, C18.sum_set_counts st d e k he, C18.sum_set_lens st d e k he]
      simp only [List.map_cons, List.sum_cons]
      constructor <;> omega

/-- recomputing the count from the array length loses the pre-selected background: handed in (5 events counted,
3 in the array), 2 signal events: the code-shaped merge gives 7, the length-based one 5 -/
theorem c18_analysis_merge_len_counterexample :
    (mergeOne (5, some 3) 2).1 = 5 + 2 ∧ (mergeOneLen (5, some 3) 2).1 ≠ 5 + 2 := by decide

example : mergeSig [(5, some 3), (0, none), (4, some 4)] [(0, 2), (2, 1), (1, 3)]
    = some [(7, some 5), (3, some 3), (5, some 5)] := by decide

/-! ## 3. declination bands and candidate table -/

section field
variable {K : Type} [Field K] [LinearOrder K] [IsStrictOrderedRing K]

/-- **the band stays inside the MC coverage**: linear shift, source inside `[L, U]`, band not wider than the
coverage -/
theorem c18_band_within_coverage (x w L U : K) (hLU : L < U) (hxL : L ≤ x) (hxU : x ≤ U)
    (hww : 2 * w ≤ U - L) :
    L ≤ (band x w L U).1 ∧ (band x w L U).2 ≤ U := by
  have hd : 0 < U - L := sub_pos.mpr hLU
  have hdn : U - L ≠ 0 := ne_of_gt hd
  unfold band shiftLinear
  simp only
  constructor
  · have e : x + (-2 * w / (U - L) * x + w * (L + U) / (U - L)) - w - L
        = (x - L) * (U - L - 2 * w) / (U - L) := by field_simp; ring
    have : 0 ≤ (x - L) * (U - L - 2 * w) / (U - L) :=
      div_nonneg (mul_nonneg (sub_nonneg.mpr hxL) (by linarith)) (le_of_lt hd)
    linarith
  · have e : U - (x + (-2 * w / (U - L) * x + w * (L + U) / (U - L)) + w)
        = (U - x) * (U - L - 2 * w) / (U - L) := by field_simp; ring
    have : 0 ≤ (U - x) * (U - L - 2 * w) / (U - L) :=
      div_nonneg (mul_nonneg (sub_nonneg.mpr hxU) (by linarith)) (le_of_lt hd)
    linarith

/-- the (shifted) band still contains the source, and it is `2 w` wide -/
theorem c18_source_in_band (x w L U : K) (hLU : L < U) (hxL : L ≤ x) (hxU : x ≤ U) (hw : 0 ≤ w) :
    (band x w L U).1 ≤ x ∧ x ≤ (band x w L U).2 ∧ (band x w L U).2 - (band x w L U).1 = 2 * w := by
  have hd : 0 < U - L := sub_pos.mpr hLU
  have hdn : U - L ≠ 0 := ne_of_gt hd
  unfold band shiftLinear
  simp only
  refine ⟨?_, ?_, by ring⟩
  · have e : x - (x + (-2 * w / (U - L) * x + w * (L + U) / (U - L)) - w)
        = 2 * w * (x - L) / (U - L) := by field_simp; ring
    have : 0 ≤ 2 * w * (x - L) / (U - L) :=
      div_nonneg (mul_nonneg (by linarith) (sub_nonneg.mpr hxL)) (le_of_lt hd)
    linarith
  · have e : (x + (-2 * w / (U - L) * x + w * (L + U) / (U - L)) + w) - x
        = 2 * w * (U - x) / (U - L) := by field_simp; ring
    have : 0 ≤ 2 * w * (U - x) / (U - L) :=
      div_nonneg (mul_nonneg (by linarith) (sub_nonneg.mpr hxU)) (le_of_lt hd)
    linarith

/-- `weight /= sum(weight)`: the normalised candidate weights add up to one -/
theorem c18_weights_normalised (ws : List K) (h : (normalise ws).1 ≠ 0) :
    (normalise ws).1 = ws.sum ∧ (normalise ws).2.sum = 1 := by
  unfold normalise at h ⊢
  simp only at h ⊢
  rw [C18.sumSeq_eq] at h ⊢
  exact ⟨rfl, by rw [C18.sum_map_div, div_self h]⟩

end field

section order
variable {K : Type} [LinearOrder K]

/-- `(np.min, np.max)`: bounds of all values -/
theorem c18_minmax_bounds (xs : List K) (L U : K) (h : minMax xs = some (L, U)) :
    ∀ x ∈ xs, L ≤ x ∧ x ≤ U := by
  cases xs with
  | nil => simp [minMax] at h
  | cons a as =>
    simp only [minMax, Option.some.injEq, Prod.mk.injEq] at h
    obtain ⟨rfl, rfl⟩ := h
    have hmin : ∀ (ys : List K) (b : K), ys.foldl (fun a y => if y ≤ a then y else a) b ≤ b ∧
        ∀ y ∈ ys, ys.foldl (fun a y => if y ≤ a then y else a) b ≤ y := by
      intro ys
      induction ys with
      | nil => intro b; simp
      | cons y ys ih =>
        intro b
        simp only [List.foldl_cons, List.mem_cons]
        obtain ⟨h1, h2⟩ := ih (if y ≤ b then y else b)
        have hb : (if y ≤ b then y else b) ≤ b := by split_ifs with hc; exact hc; exact le_rfl
        have hy : (if y ≤ b then y else b) ≤ y := by
          split_ifs with hc; exact le_rfl; exact le_of_lt (not_le.mp hc)
        refine ⟨le_trans h1 hb, ?_⟩
        rintro z (rfl | hz)
        · exact le_trans h1 hy
        · exact h2 z hz
    have hmax : ∀ (ys : List K) (b : K), b ≤ ys.foldl (fun a y => if a ≤ y then y else a) b ∧
        ∀ y ∈ ys, y ≤ ys.foldl (fun a y => if a ≤ y then y else a) b := by
      intro ys
      induction ys with
      | nil => intro b; simp
      | cons y ys ih =>
        intro b
        simp only [List.foldl_cons, List.mem_cons]
        obtain ⟨h1, h2⟩ := ih (if b ≤ y then y else b)
        have hb : b ≤ (if b ≤ y then y else b) := by split_ifs with hc; exact hc; exact le_rfl
        have hy : y ≤ (if b ≤ y then y else b) := by
          split_ifs with hc; exact le_rfl; exact le_of_lt (not_le.mp hc)
        refine ⟨le_trans hb h1, ?_⟩
        rintro z (rfl | hz)
        · exact le_trans hy h1
        · exact h2 z hz
    intro x hx
    rcases List.mem_cons.mp hx with rfl | hx
    · exact ⟨(hmin as x).1, (hmax as x).1⟩
    · exact ⟨(hmin as a).2 x hx, (hmax as a).2 x hx⟩

end order

section table
set_option linter.unusedSectionVars false
variable {F : Type} [Add F] [Sub F] [Mul F] [Div F] [Neg F] [OfNat F 0] [OfNat F 2]
  [LE F] [DecidableLE F] [Transc F]

/-- **the candidate table of a group and dataset holds exactly the MC events inside the band of one of the
group's sources and inside the energy range** — closed band `min ≤ s ≤ max`, closed energy range, spelled out
with `≤` (a model with a strict comparison does not satisfy this) — tagged with the right dataset, group, source
and event index. -/
theorem c18_candidates_in_band (g j : Nat) (G : Grp F) (evs : List (Ev F)) (lt fac : F)
    (tab : List (Cand × F)) (h : groupCands g j G evs lt fac = some tab) :
    ∃ L U, minMax (evs.map (·.s)) = some (L, U) ∧ ∀ c : Cand, (∃ wt, (c, wt) ∈ tab) ↔
      (c.ds = j ∧ c.shg = g ∧ ∃ src e, G.srcs[c.src]? = some src ∧ evs[c.ev]? = some e ∧
        (band src.1 G.hbw L U).1 ≤ e.s ∧ e.s ≤ (band src.1 G.hbw L U).2 ∧
        (∀ lo hi, G.er = some (lo, hi) → lo ≤ e.e ∧ e.e ≤ hi)) := by
  have hcopy := h
  unfold groupCands at h
  split at h
  · exact absurd h (by simp)
  · rename_i L U hmm
    simp only [Option.some.injEq] at h
    refine ⟨L, U, hmm, ?_⟩
    intro c
    constructor
    · rintro ⟨wt, hmem⟩
      obtain ⟨L', U', src, e, hmm', h1, h2, h3, h4, h5, h6, h7, _⟩ :=
        C18.groupCands_mem g j G evs lt fac tab hcopy (c, wt) hmem
      rw [hmm] at hmm'
      simp only [Option.some.injEq, Prod.mk.injEq] at hmm'
      obtain ⟨rfl, rfl⟩ := hmm'
      exact ⟨h1, h2, src, e, h3, h4, h5, h6, h7⟩
    · rintro ⟨rfl, rfl, src, e, hs, he, hb1, hb2, hE⟩
      subst h
      refine ⟨candWeight e.mcw e.f G.unit (omega (band src.1 G.hbw L U)) src.2 lt fac, ?_⟩
      simp only [List.mem_flatMap, List.mem_map, List.mem_filter, Bool.and_eq_true, Prod.mk.injEq]
      refine ⟨(src, c.src), ?_, (e, c.ev), ⟨?_, (C18.inBand_iff _ _).mpr ⟨hb1, hb2⟩, (C18.inE_iff _ _).mpr hE⟩, ?_, rfl⟩
      · rw [List.mem_zipIdx_iff_getElem?]; exact hs
      · rw [List.mem_zipIdx_iff_getElem?]; exact he
      · cases c; rfl

/-- **every row of the full candidate table comes from the candidate selection of its own group and dataset**
(`itertools.product(enumerate(shg_list), enumerate(data_list))`), so `c18_candidates_in_band` applies to it. -/
theorem c18_table_sound (grps : List (Grp F)) (nDs : Nat) (evs : Nat → Nat → List (Ev F)) (lt : Nat → F) (fac : F)
    (tab : List (Cand × F)) (h : tableRaw grps nDs evs lt fac = some tab) :
    ∀ cw ∈ tab, ∃ G t, grps[cw.1.shg]? = some G ∧ cw.1.ds < nDs ∧
      groupCands cw.1.shg cw.1.ds G (evs cw.1.shg cw.1.ds) (lt cw.1.ds) fac = some t ∧ cw ∈ t := by
  intro cw hcw
  unfold tableRaw at h
  rcases C18.foldl_table (fun gj : (Grp F × Nat) × Nat => groupCands gj.1.2 gj.2 gj.1.1 (evs gj.1.2 gj.2) (lt gj.2) fac)
      _ [] tab h cw hcw with h0 | ⟨gj, hgj, t, ht, hmem⟩
  · simp at h0
  · simp only [List.mem_flatMap, List.mem_map, List.mem_range] at hgj
    obtain ⟨gk, hgk, j, hj, rfl⟩ := hgj
    rw [List.mem_zipIdx_iff_getElem?] at hgk
    simp only at ht
    -- the tags of the row are those of the pair it was produced for
    have htag : cw.1.shg = gk.2 ∧ cw.1.ds = j := by
      unfold groupCands at ht
      split at ht
      · exact absurd ht (by simp)
      · simp only [Option.some.injEq] at ht
        subst ht
        simp only [List.mem_flatMap, List.mem_map] at hmem
        obtain ⟨_, _, _, _, rfl⟩ := hmem
        exact ⟨rfl, rfl⟩
    obtain ⟨e1, e2⟩ := htag
    refine ⟨gk.1, t, ?_, ?_, ?_, hmem⟩
    · rw [e1]; exact hgk
    · rw [e2]; exact hj
    · rw [e1, e2]; exact ht

end table

/-! ## 4. generation: counts conserved, only valid candidates -/

section gen
variable {F : Type} [Add F] [Div F] [LE F] [DecidableLE F] [LT F] [DecidableLT F] [OfNat F 0]

/-- **loop invariant of the redraw loop** (`_draw_valid_sig_events_for_dataset_and_shg`): whatever has been
collected is a valid candidate of this dataset and group, never more than needed; when the loop ends there are
exactly `need` events.  (Termination is not claimed: `none` = fuel / deviates exhausted.) -/
theorem c18_redraw_invariant (right : Bool) (cands : List Cand) (cdf : List F) (valid : Nat → Bool)
    (ds shg need fuel : Nat) (acc : List (Nat × Cand)) (us : List F) (res : List (Nat × Cand) × List F)
    (h : redraw right cands cdf valid ds shg need fuel acc us = some res)
    (hlen : acc.length ≤ need) (hacc : ∀ rc ∈ acc, C18.RowOK cands valid ds shg rc) :
    res.1.length = need ∧ ∀ rc ∈ res.1, C18.RowOK cands valid ds shg rc :=
  let r := C18.redraw_inv right cands cdf valid ds shg need fuel acc us res h hlen hacc
  ⟨r.1, r.2.1⟩

/-- **the reported number of injected events equals the number of events returned** (and the number
requested); the datasets listed are the distinct datasets of the drawn candidates, in ascending order. -/
theorem c18_count_conserved (right : Bool) (cands : List Cand) (cdf : List F) (valid : Nat → Bool)
    (n : Nat) (us : List F) (nsig : Nat) (out : List (Nat × List (Nat × Cand))) (rest : List F)
    (h : generate right cands cdf valid n us = some (nsig, out, rest)) :
    nsig = n ∧ (out.map (fun e => e.2.length)).sum = n ∧ (out.map (·.1)).Nodup := by
  unfold generate at h
  split_ifs at h with h1
  split at h
  · exact absurd h (by simp)
  · rename_i mrows hm
    split at h
    · exact absurd h (by simp)
    · rename_i o r hg
      simp only [Option.some.injEq, Prod.mk.injEq] at h
      obtain ⟨rfl, rfl, rfl⟩ := h
      obtain ⟨ml, mok⟩ := C18.drawRows_spec right cands cdf _ _ hm
      obtain ⟨g1, _, g3, _⟩ := C18.genDss_spec right cands cdf valid mrows mok _ _ (o, r) hg
      refine ⟨rfl, ?_, ?_⟩
      · simp only at g1
        rw [g1, C18.partition_ds, ml, List.length_take]
        omega
      · simp only at g3
        rw [g3]; exact C18.uniq_nodup _

/-- **the generation as coded — one `np.empty` output buffer per dataset, groups written at `fill_start_idx`,
every slot must have been written (an unwritten slot = uninitialised row = error in the model) — computes exactly
what the list model computes**, for all inputs, errors included.  The driver runs `generateBuf`; by this theorem
`c18_count_conserved`, `c18_all_valid`, `c18_zero_weight_never_injected`, `c18_injected_from_band` are statements
about it.  A fill index that is not advanced, or a group written to the wrong slice, breaks this proof. -/
theorem c18_generate_buffer_refines (right : Bool) (cands : List Cand) (cdf : List F) (valid : Nat → Bool)
    (n : Nat) (us : List F) :
    generateBuf right cands cdf valid n us = generate right cands cdf valid n us :=
  C18.generateBuf_eq' right cands cdf valid n us

/-- **every returned event is a candidate of the dataset it is returned for and satisfies the validity
ranges** -/
theorem c18_all_valid (right : Bool) (cands : List Cand) (cdf : List F) (valid : Nat → Bool)
    (n : Nat) (us : List F) (nsig : Nat) (out : List (Nat × List (Nat × Cand))) (rest : List F)
    (h : generate right cands cdf valid n us = some (nsig, out, rest)) :
    ∀ e ∈ out, ∀ rc ∈ e.2, cands[rc.1]? = some rc.2 ∧ rc.2.ds = e.1 ∧ valid rc.1 = true := by
  unfold generate at h
  split_ifs at h with h1
  split at h
  · exact absurd h (by simp)
  · rename_i mrows hm
    split at h
    · exact absurd h (by simp)
    · rename_i o r hg
      simp only [Option.some.injEq, Prod.mk.injEq] at h
      obtain ⟨rfl, rfl, rfl⟩ := h
      obtain ⟨_, mok⟩ := C18.drawRows_spec right cands cdf _ _ hm
      obtain ⟨_, g2, _, _⟩ := C18.genDss_spec right cands cdf valid mrows mok _ _ (o, r) hg
      intro e he rc hrc
      exact (g2 e he).2 rc hrc

end gen

section field
variable {K : Type} [Field K] [LinearOrder K] [IsStrictOrderedRing K]

/-- **no IndexError when drawing**: with one weight per candidate (non-negative, positive sum) and deviates in
`[0,1)` every draw of `RandomChoice` hits an existing row. -/
theorem c18_draw_no_error (cands : List Cand) (wn : List K) (hlen : cands.length = wn.length)
    (hnn : ∀ x ∈ wn, 0 ≤ x) (hs : 0 < wn.sum) :
    ∀ us : List K, (∀ u ∈ us, 0 ≤ u ∧ u < 1) → ∃ rows, drawRows true cands (normCdf wn) us = some rows := by
  intro us
  induction us with
  | nil => intro _; exact ⟨[], rfl⟩
  | cons u us ih =>
    intro hu
    obtain ⟨rows, hr⟩ := ih (fun v hv => hu v (by simp [hv]))
    obtain ⟨x, hx, _⟩ := C18.choice_valid wn u hnn hs (hu u (by simp)).1 (hu u (by simp)).2
    have hi : search true (normCdf wn) u < cands.length := by
      rw [hlen]; exact (List.getElem?_eq_some_iff.mp hx).1
    refine ⟨(search true (normCdf wn) u, cands[search true (normCdf wn) u]) :: rows, ?_⟩
    simp only [drawRows, List.getElem?_eq_getElem hi, hr, Option.map_some]

/-- **events, sources and datasets of zero weight are never injected**: with the CDF built from non-negative
candidate weights `wn` (positive sum) and deviates in `[0,1)`, every returned event — first draw or redraw —
is a candidate row of positive weight. -/
theorem c18_zero_weight_never_injected (cands : List Cand) (wn : List K) (valid : Nat → Bool)
    (n : Nat) (us : List K) (nsig : Nat) (out : List (Nat × List (Nat × Cand))) (rest : List K)
    (hnn : ∀ x ∈ wn, 0 ≤ x) (hs : 0 < wn.sum) (hu : ∀ u ∈ us, 0 ≤ u ∧ u < 1)
    (h : generate true cands (normCdf wn) valid n us = some (nsig, out, rest)) :
    ∀ e ∈ out, ∀ rc ∈ e.2, ∃ x, wn[rc.1]? = some x ∧ 0 < x := by
  intro e he rc hrc
  obtain ⟨u, hU, hr⟩ := C18.generate_from true cands (normCdf wn) valid (fun u => 0 ≤ u ∧ u < 1)
    n us nsig out rest hu h e he rc hrc
  rw [hr]
  exact C18.choice_valid wn u hnn hs hU.1 hU.2

end field

/-! ### end to end -/

section field
variable {K : Type} [Field K] [LinearOrder K] [IsStrictOrderedRing K] [Transc K]

/-- **end to end (clauses "from the band", "valid", "zero weight gets none")**: feed `generate` with the table the
model itself builds (`tableRaw`, normalised, CDF).  Every returned event is returned for an existing dataset, is
tagged with it, stems from an MC event of that dataset lying in the *closed* band `[min, max]` of the source it
is assigned to and in the *closed* energy range of its group, is valid — and the source weight, the live time
and the MC weight of its row are all non-zero: sources of zero weight, datasets without live time and MC events
of zero weight are never injected. -/
theorem c18_injected_from_band
    (grps : List (Grp K)) (nDs : Nat) (evs : Nat → Nat → List (Ev K)) (lt : Nat → K) (fac : K)
    (raw : List (Cand × K)) (hraw : tableRaw grps nDs evs lt fac = some raw)
    (hw : ∀ cw ∈ raw, 0 ≤ cw.2) (hs : 0 < (raw.map (·.2)).sum)
    (valid : Nat → Bool) (n : Nat) (us : List K) (hu : ∀ u ∈ us, 0 ≤ u ∧ u < 1)
    (nsig : Nat) (out : List (Nat × List (Nat × Cand))) (rest : List K)
    (h : generate true (raw.map (·.1)) (normCdf (normalise (raw.map (·.2))).2) valid n us = some (nsig, out, rest)) :
    ∀ e ∈ out, ∀ rc ∈ e.2, ∃ G src ev L U, e.1 < nDs ∧ rc.2.ds = e.1 ∧
      grps[rc.2.shg]? = some G ∧ G.srcs[rc.2.src]? = some src ∧ (evs rc.2.shg e.1)[rc.2.ev]? = some ev ∧
      minMax ((evs rc.2.shg e.1).map (·.s)) = some (L, U) ∧
      (band src.1 G.hbw L U).1 ≤ ev.s ∧ ev.s ≤ (band src.1 G.hbw L U).2 ∧
      (∀ lo hi, G.er = some (lo, hi) → lo ≤ ev.e ∧ ev.e ≤ hi) ∧
      src.2 ≠ 0 ∧ lt e.1 ≠ 0 ∧ ev.mcw ≠ 0 ∧ valid rc.1 = true := by
  intro e he rc hrc
  obtain ⟨hc, hds, hv⟩ := c18_all_valid true _ _ valid n us nsig out rest h e he rc hrc
  -- the normalised weights
  have hS : sumSeq (raw.map (·.2)) = (raw.map (·.2)).sum := C18.sumSeq_eq _
  have hwn : (normalise (raw.map (·.2))).2 = (raw.map (·.2)).map (· / (raw.map (·.2)).sum) := by
    unfold normalise; simp only [hS]
  have hnn : ∀ x ∈ (normalise (raw.map (·.2))).2, 0 ≤ x := by
    intro x hx
    rw [hwn] at hx
    simp only [List.mem_map] at hx
    obtain ⟨y, ⟨cw, hcw, rfl⟩, rfl⟩ := hx
    exact div_nonneg (hw cw hcw) (le_of_lt hs)
  have hsum : 0 < ((normalise (raw.map (·.2))).2).sum := by
    rw [hwn, C18.sum_map_div, div_self (ne_of_gt hs)]; exact one_pos
  obtain ⟨x, hx, hxpos⟩ := c18_zero_weight_never_injected (raw.map (·.1)) _ valid n us nsig out rest
    hnn hsum hu h e he rc hrc
  -- the row of the raw table
  rw [List.getElem?_map] at hc
  obtain ⟨cw, hcw, hc1⟩ := Option.map_eq_some_iff.mp hc
  rw [hwn, List.getElem?_map, List.getElem?_map, hcw] at hx
  simp only [Option.map_some, Option.some.injEq] at hx
  have hwpos : cw.2 ≠ 0 := by
    intro h0
    rw [h0, zero_div] at hx
    exact absurd hxpos (by rw [← hx]; exact lt_irrefl _)
  have hmem : cw ∈ raw := List.mem_of_getElem? hcw
  obtain ⟨G, t, hG, hlt, hgc, hmt⟩ := c18_table_sound grps nDs evs lt fac raw hraw cw hmem
  obtain ⟨L, U, src, ev, hmm, _, _, hsrc, hev, hb1, hb2, hE, hwt⟩ :=
    C18.groupCands_mem _ _ G _ _ fac t hgc cw hmt
  rw [hc1] at hG hlt hgc hsrc hev hmm
  rw [hds] at hlt hev hmm
  rw [hc1, hds] at hwt
  rw [hwt] at hwpos
  unfold candWeight at hwpos
  have f1 := mul_ne_zero_iff.mp hwpos
  have f2 := mul_ne_zero_iff.mp f1.1
  have f3 := mul_ne_zero_iff.mp f2.1
  have f4 := mul_ne_zero_iff.mp f3.2
  exact ⟨G, src, ev, L, U, hlt, hds, hG, hsrc, hev, hmm, hb1, hb2, hE, f4.2, f2.2, f3.1, hv⟩

end field

/-! ## 5. relocation keeps the true-to-reconstructed separation (ℝ) -/

noncomputable instance instAtan2Real : Atan2 ℝ := ⟨fun y x => Complex.arg ⟨x, y⟩⟩

namespace C18

theorem atan2_def (y x : ℝ) : (Atan2.atan2 y x : ℝ) = Complex.arg ⟨x, y⟩ := rfl

theorem cos_atan2 (y x : ℝ) (h : x ≠ 0 ∨ y ≠ 0) :
    Real.cos (Atan2.atan2 y x) = x / Real.sqrt (x * x + y * y) := by
  rw [atan2_def, Complex.cos_arg, Complex.norm_def, Complex.normSq_mk]
  intro h0
  have := Complex.ext_iff.mp h0
  simp only [Complex.zero_re, Complex.zero_im] at this
  rcases h with h | h
  · exact h this.1
  · exact h this.2

theorem atan2_zero : (Atan2.atan2 (0 : ℝ) 0 : ℝ) = 0 := by
  rw [atan2_def]
  have : (⟨0, 0⟩ : ℂ) = 0 := rfl
  rw [this, Complex.arg_zero]

/-- the spherical-triangle algebra behind `offset_by` -/
theorem offset_alg (cc sc ca sa cB sB : ℝ) (h1 : cc ^ 2 + sc ^ 2 = 1) (h2 : ca ^ 2 + sa ^ 2 = 1)
    (h3 : cB ^ 2 + sB ^ 2 = 1) (hsc : 0 < sc) :
    let b := cc * ca + sc * sa * cB
    (-1 : ℝ) ≤ b ∧ b ≤ 1 ∧
    cc * b + sc * Real.sqrt (1 - b ^ 2) * Real.cos (Atan2.atan2 (sa * sB * sc) (ca - b * cc)) = ca := by
  intro b
  have key : (ca - b * cc) ^ 2 + (sa * sB * sc) ^ 2 = sc ^ 2 * (1 - b ^ 2) := by
    simp only [b]
    linear_combination ((cc * ca + sc * sa * cB) ^ 2 - ca ^ 2) * h1 + sc ^ 2 * h2 + sa ^ 2 * sc ^ 2 * h3
  have hsc2 : 0 < sc ^ 2 := by positivity
  have hb2 : 0 ≤ 1 - b ^ 2 := by
    by_contra hneg
    push Not at hneg
    have : sc ^ 2 * (1 - b ^ 2) < 0 := mul_neg_of_pos_of_neg hsc2 hneg
    have : 0 ≤ (ca - b * cc) ^ 2 + (sa * sB * sc) ^ 2 := by positivity
    linarith
  refine ⟨by nlinarith, by nlinarith, ?_⟩
  by_cases hz : ca - b * cc = 0 ∧ sa * sB * sc = 0
  · obtain ⟨hx, hy⟩ := hz
    rw [hx, hy, atan2_zero, Real.cos_zero]
    have : sc ^ 2 * (1 - b ^ 2) = 0 := by rw [← key, hx, hy]; ring
    have hb0 : 1 - b ^ 2 = 0 := by
      rcases mul_eq_zero.mp this with h | h
      · exact absurd h (ne_of_gt hsc2)
      · exact h
    rw [hb0, Real.sqrt_zero]
    linarith
  · have hne : ca - b * cc ≠ 0 ∨ sa * sB * sc ≠ 0 := by
      by_contra hcon
      push Not at hcon
      exact hz hcon
    rw [cos_atan2 _ _ hne]
    have e : (ca - b * cc) * (ca - b * cc) + sa * sB * sc * (sa * sB * sc) = sc ^ 2 * (1 - b ^ 2) := by
      rw [← key]; ring
    rw [e, Real.sqrt_mul (le_of_lt hsc2), Real.sqrt_sq (le_of_lt hsc)]
    have hpos : 0 < 1 - b ^ 2 := by
      rcases eq_or_lt_of_le hb2 with h | h
      · exfalso
        have h0 : (ca - b * cc) ^ 2 + (sa * sB * sc) ^ 2 = 0 := by rw [key, ← h]; ring
        have hx : ca - b * cc = 0 := by nlinarith [sq_nonneg (ca - b * cc), sq_nonneg (sa * sB * sc)]
        have hy : sa * sB * sc = 0 := by nlinarith [sq_nonneg (ca - b * cc), sq_nonneg (sa * sB * sc)]
        rcases hne with h | h
        · exact h hx
        · exact h hy
      · exact h
    have hr : 0 < Real.sqrt (1 - b ^ 2) := Real.sqrt_pos.mpr hpos
    field_simp
    ring

end C18

/-- astropy's separation (Vincenty formula) has the cosine given by the dot product of the two directions -/
theorem c18_vincenty_cos (lon1 lat1 lon2 lat2 : ℝ) :
    Real.cos (sepVincenty lon1 lat1 lon2 lat2) = cosSep lon1 lat1 lon2 lat2 := by
  unfold sepVincenty cosSep
  simp only [TranscReal.sin_def, TranscReal.cos_def, TranscReal.sqrt_def]
  set s1 := Real.sin lat1
  set s2 := Real.sin lat2
  set c1 := Real.cos lat1
  set c2 := Real.cos lat2
  set sd := Real.sin (lon2 - lon1)
  set cd := Real.cos (lon2 - lon1)
  have h1 : s1 ^ 2 + c1 ^ 2 = 1 := Real.sin_sq_add_cos_sq lat1
  have h2 : s2 ^ 2 + c2 ^ 2 = 1 := Real.sin_sq_add_cos_sq lat2
  have h3 : sd ^ 2 + cd ^ 2 = 1 := Real.sin_sq_add_cos_sq (lon2 - lon1)
  set q := c2 * sd * (c2 * sd) + (c1 * s2 - s1 * c2 * cd) * (c1 * s2 - s1 * c2 * cd) with hq
  have hq0 : 0 ≤ q := by rw [hq]; nlinarith [mul_self_nonneg (c2 * sd), mul_self_nonneg (c1 * s2 - s1 * c2 * cd)]
  have hone : (s1 * s2 + c1 * c2 * cd) * (s1 * s2 + c1 * c2 * cd) + Real.sqrt q * Real.sqrt q = 1 := by
    rw [Real.mul_self_sqrt hq0, hq]
    linear_combination (c2 ^ 2 * cd ^ 2 + s2 ^ 2) * h1 + h2 + c2 ^ 2 * h3
  have hne : s1 * s2 + c1 * c2 * cd ≠ 0 ∨ Real.sqrt q ≠ 0 := by
    by_contra hcon
    push Not at hcon
    rw [hcon.1, hcon.2] at hone
    norm_num at hone
  rw [C18.cos_atan2 _ _ hne, hone, Real.sqrt_one, div_one]

/-- **`offset_by`**: the point at position angle `B` and distance `a` from `(lon, lat)` (source not within
1e-12 in cos(dec) of a pole, i.e. astropy's regular branch) is at great-circle distance `a` from it. -/
theorem c18_offset_cos_sep (lon lat B a : ℝ) (hpole : ¬ Real.cos lat < 1e-12) :
    cosSep lon lat (offsetBy lon lat B a).1 (offsetBy lon lat B a).2 = Real.cos a := by
  have hsc : 0 < Real.cos lat := by
    have : (0 : ℝ) < 1e-12 := by norm_num
    exact lt_of_lt_of_le this (not_lt.mp hpole)
  obtain ⟨hb1, hb2, hmain⟩ := C18.offset_alg (Real.sin lat) (Real.cos lat) (Real.cos a) (Real.sin a)
    (Real.cos B) (Real.sin B) (Real.sin_sq_add_cos_sq lat) (Real.cos_sq_add_sin_sq a)
    (Real.cos_sq_add_sin_sq B) hsc
  unfold cosSep offsetBy
  simp only [TranscReal.sin_def, TranscReal.cos_def, TranscReal.asin_def, TranscReal.pi_def]
  rw [if_neg hpole]
  simp only [add_sub_cancel_left]
  rw [Real.sin_arcsin hb1 hb2, Real.cos_arcsin]
  exact hmain

/-- **relocation to the source keeps the angular offset between true and reconstructed direction**:
`cos sep(source, relocated) = cos sep(true, reco)` for `rotate_signal_events_on_sphere` (astropy's
position-angle / separation / offset formulas), for every true and reconstructed direction and every source
off the poles. -/
theorem c18_rotation_preserves_sep (srcRa srcDec tRa tDec rRa rDec : ℝ) (hpole : ¬ Real.cos srcDec < 1e-12) :
    cosSep srcRa srcDec (relocate srcRa srcDec tRa tDec rRa rDec).1 (relocate srcRa srcDec tRa tDec rRa rDec).2
      = cosSep tRa tDec rRa rDec := by
  unfold relocate
  rw [c18_offset_cos_sep _ _ _ _ hpole, c18_vincenty_cos]

/-- the relocated declination is a declination -/
theorem c18_relocated_dec_range (lon lat B a : ℝ) :
    -(Real.pi / 2) ≤ (offsetBy lon lat B a).2 ∧ (offsetBy lon lat B a).2 ≤ Real.pi / 2 := by
  unfold offsetBy
  simp only [TranscReal.asin_def]
  exact ⟨Real.neg_pi_div_two_le_arcsin _, Real.arcsin_le_pi_div_two _⟩

/-! separation as an angle -/

theorem c18_sep_range (a b c d : ℝ) :
    0 ≤ sepVincenty a b c d ∧ sepVincenty a b c d ≤ Real.pi := by
  unfold sepVincenty
  simp only [TranscReal.sqrt_def, C18.atan2_def]
  exact ⟨Complex.arg_nonneg_iff.mpr (Real.sqrt_nonneg _), Complex.arg_le_pi _⟩

/-- **the angle itself is kept** (not only its cosine): astropy's separation between the source and the relocated
event equals the separation between the true and the reconstructed direction. -/
theorem c18_rotation_preserves_sep_angle (srcRa srcDec tRa tDec rRa rDec : ℝ) (hpole : ¬ Real.cos srcDec < 1e-12) :
    sepVincenty srcRa srcDec (relocate srcRa srcDec tRa tDec rRa rDec).1 (relocate srcRa srcDec tRa tDec rRa rDec).2
      = sepVincenty tRa tDec rRa rDec := by
  apply Real.injOn_cos
  · exact ⟨(c18_sep_range _ _ _ _).1, (c18_sep_range _ _ _ _).2⟩
  · exact ⟨(c18_sep_range _ _ _ _).1, (c18_sep_range _ _ _ _).2⟩
  · rw [c18_vincenty_cos, c18_vincenty_cos]
    exact c18_rotation_preserves_sep _ _ _ _ _ _ hpole

/-- **a source exactly at a celestial pole** (astropy's `sin_c < 1e-12` branch): the distance is kept as well -/
theorem c18_offset_cos_sep_pole (lon lat B a : ℝ) (hpole : Real.cos lat = 0) :
    cosSep lon lat (offsetBy lon lat B a).1 (offsetBy lon lat B a).2 = Real.cos a := by
  have h1 : Real.sin lat ^ 2 = 1 := by
    have := Real.sin_sq_add_cos_sq lat
    rw [hpole] at this; linarith
  have hb : -1 ≤ Real.sin lat * Real.cos a ∧ Real.sin lat * Real.cos a ≤ 1 := by
    have hc := Real.cos_sq_le_one a
    constructor <;> nlinarith [sq_nonneg (Real.sin lat * Real.cos a), sq_nonneg (Real.sin lat - Real.cos a),
      sq_nonneg (Real.sin lat + Real.cos a)]
  unfold cosSep offsetBy
  simp only [TranscReal.sin_def, TranscReal.cos_def, TranscReal.asin_def, TranscReal.pi_def, hpole,
    zero_mul, add_zero, mul_zero]
  rw [Real.sin_arcsin hb.1 hb.2]
  have e : Real.sin lat * (Real.sin lat * Real.cos a) = Real.sin lat ^ 2 * Real.cos a := by ring
  rw [e, h1, one_mul]

/-! ## 6. mean number of signal events → flux -/

section field
set_option linter.unusedSectionVars false
variable {K : Type} [Field K] [LinearOrder K] [IsStrictOrderedRing K]

/-- **the conversion from the mean signal count to the flux is linear**, per source …
(`refN ≠ 0` is the guard under which the code divides: for a zero candidate weight sum numpy yields nan/inf, the
model's field division `x/0 = 0` would make the statement hold for the wrong reason) -/
theorem c18_mu2flux_per_source_linear (a b mu1 mu2 refN : K) (_hN : refN ≠ 0) (srcs : List (K × K × K)) :
    mu2fluxPer (a * mu1 + b * mu2) refN srcs
      = List.zipWith (fun x y => a * x + b * y) (mu2fluxPer mu1 refN srcs) (mu2fluxPer mu2 refN srcs) := by
  unfold mu2fluxPer
  induction srcs with
  | nil => simp
  | cons s ss ih =>
    simp only [List.map_cons, List.zipWith_cons_cons, ih]
    congr 1
    unfold mu2fluxK; ring

/-- … and in total; no flux for no events -/
theorem c18_mu2flux_linear (a b mu1 mu2 refN : K) (_hN : refN ≠ 0) (srcs : List (K × K × K)) :
    mu2flux (a * mu1 + b * mu2) refN srcs = a * mu2flux mu1 refN srcs + b * mu2flux mu2 refN srcs ∧
    mu2flux 0 refN srcs = 0 := by
  unfold mu2flux mu2fluxPer
  simp only [C18.sumSeq_eq]
  constructor
  · induction srcs with
    | nil => simp
    | cons s ss ih =>
      simp only [List.map_cons, List.sum_cons, ih]
      unfold mu2fluxK; ring
  · induction srcs with
    | nil => simp
    | cons s ss ih =>
      simp only [List.map_cons, List.sum_cons, ih]
      unfold mu2fluxK; simp

/-- value of the conversion: `mu / ref_N · share_k · Phi0 · unit` -/
theorem c18_mu2flux_value (mu refN share phi unit : K) (h : refN ≠ 0) :
    mu2fluxK mu refN share phi unit = mu / refN * share * phi * unit := by
  unfold mu2fluxK
  rw [mul_div_assoc, div_self h, mul_one]

end field


/-! ## 7. deepening round: position angle, table = concatenation, no-error, weights ≥ 0 -/

namespace C18

theorem sin_atan2 (y x : ℝ) : Real.sin (Atan2.atan2 y x) = y / Real.sqrt (x * x + y * y) := by
  rw [atan2_def, Complex.sin_arg, Complex.norm_def, Complex.normSq_mk]

/-- two values of `atan2` with the same cosine and sine are equal -/
theorem atan2_eq_of_cos_sin (y1 x1 y2 x2 : ℝ)
    (hc : Real.cos (Atan2.atan2 y1 x1) = Real.cos (Atan2.atan2 y2 x2))
    (hs : Real.sin (Atan2.atan2 y1 x1) = Real.sin (Atan2.atan2 y2 x2)) :
    (Atan2.atan2 y1 x1 : ℝ) = Atan2.atan2 y2 x2 := by
  rw [atan2_def, atan2_def] at *
  have h1 := Complex.arg_cos_add_sin_mul_I (Complex.arg_mem_Ioc (⟨x1, y1⟩ : ℂ))
  have h2 := Complex.arg_cos_add_sin_mul_I (Complex.arg_mem_Ioc (⟨x2, y2⟩ : ℂ))
  rw [← h1, ← h2]
  simp only [← Complex.ofReal_cos, ← Complex.ofReal_sin, hc, hs]

/-- spherical-triangle algebra for the bearing of the offset point -/
theorem offset_pa_alg (cc sc ca sa cB sB : ℝ) (h1 : cc ^ 2 + sc ^ 2 = 1) (h2 : ca ^ 2 + sa ^ 2 = 1)
    (h3 : cB ^ 2 + sB ^ 2 = 1) (hsc : 0 < sc) (hsa : 0 < sa) :
    let b := cc * ca + sc * sa * cB
    let A := (Atan2.atan2 (sa * sB * sc) (ca - b * cc) : ℝ)
    0 < 1 - b ^ 2 →
    b * sc - Real.sqrt (1 - b ^ 2) * cc * Real.cos A = sa * cB ∧
    Real.sin A * Real.sqrt (1 - b ^ 2) = sa * sB := by
  intro b A hpos
  have key : (ca - b * cc) ^ 2 + (sa * sB * sc) ^ 2 = sc ^ 2 * (1 - b ^ 2) := by
    simp only [b]
    linear_combination ((cc * ca + sc * sa * cB) ^ 2 - ca ^ 2) * h1 + sc ^ 2 * h2 + sa ^ 2 * sc ^ 2 * h3
  have hr : 0 < Real.sqrt (1 - b ^ 2) := Real.sqrt_pos.mpr hpos
  have e : (ca - b * cc) * (ca - b * cc) + sa * sB * sc * (sa * sB * sc) = sc ^ 2 * (1 - b ^ 2) := by
    rw [← key]; ring
  have hne : ca - b * cc ≠ 0 ∨ sa * sB * sc ≠ 0 := by
    by_contra hcon
    push Not at hcon
    have : sc ^ 2 * (1 - b ^ 2) = 0 := by rw [← key, hcon.1, hcon.2]; ring
    have : 0 < sc ^ 2 * (1 - b ^ 2) := by positivity
    linarith
  have hcosA : Real.cos A = (ca - b * cc) / (sc * Real.sqrt (1 - b ^ 2)) := by
    simp only [A]
    rw [cos_atan2 _ _ hne, e, Real.sqrt_mul (by positivity), Real.sqrt_sq (le_of_lt hsc)]
  have hsinA : Real.sin A = (sa * sB * sc) / (sc * Real.sqrt (1 - b ^ 2)) := by
    simp only [A]
    rw [sin_atan2, e, Real.sqrt_mul (by positivity), Real.sqrt_sq (le_of_lt hsc)]
  constructor
  · rw [hcosA]
    field_simp
    simp only [b]
    linear_combination (-(sa * cB * sc) - cc * ca + (cc * ca + sc * sa * cB)) * h1 * 0 + (cc * ca + sc * sa * cB) * h1
  · rw [hsinA]
    field_simp

end C18

/-- **`offset_by` keeps the bearing**: seen from the start point, the offset point lies at position angle `B`
(regular branch, positive distance `sin a > 0`, end point not at a pole). -/
theorem c18_offset_position_angle (lon lat B a : ℝ) (hpole : ¬ Real.cos lat < 1e-12) (ha : 0 < Real.sin a)
    (hout : 0 < Real.cos (offsetBy lon lat B a).2) :
    Real.cos (posAngle lon lat (offsetBy lon lat B a).1 (offsetBy lon lat B a).2) = Real.cos B ∧
    Real.sin (posAngle lon lat (offsetBy lon lat B a).1 (offsetBy lon lat B a).2) = Real.sin B := by
  have hsc : 0 < Real.cos lat := by
    have : (0 : ℝ) < 1e-12 := by norm_num
    exact lt_of_lt_of_le this (not_lt.mp hpole)
  have h1 := Real.sin_sq_add_cos_sq lat
  have h2 := Real.cos_sq_add_sin_sq a
  have h3 := Real.cos_sq_add_sin_sq B
  obtain ⟨hb1, hb2, _⟩ := C18.offset_alg (Real.sin lat) (Real.cos lat) (Real.cos a) (Real.sin a)
    (Real.cos B) (Real.sin B) h1 h2 h3 hsc
  -- the end point: latitude arcsin b, longitude lon + A
  have hlat : (offsetBy lon lat B a).2
      = Real.arcsin (Real.sin lat * Real.cos a + Real.cos lat * Real.sin a * Real.cos B) := by
    unfold offsetBy; simp only [TranscReal.sin_def, TranscReal.cos_def, TranscReal.asin_def]
  have hlon : (offsetBy lon lat B a).1 = lon + Atan2.atan2 (Real.sin a * Real.sin B * Real.cos lat)
      (Real.cos a - (Real.sin lat * Real.cos a + Real.cos lat * Real.sin a * Real.cos B) * Real.sin lat) := by
    unfold offsetBy
    simp only [TranscReal.sin_def, TranscReal.cos_def, TranscReal.pi_def]
    rw [if_neg hpole]
  rw [hlat, Real.cos_arcsin] at hout
  have hpos : 0 < 1 - (Real.sin lat * Real.cos a + Real.cos lat * Real.sin a * Real.cos B) ^ 2 :=
    Real.sqrt_pos.mp hout
  obtain ⟨ex, ey⟩ := C18.offset_pa_alg (Real.sin lat) (Real.cos lat) (Real.cos a) (Real.sin a)
    (Real.cos B) (Real.sin B) h1 h2 h3 hsc ha hpos
  unfold posAngle
  simp only [TranscReal.sin_def, TranscReal.cos_def]
  rw [hlat, hlon, Real.sin_arcsin hb1 hb2, Real.cos_arcsin, add_sub_cancel_left]
  have hx : (Real.sin lat * Real.cos a + Real.cos lat * Real.sin a * Real.cos B) * Real.cos lat
      - Real.sqrt (1 - (Real.sin lat * Real.cos a + Real.cos lat * Real.sin a * Real.cos B) ^ 2) * Real.sin lat
        * Real.cos (Atan2.atan2 (Real.sin a * Real.sin B * Real.cos lat)
          (Real.cos a - (Real.sin lat * Real.cos a + Real.cos lat * Real.sin a * Real.cos B) * Real.sin lat))
      = Real.sin a * Real.cos B := ex
  rw [hx, ey]
  have hne : Real.sin a * Real.cos B ≠ 0 ∨ Real.sin a * Real.sin B ≠ 0 := by
    by_contra hcon
    push Not at hcon
    have hc : Real.cos B = 0 := by
      rcases mul_eq_zero.mp hcon.1 with h | h
      · exact absurd h (ne_of_gt ha)
      · exact h
    have hs : Real.sin B = 0 := by
      rcases mul_eq_zero.mp hcon.2 with h | h
      · exact absurd h (ne_of_gt ha)
      · exact h
    rw [hc, hs] at h3; norm_num at h3
  have hnorm : Real.sqrt (Real.sin a * Real.cos B * (Real.sin a * Real.cos B)
      + Real.sin a * Real.sin B * (Real.sin a * Real.sin B)) = Real.sin a := by
    have : Real.sin a * Real.cos B * (Real.sin a * Real.cos B) + Real.sin a * Real.sin B * (Real.sin a * Real.sin B)
        = Real.sin a ^ 2 := by linear_combination Real.sin a ^ 2 * h3
    rw [this, Real.sqrt_sq (le_of_lt ha)]
  constructor
  · rw [C18.cos_atan2 _ _ hne, hnorm]; field_simp
  · rw [C18.sin_atan2, hnorm]; field_simp

/-- **relocation keeps the position angle, too**: the bearing from the source to the relocated event is the
bearing from the true to the reconstructed direction — as an angle in (−π, π], not only up to 2π — whenever the
two directions differ (`sin sep > 0`), the source is off the poles and the relocated event is not at a pole.
Together with `c18_rotation_preserves_sep_angle`: the whole true-to-reco offset is kept. -/
theorem c18_rotation_preserves_position_angle (srcRa srcDec tRa tDec rRa rDec : ℝ)
    (hpole : ¬ Real.cos srcDec < 1e-12) (hsep : 0 < Real.sin (sepVincenty tRa tDec rRa rDec))
    (hout : 0 < Real.cos (relocate srcRa srcDec tRa tDec rRa rDec).2) :
    posAngle srcRa srcDec (relocate srcRa srcDec tRa tDec rRa rDec).1 (relocate srcRa srcDec tRa tDec rRa rDec).2
      = posAngle tRa tDec rRa rDec := by
  obtain ⟨hc, hs⟩ := c18_offset_position_angle srcRa srcDec (posAngle tRa tDec rRa rDec)
    (sepVincenty tRa tDec rRa rDec) hpole hsep hout
  unfold relocate
  have e1 : ∃ y x, posAngle srcRa srcDec
      (offsetBy srcRa srcDec (posAngle tRa tDec rRa rDec) (sepVincenty tRa tDec rRa rDec)).1
      (offsetBy srcRa srcDec (posAngle tRa tDec rRa rDec) (sepVincenty tRa tDec rRa rDec)).2
      = (Atan2.atan2 y x : ℝ) := ⟨_, _, rfl⟩
  have e2 : ∃ y x, posAngle tRa tDec rRa rDec = (Atan2.atan2 y x : ℝ) := ⟨_, _, rfl⟩
  obtain ⟨y1, x1, h1⟩ := e1
  obtain ⟨y2, x2, h2⟩ := e2
  rw [h1, h2] at hc hs ⊢
  exact C18.atan2_eq_of_cos_sin y1 x1 y2 x2 hc hs

namespace C18

/-- the fold over the (group, dataset) pairs succeeds iff every pair succeeds; the result is the concatenation
in the order of the pairs -/
theorem foldl_table_iff {α β : Type} (f : α → Option (List β)) :
    ∀ (l : List α) (a0 tab : List β),
      l.foldl (tableStep f) (some a0) = some tab ↔
        ∃ parts : List (List β), List.Forall₂ (fun x p => f x = some p) l parts ∧ tab = a0 ++ parts.flatten
  | [], a0, tab => by
    simp only [List.foldl_nil, Option.some.injEq, List.forall₂_nil_left_iff]
    constructor
    · rintro rfl; exact ⟨[], rfl, by simp⟩
    · rintro ⟨parts, rfl, h⟩; simp at h; exact h.symm
  | x :: l, a0, tab => by
    simp only [List.foldl_cons]
    cases hf : f x with
    | none =>
      have e : tableStep f (some a0) x = none := by simp [tableStep, hf]
      have hn : ∀ (l : List α), l.foldl (tableStep f) (none : Option (List β)) = none := by
        intro l; induction l with
        | nil => rfl
        | cons z zs ih => simpa [List.foldl_cons, tableStep] using ih
      rw [e, hn]
      constructor
      · intro h; exact absurd h (by simp)
      · rintro ⟨parts, hp, _⟩
        cases hp with
        | cons h1 _ => rw [hf] at h1; exact absurd h1 (by simp)
    | some t =>
      have e : tableStep f (some a0) x = some (a0 ++ t) := by simp [tableStep, hf]
      rw [e, foldl_table_iff f l (a0 ++ t) tab]
      constructor
      · rintro ⟨parts, hp, rfl⟩
        exact ⟨t :: parts, List.Forall₂.cons hf hp, by simp⟩
      · rintro ⟨parts, hp, rfl⟩
        cases hp with
        | cons h1 h2 =>
          rw [hf] at h1
          simp only [Option.some.injEq] at h1
          subst h1
          exact ⟨_, h2, by simp⟩

end C18

section table
set_option linter.unusedSectionVars false
variable {F : Type} [Add F] [Sub F] [Mul F] [Div F] [Neg F] [OfNat F 0] [OfNat F 2]
  [LE F] [DecidableLE F] [Transc F]

/-- the pairs in the order of `itertools.product(enumerate(shg_list), enumerate(data_list))` -/
def C18.pairs (grps : List (Grp F)) (nDs : Nat) : List ((Grp F × Nat) × Nat) :=
  grps.zipIdx.flatMap fun gk => (List.range nDs).map (fun j => (gk, j))

/-- **the candidate table is exactly the concatenation of the per-(group, dataset) selections, group-major, in
order** — and it exists iff every selection exists.  (Soundness `c18_table_sound`, completeness and the
row order the CDF index relies on, in one statement.) -/
theorem c18_table_eq_concat (grps : List (Grp F)) (nDs : Nat) (evs : Nat → Nat → List (Ev F)) (lt : Nat → F) (fac : F)
    (tab : List (Cand × F)) :
    tableRaw grps nDs evs lt fac = some tab ↔
      ∃ parts : List (List (Cand × F)),
        List.Forall₂ (fun (gj : (Grp F × Nat) × Nat) p =>
          groupCands gj.1.2 gj.2 gj.1.1 (evs gj.1.2 gj.2) (lt gj.2) fac = some p) (C18.pairs grps nDs) parts ∧
        tab = parts.flatten := by
  unfold tableRaw C18.pairs
  rw [C18.foldl_table_iff]
  simp only [List.nil_append]

/-- **completeness**: every row selected for an existing group and dataset is in the table -/
theorem c18_table_complete (grps : List (Grp F)) (nDs : Nat) (evs : Nat → Nat → List (Ev F)) (lt : Nat → F) (fac : F)
    (tab : List (Cand × F)) (h : tableRaw grps nDs evs lt fac = some tab)
    (g j : Nat) (G : Grp F) (hG : grps[g]? = some G) (hj : j < nDs) :
    ∃ t, groupCands g j G (evs g j) (lt j) fac = some t ∧ ∀ cw ∈ t, cw ∈ tab := by
  obtain ⟨parts, hp, rfl⟩ := (c18_table_eq_concat grps nDs evs lt fac tab).mp h
  have hmem : ((G, g), j) ∈ C18.pairs grps nDs := by
    unfold C18.pairs
    simp only [List.mem_flatMap, List.mem_map, List.mem_range]
    exact ⟨(G, g), List.mem_zipIdx_iff_getElem?.mpr hG, j, hj, rfl⟩
  obtain ⟨i, hi, hget⟩ := List.getElem_of_mem hmem
  have hlen := hp.length_eq
  have hi' : i < parts.length := by rw [← hlen]; exact hi
  have := List.forall₂_iff_get.mp hp |>.2 i hi hi'
  simp only [List.get_eq_getElem, hget] at this
  refine ⟨parts[i], this, ?_⟩
  intro cw hcw
  exact List.mem_flatten.mpr ⟨parts[i], List.getElem_mem hi', hcw⟩

end table

section field
variable {K : Type} [Field K] [LinearOrder K] [IsStrictOrderedRing K] [Transc K]

/-- **the candidate weights are non-negative** when the inputs are: MC weights, flux values, source weights,
live times ≥ 0, unit factors ≥ 0, half band width > 0 (π > 0 for the scalar's `Transc` instance).  This
discharges hypothesis `hw` of `c18_injected_from_band` from the inputs. -/
theorem c18_table_weights_nonneg (hpi : (0 : K) < Transc.pi)
    (grps : List (Grp K)) (nDs : Nat) (evs : Nat → Nat → List (Ev K)) (lt : Nat → K) (fac : K)
    (raw : List (Cand × K)) (hraw : tableRaw grps nDs evs lt fac = some raw)
    (hG : ∀ G ∈ grps, 0 < G.hbw ∧ 0 ≤ G.unit ∧ ∀ s ∈ G.srcs, 0 ≤ s.2)
    (hE : ∀ g j, ∀ e ∈ evs g j, 0 ≤ e.mcw ∧ 0 ≤ e.f) (hlt : ∀ j, 0 ≤ lt j) (hfac : 0 ≤ fac) :
    ∀ cw ∈ raw, 0 ≤ cw.2 := by
  intro cw hcw
  obtain ⟨G, t, hGg, _, hgc, hmt⟩ := c18_table_sound grps nDs evs lt fac raw hraw cw hcw
  obtain ⟨L, U, src, ev, _, _, _, hsrc, hev, _, _, _, hwt⟩ := C18.groupCands_mem _ _ G _ _ fac t hgc cw hmt
  obtain ⟨hw, hu, hs⟩ := hG G (List.mem_of_getElem? hGg)
  have hsw := hs src (List.mem_of_getElem? hsrc)
  obtain ⟨hm, hf⟩ := hE _ _ ev (List.mem_of_getElem? hev)
  have hom : 0 < omega (band src.1 G.hbw L U) := by
    unfold omega band
    simp only
    have : src.1 + shiftLinear src.1 G.hbw L U + G.hbw - (src.1 + shiftLinear src.1 G.hbw L U - G.hbw) = 2 * G.hbw := by ring
    rw [this]; positivity
  rw [hwt]
  unfold candWeight
  have := hlt cw.1.ds
  positivity

end field

section gen
set_option linter.unusedSectionVars false
variable {K : Type} [Field K] [LinearOrder K] [IsStrictOrderedRing K]

namespace C18

theorem genShgs_all_valid (cands : List Cand) (cdf : List K) (valid : Nat → Bool) (ds : Nat)
    (mrows : List (Nat × Cand)) (hv : ∀ rc ∈ mrows, valid rc.1 = true) :
    ∀ (gs : List Nat) (us : List K), ∃ rows, genShgs true cands cdf valid ds mrows gs us = some (rows, us)
  | [], us => ⟨[], rfl⟩
  | g :: gs, us => by
    obtain ⟨rest, hr⟩ := genShgs_all_valid cands cdf valid ds mrows hv gs us
    have hk : (mrows.filter (fun rc => rc.2.ds == ds && rc.2.shg == g)).countP (fun rc => !valid rc.1) = 0 := by
      rw [List.countP_eq_zero]
      intro rc hrc
      simp [hv rc (List.mem_of_mem_filter hrc)]
    refine ⟨mrows.filter (fun rc => rc.2.ds == ds && rc.2.shg == g) ++ rest, ?_⟩
    simp only [genShgs, genGroup, hk, if_true, hr]

theorem genDss_all_valid (cands : List Cand) (cdf : List K) (valid : Nat → Bool)
    (mrows : List (Nat × Cand)) (hv : ∀ rc ∈ mrows, valid rc.1 = true) :
    ∀ (dl : List Nat) (us : List K), ∃ out, genDss true cands cdf valid mrows dl us = some (out, us)
  | [], us => ⟨[], rfl⟩
  | d :: dl, us => by
    obtain ⟨rows, hr⟩ := genShgs_all_valid cands cdf valid d mrows hv
      (uniq ((mrows.filter (fun rc => rc.2.ds == d)).map (·.2.shg))) us
    obtain ⟨rest, hrest⟩ := genDss_all_valid cands cdf valid mrows hv dl us
    exact ⟨(d, rows) :: rest, by simp only [genDss, hr, hrest]⟩

end C18

/-- **no error and no redraw when nothing drawable is invalid** (in particular without validity ranges): one
weight per candidate (non-negative, positive sum), deviates in `[0,1)`, at least `n` of them, and every candidate
of positive weight valid ⇒ `generate` returns, reports `n` and consumes exactly `n` deviates.  (With rejection,
termination depends on the deviates: assumption, see the open finding.) -/
theorem c18_generate_no_error (cands : List Cand) (wn : List K) (valid : Nat → Bool) (n : Nat) (us : List K)
    (hlen : cands.length = wn.length) (hnn : ∀ x ∈ wn, 0 ≤ x) (hs : 0 < wn.sum)
    (hu : ∀ u ∈ us, 0 ≤ u ∧ u < 1) (hn : n ≤ us.length)
    (hv : ∀ r x, wn[r]? = some x → 0 < x → valid r = true) :
    ∃ out, generate true cands (normCdf wn) valid n us = some (n, out, us.drop n) := by
  obtain ⟨mrows, hm⟩ := c18_draw_no_error cands wn hlen hnn hs (us.take n)
    (fun u hu' => hu u (List.mem_of_mem_take hu'))
  have hfrom := C18.drawRows_from true cands (normCdf wn) (fun u => 0 ≤ u ∧ u < 1) _ _ hm
    (fun u hu' => hu u (List.mem_of_mem_take hu'))
  have hval : ∀ rc ∈ mrows, valid rc.1 = true := by
    intro rc hrc
    obtain ⟨u, hU, hr⟩ := hfrom rc hrc
    obtain ⟨x, hx, hpos⟩ := C18.choice_valid wn u hnn hs hU.1 hU.2
    rw [hr]
    exact hv _ x hx hpos
  obtain ⟨out, hout⟩ := C18.genDss_all_valid cands (normCdf wn) valid mrows hval
    (uniq (mrows.map (·.2.ds))) (us.drop n)
  refine ⟨out, ?_⟩
  unfold generate
  rw [if_neg (by omega), hm]
  simp only [hout]

end gen


/-! ## 8. deepening round: batch loop, relocation and validity inside the generator -/

namespace C18

theorem zipIdx_append' {α : Type} (l1 l2 : List α) (k : Nat) :
    (l1 ++ l2).zipIdx k = l1.zipIdx k ++ l2.zipIdx (k + l1.length) := by
  induction l1 generalizing k with
  | nil => simp
  | cons x xs ih => simp [List.zipIdx_cons, ih, Nat.add_assoc, Nat.add_comm 1]

theorem batches_prefix {α : Type} (bs : Nat) (l : List α) : ∀ m : Nat,
    (List.range m).flatMap (fun bi => ((l.drop (bi * bs)).take bs).zipIdx (bi * bs)) = (l.take (m * bs)).zipIdx
  | 0 => by simp
  | m + 1 => by
    rw [List.range_succ, List.flatMap_append, batches_prefix bs l m]
    simp only [List.flatMap_cons, List.flatMap_nil, List.append_nil]
    have e : l.take ((m + 1) * bs) = l.take (m * bs) ++ (l.drop (m * bs)).take bs := by
      rw [Nat.succ_mul, List.take_add]
    rw [e, zipIdx_append', Nat.zero_add]
    by_cases h : m * bs ≤ l.length
    · rw [List.length_take, Nat.min_eq_left h]
    · have : l.drop (m * bs) = [] := List.drop_eq_nil_of_le (by omega)
      simp [this]

theorem batchedIdx_eq {α : Type} (bs : Nat) (hbs : 0 < bs) (l : List α) :
    batchedIdx bs l = some l.zipIdx := by
  unfold batchedIdx
  rw [if_neg (by omega), batches_prefix]
  congr 1
  have h1 := Nat.div_add_mod (l.length + bs - 1) bs
  have h2 := Nat.mod_lt (l.length + bs - 1) hbs
  have : l.length ≤ (l.length + bs - 1) / bs * bs := by
    generalize (l.length + bs - 1) / bs = q at *
    generalize (l.length + bs - 1) % bs = r at *
    rw [Nat.mul_comm q bs]
    omega
  rw [List.take_of_length_le this]

end C18

section table
set_option linter.unusedSectionVars false
variable {F : Type} [Add F] [Sub F] [Mul F] [Div F] [Neg F] [OfNat F 0] [OfNat F 2]
  [LE F] [DecidableLE F] [Transc F]

/-- **the source batch loop changes nothing**: for every positive batch size the batched selection
(`src_slice`, `bi*src_batch_size + k`) is the direct one — a wrong index offset or slice breaks this proof —
and a batch size 0 is an error. -/
theorem c18_batched_refines (bs g j : Nat) (G : Grp F) (evs : List (Ev F)) (lt fac : F) :
    (0 < bs → groupCandsB bs g j G evs lt fac = groupCands g j G evs lt fac) ∧
    groupCandsB 0 g j G evs lt fac = none := by
  constructor
  · intro hbs
    unfold groupCandsB groupCands
    rw [C18.batchedIdx_eq bs hbs]
    cases minMax (evs.map (·.s)) with
    | none => rfl
    | some p => rfl
  · unfold groupCandsB batchedIdx
    cases minMax (evs.map (·.s)) with
    | none => rfl
    | some p => rfl

/-- the whole table built with batches is the table of the direct model (all theorems about `tableRaw` are
theorems about the batched model the driver runs) -/
theorem c18_table_batched_refines (bss : Nat → Nat) (hb : ∀ g, 0 < bss g)
    (grps : List (Grp F)) (nDs : Nat) (evs : Nat → Nat → List (Ev F)) (lt : Nat → F) (fac : F) :
    tableRawB bss grps nDs evs lt fac = tableRaw grps nDs evs lt fac := by
  unfold tableRawB tableRaw
  congr 2
  funext gj
  exact (c18_batched_refines (bss gj.1.2) gj.1.2 gj.2 gj.1.1 _ _ fac).1 (hb _)

end table

namespace C18
section events
set_option linter.unusedSectionVars false
variable {F : Type} [Add F] [Sub F] [Mul F] [Div F] [Neg F] [LT F] [DecidableLT F]
  [OfNat F 1] [OfNat F 2] [OfScientific F] [Transc F] [Atan2 F]

theorem relocRows_spec (D : EvData F) : ∀ (rows : List (Nat × Cand)) (ps : List ((Nat × Cand) × F × F × F)),
    relocRows D rows = some ps → ps.map (·.1) = rows ∧ ∀ p ∈ ps, postProc D p.1.2 = some p.2
  | [], ps, h => by simp only [relocRows, Option.some.injEq] at h; subst h; simp
  | rc :: rest, ps, h => by
    simp only [relocRows] at h
    split at h
    · rename_i p ps' hp hr
      simp only [Option.some.injEq] at h
      subst h
      obtain ⟨h1, h2⟩ := relocRows_spec D rest ps' hr
      refine ⟨by simp [h1], ?_⟩
      intro q hq
      rcases List.mem_cons.mp hq with rfl | hq
      · exact hp
      · exact h2 q hq
    · exact absurd h (by simp)

theorem relocDss_spec (D : EvData F) : ∀ (out : List (Nat × List (Nat × Cand)))
    (o : List (Nat × List ((Nat × Cand) × F × F × F))), relocDss D out = some o →
    List.Forall₂ (fun e e' => e'.1 = e.1 ∧ e'.2.map (·.1) = e.2 ∧ ∀ p ∈ e'.2, postProc D p.1.2 = some p.2) out o
  | [], o, h => by simp only [relocDss, Option.some.injEq] at h; subst h; exact List.Forall₂.nil
  | e :: rest, o, h => by
    simp only [relocDss] at h
    split at h
    · rename_i p ps hp hr
      simp only [Option.some.injEq] at h
      subst h
      obtain ⟨h1, h2⟩ := relocRows_spec D e.2 p hp
      exact List.Forall₂.cons ⟨rfl, h1, h2⟩ (relocDss_spec D rest ps hr)
    · exact absurd h (by simp)

theorem relocDss_lengths (D : EvData F) (out : List (Nat × List (Nat × Cand)))
    (o : List (Nat × List ((Nat × Cand) × F × F × F)))
    (hf : List.Forall₂ (fun e e' => e'.1 = e.1 ∧ e'.2.map (·.1) = e.2 ∧ ∀ p ∈ e'.2, postProc D p.1.2 = some p.2) out o) :
    (o.map (fun e => e.2.length)).sum = (out.map (fun e => e.2.length)).sum := by
  induction hf with
  | nil => rfl
  | cons hab _ ih =>
    simp only [List.map_cons, List.sum_cons, ih]
    rw [← hab.2.1, List.length_map]

end events
end C18

section eventsGen
set_option linter.unusedSectionVars false
variable {F : Type} [Add F] [Sub F] [Mul F] [Div F] [Neg F] [LE F] [DecidableLE F] [LT F] [DecidableLT F]
  [OfNat F 0] [OfNat F 1] [OfNat F 2] [OfScientific F] [Transc F] [Atan2 F]

/-- **the complete generator** (draw → relocation → validity of the relocated event → redraw → output buffers →
events handed out): the number reported is the number requested and the number of events handed out; every event
handed out is a candidate of the dataset it is handed out for, carries exactly the coordinates
`signal_event_post_sampling_processing` computes for *its own* source (`postProc`), and these coordinates — not
those of the stored MC event — satisfy the validity ranges (`validRel`). -/
theorem c18_generate_relocated (right : Bool) (cands : List Cand) (cdf : List F) (D : EvData F)
    (rs : List (Nat × Fld × F × F)) (n : Nat) (us : List F)
    (k : Nat) (o : List (Nat × List ((Nat × Cand) × F × F × F))) (rest : List F)
    (h : generateEv right cands cdf D rs n us = some (k, o, rest)) :
    k = n ∧ (o.map (fun e => e.2.length)).sum = n ∧
    ∀ e ∈ o, ∀ p ∈ e.2, cands[p.1.1]? = some p.1.2 ∧ p.1.2.ds = e.1 ∧
      validRel D cands rs p.1.1 = true ∧ postProc D p.1.2 = some p.2 := by
  unfold generateEv at h
  split at h
  · exact absurd h (by simp)
  · rename_i k' out rest' hg
    split at h
    · exact absurd h (by simp)
    · rename_i o' hr
      simp only [Option.some.injEq, Prod.mk.injEq] at h
      obtain ⟨rfl, rfl, rfl⟩ := h
      rw [c18_generate_buffer_refines] at hg
      obtain ⟨c1, c2, _⟩ := c18_count_conserved right cands cdf _ n us _ _ _ hg
      have hv := c18_all_valid right cands cdf _ n us _ _ _ hg
      have hf := C18.relocDss_spec D out o' hr
      refine ⟨c1, ?_, ?_⟩
      · rw [← c2]; exact C18.relocDss_lengths D out o' hf
      · intro e' he' p hp
        obtain ⟨i, hi, rfl⟩ := List.getElem_of_mem he'
        have hlen := hf.length_eq
        have hi' : i < out.length := by rw [hlen]; exact hi
        obtain ⟨e1, e2, e3⟩ := (List.forall₂_iff_get.mp hf).2 i hi' hi
        simp only [List.get_eq_getElem] at e1 e2 e3
        have hmem : p.1 ∈ out[i].2 := by rw [← e2]; exact List.mem_map_of_mem hp
        obtain ⟨a1, a2, a3⟩ := hv out[i] (List.getElem_mem hi') p.1 hmem
        exact ⟨a1, by rw [e1]; exact a2, a3, e3 p hp⟩

end eventsGen

/-- what `postProc` yields over ℝ: the event sits at its true-to-reco separation from its own source, `sin_dec`
is the sine of the new declination, which is a declination -/
theorem c18_generated_event_offset (D : EvData ℝ) (c : Cand) (ra dec sd : ℝ) (s : ℝ × ℝ) (d : Dir ℝ)
    (hs : D.src c.shg c.src = some s) (hd : D.dir c.ds c.ev = some d) (hpole : ¬ Real.cos s.2 < 1e-12)
    (h : postProc D c = some (ra, dec, sd)) :
    sepVincenty s.1 s.2 ra dec = sepVincenty d.tRa d.tDec d.rRa d.rDec ∧ sd = Real.sin dec ∧
      -(Real.pi / 2) ≤ dec ∧ dec ≤ Real.pi / 2 := by
  unfold postProc at h
  rw [hs, hd] at h
  simp only [Option.some.injEq, Prod.mk.injEq, TranscReal.sin_def] at h
  obtain ⟨rfl, rfl, rfl⟩ := h
  refine ⟨c18_rotation_preserves_sep_angle _ _ _ _ _ _ hpole, rfl, ?_⟩
  unfold relocate
  exact c18_relocated_dec_range _ _ _ _

namespace C18
section ev
set_option linter.unusedSectionVars false
variable {K : Type} [Field K] [LinearOrder K] [IsStrictOrderedRing K] [Transc K] [Atan2 K]

theorem rangeVals_spec (D : EvData K) (c : Cand) : ∀ (l : List (Nat × Fld × K × K)) (vs : List (K × K × K)),
    rangeVals D c l = some vs →
    List.Forall₂ (fun e t => fieldVal D c e.2.1 = some t.1 ∧ t.2.1 = e.2.2.1 ∧ t.2.2 = e.2.2.2) l vs
  | [], vs, h => by simp only [rangeVals, Option.some.injEq] at h; subst h; exact List.Forall₂.nil
  | e :: rest, vs, h => by
    simp only [rangeVals] at h
    split at h
    · rename_i v vs' hv hr
      simp only [Option.some.injEq] at h
      subst h
      exact List.Forall₂.cons ⟨hv, rfl, rfl⟩ (rangeVals_spec D c rest vs' hr)
    · exact absurd h (by simp)

theorem rangeVals_isSome (D : EvData K) (c : Cand) : ∀ (l : List (Nat × Fld × K × K)),
    (∀ e ∈ l, ∃ v, fieldVal D c e.2.1 = some v) → ∃ vs, rangeVals D c l = some vs
  | [], _ => ⟨[], rfl⟩
  | e :: rest, h => by
    obtain ⟨v, hv⟩ := h e (by simp)
    obtain ⟨vs, hvs⟩ := rangeVals_isSome D c rest (fun e' he' => h e' (by simp [he']))
    exact ⟨(v, e.2.2.1, e.2.2.2) :: vs, by simp only [rangeVals, hv, hvs]⟩

end ev
end C18

section ev
set_option linter.unusedSectionVars false
variable {K : Type} [Field K] [LinearOrder K] [IsStrictOrderedRing K] [Transc K] [Atan2 K]

/-- **validity of a table row = every configured range of the row's dataset holds, closed on both sides, on the
field values of the *relocated* event** (ra, dec, sin_dec after `postProc`; other fields as stored) — under the
guard that the row and the configured fields exist (otherwise the code raises KeyError). -/
theorem c18_validRel_iff (D : EvData K) (cands : List Cand) (rs : List (Nat × Fld × K × K)) (r : Nat) (c : Cand)
    (hc : cands[r]? = some c) (hex : ∀ e ∈ rs, e.1 = c.ds → ∃ v, fieldVal D c e.2.1 = some v) :
    validRel D cands rs r = true ↔
      ∀ e ∈ rs, e.1 = c.ds → ∀ v, fieldVal D c e.2.1 = some v → e.2.2.1 ≤ v ∧ v ≤ e.2.2.2 := by
  obtain ⟨vs, hvs⟩ := C18.rangeVals_isSome D c (rs.filter (fun e => e.1 == c.ds)) (by
    intro e he
    simp only [List.mem_filter, beq_iff_eq] at he
    exact hex e he.1 he.2)
  have hf := C18.rangeVals_spec D c _ vs hvs
  unfold validRel
  simp only [hc, hvs, Bool.not_eq_true', c18_valid_iff]
  constructor
  · intro h e he hds v hv
    have hmem : e ∈ rs.filter (fun e => e.1 == c.ds) := by
      simp only [List.mem_filter, beq_iff_eq]; exact ⟨he, hds⟩
    obtain ⟨i, hi, rfl⟩ := List.getElem_of_mem hmem
    have hi' : i < vs.length := by rw [← hf.length_eq]; exact hi
    obtain ⟨e1, e2, e3⟩ := (List.forall₂_iff_get.mp hf).2 i hi hi'
    simp only [List.get_eq_getElem] at e1 e2 e3
    have := h vs[i] (List.getElem_mem hi')
    rw [hv] at e1
    simp only [Option.some.injEq] at e1
    rw [e2, e3, ← e1] at this
    exact this
  · intro h t ht
    obtain ⟨i, hi, rfl⟩ := List.getElem_of_mem ht
    have hi' : i < (rs.filter (fun e => e.1 == c.ds)).length := by rw [hf.length_eq]; exact hi
    obtain ⟨e1, e2, e3⟩ := (List.forall₂_iff_get.mp hf).2 i hi' hi
    simp only [List.get_eq_getElem] at e1 e2 e3
    have hmem := List.getElem_mem hi'
    simp only [List.mem_filter, beq_iff_eq] at hmem
    have := h _ hmem.1 hmem.2 _ e1
    rw [e2, e3]
    exact this

end ev

/-! ## 9. the whole pipeline -/

section eventsGen
set_option linter.unusedSectionVars false
variable {F : Type} [Add F] [Sub F] [Mul F] [Div F] [Neg F] [LE F] [DecidableLE F] [LT F] [DecidableLT F]
  [OfNat F 0] [OfNat F 1] [OfNat F 2] [OfScientific F] [Transc F] [Atan2 F]

/-- the complete generator is the list model followed by the post-processing of the rows it returns -/
theorem C18.generateEv_factor (right : Bool) (cands : List Cand) (cdf : List F) (D : EvData F)
    (rs : List (Nat × Fld × F × F)) (n : Nat) (us : List F)
    (k : Nat) (o : List (Nat × List ((Nat × Cand) × F × F × F))) (rest : List F)
    (h : generateEv right cands cdf D rs n us = some (k, o, rest)) :
    ∃ out, generate right cands cdf (validRel D cands rs) n us = some (k, out, rest) ∧
      List.Forall₂ (fun e e' => e'.1 = e.1 ∧ e'.2.map (·.1) = e.2 ∧ ∀ p ∈ e'.2, postProc D p.1.2 = some p.2) out o := by
  unfold generateEv at h
  split at h
  · exact absurd h (by simp)
  · rename_i k' out rest' hg
    split at h
    · exact absurd h (by simp)
    · rename_i o' hr
      simp only [Option.some.injEq, Prod.mk.injEq] at h
      obtain ⟨rfl, rfl, rfl⟩ := h
      rw [c18_generate_buffer_refines] at hg
      exact ⟨out, hg, C18.relocDss_spec D out o' hr⟩

end eventsGen

section field
set_option linter.unusedSectionVars false
variable {K : Type} [Field K] [LinearOrder K] [IsStrictOrderedRing K] [Transc K] [Atan2 K]

/-- **the whole pipeline, from the inputs to the events handed out.**  Table built in source batches from
non-negative inputs with some candidate of positive weight, normalised, CDF, deviates in `[0,1)`, complete
generator (relocation, validity of the relocated event, redraw, buffers).  If it returns, then: it reports the
number requested, which is the number of events handed out; and every event handed out
* is handed out for an existing dataset and is a candidate of it, assigned to a source of an existing group,
* stems from an MC event in the *closed* band of that source and the *closed* energy range of the group,
* has non-zero source weight, live time and MC weight (zero-weight sources / datasets / events get none),
* carries the coordinates `signal_event_post_sampling_processing` computes for that very source, and
* these relocated coordinates satisfy the validity ranges of its dataset. -/
theorem c18_full_pipeline (hpi : (0 : K) < Transc.pi)
    (bss : Nat → Nat) (hb : ∀ g, 0 < bss g)
    (grps : List (Grp K)) (nDs : Nat) (evs : Nat → Nat → List (Ev K)) (lt : Nat → K) (fac : K)
    (raw : List (Cand × K)) (hraw : tableRawB bss grps nDs evs lt fac = some raw)
    (hG : ∀ G ∈ grps, 0 < G.hbw ∧ 0 ≤ G.unit ∧ ∀ s ∈ G.srcs, 0 ≤ s.2)
    (hE : ∀ g j, ∀ e ∈ evs g j, 0 ≤ e.mcw ∧ 0 ≤ e.f) (hlt : ∀ j, 0 ≤ lt j) (hfac : 0 ≤ fac)
    (hs : 0 < (raw.map (·.2)).sum)
    (D : EvData K) (rs : List (Nat × Fld × K × K)) (n : Nat) (us : List K) (hu : ∀ u ∈ us, 0 ≤ u ∧ u < 1)
    (k : Nat) (o : List (Nat × List ((Nat × Cand) × K × K × K))) (rest : List K)
    (h : generateEv true (raw.map (·.1)) (normCdf (normalise (raw.map (·.2))).2) D rs n us = some (k, o, rest)) :
    k = n ∧ (o.map (fun e => e.2.length)).sum = n ∧
    ∀ e ∈ o, ∀ p ∈ e.2, ∃ G src ev L U, e.1 < nDs ∧ p.1.2.ds = e.1 ∧
      grps[p.1.2.shg]? = some G ∧ G.srcs[p.1.2.src]? = some src ∧ (evs p.1.2.shg e.1)[p.1.2.ev]? = some ev ∧
      minMax ((evs p.1.2.shg e.1).map (·.s)) = some (L, U) ∧
      (band src.1 G.hbw L U).1 ≤ ev.s ∧ ev.s ≤ (band src.1 G.hbw L U).2 ∧
      (∀ lo hi, G.er = some (lo, hi) → lo ≤ ev.e ∧ ev.e ≤ hi) ∧
      src.2 ≠ 0 ∧ lt e.1 ≠ 0 ∧ ev.mcw ≠ 0 ∧
      validRel D (raw.map (·.1)) rs p.1.1 = true ∧ postProc D p.1.2 = some p.2 := by
  rw [c18_table_batched_refines bss hb] at hraw
  have hw := c18_table_weights_nonneg hpi grps nDs evs lt fac raw hraw hG hE hlt hfac
  obtain ⟨c1, c2, _⟩ := c18_generate_relocated true _ _ D rs n us k o rest h
  obtain ⟨out, hg, hf⟩ := C18.generateEv_factor true _ _ D rs n us k o rest h
  refine ⟨c1, c2, ?_⟩
  intro e' he' p hp
  obtain ⟨i, hi, rfl⟩ := List.getElem_of_mem he'
  have hi' : i < out.length := by rw [hf.length_eq]; exact hi
  obtain ⟨e1, e2, e3⟩ := (List.forall₂_iff_get.mp hf).2 i hi' hi
  simp only [List.get_eq_getElem] at e1 e2 e3
  have hmem : p.1 ∈ out[i].2 := by rw [← e2]; exact List.mem_map_of_mem hp
  obtain ⟨G, src, ev, L, U, a1, a2, a3, a4, a5, a6, a7, a8, a9, a10, a11, a12, a13⟩ :=
    c18_injected_from_band grps nDs evs lt fac raw hraw hw hs _ n us hu k out rest hg
      out[i] (List.getElem_mem hi') p.1 hmem
  rw [← e1] at a1 a2 a5 a6 a11
  exact ⟨G, src, ev, L, U, a1, a2, a3, a4, a5, a6, a7, a8, a9, a10, a11, a12, a13, e3 p hp⟩

end field

/-! ## non-vacuity -/

-- the guards of the distribution theorems are met by the design's witness
example : (∀ x ∈ ([3/10, 3/10, 3/10, 1/10] : List ℚ), 0 ≤ x) ∧ 0 < ([3/10, 3/10, 3/10, 1/10] : List ℚ).sum := by
  constructor
  · intro x hx
    simp only [List.mem_cons, List.not_mem_nil, or_false] at hx
    rcases hx with rfl | rfl | rfl | rfl <;> norm_num
  · norm_num
example : ((5 : Int) - (roundCounts rintQ (5 : ℚ) [3/10, 3/10, 3/10, 1/10]).sum).natAbs ≤ ([19/20] : List ℚ).length := by
  decide +kernel
-- a choice with a zero-weight item in front and in the middle
example : choice true ([0, 1, 0, 3] : List ℚ) 0 = 1 ∧ choice true ([0, 1, 0, 3] : List ℚ) (1/4) = 3 := by
  decide +kernel
-- band of a source at the upper edge of the coverage [-1/2, 1/2] with half width 1/10
example : band (1/2 : ℚ) (1/10) (-1/2) (1/2) = (3/10, 1/2) := by decide +kernel
-- generation: two candidates, the first invalid; one event requested, the invalid draw is replaced
example : (generate true [⟨0, 7, 0, 0⟩, ⟨0, 9, 0, 0⟩] ([1/2, 1] : List ℚ) (fun r => r == 1) 1 [1/4, 1/8, 3/4]).map
    (fun r => (r.1, r.2.1)) = some (1, [(0, [(1, ⟨0, 9, 0, 0⟩)])]) := by decide +kernel
-- a source well away from the poles meets the hypothesis of the relocation theorem
example : ¬ Real.cos 0 < 1e-12 := by rw [Real.cos_zero]; norm_num

-- a zero weight and a correction draw at the same time: w = (0, 1/2, 1/2), total 1: (0, 1/2, 1/2) rounds to (0, 0, 0), one event
-- too few; it is drawn by u = 1/4 → dataset 1, never dataset 0
example : distribute true rintQ 1 ((1 : Int) : ℚ) [0, 1/2, 1/2] [1/4] = some ([0, 1, 0], 1) := by decide +kernel
-- … and one too many: total 3, (0, 3/2, 3/2) → (0, 2, 2); u = 0 removes from dataset 1 (dataset 0 is masked out)
example : distribute true rintQ 3 ((3 : Int) : ℚ) [0, 1/2, 1/2] [0] = some ([0, 1, 2], 1) := by decide +kernel
-- a zero-weight candidate in front and in the middle of the table inside `generate`: rows 0 and 2 are never returned
example : (generate true [⟨0, 1, 0, 0⟩, ⟨0, 2, 0, 0⟩, ⟨0, 3, 0, 0⟩, ⟨0, 4, 0, 0⟩] (normCdf ([0, 1, 0, 1] : List ℚ))
    (fun _ => true) 4 [0, 1/4, 1/2, 3/4]).map (fun r => r.2.1.map (fun e => e.2.map (·.1))) = some [[1, 1, 3, 3]] := by
  decide +kernel
-- the band theorem at its limit 2 w = U − L: the band is the whole coverage
example : band (1/4 : ℚ) (1/2) (-1/2) (1/2) = (-1/2, 1/2) := by decide +kernel
-- mu2flux with a non-zero weight sum and two sources
example : mu2flux (3 : ℚ) 2 [(1/4, 1, 1), (3/4, 2, 1)] = 3/2 * (1/4) + 3/2 * (3/4) * 2 := by decide +kernel

/-! examples for the batched table and the complete generator over ℚ; the transcendental functions are replaced by
arbitrary rational stand-ins (the structural theorems hold for every `Transc`/`Atan2` instance) -/
section examplesQ
local instance : Transc ℚ :=
  { log := id, log1p := id, exp := id, sqrt := id, sin := id, cos := fun _ => 1, asin := id, acos := id,
    pi := 3, ofN := fun n => n, ofI := fun n => n }
local instance : Atan2 ℚ := ⟨fun y _ => y⟩

/-- two groups (3 sources incl. one of weight 0; 1 source with an energy range) × two datasets (one without live
time, one event of MC weight 0), batch sizes 1 and 2 -/
example :
    (tableRawB (fun g => g + 1)
      [(⟨[(0, 1), (1/4, 2), (1/2, 0)], 1/8, none, 1⟩ : Grp ℚ), ⟨[(-1/4, 1)], 1/4, some (2, 5), 2⟩] 2
      (fun _ j => if j = 0 then [⟨-1/2, 1, 1, 1⟩, ⟨0, 3, 2, 1⟩, ⟨1/4, 4, 1, 1⟩, ⟨1/2, 6, 1, 1⟩]
                  else [⟨-1/2, 3, 1, 1⟩, ⟨1/8, 3, 0, 1⟩, ⟨1/2, 3, 1, 1⟩])
      (fun j => if j = 0 then 10 else 0) 1).map
      (fun t => t.map (fun cw => ((cw.1.ds, cw.1.ev, cw.1.shg, cw.1.src), cw.2)))
    = some [((0, 1, 0, 0), 40 / 3), ((0, 2, 0, 1), 40 / 3), ((0, 2, 0, 2), 0), ((0, 3, 0, 2), 0), ((1, 1, 0, 0), 0),
        ((1, 1, 0, 1), 0), ((1, 2, 0, 2), 0), ((0, 1, 1, 0), 40 / 3), ((1, 1, 1, 0), 0)] := by
  decide +kernel

/-- the complete generator: the first drawn row is invalid on a stored field and is redrawn; dataset 1 is checked on
its *relocated* declination; one deviate is left over -/
example :
    (generateEv true [⟨0, 1, 0, 0⟩, ⟨0, 2, 0, 1⟩, ⟨1, 0, 0, 0⟩] ([1/4, 1/2, 1] : List ℚ)
      (⟨fun _ k => some (k, 1/10), fun _ i => some ⟨0, i, 1/2, 1/4⟩, fun _ i _ => some (i : ℚ)⟩ : EvData ℚ)
      [(0, Fld.other 0, 2, 5), (1, Fld.dec, 0, 1)] 3 [0, 1/3, 3/4, 2/5, 1/10]).map
      (fun r => (r.1, r.2.1.map (fun e => (e.1, e.2.map (fun p => (p.1.1, p.2.2.1))))))
    = some (3, [(0, [(1, 273 / 80), (1, 273 / 80)]), (1, [(2, 33 / 80)])]) := by
  decide +kernel

end examplesQ


/-! ## Round 7: the mask of the surplus removal as per-step state; the whole method as one function -/

section r7generic
variable {F : Type} [Add F] [Mul F] [Div F] [LE F] [DecidableLE F] [LT F] [DecidableLT F] [OfNat F 0]

/-- **why the class needs a rounding overshoot ≥ 2**: for a surplus of ONE event, taking the mask `n > 0` once before
the loop and taking it per removed event are the same computation — for every scalar type, weight vector and deviate. -/
theorem c18_decr_hoisted_eq_single (right : Bool) (w : List F) (n : List Int) (u : F) :
    decrHoisted right w n [u] = decr right w n [u] := by
  simp only [decrHoisted, decr, decrOrig]

/-- the entry of the method: with `poisson` the total is the Poisson draw (and the mean was not negative), otherwise
the cast argument -/
theorem c18_entry_total (poisson : Bool) (trunc : F → Option Int) (meanArg : F) (pdraw mean : Int)
    (h : entryTotal poisson trunc meanArg pdraw = some mean) :
    (poisson = true → mean = pdraw ∧ ¬ meanArg < 0) ∧ (poisson = false → trunc meanArg = some mean) := by
  unfold entryTotal at h
  cases poisson
  · simpa using h
  · simp only [if_true] at h
    split_ifs at h with hneg
    simp only [Option.some.injEq] at h
    exact ⟨fun _ => ⟨h.symm, hneg⟩, fun hf => by simp at hf⟩

/-- **the whole method conserves the count** (`MultiDatasetSignalGenerator.generate_signal_events`: entry, rounding and
correction, loop over the per-dataset generators) — for every scalar type (doubles included), rounding and cast
function, weight vector, deviates: whenever it returns, the reported number equals the total the entry produced (Poisson
draw or cast argument) and equals the number of events in the returned dictionary; no more deviates are used than supplied.
Only hypothesis: every per-dataset generator returns as many events as it is asked for. -/
theorem c18_multi_generate_conserved (right : Bool) (rnd : F → Int) (trunc : F → Option Int) (ofInt : Int → F)
    (poisson : Bool) (meanArg : F) (pdraw : Int) (w us : List F) (gens : List DsGen)
    (hsub : ∀ g ∈ gens, ∀ c r, g c = some r → (r.1 : Int) = c ∧ (r.2.map (·.2)).sum = r.1)
    (n : Nat) (d : List (Nat × Nat)) (k : Nat)
    (h : multiGenerate right rnd trunc ofInt poisson meanArg pdraw w us gens = some (n, d, k)) :
    ∃ mean, entryTotal poisson trunc meanArg pdraw = some mean ∧ (n : Int) = mean ∧ (d.map (·.2)).sum = n
      ∧ k ≤ us.length := by
  unfold multiGenerate at h
  split at h
  · exact absurd h (by simp)
  · rename_i mean hm
    split at h
    · exact absurd h (by simp)
    · rename_i counts k' hd
      split at h
      · exact absurd h (by simp)
      · rename_i n' d' ha
        simp only [Option.some.injEq, Prod.mk.injEq] at h
        obtain ⟨rfl, rfl, rfl⟩ := h
        obtain ⟨s1, _, s3⟩ := c18_sum_eq_mean right rnd mean (ofInt mean) w us counts _ hd
        obtain ⟨a1, a2⟩ := c18_multi_count_conserved counts gens hsub _ _ ha
        exact ⟨mean, hm, by rw [a1, s1], a2, s3⟩

end r7generic

namespace C18
/-- the loop over the per-dataset generators is defined when every request is non-negative and every generator serves
non-negative requests -/
theorem aggLoop_total : ∀ (counts : List Int) (gens : List DsGen) (n : Nat) (d : List (Nat × Nat)),
    (∀ c ∈ counts, 0 ≤ c) → (∀ g ∈ gens, ∀ c, 0 ≤ c → ∃ r, g c = some r) → ∃ r, aggLoop n d counts gens = some r
  | [], gens, n, d, _, _ => by cases gens <;> exact ⟨_, rfl⟩
  | _ :: _, [], n, d, _, _ => ⟨_, rfl⟩
  | c :: cs, g :: gs, n, d, hc, hg => by
    obtain ⟨⟨k, ev⟩, hr⟩ := hg g (by simp) c (hc c (by simp))
    simp only [aggLoop, hr]
    exact aggLoop_total cs gs _ _ (fun c' h' => hc c' (by simp [h'])) (fun g' h' => hg g' (by simp [h']))
end C18

section r7field
variable {K : Type} [Field K] [LinearOrder K] [IsStrictOrderedRing K]

/-- **the whole method returns under the guard** — and therefore never hands a negative request to a per-dataset
generator: non-negative total out of the entry, non-negative weights with positive sum, deviates in `[0,1)`, admissible
rounding, enough deviates, one generator per dataset, generators that serve every non-negative request. -/
theorem c18_multi_generate_no_error (rnd : K → Int) (hr : C18.RoundOK rnd) (trunc : K → Option Int) (ofInt : Int → K)
    (hof : ∀ z : Int, 0 ≤ z → 0 ≤ ofInt z) (poisson : Bool) (meanArg : K) (pdraw mean : Int)
    (he : entryTotal poisson trunc meanArg pdraw = some mean) (hmean : 0 ≤ mean)
    (w us : List K) (hnn : ∀ x ∈ w, 0 ≤ x) (hs : 0 < w.sum) (hu : ∀ u ∈ us, 0 ≤ u ∧ u < 1)
    (hk : (mean - (roundCounts rnd (ofInt mean) w).sum).natAbs ≤ us.length)
    (gens : List DsGen) (hlen : gens.length = w.length)
    (hdef : ∀ g ∈ gens, ∀ c, 0 ≤ c → ∃ r, g c = some r) :
    ∃ n d k, multiGenerate true rnd trunc ofInt poisson meanArg pdraw w us gens = some (n, d, k) := by
  obtain ⟨counts, k, hd, hI⟩ := C18.distribute_ok rnd hr mean hmean (ofInt mean) (hof mean hmean) w us hnn hs hu hk
  have hc : ∀ c ∈ counts, 0 ≤ c := by
    intro x hx
    obtain ⟨i, hi, rfl⟩ := List.getElem_of_mem hx
    exact (hI.2 i hi (by rw [← hI.1]; exact hi)).1
  obtain ⟨⟨n, d⟩, ha⟩ := C18.aggLoop_total counts gens 0 [] hc hdef
  refine ⟨n, d, k, ?_⟩
  unfold multiGenerate
  simp only [he, hd]
  have : aggregate counts gens = some (n, d) := by
    unfold aggregate
    rw [if_neg (by rw [hlen, hI.1]; simp), ha]
  simp only [this]

end r7field

/-- `int()` on ℚ is the identity on integers … -/
theorem c18_truncQ_int (z : Int) : truncQ (z : ℚ) = some z := by
  unfold truncQ
  by_cases h : (0 : ℚ) ≤ (z : ℚ)
  · simp [h]
  · simp only [h, if_false, Option.some.injEq]
    rw [← Int.cast_neg, Rat.floor_intCast]; ring

/-- … and maps a non-negative argument to a non-negative total not above it (`int(3.9) = 3`): the hypothesis
`0 ≤ mean` of `c18_multi_generate_no_error` is established by the cast for every non-negative argument -/
theorem c18_truncQ_nonneg (q : ℚ) (hq : 0 ≤ q) : ∃ t, truncQ q = some t ∧ 0 ≤ t ∧ (t : ℚ) ≤ q ∧ q < t + 1 := by
  refine ⟨q.floor, by simp [truncQ, hq], Rat.le_floor_iff.mpr (by simpa using hq), ?_, ?_⟩
  · exact Rat.floor_le q
  · exact_mod_cast Rat.lt_floor_add_one q

/-- the claim "per-dataset numbers are non-negative" for a removal loop that takes the mask `n > 0` once, before the
loop (NOT the code: `decrHoisted`) -/
def c18_nonneg_hoisted_statement : Prop :=
  ∀ (mean : Int) (w us : List ℚ) (n : List Int) (k : Nat), 0 ≤ mean → (∀ x ∈ w, 0 ≤ x) → 0 < w.sum →
    (∀ u ∈ us, 0 ≤ u ∧ u < 1) → distributeHoisted true rintQ mean (mean : ℚ) w us = some (n, k) →
    ∀ x ∈ n, 0 ≤ x

/-- **the mask must be re-read after every removed event**: five datasets of weight 1/5, total 3: rounding gives
(1,1,1,1,1), surplus 2; with the stale mask the deviates (0, 0) take both events from dataset 0: (−1,1,1,1,1). -/
theorem c18_nonneg_hoisted_counterexample : ¬ c18_nonneg_hoisted_statement := by
  intro h
  have e : distributeHoisted true rintQ 3 ((3 : Int) : ℚ) [1/5, 1/5, 1/5, 1/5, 1/5] [0, 0]
      = some ([-1, 1, 1, 1, 1], 2) := by decide +kernel
  have := h 3 [1/5, 1/5, 1/5, 1/5, 1/5] [0, 0] [-1, 1, 1, 1, 1] 2 (by norm_num)
    (by intro x hx; simp only [List.mem_cons, List.not_mem_nil, or_false] at hx; rcases hx with rfl | rfl | rfl | rfl | rfl <;> norm_num)
    (by norm_num) (by intro u hu; simp only [List.mem_cons, List.not_mem_nil, or_false] at hu; rcases hu with rfl | rfl <;> norm_num)
    e (-1) (by simp)
  omega

/-- on the same input the code re-reads the mask: the second event comes from the next dataset that still has one -/
example : distribute true rintQ 3 ((3 : Int) : ℚ) [1/5, 1/5, 1/5, 1/5, 1/5] [0, 0] = some ([0, 0, 1, 1, 1], 2) := by
  decide +kernel

/-- the whole method on ℚ: argument 3.9 → total 3, surplus 2 removed from datasets 0 and 1, five recording generators -/
example : multiGenerate true rintQ truncQ (fun z => (z : ℚ)) false (39/10) 0 [1/5, 1/5, 1/5, 1/5, 1/5] [0, 0]
    ((List.range 5).map fun j c => if c < 0 then none else some (c.toNat, [(j, c.toNat)]))
    = some (3, [(0, 0), (1, 0), (2, 1), (3, 1), (4, 1)], 2) := by
  decide +kernel

/-- a negative Poisson mean and a missing generator are refused -/
example : multiGenerate true rintQ truncQ (fun z => (z : ℚ)) true (-1) 4 [1/2, 1/2] [0, 0]
    ((List.range 2).map fun j c => if c < 0 then none else some (c.toNat, [(j, c.toNat)])) = none := by
  decide +kernel
example : multiGenerate true rintQ truncQ (fun z => (z : ℚ)) false 4 0 [1/2, 1/2] []
    ((List.range 1).map fun j c => if c < 0 then none else some (c.toNat, [(j, c.toNat)])) = none := by
  decide +kernel


/-! ### how far a per-dataset number can be from its rounded share -/

namespace C18
section r7pt
variable {F : Type} [Add F] [Mul F] [Div F] [LE F] [DecidableLE F] [LT F] [DecidableLT F] [OfNat F 0]

theorem bump_get_bounds (n n' : List Int) (i : Nat) (d : Int) (hb : bump n i d = some n') (j : Nat) (x' : Int)
    (h' : n'[j]? = some x') : ∃ x, n[j]? = some x ∧ (x' = x ∨ x' = x + d) := by
  have := bump_get n i d n' hb j
  rw [h'] at this
  split_ifs at this with hji
  · cases hn : n[j]? with
    | none => rw [hn] at this; simp at this
    | some x =>
      rw [hn] at this
      simp only [Option.map_some, Option.some.injEq] at this
      exact ⟨x, rfl, Or.inr this⟩
  · exact ⟨x', this.symm, Or.inl rfl⟩

theorem decr_pointwise (right : Bool) (w : List F) : ∀ (us : List F) (n n' : List Int),
    decr right w n us = some n' → ∀ (j : Nat) (x' : Int), n'[j]? = some x' →
      ∃ x, n[j]? = some x ∧ x - us.length ≤ x' ∧ x' ≤ x
  | [], n, n', h, j, x', h' => by
    simp only [decr, Option.some.injEq] at h; subst h; exact ⟨x', h', by simp, le_refl _⟩
  | u :: us, n, n', h, j, x', h' => by
    simp only [decr] at h
    split at h
    · exact absurd h (by simp)
    · rename_i t ht
      obtain ⟨y, hy, h1, h2⟩ := decr_pointwise right w us t n' h j x' h'
      obtain ⟨x, hx, hor⟩ := bump_get_bounds _ _ _ _ ht j y hy
      refine ⟨x, hx, ?_, ?_⟩ <;> (try simp only [List.length_cons]) <;> (try push_cast) <;> (rcases hor with rfl | rfl <;> omega)

theorem incr_pointwise (right : Bool) (w : List F) : ∀ (us : List F) (n n' : List Int),
    incr right w n us = some n' → ∀ (j : Nat) (x' : Int), n'[j]? = some x' →
      ∃ x, n[j]? = some x ∧ x ≤ x' ∧ x' ≤ x + us.length
  | [], n, n', h, j, x', h' => by
    simp only [incr, Option.some.injEq] at h; subst h; exact ⟨x', h', le_refl _, by simp⟩
  | u :: us, n, n', h, j, x', h' => by
    simp only [incr] at h
    split at h
    · exact absurd h (by simp)
    · rename_i t ht
      obtain ⟨y, hy, h1, h2⟩ := incr_pointwise right w us t n' h j x' h'
      obtain ⟨x, hx, hor⟩ := bump_get_bounds _ _ _ _ ht j y hy
      refine ⟨x, hx, ?_, ?_⟩ <;> (try simp only [List.length_cons]) <;> (try push_cast) <;> (rcases hor with rfl | rfl <;> omega)

end r7pt
end C18

section r7share
variable {F : Type} [Add F] [Mul F] [Div F] [LE F] [DecidableLE F] [LT F] [DecidableLT F] [OfNat F 0]

/-- **each per-dataset number stays within the size of the correction of its rounded share** — for every scalar type:
the number of deviates consumed is `|total − Σ rounded shares|`, dataset `j` ends within that distance of
`round(total · w_j)`, a top-up never lowers and a surplus removal never raises a dataset's number.
(The harness oracle `|n_j − total·w_j| ≤ ½ + J/2` is this plus `|round x − x| ≤ ½`.) -/
theorem c18_count_near_rounded_share (right : Bool) (rnd : F → Int) (mean : Int) (m : F) (w us : List F)
    (n : List Int) (k : Nat) (h : distribute right rnd mean m w us = some (n, k)) :
    (k : Int) = |mean - (roundCounts rnd m w).sum| ∧
    ∀ (j : Nat) (x : Int), n[j]? = some x → ∃ wj, w[j]? = some wj ∧ rnd (m * wj) - k ≤ x ∧ x ≤ rnd (m * wj) + k
      ∧ ((roundCounts rnd m w).sum ≤ mean → rnd (m * wj) ≤ x)
      ∧ (mean ≤ (roundCounts rnd m w).sum → x ≤ rnd (m * wj)) := by
  unfold distribute distributeWith at h
  simp only at h
  have hrc : ∀ (j : Nat) (y : Int), (roundCounts rnd m w)[j]? = some y → ∃ wj, w[j]? = some wj ∧ y = rnd (m * wj) := by
    intro j y hy
    simp only [roundCounts, List.getElem?_map, Option.map_eq_some_iff] at hy
    obtain ⟨wj, hwj, rfl⟩ := hy
    exact ⟨wj, hwj, rfl⟩
  by_cases h1 : (roundCounts rnd m w).sum < mean
  · rw [if_pos h1] at h
    by_cases h2 : us.length < (mean - (roundCounts rnd m w).sum).toNat
    · rw [if_pos h2] at h; exact absurd h (by simp)
    · rw [if_neg h2] at h
      simp only [Option.map_eq_some_iff, Prod.mk.injEq] at h
      obtain ⟨t, ht, rfl, rfl⟩ := h
      have hl : (List.take (mean - (roundCounts rnd m w).sum).toNat us).length
          = (mean - (roundCounts rnd m w).sum).toNat := by
        rw [List.length_take]; omega
      refine ⟨by rw [abs_of_pos (by omega)]; omega, ?_⟩
      intro j x hx
      obtain ⟨y, hy, b1, b2⟩ := C18.incr_pointwise right w _ _ _ ht j x hx
      obtain ⟨wj, hwj, rfl⟩ := hrc j y hy
      rw [hl] at b2
      exact ⟨wj, hwj, by omega, by omega, fun _ => b1, fun _ => by omega⟩
  · rw [if_neg h1] at h
    by_cases h3 : mean < (roundCounts rnd m w).sum
    · rw [if_pos h3] at h
      by_cases h2 : us.length < ((roundCounts rnd m w).sum - mean).toNat
      · rw [if_pos h2] at h; exact absurd h (by simp)
      · rw [if_neg h2] at h
        simp only [Option.map_eq_some_iff, Prod.mk.injEq] at h
        obtain ⟨t, ht, rfl, rfl⟩ := h
        have hl : (List.take ((roundCounts rnd m w).sum - mean).toNat us).length
            = ((roundCounts rnd m w).sum - mean).toNat := by
          rw [List.length_take]; omega
        refine ⟨by rw [abs_of_neg (by omega)]; omega, ?_⟩
        intro j x hx
        obtain ⟨y, hy, b1, b2⟩ := C18.decr_pointwise right w _ _ _ ht j x hx
        obtain ⟨wj, hwj, rfl⟩ := hrc j y hy
        rw [hl] at b1
        exact ⟨wj, hwj, by omega, by omega, fun _ => by omega, fun _ => b2⟩
    · rw [if_neg h3] at h
      simp only [Option.some.injEq, Prod.mk.injEq] at h
      obtain ⟨rfl, rfl⟩ := h
      have e : mean - (roundCounts rnd m w).sum = 0 := by omega
      refine ⟨by rw [e]; simp, ?_⟩
      intro j x hx
      obtain ⟨wj, hwj, rfl⟩ := hrc j x hx
      exact ⟨wj, hwj, by simp, by simp, fun _ => le_refl _, fun _ => le_refl _⟩

end r7share

/-- non-vacuity: total 3 over five equal weights — two deviates, every dataset within 2 of its rounded share 1 -/
example : ∃ n, distribute true rintQ 3 ((3 : Int) : ℚ) [1/5, 1/5, 1/5, 1/5, 1/5] [0, 0] = some (n, 2) ∧
    (2 : Int) = |3 - (roundCounts rintQ ((3 : Int) : ℚ) [1/5, 1/5, 1/5, 1/5, 1/5]).sum| :=
  ⟨[0, 0, 1, 1, 1], by decide +kernel, by decide +kernel⟩


/-! ### the share bound of the harness oracle, proved -/

section r7bound
variable {K : Type} [Field K] [LinearOrder K] [IsStrictOrderedRing K]

namespace C18
/-- a rounding function that stays within ½ of its argument -/
def RoundHalf (rnd : K → Int) : Prop := ∀ x, |((rnd x : Int) : K) - x| ≤ 1 / 2

theorem roundCounts_sum_near (rnd : K → Int) (hh : RoundHalf rnd) (m : K) : ∀ w : List K,
    |(((roundCounts rnd m w).sum : Int) : K) - m * w.sum| ≤ (w.length : K) / 2
  | [] => by simp [roundCounts]
  | a :: w => by
    have ih := roundCounts_sum_near rnd hh m w
    have ha := hh (m * a)
    simp only [roundCounts, List.map_cons, List.sum_cons, List.length_cons, Int.cast_add, Nat.cast_add, Nat.cast_one,
      mul_add] at ih ⊢
    rw [abs_le] at ih ha ⊢
    constructor <;> linarith [ih.1, ih.2, ha.1, ha.2]
end C18

/-- **the share bound** (was oracle-only): with weights that add up to 1 and a rounding within ½, the correction uses at
most `J/2` deviates and every dataset ends within `½ + J/2` of its exact share `total · w_j` (J = number of datasets). -/
theorem c18_share_bound (right : Bool) (rnd : K → Int) (hh : C18.RoundHalf rnd) (mean : Int) (w us : List K)
    (hsum : w.sum = 1) (n : List Int) (k : Nat) (h : distribute right rnd mean (mean : K) w us = some (n, k)) :
    (k : K) ≤ (w.length : K) / 2 ∧
    ∀ (j : Nat) (x : Int), n[j]? = some x →
      ∃ wj, w[j]? = some wj ∧ |(x : K) - (mean : K) * wj| ≤ 1 / 2 + (w.length : K) / 2 := by
  obtain ⟨hk, hp⟩ := c18_count_near_rounded_share right rnd mean (mean : K) w us n k h
  have hs := C18.roundCounts_sum_near rnd hh (mean : K) w
  rw [hsum, mul_one] at hs
  have hkK : (k : K) ≤ (w.length : K) / 2 := by
    have : ((k : Int) : K) = |(mean : K) - (((roundCounts rnd (mean : K) w).sum : Int) : K)| := by
      rw [hk]; push_cast; rfl
    rw [abs_sub_comm] at this
    have h2 : ((k : Int) : K) = (k : K) := by push_cast; rfl
    rw [← h2, this]; exact hs
  refine ⟨hkK, ?_⟩
  intro j x hx
  obtain ⟨wj, hwj, b1, b2, _, _⟩ := hp j x hx
  refine ⟨wj, hwj, ?_⟩
  have hr := hh ((mean : K) * wj)
  have c1 : ((rnd ((mean : K) * wj) : Int) : K) - (k : K) ≤ (x : K) := by exact_mod_cast b1
  have c2 : (x : K) ≤ ((rnd ((mean : K) * wj) : Int) : K) + (k : K) := by exact_mod_cast b2
  rw [abs_le] at hr ⊢
  constructor <;> linarith [hr.1, hr.2]

end r7bound

/-- round-half-to-even on ℚ stays within ½ -/
theorem c18_rintQ_half : C18.RoundHalf rintQ := by
  intro x
  have f1 : ((x.floor : Int) : ℚ) ≤ x := Rat.floor_le x
  have f2 : x < ((x.floor : Int) : ℚ) + 1 := by exact_mod_cast Rat.lt_floor_add_one x
  unfold rintQ
  simp only
  rw [abs_le]
  split_ifs <;> (push_cast; constructor <;> linarith)

/-- non-vacuity: five equal weights, total 3 — two deviates ≤ 5/2, every number within 3 of its share 0.6 -/
example : ([1/5, 1/5, 1/5, 1/5, 1/5] : List ℚ).sum = 1 ∧
    distribute true rintQ 3 ((3 : Int) : ℚ) [1/5, 1/5, 1/5, 1/5, 1/5] [0, 0] = some ([0, 0, 1, 1, 1], 2) :=
  ⟨by norm_num, by decide +kernel⟩
